#!/bin/bash
# Runs the repository's own test suite with the verif guard OFF and compares with BASELINE.json's stable_pass list.
set -u
cd /repo
export GOFLAGS=-mod=mod GOPROXY=off
OUT=${1:-/tmp/verif-baseline.json}
go test -mod=mod -json -vet=off -count=1 -timeout 25m ./... > "$OUT" 2>/dev/null
python3 - "$OUT" <<'PY'
import json,sys
passed=set(); failed=set()
for l in open(sys.argv[1]):
    try: e=json.loads(l)
    except Exception: continue
    t=e.get('Test')
    if not t: continue
    k=e['Package']+'::'+t
    if e['Action']=='pass': passed.add(k)
    elif e['Action']=='fail': failed.add(k)
try:
    b=json.load(open('/root/.vp/BASELINE.json'))
    stable=set(b['stable_pass'])
except Exception:
    stable=None
if stable is None:
    print(f"passed={len(passed)} failed={len(failed)} (no BASELINE.json to compare)")
    sys.exit(0 if not failed else 1)
missing=sorted(stable-passed)
print(f"stable_pass={len(stable)} passed_now={len(passed & stable)} missing={len(missing)}")
for m in missing[:40]: print("  MISSING", m)
sys.exit(1 if missing else 0)
PY
