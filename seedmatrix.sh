#!/bin/bash
# ./seedmatrix.sh [-p N] [seed...] : run every seeded change (default: all under seeded/) against the check of its
# property on a scratch copy of /repo's HEAD (seedtest.sh) and record the outcome in seeded/RESULTS.tsv
# (seed, check, tier, exit, outcome, first finding). /repo itself is never patched.
P=2
if [ "$1" = "-p" ]; then P=$2; shift 2; fi
cd /verif
if [ $# -gt 0 ]; then printf '%s\n' "$@" > /tmp/seedmatrix.list; else ls seeded | grep -E '^C[0-9]{2}-' > /tmp/seedmatrix.list; fi
OUT=/tmp/seedmatrix.$$.tsv; : > $OUT
one() {
  s=$1; id=${s%%-*}
  if [ ! -f seeded/$s/patch.diff ]; then return; fi
  o=$(./seedtest.sh $s $id quick 2>&1)
  rc=$(echo "$o" | sed -n 's/.* exit=\([0-9]*\).*/\1/p' | head -1)
  first=$(echo "$o" | grep -m1 '^VIOLATION' | sed 's/.*replay=.*\///; s/\.json$//')
  case "$rc" in
    1) if [ -n "$first" ]; then oc=caught; else oc=exit1-no-violation-line; fi;;
    0) oc=missed;;
    2) oc=inconclusive;;
    3) oc=build-failed;;
    *) oc="other:$(echo "$o" | head -1 | cut -c1-60)";;
  esac
  printf '%s\t%s\tquick\t%s\t%s\t%s\n' "$s" "$id" "${rc:--}" "$oc" "$first"
}
export -f one
cat /tmp/seedmatrix.list | xargs -P $P -I{} bash -c 'one {}' >> $OUT
head=$(git -C /repo rev-parse --short HEAD)
# merge: new results replace old lines of the same seed
touch seeded/RESULTS.tsv
awk -F'\t' 'NR==FNR{new[$1]=$0; next} !($1 in new) && $1!="#seed"' $OUT seeded/RESULTS.tsv > /tmp/seedmatrix.merge.$$
{ printf '#seed\tcheck\ttier\texit\toutcome\tfirst_finding\t(last run against /repo %s)\n' "$head"; cat /tmp/seedmatrix.merge.$$ $OUT | sort; } > seeded/RESULTS.tsv
rm -f $OUT /tmp/seedmatrix.merge.$$
grep -c caught seeded/RESULTS.tsv
