package c07

import (
	"bytes"
	"fmt"
	"net"
	"os"
	"testing"
	"time"

	"github.com/cilium/ebpf"
	"go.uber.org/zap"

	"github.com/codelaboratoryltd/bng/pkg/dhcp"
	bngebpf "github.com/codelaboratoryltd/bng/pkg/ebpf"
	"github.com/codelaboratoryltd/bng/pkg/qos"

	"verif/harness/internal/cplane"
)

// fullTwin returns a real kernel hash map with the key/value sizes of m, one slot, occupied by a foreign key:
// every insert of a new key is refused by the kernel (what a full map does in production).
func fullTwin(t *testing.T, m *ebpf.Map) *ebpf.Map {
	tw, err := ebpf.NewMap(&ebpf.MapSpec{Type: ebpf.Hash, KeySize: m.KeySize(), ValueSize: m.ValueSize(), MaxEntries: 1})
	if err != nil {
		t.Fatal(err)
	}
	k := bytes.Repeat([]byte{0xfe}, int(m.KeySize()))
	if err := tw.Put(k, make([]byte, m.ValueSize())); err != nil {
		t.Fatal(err)
	}
	return tw
}

// TestUnboundQoS: "other traffic" for the rate limiter is traffic of an address that has no policy (any more).
// After every way a policy can go away - removed, never completely installed (a map write refused half-way),
// replaced by unlimited - a burst far above the old contract addressed to that subscriber must be treated exactly
// like the same burst addressed to an address that never had a policy.
func TestUnboundQoS(t *testing.T) {
	k, err := cplane.LoadKernel("qos_ratelimit")
	if err != nil {
		return // reported by TestBounds
	}
	defer k.Close()
	n, err := cplane.Start("qos_ratelimit", os.Getenv("VERIF_BUILD")+"/C07.unboundqos.journal")
	if err != nil {
		t.Fatal(err)
	}
	defer n.Close()
	rng := run.Rand("unbound-qos")
	type scen struct {
		name string
		do   func(mgr *qos.Manager, ip net.IP, eg, in *ebpf.Map) []string
	}
	pol := func(ip net.IP) *qos.SubscriberQoS {
		return &qos.SubscriberQoS{IP: ip, DownloadBPS: 8000 * uint64(1+rng.IntN(100)), UploadBPS: 8000 * uint64(1+rng.IntN(100)), BurstBytes: uint32(1500 + rng.IntN(3000)), Priority: 1}
	}
	scens := []scen{
		{"set-remove", func(m *qos.Manager, ip net.IP, eg, in *ebpf.Map) []string {
			e1 := m.SetSubscriberQoS(pol(ip))
			e2 := m.RemoveSubscriberQoS(ip)
			return []string{fmt.Sprintf("SetSubscriberQoS -> %v", e1), fmt.Sprintf("RemoveSubscriberQoS -> %v", e2)}
		}},
		{"set-set-remove", func(m *qos.Manager, ip net.IP, eg, in *ebpf.Map) []string {
			m.SetSubscriberQoS(pol(ip))
			m.SetSubscriberQoS(pol(ip))
			e := m.RemoveSubscriberQoS(ip)
			return []string{"SetSubscriberQoS x2", fmt.Sprintf("RemoveSubscriberQoS -> %v", e)}
		}},
		{"ingress-write-refused-then-remove", func(m *qos.Manager, ip net.IP, eg, in *ebpf.Map) []string {
			m.VerifSetMaps(eg, fullTwin(t, in), nil)
			e1 := m.SetSubscriberQoS(pol(ip))
			m.VerifSetMaps(eg, in, nil)
			e2 := m.RemoveSubscriberQoS(ip)
			return []string{fmt.Sprintf("SetSubscriberQoS with the upload map full -> %v", e1), fmt.Sprintf("RemoveSubscriberQoS -> %v", e2)}
		}},
		{"egress-write-refused-then-remove", func(m *qos.Manager, ip net.IP, eg, in *ebpf.Map) []string {
			m.VerifSetMaps(fullTwin(t, eg), in, nil)
			e1 := m.SetSubscriberQoS(pol(ip))
			m.VerifSetMaps(eg, in, nil)
			e2 := m.RemoveSubscriberQoS(ip)
			return []string{fmt.Sprintf("SetSubscriberQoS with the download map full -> %v", e1), fmt.Sprintf("RemoveSubscriberQoS -> %v", e2)}
		}},
		{"set-then-refused-update-then-remove", func(m *qos.Manager, ip net.IP, eg, in *ebpf.Map) []string {
			m.SetSubscriberQoS(pol(ip))
			m.VerifSetMaps(eg, fullTwin(t, in), nil)
			e1 := m.SetSubscriberQoS(pol(ip))
			m.VerifSetMaps(eg, in, nil)
			e2 := m.RemoveSubscriberQoS(ip)
			return []string{"SetSubscriberQoS", fmt.Sprintf("SetSubscriberQoS again with the upload map full -> %v", e1), fmt.Sprintf("RemoveSubscriberQoS -> %v", e2)}
		}},
	}
	rounds := run.Pick(6, 60)
	for r := 0; r < rounds; r++ {
		for _, sc := range scens {
			clearKernel(k)
			eg, in := k.Coll.Maps["qos_egress"], k.Coll.Maps["qos_ingress"]
			mgr, _ := qos.NewManager(qos.ManagerConfig{Interface: "lo"}, nil, zap.NewNop())
			mgr.VerifSetMaps(eg, in, nil)
			was := net.IPv4(10, byte(1+rng.IntN(200)), byte(rng.IntN(256)), byte(1+rng.IntN(250))).To4()
			never := net.IPv4(11, byte(1+rng.IntN(200)), byte(rng.IntN(256)), byte(1+rng.IntN(250))).To4()
			mgr.SetSubscriberQoS(&qos.SubscriberQoS{IP: net.IPv4(10, 250, 0, 1).To4(), DownloadBPS: 8000, UploadBPS: 8000, BurstBytes: 1500}) // a bystander that stays
			steps := sc.do(mgr, was, eg, in)
			copyMaps(t, k, n)
			for _, dir := range []string{"egress", "ingress"} {
				mk := func(ip net.IP) []byte {
					if dir == "egress" {
						return cplane.Eth(cliMAC, srvMAC, 0x0800, nil, cplane.IPv4(farIP, ip, 17, 5, cplane.UDP(1, 2, make([]byte, 1400))))
					}
					return cplane.Eth(srvMAC, cliMAC, 0x0800, nil, cplane.IPv4(ip, farIP, 17, 5, cplane.UDP(1, 2, make([]byte, 1400))))
				}
				var va, vb []int64
				for i := 0; i < 40; i++ { // 56 kB back to back: far above any of the old contracts
					n.Clock(uint64(5_000_000_000 + i*1000))
					ra, e1 := n.Run("qos_"+dir+"_prog", mk(was), cplane.RunOpt{})
					rb, e2 := n.Run("qos_"+dir+"_prog", mk(never), cplane.RunOpt{})
					if e1 != nil || e2 != nil {
						run.Violation("bpf/qos_ratelimit.c", "stays-inside-packet", "sanitizer-or-guard-fault", fmt.Sprint(e1, e2), nil)
						return
					}
					va, vb = append(va, ra.Verdict), append(vb, rb.Verdict)
				}
				run.Eval()
				run.Count("unbound_qos_compared_"+sc.name, 1)
				run.Nontrivial(fmt.Sprintf("unboundqos|%s|%s|%d", sc.name, dir, r))
				if fmt.Sprint(va) != fmt.Sprint(vb) {
					run.Violation("qos.Manager.RemoveSubscriberQoS+bpf/qos_ratelimit.c", "unbound-subscriber-is-other-traffic", "stale-bucket-after-remove/"+sc.name+"/"+dir,
						fmt.Sprintf("%v: 40 x 1400-byte frames (%s) for the address whose policy is gone get verdicts %v, the same frames for an address that never had a policy get %v", steps, dir, va, vb),
						map[string]any{"steps": steps, "direction": dir, "address": was.String()})
				}
			}
		}
	}
}

// TestUnboundFastPath: a DHCP request of a station that has no cache entry (never had one, had one that was removed,
// or is only a near miss of a cached circuit-id) is other traffic for the DHCP fast path: it must be handed to
// userspace unmodified, whatever else is cached.
func TestUnboundFastPath(t *testing.T) {
	k, err := cplane.LoadKernel("dhcp_fastpath")
	if err != nil {
		return
	}
	defer k.Close()
	n, err := cplane.Start("dhcp_fastpath", os.Getenv("VERIF_BUILD")+"/C07.unboundfp.journal")
	if err != nil {
		t.Fatal(err)
	}
	defer n.Close()
	rng := run.Rand("unbound-fp")
	rounds := run.Pick(40, 600)
	for r := 0; r < rounds; r++ {
		clearKernel(k)
		ld, _ := bngebpf.NewLoader("lo", zap.NewNop())
		ld.VerifSetMaps(k.Coll.Maps)
		dp, _ := dhcp.NewPool(dhcp.PoolConfig{ID: 1, Name: "p", Network: "10.20.0.0/16", Gateway: "10.20.0.1", DNSServers: []string{"8.8.8.8"}, LeaseTime: time.Hour})
		dhcp.NewPoolManager(ld, nil).AddPool(dp)
		ld.SetServerConfig(srvMAC, net.IPv4(10, 20, 0, 1), 2)
		pa := &bngebpf.PoolAssignment{PoolID: 1, AllocatedIP: bngebpf.IPToMapUint32(subIP), LeaseExpiry: ^uint64(0) >> 1}
		cl := []int{32, 32, 31, 12, 1}[r%5]
		cid := make([]byte, cl)
		for i := range cid {
			cid[i] = byte('a' + rng.IntN(26))
		}
		bound := net.HardwareAddr{0x02, 0x77, byte(rng.IntN(256)), byte(rng.IntN(256)), byte(rng.IntN(256)), 1}
		ld.AddSubscriber(bngebpf.MACToUint64(bound), pa)
		ld.AddCircuitIDSubscriber(cid, pa)
		// a second subscriber that was cached and is gone again
		gone := net.HardwareAddr{0x02, 0x78, byte(rng.IntN(256)), byte(rng.IntN(256)), byte(rng.IntN(256)), 2}
		gcid := append([]byte("gone-"), cid[:min(len(cid), 20)]...)
		ld.AddSubscriber(bngebpf.MACToUint64(gone), pa)
		ld.AddCircuitIDSubscriber(gcid, pa)
		ld.RemoveSubscriber(bngebpf.MACToUint64(gone))
		ld.RemoveCircuitIDSubscriber(gcid)
		// VLAN-keyed entries (QinQ pair, S-VLAN only, C-VLAN only) that were cached and removed again
		vs, vc := uint16(2+rng.IntN(4000)), uint16(2+rng.IntN(4000))
		vlanGone := [][2]uint16{{vs, vc}, {vs + 1, 0}, {0, vc + 1}}
		for _, v := range vlanGone {
			ld.AddVLANSubscriber(v[0], v[1], pa)
		}
		for _, v := range vlanGone {
			ld.RemoveVLANSubscriber(v[0], v[1])
		}
		copyMaps(t, k, n)
		for vi, v := range vlanGone {
			var tagSets [][][2]uint16
			switch {
			case v[0] != 0 && v[1] != 0:
				tagSets = [][][2]uint16{{{0x88a8, v[0]}, {0x8100, v[1]}}, {{0x8100, v[0]}, {0x8100, v[1]}}}
			case v[1] == 0:
				tagSets = [][][2]uint16{{{0x8100, v[0]}}, {{0x88a8, v[0]}}}
			default:
				tagSets = [][][2]uint16{{{0x8100, v[1]}}, {{0x88a8, v[1]}}}
			}
			for _, tags := range tagSets {
				for _, msg := range []byte{1, 3} {
					pl := dhcpPayload(msg, nil, nil, 120, 6)
					str := net.HardwareAddr{0x06, 0x02, byte(rng.IntN(256)), byte(rng.IntN(256)), byte(r), byte(vi)}
					copy(pl[28:34], str)
					frame := cplane.Eth(net.HardwareAddr{0xff, 0xff, 0xff, 0xff, 0xff, 0xff}, str, 0x0800, tags, cplane.IPv4(net.IPv4zero, net.IPv4bcast, 17, 5, cplane.UDP(68, 67, pl)))
					n.Clock(1000 * 1_000_000_000)
					res, err := n.Run("dhcp_fastpath_prog", frame, cplane.RunOpt{IfIndex: 2})
					if err != nil {
						run.Violation("bpf/dhcp_fastpath.c:dhcp_fastpath_prog", "stays-inside-packet", "sanitizer-or-guard-fault", err.Error(), fmt.Sprintf("%x", frame))
						return
					}
					run.Eval()
					name := []string{"removed-subscriber-by-vlan-pair", "removed-subscriber-by-s-vlan", "removed-subscriber-by-c-vlan"}[vi]
					run.Count("unbound_fastpath_"+name, 1)
					run.Nontrivial(fmt.Sprintf("unboundfp|%s|%d|%d", name, len(tags), msg))
					if res.Verdict != 2 || !bytes.Equal(res.Out, frame) {
						run.Violation("bpf/dhcp_fastpath.c:dhcp_fastpath_prog", "unbound-subscriber-is-other-traffic", "answered-or-modified/"+name,
							fmt.Sprintf("AddVLANSubscriber(%d,%d) then RemoveVLANSubscriber(%d,%d): a request from a station on that VLAN (tags %v, message type %d) got verdict %d (2 = pass), modified=%v", v[0], v[1], v[0], v[1], tags, msg, res.Verdict, !bytes.Equal(res.Out, frame)),
							map[string]any{"frame": fmt.Sprintf("%x", frame), "out": fmt.Sprintf("%x", res.Out)})
					}
				}
			}
		}
		type probe struct {
			name string
			mac  net.HardwareAddr
			cid  []byte
		}
		stranger := net.HardwareAddr{0x06, 0x01, byte(rng.IntN(256)), byte(rng.IntN(256)), byte(rng.IntN(256)), 9}
		ext := func(k int) []byte {
			v := append([]byte(nil), cid...)
			for i := 0; i < k; i++ {
				v = append(v, byte('0'+rng.IntN(10)))
			}
			return v
		}
		probes := []probe{
			{"stranger-no-option82", stranger, nil},
			{"stranger-circuit-id-extended-by-1", stranger, ext(1)},
			{"stranger-circuit-id-extended-by-12", stranger, ext(12)},
			{"removed-subscriber-by-mac", gone, nil},
			{"removed-subscriber-by-circuit-id", stranger, gcid},
		}
		if len(cid) > 1 {
			probes = append(probes, probe{"stranger-circuit-id-shortened", stranger, cid[:len(cid)-1]})
		}
		for _, p := range probes {
			for _, pos := range []int{3, 12 + rng.IntN(8)} {
				for _, msg := range []byte{1, 3} {
					var mid, o82 []byte
					if pos != 3 {
						mid = append([]byte{61, byte(pos - 5)}, bytes.Repeat([]byte{0x41}, pos-5)...)
					}
					if p.cid != nil {
						sub := append([]byte{1, byte(len(p.cid))}, p.cid...)
						sub = append(sub, 2, 4, 'r', 'e', 'm', '1')
						o82 = append([]byte{82, byte(len(sub))}, sub...)
					}
					pl := dhcpPayload(msg, nil, nil, 0, 6)
					pl = pl[:len(pl)-1] // drop END: [53 1 msg] mid [82 ...] END pad
					pl = append(pl, mid...)
					pl = append(pl, o82...)
					pl = append(pl, 255)
					for len(pl) < 240+120 {
						pl = append(pl, 0)
					}
					copy(pl[28:34], p.mac)
					if p.cid != nil {
						copy(pl[24:28], net.IPv4(10, 250, 0, 1).To4())
					}
					frame := cplane.Eth(net.HardwareAddr{0xff, 0xff, 0xff, 0xff, 0xff, 0xff}, p.mac, 0x0800, nil, cplane.IPv4(net.IPv4zero, net.IPv4bcast, 17, 5, cplane.UDP(68, 67, pl)))
					n.Clock(1000 * 1_000_000_000)
					res, err := n.Run("dhcp_fastpath_prog", frame, cplane.RunOpt{IfIndex: 2})
					if err != nil {
						run.Violation("bpf/dhcp_fastpath.c:dhcp_fastpath_prog", "stays-inside-packet", "sanitizer-or-guard-fault", err.Error(), fmt.Sprintf("%x", frame))
						return
					}
					run.Eval()
					run.Count("unbound_fastpath_"+p.name, 1)
					run.Nontrivial(fmt.Sprintf("unboundfp|%s|%v|%d|%d", p.name, pos != 3, msg, cl))
					if res.Verdict != 2 || !bytes.Equal(res.Out, frame) {
						run.Violation("bpf/dhcp_fastpath.c:dhcp_fastpath_prog", "unbound-subscriber-is-other-traffic", "answered-or-modified/"+p.name,
							fmt.Sprintf("cached: %s with circuit-id %q (%d bytes). The request of %s (circuit-id %q, option 82 at option offset %d, message type %d) has no cache entry but got verdict %d (2 = pass), modified=%v", bound, cid, len(cid), p.mac, p.cid, pos, msg, res.Verdict, !bytes.Equal(res.Out, frame)),
							map[string]any{"frame": fmt.Sprintf("%x", frame), "out": fmt.Sprintf("%x", res.Out)})
					}
				}
			}
		}
	}
}
