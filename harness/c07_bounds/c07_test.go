package c07

import (
	"bytes"
	"encoding/binary"
	"fmt"
	"net"
	"os"
	"strings"
	"sync"
	"testing"
	"time"

	"github.com/cilium/ebpf"
	"go.uber.org/zap"

	"github.com/codelaboratoryltd/bng/pkg/antispoof"
	"github.com/codelaboratoryltd/bng/pkg/dhcp"
	bngebpf "github.com/codelaboratoryltd/bng/pkg/ebpf"
	"github.com/codelaboratoryltd/bng/pkg/nat"
	"github.com/codelaboratoryltd/bng/pkg/qos"

	"verif/harness/internal/cplane"
	"verif/harness/internal/vk"
)

var run *vk.Run

func TestMain(m *testing.M) {
	run = vk.Start("C07", "exploration")
	run.Rule("every XDP/TC program of bpf/*.c runs natively (ASan+UBSan, fatal) on frames placed flush against an inaccessible page on either side: every truncation of structured frames (Ethernet/802.1Q/QinQ/IPv4 with every IHL/IPv6/UDP/DHCP with option 53 and 82 at every probed offset/TCP/ICMP), random bytes of every length 0..1600, each under empty maps, maps populated through the real Go managers, and adversarial map values; verdict must be defined, a pass verdict must leave the frame byte-identical unless the program's own lookups show the frame is one it acts on; the -target bpf object must be accepted by the in-kernel verifier and agree with the native run. non-trivial = distinct (program, map state, frame family, verdict, first-difference offset bucket) reached past the program's first bounds check")
	run.Assume("a red-zone/guard-page run is not a proof of memory safety (intra-object overflows are invisible); the kernel verifier's acceptance is recorded as a separate observation; nat44 may modify a frame only if one of its NAT state lookups (subscriber_nat, nat_sessions, nat_reverse, eim_table, hairpin_ips) succeeded during that run")
	code := m.Run()
	ec := run.Finish()
	if code != 0 && ec == 0 {
		ec = 2
	}
	os.Exit(ec)
}

type progSpec struct {
	obj, prog string
	xdp       bool
	neverMod  bool // program must never change frame bytes
}

var progs = []progSpec{
	{"dhcp_fastpath", "dhcp_fastpath_prog", true, false},
	{"antispoof", "antispoof_ingress", false, true},
	{"qos_ratelimit", "qos_egress_prog", false, true},
	{"qos_ratelimit", "qos_ingress_prog", false, true},
	{"nat44", "nat44_egress", false, false},
	{"nat44", "nat44_ingress", false, false},
	{"nat44", "nat44_hairpin_xdp", true, false},
}

var (
	cliMAC = net.HardwareAddr{0x02, 0xaa, 0xbb, 0xcc, 0xdd, 0x01}
	srvMAC = net.HardwareAddr{0x02, 0x00, 0x00, 0x00, 0x00, 0xfe}
	subIP  = net.IPv4(10, 20, 30, 40).To4()
	pubIP  = net.IPv4(203, 0, 113, 9).To4()
	farIP  = net.IPv4(198, 51, 100, 7).To4()
)

func dhcpPayload(msgType byte, optPrefix []byte, opt82 []byte, pad int, hlen byte) []byte {
	b := make([]byte, 240)
	b[0], b[1], b[2] = 1, 1, hlen
	binary.BigEndian.PutUint32(b[4:], 0xdeadbeef)
	copy(b[28:], cliMAC)
	binary.BigEndian.PutUint32(b[236:], 0x63825363)
	o := append([]byte{}, optPrefix...)
	o = append(o, 53, 1, msgType)
	if opt82 != nil {
		o = append(o, 82, byte(len(opt82)))
		o = append(o, opt82...)
	}
	o = append(o, 255)
	for len(o) < pad {
		o = append(o, 0)
	}
	return append(b, o...)
}

type fam struct {
	name  string
	frame []byte
}

// families returns structured frames whose every truncation is then executed.
func families(rng interface{ IntN(int) int }) []fam {
	var out []fam
	bc := net.HardwareAddr{0xff, 0xff, 0xff, 0xff, 0xff, 0xff}
	add := func(n string, f []byte) { out = append(out, fam{n, f}) }
	for _, vl := range [][][2]uint16{nil, {{0x8100, 100}}, {{0x88a8, 200}, {0x8100, 300}}, {{0x8100, 200}, {0x8100, 300}}, {{0x88a8, 1}, {0x8100, 2}, {0x8100, 3}}} {
		tag := fmt.Sprintf("vlan%d", len(vl))
		for _, mt := range []byte{0, 1, 2, 3, 4, 5, 6, 7, 8, 9, 13, 255} {
			pres := [][]byte{nil, {0}, {0, 0, 0}, {0, 0, 0, 0, 0, 0}, {12, 2, 'h', 'i'}, {61, 7, 1, 2, 3, 4, 5, 6, 7}, {55, 4, 1, 3, 6, 15}, {50, 4, 10, 20, 30, 40}}
			if mt != 1 && mt != 3 && mt != 4 && mt != 7 && mt != 8 {
				pres = [][]byte{nil, {0, 0, 0}} // the other message types: only at two of the inspected offsets
			}
			for _, pre := range pres {
				add(fmt.Sprintf("dhcp-%s-type%d-pre%d", tag, mt, len(pre)), cplane.Eth(bc, cliMAC, 0x0800, vl, cplane.IPv4(net.IPv4zero, net.IPv4bcast, 17, 5, cplane.UDP(68, 67, dhcpPayload(mt, pre, nil, 64, 6)))))
			}
		}
		// option 82 with circuit-ids of several lengths, before and after option 53
		for _, cl := range []int{0, 1, 8, 31, 32, 33, 63, 64} {
			cid := make([]byte, cl)
			for i := range cid {
				cid[i] = byte('A' + i%26)
			}
			sub := append([]byte{1, byte(cl)}, cid...)
			sub = append(sub, 2, 4, 'r', 'e', 'm', 'o')
			add(fmt.Sprintf("dhcp-%s-opt82-cid%d", tag, cl), cplane.Eth(bc, cliMAC, 0x0800, vl, cplane.IPv4(net.IPv4(10, 0, 0, 1), net.IPv4(10, 0, 0, 2), 17, 5, cplane.UDP(67, 67, dhcpPayload(1, nil, sub, 120, 6)))))
		}
		// RFC-minimum BOOTP (no room for 64 option bytes), relayed, broadcast flag, ciaddr set
		add("dhcp-"+tag+"-short-options", cplane.Eth(bc, cliMAC, 0x0800, vl, cplane.IPv4(net.IPv4zero, net.IPv4bcast, 17, 5, cplane.UDP(68, 67, dhcpPayload(1, nil, nil, 8, 6)))))
		p := dhcpPayload(3, nil, nil, 80, 6)
		copy(p[24:28], []byte{10, 9, 8, 7}) // giaddr
		p[10] = 0x80
		copy(p[12:16], subIP)
		add("dhcp-"+tag+"-relayed-bcastflag-ciaddr", cplane.Eth(srvMAC, cliMAC, 0x0800, vl, cplane.IPv4(net.IPv4(10, 9, 8, 7), net.IPv4(10, 20, 0, 1), 17, 5, cplane.UDP(67, 67, p))))
		for _, ihl := range []int{0, 1, 4, 5, 6, 8, 15} {
			ip := cplane.IPv4(subIP, farIP, 17, 5, cplane.UDP(68, 67, dhcpPayload(1, nil, nil, 64, 6)))
			if ihl >= 5 {
				ip = cplane.IPv4(subIP, farIP, 17, ihl, cplane.UDP(68, 67, dhcpPayload(1, nil, nil, 64, 6)))
			} else {
				ip[0] = 0x40 | byte(ihl)
			}
			add(fmt.Sprintf("dhcp-%s-ihl%d", tag, ihl), cplane.Eth(bc, cliMAC, 0x0800, vl, ip))
		}
	}
	// plain subscriber traffic for antispoof / qos / nat
	tcp := make([]byte, 20)
	binary.BigEndian.PutUint16(tcp[0:], 40000)
	binary.BigEndian.PutUint16(tcp[2:], 443)
	tcp[12] = 0x50
	tcp[13] = 0x02
	for _, proto := range []struct {
		n string
		p uint8
		b []byte
	}{{"udp", 17, cplane.UDP(40000, 53, []byte("query"))}, {"tcp-syn", 6, tcp}, {"icmp-echo", 1, []byte{8, 0, 0, 0, 0, 1, 0, 1, 'p', 'i', 'n', 'g'}}, {"gre", 47, []byte{0, 0, 8, 0}}} {
		add("up-"+proto.n, cplane.Eth(srvMAC, cliMAC, 0x0800, nil, cplane.IPv4(subIP, farIP, proto.p, 5, proto.b)))
		add("down-"+proto.n, cplane.Eth(cliMAC, srvMAC, 0x0800, nil, cplane.IPv4(farIP, pubIP, proto.p, 5, proto.b)))
		add("down-sub-"+proto.n, cplane.Eth(cliMAC, srvMAC, 0x0800, nil, cplane.IPv4(farIP, subIP, proto.p, 5, proto.b)))
		add("hairpin-"+proto.n, cplane.Eth(srvMAC, cliMAC, 0x0800, nil, cplane.IPv4(subIP, pubIP, proto.p, 5, proto.b)))
		add("up-ihl7-"+proto.n, cplane.Eth(srvMAC, cliMAC, 0x0800, nil, cplane.IPv4(subIP, farIP, proto.p, 7, proto.b)))
	}
	frag := cplane.IPv4(subIP, farIP, 17, 5, cplane.UDP(40000, 53, []byte("frag")))
	frag[6] = 0x20 // MF
	add("up-fragment", cplane.Eth(srvMAC, cliMAC, 0x0800, nil, frag))
	add("ipv6-udp", cplane.Eth(srvMAC, cliMAC, 0x86dd, nil, cplane.IPv6(net.ParseIP("2001:db8::5"), net.ParseIP("2001:db8::1"), 17, cplane.UDP(1, 2, []byte("v6")))))
	add("arp", cplane.Eth(bc, cliMAC, 0x0806, nil, make([]byte, 28)))
	add("dot1q-ipv4", cplane.Eth(srvMAC, cliMAC, 0x0800, [][2]uint16{{0x8100, 7}}, cplane.IPv4(subIP, farIP, 17, 5, cplane.UDP(1, 2, nil))))
	return out
}

type mapState struct {
	name  string
	apply func(t *testing.T, k *cplane.Kernel, n *cplane.Runner)
}

func copyMaps(t *testing.T, k *cplane.Kernel, n *cplane.Runner) {
	n.Reset()
	for name, m := range k.Coll.Maps {
		mi, ok := n.Map(name)
		if !ok || mi.KeySize == 0 || m.Type() == ebpf.RingBuf || m.Type() == ebpf.PerfEventArray || m.Type() == ebpf.PerCPUArray {
			continue
		}
		key := make([]byte, m.KeySize())
		val := make([]byte, m.ValueSize())
		it := m.Iterate()
		for it.Next(&key, &val) {
			n.Write(name, key, val, 0)
		}
	}
}

func clearKernel(k *cplane.Kernel) {
	for _, m := range k.Coll.Maps {
		if m.Type() != ebpf.Hash && m.Type() != ebpf.LRUHash && m.Type() != ebpf.LPMTrie {
			continue
		}
		var keys [][]byte
		key := make([]byte, m.KeySize())
		val := make([]byte, m.ValueSize())
		it := m.Iterate()
		for it.Next(&key, &val) {
			keys = append(keys, append([]byte(nil), key...))
		}
		for _, kk := range keys {
			m.Delete(kk)
		}
	}
}

// populate drives the real Go control plane against the kernel maps of the loaded object.
func populate(t *testing.T, obj string, k *cplane.Kernel) {
	switch obj {
	case "dhcp_fastpath":
		ld, _ := bngebpf.NewLoader("lo", zap.NewNop())
		ld.VerifSetMaps(k.Coll.Maps)
		dp, _ := dhcp.NewPool(dhcp.PoolConfig{ID: 1, Name: "p", Network: "10.20.0.0/16", Gateway: "10.20.0.1", DNSServers: []string{"8.8.8.8", "1.1.1.1"}, LeaseTime: time.Hour})
		dhcp.NewPoolManager(ld, nil).AddPool(dp)
		ld.SetServerConfig(srvMAC, net.IPv4(10, 20, 0, 1), 2)
		pa := &bngebpf.PoolAssignment{PoolID: 1, AllocatedIP: bngebpf.IPToMapUint32(subIP), LeaseExpiry: ^uint64(0) >> 1}
		ld.AddSubscriber(bngebpf.MACToUint64(cliMAC), pa)
		ld.AddVLANSubscriber(200, 300, pa)
		ld.AddVLANSubscriber(100, 0, pa)
		for _, cl := range []int{1, 8, 31, 32} {
			cid := make([]byte, cl)
			for i := range cid {
				cid[i] = byte('A' + i%26)
			}
			ld.AddCircuitIDSubscriber(cid, pa)
		}
	case "antispoof":
		mgr, _ := antispoof.NewManager(antispoof.ManagerConfig{Interface: "lo"}, zap.NewNop())
		mgr.VerifSetMaps(k.Coll.Maps["subscriber_bindings"], k.Coll.Maps["antispoof_config"], k.Coll.Maps["antispoof_stats"], k.Coll.Maps["allowed_ranges_v4"])
		mgr.SetMode(antispoof.ModeStrict)
		mgr.AddBinding(cliMAC, subIP)
		mgr.AddBindingV6(cliMAC, net.ParseIP("2001:db8::5"))
		_, r, _ := net.ParseCIDR("10.20.0.0/16")
		mgr.AddAllowedRange(r)
	case "qos_ratelimit":
		mgr, _ := qos.NewManager(qos.ManagerConfig{Interface: "lo"}, nil, zap.NewNop())
		mgr.VerifSetMaps(k.Coll.Maps["qos_egress"], k.Coll.Maps["qos_ingress"], k.Coll.Maps["qos_stats_map"])
		mgr.SetSubscriberQoS(&qos.SubscriberQoS{IP: subIP, DownloadBPS: 1_000_000, UploadBPS: 1_000_000, BurstBytes: 3000, Priority: 3})
	case "nat44":
		mgr, err := nat.NewManager(nat.ManagerConfig{Interface: "lo", PortsPerSubscriber: 1024, PortRangeStart: 1024, PortRangeEnd: 65535, EnableHairpin: true, EnableEIM: true}, zap.NewNop())
		if err == nil {
			mgr.VerifSetMaps(k.Coll.Maps)
			mgr.AddPublicIP(pubIP)
			mgr.AllocateNAT(subIP)
		}
	}
}

// rekeyNAT: the NAT manager writes IPv4 keys byte-reversed (known finding under C06); so that the
// programs still reach their deep paths here, every 4-byte key is additionally installed in wire order.
func rekeyNAT(k *cplane.Kernel, n *cplane.Runner) {
	for _, name := range []string{"subscriber_nat", "hairpin_ips"} {
		ents, _ := n.List(name)
		for _, e := range ents {
			if len(e[0]) == 4 {
				rk := []byte{e[0][3], e[0][2], e[0][1], e[0][0]}
				n.Write(name, rk, e[1], 0)
			}
		}
	}
	// public_ip inside the port block likewise (value offset 0)
	ents, _ := n.List("subscriber_nat")
	for _, e := range ents {
		v := append([]byte(nil), e[1]...)
		v[0], v[1], v[2], v[3] = v[3], v[2], v[1], v[0]
		n.Write("subscriber_nat", []byte(subIP), v, 0)
	}
}

func adversarial(obj string, n *cplane.Runner, rng interface{ IntN(int) int }) {
	// overwrite every stored value with hostile field contents (all-ones, zero, random)
	for _, mi := range n.Maps() {
		if mi.KeySize == 0 || mi.ValueSize == 0 || mi.Type == int(ebpf.PerCPUArray) || mi.Type == int(ebpf.Array) {
			continue
		}
		ents, _ := n.List(mi.Name)
		for _, e := range ents {
			v := make([]byte, len(e[1]))
			switch rng.IntN(3) {
			case 0:
				for i := range v {
					v[i] = 0xff
				}
			case 1:
				for i := range v {
					v[i] = byte(rng.IntN(256))
				}
			}
			n.Write(mi.Name, e[0], v, 0)
		}
	}
	for _, name := range []string{"server_config", "antispoof_config", "nat_config_map"} {
		if mi, ok := n.Map(name); ok {
			v := make([]byte, mi.ValueSize)
			for i := range v {
				v[i] = byte(rng.IntN(256))
			}
			n.Write(name, make([]byte, 4), v, 0)
		}
	}
	if mi, ok := n.Map("ip_pools"); ok {
		ents, _ := n.List("ip_pools")
		for _, e := range ents {
			v := append([]byte(nil), e[1]...)
			v[4] = []byte{0, 33, 255, 31}[rng.IntN(4)] // prefix_len
			n.Write("ip_pools", e[0], v[:mi.ValueSize], 0)
		}
	}
}

var natStateMaps = map[string]bool{"subscriber_nat": true, "nat_sessions": true, "nat_reverse": true, "eim_table": true, "hairpin_ips": true}

func firstDiff(a, b []byte) int {
	n := len(a)
	if len(b) < n {
		n = len(b)
	}
	for i := 0; i < n; i++ {
		if a[i] != b[i] {
			return i
		}
	}
	if len(a) != len(b) {
		return n
	}
	return -1
}

func judge(ps progSpec, state string, fname string, frame []byte, res *cplane.Result, placement int) {
	run.Eval()
	run.Count("runs_"+ps.prog, 1)
	v := res.Verdict
	okV := false
	pass := false
	if ps.xdp {
		okV = v >= 0 && v <= 4
		pass = v == 2
	} else {
		okV = v == 0 || v == 2 || v == 7 || v == -1 || v == 1 || v == 3
		pass = v == 0 || v == -1 || v == 3
	}
	wit := func() any {
		return map[string]any{"program": ps.prog, "map_state": state, "family": fname, "length": len(frame), "placement": placement, "frame": fmt.Sprintf("%x", frame), "verdict": v, "out": fmt.Sprintf("%x", res.Out)}
	}
	if !okV {
		run.Violation("bpf/"+ps.obj+".c:"+ps.prog, "defined-verdict", "undefined-verdict", fmt.Sprintf("verdict %d", v), wit())
		return
	}
	run.Count(fmt.Sprintf("verdict_%s_%d", ps.prog, v), 1)
	fd := firstDiff(frame, res.Out)
	deep := len(res.Log) > 0
	if deep {
		run.Nontrivial(fmt.Sprintf("%s|%s|%s|%d|%d", ps.prog, state, fname, v, fd/16))
	}
	if ps.obj == "dhcp_fastpath" && v == 3 {
		// a transmitted reply is an action: only a BOOTREQUEST that is a DHCPDISCOVER or DHCPREQUEST may be answered
		mt, ok := dhcpRequestType(frame)
		run.Count("fastpath_tx_judged_for_message_type", 1)
		if !ok || (mt != 1 && mt != 3) {
			cls := "not-a-dhcp-request"
			if ok {
				cls = fmt.Sprintf("message-type-%d", mt)
			}
			run.Violation("bpf/dhcp_fastpath.c:dhcp_fastpath_prog", "acts-only-on-answerable-requests", "answered-"+cls, fmt.Sprintf("XDP_TX for a frame that is not a DHCPDISCOVER/DHCPREQUEST (independent parse: ok=%v type=%d) [%s, %d bytes, maps %s]", ok, mt, fname, len(frame), state), wit())
		}
	}
	if fd < 0 {
		return
	}
	run.Count("frames_modified_"+ps.prog, 1)
	if ps.neverMod {
		run.Violation("bpf/"+ps.obj+".c:"+ps.prog, "never-modifies-frame", "frame-modified", fmt.Sprintf("%s changed frame bytes at offset %d (verdict %d)", ps.prog, fd, v), wit())
		return
	}
	if !pass {
		return
	}
	if ps.obj == "dhcp_fastpath" {
		run.Violation("bpf/dhcp_fastpath.c:dhcp_fastpath_prog", "pass-leaves-frame-untouched", passClass(fname, frame), fmt.Sprintf("XDP_PASS after modifying the frame (first difference at offset %d): userspace receives a half-rewritten request [%s, %d bytes, maps %s]", fd, fname, len(frame), state), wit())
		return
	}
	// nat44: a modification is legitimate only for a frame that matched NAT state
	hit := false
	for _, a := range res.Log {
		if natStateMaps[a.Map] && a.Hit {
			hit = true
		}
		if natStateMaps[a.Map] && a.Op == 'u' {
			hit = true
		}
	}
	if !hit {
		run.Violation("bpf/nat44.c:"+ps.prog, "pass-leaves-frame-untouched", "modified-without-nat-state-match", fmt.Sprintf("%s returned %d after changing frame bytes at offset %d although no NAT state lookup matched", ps.prog, v, fd), wit())
		return
	}
	// ... and a NAT flow is a frame whose transport header is there to be translated: a frame cut inside its
	// TCP/UDP/ICMP header cannot be translated, so it is other traffic and must be handed on as it came
	if known, complete, proto, have, need := natFlowComplete(frame); known {
		run.Count("nat_modified_frames_judged_for_complete_transport_header", 1)
		if !complete {
			run.Violation("bpf/nat44.c:"+ps.prog, "pass-leaves-frame-untouched", fmt.Sprintf("modified-frame-cut-inside-transport-header/proto-%d", proto),
				fmt.Sprintf("%s returned %d after changing frame bytes at offset %d of a frame that carries only %d of the %d transport header bytes (IP protocol %d): a half-translated frame is handed on [%s, %d bytes, maps %s]", ps.prog, v, fd, have, need, proto, fname, len(frame), state), wit())
		}
	}
}

// natFlowComplete: independent parse of an untagged IPv4 frame: does it carry its complete TCP/UDP/ICMP header?
func natFlowComplete(frame []byte) (known, complete bool, proto byte, have, need int) {
	if len(frame) < 34 || frame[12] != 0x08 || frame[13] != 0x00 || frame[14]>>4 != 4 {
		return
	}
	ihl := int(frame[14]&0x0f) * 4
	if ihl < 20 {
		return
	}
	proto = frame[23]
	switch proto {
	case 6:
		need = 20
	case 17, 1:
		need = 8
	default:
		return
	}
	have = len(frame) - 14 - ihl
	if have < 0 {
		have = 0
	}
	return true, have >= need, proto, have, need
}

func passClass(fname string, frame []byte) string {
	return "modified-then-passed"
}

func TestBounds(t *testing.T) {
	var wg sync.WaitGroup
	for pi := range progs {
		ps := progs[pi]
		pi := pi
		wg.Add(1)
		go func() {
			defer wg.Done()
			k, err := cplane.LoadKernel(ps.obj)
			if err != nil {
				run.Violation("bpf/"+ps.obj+".c", "verifier-accepts", "verifier-or-load-error", fmt.Sprintf("the working-tree object %s is not accepted by the in-kernel verifier: %v", ps.obj, err), err.Error())
				k = nil
			} else {
				defer k.Close()
				run.Count("verifier_accepted_objects", 1)
			}
			n, err := cplane.Start(ps.obj, fmt.Sprintf("%s/C07.%d.journal", os.Getenv("VERIF_BUILD"), pi))
			if err != nil {
				t.Error(err)
				return
			}
			defer n.Close()
			rng := run.Rand("bounds-" + ps.prog)
			states := []string{"empty", "populated", "adversarial"}
			for _, st := range states {
				n.Reset()
				if k != nil {
					clearKernel(k)
				}
				if st != "empty" && k != nil {
					populate(t, ps.obj, k)
					copyMaps(t, k, n)
					if ps.obj == "nat44" {
						rekeyNAT(k, n)
					}
					if st == "adversarial" {
						adversarial(ps.obj, n, rng)
					}
				}
				n.Clock(1_000_000_000, 1_000_000_001, 1_000_000_002)
				fams := families(rng)
				step := run.Pick(1, 1)
				for fi, f := range fams {
					// every truncation of the structured frame (quick: every length near header boundaries, every 3rd elsewhere)
					for l := 0; l <= len(f.frame); l += step {
						if !run.Thorough() && ((l > 70 && l < len(f.frame)-70 && l%9 != 0) || (st != "populated" && l%4 != fi%4)) {
							continue
						}
						fr := f.frame[:l]
						for plc := 0; plc < 2; plc++ {
							if plc == 1 && !run.Thorough() && (l%2 == 1 || st != "populated") {
								continue
							}
							res, err := n.Run(ps.prog, fr, cplane.RunOpt{Placement: plc, IfIndex: 2})
							if err != nil {
								run.Violation("bpf/"+ps.obj+".c:"+ps.prog, "stays-inside-packet", "sanitizer-or-guard-fault", fmt.Sprintf("native run of %s died on family %s truncated to %d bytes (placement %d, maps %s): %v", ps.prog, f.name, l, plc, st, err), map[string]any{"family": f.name, "length": l, "placement": plc, "map_state": st, "frame": fmt.Sprintf("%x", fr)})
								return
							}
							judge(ps, st, f.name, fr, res, plc)
							// kernel cross-check on full-length frames of the populated state (clock-independent programs only)
							if k != nil && plc == 0 && l == len(f.frame) && st == "populated" && ps.obj != "qos_ratelimit" && ps.obj != "nat44" && l >= 14 {
								kv, kout, kerr := k.Run(ps.prog, fr)
								if kerr == nil {
									run.Count("kernel_cross_checks", 1)
									if int64(kv) != res.Verdict || (ps.xdp && !bytes.Equal(kout, res.Out)) {
										if ps.obj == "dhcp_fastpath" && int64(kv) == res.Verdict && len(kout) == len(res.Out) {
											// stats and lease clock are the only state that may differ: compare everything
											run.Inconclusive("fidelity", fmt.Sprintf("%s on %s: kernel and native output bytes differ at offset %d", ps.prog, f.name, firstDiff(kout, res.Out)))
										} else {
											run.Inconclusive("fidelity", fmt.Sprintf("%s on %s: kernel verdict %d/len %d vs native verdict %d/len %d", ps.prog, f.name, kv, len(kout), res.Verdict, len(res.Out)))
										}
									}
								}
							}
						}
					}
				}
				// random bytes of every length
				rounds := run.Pick(1, 12)
				for r := 0; r < rounds; r++ {
					for l := 0; l <= 1600; l++ {
						if !run.Thorough() && l > 100 && l%11 != 0 {
							continue
						}
						fr := make([]byte, l)
						for i := range fr {
							fr[i] = byte(rng.IntN(256))
						}
						if l >= 14 && rng.IntN(2) == 0 {
							binary.BigEndian.PutUint16(fr[12:], []uint16{0x0800, 0x86dd, 0x8100, 0x88a8}[rng.IntN(4)])
							if l >= 15 && rng.IntN(2) == 0 {
								fr[14] = 0x45
							}
							if l >= 24 {
								fr[23] = []byte{17, 6, 1}[rng.IntN(3)]
							}
						}
						res, err := n.Run(ps.prog, fr, cplane.RunOpt{Placement: l % 2, IfIndex: 2})
						if err != nil {
							run.Violation("bpf/"+ps.obj+".c:"+ps.prog, "stays-inside-packet", "sanitizer-or-guard-fault", fmt.Sprintf("native run of %s died on a random frame of %d bytes (maps %s): %v", ps.prog, l, st, err), map[string]any{"length": l, "map_state": st, "frame": fmt.Sprintf("%x", fr)})
							return
						}
						judge(ps, st, "random", fr, res, l%2)
					}
				}
			}
			run.Distinct("programs", ps.prog)
		}()
	}
	wg.Wait()
	run.Sample(map[string]any{"kind": "frame families (each executed at every truncation, both placements)", "count": len(families(run.Rand("x"))), "examples": []string{"dhcp-vlan2-type1-pre6", "dhcp-vlan0-opt82-cid33", "dhcp-vlan1-ihl15", "up-tcp-syn", "hairpin-udp"}})
}

// TestUnboundIsOtherTraffic: a subscriber that was unbound through the control plane is "other traffic"
// again: for every frame the verdict for its MAC must equal the verdict for a MAC the program has never
// heard of (differential oracle, no decision table), in every default mode and for every binding shape.
func TestUnboundIsOtherTraffic(t *testing.T) {
	k, err := cplane.LoadKernel("antispoof")
	if err != nil {
		return // reported by TestBounds
	}
	defer k.Close()
	n, err := cplane.Start("antispoof", os.Getenv("VERIF_BUILD")+"/C07.unbound.journal")
	if err != nil {
		t.Fatal(err)
	}
	defer n.Close()
	rng := run.Rand("unbound")
	modes := []antispoof.Mode{antispoof.ModeDisabled, antispoof.ModeStrict, antispoof.ModeLoose, antispoof.ModeLogOnly}
	shapes := []string{"v4", "v6", "v4+v6", "v6+v4"}
	for _, def := range modes {
		for _, bm := range modes {
			for _, sh := range shapes {
				clearKernel(k)
				mgr, _ := antispoof.NewManager(antispoof.ManagerConfig{Interface: "lo"}, zap.NewNop())
				mgr.VerifSetMaps(k.Coll.Maps["subscriber_bindings"], k.Coll.Maps["antispoof_config"], k.Coll.Maps["antispoof_stats"], k.Coll.Maps["allowed_ranges_v4"])
				was := net.HardwareAddr{0x02, byte(rng.IntN(256)), byte(rng.IntN(256)), byte(rng.IntN(256)), byte(rng.IntN(256)), 0x10}
				never := net.HardwareAddr{0x02, byte(rng.IntN(256)), byte(rng.IntN(256)), byte(rng.IntN(256)), byte(rng.IntN(256)), 0x20}
				other := net.HardwareAddr{0x02, 1, 2, 3, 4, 0x30}
				mgr.SetMode(bm)
				mgr.AddBinding(other, net.IPv4(10, 20, 30, 41)) // a bystander that stays bound
				var steps []string
				for _, part := range strings.Split(sh, "+") {
					if part == "v4" {
						mgr.AddBinding(was, subIP)
						steps = append(steps, "AddBinding(v4)")
					} else {
						mgr.AddBindingV6(was, net.ParseIP("2001:db8::5"))
						steps = append(steps, "AddBindingV6")
					}
				}
				mgr.RemoveBinding(was)
				steps = append(steps, "RemoveBinding")
				_, r, _ := net.ParseCIDR("10.20.0.0/16")
				mgr.AddAllowedRange(r)
				mgr.SetMode(def)
				copyMaps(t, k, n)
				frames := map[string]func(src net.HardwareAddr) []byte{
					"v4-old-address": func(src net.HardwareAddr) []byte {
						return cplane.Eth(srvMAC, src, 0x0800, nil, cplane.IPv4(subIP, farIP, 17, 5, cplane.UDP(1, 2, nil)))
					},
					"v4-other-address": func(src net.HardwareAddr) []byte {
						return cplane.Eth(srvMAC, src, 0x0800, nil, cplane.IPv4(net.IPv4(10, 20, 99, 99), farIP, 17, 5, cplane.UDP(1, 2, nil)))
					},
					"v4-outside-range": func(src net.HardwareAddr) []byte {
						return cplane.Eth(srvMAC, src, 0x0800, nil, cplane.IPv4(net.IPv4(172, 16, 0, 9), farIP, 17, 5, cplane.UDP(1, 2, nil)))
					},
					"v6-old-address": func(src net.HardwareAddr) []byte {
						return cplane.Eth(srvMAC, src, 0x86dd, nil, cplane.IPv6(net.ParseIP("2001:db8::5"), net.ParseIP("2001:db8::1"), 17, cplane.UDP(1, 2, nil)))
					},
					"v6-other-address": func(src net.HardwareAddr) []byte {
						return cplane.Eth(srvMAC, src, 0x86dd, nil, cplane.IPv6(net.ParseIP("2001:db8::77"), net.ParseIP("2001:db8::1"), 17, cplane.UDP(1, 2, nil)))
					},
					"arp": func(src net.HardwareAddr) []byte { return cplane.Eth(srvMAC, src, 0x0806, nil, make([]byte, 28)) },
				}
				for fname, mk := range frames {
					ra, err1 := n.Run("antispoof_ingress", mk(was), cplane.RunOpt{})
					rb, err2 := n.Run("antispoof_ingress", mk(never), cplane.RunOpt{})
					if err1 != nil || err2 != nil {
						run.Violation("bpf/antispoof.c:antispoof_ingress", "stays-inside-packet", "sanitizer-or-guard-fault", fmt.Sprint(err1, err2), nil)
						return
					}
					run.Eval()
					run.Count("unbound_vs_unknown_compared", 1)
					run.Nontrivial(fmt.Sprintf("unbound|%d|%d|%s|%s", def, bm, sh, fname))
					if ra.Verdict != rb.Verdict {
						run.Violation("antispoof.Manager.RemoveBinding+bpf/antispoof.c", "unbound-subscriber-is-other-traffic", "stale-binding-after-remove/"+sh,
							fmt.Sprintf("default mode %d, bound in mode %d (%v): frame %s from the unbound MAC gets verdict %d, the same frame from a MAC never bound gets %d", def, bm, steps, fname, ra.Verdict, rb.Verdict),
							map[string]any{"steps": steps, "default_mode": def, "bound_in_mode": bm, "frame": fname})
					}
				}
			}
		}
	}
}

// dhcpRequestType walks the frame independently of the program (Ethernet with any number of 802.1Q/802.1ad tags,
// IPv4 with options, UDP, BOOTP, option list) and returns the DHCP message type of a BOOTREQUEST.
func dhcpRequestType(f []byte) (byte, bool) {
	off := 12
	for off+4 <= len(f) && (binary.BigEndian.Uint16(f[off:]) == 0x8100 || binary.BigEndian.Uint16(f[off:]) == 0x88a8) {
		off += 4
	}
	if off+2 > len(f) || binary.BigEndian.Uint16(f[off:]) != 0x0800 {
		return 0, false
	}
	ip := f[off+2:]
	if len(ip) < 20 || ip[0]>>4 != 4 {
		return 0, false
	}
	ihl := int(ip[0]&0xf) * 4
	if ihl < 20 || len(ip) < ihl+8 || ip[9] != 17 {
		return 0, false
	}
	bp := ip[ihl+8:]
	if len(bp) < 240 || bp[0] != 1 || binary.BigEndian.Uint32(bp[236:]) != 0x63825363 {
		return 0, false
	}
	o := bp[240:]
	for i := 0; i < len(o); {
		switch c := o[i]; {
		case c == 0:
			i++
		case c == 255:
			return 0, false
		default:
			if i+1 >= len(o) {
				return 0, false
			}
			n := int(o[i+1])
			if i+2+n > len(o) {
				return 0, false
			}
			if c == 53 && n == 1 {
				return o[i+2], true
			}
			i += 2 + n
		}
	}
	return 0, false
}
