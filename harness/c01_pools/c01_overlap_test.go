package c01

// Overlapping calls on the SAME subscriber, started together from a spin barrier: two or three releases of one
// holder at once (a local release racing a peer's, a retransmitted RELEASE), a release racing the holder's own
// re-ask, two first asks of one subscriber. The schedule cannot be forced, so the verdict is taken at quiescence on
// values only: after the overlapping calls have returned the pool is drained with fresh subscribers and
//   - no value is held by two subscribers (the values returned to the holders that remain and to the fresh
//     subscribers are pairwise distinct),
//   - nobody obtained more units than the pool has,
//   - a subscriber whose two simultaneous first asks both succeeded got the same value twice.
// The pool object is kept across rounds (everything is released at the end of a round), so a free list that was
// corrupted in one round is also met by the following ones.

import (
	"fmt"
	"net/netip"
	"runtime"
	"strings"
	"sync"
	"sync/atomic"
	"testing"

	"verif/harness/internal/pools"
)

func TestOverlappingCallsOnOneSubscriber(t *testing.T) {
	rounds := run.Pick(1500, 20000)
	var specs []*pools.Spec
	for _, s := range pools.SmallSpecs() {
		if s.Concurrent && s.Grace == 0 && s.Usable >= 3 && s.Usable <= 8 {
			specs = append(specs, s)
		}
	}
	old := runtime.GOMAXPROCS(0)
	if old < 4 {
		runtime.GOMAXPROCS(4)
		defer runtime.GOMAXPROCS(old)
	}
	for si, s := range specs {
		p, err := s.New()
		if err != nil {
			t.Fatalf("new: %v", err)
		}
		rng := run.SubRand("overlap", si)
		bad := false
		for round := 0; round < rounds && !bad; round++ {
			// population: some holders besides the subject
			nHold := rng.IntN(s.Usable - 1)
			held := map[string]netip.Prefix{}
			var names []string
			for i := 0; i < nHold; i++ {
				n := fmt.Sprintf("h%d-%d", round, i)
				if v, err := p.Alloc(n); err == nil {
					held[n] = v
					names = append(names, n)
				}
			}
			subj := fmt.Sprintf("x%d", round)
			kind := []string{"release+release", "release+release+release", "release+reask", "ask+ask"}[rng.IntN(4)]
			var sv netip.Prefix
			hasSubj := false
			if kind != "ask+ask" {
				if v, err := p.Alloc(subj); err == nil {
					sv, hasSubj = v, true
				}
			}
			calls := strings.Split(kind, "+")
			type outT struct {
				v   netip.Prefix
				err error
			}
			outs := make([]outT, len(calls))
			var ready int32
			var wg sync.WaitGroup
			for ci, c := range calls {
				ci, c := ci, c
				wg.Add(1)
				go func() {
					defer wg.Done()
					atomic.AddInt32(&ready, 1)
					for atomic.LoadInt32(&ready) < int32(len(calls)) {
					}
					switch c {
					case "release":
						outs[ci].err = p.Release(subj)
					default:
						outs[ci].v, outs[ci].err = p.Alloc(subj)
					}
				}()
			}
			wg.Wait()
			run.Count("overlap_rounds_"+kind, 1)
			// what the subject holds now, as the implementation told its callers
			subjHolds := false
			switch kind {
			case "release+reask":
				// the re-ask either came first (same value, then released) or after the release (any free value):
				// only a final lookup/second ask can tell; ask again - an idempotent re-ask if it holds one
				if v, err := p.Alloc(subj); err == nil {
					held[subj], subjHolds = v, true
				}
			case "ask+ask":
				if outs[0].err == nil && outs[1].err == nil && outs[0].v != outs[1].v {
					bad = true
					run.Violation(s.Impl, "idempotent-reask", "simultaneous-first-asks-got-different-values/overlapping-calls",
						fmt.Sprintf("[%s] two simultaneous Alloc(%s) returned %v and %v", s.Impl+" "+s.Geom, subj, outs[0].v, outs[1].v), map[string]any{"kind": kind, "round": round})
				}
				if outs[0].err == nil {
					held[subj], subjHolds = outs[0].v, true
				} else if outs[1].err == nil {
					held[subj], subjHolds = outs[1].v, true
				}
			}
			_ = hasSubj
			_ = sv
			_ = subjHolds
			// drain with fresh subscribers
			got := map[netip.Prefix]string{}
			dup := ""
			for n, v := range held {
				if o, ok := got[v]; ok {
					dup = fmt.Sprintf("%v held by %s and %s", v, o, n)
				}
				got[v] = n
			}
			var fresh []string
			for i := 0; i < s.Usable+3; i++ {
				n := fmt.Sprintf("f%d-%d", round, i)
				v, err := p.Alloc(n)
				if err != nil {
					break
				}
				fresh = append(fresh, n)
				if o, ok := got[v]; ok && dup == "" {
					dup = fmt.Sprintf("%v given to %s while %s holds it", v, n, o)
				}
				got[v] = n
			}
			run.Eval()
			total := len(held) + len(fresh)
			if dup != "" {
				bad = true
				run.Violation(s.Impl, "uniqueness", "value-held-twice-after-overlapping-"+kind,
					fmt.Sprintf("[%s] round %d: after %s of one subscriber, draining the pool: %s", s.Impl+" "+s.Geom, round, kind, dup), map[string]any{"kind": kind, "round": round})
			} else if total > s.Usable {
				bad = true
				run.Violation(s.Impl, "uniqueness", "more-holders-than-units-after-overlapping-"+kind,
					fmt.Sprintf("[%s] round %d: after %s of one subscriber %d subscribers hold a value in a pool of %d", s.Impl+" "+s.Geom, round, kind, total, s.Usable), map[string]any{"kind": kind, "round": round})
			}
			if round%97 == 0 {
				run.Nontrivial(fmt.Sprintf("overlap|%s|%s|%d", s.Impl, kind, round/97))
			}
			for n := range held {
				p.Release(n)
			}
			p.Release(subj)
			for _, n := range fresh {
				p.Release(n)
			}
		}
		pools.Close(p)
	}
	run.Floor("overlap_rounds_release+release", 1000)
}
