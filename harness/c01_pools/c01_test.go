package c01

import (
	"fmt"
	"net/netip"
	"os"
	"runtime"
	"sort"
	"strings"
	"sync"
	"sync/atomic"
	"testing"
	"time"

	"github.com/anishathalye/porcupine"

	"verif/harness/internal/pools"
	"verif/harness/internal/vk"
)

var run *vk.Run

var anchored = []string{
	"pkg/allocator/bitmap.go", "pkg/allocator/epoch_bitmap.go", "pkg/allocator/distributed.go", "pkg/allocator/store.go",
	"pkg/allocator/modes.go", "pkg/dhcp/pool.go", "pkg/dhcpv6/server.go", "pkg/pppoe/server.go", "pkg/pool/peer.go", "pkg/nexus/client.go",
}

func TestMain(m *testing.M) {
	run = vk.Start("C01", "exploration")
	run.Rule("histories of alloc/release/renew/epoch/specific/release-value/reload/reapply over every pool implementation: exhaustive up to subscriber renaming on ≤16-unit geometries, seeded random walks on large pools, concurrent histories checked with porcupine under -race; non-trivial = distinct history in which some value changed owner (reuse actually occurred) or a concurrent history with ≥2 overlapping calls")
	run.Assume("pppoe.IPPool and nexus.Client are driven sequentially only (no lock / single-threaded use in production)")
	code := m.Run()
	run.JudgeRaces(anchored)
	ec := run.Finish()
	if code != 0 && ec == 0 {
		ec = 2
	}
	os.Exit(ec)
}

func reporter(s *pools.Spec) pools.Report {
	return func(prop, rule, class, desc string) {
		if prop != "C01" {
			return
		}
		run.Violation(s.Impl, rule, class, desc, map[string]string{"impl": s.Impl, "geometry": s.Geom, "detail": desc})
	}
}

func record(s *pools.Spec, r *pools.Runner, h []pools.Op) {
	run.Eval()
	for k, n := range r.Obs.Ops {
		run.Count("op_"+k, n)
	}
	run.Distinct("abstract_states", s.Impl+"|"+s.Geom+"|"+r.StateKey())
	if r.Obs.Reuse {
		run.Nontrivial(s.Impl + s.Geom + fmt.Sprint(h))
		run.Count("histories_with_reuse", 1)
	}
	run.Count("expired_leases", r.Obs.Expired)
	run.Count("exhaustions", r.Obs.Exhausted)
}

func TestExhaustive(t *testing.T) {
	depth := run.Pick(5, 6)
	specs := pools.SmallSpecs()
	var wg sync.WaitGroup
	sem := make(chan struct{}, runtime.NumCPU())
	for _, s := range specs {
		s := s
		wg.Add(1)
		sem <- struct{}{}
		go func() {
			defer wg.Done()
			defer func() { <-sem }()
			caps := pools.ProbeCaps(s)
			alpha := pools.Alphabet(caps, 3, false)
			d := depth
			// keep the per-spec cost bounded: big alphabets one level shallower in thorough tier
			if len(alpha) > 12 && d > 5 {
				d = 5 // thorough: 6 on the narrow alphabets, 5 on the wide ones (the alphabets grew with the out-of-range and move symbols)
			}
			if !run.Thorough() && len(alpha) > 10 {
				d = 4 // quick tier: wide alphabets one level shallower (thorough goes to 6-7)
			}
			rep := reporter(s)
			sampled := false
			n := pools.Enumerate(alpha, d, func(h []pools.Op) {
				r, err := pools.RunHistory(s, h, true, rep)
				if err != nil {
					t.Errorf("new %s %s: %v", s.Impl, s.Geom, err)
					return
				}
				record(s, r, h)
				if !sampled && r.Obs.Reuse {
					sampled = true
					run.Sample(map[string]any{"kind": "exhaustive", "impl": s.Impl, "geometry": s.Geom, "history": r.History()})
				}
			})
			run.Count("exhaustive_histories", n)
			run.Distinct("impl_geometries", s.Impl+s.Geom)
		}()
	}
	wg.Wait()
	run.Extra("exhaustive_depth", depth)
}

func TestRandomWalks(t *testing.T) {
	walks := run.Pick(12, 200)
	specs := append(pools.SmallSpecs(), pools.LargeSpecs()...)
	var wg sync.WaitGroup
	sem := make(chan struct{}, runtime.NumCPU())
	for si, s := range specs {
		s, si := s, si
		wg.Add(1)
		sem <- struct{}{}
		go func() {
			defer wg.Done()
			defer func() { <-sem }()
			caps := pools.ProbeCaps(s)
			rep := reporter(s)
			nw := walks
			if strings.HasPrefix(s.Impl, "nexus") {
				nw = walks/4 + 1 // each provisioning waits for an asynchronous watcher
			}
			for w := 0; w < nw; w++ {
				rng := run.SubRand(fmt.Sprintf("walk-%d", si), w)
				n := 200 + rng.IntN(run.Pick(400, 1800))
				if strings.HasPrefix(s.Impl, "nexus") {
					n = 60 + rng.IntN(100)
				}
				h := pools.RandomHistory(s, caps, rng, n, false)
				r, err := pools.RunHistory(s, h, s.Usable >= 0 && s.Usable <= 1024, rep)
				if err != nil {
					t.Errorf("new %s: %v", s.Impl, err)
					return
				}
				record(s, r, h)
				run.Count("random_walks", 1)
				if w == 0 && si%7 == 0 {
					hh := r.History()
					if len(hh) > 25 {
						hh = hh[:25]
					}
					run.Sample(map[string]any{"kind": "random-walk", "impl": s.Impl, "geometry": s.Geom, "first_ops": hh, "length": len(h)})
				}
			}
			run.Distinct("impl_geometries", s.Impl+s.Geom)
		}()
	}
	wg.Wait()
}

// ---------------------------------------------------------------- concurrent histories (E2) + porcupine

type cin struct {
	K   string // alloc release lookup
	Sub string
}
type cout struct {
	V     netip.Prefix
	OK    bool // alloc succeeded / lookup found
	Exh   bool
	Other bool // other error
}

func encState(m map[string]netip.Prefix) string {
	ks := make([]string, 0, len(m))
	for k, v := range m {
		ks = append(ks, k+"="+v.String())
	}
	sort.Strings(ks)
	return strings.Join(ks, ",")
}
func decState(s string) map[string]netip.Prefix {
	m := map[string]netip.Prefix{}
	if s == "" {
		return m
	}
	for _, kv := range strings.Split(s, ",") {
		i := strings.IndexByte(kv, '=')
		m[kv[:i]] = netip.MustParsePrefix(kv[i+1:])
	}
	return m
}

func model(s *pools.Spec) porcupine.Model {
	return porcupine.Model{
		Init: func() any { return "" },
		Step: func(st, in, out any) (bool, any) {
			m := decState(st.(string))
			i := in.(cin)
			o := out.(cout)
			switch i.K {
			case "alloc":
				cur, had := m[i.Sub]
				if o.Exh || o.Other {
					return !had, st // a holder must get its value back; a non-holder may be refused (capacity is C05's business)
				}
				if had {
					return o.V == cur, st
				}
				for _, v := range m {
					if v == o.V || v.Overlaps(o.V) {
						return false, st
					}
				}
				if !(s.Range.Contains(o.V.Addr()) && o.V.Bits() == s.UnitBits) {
					return false, st
				}
				m[i.Sub] = o.V
				return true, encState(m)
			case "release":
				delete(m, i.Sub)
				return true, encState(m)
			case "lookup":
				cur, had := m[i.Sub]
				if had != o.OK {
					return false, st
				}
				return !had || cur == o.V, st
			}
			return false, st
		},
		DescribeOperation: func(in, out any) string {
			return fmt.Sprintf("%v(%s) -> %+v", in.(cin).K, in.(cin).Sub, out)
		},
	}
}

func TestConcurrent(t *testing.T) {
	rounds := run.Pick(40, 600)
	var specs []*pools.Spec
	for _, s := range pools.SmallSpecs() {
		if s.Concurrent && s.Grace == 0 && s.Usable >= 2 && s.Usable <= 8 {
			specs = append(specs, s)
		}
	}
	// lease pools take part without epoch advances (expiry under concurrency is covered sequentially)
	specs = append(specs, pools.Epoch("10.0.0.0/29", 32, 1), pools.Distributed("10.0.0.0/29", 32, true, 1))
	var clock int64
	for si, s := range specs {
		mdl := model(s)
		for round := 0; round < rounds; round++ {
			rng := run.SubRand(fmt.Sprintf("conc-%d", si), round)
			p, err := s.New()
			if err != nil {
				t.Fatalf("new: %v", err)
			}
			nClients := 2 + rng.IntN(5)
			nSubs := 2 + rng.IntN(3)
			perClient := 4 + rng.IntN(6)
			procs := []int{2, 4, 16}[rng.IntN(3)]
			old := runtime.GOMAXPROCS(procs)
			scripts := make([][]cin, nClients)
			for c := range scripts {
				for k := 0; k < perClient; k++ {
					sub := fmt.Sprintf("s%d", rng.IntN(nSubs))
					x := rng.IntN(10)
					kind := "alloc"
					if x >= 5 && x < 8 {
						kind = "release"
					} else if x >= 8 {
						kind = "lookup"
					}
					scripts[c] = append(scripts[c], cin{kind, sub})
				}
			}
			_, _, lookupSupported := p.Lookup("probe")
			ops := make([][]porcupine.Operation, nClients)
			var wg sync.WaitGroup
			start := make(chan struct{})
			for c := 0; c < nClients; c++ {
				c := c
				wg.Add(1)
				go func() {
					defer wg.Done()
					<-start
					for _, in := range scripts[c] {
						if in.K == "lookup" && !lookupSupported {
							continue
						}
						call := atomic.AddInt64(&clock, 1)
						var out cout
						switch in.K {
						case "alloc":
							v, err := p.Alloc(in.Sub)
							if err == nil {
								out = cout{V: v, OK: true}
							} else if strings.Contains(err.Error(), "exhausted") {
								out = cout{Exh: true}
							} else {
								out = cout{Other: true}
							}
						case "release":
							p.Release(in.Sub)
						case "lookup":
							v, found, _ := p.Lookup(in.Sub)
							out = cout{V: v, OK: found}
						}
						ret := atomic.AddInt64(&clock, 1)
						ops[c] = append(ops[c], porcupine.Operation{ClientId: c, Input: in, Call: call, Output: out, Return: ret})
					}
				}()
			}
			close(start)
			wg.Wait()
			runtime.GOMAXPROCS(old)
			pools.Close(p)
			var all []porcupine.Operation
			for _, o := range ops {
				all = append(all, o...)
			}
			// dhcp.Pool adapter keeps a side table for release-by-IP that is not linearizable by itself: skip release in its histories? No: adapter locks it.
			res, info := porcupine.CheckOperationsVerbose(mdl, all, 30*time.Second)
			run.Eval()
			run.Count("concurrent_histories", 1)
			run.Count("concurrent_ops", len(all))
			overlap := 0
			sort.Slice(all, func(i, j int) bool { return all[i].Call < all[j].Call })
			for i := 1; i < len(all); i++ {
				if all[i].Call < all[i-1].Return {
					overlap++
				}
			}
			run.Count("overlapping_call_pairs", overlap)
			var order []string
			for _, o := range all {
				order = append(order, fmt.Sprintf("%d:%s%s", o.ClientId, o.Input.(cin).K[:1], o.Input.(cin).Sub))
			}
			key := s.Impl + "|" + strings.Join(order, " ")
			run.Distinct("interleavings", key)
			if overlap >= 2 {
				run.Nontrivial("conc|" + key)
			}
			switch res {
			case porcupine.Illegal:
				var lines []string
				for _, o := range all {
					lines = append(lines, fmt.Sprintf("c%d [%d,%d] %s", o.ClientId, o.Call, o.Return, mdl.DescribeOperation(o.Input, o.Output)))
				}
				_ = info
				run.Violation(s.Impl, "linearizable-uniqueness", "concurrent-history-not-linearizable", fmt.Sprintf("concurrent history on %s %s is not linearizable against the ownership model", s.Impl, s.Geom), lines)
			case porcupine.Unknown:
				run.Inconclusive(fmt.Sprintf("conc-%d-%d", si, round), "porcupine timeout")
			}
			if round == 0 && si == 0 {
				var lines []string
				for _, o := range all {
					lines = append(lines, fmt.Sprintf("c%d [%d,%d] %s", o.ClientId, o.Call, o.Return, mdl.DescribeOperation(o.Input, o.Output)))
				}
				run.Sample(map[string]any{"kind": "concurrent", "impl": s.Impl, "geometry": s.Geom, "gomaxprocs": procs, "ops": lines})
			}
		}
	}
}
