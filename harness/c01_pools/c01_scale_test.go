package c01

import (
	"fmt"
	"runtime"
	"strings"
	"sync"
	"testing"
	"testing/synctest"

	"verif/harness/internal/pools"
)

// TestScale: fill / mass expiry or mass release / refill / generation wrap / refill on pools of 500–4000 units.
func TestScale(t *testing.T) {
	specs := pools.ScaleSpecs()
	rounds := run.Pick(1, 3)
	var wg sync.WaitGroup
	sem := make(chan struct{}, runtime.NumCPU())
	for si, s := range specs {
		if !run.Thorough() && si%3 != int(((run.Seed%3)+3)%3) {
			continue // quick tier (under -race): a third of the geometries per seed; C05 runs all of them in every tier
		}
		for w := 0; w < rounds; w++ {
			s, si, w := s, si, w
			wg.Add(1)
			sem <- struct{}{}
			go func() {
				defer wg.Done()
				defer func() { <-sem }()
				caps := pools.ProbeCaps(s)
				rng := run.SubRand(fmt.Sprintf("scale-%d", si), w)
				h := pools.ScaleHistory(s, caps, rng)
				r, err := pools.RunHistory(s, h, true, reporter(s))
				if err != nil {
					t.Errorf("new %s: %v", s.Impl, err)
					return
				}
				record(s, r, nil)
				run.Nontrivial(fmt.Sprintf("scale|%s|%s|%d", s.Impl, s.Geom, w))
				run.Count("scale_scenarios", 1)
				run.Count("scale_ops", len(h))
				run.Distinct("impl_geometries", s.Impl+s.Geom)
				if w == 0 && si == 0 {
					hs := r.History()
					run.Sample(map[string]any{"kind": "scale", "impl": s.Impl, "geometry": s.Geom, "ops": len(hs), "expired": r.Obs.Expired, "drained": r.Obs.Drained, "head": strings.Join(hs[:6], " ")})
				}
			}()
		}
	}
	wg.Wait()
	run.Floor("scale_scenarios", int64(len(specs)/3))
}

// TestTicker: the lease-mode distributed allocator with its own epoch ticker running (virtual time) and a store that
// echoes local writes to the watchers: exhaustive small histories with a store fault position, and random walks.
func TestTicker(t *testing.T) {
	depth := run.Pick(4, 5)
	walks := run.Pick(100, 1500)
	for si, s := range pools.TickerSpecs() {
		rep := reporter(s)
		caps := pools.ProbeCaps(s)
		synctest.Test(t, func(t *testing.T) {
			alpha := pools.Alphabet(caps, 3, false)
			n := pools.Enumerate(alpha, depth, func(h []pools.Op) {
				r, err := pools.RunHistory(s, h, true, rep)
				if err != nil {
					t.Errorf("new %s: %v", s.Impl, err)
					return
				}
				record(s, r, h)
			})
			run.Count("ticker_exhaustive_histories", n)
			for w := 0; w < walks; w++ {
				rng := run.SubRand(fmt.Sprintf("ticker-%d", si), w)
				h := pools.RandomHistory(s, caps, rng, 20+rng.IntN(80), false)
				r, err := pools.RunHistory(s, h, true, rep)
				if err != nil {
					t.Errorf("new %s: %v", s.Impl, err)
					return
				}
				record(s, r, h)
				run.Count("ticker_walks", 1)
				run.Count("ticker_epochs", r.Obs.Ops["epoch"])
			}
		})
		run.Distinct("impl_geometries", s.Impl+s.Geom)
	}
	run.Floor("ticker_epochs", 100)
}

// TestFaultedReask: store-backed pools with a store write failure armed at every position: a holder that asks
// again (or renews) while the store refuses the write must keep its assignment (C01: nobody else may get it).
func TestFaultedReask(t *testing.T) {
	depth := run.Pick(4, 5)
	var wg sync.WaitGroup
	sem := make(chan struct{}, runtime.NumCPU())
	for _, s := range pools.SmallSpecs() {
		s := s
		caps := pools.ProbeCaps(s)
		if !caps.Fault {
			continue
		}
		wg.Add(1)
		sem <- struct{}{}
		go func() {
			defer wg.Done()
			defer func() { <-sem }()
			alpha := pools.Alphabet(caps, 2, true)
			rep := reporter(s)
			n := pools.Enumerate(alpha, depth, func(h []pools.Op) {
				r, err := pools.RunHistory(s, h, true, rep)
				if err != nil {
					t.Errorf("new %s: %v", s.Impl, err)
					return
				}
				record(s, r, h)
				if r.Obs.Ops["fail"] > 0 {
					run.Count("faulted_histories", 1)
				}
			})
			run.Count("faulted_exhaustive_histories", n)
		}()
	}
	wg.Wait()
	run.Floor("faulted_histories", 1000)
}
