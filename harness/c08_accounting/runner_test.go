package c08

import (
	"bytes"
	"context"
	"encoding/json"
	"fmt"
	"net"
	"os"
	"os/exec"
	"path/filepath"
	"sort"
	"strings"
	"sync/atomic"
	"syscall"
	"time"
)

const (
	secret = "c08-shared-secret"
	nasID  = "bng-verif-c08"
)

// Script is one scenario: incarnations executed one after the other on one persistence
// directory; the last one is always a quiesce incarnation (server up after at most FinalDown
// refused transmissions, 90 s of virtual time, graceful stop).
type Script struct {
	ID         string `json:"id"`
	Sessions   []Sess `json:"sessions"`
	Incs       []Inc  `json:"incarnations"`
	MaxRetries int    `json:"max_retries"`
	FinalDown  int    `json:"final_down"`
	Realtime   bool   `json:"realtime,omitempty"`   // no synctest bubble: wall-clock tickers and time-outs
	DropFirst  int    `json:"drop_first,omitempty"` // the server silently ignores this many requests (real time only)
	Phased     bool   `json:"phased,omitempty"`     // incarnation 0 carries a per-phase outage script; judged un-killed only
	// KillFromShutdown: crash points of incarnation 0 are enumerated from its graceful Stop() on
	// (the steps before it are the business of the other scripts); later incarnations completely
	KillFromShutdown bool `json:"kill_from_shutdown,omitempty"`
	NoKills          bool `json:"no_kills,omitempty"` // judged un-killed only
}

func (s *Script) String() string {
	var parts []string
	for _, in := range s.Incs {
		var st []string
		for _, x := range in.Steps {
			st = append(st, x.String())
		}
		down := fmt.Sprint(in.Down)
		if in.Phases != nil {
			down = "phases " + in.Phases.String()
		}
		end := in.End
		if in.Shutdown != nil {
			end += " " + in.Shutdown.label()
		}
		if in.Limiter != nil {
			end += fmt.Sprintf(" limiter=%g/s,burst=%d", in.Limiter.RPS, in.Limiter.Burst)
		}
		if in.Realtime {
			end += " real-time"
		}
		if in.LateMs > 0 {
			end += fmt.Sprintf(" answers-%dms-late", in.LateMs)
		}
		parts = append(parts, fmt.Sprintf("[%s | down=%s | %s]", strings.Join(st, " "), down, end))
	}
	return strings.Join(parts, " -> ")
}

func quiesceInc(finalDown int) Inc {
	in := Inc{Steps: []Step{{K: "long"}}, End: "graceful"}
	for i := 0; i < finalDown; i++ {
		in.Down = append(in.Down, i)
	}
	return in
}

// incResult is what the parent knows about one finished incarnation.
type incResult struct {
	Def         Inc
	J           []JEv
	Sig         string // "" exited, "killed" by SIGKILL
	ExitCode    int
	KillReached bool
	Scripted    bool // ended by the script's own crash step
	Runaway     bool // the child gave up after maxTransmissionsPerIncarnation transmissions
	Stderr      string
	TimedOut    bool
	DirAfter    map[string]string
}

type worker struct {
	srv  *acctServer
	hang *net.UDPConn // a port that swallows every datagram and never answers
	tmp  string
	nrun int
}

func (w *worker) close() {
	w.srv.close()
	w.hang.Close()
}

var childrenRun int64

func newWorker(base string, i int) (*worker, error) {
	s, err := newAcctServer(secret)
	if err != nil {
		return nil, err
	}
	d := filepath.Join(base, fmt.Sprintf("w%02d", i))
	if err := os.MkdirAll(d, 0o755); err != nil {
		return nil, err
	}
	h, err := net.ListenUDP("udp4", &net.UDPAddr{IP: net.IPv4(127, 0, 0, 1), Port: 0})
	if err != nil {
		return nil, err
	}
	go func() {
		buf := make([]byte, 4096)
		for {
			if _, _, err := h.ReadFromUDP(buf); err != nil {
				return
			}
		}
	}()
	return &worker{srv: s, hang: h, tmp: d}, nil
}

func readTree(dir string) map[string]string {
	out := map[string]string{}
	filepath.Walk(dir, func(p string, info os.FileInfo, err error) error {
		if err != nil {
			return nil
		}
		if info.IsDir() { // empty directories matter: recovery returns early when sessions/ is missing
			if rel, _ := filepath.Rel(dir, p); rel != "." {
				out[rel+"/"] = ""
			}
			return nil
		}
		b, _ := os.ReadFile(p)
		rel, _ := filepath.Rel(dir, p)
		out[rel] = string(b)
		return nil
	})
	return out
}

func writeTree(dir string, tree map[string]string) error {
	for rel, content := range tree {
		p := filepath.Join(dir, rel)
		if strings.HasSuffix(rel, "/") {
			if err := os.MkdirAll(p, 0o755); err != nil {
				return err
			}
			continue
		}
		if err := os.MkdirAll(filepath.Dir(p), 0o755); err != nil {
			return err
		}
		if err := os.WriteFile(p, []byte(content), 0o600); err != nil {
			return err
		}
	}
	return nil
}

func treeNames(t map[string]string) []string {
	var n []string
	for k := range t {
		n = append(n, k)
	}
	sort.Strings(n)
	return n
}

// runChild executes one incarnation in a child process on dir.
func (w *worker) runChild(sc *Script, dir string, inc Inc, killPoint string, killOcc int) incResult {
	w.nrun++
	atomic.AddInt64(&childrenRun, 1)
	jpath := filepath.Join(w.tmp, fmt.Sprintf("journal-%d.jsonl", w.nrun))
	spath := filepath.Join(w.tmp, fmt.Sprintf("spec-%d.json", w.nrun))
	os.Remove(jpath)
	spec := ChildSpec{Dir: dir, Journal: jpath, AcctPort: w.srv.port, HangPort: w.hang.LocalAddr().(*net.UDPAddr).Port, Secret: secret, NASID: nasID, MaxRetries: sc.MaxRetries,
		Sessions: sc.Sessions, Inc: inc, KillPoint: killPoint, KillOcc: killOcc, Realtime: sc.Realtime || os.Getenv("C08_REALTIME") != ""}
	b, _ := json.Marshal(spec)
	os.WriteFile(spath, b, 0o644)

	ctx, cancel := context.WithTimeout(context.Background(), 120*time.Second)
	defer cancel()
	cmd := exec.CommandContext(ctx, os.Args[0], "-test.run=^TestC08Child$", "-test.timeout=0", "-test.count=1")
	cmd.Env = append(os.Environ(), "C08_CHILD="+spath, "GOMAXPROCS=2")
	var stderr bytes.Buffer
	cmd.Stdout = &stderr
	cmd.Stderr = &stderr
	w.srv.setLate(time.Duration(inc.LateMs) * time.Millisecond)
	err := cmd.Run()
	if !w.srv.barrier() {
		run.Count("server_barrier_not_seen_after_child_exit", 1)
	}
	w.srv.setLate(0)
	res := incResult{Def: inc}
	if ctx.Err() != nil {
		res.TimedOut = true
	}
	if err != nil {
		if ee, ok := err.(*exec.ExitError); ok {
			if ws, ok := ee.Sys().(syscall.WaitStatus); ok && ws.Signaled() {
				if ws.Signal() == syscall.SIGKILL {
					res.Sig = "killed"
				} else {
					res.Sig = ws.Signal().String()
				}
			}
			res.ExitCode = ee.ExitCode()
		} else {
			res.ExitCode = -2
			res.Stderr = err.Error()
		}
	}
	res.Stderr += stderr.String()
	if len(res.Stderr) > 6000 {
		res.Stderr = res.Stderr[:6000]
	}
	res.J = readJournal(jpath)
	for _, e := range res.J {
		switch e.Ev {
		case "KILL":
			res.KillReached = true
		case "scripted-crash":
			res.Scripted = true
		case "runaway":
			res.Runaway = true
		}
	}
	res.DirAfter = readTree(dir)
	if d := os.Getenv("C08_DEBUG"); d != "" {
		b, _ := os.ReadFile(jpath)
		os.WriteFile(filepath.Join(d, fmt.Sprintf("%s-%s-%d-%d.jsonl", sc.ID, strings.ReplaceAll(killPoint, ":", "_"), killOcc, atomic.LoadInt64(&childrenRun))), b, 0o644)
	}
	os.Remove(jpath)
	os.Remove(spath)
	return res
}

// okEnd reports whether the incarnation ended the way the script asked.
func (r *incResult) okEnd(killWanted bool) (bool, string) {
	switch {
	case r.TimedOut:
		return false, "child watchdog (120 s real time) fired"
	case r.Runaway && r.ExitCode == 7 && !killWanted:
		return true, "" // judged on what the server saw; reported by judge()
	case killWanted:
		if r.Sig == "killed" && r.KillReached {
			return true, ""
		}
		if r.Sig == "" && r.ExitCode == 0 {
			return false, "kill point not reached in this run"
		}
	case r.Def.End == "crash":
		if r.Sig == "killed" && r.Scripted {
			return true, ""
		}
	default:
		if r.Sig == "" && r.ExitCode == 0 {
			return true, ""
		}
	}
	first := r.Stderr
	if i := strings.Index(first, "\n"); i > 0 {
		first = first[:i]
	}
	return false, fmt.Sprintf("child ended unexpectedly (signal=%q exit=%d): %s", r.Sig, r.ExitCode, first)
}

// pointsOf lists the (point, occurrence) pairs a finished incarnation passed, in order.
type pointOcc struct {
	Name string
	Occ  int
}

func pointsOf(j []JEv) []pointOcc {
	var out []pointOcc
	for _, e := range j {
		if e.Ev == "point" {
			out = append(out, pointOcc{e.Name, e.Occ})
		}
	}
	return out
}

// pointsFromShutdown lists the points passed after the graceful Stop() was called.
func pointsFromShutdown(j []JEv) []pointOcc {
	for i, e := range j {
		if e.Ev == "shutdown-begin" {
			return pointsOf(j[i:])
		}
	}
	return nil
}

// reference is the un-killed run of a script with a snapshot after every incarnation.
type reference struct {
	sc    *Script
	incs  []incResult
	logs  [][]Rec // accepted stream after incarnation k
	ok    bool
	crash bool // script contains its own crash step
}

func (w *worker) runReference(sc *Script) *reference {
	dir := filepath.Join(w.tmp, "persist")
	os.RemoveAll(dir)
	os.MkdirAll(dir, 0o755)
	ref := &reference{sc: sc, ok: true}
	w.srv.reset(nil, 0)
	w.srv.setDrop(sc.DropFirst)
	for k, inc := range sc.Incs {
		w.srv.setInc(k)
		res := w.runChild(sc, dir, inc, "", -1)
		if inc.End == "crash" {
			ref.crash = true
		}
		ref.incs = append(ref.incs, res)
		ref.logs = append(ref.logs, w.srv.snapshot())
		if ok, why := res.okEnd(false); !ok {
			ref.ok = false
			run.Inconclusive(fmt.Sprintf("script=%s inc=%d reference", sc.ID, k), why+" ; script "+sc.String())
			handleChildDeath(sc, &res, nil)
			break
		}
	}
	return ref
}

// killCase is one injected crash: incarnation k of the script dies at (point, occ), then a
// quiesce incarnation recovers from the directory.
type killCase struct {
	ref   *reference
	k     int
	point pointOcc
}

func (w *worker) runKill(kc killCase) {
	sc := kc.ref.sc
	dir := filepath.Join(w.tmp, "persist")
	os.RemoveAll(dir)
	os.MkdirAll(dir, 0o755)
	var prefixLog []Rec
	if kc.k > 0 {
		writeTree(dir, kc.ref.incs[kc.k-1].DirAfter)
		prefixLog = kc.ref.logs[kc.k-1]
	}
	w.srv.reset(prefixLog, kc.k)
	caseName := fmt.Sprintf("script=%s inc=%d kill=%s#%d", sc.ID, kc.k, kc.point.Name, kc.point.Occ)
	var res incResult
	for attempt := 0; attempt < 3; attempt++ {
		// the manager's own goroutines make the occurrence count of a few points vary between runs
		// (e.g. whether the queue processor gets one more attempt in before Stop() cancels it)
		if attempt > 0 {
			os.RemoveAll(dir)
			os.MkdirAll(dir, 0o755)
			if kc.k > 0 {
				writeTree(dir, kc.ref.incs[kc.k-1].DirAfter)
			}
			w.srv.reset(prefixLog, kc.k)
			run.Count("kill_cases_rerun_point_not_reached", 1)
		}
		res = w.runChild(sc, dir, sc.Incs[kc.k], kc.point.Name, kc.point.Occ)
		if ok, _ := res.okEnd(true); ok || !(res.Sig == "" && res.ExitCode == 0) {
			break
		}
	}
	run.Count("kill_cases_attempted", 1)
	if ok, why := res.okEnd(true); !ok {
		run.Inconclusive(caseName, why)
		handleChildDeath(sc, &res, &kc)
		return
	}
	dirAtKill := res.DirAfter
	w.srv.setInc(kc.k + 1)
	// the recovery incarnation starts into an outage of FinalDown refusals, as far as the
	// scenario's refusal budget (MaxRetries-2 in total) has not been used up already
	refused := 0
	for _, in := range append(append([]incResult(nil), kc.ref.incs[:kc.k]...), res) {
		for _, e := range in.J {
			if e.Ev == "req" && e.Down {
				refused++
			}
		}
	}
	fd := sc.FinalDown
	if left := sc.MaxRetries - 2 - refused; fd > left {
		fd = left
	}
	if fd < 0 {
		fd = 0
	}
	q := quiesceInc(fd)
	qres := w.runChild(sc, dir, q, "", -1)
	if ok, why := qres.okEnd(false); !ok {
		run.Inconclusive(caseName+" (recovery incarnation)", why)
		handleChildDeath(sc, &qres, &kc)
		return
	}
	incs := append(append([]incResult(nil), kc.ref.incs[:kc.k]...), res, qres)
	log := w.srv.snapshot()
	judge(&scenario{sc: sc, incs: incs, log: log, kill: &kc, dirAtKill: dirAtKill})

	// what this case observed
	run.Count("kill_cases_judged", 1)
	run.Count("killed_at "+kc.point.Name, 1)
	shape := dirShape(dirAtKill)
	run.Distinct("kill_points", kc.point.Name)
	run.Distinct("directory_shapes_at_kill", shape)
	run.Distinct("kill_point_x_directory_shape", kc.point.Name+" | "+shape)
	touched := kc.k > 0 && len(kc.ref.incs[kc.k-1].DirAfter) > 0
	for _, in := range incs[:kc.k+1] {
		for _, e := range in.J {
			if e.Ev == "step-begin" && strings.HasPrefix(e.Name, "start(") {
				touched = true
			}
		}
	}
	if touched {
		run.Nontrivial(fmt.Sprintf("kill/%s/%d/%s/%d", sc.ID, kc.k, kc.point.Name, kc.point.Occ))
	}
	nrec := 0
	for _, e := range qres.J {
		if e.Ev == "point" && strings.HasPrefix(e.Name, "recover:") {
			nrec++
		}
	}
	if nrec > 0 {
		run.Count("recoveries_with_orphans_or_pending", 1)
	}
	if kc.point.Occ == 0 && (kc.point.Name == "stop:file-removed" || kc.point.Name == "recover:pending-removed") && strings.HasPrefix(sc.ID, "c") {
		run.Sample(map[string]any{"kind": "kill", "script": sc.String(), "kill": fmt.Sprintf("incarnation %d at %s#%d", kc.k, kc.point.Name, kc.point.Occ),
			"directory_at_kill": treeNames(dirAtKill), "accepted_stream": streamStr(log)})
	}
}

// handleChildDeath turns a Go panic inside bng's accounting code into a violation; any other
// unexpected death stays inconclusive.
func handleChildDeath(sc *Script, r *incResult, kc *killCase) {
	if !strings.Contains(r.Stderr, "panic:") && !strings.Contains(r.Stderr, "fatal error:") {
		return
	}
	if !strings.Contains(r.Stderr, "codelaboratoryltd/bng/pkg/radius.") {
		return
	}
	fn := "radius"
	for _, l := range strings.Split(r.Stderr, "\n") {
		if i := strings.Index(l, "codelaboratoryltd/bng/pkg/radius."); i >= 0 && !strings.Contains(l, "verifPoint") && !strings.Contains(l, "VerifC08") {
			fn = strings.TrimSpace(l[i+len("codelaboratoryltd/bng/pkg/"):])
			if j := strings.Index(fn, "("); j > 0 && !strings.HasPrefix(fn, "radius.(") {
				fn = fn[:j]
			} else if j := strings.LastIndex(fn, "("); j > 0 {
				fn = fn[:j]
			}
			break
		}
	}
	run.Violation(fn, "process-survives", "panic-in-accounting-goroutine", "the gateway process died with a Go panic/fatal error inside pkg/radius while running script "+sc.String(),
		map[string]any{"script": sc, "stderr": r.Stderr})
}
