package c08

import (
	"context"
	"fmt"
	"math/rand/v2"
	"net"
	"os"
	"runtime"
	"sync"
	"testing"
	"testing/synctest"
	"time"

	"github.com/codelaboratoryltd/bng/pkg/dhcp"
	"github.com/codelaboratoryltd/bng/pkg/pppoe"
	"github.com/codelaboratoryltd/bng/pkg/radius"
	"github.com/insomniacslk/dhcp/dhcpv4"
	"go.uber.org/zap"
)

// ---------------------------------------------------------------------------------------------
// Many sessions ending at once through the paths that do not use AccountingManager's queue: the
// DHCP server (expiry sweep, shutdown accounting, bursts of RELEASE / DECLINE / DISCOVER on
// lapsed leases) and the PPPoE teardown (TerminateAll, TerminateByUsername, a burst of client
// PADTs), each with the real radius.Client and its per-server rate limiter in a tight
// configuration (a few requests per second, burst 1-3) or the default one (1000/s, burst 100),
// and a RADIUS server that answers everything. These paths send the Stop once and only log an
// error, so whatever the client refuses is lost.
//
// Everything runs in a synctest bubble: the limiter's waits cost nothing and no time-out can
// expire because the machine is slow (virtual time stands still while a datagram is in flight).
// Oracle on the acknowledged stream: every Acct-Session-Id whose Start was acknowledged has
// exactly one acknowledged Stop after the senders have come to rest, none before its Start, and
// no Stop names an id without a Start.

const ruleMassEnd = "mass session end (TestMassSessionEnd, in-process, synctest bubble, RADIUS server reachable throughout): N DHCP clients (DISCOVER, REQUEST through the real handlers) or N PPPoE sessions (created in the SessionManager, marked authenticated, their Accounting-Start sent by the harness through the same client since bng has no PPPoE Start of its own; two more unauthenticated sessions get no Start) are established one after the other or all at once, then all end in the same instant by one of {DHCP: one expiry sweep after all leases lapsed, shutdown accounting, sweep of the lapsed half immediately followed by shutdown, RELEASE burst, DECLINE burst, DISCOVER burst on lapsed leases; PPPoE: TerminateAll with and without a PADT callback, TerminateByUsername of a shared user name, a PADT from every client back to back}; limiter {5/s burst 1, 20/s burst 2, 50/s burst 3, 200/s burst 1} with N = 5..20 drawn per case (N/rate <= 4 s, inside the 10 s / 5 s bounds the shutdown and teardown paths give a send) and the default limiter with N = 20 (thorough: N = 130..320, beyond its burst of 100); after the event virtual time is advanced in steps of half a limiter interval while the acknowledged Stops are counted, then by 30 s plus four times N/rate; the acknowledged stream is read after the bubble has ended, i.e. after every goroutine started in it has finished (synctest.Test returns only then), and a case that does not end within 240 s of real time abandons the run as inconclusive. A case is non-trivial when all N Starts were acknowledged and more sessions ended in the same instant than the limiter's burst"

const (
	floorMassSpread = "mass_end_cases_stops_spread_over_time_by_limiter"
	floorMassBeyond = "mass_end_sessions_ended_beyond_limiter_burst"
	floorMassPPPoE  = "mass_end_pppoe_stops_acknowledged"
)

type massCase struct {
	Path      string  `json:"path"` // dhcp | pppoe
	Event     string  `json:"event"`
	N         int     `json:"sessions"`
	RPS       float64 `json:"limiter_requests_per_second"` // 0: the client's defaults (1000/s, burst 100)
	Burst     int     `json:"limiter_burst"`
	Establish string  `json:"establish"` // spaced | burst-settled | burst-unsettled
}

func (m massCase) rate() (float64, int) {
	if m.RPS == 0 {
		return 1000, 100
	}
	return m.RPS, m.Burst
}

func (m massCase) limiterClass() string {
	if m.RPS == 0 {
		return "default-limiter"
	}
	return "tight-limiter"
}

func (m massCase) String() string {
	return fmt.Sprintf("%s/%s n=%d limiter=%g/s,burst=%d %s", m.Path, m.Event, m.N, m.RPS, m.Burst, m.Establish)
}

var massComponent = map[string]string{
	"dhcp/sweep":                 "dhcp.Server.cleanupExpiredLeases",
	"dhcp/shutdown":              "dhcp.Server.stopAllAccounting",
	"dhcp/sweep-then-shutdown":   "dhcp.Server.stopAllAccounting",
	"dhcp/release-burst":         "dhcp.Server.handleRelease",
	"dhcp/decline-burst":         "dhcp.Server.handleDecline",
	"dhcp/rediscover-burst":      "dhcp.Server.handleDiscover",
	"pppoe/terminate-all":        "pppoe.SessionTeardown.TerminateAll",
	"pppoe/terminate-all-padt":   "pppoe.SessionTeardown.TerminateAll",
	"pppoe/terminate-by-user":    "pppoe.SessionTeardown.TerminateByUsername",
	"pppoe/client-padt-each":     "pppoe.SessionTeardown.HandleClientPADT",
	"pppoe/terminate-by-id-each": "pppoe.SessionTeardown.TerminateByID",
}

type massRun struct {
	mc           massCase
	log          []Rec
	err          string
	timeline     []string // "+<virtual time> acknowledged stops=<n>"
	increments   int      // observation steps at which the number of acknowledged Stops grew
	simultaneous int      // sessions ended in the same instant
	goBefore     int
	goAfter      int
	startsAtEnd  int // acknowledged Starts when the event began
	padts        int
	leftInTable  int
}

func (m massCase) settle() time.Duration {
	rps, _ := m.rate()
	return 30*time.Second + time.Duration(4*float64(m.N)/rps*float64(time.Second))
}

func (m massCase) step() time.Duration {
	rps, _ := m.rate()
	d := time.Duration(float64(time.Second) / rps / 2)
	if d < 500*time.Microsecond {
		d = 500 * time.Microsecond
	}
	return d
}

// goroutinesAtRest samples the goroutine count a few times (a finalizer being run by the
// runtime counts as a goroutine for a moment) and returns the smallest value seen.
func goroutinesAtRest() int {
	n := runtime.NumGoroutine()
	for i := 0; i < 5; i++ {
		runtime.Gosched()
		synctest.Wait()
		if m := runtime.NumGoroutine(); m < n {
			n = m
		}
	}
	return n
}

func countStops(log []Rec) int {
	n := 0
	for _, r := range log {
		if r.Status == stStop {
			n++
		}
	}
	return n
}

// observe advances virtual time in small steps until the acknowledged Stops have stopped coming
// for well over the longest wait the limiter can impose, then by the generous settle time.
func (r *massRun) observe(acct *acctServer, t0 time.Time) {
	mc := r.mc
	rps, _ := mc.rate()
	quiet := time.Duration(float64(mc.N+3)*float64(time.Second)/rps) + 50*time.Millisecond
	last, lastChange := -1, time.Now()
	for i := 0; i < 20000; i++ {
		synctest.Wait()
		n := countStops(acct.snapshot())
		if n != last {
			if last >= 0 || n > 0 {
				r.increments++
			}
			if len(r.timeline) < 64 {
				r.timeline = append(r.timeline, fmt.Sprintf("+%v acknowledged stops=%d", time.Since(t0), n))
			}
			last, lastChange = n, time.Now()
		}
		if time.Since(lastChange) > quiet {
			break
		}
		time.Sleep(mc.step())
	}
	time.Sleep(mc.settle())
	synctest.Wait()
}

func newMassClient(acct *acctServer, mc massCase, nas string) (*radius.Client, error) {
	return radius.NewClient(radius.ClientConfig{
		Servers: []radius.ServerConfig{{Host: "127.0.0.1", Port: acct.port - 1, Secret: secret}}, NASID: nas, Timeout: 5 * time.Second, Retries: 1,
		RateLimit: radius.RateLimitConfig{RequestsPerSecond: mc.RPS, BurstSize: mc.Burst},
	}, zap.NewNop())
}

func playMassDHCP(t *testing.T, acct *acctServer, mc massCase, rng *rand.Rand) *massRun {
	res := &massRun{mc: mc}
	acct.reset(nil, 0)
	synctest.Test(t, func(t *testing.T) {
		defer func() {
			if r := recover(); r != nil {
				res.err = fmt.Sprintf("panic: %v", r)
			}
		}()
		logger := zap.NewNop()
		pm := dhcp.NewPoolManager(nil, logger)
		pool, err := dhcp.NewPool(dhcp.PoolConfig{ID: 1, Name: "c08-mass", Network: "10.78.0.0/22", Gateway: "10.78.0.1", DNSServers: []string{"9.9.9.9"}, LeaseTime: dhcpLease})
		if err != nil {
			res.err = err.Error()
			return
		}
		pm.AddPool(pool)
		srv, err := dhcp.NewServer(dhcp.ServerConfig{Interface: "lo", ServerIP: net.ParseIP("10.78.0.1")}, nil, pm, logger)
		if err != nil {
			res.err = err.Error()
			return
		}
		rc, err := newMassClient(acct, mc, dhcpNAS)
		if err != nil {
			res.err = err.Error()
			return
		}
		srv.SetRADIUSClient(rc)
		conn := &dhcpConn{}
		peer := &net.UDPAddr{IP: net.IPv4bcast, Port: 68}
		macs := make([]net.HardwareAddr, mc.N)
		ips := make([]net.IP, mc.N)
		for i := range macs {
			macs[i] = net.HardwareAddr{0x02, 0x78, 0, byte(i >> 8), byte(i), 1}
		}
		xid := uint32(0)
		send := func(c int, mt dhcpv4.MessageType, req, ciaddr net.IP) *dhcpv4.DHCPv4 {
			mods := []dhcpv4.Modifier{dhcpv4.WithMessageType(mt), dhcpv4.WithHwAddr(macs[c])}
			if req != nil {
				mods = append(mods, dhcpv4.WithOption(dhcpv4.OptRequestedIPAddress(req)))
			}
			if ciaddr != nil {
				mods = append(mods, dhcpv4.WithClientIP(ciaddr))
			}
			m, _ := dhcpv4.New(mods...)
			xid++
			m.TransactionID = dhcpv4.TransactionID{byte(xid >> 24), byte(xid >> 16), byte(xid >> 8), byte(xid)}
			srv.VerifC08Handle(conn, peer, m)
			return conn.take()
		}
		rps, _ := mc.rate()
		res.goBefore = runtime.NumGoroutine()

		// ---- establishment
		for i := 0; i < mc.N; i++ {
			if o := send(i, dhcpv4.MessageTypeDiscover, nil, nil); o != nil && o.MessageType() == dhcpv4.MessageTypeOffer {
				ips[i] = o.YourIPAddr.To4()
			}
			if ips[i] == nil {
				res.err = fmt.Sprintf("client %d got no offer", i)
				return
			}
			if a := send(i, dhcpv4.MessageTypeRequest, ips[i], nil); a == nil || a.MessageType() != dhcpv4.MessageTypeAck {
				res.err = fmt.Sprintf("client %d got no ACK", i)
				return
			}
			if mc.Establish == "spaced" {
				time.Sleep(time.Duration(1.5*float64(time.Second)/rps) + time.Millisecond)
				synctest.Wait()
			}
		}
		switch mc.Establish {
		case "burst-settled":
			time.Sleep(mc.settle())
		}
		synctest.Wait()

		// ---- the sessions end
		lapse := func() { time.Sleep(dhcpLease + time.Second); synctest.Wait() }
		res.simultaneous = mc.N
		var t0 time.Time
		begin := func() {
			res.startsAtEnd = 0
			for _, r := range acct.snapshot() {
				if r.Status == stStart {
					res.startsAtEnd++
				}
			}
			t0 = time.Now()
		}
		switch mc.Event {
		case "sweep":
			lapse()
			begin()
			srv.VerifC08Sweep()
		case "shutdown":
			begin()
			srv.VerifC08StopAllAccounting(radius.TerminateCauseNASReboot)
		case "sweep-then-shutdown":
			time.Sleep(dhcpLease / 2)
			renewed := 0
			for i := 0; i < mc.N; i++ {
				if rng.IntN(2) == 0 && renewed < mc.N-1 {
					send(i, dhcpv4.MessageTypeRequest, nil, ips[i])
					renewed++
				}
			}
			time.Sleep(dhcpLease/2 + time.Second)
			synctest.Wait()
			begin()
			srv.VerifC08Sweep() // the lapsed ones: Stops sent from goroutines
			srv.VerifC08StopAllAccounting(radius.TerminateCauseNASReboot)
		case "release-burst":
			begin()
			for i := 0; i < mc.N; i++ {
				send(i, dhcpv4.MessageTypeRelease, nil, ips[i])
			}
		case "decline-burst":
			begin()
			for i := 0; i < mc.N; i++ {
				send(i, dhcpv4.MessageTypeDecline, ips[i], nil)
			}
		case "rediscover-burst":
			lapse()
			begin()
			for i := 0; i < mc.N; i++ {
				send(i, dhcpv4.MessageTypeDiscover, nil, nil)
			}
		default:
			res.err = "harness: unknown event " + mc.Event
			return
		}
		res.observe(acct, t0)
		// the server goes away: whatever is still open is closed by the shutdown accounting
		if mc.Event != "shutdown" && mc.Event != "sweep-then-shutdown" {
			srv.VerifC08StopAllAccounting(radius.TerminateCauseNASReboot)
			time.Sleep(mc.settle())
			synctest.Wait()
		}
		for i := range macs {
			if _, _, _, ok := srv.VerifC08Lease(macs[i]); ok {
				res.leftInTable++
			}
		}
		res.goAfter = goroutinesAtRest()
	})
	res.log = acct.snapshot()
	return res
}

func playMassPPPoE(t *testing.T, acct *acctServer, mc massCase, rng *rand.Rand) *massRun {
	res := &massRun{mc: mc}
	acct.reset(nil, 0)
	synctest.Test(t, func(t *testing.T) {
		defer func() {
			if r := recover(); r != nil {
				res.err = fmt.Sprintf("panic: %v", r)
			}
		}()
		rc, err := newMassClient(acct, mc, dhcpNAS)
		if err != nil {
			res.err = err.Error()
			return
		}
		cfg := pppoe.DefaultTeardownConfig()
		cfg.PADTRetries = 0
		td := pppoe.NewSessionTeardown(cfg, zap.NewNop())
		sm := pppoe.NewSessionManager()
		td.SetRADIUSClient(rc)
		td.SetSessionManager(sm)
		var pmu sync.Mutex
		if mc.Event != "terminate-all" {
			td.SetSendPADT(func(*pppoe.Session, []pppoe.Tag) { pmu.Lock(); res.padts++; pmu.Unlock() })
		}
		rps, _ := mc.rate()
		res.goBefore = runtime.NumGoroutine()
		serverMAC := net.HardwareAddr{0x02, 0x79, 0, 0, 0, 0xfe}
		user := func(i int) string {
			if mc.Event == "terminate-by-user" {
				return "shared-login@c08"
			}
			return fmt.Sprintf("sub%03d@c08", i)
		}
		sessions := make([]*pppoe.Session, 0, mc.N+2)
		var swg sync.WaitGroup
		for i := 0; i < mc.N+2; i++ {
			s, err := sm.CreateSession(net.HardwareAddr{0x02, 0x79, 0, byte(i >> 8), byte(i), 1}, serverMAC)
			if err != nil {
				res.err = err.Error()
				return
			}
			s.Username = user(i)
			s.ClientIP = net.IPv4(10, 79, byte(i>>8), byte(1+i%250)).To4()
			s.BytesIn, s.BytesOut = uint64(i)<<30+7, uint64(i)<<33+9
			s.SetState(pppoe.StateEstablished)
			sessions = append(sessions, s)
			if i >= mc.N {
				continue // never authenticated: no accounting was started for these two
			}
			s.Authenticated = true
			start := func() {
				defer swg.Done()
				rc.SendAccounting(context.Background(), &radius.AcctRequest{SessionID: s.SessionID, Username: s.Username, MAC: s.ClientMAC, FramedIP: s.ClientIP, StatusType: radius.AcctStatusStart})
			}
			swg.Add(1)
			if mc.Establish == "spaced" {
				start()
				time.Sleep(time.Duration(1.5*float64(time.Second)/rps) + time.Millisecond)
			} else {
				go start()
			}
		}
		if mc.Establish != "burst-unsettled" {
			swg.Wait()
		}
		synctest.Wait()

		res.simultaneous = mc.N
		for _, r := range acct.snapshot() {
			if r.Status == stStart {
				res.startsAtEnd++
			}
		}
		t0 := time.Now()
		observed := make(chan struct{})
		go func() { // the teardown calls block while the limiter makes them wait: watch from the side
			defer close(observed)
			res.observe(acct, t0)
		}()
		switch mc.Event {
		case "terminate-all", "terminate-all-padt":
			td.TerminateAll(pppoe.TerminateCauseAdminReboot, "maintenance")
		case "terminate-by-user":
			td.TerminateByUsername("shared-login@c08", "operator")
		case "terminate-by-id-each":
			for _, s := range sessions {
				td.TerminateByID(s.ID, "operator")
			}
		case "client-padt-each":
			// (one after the other: the teardown serialises them under its own mutex anyway, and a
			// goroutine waiting for a sync.Mutex whose holder sleeps in the limiter would stall the
			// bubble's clock)
			for _, s := range sessions {
				td.HandleClientPADT(s, s.ClientMAC, s.ID)
			}
		default:
			res.err = "harness: unknown event " + mc.Event
		}
		<-observed
		swg.Wait()
		time.Sleep(mc.settle())
		synctest.Wait()
		res.leftInTable = sm.Count()
		res.goAfter = goroutinesAtRest()
		_ = rng
	})
	res.log = acct.snapshot()
	return res
}

func judgeMass(r *massRun) {
	mc := r.mc
	key := mc.Path + "/" + mc.Event
	comp := massComponent[key]
	run.Eval()
	// (the stream was read after the bubble had ended, that is after every goroutine started in it
	// had finished: no sender can still be waiting)
	if r.goAfter > r.goBefore {
		run.Count("mass_end_cases_with_more_goroutines_after_the_settle_time_than_before (informational: runtime cleanups count)", 1)
	}
	_, burst := mc.rate()
	cls := "mass-end/" + key + "/" + mc.limiterClass()
	wit := func() map[string]any {
		return map[string]any{"case": mc, "acknowledged_stream": streamStr(r.log), "stops_over_virtual_time": r.timeline,
			"acknowledged_starts_when_the_event_began": r.startsAtEnd, "lease_time": dhcpLease.String()}
	}
	type sess struct{ starts, stops []Rec }
	by := map[string]*sess{}
	var order []string
	for _, rec := range r.log {
		if rec.Status != stStart && rec.Status != stStop {
			continue
		}
		s := by[rec.SID]
		if s == nil {
			s = &sess{}
			by[rec.SID] = s
			order = append(order, rec.SID)
		}
		if rec.Status == stStart {
			s.starts = append(s.starts, rec)
		} else {
			s.stops = append(s.stops, rec)
		}
	}
	nStarted, nStopped, missing, dup, orphan, early := 0, 0, []string{}, []string{}, []string{}, []string{}
	for _, sid := range order {
		s := by[sid]
		if len(s.starts) == 0 {
			orphan = append(orphan, sid)
			continue
		}
		nStarted++
		switch {
		case len(s.stops) == 0:
			missing = append(missing, sid)
		case len(s.stops) > 1:
			dup = append(dup, sid)
		default:
			nStopped++
		}
		for _, st := range s.stops {
			if st.Pos < s.starts[0].Pos {
				early = append(early, sid)
			}
			a := s.starts[0]
			if st.User != a.User || st.CSID != a.CSID || st.IP != a.IP || st.NASID != a.NASID {
				w := wit()
				w["start"], w["stop"] = a, st
				run.Violation(comp, "records-carry-own-identifiers", cls+"/stop-differs-from-start",
					fmt.Sprintf("mass end %s: the Accounting-Stop of %s carries user=%q calling-station=%q ip=%s, its Start carried user=%q calling-station=%q ip=%s", mc, sid, st.User, st.CSID, st.IP, a.User, a.CSID, a.IP), w)
			}
			if mc.Path == "pppoe" {
				// the harness set the session's counters itself: the Stop must report them exactly
				var i int
				fmt.Sscanf(a.User, "sub%03d@c08", &i)
				if mc.Event == "terminate-by-user" {
					i = int(st.out64()-9) >> 33
				}
				if st.in64() != uint64(i)<<30+7 || st.out64() != uint64(i)<<33+9 {
					w := wit()
					w["stop"] = st
					run.Violation(comp, "counter-gigaword-split", cls+"/pppoe-stop",
						fmt.Sprintf("mass end %s: the Accounting-Stop of %s reports %d/%d octets, the session carried %d/%d", mc, sid, st.in64(), st.out64(), uint64(i)<<30+7, uint64(i)<<33+9), w)
				}
			}
		}
	}
	run.Count("mass_end_cases_judged", 1)
	run.Count("mass_end_case "+key+" "+mc.limiterClass()+" "+mc.Establish, 1)
	run.Count("mass_end_sessions_start_acknowledged", nStarted)
	run.Count("mass_end_sessions_with_exactly_one_stop", nStopped)
	run.Count("mass_end_"+mc.Path+"_stops_acknowledged", countStops(r.log))
	run.Distinct("mass_end_shapes", fmt.Sprintf("%s n=%d burst=%d %s spread=%v", key, mc.N, burst, mc.Establish, r.increments > 1))
	if r.increments > 1 {
		run.Count(floorMassSpread, 1)
	}
	if r.simultaneous > burst {
		run.Count(floorMassBeyond, r.simultaneous-burst)
	}
	if r.startsAtEnd < nStarted {
		run.Count("mass_end_cases_event_began_while_starts_waited_for_the_limiter", 1)
	}
	if mc.Path == "pppoe" {
		run.Count("mass_end_pppoe_padts_sent", r.padts)
	}
	if nStarted == mc.N && r.simultaneous > burst {
		run.Nontrivial("mass/" + mc.String())
	}
	if len(missing) > 0 {
		w := wit()
		w["sessions_without_stop"] = missing
		run.Violation(comp, "eventual-stop", cls,
			fmt.Sprintf("mass end %s: %d of %d sessions whose Accounting-Start was acknowledged have no acknowledged Accounting-Stop after the senders came to rest (RADIUS server reachable throughout; %d sessions ended in the same instant, limiter burst %d); first: %v", mc, len(missing), nStarted, r.simultaneous, burst, missing[:min(3, len(missing))]), w)
	}
	if len(dup) > 0 {
		w := wit()
		w["sessions_with_several_stops"] = dup
		run.Violation(comp, "stop-acknowledged-once", cls,
			fmt.Sprintf("mass end %s: %d sessions had more than one Accounting-Stop acknowledged; first: %v", mc, len(dup), dup[:min(3, len(dup))]), w)
	}
	if len(orphan) > 0 {
		w := wit()
		w["stops_without_start"] = orphan
		run.Violation(comp, "no-record-for-unstarted-session", cls,
			fmt.Sprintf("mass end %s: %d Accounting-Stops were acknowledged for ids no acknowledged Accounting-Start ever carried; first: %v", mc, len(orphan), orphan[:min(3, len(orphan))]), w)
	}
	if len(early) > 0 {
		w := wit()
		w["stops_before_start"] = early
		run.Violation(comp, "stop-only-after-start", cls,
			fmt.Sprintf("mass end %s: %d Accounting-Stops were acknowledged before the Start of their session; first: %v", mc, len(early), early[:min(3, len(early))]), w)
	}
}

func TestMassSessionEnd(t *testing.T) {
	acct, err := newAcctServer(secret)
	if err != nil {
		t.Fatal(err)
	}
	defer acct.close()
	acct.conn.SetReadBuffer(4 << 20)

	tight := []struct {
		rps   float64
		burst int
	}{{5, 1}, {20, 2}, {50, 3}, {200, 1}}
	dhcpEvents := []string{"sweep", "shutdown", "sweep-then-shutdown", "release-burst", "decline-burst", "rediscover-burst"}
	pppoeEvents := []string{"terminate-all", "terminate-all-padt", "terminate-by-user", "client-padt-each", "terminate-by-id-each"}
	establish := []string{"spaced", "burst-settled", "burst-unsettled"}

	var cases []massCase
	rounds := run.Pick(1, 4)
	for round := 0; round < rounds; round++ {
		for ei, ev := range dhcpEvents {
			for li, l := range tight {
				for si, est := range establish {
					if est == "burst-unsettled" && (ev == "sweep" || ev == "rediscover-burst" || ev == "sweep-then-shutdown") {
						continue // the leases lapse first: nothing is unsettled by then
					}
					rng := run.SubRand("mass-n", ((round*8+ei)*8+li)*8+si)
					n := 5 + rng.IntN(16)
					if float64(n)/l.rps > 4 {
						n = int(4 * l.rps)
					}
					if est == "burst-unsettled" && float64(2*n)/l.rps > 4 {
						n = int(2 * l.rps) // Starts and Stops share the limiter: both inside the shutdown path's 10 s
					}
					cases = append(cases, massCase{Path: "dhcp", Event: ev, N: n, RPS: l.rps, Burst: l.burst, Establish: est})
				}
			}
			cases = append(cases, massCase{Path: "dhcp", Event: ev, N: 20, Establish: establish[(round+ei)%2]})
		}
		for ei, ev := range pppoeEvents {
			for li, l := range tight {
				for si, est := range establish {
					rng := run.SubRand("mass-pppoe-n", ((round*8+ei)*8+li)*8+si)
					n := 5 + rng.IntN(16)
					if float64(n)/l.rps > 4 {
						n = int(4 * l.rps)
					}
					if est == "burst-unsettled" && float64(2*n)/l.rps > 4 {
						n = int(2 * l.rps) // the Stops wait behind the Starts: inside the teardown's 5 s per send
					}
					cases = append(cases, massCase{Path: "pppoe", Event: ev, N: n, RPS: l.rps, Burst: l.burst, Establish: est})
				}
			}
			cases = append(cases, massCase{Path: "pppoe", Event: ev, N: 20, Establish: establish[(round+ei)%2]})
		}
	}
	if run.Thorough() {
		// the default limiter beyond its burst of 100
		for i, ev := range append(append([]string(nil), dhcpEvents...), pppoeEvents...) {
			path := "dhcp"
			if i >= len(dhcpEvents) {
				path = "pppoe"
			}
			for k, n := range []int{130, 320} {
				cases = append(cases, massCase{Path: path, Event: ev, N: n, Establish: establish[(i+k)%2]})
			}
		}
	}
	run.Extra("mass_end_cases", len(cases))
	for i, mc := range cases {
		rng := run.SubRand("mass-case", i)
		var r *massRun
		// a bubble whose clock cannot advance (a goroutine of the code under test parked on a mutex
		// whose holder sleeps) never returns: give up on the whole run rather than hang
		wd := time.AfterFunc(240*time.Second, func() {
			run.Inconclusive("mass-end "+mc.String(), "the case did not finish within 240 s of real time (bubble stalled); run abandoned")
			ec := run.Finish()
			if ec == 0 {
				ec = 2
			}
			os.Exit(ec)
		})
		if mc.Path == "dhcp" {
			r = playMassDHCP(t, acct, mc, rng)
		} else {
			r = playMassPPPoE(t, acct, mc, rng)
		}
		wd.Stop()
		if r.err != "" {
			run.Inconclusive("mass-end "+mc.String(), r.err)
			continue
		}
		judgeMass(r)
		if i == 0 || i == len(cases)/2 {
			run.Sample(map[string]any{"kind": "mass-session-end", "case": mc, "stops_over_virtual_time": r.timeline, "sessions_started": r.startsAtEnd})
		}
	}
}
