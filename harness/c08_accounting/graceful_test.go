package c08

import (
	"math/rand/v2"
)

// ---------------------------------------------------------------------------------------------
// Graceful stop as a crash point of its own: AccountingManager.Stop() under every shutdown
// configuration, with 0..3 sessions open and records queued, followed by a new manager on the
// same directory with the server reachable. The oracle is the one of all other scripts: every
// session with an acknowledged (or durably queued) Start ends up with exactly one acknowledged
// Stop (no crash), and the crash points from Stop() on and of the restart are enumerated too.

const ruleGraceful = "graceful stop then restart (TestCrashEnumeration, scripts g*/h*): AccountingManager.Stop() with DrainOnShutdown on/off x the server answering / refusing (closed port) / hanging (a port that never answers) while Stop() runs x ShutdownTimeout longer/shorter than the drain needs (in virtual time through a 2/s burst-1 rate limiter; against the hanging server in real time with a 1.5 s client time-out and ShutdownTimeout 300 ms or 6 s, the process exiting at once or 300 ms after Stop() returned) x what is open and queued when Stop() is called {nothing, 1 or 3 open sessions, one open one closed, Start still queued, Stop of a closed session still queued, after an interim update, interim update still queued} exhaustively, plus seeded random step lists; then a restart on the same directory with the server up (after 0-1 more refusals) and 90 s of virtual time; crash points are enumerated from the call of Stop() on and through the whole restart (real-time incarnations: the restart only). A graceful-stop scenario is non-trivial when a session was open or something was left in the directory when Stop() returned; a real-time incarnation is judged only if every transmission the script meant to be answered was answered"

type gPrefix struct {
	name  string
	steps []Step
	down  []int
}

func gracefulPrefixes() []gPrefix {
	return []gPrefix{
		{"nothing-open", nil, nil},
		{"1-open", []Step{st("start", 0)}, nil},
		{"3-open", []Step{st("start", 0), st("start", 1), st("start", 2)}, nil},
		{"1-open-1-closed", []Step{st("start", 0), st("start", 1), st("stop", 0)}, nil},
		// the Start is refused by StartSession and by the first queue attempt: still queued at 0.7 s
		{"start-queued", []Step{st("start", 0)}, []int{0, 1}},
		// the Stop of session 0 is refused twice and waits in the queue; session 1 is open
		{"stop-queued", []Step{st("start", 0), st("start", 1), st("stop", 0)}, []int{2, 3}},
		{"after-interim", []Step{st("start", 0), st("tick", 0), st("start", 1)}, nil},
		// the interim update of 10 s is refused twice and waits in the queue
		{"interim-queued", []Step{st("start", 0), st("tick", 0)}, []int{1, 2}},
	}
}

func gracefulScript(p gPrefix, sd *ShutdownSpec, lim *LimiterSpec, finalDown int) *Script {
	in := Inc{Steps: append([]Step(nil), p.steps...), Down: append([]int(nil), p.down...), End: "graceful", Shutdown: sd, Limiter: lim}
	return &Script{Incs: []Inc{in}, FinalDown: finalDown, KillFromShutdown: true}
}

// gracefulExhaustive: every prefix x every shutdown configuration that can be played in virtual time.
func gracefulExhaustive() []*Script {
	var out []*Script
	tight := &LimiterSpec{RPS: 2, Burst: 1}
	n := 0
	for _, p := range gracefulPrefixes() {
		queued := len(p.down) > 0
		add := func(sd *ShutdownSpec, lim *LimiterSpec) *Script {
			n++
			sc := gracefulScript(p, sd, lim, n%2)
			if sd.Server != "" {
				// the queue processor may try every record the drain queues once more while Stop() runs
				// (refused as well, or failing with the cancelled context: both count as retries): room
				// for those
				sc.MaxRetries = 12
			}
			out = append(out, sc)
			return sc
		}
		add(&ShutdownSpec{NoDrain: true}, nil)
		add(&ShutdownSpec{Server: "refuse"}, nil)
		if queued {
			add(&ShutdownSpec{NoDrain: true, Server: "refuse"}, nil)
		}
		if queued || p.name == "3-open" {
			add(&ShutdownSpec{}, nil).NoKills = true // the default configuration: kill points are covered by the curated scripts
		}
		switch p.name {
		case "1-open", "3-open", "1-open-1-closed", "start-queued", "stop-queued":
			// the server hangs while Stop() runs: every send of the drain is still in flight when a
			// ShutdownTimeout of 1 s runs out (the client would give up after 3 s); with 30 s they all
			// time out first
			add(&ShutdownSpec{Server: "hang", TimeoutMs: 1000, Versus: "timeout-shorter-than-drain"}, nil)
			add(&ShutdownSpec{Server: "hang", TimeoutMs: 1000, Versus: "timeout-shorter-than-drain", LingerMs: 300}, nil)
			add(&ShutdownSpec{Server: "hang", Versus: "timeout-longer-than-drain"}, nil)
		}
		if p.name == "3-open" || p.name == "1-open-1-closed" || p.name == "start-queued" {
			// three sends through a 2/s limiter need a second: 400 ms cut the drain short, 30 s do not
			add(&ShutdownSpec{TimeoutMs: 400, Versus: "timeout-shorter-than-drain"}, tight)
			add(&ShutdownSpec{Versus: "timeout-longer-than-drain"}, tight)
		}
	}
	return out
}

// gracefulRandom: a seeded random step list (one incarnation of randomScript) under a random
// shutdown configuration.
func gracefulRandom(rng *rand.Rand) *Script {
	base := randomScript(rng)
	in := base.Incs[0]
	in.End = "graceful"
	if len(in.Down) > 2 {
		in.Down = in.Down[:2]
	}
	var lim *LimiterSpec
	sd := &ShutdownSpec{}
	switch rng.IntN(6) {
	case 0, 1:
		sd.NoDrain = true
	case 2:
		sd.NoDrain, sd.Server = true, "refuse"
	case 3:
		sd.Server = "refuse"
	case 4:
		lim = &LimiterSpec{RPS: float64(1 + rng.IntN(4)), Burst: 1 + rng.IntN(2)}
		sd.TimeoutMs, sd.Versus = 100+rng.IntN(400), "timeout-shorter-than-drain"
	default:
		lim = &LimiterSpec{RPS: float64(1 + rng.IntN(4)), Burst: 1 + rng.IntN(2)}
		sd.Versus = "timeout-longer-than-drain"
	}
	in.Shutdown, in.Limiter = sd, lim
	sc := &Script{Incs: []Inc{in}, FinalDown: rng.IntN(2), KillFromShutdown: true}
	if sd.Server != "" {
		sc.MaxRetries = 12
	}
	return sc
}

// gracefulRealtime: the server hangs while Stop() runs. Only the first incarnation runs in real
// time (about 2 s each); the restart is played in virtual time like everywhere else.
func gracefulRealtime(thorough bool) []*Script {
	var out []*Script
	if !thorough {
		// real time is at the mercy of the machine's load (the scenarios whose exchanges were slow
		// are not judged); the quick tier plays the hanging server in virtual time only
		return nil
	}
	n := 0
	for _, p := range gracefulPrefixes() {
		switch p.name {
		case "nothing-open", "after-interim", "interim-queued":
			continue // a 10 s interim tick in real time is not worth it
		}
		for _, short := range []bool{true, false} {
			for _, linger := range []int{0, 300} {
				sd := &ShutdownSpec{Server: "hang", LingerMs: linger, TimeoutMs: 6000, Versus: "timeout-longer-than-drain"}
				if short {
					sd.TimeoutMs, sd.Versus = 300, "timeout-shorter-than-drain"
				}
				n++
				in := Inc{Steps: append([]Step(nil), p.steps...), Down: append([]int(nil), p.down...), End: "graceful", Shutdown: sd, Realtime: true, ClientTimeoutMs: 1500}
				out = append(out, &Script{Incs: []Inc{in}, FinalDown: n % 2, MaxRetries: 10})
			}
		}
	}
	if thorough {
		// drain off with the server hanging: nothing is sent by Stop(), the queue is only written out
		for _, p := range gracefulPrefixes() {
			if len(p.down) == 0 || p.name == "interim-queued" {
				continue
			}
			in := Inc{Steps: append([]Step(nil), p.steps...), Down: append([]int(nil), p.down...), End: "graceful",
				Shutdown: &ShutdownSpec{NoDrain: true, Server: "hang", TimeoutMs: 300}, Realtime: true, ClientTimeoutMs: 1500}
			out = append(out, &Script{Incs: []Inc{in}, MaxRetries: 10})
		}
	}
	return out
}
