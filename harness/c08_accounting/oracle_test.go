package c08

import (
	"encoding/hex"
	"encoding/json"
	"fmt"
	"sort"
	"strings"
	"time"
)

// scenario is one finished execution: the incarnations in order, the stream of accepted
// Accounting-Requests over all of them, and (for injected crashes) where the kill happened.
type scenario struct {
	sc        *Script
	incs      []incResult
	log       []Rec
	kill      *killCase
	dirAtKill map[string]string
}

// sessFacts is what the journals say about one session (client-side facts: which API calls
// were made and what they returned — never anything about the manager's internal state).
type sessFacts struct {
	startInc   int // incarnation of the first StartSession call, -1 none
	startBegun bool
	startEnded bool
	startOK    bool
	stopInc    int
	stopBegun  bool
	stopEnded  bool
	stopOK     bool
}

const (
	compMgr      = "radius.AccountingManager"
	compStart    = "radius.AccountingManager.StartSession"
	compStop     = "radius.AccountingManager.StopSession"
	compDrain    = "radius.AccountingManager.Stop(drain)"
	compRecovery = "radius.AccountingManager.Start(recovery)"
	compShutdown = "radius.AccountingManager.Stop"
	compInterim  = "radius.AccountingManager.sendInterimUpdate"
)

func recStr(r Rec) string {
	s := fmt.Sprintf("#%d inc%d %s(%s)", r.Pos, r.Inc, statusName(r.Status), r.SID)
	if r.Status == stStop {
		s += fmt.Sprintf(" cause=%d", r.Cause)
	}
	return s
}

func streamStr(log []Rec) []string {
	out := make([]string, 0, len(log))
	for _, r := range log {
		out = append(out, recStr(r))
	}
	return out
}

// pendingStops lists the session ids that have an Accounting-Stop queued durably: any JSON file
// of the persistence directory outside sessions/ that holds one queued record or a map of them
// (pending.json today; the oracle does not depend on the file layout).
func pendingStops(tree map[string]string) map[string]bool {
	type rec struct {
		Request *struct {
			SessionID  string
			StatusType uint32
		} `json:"request"`
	}
	out := map[string]bool{}
	for name, raw := range tree {
		if strings.HasPrefix(name, "sessions/") || !strings.HasSuffix(name, ".json") {
			continue
		}
		var m map[string]rec
		if json.Unmarshal([]byte(raw), &m) == nil {
			for _, r := range m {
				if r.Request != nil && r.Request.StatusType == stStop {
					out[r.Request.SessionID] = true
				}
			}
		}
		var one rec
		if json.Unmarshal([]byte(raw), &one) == nil && one.Request != nil && one.Request.StatusType == stStop {
			out[one.Request.SessionID] = true
		}
	}
	return out
}

func dirShape(tree map[string]string) string {
	ns, np, nf := 0, 0, 0
	for k := range tree {
		if strings.HasPrefix(k, "sessions/") && strings.HasSuffix(k, ".json") {
			ns++
		} else if strings.HasSuffix(k, ".json") && k != "pending.json" {
			nf++
		}
	}
	if raw, ok := tree["pending.json"]; ok {
		var m map[string]json.RawMessage
		json.Unmarshal([]byte(raw), &m)
		np = len(m)
		if np == 0 {
			np = -1
		}
	}
	if nf > 0 {
		return fmt.Sprintf("sessions=%d pending=%d other-json=%d", ns, np, nf)
	}
	return fmt.Sprintf("sessions=%d pending=%d", ns, np)
}

// phaseAtCrash describes, from the journal of the last incarnation that crashed (injected kill
// or scripted crash) at or after the session's StartSession call, what the harness was doing
// with session i when that process died.
func phaseAtCrash(sn *scenario, f *sessFacts, i int) string {
	if f.startInc < 0 {
		return "not-started"
	}
	k := -1
	for x := f.startInc; x < len(sn.incs); x++ {
		if sn.incs[x].Def.End == "crash" || (sn.kill != nil && x == sn.kill.k) {
			k = x // the last crash is the one after which nothing was left to recover from
		}
	}
	if k < 0 {
		if g, ok := openAtGracefulStop(sn, f); ok {
			return "open-at-graceful-stop(" + sn.incs[g].Def.Shutdown.classLabel() + ")"
		}
		return "end-of-script"
	}
	in := sn.incs[k]
	if f.startInc < k {
		for _, e := range in.J {
			if e.Ev == "started" {
				return "after-restart"
			}
		}
		return "during-recovery"
	}
	startEnded, stopBegun, stopEnded, shutdown := false, false, false, false
	for _, e := range in.J {
		switch e.Ev {
		case "shutdown-begin":
			shutdown = true
		case "step-begin", "step-end":
			if e.I < 0 || e.I >= len(in.Def.Steps) || in.Def.Steps[e.I].S != i {
				continue
			}
			switch in.Def.Steps[e.I].K {
			case "start":
				if e.Ev == "step-end" {
					startEnded = true
				}
			case "stop":
				if !startEnded || stopEnded {
					continue
				}
				if e.Ev == "step-begin" {
					stopBegun = true
				} else if e.Err == "" {
					stopEnded = true
				}
			}
		}
	}
	switch {
	case !startEnded:
		return "in-StartSession"
	case stopEnded:
		return "after-StopSession-returned"
	case stopBegun:
		return "in-StopSession"
	case shutdown:
		return "in-shutdown-drain"
	}
	return "active"
}

// openAtGracefulStop reports the first incarnation that ended with a graceful Stop() while the
// session had been passed to StartSession and no StopSession call for it had succeeded (from
// the journals: API calls and their results only).
func openAtGracefulStop(sn *scenario, f *sessFacts) (int, bool) {
	if f.startInc < 0 {
		return 0, false
	}
	for k := f.startInc; k < len(sn.incs); k++ {
		if f.stopOK && f.stopInc <= k {
			return 0, false
		}
		in := sn.incs[k]
		if in.Def.End != "graceful" || (sn.kill != nil && k == sn.kill.k) {
			continue
		}
		for _, e := range in.J {
			if e.Ev == "shutdown-end" {
				return k, true
			}
		}
	}
	return 0, false
}

// queueSentDuringStop reports whether the journal of an incarnation shows a queue transmission
// (meant to be answered) after the graceful Stop() was called.
func queueSentDuringStop(j []JEv) bool {
	after := false
	for _, e := range j {
		if e.Ev == "shutdown-begin" {
			after = true
		}
		if after && e.Ev == "req" && !e.Down && e.Name == "retry:before-send" {
			return true
		}
	}
	return false
}

func compOfPhase(p string) string {
	if strings.HasPrefix(p, "open-at-graceful-stop") {
		return compShutdown
	}
	switch p {
	case "in-StartSession":
		return compStart
	case "in-StopSession", "after-StopSession-returned":
		return compStop
	case "in-shutdown-drain":
		return compDrain
	case "during-recovery", "after-restart":
		return compRecovery
	}
	return compMgr
}

func judge(sn *scenario) {
	sc := sn.sc
	run.Eval()
	crash := sn.kill != nil
	for _, in := range sn.incs {
		if in.Def.End == "crash" {
			crash = true
		}
	}
	mode := "no-crash"
	if crash {
		mode = "crash"
	}
	// An incarnation that ran in real time (server hanging during the shutdown) is only judged when
	// every transmission the harness meant to be answered was answered: on a loaded machine a
	// client time-out can expire by itself, and that is not an outage pattern the script chose.
	for k, in := range sn.incs {
		if !in.Def.Realtime {
			continue
		}
		up, acc := 0, 0
		for _, e := range in.J {
			if e.Ev == "req" && !e.Down {
				up++
			}
		}
		for _, r := range sn.log {
			if r.Inc == k {
				acc++
			}
		}
		if up != acc {
			run.Count("realtime_scenarios_not_judged_timing", 1)
			run.Inconclusive(fmt.Sprintf("script=%s inc=%d", sc.ID, k), fmt.Sprintf("real-time incarnation: %d transmissions were meant to be answered, the server accepted %d (time-out by load); not judged", up, acc))
			return
		}
		// ... and was answered well inside the client's time-out (an answer that arrives after it
		// makes the client send the record again, which the server then has twice)
		limit := 3 * time.Second
		if in.Def.ClientTimeoutMs > 0 {
			limit = time.Duration(in.Def.ClientTimeoutMs) * time.Millisecond
		}
		for x, e := range in.J {
			if e.Ev != "req" || e.Down {
				continue
			}
			want := strings.TrimSuffix(e.Name, ":before-send") + ":after-send"
			for _, a := range in.J[x+1:] {
				if a.Ev != "point" || a.Name != want {
					continue
				}
				t0, err0 := time.ParseDuration(e.VT)
				t1, err1 := time.ParseDuration(a.VT)
				if err0 == nil && err1 == nil && t1-t0 > limit/2 {
					run.Count("realtime_scenarios_not_judged_timing", 1)
					run.Inconclusive(fmt.Sprintf("script=%s inc=%d", sc.ID, k), fmt.Sprintf("real-time incarnation: an exchange with the reachable server took %v of the client's %v time-out (machine load); not judged", t1-t0, limit))
					return
				}
				break
			}
		}
	}
	budgetText := fmt.Sprintf("refused transmissions in total <= MaxRetries-2=%d", sc.MaxRetries-2)
	phasedClass := ""
	if sc.Phased {
		pf, ok := judgePhased(sn)
		if !ok {
			return
		}
		budgetText = fmt.Sprintf("refused per phase %v (+%d after the restart), every record refused fewer than MaxRetries=%d times; %s", pf.down, pf.laterInc, sc.MaxRetries, pf.stopPos)
		phasedClass = "/" + pf.stopPos
	}

	// ---- client-side facts from the journals
	facts := make([]*sessFacts, len(sc.Sessions))
	for i := range facts {
		facts[i] = &sessFacts{startInc: -1, stopInc: -1}
	}
	idx := map[string]int{}
	for i, s := range sc.Sessions {
		idx[s.ID] = i
	}
	nDown, nUp := 0, 0
	for k, in := range sn.incs {
		for _, e := range in.J {
			switch e.Ev {
			case "req":
				if e.Down {
					nDown++
				} else {
					nUp++
				}
			case "step-begin", "step-end":
				if e.I < 0 || e.I >= len(in.Def.Steps) {
					continue
				}
				st := in.Def.Steps[e.I]
				if st.S < 0 || st.S >= len(facts) {
					continue
				}
				f := facts[st.S]
				switch st.K {
				case "start":
					if e.Ev == "step-begin" {
						if f.startInc < 0 {
							f.startInc = k
						}
						f.startBegun = true
					} else {
						f.startEnded = true
						f.startOK = e.Err == ""
					}
				case "stop":
					// only a StopSession call on a session that was started counts as "the" stop
					if !f.startBegun {
						continue
					}
					if e.Ev == "step-begin" {
						if !f.stopOK {
							f.stopBegun, f.stopEnded, f.stopInc = true, false, k
						}
					} else if !f.stopOK {
						f.stopEnded = true
						f.stopOK = e.Err == ""
					}
				}
			}
		}
	}

	base := func() map[string]any {
		w := map[string]any{"script": sc.String(), "script_id": sc.ID, "max_retries": sc.MaxRetries, "final_down": sc.FinalDown,
			"accepted_stream": streamStr(sn.log), "refused_transmissions": nDown}
		if sn.kill != nil {
			w["kill"] = fmt.Sprintf("incarnation %d at %s occurrence %d", sn.kill.k, sn.kill.point.Name, sn.kill.point.Occ)
			w["directory_at_kill"] = sn.dirAtKill
		}
		return w
	}

	// ---- the accepted stream per session
	type perSess struct{ starts, stops, interims []Rec }
	ps := make([]perSess, len(sc.Sessions))
	for _, r := range sn.log {
		run.Count("accepted_"+statusName(r.Status), 1)
		i, known := idx[r.SID]
		if !known || !facts[i].startBegun {
			// clause 2: a record for an id accounting was never started for
			w := base()
			w["record"] = r
			cls := "unknown-session-id"
			if known {
				cls = "session-never-passed-to-StartSession"
			}
			run.Violation(compMgr, "no-record-for-unstarted-session", statusName(r.Status)+"/"+cls,
				fmt.Sprintf("the server accepted %s for %q although StartSession was never called for it; script %s", recStr(r), r.SID, sc.String()), w)
			continue
		}
		switch r.Status {
		case stStart:
			ps[i].starts = append(ps[i].starts, r)
		case stStop:
			ps[i].stops = append(ps[i].stops, r)
		case stInterim:
			ps[i].interims = append(ps[i].interims, r)
		}
		judgeRecord(sn, base, &sc.Sessions[i], facts[i], r)
	}

	stopPath := func(f *sessFacts, r Rec) string {
		if r.Inc > f.startInc {
			return compRecovery
		}
		if r.Cause == 1 {
			return compStop
		}
		return compDrain
	}

	for i := range sc.Sessions {
		f, p := facts[i], ps[i]
		s := &sc.Sessions[i]
		if !f.startBegun {
			continue
		}
		run.Count("sessions_judged", 1)
		// ---- clause 1: Stop accepted => Start accepted earlier
		for _, st := range p.stops {
			earlier := false
			for _, a := range p.starts {
				if a.Pos < st.Pos {
					earlier = true
				}
			}
			if earlier {
				run.Count("stops_after_their_start", 1)
				continue
			}
			when := "start-never-accepted/" + mode
			if len(p.starts) > 0 {
				when = "start-accepted-later"
			}
			where := "same-incarnation"
			if st.Inc > f.startInc {
				where = "later-incarnation"
			}
			w := base()
			w["session"] = s.ID
			w["offending_stop"] = recStr(st)
			run.Violation(stopPath(f, st), "stop-only-after-start", where+"/"+when,
				fmt.Sprintf("Accounting-Stop for %s was accepted (%s) with no Accounting-Start for it accepted before (%s); script %s", s.ID, recStr(st), when, sc.String()), w)
			break
		}
		// ---- clause 3: every started session ends up with an accepted Stop
		started := len(p.starts) > 0
		if !crash && f.startOK {
			started = true // no crash: StartSession returned nil => accounting was started
		}
		if started && len(p.stops) == 0 {
			phase := phaseAtCrash(sn, f, i)
			comp := compOfPhase(phase)
			what := "start-accepted"
			if len(p.starts) == 0 {
				what = "start-not-accepted-either"
			}
			w := base()
			w["session"] = s.ID
			w["phase_of_session_at_crash"] = phase
			w["directory_at_end"] = sn.incs[len(sn.incs)-1].DirAfter
			run.Violation(comp, "eventual-stop", mode+"/"+phase+"/"+what+phasedClass,
				fmt.Sprintf("session %s was started (%s) but no Accounting-Stop was accepted by the end of the scenario (server up, 90 s of virtual time after the last restart, %d refused transmissions: %s); phase %s; script %s", s.ID, what, nDown, budgetText, phase, sc.String()), w)
		} else if started {
			run.Count("started_sessions_with_accepted_stop", 1)
		}
		if !crash && f.startOK && len(p.starts) == 0 && len(p.stops) > 0 {
			// reported by clause 1 (start-never-accepted)
			run.Count("starts_never_accepted", 1)
		}
		// ---- clause 4: absent a crash an acknowledged Stop is never sent again
		if !crash {
			if len(p.stops) > 1 {
				second := p.stops[1]
				where := "same-incarnation"
				if second.Inc > p.stops[0].Inc {
					where = "after-graceful-restart"
				}
				how := "stopped-by-shutdown-drain"
				if f.stopOK {
					how = "stopped-by-StopSession"
				}
				comp := stopPath(f, second)
				if g, ok := openAtGracefulStop(sn, f); ok && !f.stopOK && sn.incs[g].Def.Shutdown != nil {
					// a shutdown configuration of its own: name it, and name Stop() as the place
					how = "open-at-graceful-stop(" + sn.incs[g].Def.Shutdown.classLabel() + ")"
					if sd := sn.incs[g].Def.Shutdown; !sd.NoDrain && sd.Versus == "timeout-shorter-than-drain" {
						// one class whatever made the drain slow (server hanging, rate limiter)
						how = "open-at-graceful-stop(drain-cut-by-shutdown-timeout)"
					}
					comp = compShutdown
					if second.Inc > g {
						where = "after-graceful-restart"
					}
				}
				if k := p.stops[0].Inc; second.Inc > k && k < len(sn.incs) && sn.incs[k].Def.End == "graceful" && queueSentDuringStop(sn.incs[k].J) {
					// The first Stop reached the server while Stop() was running and the queue processor
					// made a transmission then: Stop() cancels the processor's exchanges, and one that the
					// server has already answered stays in the queue. One class whatever had ended the session.
					comp, where, how = compShutdown, "after-graceful-restart", "queue-transmission-while-Stop()-ran"
				}
				w := base()
				w["session"] = s.ID
				w["stops"] = streamStr(p.stops)
				for k, in := range sn.incs {
					if in.Def.End == "graceful" && k+1 < len(sn.incs) {
						w[fmt.Sprintf("directory_after_graceful_stop_of_incarnation_%d", k)] = in.DirAfter
					}
				}
				run.Violation(comp, "stop-acknowledged-once", where+"/"+how,
					fmt.Sprintf("no crash anywhere, yet %d Accounting-Stops for %s were accepted: %v; script %s", len(p.stops), s.ID, streamStr(p.stops), sc.String()), w)
			} else if len(p.stops) == 1 {
				run.Count("no_crash_sessions_with_exactly_one_stop", 1)
			}
		}
	}

	// ---- what the graceful stops of this scenario looked like (un-killed runs only)
	if sn.kill == nil {
		for k := 0; k+1 < len(sn.incs); k++ {
			in := sn.incs[k]
			if in.Def.End != "graceful" {
				continue
			}
			label := in.Def.Shutdown.label()
			nOpen := 0
			for i := range sc.Sessions {
				g, ok := openAtGracefulStop(sn, facts[i])
				if !ok || g != k {
					continue
				}
				nOpen++
				later := 0
				for _, r := range ps[i].stops {
					if r.Inc > k {
						later++
					}
				}
				if later == 1 && len(ps[i].stops) == 1 {
					run.Count("graceful-restart: session open at Stop() ["+label+"] got its one Stop after the restart", 1)
				}
			}
			hang, refused := 0, 0
			after := false
			for _, e := range in.J {
				if e.Ev == "shutdown-begin" {
					after = true
				}
				if after && e.Ev == "req" && e.Down {
					if e.Mode == "hang" {
						hang++
					} else {
						refused++
					}
				}
			}
			if queueSentDuringStop(in.J) {
				run.Count("graceful_stop_with_queue_transmission_while_Stop()_ran", 1)
				if in.Def.LateMs > 0 {
					run.Count("graceful_stop_with_queue_transmission_while_Stop()_ran_server_answering_late", 1)
				}
			}
			run.Count("graceful_stop ["+label+"]", 1)
			run.Count("graceful_stop_transmissions_unanswered_server_hanging", hang)
			run.Count("graceful_stop_transmissions_refused_during_shutdown", refused)
			run.Distinct("graceful_stop_config_x_open_sessions_x_directory", fmt.Sprintf("%s | open=%d | %s", label, nOpen, dirShape(in.DirAfter)))
			if in.Def.Shutdown != nil && (nOpen > 0 || dirShape(in.DirAfter) != "sessions=0 pending=0") {
				run.Nontrivial("graceful/" + sc.ID + "/" + fmt.Sprint(k))
			}
		}
	}

	// ---- clause 3, second disjunct: after a graceful stop of a non-final incarnation every
	// started session without an accepted Stop has its Stop in the persistence directory.
	if sn.kill == nil {
		for k := 0; k+1 < len(sn.incs); k++ {
			in := sn.incs[k]
			if in.Def.End != "graceful" {
				continue
			}
			pend := pendingStops(in.DirAfter)
			for i := range sc.Sessions {
				f := facts[i]
				if !f.startBegun || f.startInc > k {
					continue
				}
				accStart, accStop := false, false
				for _, r := range sn.log {
					if r.SID == sc.Sessions[i].ID && r.Inc <= k {
						if r.Status == stStart {
							accStart = true
						}
						if r.Status == stStop {
							accStop = true
						}
					}
				}
				if !(accStart || (!crash && f.startOK)) || accStop {
					continue
				}
				_, file := in.DirAfter["sessions/"+sc.Sessions[i].ID+".json"]
				if pend[sc.Sessions[i].ID] || file {
					run.Count("stops_found_durably_queued_after_graceful_stop", 1)
					continue
				}
				w := base()
				w["session"] = sc.Sessions[i].ID
				w["directory_after_graceful_stop"] = in.DirAfter
				run.Violation(compDrain, "durably-queued-while-down", mode+"/stop-neither-accepted-nor-on-disk",
					fmt.Sprintf("after the graceful stop of incarnation %d session %s has no accepted Accounting-Stop and none in the persistence directory (%v); script %s", k, sc.Sessions[i].ID, treeNames(in.DirAfter), sc.String()), w)
			}
		}
	}
	for k, in := range sn.incs {
		if in.Runaway {
			run.Count("incarnations_aborted_runaway_transmissions", 1)
			if sn.kill == nil { // once per script, not once per kill case
				run.Inconclusive(fmt.Sprintf("script=%s inc=%d", sc.ID, k), fmt.Sprintf("more than %d transmissions in one incarnation (runaway re-sending); judged on the stream up to that point", maxTransmissionsPerIncarnation))
			}
		}
	}
	if nDown > sc.MaxRetries-2 && !sc.Phased {
		// generator bug: would put the scenario outside the property's precondition
		run.Inconclusive("script="+sc.ID, fmt.Sprintf("harness refused %d transmissions, budget %d", nDown, sc.MaxRetries-2))
	}
	run.Count("transmissions_refused_port_closed", nDown)
	run.Count("transmissions_answered", nUp)
}

// judgeRecord checks clauses 5 (identifiers) and 6 (64-bit counters) on one accepted record.
func judgeRecord(sn *scenario, base func() map[string]any, s *Sess, f *sessFacts, r Rec) {
	where := "same-incarnation"
	comp := compStart
	switch r.Status {
	case stStop:
		comp = compStop
		if r.Cause != 1 {
			comp = compDrain
		}
	case stInterim:
		comp = compInterim
	}
	if r.Inc > f.startInc {
		where = "after-restart"
		comp = compRecovery
	}
	bad := func(field, got, want string) {
		w := base()
		w["record"] = r
		w["session"] = s
		run.Violation(comp, "records-carry-own-identifiers", statusName(r.Status)+"/"+where+"/"+field,
			fmt.Sprintf("%s carries %s=%q, the session's own is %q", recStr(r), field, got, want), w)
	}
	if r.User != s.User {
		bad("User-Name", r.User, s.User)
	}
	if s.MAC != "" && (!r.HasCSID || normMAC(r.CSID) != s.MAC) {
		bad("Calling-Station-Id", r.CSID, s.MAC)
	}
	if r.IP != s.IP {
		bad("Framed-IP-Address", r.IP, s.IP)
	}
	if r.NASPort != s.NASPort {
		bad("NAS-Port", fmt.Sprint(r.NASPort), fmt.Sprint(s.NASPort))
	}
	if r.Class != hex.EncodeToString([]byte(s.Class)) {
		bad("Class", r.Class, hex.EncodeToString([]byte(s.Class)))
	}
	if r.NASID != nasID {
		bad("NAS-Identifier", r.NASID, nasID)
	}
	run.Count("records_identifier_checked", 1)
	if r.Status == stStart {
		return
	}
	// clause 6: the 64-bit value reassembled from gigawords and octets is one of the values the
	// counter source supplied for this session (0 = "no counters known" is also accepted for
	// records built after a restart, where the live counters are gone).
	allowed := func(vals []uint64, v uint64) bool {
		for _, x := range vals {
			if x == v {
				return true
			}
		}
		return where == "after-restart" && v == 0
	}
	if !r.HasOct {
		bad("Acct-Input-Octets", "absent", "present")
		return
	}
	if !allowed(s.In, r.in64()) {
		w := base()
		w["record"] = r
		w["supplied"] = s.In
		run.Violation(comp, "counter-gigaword-split", statusName(r.Status)+"/"+where+"/input/"+sizeClass(s.In),
			fmt.Sprintf("%s reports input gigawords=%d octets=%d = %d, which is none of the 64-bit values supplied for the session %v", recStr(r), r.InGW, r.InOct, r.in64(), s.In), w)
	}
	if !allowed(s.Out, r.out64()) {
		w := base()
		w["record"] = r
		w["supplied"] = s.Out
		run.Violation(comp, "counter-gigaword-split", statusName(r.Status)+"/"+where+"/output/"+sizeClass(s.Out),
			fmt.Sprintf("%s reports output gigawords=%d octets=%d = %d, which is none of the 64-bit values supplied for the session %v", recStr(r), r.OutGW, r.OutOct, r.out64(), s.Out), w)
	}
	run.Count("records_counter_checked", 1)
	if r.in64() > 0xFFFFFFFF || r.out64() > 0xFFFFFFFF {
		run.Count("records_with_gigawords", 1)
	}
}

func sizeClass(vals []uint64) string {
	big := false
	for _, v := range vals {
		if v > 0xFFFFFFFF {
			big = true
		}
	}
	if big {
		return "supplied-values-above-4GiB"
	}
	return "supplied-values-below-4GiB"
}

func sortedKeys(m map[string]int) []string {
	var k []string
	for x := range m {
		k = append(k, x)
	}
	sort.Strings(k)
	return k
}
