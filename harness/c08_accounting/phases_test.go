package c08

import (
	"fmt"
	"math/rand/v2"
	"strings"
)

// ---------------------------------------------------------------------------------------------
// Phase-scripted outage patterns (one session, no crash): the server is unreachable
// independently in each phase of the session's accounting life (see PhaseSpec), and StopSession
// is called at every position relative to those phases. Every record stays inside the retry
// budget: the Start is refused at most 1+B times (B <= MaxRetries-2 queue attempts), the Stop at
// most C times, an interim update at most D+C times of which D+C-1 <= MaxRetries-2 are queue
// attempts.

// stopPositions: steps between StartSession (virtual time 0.3 s) and StopSession. A step takes
// its own delay (wait 1 s, tick 10 s) plus 0.4 s; the manager's tickers fire at whole seconds.
var stopPositions = []struct {
	name  string
	steps []string
	late  bool // StopSession comes after the first interim tick (10 s)
}{
	{"0.7s", nil, false},
	{"3.5s", []string{"wait", "wait"}, false},
	{"6.3s", []string{"wait", "wait", "wait", "wait"}, false},
	{"11.1s", []string{"tick"}, true},
	{"21.5s", []string{"tick", "tick"}, true},
}

func phasedScript(maxRetries int, p PhaseSpec, between []string, explicitStop bool, finalDown int) *Script {
	steps := []Step{st("start", 0)}
	for _, k := range between {
		steps = append(steps, st(k, 0))
	}
	if explicitStop {
		steps = append(steps, st("stop", 0), st("long", 0))
	}
	ps := p
	return &Script{Phased: true, MaxRetries: maxRetries, FinalDown: finalDown,
		Incs: []Inc{{Steps: steps, End: "graceful", Phases: &ps}}}
}

// phasedExhaustive enumerates every phase pattern with each phase down for 0..maxLen
// transmissions and StopSession at each of the five positions.
//
// With the Start refused B times in the queue it gets through at 3 s (B=1), 8 s (B=2), 13 s
// (B=3), 18 s (B=4): a late StopSession (after the 10 s interim tick) is combined with B <= 2
// only, so that no interim update can be in the queue while the Start still is (the harness
// tells the phases apart without looking into the manager, see PhaseSpec).
func phasedExhaustive(maxLen int) []*Script {
	var out []*Script
	for _, pos := range stopPositions {
		for a := 0; a <= 1; a++ {
			for b := 0; b <= maxLen; b++ {
				if (a == 0 && b > 0) || (pos.late && b > 2) {
					continue
				}
				for c := 0; c <= maxLen; c++ {
					for d := 0; d <= maxLen; d++ {
						if !pos.late && d > 0 {
							continue // no interim update before an early StopSession
						}
						m := maxLen + 2
						if c+d+1 > m {
							m = c + d + 1
						}
						out = append(out, phasedScript(m, PhaseSpec{A: a, B: b, C: c, D: d}, pos.steps, true, 0))
					}
				}
			}
		}
	}
	return out
}

// phasedRandom draws one pattern beyond the exhaustive scope: other retry budgets, longer
// outages per phase, other StopSession positions, and the Stop issued by the shutdown drain
// instead of StopSession (Start and Stop then travel through pending.json into the next
// incarnation, which starts into FinalDown more refusals).
func phasedRandom(rng *rand.Rand) *Script {
	m := []int{4, 5, 5, 6, 8}[rng.IntN(5)]
	p := PhaseSpec{}
	if rng.IntN(4) != 0 {
		p.A = 1
		p.B = rng.IntN(m - 1) // 0..m-2
	}
	var between []string
	late := p.B <= 2 && rng.IntN(3) == 0
	if late {
		for i, n := 0, 1+rng.IntN(2); i < n; i++ {
			between = append(between, "tick")
		}
		for i, n := 0, rng.IntN(3); i < n; i++ {
			between = append(between, "wait")
		}
	} else {
		for i, n := 0, rng.IntN(6); i < n; i++ { // StopSession at 0.7 s + 1.4 s * n <= 7.7 s
			between = append(between, "wait")
		}
	}
	p.C = rng.IntN(m - 1)
	if late {
		p.D = rng.IntN(m - p.C) // C + D - 1 <= m-2
	}
	if rng.IntN(6) == 0 {
		// shutdown drain instead of StopSession
		fd := rng.IntN(3)
		for fd > 0 && (p.B+fd > m-2 || p.C+fd > m-2 || p.C+p.D+fd > m-1) {
			fd--
		}
		return phasedScript(m, p, between, false, fd)
	}
	return phasedScript(m, p, between, true, 0)
}

// phaseFacts is what the journals of a phase-scripted scenario say about the pattern that was
// actually played (observed, not generated).
type phaseFacts struct {
	down, total   map[string]int // per phase, incarnation 0
	laterInc      int            // refusals in later incarnations
	stopPos       string         // stop-requested-while-start-queued | stop-after-start-delivered | stop-after-interim | stop-by-shutdown-drain-...
	downAfterStop map[string]int // refusals per phase after the Stop was asked for
	interimBefore bool           // an interim update was transmitted while no Start had got through (phases ambiguous)
}

func readPhaseFacts(sn *scenario) *phaseFacts {
	f := &phaseFacts{down: map[string]int{}, total: map[string]int{}, downAfterStop: map[string]int{}}
	startThrough, stopAsked, interimSeen, drain := false, false, false, false
	queuedAtStop := false
	for k, in := range sn.incs {
		for _, e := range in.J {
			if k > 0 {
				if e.Ev == "req" && e.Down {
					f.laterInc++
				}
				continue
			}
			switch e.Ev {
			case "step-begin":
				if strings.HasPrefix(e.Name, "stop(") && !stopAsked {
					stopAsked, queuedAtStop = true, !startThrough
				}
			case "shutdown-begin":
				if !stopAsked {
					stopAsked, queuedAtStop, drain = true, !startThrough, true
				}
			case "req":
				f.total[e.Ph]++
				if e.Down {
					f.down[e.Ph]++
					if stopAsked {
						f.downAfterStop[e.Ph]++
					}
				} else if e.Ph == "A" || e.Ph == "B" {
					startThrough = true
				}
				if e.Ph == "D" {
					interimSeen = true
				}
				if e.Name == "interim:before-send" && !startThrough {
					f.interimBefore = true
				}
			}
		}
	}
	switch {
	case !stopAsked:
		f.stopPos = "stop-never-requested"
	case queuedAtStop:
		f.stopPos = "stop-requested-while-start-queued"
	case interimSeen:
		f.stopPos = "stop-requested-after-interim-update"
	default:
		f.stopPos = "stop-requested-after-start-delivered"
	}
	if drain {
		f.stopPos += "(by-shutdown-drain)"
	}
	return f
}

const floorQueuedLater = "phased: stop requested while start queued, >=1 refusal afterwards"

// judgePhased checks the precondition of a phase-scripted scenario (every record inside the
// retry budget, judged on what the harness refused - never on the manager's own retry
// counters) and records the shape that was played. It returns false when the scenario is
// outside the precondition (a generator fault: reported as inconclusive, not judged further).
func judgePhased(sn *scenario) (*phaseFacts, bool) {
	sc := sn.sc
	f := readPhaseFacts(sn)
	budget := sc.MaxRetries - 2
	interimQueue := f.down["D"] + f.down["C"] - 1
	if f.down["B"]+f.laterInc > budget || f.down["C"]+f.laterInc > budget || interimQueue+f.laterInc > budget || f.down["A"] > 1 || f.interimBefore {
		run.Inconclusive("script="+sc.ID, fmt.Sprintf("phase pattern outside the retry budget or ambiguous: refused per phase %v, later incarnations %d, MaxRetries %d, interim-before-start %v",
			f.down, f.laterInc, sc.MaxRetries, f.interimBefore))
		return f, false
	}
	after := 0
	for _, n := range f.downAfterStop {
		after += n
	}
	after += f.laterInc
	later := "no-refusal-afterwards"
	switch {
	case f.downAfterStop["B"] > 0 && f.downAfterStop["C"]+f.laterInc > 0:
		later = "start-refused-again-then-stop-refused"
	case f.downAfterStop["B"] > 0:
		later = "start-refused-again"
	case after > 0:
		later = "stop-refused"
	}
	run.Count("phased_scenarios_judged", 1)
	run.Count("phased_shape "+f.stopPos+" / "+later, 1)
	if strings.HasPrefix(f.stopPos, "stop-requested-while-start-queued") && after > 0 {
		run.Count(floorQueuedLater, 1)
	}
	run.Distinct("phase_patterns_played", fmt.Sprintf("M%d A%d/B%d/D%d/C%d+%d %s", sc.MaxRetries, f.down["A"], f.down["B"], f.down["D"], f.down["C"], f.laterInc, f.stopPos))
	for _, ph := range []string{"A", "B", "C", "D"} {
		run.Count("phased_transmissions_refused_in_phase_"+ph, f.down[ph])
		run.Count("phased_transmissions_answered_in_phase_"+ph, f.total[ph]-f.down[ph])
	}
	return f, true
}
