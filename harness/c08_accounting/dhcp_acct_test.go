package c08

import (
	"fmt"
	"math/rand/v2"
	"net"
	"strings"
	"sync"
	"testing"
	"testing/synctest"
	"time"

	"github.com/codelaboratoryltd/bng/pkg/dhcp"
	"github.com/codelaboratoryltd/bng/pkg/radius"
	"github.com/insomniacslk/dhcp/dhcpv4"
	"go.uber.org/zap"
)

// ---------------------------------------------------------------------------------------------
// The DHCP server's own accounting path (pkg/dhcp/server.go: Accounting-Start in handleRequest,
// Accounting-Stop in releaseSessionResources / stopAllAccounting) - a second implementation of
// Start/Stop pairing beside AccountingManager. Histories of client messages, lease lapses and
// cleanup ticks are played against the real handlers inside a synctest bubble (10 min leases
// cost nothing); the RADIUS side is the harness's UDP server on loopback, outside the bubble.
// Oracle, on the acknowledged record stream only: every Acct-Session-Id with an acknowledged
// Start has exactly one acknowledged Stop once the server has shut down, no Stop names an id
// that was never started, no Stop precedes its Start, and the Stop carries the identifiers of
// the Start.

const (
	dhcpLease     = 10 * time.Minute
	dhcpNAS       = "bng-verif-c08-dhcp"
	compDHCPStart = "dhcp.Server.handleRequest"
)

// dOp is one step of a history. K: D discover, R selecting/init-reboot REQUEST (requested-ip
// option), N renewing REQUEST (ciaddr, no requested-ip), L the lease time passes, H half the
// lease time passes, S one cleanup tick, X RELEASE, C DECLINE. The history always ends with the
// server's shutdown accounting (stopAllAccounting), which is not part of the alphabet because
// nothing can follow it.
type dOp struct {
	K byte
	C int
}

var dOpName = map[byte]string{'D': "DISCOVER", 'R': "REQUEST", 'N': "renew-REQUEST", 'L': "lapse", 'H': "half-lease-wait", 'S': "sweep-tick", 'X': "RELEASE", 'C': "DECLINE", 'Z': "shutdown"}

var dOpHandler = map[byte]string{'D': "dhcp.Server.handleDiscover", 'R': compDHCPStart, 'N': compDHCPStart, 'S': "dhcp.Server.cleanupExpiredLeases",
	'X': "dhcp.Server.handleRelease", 'C': "dhcp.Server.handleDecline", 'Z': "dhcp.Server.stopAllAccounting", 'L': "dhcp.Server", 'H': "dhcp.Server"}

func histString(ops []dOp, multi bool) string {
	var b strings.Builder
	for _, o := range ops {
		b.WriteByte(o.K)
		if multi && o.K != 'L' && o.K != 'H' && o.K != 'S' {
			fmt.Fprintf(&b, "%d", o.C)
		}
	}
	return b.String()
}

// dhcpConn captures the replies the handler writes.
type dhcpConn struct {
	mu   sync.Mutex
	sent [][]byte
}

func (c *dhcpConn) ReadFrom(p []byte) (int, net.Addr, error) { select {} }
func (c *dhcpConn) WriteTo(p []byte, a net.Addr) (int, error) {
	c.mu.Lock()
	c.sent = append(c.sent, append([]byte(nil), p...))
	c.mu.Unlock()
	return len(p), nil
}
func (c *dhcpConn) Close() error                       { return nil }
func (c *dhcpConn) LocalAddr() net.Addr                { return &net.UDPAddr{IP: net.IPv4zero, Port: 67} }
func (c *dhcpConn) SetDeadline(t time.Time) error      { return nil }
func (c *dhcpConn) SetReadDeadline(t time.Time) error  { return nil }
func (c *dhcpConn) SetWriteDeadline(t time.Time) error { return nil }
func (c *dhcpConn) take() *dhcpv4.DHCPv4 {
	c.mu.Lock()
	defer c.mu.Unlock()
	if len(c.sent) == 0 {
		return nil
	}
	b := c.sent[len(c.sent)-1]
	c.sent = nil
	m, err := dhcpv4.FromBytes(b)
	if err != nil {
		return nil
	}
	return m
}

// dStep is what one step of a history did, as far as the harness can see it.
type dStep struct {
	Op    string   `json:"op"`
	K     byte     `json:"-"`
	Lease string   `json:"lease_before"` // none | live | lapsed-unswept (lease table entry of the client, harness view for counting only)
	Reply string   `json:"reply,omitempty"`
	Recs  []string `json:"records_acknowledged,omitempty"`
	from  int      // index of the first record acknowledged during this step
	to    int
}

type dhcpRun struct {
	steps []dStep
	log   []Rec
	err   string
}

// playDHCP runs one history against a fresh server inside a bubble.
func playDHCP(t *testing.T, acct *acctServer, ops []dOp, nClients int) *dhcpRun {
	res := &dhcpRun{}
	acct.reset(nil, 0)
	synctest.Test(t, func(t *testing.T) {
		defer func() {
			if r := recover(); r != nil {
				res.err = fmt.Sprintf("panic: %v", r)
			}
		}()
		logger := zap.NewNop()
		pm := dhcp.NewPoolManager(nil, logger)
		pool, err := dhcp.NewPool(dhcp.PoolConfig{ID: 1, Name: "c08", Network: "10.77.0.0/24", Gateway: "10.77.0.1", DNSServers: []string{"9.9.9.9"}, LeaseTime: dhcpLease})
		if err != nil {
			res.err = err.Error()
			return
		}
		pm.AddPool(pool)
		srv, err := dhcp.NewServer(dhcp.ServerConfig{Interface: "lo", ServerIP: net.ParseIP("10.77.0.1")}, nil, pm, logger)
		if err != nil {
			res.err = err.Error()
			return
		}
		rc, err := radius.NewClient(radius.ClientConfig{
			Servers: []radius.ServerConfig{{Host: "127.0.0.1", Port: acct.port - 1, Secret: secret}}, NASID: dhcpNAS, Timeout: 5 * time.Second, Retries: 1,
			RateLimit: radius.RateLimitConfig{RequestsPerSecond: 1e6, BurstSize: 100000},
		}, logger)
		if err != nil {
			res.err = err.Error()
			return
		}
		srv.SetRADIUSClient(rc)
		conn := &dhcpConn{}
		peer := &net.UDPAddr{IP: net.IPv4bcast, Port: 68}
		macs := make([]net.HardwareAddr, nClients)
		ips := make([]net.IP, nClients) // the address the client believes it holds / was offered
		for i := range macs {
			macs[i] = net.HardwareAddr{0x02, 0x77, 0, 0, 0, byte(1 + i)}
		}
		xid := uint32(0)
		msg := func(c int, mt dhcpv4.MessageType, req, ciaddr net.IP) *dhcpv4.DHCPv4 {
			mods := []dhcpv4.Modifier{dhcpv4.WithMessageType(mt), dhcpv4.WithHwAddr(macs[c])}
			if req != nil {
				mods = append(mods, dhcpv4.WithOption(dhcpv4.OptRequestedIPAddress(req)))
			}
			if ciaddr != nil {
				mods = append(mods, dhcpv4.WithClientIP(ciaddr))
			}
			m, _ := dhcpv4.New(mods...)
			xid++
			m.TransactionID = dhcpv4.TransactionID{byte(xid >> 24), byte(xid >> 16), byte(xid >> 8), byte(xid)}
			return m
		}
		addr := func(c int) net.IP {
			if ips[c] != nil {
				return ips[c]
			}
			return net.IPv4(10, 77, 0, byte(50+c)).To4() // a client that was never offered anything tries an address of its own
		}
		for _, o := range append(append([]dOp(nil), ops...), dOp{K: 'Z'}) {
			stp := dStep{Op: dOpName[o.K], K: o.K, Lease: "none", from: len(acct.snapshot())}
			if _, exp, _, ok := srv.VerifC08Lease(macs[o.C]); ok {
				stp.Lease = "live"
				if !time.Now().Before(exp) {
					stp.Lease = "lapsed-unswept"
				}
			}
			if nClients > 1 && o.K != 'L' && o.K != 'H' && o.K != 'S' && o.K != 'Z' {
				stp.Op = fmt.Sprintf("%s(client%d)", stp.Op, o.C)
			}
			var m *dhcpv4.DHCPv4
			switch o.K {
			case 'D':
				m = msg(o.C, dhcpv4.MessageTypeDiscover, nil, nil)
			case 'R':
				m = msg(o.C, dhcpv4.MessageTypeRequest, addr(o.C), nil)
			case 'N':
				m = msg(o.C, dhcpv4.MessageTypeRequest, nil, addr(o.C))
			case 'X':
				m = msg(o.C, dhcpv4.MessageTypeRelease, nil, addr(o.C))
			case 'C':
				m = msg(o.C, dhcpv4.MessageTypeDecline, addr(o.C), nil)
			case 'L':
				time.Sleep(dhcpLease + time.Second)
			case 'H':
				time.Sleep(dhcpLease / 2)
			case 'S':
				srv.VerifC08Sweep()
			case 'Z':
				srv.VerifC08StopAllAccounting(radius.TerminateCauseNASReboot)
			}
			if m != nil {
				srv.VerifC08Handle(conn, peer, m)
			}
			synctest.Wait() // the accounting goroutines the handler started have been answered
			if r := conn.take(); r != nil {
				stp.Reply = r.MessageType().String()
				switch r.MessageType() {
				case dhcpv4.MessageTypeOffer, dhcpv4.MessageTypeAck:
					ips[o.C] = r.YourIPAddr.To4()
				case dhcpv4.MessageTypeNak:
					ips[o.C] = nil
				}
			}
			if o.K == 'X' || o.K == 'C' {
				ips[o.C] = nil
			}
			log := acct.snapshot()
			stp.to = len(log)
			for _, r := range log[stp.from:] {
				stp.Recs = append(stp.Recs, statusName(r.Status)+":"+r.SID)
			}
			res.steps = append(res.steps, stp)
		}
	})
	res.log = acct.snapshot()
	return res
}

func (r *dhcpRun) stepOf(pos int) *dStep {
	for i := range r.steps {
		if pos >= r.steps[i].from && pos < r.steps[i].to {
			return &r.steps[i]
		}
	}
	return &dStep{Op: "?", K: '?'}
}

// judgeDHCP applies the oracle to the acknowledged stream of one history.
func judgeDHCP(hist string, r *dhcpRun) {
	run.Eval()
	run.Count("dhcp_histories_judged", 1)
	wit := func() map[string]any {
		return map[string]any{"history": hist, "steps": r.steps, "acknowledged_stream": streamStr(r.log), "lease_time": dhcpLease.String()}
	}
	type sess struct{ starts, stops []Rec }
	by := map[string]*sess{}
	var order []string
	for _, rec := range r.log {
		if rec.Status != stStart && rec.Status != stStop {
			continue
		}
		s := by[rec.SID]
		if s == nil {
			s = &sess{}
			by[rec.SID] = s
			order = append(order, rec.SID)
		}
		if rec.Status == stStart {
			s.starts = append(s.starts, rec)
			run.Count("dhcp_accounting_start_acknowledged", 1)
		} else {
			s.stops = append(s.stops, rec)
			run.Count("dhcp_accounting_stop_acknowledged by "+dOpName[r.stepOf(rec.Pos).K], 1)
		}
	}
	for _, stp := range r.steps {
		if stp.K == 'L' || stp.K == 'H' || stp.K == 'S' || stp.K == 'Z' {
			run.Count("dhcp_op "+dOpName[stp.K], 1)
			continue
		}
		reply := stp.Reply
		if reply == "" {
			reply = "no reply"
		}
		run.Count(fmt.Sprintf("dhcp_op %s on %s lease", dOpName[stp.K], stp.Lease), 1)
		run.Distinct("dhcp_op_x_lease_x_reply", fmt.Sprintf("%s/%s/%s", dOpName[stp.K], stp.Lease, reply))
	}
	if len(order) > 0 {
		run.Nontrivial("dhcp/" + hist)
	}
	if len(order) > 1 {
		run.Count("dhcp_histories_with_more_than_one_session", 1)
	}
	for _, sid := range order {
		s := by[sid]
		if len(s.starts) == 0 {
			st := r.stepOf(s.stops[0].Pos)
			w := wit()
			w["session_id"] = sid
			run.Violation(dOpHandler[st.K], "no-record-for-unstarted-session", "dhcp/stop-by-"+dOpName[st.K]+"-on-"+st.Lease+"-lease",
				fmt.Sprintf("DHCP accounting: Accounting-Stop for Acct-Session-Id %s was acknowledged (during %s) but no Accounting-Start ever carried that id; history %s", sid, st.Op, hist), w)
			continue
		}
		start := s.starts[0]
		sst := r.stepOf(start.Pos)
		if len(s.starts) > 1 {
			st := r.stepOf(s.starts[1].Pos)
			w := wit()
			w["session_id"] = sid
			run.Violation(dOpHandler[st.K], "start-once", "dhcp/second-start-by-"+dOpName[st.K]+"-on-"+st.Lease+"-lease",
				fmt.Sprintf("DHCP accounting: %d Accounting-Starts with Acct-Session-Id %s were acknowledged; history %s", len(s.starts), sid, hist), w)
		}
		switch {
		case len(s.stops) == 0:
			// which step took the session's place without ending it?
			cls, comp := "open-after-shutdown/started-by-"+dOpName[sst.K]+"-on-"+sst.Lease+"-lease", dOpHandler['Z']
			for _, other := range r.log {
				if other.Pos > start.Pos && other.Status == stStart && other.SID != sid && other.User == start.User {
					st := r.stepOf(other.Pos)
					cls, comp = "session-replaced-without-stop/"+dOpName[st.K]+"-on-"+st.Lease+"-lease", dOpHandler[st.K]
					break
				}
			}
			w := wit()
			w["session_id"] = sid
			run.Violation(comp, "eventual-stop", "dhcp/"+cls,
				fmt.Sprintf("DHCP accounting: Accounting-Start for Acct-Session-Id %s (client %s, started by %s) was acknowledged, but no Accounting-Stop for it by the end of the history (cleanup ticks as scripted, then shutdown accounting; server reachable throughout); history %s", sid, start.User, sst.Op, hist), w)
		case len(s.stops) > 1:
			a, b := r.stepOf(s.stops[0].Pos), r.stepOf(s.stops[1].Pos)
			w := wit()
			w["session_id"] = sid
			run.Violation(dOpHandler[b.K], "stop-acknowledged-once", "dhcp/first-by-"+dOpName[a.K]+"/second-by-"+dOpName[b.K],
				fmt.Sprintf("DHCP accounting: %d Accounting-Stops for Acct-Session-Id %s were acknowledged (%s, then %s); history %s", len(s.stops), sid, a.Op, b.Op, hist), w)
		default:
			run.Count("dhcp_sessions_with_exactly_one_stop", 1)
		}
		for _, stop := range s.stops {
			st := r.stepOf(stop.Pos)
			if stop.Pos < start.Pos {
				w := wit()
				w["session_id"] = sid
				run.Violation(dOpHandler[st.K], "stop-only-after-start", "dhcp/stop-by-"+dOpName[st.K]+"/start-acknowledged-later",
					fmt.Sprintf("DHCP accounting: the Accounting-Stop for %s was acknowledged before its Accounting-Start; history %s", sid, hist), w)
			}
			if stop.User != start.User || stop.CSID != start.CSID || stop.IP != start.IP || stop.NASID != start.NASID {
				w := wit()
				w["start"], w["stop"] = start, stop
				run.Violation(dOpHandler[st.K], "records-carry-own-identifiers", "dhcp/stop-by-"+dOpName[st.K]+"/differs-from-start",
					fmt.Sprintf("DHCP accounting: the Accounting-Stop for %s carries user=%q calling-station=%q ip=%s, its Accounting-Start carried user=%q calling-station=%q ip=%s; history %s",
						sid, stop.User, stop.CSID, stop.IP, start.User, start.CSID, start.IP, hist), w)
			}
			run.Count("dhcp_stop_identifiers_checked", 1)
		}
		if normMAC(start.CSID) != normMAC(start.User) {
			run.Count("dhcp_start_calling_station_differs_from_user", 1)
		}
	}
}

const (
	floorRenewLapsed    = "dhcp_op renew-REQUEST on lapsed-unswept lease"
	floorDiscoverLapsed = "dhcp_op DISCOVER on lapsed-unswept lease"
)

func TestDHCPAccounting(t *testing.T) {
	acct, err := newAcctServer(secret)
	if err != nil {
		t.Fatal(err)
	}
	defer acct.close()
	alphabet := []byte("DRNLSXC")
	depth := run.Pick(4, 5)
	one := func(ops []dOp, n int, sample bool) {
		h := histString(ops, n > 1)
		r := playDHCP(t, acct, ops, n)
		if r.err != "" {
			run.Inconclusive("dhcp history "+h, r.err)
			return
		}
		judgeDHCP(h, r)
		if sample {
			run.Sample(map[string]any{"kind": "dhcp-accounting", "history": h, "steps": r.steps})
		}
	}
	// every history of up to `depth` steps from an empty server, and every history of up to `depth`
	// steps that follows DISCOVER REQUEST (a session exists), one client
	var rec func(prefix []dOp, left int)
	nEnum := 0
	rec = func(prefix []dOp, left int) {
		if len(prefix) > 0 {
			one(prefix, 1, false)
			nEnum++
		}
		if left == 0 {
			return
		}
		for _, k := range alphabet {
			rec(append(prefix[:len(prefix):len(prefix)], dOp{K: k}), left-1)
		}
	}
	rec(nil, depth)
	established := []dOp{{K: 'D'}, {K: 'R'}}
	var rec2 func(prefix []dOp, left int)
	rec2 = func(prefix []dOp, left int) {
		if len(prefix) > depth { // shorter ones were covered by the first enumeration
			one(prefix, 1, false)
			nEnum++
		}
		if left == 0 {
			return
		}
		for _, k := range alphabet {
			rec2(append(prefix[:len(prefix):len(prefix)], dOp{K: k}), left-1)
		}
	}
	rec2(established, depth)
	run.Extra("dhcp_histories_enumerated", nEnum)
	run.Extra("dhcp_enumeration_depth", depth)
	one([]dOp{{K: 'D'}, {K: 'R'}, {K: 'L'}, {K: 'N'}, {K: 'X'}}, 1, true)
	one([]dOp{{K: 'D'}, {K: 'R'}, {K: 'L'}, {K: 'D'}, {K: 'R'}, {K: 'S'}}, 1, true)

	// seeded random histories: two clients, longer, with half-lease waits (renewals that extend)
	for i, n := 0, run.Pick(400, 10000); i < n; i++ {
		rng := run.SubRand("dhcp-history", i)
		one(randomDHCPHistory(rng), 2, false)
	}
}

func randomDHCPHistory(rng *rand.Rand) []dOp {
	n := 5 + rng.IntN(10)
	ops := make([]dOp, 0, n)
	weights := []struct {
		k byte
		w int
	}{{'D', 18}, {'R', 22}, {'N', 18}, {'L', 12}, {'H', 6}, {'S', 10}, {'X', 8}, {'C', 6}}
	total := 0
	for _, w := range weights {
		total += w.w
	}
	for len(ops) < n {
		x := rng.IntN(total)
		for _, w := range weights {
			if x < w.w {
				ops = append(ops, dOp{K: w.k, C: rng.IntN(2)})
				break
			}
			x -= w.w
		}
	}
	return ops
}
