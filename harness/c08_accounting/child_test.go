package c08

import (
	"bufio"
	"encoding/json"
	"fmt"
	"net"
	"os"
	"runtime/debug"
	"strings"
	"sync"
	"syscall"
	"testing"
	"testing/synctest"
	"time"

	"github.com/codelaboratoryltd/bng/pkg/radius"
	"go.uber.org/zap"
)

// ---------------------------------------------------------------------------------------------
// Scenario vocabulary shared by parent and child.

// Sess is one subscriber session of a script.
type Sess struct {
	ID      string   `json:"id"`
	User    string   `json:"user"`
	MAC     string   `json:"mac"` // hex
	IP      string   `json:"ip"`
	NASPort uint32   `json:"nas_port"`
	Class   string   `json:"class"`
	In      []uint64 `json:"in"`  // value returned by the k-th counter fetch of an incarnation
	Out     []uint64 `json:"out"` //   (the last one repeats)
}

// Step is one script step. K: start|stop|dupstart|stopghost|wait|tick|long.
type Step struct {
	K string `json:"k"`
	S int    `json:"s"`
}

func (s Step) String() string {
	switch s.K {
	case "start", "stop", "dupstart":
		return fmt.Sprintf("%s(%d)", s.K, s.S)
	}
	return s.K
}

// Inc is one process incarnation: the manager is started on the persistence directory, the
// steps are executed, and the incarnation ends with a graceful Stop() or a scripted crash.
type Inc struct {
	Steps  []Step     `json:"steps"`
	Down   []int      `json:"down"` // indices (0-based, per incarnation) of the transmissions that meet a closed port
	End    string     `json:"end"`  // graceful | crash
	Phases *PhaseSpec `json:"phases,omitempty"`

	// shutdown configuration and what the server does while the graceful Stop() runs (nil: drain on,
	// 30 s, server as scripted by Down)
	Shutdown *ShutdownSpec `json:"shutdown,omitempty"`
	// Limiter, when set, replaces the wide-open rate limiter of the RADIUS client
	Limiter *LimiterSpec `json:"limiter,omitempty"`
	// Realtime runs this incarnation outside a synctest bubble (a server that hangs cannot be
	// waited for in virtual time); ClientTimeoutMs is the client's per-exchange time-out then
	Realtime        bool `json:"realtime,omitempty"`
	ClientTimeoutMs int  `json:"client_timeout_ms,omitempty"`
	// LateMs: the server answers every request of this incarnation this late (real milliseconds)
	// and Stop() is held for half as long before it cancels the manager's workers
	LateMs int `json:"late_ms,omitempty"`
}

// ShutdownSpec is the configuration a graceful Stop() runs under.
type ShutdownSpec struct {
	NoDrain   bool   `json:"no_drain,omitempty"`   // AccountingConfig.DrainOnShutdown = false
	TimeoutMs int    `json:"timeout_ms,omitempty"` // AccountingConfig.ShutdownTimeout (0: 30 s)
	Server    string `json:"server,omitempty"`     // transmissions after Stop() was called: "" as scripted | refuse (closed port) | hang (no answer)
	LingerMs  int    `json:"linger_ms,omitempty"`  // the process lives this long after Stop() has returned
	Versus    string `json:"versus,omitempty"`     // generator's note: timeout-shorter-than-drain | timeout-longer-than-drain
}

// LimiterSpec is a radius.RateLimitConfig.
type LimiterSpec struct {
	RPS   float64 `json:"rps"`
	Burst int     `json:"burst"`
}

// classLabel is label without what does not change the path taken (used in witness classes).
func (s *ShutdownSpec) classLabel() string {
	if s == nil {
		return "drain-on"
	}
	c := *s
	c.LingerMs = 0
	return c.label()
}

func (s *ShutdownSpec) label() string {
	if s == nil {
		return "drain-on"
	}
	l := "drain-on"
	if s.NoDrain {
		l = "drain-off"
	}
	switch s.Server {
	case "refuse":
		l += ",server-refusing"
	case "hang":
		l += ",server-hanging"
	}
	if s.Versus != "" {
		l += "," + s.Versus
	}
	if s.LingerMs > 0 {
		l += ",process-lingers"
	}
	return l
}

// PhaseSpec scripts the outage of an incarnation per phase of its single session instead of per
// transmission index. The phase of a transmission is decided from harness-side facts only (the
// marker it passes, which transmissions the harness let through before, whether the script has
// asked for the Stop yet):
//
//	A  the transmission made by StartSession itself
//	B  a queue transmission while no transmission of the Start has been let through yet
//	D  a transmission after the Start got through and before the Stop was asked for (interim
//	   updates and their queue retries)
//	C  a transmission after the Start got through and after the Stop was asked for (StopSession
//	   or the shutdown drain): the Stop itself and its queue retries
//
// In every phase the first n transmissions meet a closed port, the following ones are answered.
type PhaseSpec struct {
	A int `json:"a"` // 0|1
	B int `json:"b"`
	C int `json:"c"`
	D int `json:"d"`
}

func (p *PhaseSpec) String() string {
	return fmt.Sprintf("A%d/B%d/D%d/C%d", p.A, p.B, p.D, p.C)
}

// ChildSpec is what one child process executes.
type ChildSpec struct {
	Dir        string `json:"dir"`
	Journal    string `json:"journal"`
	AcctPort   int    `json:"acct_port"`
	HangPort   int    `json:"hang_port"` // a UDP port of the parent that never answers
	Secret     string `json:"secret"`
	NASID      string `json:"nas_id"`
	MaxRetries int    `json:"max_retries"`
	Sessions   []Sess `json:"sessions"`
	Inc        Inc    `json:"inc"`
	KillPoint  string `json:"kill_point"`
	KillOcc    int    `json:"kill_occ"` // 0-based occurrence; -1 = no kill
	Realtime   bool   `json:"realtime"` // fallback: no synctest bubble
}

// JEv is one journal line.
type JEv struct {
	Ev   string `json:"ev"` // inc-begin started step-begin step-end point req fetch shutdown-begin shutdown-end scripted-crash KILL stats panic
	I    int    `json:"i,omitempty"`
	Name string `json:"name,omitempty"`
	Occ  int    `json:"occ,omitempty"`
	Down bool   `json:"down,omitempty"`
	Err  string `json:"err,omitempty"`
	SID  string `json:"sid,omitempty"`
	VT   string `json:"vt,omitempty"`   // virtual time offset
	Ph   string `json:"ph,omitempty"`   // req: phase of the transmission (phase-scripted incarnations)
	Mode string `json:"mode,omitempty"` // req: "hang" when the transmission went to the port that never answers
}

// legitimate worst case is about 40: 3 starts, 3 stops, <= 18 interims, <= 6 refusals and their retries
const maxTransmissionsPerIncarnation = 64

const downAcctPort = 1 // nothing listens on udp/1 on loopback: connected sockets get ECONNREFUSED at once

// ---------------------------------------------------------------------------------------------

type childState struct {
	spec   *ChildSpec
	jf     *os.File
	jmu    sync.Mutex
	t0     time.Time
	client *radius.Client

	mu     sync.Mutex
	occ    map[string]int
	reqN   int
	down   map[int]bool
	fetchK map[string]int

	// phase-scripted outages (spec.Inc.Phases != nil)
	startThrough bool           // a transmission of the Start has been let through
	stopAsked    bool           // the script has called StopSession / begun the graceful shutdown
	shutdown     bool           // the graceful Stop() has been called
	shutdownAt   time.Time      // ... at this (virtual) time
	clientTO     time.Duration  // the RADIUS client's per-exchange time-out
	shutdownTO   time.Duration  // AccountingConfig.ShutdownTimeout
	phaseN       map[string]int // transmissions seen per phase

	// gate is held from X:before-send to X:after-send: transmissions are serialised so that the
	// per-request outage script is exact. A channel made inside the bubble, not a sync.Mutex: the
	// holder may sleep in the client's rate limiter, and goroutines waiting for a mutex would
	// keep the bubble's clock from advancing.
	gate     chan struct{}
	gateHeld bool          // written only by the holder / the goroutine releasing it
	drained  chan struct{} // closed when the shutdown:drained marker is passed
}

func (c *childState) realtime() bool { return c.spec.Realtime || c.spec.Inc.Realtime }

func (c *childState) j(e JEv) {
	if !c.t0.IsZero() {
		e.VT = time.Since(c.t0).String()
	}
	b, _ := json.Marshal(e)
	b = append(b, '\n')
	c.jmu.Lock()
	c.jf.Write(b)
	c.jmu.Unlock()
}

func (c *childState) hook(name string) {
	before := strings.HasSuffix(name, ":before-send")
	if before {
		// (while Stop() runs against a hanging server every transmission meets the same fate: no
		// need to serialise them, and the drain's sends are meant to hang side by side)
		c.mu.Lock()
		sd := c.spec.Inc.Shutdown
		free := c.shutdown && sd != nil && sd.Server == "hang"
		c.mu.Unlock()
		if !free {
			c.gate <- struct{}{}
			c.gateHeld = true
		}
	}
	c.mu.Lock()
	occ := c.occ[name]
	c.occ[name] = occ + 1
	var n int
	var dn bool
	var ph, mode string
	if before {
		n = c.reqN
		c.reqN++
		dn = c.down[n]
		if p := c.spec.Inc.Phases; p != nil {
			var limit int
			switch {
			case name == "start:before-send":
				ph, limit = "A", p.A
			case !c.startThrough:
				ph, limit = "B", p.B
			case !c.stopAsked:
				ph, limit = "D", p.D
			default:
				ph, limit = "C", p.C
			}
			dn = c.phaseN[ph] < limit
			c.phaseN[ph]++
			if !dn && (ph == "A" || ph == "B") {
				c.startThrough = true
			}
		}
		if sd := c.spec.Inc.Shutdown; sd != nil && sd.Server != "" && c.shutdown {
			dn, mode = true, sd.Server
		}
	}
	c.mu.Unlock()
	if before {
		switch {
		case dn && mode == "hang" && !c.realtime():
			// Virtual time cannot pass while a datagram is awaited, so a hanging server is played as
			// one that lets the exchange fail only when the sender would have given up: after the
			// client's time-out, or for a send of the shutdown drain when the ShutdownTimeout
			// (the drain's context) runs out, whichever comes first.
			// Any other send runs under the manager's own context, which Stop() cancels right after
			// the shutdown:drained marker.
			d := c.clientTO
			var cancelled <-chan struct{}
			if name == "drain:before-send" {
				c.mu.Lock()
				if left := c.shutdownAt.Add(c.shutdownTO).Sub(time.Now()); left < d {
					d = left
				}
				c.mu.Unlock()
			} else {
				cancelled = c.drained
			}
			if d > 0 {
				tm := time.NewTimer(d)
				select {
				case <-tm.C:
				case <-cancelled:
					tm.Stop()
				}
			}
			c.client.VerifC08SetServerPort(0, downAcctPort-1)
		case dn && mode == "hang":
			c.client.VerifC08SetServerPort(0, c.spec.HangPort-1)
		case dn:
			mode = ""
			c.client.VerifC08SetServerPort(0, downAcctPort-1)
		default:
			c.client.VerifC08SetServerPort(0, c.spec.AcctPort-1)
		}
		c.j(JEv{Ev: "req", I: n, Down: dn, Name: name, Ph: ph, Mode: mode})
		if n >= maxTransmissionsPerIncarnation {
			// a script of <= 6 steps over <= 3 sessions cannot legitimately need this many
			// transmissions: something is being re-sent without end. Stop here so that the
			// scenario is judged on what the server has seen instead of running into the watchdog.
			c.j(JEv{Ev: "runaway", I: n})
			os.Exit(7)
		}
	}
	c.j(JEv{Ev: "point", Name: name, Occ: occ})
	if name == "shutdown:drained" && occ == 0 {
		close(c.drained)
		if ms := c.spec.Inc.LateMs; ms > 0 {
			// The parent's server answers ms late (real time) in this incarnation. Stop() is held
			// back here for half of that (a real sleep: virtual time stands still during an
			// exchange), so that the cancel() that follows this marker lands inside an exchange the
			// queue processor has begun meanwhile and the server has already accepted.
			ts := syscall.NsecToTimespec(int64(ms) * 500_000)
			syscall.Nanosleep(&ts, nil)
		}
	}
	if c.spec.KillOcc >= 0 && name == c.spec.KillPoint && occ == c.spec.KillOcc {
		c.j(JEv{Ev: "KILL", Name: name, Occ: occ})
		syscall.Kill(os.Getpid(), syscall.SIGKILL)
		for {
			syscall.Pause()
		}
	}
	if strings.HasSuffix(name, ":after-send") && c.gateHeld {
		// (an after-send marker that is passed without its before-send - a path that queued the
		// record instead of transmitting it - holds nothing)
		c.gateHeld = false
		<-c.gate
	}
}

func parseMAC(h string) net.HardwareAddr {
	if h == "" {
		return nil
	}
	var out []byte
	for i := 0; i+1 < len(h); i += 2 {
		var b byte
		fmt.Sscanf(h[i:i+2], "%02x", &b)
		out = append(out, b)
	}
	return net.HardwareAddr(out)
}

func (s Sess) toSession() *radius.AccountingSession {
	return &radius.AccountingSession{
		SessionID:       s.ID,
		Username:        s.User,
		MAC:             parseMAC(s.MAC),
		FramedIP:        net.ParseIP(s.IP).To4(),
		NASPort:         s.NASPort,
		Class:           []byte(s.Class),
		CircuitID:       "circuit-" + s.ID,
		RemoteID:        "remote-" + s.ID,
		InterimInterval: 5 * time.Second,
	}
}

func stepDelay(k string) time.Duration {
	switch k {
	case "wait":
		return time.Second
	case "tick":
		return 10 * time.Second
	case "long":
		return 90 * time.Second
	}
	return 0
}

// runIncarnation executes one incarnation. All time inside is the bubble's virtual time:
// manager tickers fire at whole seconds after Start, script steps run at x.3/.7/.1/.5/.9 s.
func runIncarnation(spec *ChildSpec, cs *childState) {
	cs.gate = make(chan struct{}, 1)
	cs.drained = make(chan struct{})
	logger := zap.NewNop()
	rl := radius.RateLimitConfig{RequestsPerSecond: 1e6, BurstSize: 100000}
	if l := spec.Inc.Limiter; l != nil {
		rl = radius.RateLimitConfig{RequestsPerSecond: l.RPS, BurstSize: l.Burst}
	}
	clientTimeout := 3 * time.Second
	if spec.Inc.ClientTimeoutMs > 0 {
		clientTimeout = time.Duration(spec.Inc.ClientTimeoutMs) * time.Millisecond
	}
	sd := spec.Inc.Shutdown
	if sd == nil {
		sd = &ShutdownSpec{}
	}
	shutdownTimeout := 30 * time.Second
	if sd.TimeoutMs > 0 {
		shutdownTimeout = time.Duration(sd.TimeoutMs) * time.Millisecond
	}
	cs.clientTO, cs.shutdownTO = clientTimeout, shutdownTimeout
	client, err := radius.NewClient(radius.ClientConfig{
		Servers:   []radius.ServerConfig{{Host: "127.0.0.1", Port: spec.AcctPort - 1, Secret: spec.Secret}},
		NASID:     spec.NASID,
		Timeout:   clientTimeout,
		Retries:   1,
		RateLimit: rl,
	}, logger)
	if err != nil {
		cs.j(JEv{Ev: "harness-error", Err: err.Error()})
		os.Exit(4)
	}
	cs.client = client
	am, err := radius.NewAccountingManager(client, radius.AccountingConfig{
		DefaultInterimInterval: 5 * time.Second,
		InterimEnabled:         true,
		MaxRetries:             spec.MaxRetries,
		RetryBaseDelay:         time.Second,
		RetryMaxDelay:          4 * time.Second,
		QueueSize:              256,
		PersistPath:            spec.Dir,
		ShutdownTimeout:        shutdownTimeout,
		DrainOnShutdown:        !sd.NoDrain,
	}, logger)
	if err != nil {
		cs.j(JEv{Ev: "harness-error", Err: err.Error()})
		os.Exit(4)
	}
	byID := map[string]*Sess{}
	for i := range spec.Sessions {
		byID[spec.Sessions[i].ID] = &spec.Sessions[i]
	}
	am.SetCounterFetcher(func(sid string) (*radius.SessionCounters, error) {
		s := byID[sid]
		if s == nil {
			return nil, fmt.Errorf("unknown session")
		}
		cs.mu.Lock()
		k := cs.fetchK[sid]
		cs.fetchK[sid] = k + 1
		cs.mu.Unlock()
		pick := func(v []uint64) uint64 {
			if len(v) == 0 {
				return 0
			}
			if k >= len(v) {
				return v[len(v)-1]
			}
			return v[k]
		}
		cs.j(JEv{Ev: "fetch", SID: sid, I: k})
		in, out := pick(s.In), pick(s.Out)
		return &radius.SessionCounters{InputOctets: in, OutputOctets: out, InputPackets: in / 1000, OutputPackets: out / 1000}, nil
	})
	radius.VerifC08Hook = cs.hook

	cs.t0 = time.Now()
	cs.j(JEv{Ev: "inc-begin"})
	if err := am.Start(); err != nil {
		cs.j(JEv{Ev: "harness-error", Err: "Start: " + err.Error()})
		os.Exit(4)
	}
	cs.j(JEv{Ev: "started"})
	time.Sleep(300 * time.Millisecond)

	for i, st := range spec.Inc.Steps {
		if st.K == "stop" {
			cs.mu.Lock()
			cs.stopAsked = true
			cs.mu.Unlock()
		}
		cs.j(JEv{Ev: "step-begin", I: i, Name: st.String()})
		var serr error
		func() {
			defer func() {
				if r := recover(); r != nil {
					serr = fmt.Errorf("PANIC: %v", r)
					cs.j(JEv{Ev: "panic", I: i, Err: fmt.Sprintf("%v\n%s", r, debug.Stack())})
				}
			}()
			switch st.K {
			case "start", "dupstart":
				serr = am.StartSession(spec.Sessions[st.S].toSession())
			case "stop":
				serr = am.StopSession(spec.Sessions[st.S].ID, radius.TerminateCauseUserRequest)
			case "stopghost":
				serr = am.StopSession("ghost-never-started", radius.TerminateCauseUserRequest)
			case "wait", "tick", "long":
				time.Sleep(stepDelay(st.K))
			default:
				serr = fmt.Errorf("harness: unknown step %q", st.K)
			}
		}()
		e := JEv{Ev: "step-end", I: i, Name: st.String()}
		if serr != nil {
			e.Err = serr.Error()
		}
		cs.j(e)
		time.Sleep(400 * time.Millisecond)
	}

	switch spec.Inc.End {
	case "crash":
		cs.j(JEv{Ev: "scripted-crash"})
		syscall.Kill(os.Getpid(), syscall.SIGKILL)
		for {
			syscall.Pause()
		}
	default:
		cs.mu.Lock()
		cs.stopAsked = true
		cs.shutdown = true
		cs.shutdownAt = time.Now()
		cs.mu.Unlock()
		cs.j(JEv{Ev: "shutdown-begin", Name: spec.Inc.Shutdown.label()})
		am.Stop()
		cs.j(JEv{Ev: "shutdown-end"})
		if sd.LingerMs > 0 {
			// the process goes on for a while (other subsystems shut down) before it exits
			time.Sleep(time.Duration(sd.LingerMs) * time.Millisecond)
			cs.j(JEv{Ev: "linger-end"})
		}
	}
	st := am.GetStats()
	b, _ := json.Marshal(st)
	cs.j(JEv{Ev: "stats", Err: string(b)})
	os.Exit(0)
}

// TestC08Child is the child-process entry point (selected by the parent with -test.run and
// the C08_CHILD environment variable naming a ChildSpec file).
func TestC08Child(t *testing.T) {
	path := os.Getenv("C08_CHILD")
	if path == "" {
		t.Skip("child entry point")
	}
	b, err := os.ReadFile(path)
	if err != nil {
		fmt.Fprintln(os.Stderr, "c08 child:", err)
		os.Exit(4)
	}
	var spec ChildSpec
	if err := json.Unmarshal(b, &spec); err != nil {
		fmt.Fprintln(os.Stderr, "c08 child:", err)
		os.Exit(4)
	}
	jf, err := os.OpenFile(spec.Journal, os.O_CREATE|os.O_WRONLY|os.O_APPEND, 0o644)
	if err != nil {
		fmt.Fprintln(os.Stderr, "c08 child:", err)
		os.Exit(4)
	}
	cs := &childState{spec: &spec, jf: jf, occ: map[string]int{}, down: map[int]bool{}, fetchK: map[string]int{}, phaseN: map[string]int{}}
	for _, n := range spec.Inc.Down {
		cs.down[n] = true
	}
	if spec.Realtime || spec.Inc.Realtime {
		runIncarnation(&spec, cs)
		return
	}
	synctest.Test(t, func(t *testing.T) {
		runIncarnation(&spec, cs)
	})
}

func readJournal(path string) []JEv {
	f, err := os.Open(path)
	if err != nil {
		return nil
	}
	defer f.Close()
	var out []JEv
	sc := bufio.NewScanner(f)
	sc.Buffer(make([]byte, 1<<20), 1<<20)
	for sc.Scan() {
		var e JEv
		if json.Unmarshal(sc.Bytes(), &e) == nil {
			out = append(out, e)
		}
	}
	return out
}
