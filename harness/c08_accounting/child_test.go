package c08

import (
	"bufio"
	"encoding/json"
	"fmt"
	"net"
	"os"
	"runtime/debug"
	"strings"
	"sync"
	"syscall"
	"testing"
	"testing/synctest"
	"time"

	"github.com/codelaboratoryltd/bng/pkg/radius"
	"go.uber.org/zap"
)

// ---------------------------------------------------------------------------------------------
// Scenario vocabulary shared by parent and child.

// Sess is one subscriber session of a script.
type Sess struct {
	ID      string   `json:"id"`
	User    string   `json:"user"`
	MAC     string   `json:"mac"` // hex
	IP      string   `json:"ip"`
	NASPort uint32   `json:"nas_port"`
	Class   string   `json:"class"`
	In      []uint64 `json:"in"`  // value returned by the k-th counter fetch of an incarnation
	Out     []uint64 `json:"out"` //   (the last one repeats)
}

// Step is one script step. K: start|stop|dupstart|stopghost|wait|tick|long.
type Step struct {
	K string `json:"k"`
	S int    `json:"s"`
}

func (s Step) String() string {
	switch s.K {
	case "start", "stop", "dupstart":
		return fmt.Sprintf("%s(%d)", s.K, s.S)
	}
	return s.K
}

// Inc is one process incarnation: the manager is started on the persistence directory, the
// steps are executed, and the incarnation ends with a graceful Stop() or a scripted crash.
type Inc struct {
	Steps  []Step     `json:"steps"`
	Down   []int      `json:"down"` // indices (0-based, per incarnation) of the transmissions that meet a closed port
	End    string     `json:"end"`  // graceful | crash
	Phases *PhaseSpec `json:"phases,omitempty"`
}

// PhaseSpec scripts the outage of an incarnation per phase of its single session instead of per
// transmission index. The phase of a transmission is decided from harness-side facts only (the
// marker it passes, which transmissions the harness let through before, whether the script has
// asked for the Stop yet):
//
//	A  the transmission made by StartSession itself
//	B  a queue transmission while no transmission of the Start has been let through yet
//	D  a transmission after the Start got through and before the Stop was asked for (interim
//	   updates and their queue retries)
//	C  a transmission after the Start got through and after the Stop was asked for (StopSession
//	   or the shutdown drain): the Stop itself and its queue retries
//
// In every phase the first n transmissions meet a closed port, the following ones are answered.
type PhaseSpec struct {
	A int `json:"a"` // 0|1
	B int `json:"b"`
	C int `json:"c"`
	D int `json:"d"`
}

func (p *PhaseSpec) String() string {
	return fmt.Sprintf("A%d/B%d/D%d/C%d", p.A, p.B, p.D, p.C)
}

// ChildSpec is what one child process executes.
type ChildSpec struct {
	Dir        string `json:"dir"`
	Journal    string `json:"journal"`
	AcctPort   int    `json:"acct_port"`
	Secret     string `json:"secret"`
	NASID      string `json:"nas_id"`
	MaxRetries int    `json:"max_retries"`
	Sessions   []Sess `json:"sessions"`
	Inc        Inc    `json:"inc"`
	KillPoint  string `json:"kill_point"`
	KillOcc    int    `json:"kill_occ"` // 0-based occurrence; -1 = no kill
	Realtime   bool   `json:"realtime"` // fallback: no synctest bubble
}

// JEv is one journal line.
type JEv struct {
	Ev   string `json:"ev"` // inc-begin started step-begin step-end point req fetch shutdown-begin shutdown-end scripted-crash KILL stats panic
	I    int    `json:"i,omitempty"`
	Name string `json:"name,omitempty"`
	Occ  int    `json:"occ,omitempty"`
	Down bool   `json:"down,omitempty"`
	Err  string `json:"err,omitempty"`
	SID  string `json:"sid,omitempty"`
	VT   string `json:"vt,omitempty"` // virtual time offset
	Ph   string `json:"ph,omitempty"` // req: phase of the transmission (phase-scripted incarnations)
}

// legitimate worst case is about 40: 3 starts, 3 stops, <= 18 interims, <= 6 refusals and their retries
const maxTransmissionsPerIncarnation = 64

const downAcctPort = 1 // nothing listens on udp/1 on loopback: connected sockets get ECONNREFUSED at once

// ---------------------------------------------------------------------------------------------

type childState struct {
	spec   *ChildSpec
	jf     *os.File
	jmu    sync.Mutex
	t0     time.Time
	client *radius.Client

	mu     sync.Mutex
	occ    map[string]int
	reqN   int
	down   map[int]bool
	fetchK map[string]int

	// phase-scripted outages (spec.Inc.Phases != nil)
	startThrough bool           // a transmission of the Start has been let through
	stopAsked    bool           // the script has called StopSession / begun the graceful shutdown
	phaseN       map[string]int // transmissions seen per phase

	gate     sync.Mutex // held from X:before-send to X:after-send: transmissions are serialised so that the per-request outage script is exact
	gateHeld bool       // written only by the holder / the goroutine releasing it
}

func (c *childState) j(e JEv) {
	if !c.t0.IsZero() {
		e.VT = time.Since(c.t0).String()
	}
	b, _ := json.Marshal(e)
	b = append(b, '\n')
	c.jmu.Lock()
	c.jf.Write(b)
	c.jmu.Unlock()
}

func (c *childState) hook(name string) {
	before := strings.HasSuffix(name, ":before-send")
	if before {
		c.gate.Lock()
		c.gateHeld = true
	}
	c.mu.Lock()
	occ := c.occ[name]
	c.occ[name] = occ + 1
	var n int
	var dn bool
	var ph string
	if before {
		n = c.reqN
		c.reqN++
		dn = c.down[n]
		if p := c.spec.Inc.Phases; p != nil {
			var limit int
			switch {
			case name == "start:before-send":
				ph, limit = "A", p.A
			case !c.startThrough:
				ph, limit = "B", p.B
			case !c.stopAsked:
				ph, limit = "D", p.D
			default:
				ph, limit = "C", p.C
			}
			dn = c.phaseN[ph] < limit
			c.phaseN[ph]++
			if !dn && (ph == "A" || ph == "B") {
				c.startThrough = true
			}
		}
	}
	c.mu.Unlock()
	if before {
		if dn {
			c.client.VerifC08SetServerPort(0, downAcctPort-1)
		} else {
			c.client.VerifC08SetServerPort(0, c.spec.AcctPort-1)
		}
		c.j(JEv{Ev: "req", I: n, Down: dn, Name: name, Ph: ph})
		if n >= maxTransmissionsPerIncarnation {
			// a script of <= 6 steps over <= 3 sessions cannot legitimately need this many
			// transmissions: something is being re-sent without end. Stop here so that the
			// scenario is judged on what the server has seen instead of running into the watchdog.
			c.j(JEv{Ev: "runaway", I: n})
			os.Exit(7)
		}
	}
	c.j(JEv{Ev: "point", Name: name, Occ: occ})
	if c.spec.KillOcc >= 0 && name == c.spec.KillPoint && occ == c.spec.KillOcc {
		c.j(JEv{Ev: "KILL", Name: name, Occ: occ})
		syscall.Kill(os.Getpid(), syscall.SIGKILL)
		for {
			syscall.Pause()
		}
	}
	if strings.HasSuffix(name, ":after-send") && c.gateHeld {
		// (an after-send marker that is passed without its before-send - a path that queued the
		// record instead of transmitting it - holds nothing)
		c.gateHeld = false
		c.gate.Unlock()
	}
}

func parseMAC(h string) net.HardwareAddr {
	if h == "" {
		return nil
	}
	var out []byte
	for i := 0; i+1 < len(h); i += 2 {
		var b byte
		fmt.Sscanf(h[i:i+2], "%02x", &b)
		out = append(out, b)
	}
	return net.HardwareAddr(out)
}

func (s Sess) toSession() *radius.AccountingSession {
	return &radius.AccountingSession{
		SessionID:       s.ID,
		Username:        s.User,
		MAC:             parseMAC(s.MAC),
		FramedIP:        net.ParseIP(s.IP).To4(),
		NASPort:         s.NASPort,
		Class:           []byte(s.Class),
		CircuitID:       "circuit-" + s.ID,
		RemoteID:        "remote-" + s.ID,
		InterimInterval: 5 * time.Second,
	}
}

func stepDelay(k string) time.Duration {
	switch k {
	case "wait":
		return time.Second
	case "tick":
		return 10 * time.Second
	case "long":
		return 90 * time.Second
	}
	return 0
}

// runIncarnation executes one incarnation. All time inside is the bubble's virtual time:
// manager tickers fire at whole seconds after Start, script steps run at x.3/.7/.1/.5/.9 s.
func runIncarnation(spec *ChildSpec, cs *childState) {
	logger := zap.NewNop()
	client, err := radius.NewClient(radius.ClientConfig{
		Servers:   []radius.ServerConfig{{Host: "127.0.0.1", Port: spec.AcctPort - 1, Secret: spec.Secret}},
		NASID:     spec.NASID,
		Timeout:   3 * time.Second,
		Retries:   1,
		RateLimit: radius.RateLimitConfig{RequestsPerSecond: 1e6, BurstSize: 100000},
	}, logger)
	if err != nil {
		cs.j(JEv{Ev: "harness-error", Err: err.Error()})
		os.Exit(4)
	}
	cs.client = client
	am, err := radius.NewAccountingManager(client, radius.AccountingConfig{
		DefaultInterimInterval: 5 * time.Second,
		InterimEnabled:         true,
		MaxRetries:             spec.MaxRetries,
		RetryBaseDelay:         time.Second,
		RetryMaxDelay:          4 * time.Second,
		QueueSize:              256,
		PersistPath:            spec.Dir,
		ShutdownTimeout:        30 * time.Second,
		DrainOnShutdown:        true,
	}, logger)
	if err != nil {
		cs.j(JEv{Ev: "harness-error", Err: err.Error()})
		os.Exit(4)
	}
	byID := map[string]*Sess{}
	for i := range spec.Sessions {
		byID[spec.Sessions[i].ID] = &spec.Sessions[i]
	}
	am.SetCounterFetcher(func(sid string) (*radius.SessionCounters, error) {
		s := byID[sid]
		if s == nil {
			return nil, fmt.Errorf("unknown session")
		}
		cs.mu.Lock()
		k := cs.fetchK[sid]
		cs.fetchK[sid] = k + 1
		cs.mu.Unlock()
		pick := func(v []uint64) uint64 {
			if len(v) == 0 {
				return 0
			}
			if k >= len(v) {
				return v[len(v)-1]
			}
			return v[k]
		}
		cs.j(JEv{Ev: "fetch", SID: sid, I: k})
		in, out := pick(s.In), pick(s.Out)
		return &radius.SessionCounters{InputOctets: in, OutputOctets: out, InputPackets: in / 1000, OutputPackets: out / 1000}, nil
	})
	radius.VerifC08Hook = cs.hook

	cs.t0 = time.Now()
	cs.j(JEv{Ev: "inc-begin"})
	if err := am.Start(); err != nil {
		cs.j(JEv{Ev: "harness-error", Err: "Start: " + err.Error()})
		os.Exit(4)
	}
	cs.j(JEv{Ev: "started"})
	time.Sleep(300 * time.Millisecond)

	for i, st := range spec.Inc.Steps {
		if st.K == "stop" {
			cs.mu.Lock()
			cs.stopAsked = true
			cs.mu.Unlock()
		}
		cs.j(JEv{Ev: "step-begin", I: i, Name: st.String()})
		var serr error
		func() {
			defer func() {
				if r := recover(); r != nil {
					serr = fmt.Errorf("PANIC: %v", r)
					cs.j(JEv{Ev: "panic", I: i, Err: fmt.Sprintf("%v\n%s", r, debug.Stack())})
				}
			}()
			switch st.K {
			case "start", "dupstart":
				serr = am.StartSession(spec.Sessions[st.S].toSession())
			case "stop":
				serr = am.StopSession(spec.Sessions[st.S].ID, radius.TerminateCauseUserRequest)
			case "stopghost":
				serr = am.StopSession("ghost-never-started", radius.TerminateCauseUserRequest)
			case "wait", "tick", "long":
				time.Sleep(stepDelay(st.K))
			default:
				serr = fmt.Errorf("harness: unknown step %q", st.K)
			}
		}()
		e := JEv{Ev: "step-end", I: i, Name: st.String()}
		if serr != nil {
			e.Err = serr.Error()
		}
		cs.j(e)
		time.Sleep(400 * time.Millisecond)
	}

	switch spec.Inc.End {
	case "crash":
		cs.j(JEv{Ev: "scripted-crash"})
		syscall.Kill(os.Getpid(), syscall.SIGKILL)
		for {
			syscall.Pause()
		}
	default:
		cs.mu.Lock()
		cs.stopAsked = true
		cs.mu.Unlock()
		cs.j(JEv{Ev: "shutdown-begin"})
		am.Stop()
		cs.j(JEv{Ev: "shutdown-end"})
	}
	st := am.GetStats()
	b, _ := json.Marshal(st)
	cs.j(JEv{Ev: "stats", Err: string(b)})
	os.Exit(0)
}

// TestC08Child is the child-process entry point (selected by the parent with -test.run and
// the C08_CHILD environment variable naming a ChildSpec file).
func TestC08Child(t *testing.T) {
	path := os.Getenv("C08_CHILD")
	if path == "" {
		t.Skip("child entry point")
	}
	b, err := os.ReadFile(path)
	if err != nil {
		fmt.Fprintln(os.Stderr, "c08 child:", err)
		os.Exit(4)
	}
	var spec ChildSpec
	if err := json.Unmarshal(b, &spec); err != nil {
		fmt.Fprintln(os.Stderr, "c08 child:", err)
		os.Exit(4)
	}
	jf, err := os.OpenFile(spec.Journal, os.O_CREATE|os.O_WRONLY|os.O_APPEND, 0o644)
	if err != nil {
		fmt.Fprintln(os.Stderr, "c08 child:", err)
		os.Exit(4)
	}
	cs := &childState{spec: &spec, jf: jf, occ: map[string]int{}, down: map[int]bool{}, fetchK: map[string]int{}, phaseN: map[string]int{}}
	for _, n := range spec.Inc.Down {
		cs.down[n] = true
	}
	if spec.Realtime {
		runIncarnation(&spec, cs)
		return
	}
	synctest.Test(t, func(t *testing.T) {
		runIncarnation(&spec, cs)
	})
}

func readJournal(path string) []JEv {
	f, err := os.Open(path)
	if err != nil {
		return nil
	}
	defer f.Close()
	var out []JEv
	sc := bufio.NewScanner(f)
	sc.Buffer(make([]byte, 1<<20), 1<<20)
	for sc.Scan() {
		var e JEv
		if json.Unmarshal(sc.Bytes(), &e) == nil {
			out = append(out, e)
		}
	}
	return out
}
