package c08

import (
	"encoding/hex"
	"fmt"
	"net"
	"strings"
	"sync"
	"time"

	"layeh.com/radius"
)

// Rec is one Accounting-Request accepted (answered) by the harness's RADIUS server, decoded
// from the wire with the attribute numbers of RFC 2865/2866/2869 (no bng code involved).
type Rec struct {
	Pos     int    `json:"pos"` // position in the accepted stream of the scenario
	Inc     int    `json:"inc"` // process incarnation that was running when it arrived
	Status  uint32 `json:"status"`
	SID     string `json:"sid"`
	User    string `json:"user"`
	CSID    string `json:"calling_station_id"`
	HasCSID bool   `json:"has_csid"`
	IP      string `json:"framed_ip"`
	NASID   string `json:"nas_id"`
	NASPort uint32 `json:"nas_port"`
	Class   string `json:"class_hex"`
	InOct   uint32 `json:"in_octets"`
	OutOct  uint32 `json:"out_octets"`
	InGW    uint32 `json:"in_gigawords"`
	OutGW   uint32 `json:"out_gigawords"`
	HasOct  bool   `json:"has_octets"`
	Cause   uint32 `json:"terminate_cause"`
	STime   uint32 `json:"session_time"`
}

func (r Rec) in64() uint64  { return uint64(r.InGW)<<32 | uint64(r.InOct) }
func (r Rec) out64() uint64 { return uint64(r.OutGW)<<32 | uint64(r.OutOct) }

const (
	stStart   = 1
	stStop    = 2
	stInterim = 3
)

func statusName(s uint32) string {
	switch s {
	case stStart:
		return "start"
	case stStop:
		return "stop"
	case stInterim:
		return "interim"
	}
	return fmt.Sprintf("status-%d", s)
}

// acctServer is a UDP RADIUS accounting server: every authentic Accounting-Request is logged
// and answered with an Accounting-Response; a retransmission (same source, identifier and
// authenticator) is answered again but logged once, as a real server would.
type acctServer struct {
	conn   *net.UDPConn
	port   int
	secret []byte

	mu       sync.Mutex
	log      []Rec
	inc      int
	seen     map[string]struct{}
	late     time.Duration // answer this late (the request is logged at once)
	barriers map[string]chan struct{}
	barrierN uint32
	dropN    int // silently ignore the next dropN authentic requests (real-time scenario only)
	dropped  int
	badAuth  int
	retrans  int
	other    int
}

func newAcctServer(secret string) (*acctServer, error) {
	c, err := net.ListenUDP("udp4", &net.UDPAddr{IP: net.IPv4(127, 0, 0, 1), Port: 0})
	if err != nil {
		return nil, err
	}
	s := &acctServer{conn: c, port: c.LocalAddr().(*net.UDPAddr).Port, secret: []byte(secret), seen: map[string]struct{}{}}
	go s.loop()
	return s, nil
}

func (s *acctServer) close() { s.conn.Close() }

// reset starts a new scenario with the given accepted-stream prefix (from a snapshot).
func (s *acctServer) reset(prefix []Rec, inc int) {
	s.mu.Lock()
	s.log = append([]Rec(nil), prefix...)
	s.inc = inc
	s.seen = map[string]struct{}{}
	s.mu.Unlock()
}

func (s *acctServer) setDrop(n int) { s.mu.Lock(); s.dropN = n; s.mu.Unlock() }

func (s *acctServer) setInc(inc int) { s.mu.Lock(); s.inc = inc; s.mu.Unlock() }

const barrierMagic = "c08-barrier:"

// barrier returns when every datagram that was in the server's socket before the call has been
// read and logged (a child that has just exited may have sent its last request a moment ago; it
// must be attributed to that child's incarnation, not to the next one). Datagrams of one
// socket are delivered in order, so a marker datagram sent now is read after all of them.
func (s *acctServer) barrier() bool {
	c, err := net.DialUDP("udp4", nil, &net.UDPAddr{IP: net.IPv4(127, 0, 0, 1), Port: s.port})
	if err != nil {
		return false
	}
	defer c.Close()
	s.mu.Lock()
	s.barrierN++
	id := fmt.Sprintf("%08x", s.barrierN)
	ch := make(chan struct{})
	if s.barriers == nil {
		s.barriers = map[string]chan struct{}{}
	}
	s.barriers[id] = ch
	s.mu.Unlock()
	for i := 0; i < 20; i++ { // (a full socket buffer may drop the marker: send it again)
		c.Write([]byte(barrierMagic + id))
		select {
		case <-ch:
			return true
		case <-time.After(500 * time.Millisecond):
		}
	}
	return false
}

func (s *acctServer) setLate(d time.Duration) { s.mu.Lock(); s.late = d; s.mu.Unlock() }

func (s *acctServer) snapshot() []Rec {
	s.mu.Lock()
	defer s.mu.Unlock()
	return append([]Rec(nil), s.log...)
}

func u32(b []byte) uint32 {
	if len(b) != 4 {
		return 0
	}
	return uint32(b[0])<<24 | uint32(b[1])<<16 | uint32(b[2])<<8 | uint32(b[3])
}

func (s *acctServer) loop() {
	buf := make([]byte, 4096)
	for {
		n, from, err := s.conn.ReadFromUDP(buf)
		if err != nil {
			return
		}
		raw := append([]byte(nil), buf[:n]...)
		if n == len(barrierMagic)+8 && string(raw[:len(barrierMagic)]) == barrierMagic {
			s.mu.Lock()
			ch := s.barriers[string(raw[len(barrierMagic):])]
			delete(s.barriers, string(raw[len(barrierMagic):]))
			s.mu.Unlock()
			if ch != nil {
				close(ch)
			}
			continue
		}
		p, err := radius.Parse(raw, s.secret)
		if err != nil || p.Code != radius.CodeAccountingRequest {
			s.mu.Lock()
			s.other++
			s.mu.Unlock()
			continue
		}
		if !radius.IsAuthenticRequest(raw, s.secret) {
			s.mu.Lock()
			s.badAuth++
			s.mu.Unlock()
			continue
		}
		s.mu.Lock()
		if s.dropN > 0 {
			s.dropN--
			s.dropped++
			s.mu.Unlock()
			continue
		}
		s.mu.Unlock()
		key := fmt.Sprintf("%s/%d/%x", from.String(), p.Identifier, p.Authenticator[:])
		r := Rec{}
		if a := p.Get(40); a != nil {
			r.Status = u32(a)
		}
		r.SID = string(p.Get(44))
		r.User = string(p.Get(1))
		if a, ok := p.Lookup(31); ok {
			r.CSID, r.HasCSID = string(a), true
		}
		if a := p.Get(8); len(a) == 4 {
			r.IP = net.IP(a).String()
		}
		r.NASID = string(p.Get(32))
		r.NASPort = u32(p.Get(5))
		r.Class = hex.EncodeToString(p.Get(25))
		if a, ok := p.Lookup(42); ok {
			r.InOct, r.HasOct = u32(a), true
		}
		r.OutOct = u32(p.Get(43))
		r.InGW = u32(p.Get(52))
		r.OutGW = u32(p.Get(53))
		r.Cause = u32(p.Get(49))
		r.STime = u32(p.Get(46))

		s.mu.Lock()
		if _, dup := s.seen[key]; dup {
			s.retrans++
		} else {
			s.seen[key] = struct{}{}
			r.Pos = len(s.log)
			r.Inc = s.inc
			s.log = append(s.log, r)
		}
		s.mu.Unlock()

		resp := p.Response(radius.CodeAccountingResponse)
		if wire, err := resp.Encode(); err == nil {
			s.mu.Lock()
			late := s.late
			s.mu.Unlock()
			if late > 0 {
				time.Sleep(late) // see Inc.LateMs
			}
			s.conn.WriteToUDP(wire, from)
		}
	}
}

func normMAC(s string) string {
	s = strings.ToLower(s)
	var b strings.Builder
	for _, c := range s {
		if (c >= '0' && c <= '9') || (c >= 'a' && c <= 'f') {
			b.WriteRune(c)
		}
	}
	return b.String()
}
