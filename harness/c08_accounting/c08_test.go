package c08

import (
	"context"
	"fmt"
	"math/rand/v2"
	"net"
	"os"
	"path/filepath"
	"runtime"
	"strings"
	"sync"
	"sync/atomic"
	"testing"
	"time"

	"github.com/codelaboratoryltd/bng/pkg/radius"
	"go.uber.org/zap"

	"verif/harness/internal/vk"
)

var run *vk.Run

func TestMain(m *testing.M) {
	if os.Getenv("C08_CHILD") != "" {
		os.Exit(m.Run())
	}
	run = vk.Start("C08", "fault_enumeration")
	run.Rule(rulePhased + " || " + ruleDHCP + " || " + ruleGraceful + " || " + ruleMassEnd + " || scripts of <=6 steps over <=3 sessions {start, stop, duplicate start, stop of an unknown id, 1 s wait, 10 s interim tick} in 1-2 process incarnations ended by graceful Stop() or a scripted crash, plus a final quiesce incarnation; per-transmission outage script (closed port => ECONNREFUSED) with at most MaxRetries-2 refusals in total; a fixed set of hand-written scripts plus seeded random ones. Every script is run un-killed once (reference), then once per (verifPoint, occurrence) the reference run passed in any incarnation, the child killing itself with SIGKILL there, followed by a restart on the same directory that runs 90 s of virtual time with the server up. The oracle reads only the stream of Accounting-Requests the harness's UDP server answered, the API return values journalled by the child, and the directory. non-trivial = distinct (script, incarnation, point, occurrence) kill case in which the kill was reached after StartSession had been called for at least one session (or leftovers of an earlier incarnation were on disk) and the recovery incarnation ran to its end; reference runs with at least one refused transmission or a restart count as well; a counter-split case (TestCounterSplit: the 49 pairs of {0,1,2^32-1,2^32,2^32+1,2^40+7,2^64-1} plus seeded random pairs, sent as Stop and Interim through Client.SendAccounting and as Stop through StartSession/StopSession) is non-trivial when a supplied value is >= 2^32")
	run.Assume("a transmission counts as accepted when the harness's server has sent the Accounting-Response (retransmissions with the same source, identifier and authenticator collapsed)")
	run.Assume("crashes happen only at the 23 verifPoint markers of accounting.go (between persistence/transmit steps), not inside a file write; SIGKILL keeps completed writes (page cache), so fsync behaviour and torn files are out of reach")
	run.Assume("'eventually' is bounded: after the last restart the server is up and 90 s of virtual time pass (all back-offs: base 1 s, max 4 s, MaxRetries 8)")
	run.Assume("transmissions are serialised by the hook (a mutex from X:before-send to X:after-send) so that the per-transmission outage script is exact; the manager's goroutines otherwise run as they are")
	run.Assume("phase-scripted patterns: one session, so every queue transmission before a Start got through is the Start, and the Stop is only transmitted afterwards (late StopSession positions are combined with B <= 2 so that no interim update can be queued beside the Start); the per-record refusal bounds (Start <= 1+B, Stop <= C, interim <= D+C) are checked on the harness's journal and a pattern outside MaxRetries-2 queue refusals per record is reported inconclusive, not judged")
	run.Assume("graceful stop: a RADIUS server that hangs while Stop() runs is played in virtual time as an exchange that fails when its sender would have given up (client time-out, the drain's ShutdownTimeout, or the manager's own context being cancelled after the drain), the sends of the drain side by side; the thorough tier repeats the scenarios in real time against a port that never answers and judges them only when every exchange meant to be answered took less than half the client's time-out")
	run.Assume("scripts c15/c16: the server answers 20 ms late (real time) and Stop() is held for 10 ms before it cancels the workers, so that the cancellation meets a queue transmission the server has already accepted; on a machine too slow for that the transmission is simply not made and the scripts show nothing")
	run.Assume("mass session end: 'eventually' is the limiter's longest possible wait (sessions / rate) several times over, in virtual time; the sessions' Starts are sent through the same limiter (PPPoE: by the harness)")
	run.Assume("DHCP accounting: the handlers send Start/Stop from goroutines; the harness waits (synctest.Wait) until they have been answered before the next step, so the order of records of different steps is the order of the steps; stopAllAccounting is terminal (in production the server is closed before it runs)")
	run.Floor("kill_cases_judged", 100)
	run.Floor("accepted_stop", 100)
	run.Floor(floorQueuedLater, 20)
	run.Floor(floorRenewLapsed, 100)
	run.Floor(floorDiscoverLapsed, 100)
	run.Floor("graceful-restart: session open at Stop() [drain-off] got its one Stop after the restart", 10)
	run.Floor("graceful-restart: session open at Stop() [drain-on,server-refusing] got its one Stop after the restart", 8)
	run.Floor("graceful-restart: session open at Stop() [drain-on,server-hanging,timeout-longer-than-drain] got its one Stop after the restart", 4)
	run.Floor("graceful_stop [drain-on,server-hanging,timeout-shorter-than-drain]", 4)
	run.Floor("graceful_stop_transmissions_unanswered_server_hanging", 10)
	run.Floor("points_enumerated_graceful_stop_scripts", 60)
	run.Floor(floorMassSpread, 60)
	run.Floor(floorMassBeyond, 600)
	run.Floor(floorMassPPPoE, 300)
	run.Floor("mass_end_dhcp_stops_acknowledged", 300)
	code := m.Run()
	ec := run.Finish()
	if code != 0 && ec == 0 {
		ec = 2
	}
	os.Exit(ec)
}

const (
	ruleDHCP   = "DHCP server's own accounting path (TestDHCPAccounting, in-process, synctest bubble, 10 min leases, RADIUS server reachable throughout): every history of up to 4 (thorough 5) steps over {DISCOVER, REQUEST with requested-ip, renewing REQUEST with ciaddr, lease time passes, one cleanup tick, RELEASE, DECLINE} from an empty server and the same after DISCOVER REQUEST, one client, each ended by the shutdown accounting (stopAllAccounting; terminal because the server is gone afterwards), plus seeded random histories of 5-14 steps over two clients with half-lease waits; oracle on the acknowledged stream only: every Acct-Session-Id whose Start was acknowledged has exactly one acknowledged Stop at the end, no Stop for an id never started, no Stop before its Start, Stop carries the Start's identifiers; a history is non-trivial when at least one Accounting-Start was acknowledged; the lease state named in the counters (none/live/lapsed-unswept) is the harness's reading of the lease table before the step, used for counting and witness classes only"
	rulePhased = "phase-scripted outage patterns (un-killed, one session): the server is unreachable independently per phase {A: the transmission of StartSession, B: queue transmissions before a Start got through, D: interim updates and their retries before the Stop is asked for, C: transmissions after the Stop was asked for}, the first n transmissions of each phase refused, n = 0..3 (thorough 0..4) for every phase exhaustively x StopSession at 0.7 s / 3.5 s / 6.3 s / 11.1 s / 21.5 s of virtual time (before the Start is delivered, between delivery and the first interim update, after one or two interim ticks), MaxRetries = max(5, C+D+1) (thorough 6) so that no record is refused MaxRetries times; plus seeded random patterns with MaxRetries 4..8, phases up to MaxRetries-2, other StopSession positions and the Stop issued by the shutdown drain with refusals continuing after the restart. The phase of a transmission and the shape counted (e.g. 'stop requested while start queued, >=1 refusal afterwards') are read from the harness's own journal of refused/answered transmissions, never from the manager's retry counters. The oracle is the same as for all other scripts"
)

// ---------------------------------------------------------------------------------------------
// script generation

var specials = []uint64{0, 1, 1<<32 - 1, 1 << 32, 1<<32 + 1, 1<<40 + 7, 1<<64 - 1}

func genCounters(rng *rand.Rand) []uint64 {
	n := 1 + rng.IntN(3)
	out := make([]uint64, n)
	for i := range out {
		switch rng.IntN(3) {
		case 0:
			out[i] = specials[rng.IntN(len(specials))]
		case 1:
			out[i] = rng.Uint64()
		default:
			out[i] = uint64(rng.Uint32())<<uint(rng.IntN(12)) + 1
		}
	}
	return out
}

func genSessions(id string, rng *rand.Rand) []Sess {
	out := make([]Sess, 3)
	for i := range out {
		mac := fmt.Sprintf("02%02x%02x%02x%02x%02x", rng.IntN(256), rng.IntN(256), rng.IntN(256), rng.IntN(256), i)
		out[i] = Sess{
			ID:      fmt.Sprintf("%s-s%d", id, i),
			User:    fmt.Sprintf("user%d@%s", i, id),
			MAC:     mac,
			IP:      fmt.Sprintf("10.%d.%d.%d", 1+rng.IntN(200), rng.IntN(256), 1+i),
			NASPort: uint32(1000*i + rng.IntN(1000)),
			Class:   fmt.Sprintf("class-%s-%d", id, i),
			In:      genCounters(rng),
			Out:     genCounters(rng),
		}
		// the first fetch of every session carries a value above 4 GiB in at least one direction
		if out[i].In[0] <= 0xFFFFFFFF && out[i].Out[0] <= 0xFFFFFFFF && i != 2 {
			out[i].In[0] = specials[3+rng.IntN(4)]
		}
	}
	return out
}

const maxRetries = 8

func st(k string, s int) Step { return Step{K: k, S: s} }

// curated scripts: the orderings the property text singles out, present at every seed.
func curated() []*Script {
	g := "graceful"
	mk := func(finalDown int, incs ...Inc) *Script {
		return &Script{Incs: incs, FinalDown: finalDown}
	}
	return []*Script{
		mk(0, Inc{Steps: []Step{st("start", 0), st("stop", 0)}, End: g}),
		mk(0, Inc{Steps: []Step{st("start", 0), st("tick", 0), st("tick", 0), st("stop", 0)}, End: g}),
		mk(0, Inc{Steps: []Step{st("start", 0), st("start", 1)}, End: g}),
		// Start refused twice (immediate + first queue attempt), Stop while the server is up again
		mk(0, Inc{Steps: []Step{st("start", 0), st("stop", 0), st("wait", 0), st("wait", 0), st("wait", 0)}, Down: []int{0, 1}, End: g}),
		// Stop refused (immediate + queue attempt), delivered by the retry ticker
		mk(0, Inc{Steps: []Step{st("start", 0), st("stop", 0), st("wait", 0), st("wait", 0), st("wait", 0)}, Down: []int{1, 2}, End: g}),
		// graceful stop while the server stays down: the Stop has to be queued durably
		mk(1, Inc{Steps: []Step{st("start", 0), st("start", 1)}, Down: []int{2, 3, 4, 5}, End: g}),
		// everything refused in the first incarnation: Start and Stop both go through pending.json
		mk(0, Inc{Steps: []Step{st("start", 0)}, Down: []int{0, 1, 2, 3}, End: g}),
		// scripted crash with live sessions, restart into an outage
		mk(2, Inc{Steps: []Step{st("start", 0), st("start", 1), st("tick", 0)}, End: "crash"}),
		// Stop refused, then crash: the Stop lives in the volatile queue only
		mk(0, Inc{Steps: []Step{st("start", 0), st("stop", 0)}, Down: []int{1, 2}, End: "crash"}),
		mk(0, Inc{Steps: []Step{st("stopghost", 0), st("start", 0), st("dupstart", 0), st("stop", 0), st("stop", 0)}, End: g}),
		// Start refused twice, then graceful stop with the server up again: the drain Stop meets a queued Start
		mk(0, Inc{Steps: []Step{st("start", 0)}, Down: []int{0, 1}, End: g}),
		// Start refused and still in the volatile queue when the process crashes
		mk(0, Inc{Steps: []Step{st("start", 0)}, Down: []int{0, 1}, End: "crash"}),
		mk(0, Inc{Steps: []Step{st("start", 0), st("start", 1), st("stop", 0)}, End: g}, Inc{Steps: []Step{st("start", 2), st("tick", 0), st("stop", 2)}, End: g}),
		mk(1, Inc{Steps: []Step{st("start", 0), st("stop", 0), st("start", 1)}, Down: []int{1, 2, 3}, End: g}, Inc{Steps: []Step{st("wait", 0), st("stop", 1)}, Down: []int{0}, End: "crash"}),
		mk(0, Inc{Steps: []Step{st("start", 0), st("tick", 0), st("start", 1), st("tick", 0), st("stop", 0), st("stop", 1)}, Down: []int{2, 3}, End: g}),
		// Stop() while the queue processor has an exchange in flight: the drain's Stop is refused and
		// queued, the processor sends it at once, the server (answering 20 ms late) accepts it, and
		// Stop() cancels the workers in the meantime
		{NoKills: true, Incs: []Inc{{Steps: []Step{st("start", 0), st("start", 1), st("stop", 0)}, Down: []int{2, 3, 4}, End: g, LateMs: 20}}},
		{NoKills: true, Incs: []Inc{{Steps: []Step{st("start", 0)}, Down: []int{1}, End: g, LateMs: 20}}},
	}
}

func randomScript(rng *rand.Rand) *Script {
	sc := &Script{}
	budget := maxRetries - 2
	nInc := 1 + rng.IntN(2)
	stepsLeft := 6
	used := [3]bool{}
	active := [3]bool{}
	for k := 0; k < nInc && stepsLeft > 0; k++ {
		n := 1 + rng.IntN(stepsLeft)
		if nInc == 2 && k == 0 && n > 4 {
			n = 4
		}
		stepsLeft -= n
		in := Inc{End: "graceful"}
		for j := 0; j < n; j++ {
			x := rng.IntN(100)
			pickUnused := func() int {
				for i := range used {
					if !used[i] {
						return i
					}
				}
				return -1
			}
			pickActive := func() int {
				var c []int
				for i := range active {
					if active[i] {
						c = append(c, i)
					}
				}
				if len(c) == 0 {
					return -1
				}
				return c[rng.IntN(len(c))]
			}
			switch {
			case x < 38:
				if i := pickUnused(); i >= 0 {
					used[i], active[i] = true, true
					in.Steps = append(in.Steps, st("start", i))
				} else if i := pickActive(); i >= 0 {
					active[i] = false
					in.Steps = append(in.Steps, st("stop", i))
				} else {
					in.Steps = append(in.Steps, st("wait", 0))
				}
			case x < 68:
				i := pickActive()
				if i < 0 || rng.IntN(10) == 0 {
					i = rng.IntN(3) // stop of a session that is not active: must fail and send nothing
				}
				if active[i] {
					active[i] = false
				}
				in.Steps = append(in.Steps, st("stop", i))
			case x < 80:
				in.Steps = append(in.Steps, st("wait", 0))
			case x < 90:
				in.Steps = append(in.Steps, st("tick", 0))
			case x < 95:
				if i := pickActive(); i >= 0 {
					in.Steps = append(in.Steps, st("dupstart", i))
				} else {
					in.Steps = append(in.Steps, st("stopghost", 0))
				}
			default:
				in.Steps = append(in.Steps, st("stopghost", 0))
			}
		}
		if rng.IntN(10) < 3 {
			in.End = "crash"
		}
		active = [3]bool{} // drained or orphaned: either way no longer usable by the script
		if budget > 0 && rng.IntN(100) < 60 {
			a := rng.IntN(6)
			l := 1 + rng.IntN(3)
			if rng.IntN(4) == 0 {
				l = budget // down through the end (as far as the budget allows)
			}
			if l > budget {
				l = budget
			}
			for i := 0; i < l; i++ {
				in.Down = append(in.Down, a+i)
			}
			budget -= l
		}
		sc.Incs = append(sc.Incs, in)
	}
	if budget > 0 {
		sc.FinalDown = []int{0, 0, 1, 2}[rng.IntN(4)]
		if sc.FinalDown > budget {
			sc.FinalDown = budget
		}
	}
	return sc
}

func finishScript(sc *Script, id string, rng *rand.Rand) {
	sc.ID = id
	if sc.MaxRetries == 0 {
		sc.MaxRetries = maxRetries
	}
	sc.Sessions = genSessions(id, rng)
	sc.Incs = append(sc.Incs, quiesceInc(sc.FinalDown))
}

// ---------------------------------------------------------------------------------------------

func TestCrashEnumeration(t *testing.T) {
	base, err := os.MkdirTemp("", "c08-")
	if err != nil {
		t.Fatal(err)
	}
	defer os.RemoveAll(base)
	nw := runtime.NumCPU()
	if nw > 16 {
		nw = 16
	}
	if nw < 2 {
		nw = 2
	}
	workers := make([]*worker, nw)
	for i := range workers {
		w, err := newWorker(base, i)
		if err != nil {
			t.Fatal(err)
		}
		defer w.close()
		workers[i] = w
	}

	var scripts []*Script
	for i, sc := range curated() {
		finishScript(sc, fmt.Sprintf("c%02d", i), run.SubRand("curated", i))
		scripts = append(scripts, sc)
	}
	nRandom := run.Pick(20, 385)
	for i := 0; i < nRandom; i++ {
		rng := run.SubRand("script", i)
		sc := randomScript(rng)
		finishScript(sc, fmt.Sprintf("r%03d", i), rng)
		scripts = append(scripts, sc)
	}
	// phase-scripted outage patterns: exhaustive over short phases, then seeded random ones
	for i, sc := range phasedExhaustive(run.Pick(3, 4)) {
		finishScript(sc, fmt.Sprintf("p%03d", i), run.SubRand("phased", i))
		scripts = append(scripts, sc)
	}
	for i, n := 0, run.Pick(24, 200); i < n; i++ {
		rng := run.SubRand("phased-random", i)
		sc := phasedRandom(rng)
		finishScript(sc, fmt.Sprintf("q%03d", i), rng)
		scripts = append(scripts, sc)
	}
	// graceful stop under every shutdown configuration, then restart
	for i, sc := range gracefulExhaustive() {
		finishScript(sc, fmt.Sprintf("g%03d", i), run.SubRand("graceful", i))
		scripts = append(scripts, sc)
	}
	for i, n := 0, run.Pick(12, 40); i < n; i++ {
		rng := run.SubRand("graceful-random", i)
		sc := gracefulRandom(rng)
		finishScript(sc, fmt.Sprintf("gr%03d", i), rng)
		scripts = append(scripts, sc)
	}
	for i, sc := range gracefulRealtime(run.Thorough()) {
		finishScript(sc, fmt.Sprintf("h%03d", i), run.SubRand("graceful-realtime", i))
		scripts = append(scripts, sc)
	}
	if only := os.Getenv("C08_ONLY"); only != "" { // debugging aid: run a single script
		var keep []*Script
		for _, sc := range scripts {
			if strings.HasPrefix(sc.ID, only) { // "p012" one script, "p" all phase patterns
				keep = append(keep, sc)
			}
		}
		scripts = keep
	}
	run.Extra("scripts", len(scripts))

	// phase 1: reference runs
	refs := make([]*reference, len(scripts))
	parallel(workers, len(scripts), func(w *worker, i int) {
		ref := w.runReference(scripts[i])
		refs[i] = ref
		if !ref.ok {
			return
		}
		run.Count("reference_runs", 1)
		judge(&scenario{sc: ref.sc, incs: ref.incs, log: ref.logs[len(ref.logs)-1]})
		nd := 0
		for _, in := range ref.incs {
			for _, e := range in.J {
				if e.Ev == "req" && e.Down {
					nd++
				}
			}
			run.Distinct("directory_shapes_after_incarnation", dirShape(in.DirAfter))
		}
		if nd > 0 || len(ref.incs) > 2 {
			run.Nontrivial("ref/" + ref.sc.ID)
		}
		if i == 3 || i == 7 {
			run.Sample(map[string]any{"kind": "reference", "script": ref.sc.String(), "accepted_stream": streamStr(ref.logs[len(ref.logs)-1]), "points_passed": len(pointsOf(ref.incs[0].J))})
		}
	})

	// phase 2: one kill case per (incarnation, point, occurrence) the reference run passed
	var cases []killCase
	for ri, ref := range refs {
		if ref == nil || !ref.ok {
			continue
		}
		runaway := false
		for _, in := range ref.incs {
			runaway = runaway || in.Runaway
		}
		if ref.sc.Phased {
			// the phase patterns are about outages, not crashes: judged on the un-killed run only
			run.Count("scripts_reference_only_phase_patterns", 1)
			continue
		}
		if ref.sc.NoKills {
			run.Count("scripts_reference_only_default_shutdown", 1)
			continue
		}
		if runaway {
			// the reference run was cut short after maxTransmissionsPerIncarnation transmissions and has
			// been judged as it is; enumerating kill points of an endless re-send loop adds nothing
			run.Count("scripts_not_enumerated_runaway_reference", 1)
			continue
		}
		for k := range ref.incs {
			pts := pointsOf(ref.incs[k].J)
			if ref.incs[k].Def.Realtime {
				continue // a kill point of a real-time incarnation cannot be replayed exactly
			}
			if ref.sc.KillFromShutdown && k == 0 {
				pts = pointsFromShutdown(ref.incs[k].J)
			}
			graceful := ref.sc.KillFromShutdown || ref.incs[0].Def.Realtime
			sd := ref.sc.Incs[0].Shutdown
			// quick tier (thorough enumerates everything): the scripts that stop without draining are
			// enumerated from Stop() on and through the first passage of every marker of the restart;
			// of the others every second one (rotating with the seed), Stop() only; of the real-time
			// ones the restart of those whose drain was cut short while the process lingered
			sampled := graceful && !run.Thorough() && !(sd != nil && sd.NoDrain)
			if sampled && ref.incs[0].Def.Realtime && !(sd.Versus == "timeout-shorter-than-drain" && sd.LingerMs > 0) {
				run.Count("points_skipped_quick_tier_graceful_stop_scripts", len(pts))
				continue
			}
			if sampled && !ref.incs[0].Def.Realtime && (k > 0 || (ri+int(run.Seed))%2 == 1) {
				run.Count("points_skipped_quick_tier_graceful_stop_scripts", len(pts))
				continue
			}
			for _, p := range pts {
				if graceful && k > 0 && p.Occ > 0 && !run.Thorough() {
					run.Count("points_skipped_quick_tier_graceful_stop_scripts", 1)
					continue
				}
				cases = append(cases, killCase{ref: ref, k: k, point: p})
				run.Count("points_enumerated", 1)
				if graceful {
					run.Count("points_enumerated_graceful_stop_scripts", 1)
				}
			}
		}
	}
	parallel(workers, len(cases), func(w *worker, i int) { w.runKill(cases[i]) })
	run.Extra("children_run", atomic.LoadInt64(&childrenRun))
	run.Extra("exhaustive_kill_points_per_script", true)
}

func parallel(workers []*worker, n int, f func(w *worker, i int)) {
	var next int64 = -1
	var wg sync.WaitGroup
	for _, w := range workers {
		w := w
		wg.Add(1)
		go func() {
			defer wg.Done()
			for {
				i := int(atomic.AddInt64(&next, 1))
				if i >= n {
					return
				}
				f(w, i)
			}
		}()
	}
	wg.Wait()
}

// TestSilentDropRealtime (thorough only): the outage is a server that silently ignores requests,
// so the client runs into its 3 s time-out instead of ECONNREFUSED. This cannot run in a
// synctest bubble (a socket read is not durably blocking), so it runs in real time, un-killed.
func TestSilentDropRealtime(t *testing.T) {
	if !run.Thorough() {
		t.Skip("thorough tier only (about 40 s of wall-clock time)")
	}
	base, err := os.MkdirTemp("", "c08-rt-")
	if err != nil {
		t.Fatal(err)
	}
	defer os.RemoveAll(base)
	w, err := newWorker(base, 0)
	if err != nil {
		t.Fatal(err)
	}
	defer w.close()
	waits := func(n int) []Step {
		var out []Step
		for i := 0; i < n; i++ {
			out = append(out, st("wait", 0))
		}
		return out
	}
	for i, drop := range []int{3, 7} { // 3 datagrams (original + 2 retransmissions) = one timed-out exchange
		sc := &Script{Realtime: true, DropFirst: drop,
			Incs: []Inc{{Steps: append([]Step{st("start", 0), st("start", 1), st("stop", 0)}, waits(4)...), End: "graceful"}}}
		sc.ID = fmt.Sprintf("rt%d", i)
		sc.MaxRetries = maxRetries
		sc.Sessions = genSessions(sc.ID, run.SubRand("realtime", i))
		sc.Incs = append(sc.Incs, Inc{Steps: waits(12), End: "graceful"})
		ref := w.runReference(sc)
		if !ref.ok {
			continue
		}
		run.Count("realtime_silent_drop_scenarios", 1)
		judge(&scenario{sc: sc, incs: ref.incs, log: ref.logs[len(ref.logs)-1]})
		run.Nontrivial("realtime/" + sc.ID)
	}
	w.srv.mu.Lock()
	run.Count("datagrams_silently_dropped", w.srv.dropped)
	w.srv.mu.Unlock()
}

// ---------------------------------------------------------------------------------------------
// clause 6 on its own: every special 64-bit value and random ones, through Client.SendAccounting
// directly and through StartSession/StopSession with a counter source (server up, no crash).

func TestCounterSplit(t *testing.T) {
	srv, err := newAcctServer(secret)
	if err != nil {
		t.Fatal(err)
	}
	defer srv.close()
	dir, _ := os.MkdirTemp("", "c08-ctr-")
	defer os.RemoveAll(dir)
	logger := zap.NewNop()
	client, err := radius.NewClient(radius.ClientConfig{
		Servers: []radius.ServerConfig{{Host: "127.0.0.1", Port: srv.port - 1, Secret: secret}}, NASID: nasID, Timeout: 5 * time.Second, Retries: 1,
		RateLimit: radius.RateLimitConfig{RequestsPerSecond: 1e6, BurstSize: 100000},
	}, logger)
	if err != nil {
		t.Fatal(err)
	}
	var cur radius.SessionCounters
	am, err := radius.NewAccountingManager(client, radius.AccountingConfig{PersistPath: dir, MaxRetries: 3}, logger)
	if err != nil {
		t.Fatal(err)
	}
	am.SetCounterFetcher(func(string) (*radius.SessionCounters, error) { c := cur; return &c, nil })

	type pair struct{ in, out uint64 }
	var pairs []pair
	for _, a := range specials {
		for _, b := range specials {
			pairs = append(pairs, pair{a, b})
		}
	}
	rng := run.Rand("counters")
	for i := 0; i < run.Pick(300, 5000); i++ {
		var p pair
		switch rng.IntN(3) {
		case 0:
			p = pair{rng.Uint64(), rng.Uint64()}
		case 1:
			p = pair{uint64(rng.Uint32()), uint64(rng.Uint32())<<32 | uint64(rng.IntN(3))}
		default:
			p = pair{1<<uint(rng.IntN(64)) - uint64(rng.IntN(2)), 1<<uint(rng.IntN(64)) + uint64(rng.IntN(2))}
		}
		pairs = append(pairs, p)
	}
	mac, _ := net.ParseMAC("02:00:00:00:00:01")
	check := func(path string, status radius.AcctStatusType, sid string, p pair) {
		run.Eval()
		var got *Rec
		for _, r := range srv.snapshot() {
			if r.SID == sid && r.Status == uint32(status) {
				r := r
				got = &r
			}
		}
		if got == nil {
			run.Inconclusive("counter-split "+sid, "record not received by the server")
			return
		}
		run.Count("counter_records_checked", 1)
		if p.in > 0xFFFFFFFF || p.out > 0xFFFFFFFF {
			run.Count("counter_records_above_4GiB", 1)
			run.Nontrivial(fmt.Sprintf("ctr/%s/%d/%d/%d", path, status, p.in, p.out))
		}
		for _, d := range []struct {
			dir       string
			want, got uint64
			gw, oct   uint32
		}{{"input", p.in, got.in64(), got.InGW, got.InOct}, {"output", p.out, got.out64(), got.OutGW, got.OutOct}} {
			if d.want != d.got {
				cls := "value-below-4GiB"
				if d.want > 0xFFFFFFFF {
					cls = "value-at-or-above-4GiB"
				}
				run.Violation(path, "counter-gigaword-split", statusName(uint32(status))+"/"+d.dir+"/"+cls,
					fmt.Sprintf("%s counter %d (0x%x) sent as gigawords=%d octets=%d = %d", d.dir, d.want, d.want, d.gw, d.oct, d.got),
					map[string]any{"supplied": d.want, "record": got})
			}
		}
	}
	for i, p := range pairs {
		for _, stt := range []radius.AcctStatusType{radius.AcctStatusStop, radius.AcctStatusInterimUpdate} {
			sid := fmt.Sprintf("ctr-direct-%d-%d", i, stt)
			err := client.SendAccounting(context.Background(), &radius.AcctRequest{SessionID: sid, Username: "u", MAC: mac, FramedIP: net.IPv4(10, 0, 0, 1).To4(), StatusType: stt,
				InputOctets: p.in, OutputOctets: p.out, InputPackets: 1, OutputPackets: 2, SessionTime: 3})
			if err != nil {
				run.Inconclusive("counter-split "+sid, err.Error())
				continue
			}
			check("radius.Client.SendAccounting", stt, sid, p)
		}
		sid := fmt.Sprintf("ctr-mgr-%d", i)
		cur = radius.SessionCounters{InputOctets: p.in, OutputOctets: p.out}
		if err := am.StartSession(&radius.AccountingSession{SessionID: sid, Username: "u", MAC: mac, FramedIP: net.IPv4(10, 0, 0, 2).To4()}); err != nil {
			run.Inconclusive("counter-split "+sid, err.Error())
			continue
		}
		if err := am.StopSession(sid, radius.TerminateCauseUserRequest); err != nil {
			run.Inconclusive("counter-split "+sid, err.Error())
			continue
		}
		check(compStop, radius.AcctStatusStop, sid, p)
		if i%64 == 0 {
			srv.reset(nil, 0)
		}
	}
	if left, _ := filepath.Glob(filepath.Join(dir, "sessions", "*.json")); len(left) > 0 {
		run.Count("counter_test_session_files_left", len(left))
	}
}

// TestIdentifierInputs: hardware addresses of the lengths net.HardwareAddr can carry.
func TestIdentifierInputs(t *testing.T) {
	srv, err := newAcctServer(secret)
	if err != nil {
		t.Fatal(err)
	}
	defer srv.close()
	dir, _ := os.MkdirTemp("", "c08-id-")
	defer os.RemoveAll(dir)
	logger := zap.NewNop()
	client, _ := radius.NewClient(radius.ClientConfig{
		Servers: []radius.ServerConfig{{Host: "127.0.0.1", Port: srv.port - 1, Secret: secret}}, NASID: nasID, Timeout: 5 * time.Second, Retries: 1,
	}, logger)
	macs := []string{"", "020000000001", "0200000000010203", "02000000", "02", "0200000001", "0200000000010203040506070809101112131415"}
	for i, m := range macs {
		am, err := radius.NewAccountingManager(client, radius.AccountingConfig{PersistPath: filepath.Join(dir, fmt.Sprint(i)), MaxRetries: 3}, logger)
		if err != nil {
			t.Fatal(err)
		}
		sid := fmt.Sprintf("id-%d", i)
		s := Sess{ID: sid, User: "user-" + sid, MAC: m, IP: "10.9.8.7", NASPort: 7, Class: "cls"}
		run.Eval()
		run.Count("identifier_inputs", 1)
		var pan any
		func() {
			defer func() { pan = recover() }()
			if err := am.StartSession(s.toSession()); err != nil {
				return
			}
			am.StopSession(sid, radius.TerminateCauseUserRequest)
		}()
		if pan != nil {
			run.Violation("radius.formatMAC", "records-carry-own-identifiers", "panic/hardware-address-shorter-than-6-bytes",
				fmt.Sprintf("StartSession for a session whose hardware address has %d bytes panics: %v", len(m)/2, pan), map[string]any{"session": s, "panic": fmt.Sprint(pan)})
			continue
		}
		for _, r := range srv.snapshot() {
			if r.SID != sid {
				continue
			}
			run.Count("identifier_records_checked", 1)
			if len(m) == 12 && normMAC(r.CSID) != m {
				run.Violation("radius.formatMAC", "records-carry-own-identifiers", statusName(r.Status)+"/same-incarnation/Calling-Station-Id",
					fmt.Sprintf("Calling-Station-Id %q for hardware address %s", r.CSID, m), map[string]any{"record": r})
			}
			if len(m) > 12 && normMAC(r.CSID) != m {
				run.Violation("radius.formatMAC", "records-carry-own-identifiers", "Calling-Station-Id-truncated/hardware-address-longer-than-6-bytes",
					fmt.Sprintf("Calling-Station-Id %q for the %d-byte hardware address %s", r.CSID, len(m)/2, m), map[string]any{"record": r})
			}
			if r.User != s.User || r.IP != s.IP || r.NASPort != s.NASPort {
				run.Violation(compMgr, "records-carry-own-identifiers", statusName(r.Status)+"/same-incarnation/other-field",
					fmt.Sprintf("record %+v does not carry the identifiers of %+v", r, s), map[string]any{"record": r})
			}
		}
	}
}
