package c12

import (
	"context"
	"encoding/json"
	"fmt"
	"net"
	"net/netip"
	"os"
	"runtime"
	"sort"
	"strings"
	"sync"
	"testing"
	"testing/synctest"
	"time"

	"github.com/codelaboratoryltd/bng/pkg/allocator"

	"verif/harness/internal/pools"
	"verif/harness/internal/vk"
)

var run *vk.Run
var bg = context.Background()

func TestMain(m *testing.M) {
	run = vk.Start("C12", "fault_enumeration")
	run.Rule("(1) engine histories with a store-write fault armed at every position (memory vs store agreement); (2) a restart from the store snapshot taken after every store operation of a history, under several enumeration orders of Query; (3) remote announcements delivered to peer nodes in permuted order; (4) marshal/unmarshal followed by a query battery and a 10-op continuation on both objects. non-trivial = distinct (history, crash point, enumeration order) whose snapshot held ≥1 record, or a delivered remote change, or a restored allocator with ≥1 allocation")
	run.Assume("lease mode: a record whose lease had lapsed on the stopping node creates no obligation; an announcement for an address another subscriber holds locally may be ignored (injectivity only); single restart of a node that has not restarted before (epochs are not persisted)")
	code := m.Run()
	ec := run.Finish()
	if code != 0 && ec == 0 {
		ec = 2
	}
	os.Exit(ec)
}

// ---------------------------------------------------------------- (1) engine histories with faults

func TestStoreFaults(t *testing.T) {
	depth := run.Pick(5, 6)
	specs := []*pools.Spec{
		pools.Distributed("10.0.0.0/29", 32, false, 0), pools.Distributed("2001:db8::/126", 128, false, 0),
		pools.Distributed("10.0.0.0/29", 32, true, 1), pools.Distributed("10.0.0.0/29", 32, true, 2),
		pools.DistributedMAC("10.0.0.0/29", 32, false, 0), pools.DistributedMAC("10.0.0.0/29", 32, true, 1),
		pools.PoolAlloc("10.0.0.0/29", 32), pools.PoolAlloc("2001:db8::/62", 64),
		pools.Bitmap("10.0.0.0/30", 32), pools.Epoch("10.0.0.0/29", 32, 1), pools.Epoch("10.0.0.0/28", 30, 1),
	}
	var wg sync.WaitGroup
	sem := make(chan struct{}, runtime.NumCPU())
	for si, s := range specs {
		s, si := s, si
		wg.Add(1)
		sem <- struct{}{}
		go func() {
			defer wg.Done()
			defer func() { <-sem }()
			caps := pools.ProbeCaps(s)
			alpha := pools.Alphabet(caps, 3, true)
			rep := func(prop, rule, class, desc string) {
				if prop == "C12" {
					run.Violation(s.Impl, rule, class, desc, map[string]string{"impl": s.Impl, "geometry": s.Geom, "detail": desc})
				}
			}
			sampled := false
			n := pools.Enumerate(alpha, depth, func(h []pools.Op) {
				r, err := pools.RunHistory(s, h, false, rep)
				if err != nil {
					t.Errorf("new: %v", err)
					return
				}
				run.Eval()
				if r.Obs.Ops["fail"] > 0 || r.Obs.Ops["reload"] > 0 {
					run.Nontrivial(fmt.Sprint(si, h))
				}
				run.Count("fault_ops", r.Obs.Ops["fail"])
				run.Count("reload_ops", r.Obs.Ops["reload"])
				if !sampled && r.Obs.Ops["fail"] > 0 && r.Obs.Ops["reload"] > 0 {
					sampled = true
					run.Sample(map[string]any{"kind": "fault+reload history", "impl": s.Impl, "history": r.History()})
				}
			})
			run.Count("engine_histories", n)
			for w := 0; w < run.Pick(20, 300); w++ {
				rng := run.SubRand(fmt.Sprintf("faultwalk-%d", si), w)
				h := pools.RandomHistory(s, caps, rng, 40+rng.IntN(200), true)
				r, err := pools.RunHistory(s, h, false, rep)
				if err == nil {
					run.Eval()
					run.Count("fault_ops", r.Obs.Ops["fail"])
					run.Count("reload_ops", r.Obs.Ops["reload"])
					run.Nontrivial(fmt.Sprint("w", si, w))
				}
			}
		}()
	}
	wg.Wait()
}

// ---------------------------------------------------------------- (2) restart after every store operation

type rec struct {
	Sub    string
	Prefix netip.Prefix
	Epoch  uint64
}

func parseSnap(poolID string, snap map[string][]byte) []rec {
	var out []rec
	for k, v := range snap {
		if !strings.HasPrefix(k, "/allocation/"+poolID+"/") {
			continue
		}
		var a allocator.DistributedAllocation
		if json.Unmarshal(v, &a) != nil {
			continue
		}
		p, err := netip.ParsePrefix(a.Prefix)
		if err != nil {
			continue
		}
		out = append(out, rec{a.SubscriberID, p, a.Epoch})
	}
	sort.Slice(out, func(i, j int) bool { return out[i].Sub < out[j].Sub })
	return out
}

func perms(n int, rng interface{ Perm(int) []int }, max int) [][]int {
	if n <= 1 {
		return [][]int{identity(n)}
	}
	if n <= 4 {
		var out [][]int
		var rec func(cur []int, used []bool)
		rec = func(cur []int, used []bool) {
			if len(cur) == n {
				out = append(out, append([]int(nil), cur...))
				return
			}
			for i := 0; i < n; i++ {
				if !used[i] {
					used[i] = true
					rec(append(cur, i), used)
					used[i] = false
				}
			}
		}
		rec(nil, make([]bool, n))
		if len(out) > max {
			// keep identity, reverse and a seeded selection
			sel := [][]int{out[0], out[len(out)-1]}
			for _, i := range rng.Perm(len(out))[:max-2] {
				sel = append(sel, out[i])
			}
			return sel
		}
		return out
	}
	out := [][]int{identity(n), reverse(n)}
	for i := 0; i < max-2; i++ {
		out = append(out, rng.Perm(n))
	}
	return out
}
func identity(n int) []int {
	p := make([]int, n)
	for i := range p {
		p[i] = i
	}
	return p
}
func reverse(n int) []int {
	p := make([]int, n)
	for i := range p {
		p[i] = n - 1 - i
	}
	return p
}

type step struct {
	K, Sub string
}

func TestRestartAtEveryStoreOp(t *testing.T) {
	type cfgT struct {
		cidr  string
		unit  int
		lease bool
		grace int
	}
	cfgs := []cfgT{{"10.0.0.0/29", 32, false, 0}, {"2001:db8::/125", 128, false, 0}, {"10.0.0.0/29", 32, true, 1}, {"10.0.0.0/29", 32, true, 2}, {"10.0.0.0/28", 30, false, 0}, {"10.0.0.64/27", 30, true, 1}}
	histories := run.Pick(60, 1200)
	maxLen := run.Pick(10, 25)
	permMax := run.Pick(6, 20)
	for ci, c := range cfgs {
		c := c
		name := "allocator.DistributedAllocator/session"
		mode := allocator.PoolModeSession
		if c.lease {
			name = "allocator.DistributedAllocator/lease"
			mode = allocator.PoolModeLease
		}
		dcfg := allocator.DistributedConfig{PoolID: "p1", BaseNetwork: c.cidr, PrefixLen: c.unit, Mode: mode, EpochGrace: c.grace, EpochPeriod: time.Hour}
		for hi := 0; hi < histories; hi++ {
			rng := run.SubRand(fmt.Sprintf("restart-%d", ci), hi)
			n := 3 + rng.IntN(maxLen-2)
			var h []step
			for i := 0; i < n; i++ {
				sub := fmt.Sprintf("s%d", rng.IntN(5))
				switch x := rng.IntN(10); {
				case x < 5:
					h = append(h, step{"alloc", sub})
				case x < 7:
					h = append(h, step{"release", sub})
				case x < 8 && c.lease:
					h = append(h, step{"renew", sub})
				case c.lease:
					h = append(h, step{"epoch", ""})
				default:
					h = append(h, step{"alloc", sub})
				}
			}
			synctest.Test(t, func(t *testing.T) {
				st := pools.NewMemStore()
				st.KeepSnaps = true
				a, err := allocator.NewDistributedAllocator(dcfg, st)
				if err != nil {
					t.Fatal(err)
				}
				ctx, cancel := context.WithCancel(context.Background())
				defer cancel()
				if err := a.Start(ctx); err != nil {
					t.Fatal(err)
				}
				// epochAt[k]: epoch of the node when snapshot k was written; heldAt[k]: Get() view right after the op that wrote it
				var epochAt []uint64
				var heldAt []map[string]netip.Prefix
				var trace []string
				view := func() map[string]netip.Prefix {
					m := map[string]netip.Prefix{}
					for i := 0; i < 5; i++ {
						s := fmt.Sprintf("s%d", i)
						if p, ok := a.Get(s); ok {
							m[s] = pools.FromIPNet(p)
						}
					}
					return m
				}
				for _, s := range h {
					before := len(st.Snaps)
					switch s.K {
					case "alloc":
						if hi%2 == 1 { // the DHCP entry point
							a.AllocateWithMAC(bg, s.Sub, net.HardwareAddr{2, 0, 0, 0, 0, s.Sub[len(s.Sub)-1]})
							run.Count("alloc_with_mac", 1)
						} else {
							a.Allocate(bg, s.Sub)
						}
					case "release":
						a.Release(bg, s.Sub)
					case "renew":
						a.Renew(bg, s.Sub)
					case "epoch":
						// the production path: the allocator's own epoch ticker (advance + store cleanup)
						time.Sleep(time.Hour)
						synctest.Wait()
					}
					trace = append(trace, s.K+"("+s.Sub+")")
					v := view()
					for len(epochAt) < len(st.Snaps) {
						epochAt = append(epochAt, a.GetCurrentEpoch())
						heldAt = append(heldAt, v)
					}
					_ = before
				}
				cancel()
				synctest.Wait()
				// restart from every snapshot
				for k, snap := range st.Snaps {
					recs := parseSnap("p1", snap)
					isLast := k == len(st.Snaps)-1
					for pi, perm := range perms(len(recs), rng, permMax) {
						ns := pools.FromSnapshot(snap)
						perm := perm
						ns.QueryPerm = func(n int) []int {
							if n == len(perm) {
								return perm
							}
							return identity(n)
						}
						b, err := allocator.NewDistributedAllocator(dcfg, ns)
						if err != nil {
							t.Fatal(err)
						}
						ctx2, cancel2 := context.WithCancel(context.Background())
						if err := b.Start(ctx2); err != nil {
							run.Violation(name, "restart", "start-error", fmt.Sprintf("Start from snapshot failed: %v", err), trace)
						}
						run.Eval()
						run.Count("restarts", 1)
						if len(recs) > 0 {
							run.Nontrivial(fmt.Sprint(ci, hi, k, pi))
						}
						wit := func() any {
							var rs []string
							for _, i := range perm {
								if i < len(recs) {
									rs = append(rs, fmt.Sprintf("%s=%v@%d", recs[i].Sub, recs[i].Prefix, recs[i].Epoch))
								}
							}
							return map[string]any{"mode": string(mode), "geometry": c.cidr, "unit": c.unit, "grace": c.grace, "history": trace, "crash_after_store_op": k, "node_epoch_at_crash": epochAt[k], "records_in_query_order": rs}
						}
						// count sharers of each prefix
						share := map[netip.Prefix]int{}
						for _, r := range recs {
							share[r.Prefix]++
						}
						seen := map[netip.Prefix]string{}
						for _, r := range recs {
							lapsed := c.lease && epochAt[k] > r.Epoch && epochAt[k]-r.Epoch > uint64(c.grace)
							got, ok := b.Get(r.Sub)
							gp := pools.FromIPNet(got)
							if ok {
								if o, dup := seen[gp]; dup && o != r.Sub {
									run.Violation(name, "no-two-subscribers-after-restart", "duplicate-after-restart", fmt.Sprintf("after restart %s and %s both map to %v", o, r.Sub, gp), wit())
								}
								seen[gp] = r.Sub
							}
							if lapsed {
								run.Count("lapsed_records_seen", 1)
								continue
							}
							// obligation only for records the stopped node itself still held with that address (5b)
							if hv, held := heldAt[k][r.Sub]; isLast && (!held || hv != r.Prefix) {
								continue
							}
							if !ok || gp != r.Prefix {
								class := "record-not-restored"
								if share[r.Prefix] > 1 {
									class = "stale-record-shadows-live-lease"
								} else if ok {
									class = "restored-with-different-address"
								}
								run.Violation(name, "same-address-after-restart", class, fmt.Sprintf("record %s=%v in the store, after restart Get(%s)=(%v,%v)", r.Sub, r.Prefix, r.Sub, gp, ok), wit())
								continue
							}
							if rs, ok2 := b.GetByPrefix(pools.ToIPNet(r.Prefix)); !ok2 || rs != r.Sub {
								run.Violation(name, "same-address-after-restart", "reverse-lookup-disagrees", fmt.Sprintf("after restart GetByPrefix(%v)=(%q,%v), record says %s", r.Prefix, rs, ok2, r.Sub), wit())
							}
							run.Count("records_checked", 1)
						}
						cancel2()
						synctest.Wait()
					}
				}
				if hi == 0 {
					run.Sample(map[string]any{"kind": "restart", "mode": string(mode), "history": trace, "store_ops": len(st.Snaps), "store_log": st.Log})
				}
			})
		}
	}
}

// ---------------------------------------------------------------- (3) remote announcements

func TestRemoteChanges(t *testing.T) {
	rounds := run.Pick(150, 4000)
	for _, lease := range []bool{false, true} {
		mode := allocator.PoolModeSession
		name := "allocator.DistributedAllocator/session"
		if lease {
			mode = allocator.PoolModeLease
			name = "allocator.DistributedAllocator/lease"
		}
		dcfg := allocator.DistributedConfig{PoolID: "p1", BaseNetwork: "10.0.0.0/28", PrefixLen: 32, Mode: mode, EpochGrace: 1, EpochPeriod: time.Hour}
		for round := 0; round < rounds; round++ {
			rng := run.SubRand("remote-"+string(mode), round)
			st := pools.NewMemStore()
			var pending []pools.Change
			st.Pending = &pending
			nNodes := 2 + rng.IntN(2)
			nodes := make([]*allocator.DistributedAllocator, nNodes)
			cbs := make([]func(string, []byte, bool), 0, nNodes)
			for i := range nodes {
				// each node registers its own watcher on a private view of the shared store so that deliveries can be ordered per node
				ns := &nodeStore{MemStore: st}
				a, err := allocator.NewDistributedAllocator(dcfg, ns)
				if err != nil {
					t.Fatal(err)
				}
				ctx, cancel := context.WithCancel(context.Background())
				if err := a.Start(ctx); err != nil {
					t.Fatal(err)
				}
				cancel()
				nodes[i] = a
				cbs = append(cbs, ns.cb)
			}
			var trace []string
			queues := make([][]pools.Change, nNodes) // undelivered changes per node
			deliver := func(ni int, ch pools.Change) {
				n := nodes[ni]
				sub := strings.TrimPrefix(ch.Key, "/allocation/p1/")
				var want netip.Prefix
				obligation := false
				var a allocator.DistributedAllocation
				if !ch.Deleted && json.Unmarshal(ch.Value, &a) == nil {
					want, _ = netip.ParsePrefix(a.Prefix)
					holder, held := n.GetByPrefix(pools.ToIPNet(want))
					obligation = !held || holder == sub
					if lease && n.GetCurrentEpoch() >= 2 && a.Epoch+2 < n.GetCurrentEpoch() {
						obligation = false
					}
				}
				old, hadOld := n.Get(sub)
				cbs[ni](ch.Key, ch.Value, ch.Deleted)
				run.Count("deliveries", 1)
				trace = append(trace, fmt.Sprintf("deliver[n%d] %s deleted=%v %s", ni, sub, ch.Deleted, a.Prefix))
				got, ok := n.Get(sub)
				switch {
				case ch.Deleted:
					if ok {
						run.Violation(name, "remote-delete-applied", "still-held-after-remote-delete", fmt.Sprintf("node %d still maps %s to %v after the delete announcement", ni, sub, pools.FromIPNet(got)), append([]string(nil), trace...))
					}
				case obligation:
					run.Count("announcements_with_obligation", 1)
					if !ok || pools.FromIPNet(got) != want {
						run.Violation(name, "remote-put-applied-with-announced-address", "announced-address-not-applied", fmt.Sprintf("node %d: announcement %s=%v (address free on this node) but Get=(%v,%v)", ni, sub, want, pools.FromIPNet(got), ok), append([]string(nil), trace...))
					} else if rs, ok2 := n.GetByPrefix(pools.ToIPNet(want)); !ok2 || rs != sub {
						run.Violation(name, "remote-put-applied-with-announced-address", "reverse-lookup-disagrees", fmt.Sprintf("node %d: after announcement %s=%v GetByPrefix gives (%q,%v)", ni, sub, want, rs, ok2), append([]string(nil), trace...))
					} else if hadOld && pools.FromIPNet(old) != want {
						if rs, ok3 := n.GetByPrefix(old); ok3 && rs == sub {
							run.Violation(name, "remote-put-applied-with-announced-address", "old-address-still-owned-after-move", fmt.Sprintf("node %d: %s moved to %v but %v still maps back to it", ni, sub, want, pools.FromIPNet(old)), append([]string(nil), trace...))
						}
					}
				}
				// injectivity on this node
				seen := map[netip.Prefix]string{}
				for i := 0; i < 6; i++ {
					s := fmt.Sprintf("s%d", i)
					if p, ok := n.Get(s); ok {
						pp := pools.FromIPNet(p)
						if o, dup := seen[pp]; dup {
							run.Violation(name, "no-two-subscribers", "duplicate-after-remote-change", fmt.Sprintf("node %d maps %s and %s to %v", ni, o, s, pp), append([]string(nil), trace...))
						}
						seen[pp] = s
					}
				}
			}
			ops := 6 + rng.IntN(20)
			for i := 0; i < ops; i++ {
				ni := rng.IntN(nNodes)
				sub := fmt.Sprintf("s%d", rng.IntN(6))
				pending = pending[:0]
				switch x := rng.IntN(10); {
				case x < 6:
					if i%2 == 1 {
						nodes[ni].AllocateWithMAC(bg, sub, net.HardwareAddr{2, 0, 0, 0, 0, sub[len(sub)-1]})
						run.Count("alloc_with_mac", 1)
					} else {
						nodes[ni].Allocate(bg, sub)
					}
					trace = append(trace, fmt.Sprintf("n%d.alloc(%s)", ni, sub))
				case x < 8:
					nodes[ni].Release(bg, sub)
					trace = append(trace, fmt.Sprintf("n%d.release(%s)", ni, sub))
				case x < 9 && lease:
					nodes[ni].Renew(bg, sub)
					trace = append(trace, fmt.Sprintf("n%d.renew(%s)", ni, sub))
				default:
					// a third party re-assigns a subscriber (operator move): write + announce
					units := pools.Units(netip.MustParsePrefix("10.0.0.0/28"), 32)
					v := units[1+rng.IntN(len(units)-2)]
					recd := allocator.DistributedAllocation{PoolID: "p1", SubscriberID: sub, Prefix: v.String(), Epoch: nodes[ni].GetCurrentEpoch()}
					b, _ := json.Marshal(recd)
					st.Put(bg, "/allocation/p1/"+sub, b)
					trace = append(trace, fmt.Sprintf("external.put(%s=%v)", sub, v))
				}
				for _, ch := range pending {
					for n := 0; n < nNodes; n++ {
						queues[n] = append(queues[n], ch)
					}
				}
				// deliver some of the queued changes, per node in FIFO per key but interleaved arbitrarily across nodes
				for n := 0; n < nNodes; n++ {
					k := rng.IntN(len(queues[n]) + 1)
					for j := 0; j < k; j++ {
						deliver(n, queues[n][0])
						queues[n] = queues[n][1:]
					}
				}
			}
			for n := 0; n < nNodes; n++ {
				for _, ch := range queues[n] {
					deliver(n, ch)
				}
			}
			run.Eval()
			run.Nontrivial(fmt.Sprint("remote", mode, round))
			if round == 0 {
				run.Sample(map[string]any{"kind": "remote-changes", "mode": string(mode), "nodes": nNodes, "trace": trace})
			}
		}
	}
}

// nodeStore shares the data of a MemStore but captures this node's watch callback.
type nodeStore struct {
	*pools.MemStore
	cb func(string, []byte, bool)
}

func (n *nodeStore) Watch(prefix string, cb func(key string, value []byte, deleted bool)) { n.cb = cb }

// ---------------------------------------------------------------- (4) serialise / restore

type battery struct {
	Answers []string
}

func ipaBattery(a *allocator.IPAllocator, subs []string, units []netip.Prefix) []string {
	var out []string
	for _, s := range subs {
		out = append(out, fmt.Sprintf("Lookup(%s)=%v", s, a.Lookup(s)))
	}
	for _, u := range units {
		out = append(out, fmt.Sprintf("ByPrefix(%v)=%s alloc=%v", u, a.LookupByPrefix(pools.ToIPNet(u)), a.IsAllocated(pools.ToIPNet(u))))
	}
	al, tot, ut := a.Stats()
	out = append(out, fmt.Sprintf("Stats=%d/%d/%.4f", al, tot, ut))
	l := a.ListAllocations()
	sort.Slice(l, func(i, j int) bool { return l[i].SubscriberID < l[j].SubscriberID })
	for _, x := range l {
		out = append(out, fmt.Sprintf("List %s=%v#%d", x.SubscriberID, x.Prefix, x.Index))
	}
	return out
}

func epochBattery(a *allocator.EpochBitmapAllocator, subs []string, units []netip.Prefix) []string {
	var out []string
	for _, s := range subs {
		out = append(out, fmt.Sprintf("Lookup(%s)=%v", s, a.Lookup(s)))
	}
	for _, u := range units {
		out = append(out, fmt.Sprintf("ByIP(%v)=%s", u, a.LookupByIP(net.IP(u.Addr().AsSlice()))))
	}
	al, tot, ut := a.Stats()
	out = append(out, fmt.Sprintf("Stats=%d/%d/%.4f epoch=%d", al, tot, ut, a.GetCurrentEpoch()))
	return out
}

func diff(a, b []string) string {
	for i := range a {
		if i >= len(b) || a[i] != b[i] {
			bb := "<missing>"
			if i < len(b) {
				bb = b[i]
			}
			return fmt.Sprintf("original: %s | restored: %s", a[i], bb)
		}
	}
	if len(b) > len(a) {
		return "restored has extra answers: " + b[len(a)]
	}
	return ""
}

// contDiff compares two continuations without constraining WHICH free address a new
// subscriber receives (the scan hint is not part of the serialised state, and the property
// leaves the choice free): the continuation consists of alloc/release(/renew/epoch) only, and
// what must agree is whether each call succeeded. Whether a call succeeds depends only on who
// holds something and on how many units are free, never on which unit was chosen.
func contDiff(a, b []string) string {
	strip := func(s string) string {
		// "alloc(s1)=10.0.0.2/32,false" -> "alloc(s1)=,false"
		if strings.HasPrefix(s, "alloc(") {
			i := strings.IndexByte(s, '=')
			j := strings.LastIndexByte(s, ',')
			if i > 0 && j > i {
				return s[:i+1] + s[j:]
			}
		}
		return s
	}
	for i := range a {
		if i >= len(b) || strip(a[i]) != strip(b[i]) {
			bb := "<missing>"
			if i < len(b) {
				bb = b[i]
			}
			return fmt.Sprintf("continuation step %d: original %s | restored %s", i, a[i], bb)
		}
	}
	return ""
}

func TestSerialiseRestore(t *testing.T) {
	rounds := run.Pick(400, 8000)
	geoms := []struct {
		cidr string
		unit int
	}{{"10.0.0.0/29", 32}, {"10.0.0.128/25", 28}, {"2001:db8::/125", 128}, {"2001:db8:0:8000::/53", 56}, {"10.0.0.0/28", 30}, {"10.0.0.0/26", 32}}
	subs := []string{"s0", "s1", "s2", "s3", "s4", "s5", "s6", "s7", "s8", "s9"}
	for round := 0; round < rounds; round++ {
		rng := run.SubRand("ser", round)
		g := geoms[rng.IntN(len(geoms))]
		units := pools.Units(netip.MustParsePrefix(g.cidr).Masked(), g.unit)
		// --- IPAllocator
		a, err := allocator.NewIPAllocator(g.cidr, g.unit)
		if err != nil {
			t.Fatal(err)
		}
		var trace []string
		apply := func(x *allocator.IPAllocator, r interface{ IntN(int) int }, n int, rec bool) (res []string) {
			defer func() {
				if p := recover(); p != nil {
					res = append(res, fmt.Sprintf("PANIC: %v", p))
				}
			}()
			for i := 0; i < n; i++ {
				s := subs[r.IntN(len(subs))]
				k := r.IntN(10)
				if !rec && k >= 7 {
					k = 5 // continuation: alloc/release only (see contDiff)
				}
				switch {
				case k < 5:
					p, err := x.Allocate(s)
					res = append(res, fmt.Sprintf("alloc(%s)=%v,%v", s, p, err != nil))
				case k < 7:
					res = append(res, fmt.Sprintf("release(%s)=%v", s, x.Release(s) != nil))
				case k < 8:
					u := units[r.IntN(len(units))]
					res = append(res, fmt.Sprintf("specific(%s,%v)=%v", s, u, x.AllocateSpecific(s, pools.ToIPNet(u)) != nil))
				case k < 9:
					u := units[r.IntN(len(units))]
					res = append(res, fmt.Sprintf("relprefix(%v)=%v", u, x.ReleasePrefix(pools.ToIPNet(u)) != nil))
				default:
					u := units[r.IntN(len(units))]
					res = append(res, fmt.Sprintf("set(%s,%v)=%v", s, u, x.SetAllocation(s, pools.ToIPNet(u)) != nil))
				}
			}
			if rec {
				trace = append(trace, res...)
			}
			return res
		}
		apply(a, rng, 5+rng.IntN(40), true)
		bts, err := json.Marshal(a)
		if err != nil {
			run.Violation("allocator.IPAllocator", "serialise-restore", "marshal-error", err.Error(), trace)
			continue
		}
		b := &allocator.IPAllocator{}
		if err := json.Unmarshal(bts, b); err != nil {
			run.Violation("allocator.IPAllocator", "serialise-restore", "unmarshal-error", err.Error(), trace)
			continue
		}
		run.Eval()
		if al, _, _ := a.Stats(); al > 0 {
			run.Nontrivial(fmt.Sprint("ipa", round))
		}
		if d := diff(ipaBattery(a, subs, units), ipaBattery(b, subs, units)); d != "" {
			run.Violation("allocator.IPAllocator", "serialise-restore", "query-battery-differs", d, map[string]any{"geometry": g, "history": trace, "json": string(bts)})
		} else {
			// identical continuation on both
			r1 := run.SubRand("ser-cont", round)
			r2 := run.SubRand("ser-cont", round)
			c1 := apply(a, r1, 10, false)
			c2 := apply(b, r2, 10, false)
			if d := contDiff(c1, c2); d != "" {
				run.Violation("allocator.IPAllocator", "serialise-restore", "continuation-differs", d, map[string]any{"geometry": g, "history": trace, "continuation_original": c1, "continuation_restored": c2})
			}
		}
		run.Count("ipallocator_roundtrips", 1)
		if round == 0 {
			run.Sample(map[string]any{"kind": "serialise-restore", "impl": "IPAllocator", "geometry": g, "history": trace, "json": string(bts)})
		}

		// --- EpochBitmapAllocator (IPv4 geometries only)
		if strings.Contains(g.cidr, ":") {
			continue
		}
		grace := 1 + rng.IntN(2)
		ea, err := allocator.NewEpochBitmapAllocator(allocator.EpochBitmapConfig{BaseNetwork: g.cidr, PrefixLength: g.unit, GracePeriod: uint64(grace)})
		if err != nil {
			t.Fatal(err)
		}
		var etrace []string
		eapply := func(x *allocator.EpochBitmapAllocator, r interface{ IntN(int) int }, n int, rec bool) (res []string) {
			defer func() {
				if p := recover(); p != nil { // a restored allocator that panics answers differently from the original
					res = append(res, fmt.Sprintf("PANIC: %v", p))
				}
			}()
			for i := 0; i < n; i++ {
				s := subs[r.IntN(len(subs))]
				switch k := r.IntN(10); {
				case k < 5:
					p, err := x.Allocate(bg, s)
					res = append(res, fmt.Sprintf("alloc(%s)=%v,%v", s, p, err != nil))
				case k < 7:
					res = append(res, fmt.Sprintf("release(%s)=%v", s, x.Release(bg, s) != nil))
				case k < 8:
					res = append(res, fmt.Sprintf("renew(%s)=%v", s, x.Renew(bg, s) != nil))
				default:
					res = append(res, fmt.Sprintf("epoch=%d", x.AdvanceEpoch()))
				}
			}
			if rec {
				etrace = append(etrace, res...)
			}
			return res
		}
		eapply(ea, rng, 5+rng.IntN(40), true)
		ebts, err := json.Marshal(ea)
		if err != nil {
			run.Violation("allocator.EpochBitmapAllocator", "serialise-restore", "marshal-error", err.Error(), etrace)
			continue
		}
		eb := &allocator.EpochBitmapAllocator{}
		if err := json.Unmarshal(ebts, eb); err != nil {
			run.Violation("allocator.EpochBitmapAllocator", "serialise-restore", "unmarshal-error", err.Error(), etrace)
			continue
		}
		run.Eval()
		if al, _, _ := ea.Stats(); al > 0 {
			run.Nontrivial(fmt.Sprint("epoch", round))
		}
		if d := diff(epochBattery(ea, subs, units), epochBattery(eb, subs, units)); d != "" {
			run.Violation("allocator.EpochBitmapAllocator", "serialise-restore", "query-battery-differs", d, map[string]any{"geometry": g, "grace": grace, "history": etrace, "json": string(ebts)})
		} else {
			r1 := run.SubRand("eser-cont", round)
			r2 := run.SubRand("eser-cont", round)
			c1 := eapply(ea, r1, 10, false)
			c2 := eapply(eb, r2, 10, false)
			if d := contDiff(c1, c2); d != "" {
				run.Violation("allocator.EpochBitmapAllocator", "serialise-restore", "continuation-differs", d, map[string]any{"geometry": g, "grace": grace, "history": etrace, "continuation_original": c1, "continuation_restored": c2})
			}
		}
		run.Count("epoch_roundtrips", 1)
	}
}

func TestSerialiseRestoreAllocationStore(t *testing.T) {
	rounds := run.Pick(300, 5000)
	for round := 0; round < rounds; round++ {
		rng := run.SubRand("ser-store", round)
		st := allocator.NewMemoryAllocationStore()
		st.SetPoolTotal("p1", 16)
		st.SetPoolTotal("p2", 8)
		var trace []string
		n := 3 + rng.IntN(30)
		for i := 0; i < n; i++ {
			sub := fmt.Sprintf("s%d", rng.IntN(6))
			pool := []string{"p1", "p2"}[rng.IntN(2)]
			if rng.IntN(10) < 7 {
				ip := net.IPv4(10, byte(len(pool)), 0, byte(1+rng.IntN(12))).To4()
				if pool == "p2" && rng.IntN(2) == 0 {
					ip = net.ParseIP(fmt.Sprintf("2001:db8::%x", 1+rng.IntN(12)))
				}
				bits := len(ip) * 8
				err := st.SaveAllocation(bg, allocator.AllocationRecord{SubscriberID: sub, PoolID: pool, PoolType: allocator.PoolTypeIPv4Address, Prefix: &net.IPNet{IP: ip, Mask: net.CIDRMask(bits, bits)}, MAC: "02:00:00:00:00:01", AllocatedAt: time.Unix(1700000000+int64(i), 0).UTC()})
				trace = append(trace, fmt.Sprintf("save(%s,%s,%v)=%v", sub, pool, ip, err != nil))
			} else {
				st.RemoveAllocation(bg, pool, sub)
				trace = append(trace, fmt.Sprintf("remove(%s,%s)", pool, sub))
			}
		}
		bts, err := json.Marshal(st)
		if err != nil {
			run.Violation("allocator.MemoryAllocationStore", "serialise-restore", "marshal-error", err.Error(), trace)
			continue
		}
		st2 := allocator.NewMemoryAllocationStore()
		if err := json.Unmarshal(bts, st2); err != nil {
			run.Violation("allocator.MemoryAllocationStore", "serialise-restore", "unmarshal-error", err.Error(), trace)
			continue
		}
		bat := func(s *allocator.MemoryAllocationStore) []string {
			var out []string
			for i := 0; i < 6; i++ {
				recs, _ := s.GetBySubscriber(bg, fmt.Sprintf("s%d", i))
				var l []string
				for _, r := range recs {
					l = append(l, r.PoolID+"="+r.Prefix.String())
				}
				sort.Strings(l)
				out = append(out, fmt.Sprintf("BySub(s%d)=%v", i, l))
			}
			for _, p := range []string{"p1", "p2"} {
				recs, _ := s.GetByPool(bg, p)
				var l []string
				for _, r := range recs {
					l = append(l, r.SubscriberID+"="+r.Prefix.String())
				}
				sort.Strings(l)
				a, tot, _ := s.GetPoolUtilization(bg, p)
				out = append(out, fmt.Sprintf("ByPool(%s)=%v util=%d/%d", p, l, a, tot))
			}
			for i := 1; i <= 12; i++ {
				for _, ip := range []net.IP{net.IPv4(10, 2, 0, byte(i)).To4(), net.ParseIP(fmt.Sprintf("2001:db8::%x", i))} {
					r, _ := s.GetByIP(bg, ip)
					if r != nil {
						out = append(out, fmt.Sprintf("ByIP(%v)=%s/%s", ip, r.SubscriberID, r.PoolID))
					} else {
						out = append(out, fmt.Sprintf("ByIP(%v)=none", ip))
					}
				}
			}
			out = append(out, fmt.Sprintf("Count=%d", s.Count()))
			return out
		}
		run.Eval()
		if st.Count() > 0 {
			run.Nontrivial(fmt.Sprint("store", round))
		}
		if d := diff(bat(st), bat(st2)); d != "" {
			run.Violation("allocator.MemoryAllocationStore", "serialise-restore", "query-battery-differs", d, map[string]any{"history": trace, "json": string(bts)})
		} else {
			// continuation: a conflicting save must be refused by both, a fresh one accepted by both
			ip := net.IPv4(10, 2, 0, 5).To4()
			e1 := st.SaveAllocation(bg, allocator.AllocationRecord{SubscriberID: "zz", PoolID: "p1", Prefix: &net.IPNet{IP: ip, Mask: net.CIDRMask(32, 32)}})
			e2 := st2.SaveAllocation(bg, allocator.AllocationRecord{SubscriberID: "zz", PoolID: "p1", Prefix: &net.IPNet{IP: ip, Mask: net.CIDRMask(32, 32)}})
			if (e1 == nil) != (e2 == nil) {
				run.Violation("allocator.MemoryAllocationStore", "serialise-restore", "continuation-differs", fmt.Sprintf("conflict check differs after restore: original err=%v restored err=%v", e1, e2), map[string]any{"history": trace})
			}
		}
		run.Count("store_roundtrips", 1)
	}
}
