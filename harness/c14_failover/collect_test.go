package c14

import (
	"encoding/json"
	"fmt"
	"hash/fnv"
	"os"
	"os/exec"
	"path/filepath"
	"sync"
	"time"
)

// collector accumulates everything a process observed so that the observations of the
// non-race child process (sequential phases) can be merged into the parent's vk.Run.
type collector struct {
	mu      sync.Mutex
	Evals   int64                      `json:"evals"`
	Counts  map[string]int64           `json:"counts"`
	Dist    map[string]map[uint64]bool `json:"dist"`
	Nontriv map[uint64]bool            `json:"nontriv"`
	Samples []any                      `json:"samples"`
	Viol    map[string]*violRec        `json:"viol"`
	Extras  map[string]any             `json:"extras"`
	Incon   [][2]string                `json:"incon"`
}

type violRec struct {
	Comp, Rule, Class, Desc string
	Witness                 any
	Count                   int
}

func newCollector() *collector {
	return &collector{Counts: map[string]int64{}, Dist: map[string]map[uint64]bool{}, Nontriv: map[uint64]bool{}, Viol: map[string]*violRec{}, Extras: map[string]any{}}
}

var col = newCollector()

func hs(s string) uint64 { h := fnv.New64a(); h.Write([]byte(s)); return h.Sum64() }

func (c *collector) Eval() { c.mu.Lock(); c.Evals++; c.mu.Unlock() }
func (c *collector) Count(k string, n int) {
	c.mu.Lock()
	c.Counts[k] += int64(n)
	c.mu.Unlock()
}
func (c *collector) Distinct(set, key string) {
	h := hs(key)
	c.mu.Lock()
	m := c.Dist[set]
	if m == nil {
		m = map[uint64]bool{}
		c.Dist[set] = m
	}
	m[h] = true
	c.mu.Unlock()
}
func (c *collector) Nontrivial(key string) {
	h := hs(key)
	c.mu.Lock()
	c.Nontriv[h] = true
	c.mu.Unlock()
}
func (c *collector) Sample(v any) {
	c.mu.Lock()
	if len(c.Samples) < 4 {
		c.Samples = append(c.Samples, v)
	}
	c.mu.Unlock()
}
func (c *collector) Extra(k string, v any) { c.mu.Lock(); c.Extras[k] = v; c.mu.Unlock() }
func (c *collector) Violation(comp, rule, class, desc string, witness any) {
	k := comp + "|" + rule + "|" + class
	c.mu.Lock()
	if v, ok := c.Viol[k]; ok {
		v.Count++
	} else {
		c.Viol[k] = &violRec{comp, rule, class, desc, witness, 1}
	}
	c.mu.Unlock()
}
func (c *collector) Inconclusive(cas, reason string) {
	c.mu.Lock()
	c.Incon = append(c.Incon, [2]string{cas, reason})
	c.mu.Unlock()
}

func (c *collector) dump(path string) error {
	c.mu.Lock()
	defer c.mu.Unlock()
	b, err := json.Marshal(c)
	if err != nil {
		return err
	}
	return os.WriteFile(path, b, 0o644)
}

func (c *collector) merge(o *collector) {
	c.mu.Lock()
	defer c.mu.Unlock()
	c.Evals += o.Evals
	for k, n := range o.Counts {
		c.Counts[k] += n
	}
	for s, m := range o.Dist {
		if c.Dist[s] == nil {
			c.Dist[s] = map[uint64]bool{}
		}
		for h := range m {
			c.Dist[s][h] = true
		}
	}
	for h := range o.Nontriv {
		c.Nontriv[h] = true
	}
	// child (sequential) samples first: they are the more readable ones
	c.Samples = append(append([]any{}, o.Samples...), c.Samples...)
	for k, v := range o.Viol {
		if old, ok := c.Viol[k]; ok {
			old.Count += v.Count
		} else {
			c.Viol[k] = v
		}
	}
	for k, v := range o.Extras {
		c.Extras[k] = v
	}
	c.Incon = append(c.Incon, o.Incon...)
}

// replay feeds everything into the vk.Run that writes the evidence and the verdict lines.
func (c *collector) replay() {
	c.mu.Lock()
	defer c.mu.Unlock()
	run.Evals(int(c.Evals))
	for k, n := range c.Counts {
		run.Count(k, int(n))
	}
	for s, m := range c.Dist {
		for h := range m {
			run.Distinct(s, fmt.Sprintf("%016x", h))
		}
	}
	for h := range c.Nontriv {
		run.Nontrivial(fmt.Sprintf("%016x", h))
	}
	for i, s := range c.Samples {
		if i < 5 {
			run.Sample(s)
		}
	}
	for _, v := range c.Viol {
		for i := 0; i < v.Count; i++ {
			run.Violation(v.Comp, v.Rule, v.Class, v.Desc, v.Witness)
		}
	}
	for k, v := range c.Extras {
		run.Extra(k, v)
	}
	for _, ic := range c.Incon {
		run.Inconclusive(ic[0], ic[1])
	}
}

// ---------------------------------------------------------------- child process (sequential phases, built without -race)

// The driver builds this package with -race (the property quantifies over schedules). Under the
// race detector every goroutine start costs ~0.3 ms behind a global tsan lock, and each sequence
// needs a fresh bubble, a control-loop goroutine and one goroutine per timer firing. The strictly
// sequential phases (BFS, random walks), where the race detector has nothing to find, therefore run
// in a child process built from the same package and the same /repo tree without -race; the
// concurrent phase (and a slice of the random walks) runs here under -race.
func startChild() (wait func() (*collector, error)) {
	build := os.Getenv("VERIF_BUILD")
	if build == "" {
		build = os.TempDir()
	}
	vgo := os.Getenv("VGO")
	if vgo == "" {
		vgo = "go"
	}
	bin := filepath.Join(build, "C14.norace.test")
	out := filepath.Join(build, fmt.Sprintf("C14.child.%d.json", os.Getpid()))
	args := []string{"test", "-c", "-tags", "verif", "-vet=off", "-o", bin}
	if repo := os.Getenv("VERIF_REPO"); repo != "" && repo != "/repo" {
		alt := filepath.Join(build, "go.alt.mod")
		if _, err := os.Stat(alt); err == nil {
			args = append(args, "-modfile="+alt)
		}
	}
	args = append(args, "./")
	type res struct {
		c   *collector
		err error
	}
	ch := make(chan res, 1)
	go func() {
		st := time.Now()
		b := exec.Command(vgo, args...)
		if o, err := b.CombinedOutput(); err != nil {
			ch <- res{nil, fmt.Errorf("building the non-race child binary failed: %v: %s", err, o)}
			return
		}
		buildS := time.Since(st).Seconds()
		cmd := exec.Command(bin, "-test.timeout=0", "-test.count=1", "-test.run", "^(TestBFS|TestRandomWalks|TestScripted)$")
		cmd.Env = append(os.Environ(), "C14_CHILD="+out, "GORACE=")
		cmd.Stdout = os.Stdout
		cmd.Stderr = os.Stderr
		done := make(chan error, 1)
		if err := cmd.Start(); err != nil {
			ch <- res{nil, err}
			return
		}
		go func() { done <- cmd.Wait() }()
		limit := 20 * time.Minute
		if run.Thorough() {
			limit = 100 * time.Minute
		}
		select {
		case err := <-done:
			if err != nil {
				ch <- res{nil, fmt.Errorf("child process failed: %v", err)}
				return
			}
		case <-time.After(limit):
			cmd.Process.Kill()
			ch <- res{nil, fmt.Errorf("child process exceeded its watchdog of %v", limit)}
			return
		}
		raw, err := os.ReadFile(out)
		if err != nil {
			ch <- res{nil, err}
			return
		}
		os.Remove(out)
		c := newCollector()
		if err := json.Unmarshal(raw, c); err != nil {
			ch <- res{nil, err}
			return
		}
		c.Extras["child_build_s"] = buildS
		c.Extras["child_wall_s"] = time.Since(st).Seconds() - buildS
		ch <- res{c, nil}
	}()
	return func() (*collector, error) { r := <-ch; return r.c, r.err }
}
