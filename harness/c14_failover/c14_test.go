// Package c14 monitors property C14: a standby promotes itself only after
// sustained partner failure (pkg/ha FailoverController + HealthMonitor).
//
// The real controller and the real health monitor run inside testing/synctest
// bubbles (virtual time). Health probes are injected through the real
// recordFailure/recordSuccess (verif hook), operator commands through the
// exported ForceFailover/ForceFailback, callback outcomes are scripted.
// A reference model written from the property statement computes, from the
// injected probes and the configured thresholds, the intervals during which the
// partner counts as down, and judges every observed role change, event and
// in-progress episode against it.
package c14

import (
	"encoding/json"
	"errors"
	"fmt"
	"math"
	"math/rand/v2"
	"os"
	"runtime"
	"runtime/debug"
	"sort"
	"strings"
	"sync"
	"sync/atomic"
	"syscall"
	"testing"
	"testing/synctest"
	"time"

	"github.com/codelaboratoryltd/bng/pkg/ha"
	"go.uber.org/zap"

	"verif/harness/internal/vk"
)

var run *vk.Run

var isChild bool // sequential phases, built without -race

// harnessFailed is set when the harness itself could not do its job (child failed, a case was lost).
var harnessFailed atomic.Bool

var anchored = []string{"pkg/ha/failover.go", "pkg/ha/health_monitor.go"}

const (
	compCtl = "ha.FailoverController"
	compMon = "ha.HealthMonitor"

	rulePromote  = "promotion-needs-sustained-down"
	ruleCallback = "role-change-only-after-callback-ok"
	ruleOnce     = "completed-event-exactly-once"
	ruleFailback = "failback-only-while-partner-healthy"
	ruleStuck    = "no-stuck-in-progress"

	eps = time.Millisecond // the ε of "within GracePeriod + ε"
	inf = time.Duration(math.MaxInt64 / 4)
)

// ---------------------------------------------------------------- go1.25.0 runtime workaround
//
// runtime.getOrSetBubbleSpecial (go1.25.0) allocates the record that ties a WaitGroup to a
// synctest bubble without holding mheap_.speciallock; concurrent first WaitGroup.Add calls in
// different bubbles (FailoverController.Start in parallel workers) corrupt those records and the
// process dies with "WaitGroup.Add called from multiple synctest bubbles". assocMu serialises
// the only calls of the code under test that touch a WaitGroup (Start/Stop); the harness itself
// uses channels inside bubbles; the GC runs only at a global gate so the sweeper never frees such
// records concurrently with an allocation.
var (
	assocMu sync.Mutex
	gcGate  sync.RWMutex
	gcDone  int64
)

const gcEvery = 256

func caseBegin() { gcGate.RLock() }
func caseEnd() {
	gcGate.RUnlock()
	if atomic.AddInt64(&gcDone, 1)%gcEvery == 0 {
		gcGate.Lock()
		runtime.GC()
		gcGate.Unlock()
	}
}

// ---------------------------------------------------------------- watchdog (wall clock; firing = inconclusive only)

var (
	wdMu    sync.Mutex
	wdCases = map[int64]wdCase{}
	wdSeq   int64
)

type wdCase struct {
	start time.Time
	desc  string
}

func wdEnter(desc string) int64 {
	id := atomic.AddInt64(&wdSeq, 1)
	wdMu.Lock()
	wdCases[id] = wdCase{time.Now(), desc}
	wdMu.Unlock()
	return id
}
func wdLeave(id int64) { wdMu.Lock(); delete(wdCases, id); wdMu.Unlock() }

func watchdog() {
	for {
		time.Sleep(2 * time.Second)
		wdMu.Lock()
		for _, c := range wdCases {
			if time.Since(c.start) > 180*time.Second {
				col.Inconclusive("watchdog", "a case did not finish within 180 s of real time (controller blocked outside virtual time?): "+c.desc)
				fmt.Printf("INCONCLUSIVE property=C14 case=watchdog reason=%s\n", c.desc)
				if out := os.Getenv("C14_CHILD"); out != "" {
					os.Exit(2)
				}
				col.replay()
				run.Finish()
				os.Exit(2)
			}
		}
		wdMu.Unlock()
	}
}

func TestMain(m *testing.M) {
	run = vk.Start("C14", "exploration")
	debug.SetGCPercent(-1)         // collections happen at caseEnd only (see workaround above)
	debug.SetMemoryLimit(12 << 30) // safety net
	go watchdog()
	if out := os.Getenv("C14_CHILD"); out != "" {
		// child: sequential phases without -race; observations are handed to the parent
		isChild = true
		code := m.Run()
		if err := col.dump(out); err != nil {
			fmt.Println("child: cannot write observations:", err)
			code = 1
		}
		os.Exit(code)
	}
	run.Rule("sequences over {probe-fail, probe-ok, partner-down (FailureThreshold fails), partner-up (RecoveryThreshold oks), +δ for δ∈{1ns, FailoverDelay−1ns, FailoverDelay, FailbackDelay−1ns, FailbackDelay, GracePeriod, 1s}, ForceFailover, ForceFailback, next-callback fail/ok} run against the real FailoverController+HealthMonitor on a virtual clock (testing/synctest): breadth-first enumeration with state fingerprinting (a sequence is extended only if it ends in a fingerprint not seen before), seeded random walks over random configurations, scripted cases (for 5 fixed + seeded random configurations, each of 11 timer windows {failover timer, promotion drain period, forced-promotion drain period, after a cancelled failover timer, after a failed promotion, failback timer (after an automatic and after a forced promotion, and re-armed after a relapse), failback drain period, after a failed failback, promoted with the partner still down} × offsets {start, +1ns, middle, end−1ns, end, end+1ns, seeded random inside} × operator command groups {none, ff, fb, repeated, mixed, 1ns apart, each with the next callback failing} and the same commands at two different points of one window) and concurrent rounds (several goroutines act at the same virtual instant, aligned with timer deadlines) under -race; every sequence ends with the partner's health unchanged and virtual time run past FailoverDelay+FailbackDelay+3·GracePeriod+2s (quiescence); after every step and at every instant derived from the configured delays the role/state/stats/events/callback log are judged; non-trivial = distinct (configuration, sequence) during which the controller left the normal state (a failover/failback timer was armed or an in-progress episode was observed)")
	run.Assume("partner 'down'/'up' is defined from the injected probe results by the documented thresholds (FailureThreshold consecutive failures while healthy => down; RecoveryThreshold consecutive successes while unhealthy => up), initial state healthy")
	run.Assume("an automatic promotion at τ is accepted iff some down interval [d,e) has d+FailoverDelay ≤ τ, d+FailoverDelay ≤ e and e ≥ τ−GracePeriod (a recovery that arrives after the delay elapsed, during the drain period, is not required to cancel; counted as an observation); a ForceFailover that returned nil justifies the next promotion (DESIGN §5b)")
	run.Assume("'no transition pending' is bounded as: State()=in_progress for more than GracePeriod+ε, State()=pending for more than FailoverDelay+ε, or State()=failback_pending for more than FailbackDelay+GracePeriod+ε of virtual time, each counted from the later of the first observation of the state and the last input (probe or operator command); at quiescence the state must be normal or complete. Which of the two, and whether a failback took place, is not prescribed beyond the other clauses (a failback is never required by the statement): end states are counted as observations")
	run.Assume("role-change callbacks return immediately (zero virtual time); events emitted and role changes are observed after synctest.Wait, i.e. when every goroutine of the controller is durably blocked")
	run.Assume("BFS and random walks (strictly sequential drivers) run in a child process built from the same package and /repo tree without -race; concurrent rounds and a slice of the random walks run under -race in the parent")
	run.Floor("promotions_observed", 50)
	run.Floor("failbacks_observed", 10)
	run.Floor("pending_cancelled_by_recovery", 20)
	run.Floor("callback_failures_observed", 10)
	run.Floor("concurrent_rounds", 2000)
	// operator commands inside timer windows, and the transitional episodes they fell into, were really reached
	run.Floor("scripted_sequences", 5000)
	run.Floor("scripted_commands_issued_outside_normal_state", 3000)
	run.Floor("cmd_force_failback_in_state_failback_pending", 1000)
	run.Floor("cmd_force_failover_in_state_failback_pending", 1000)
	run.Floor("cmd_force_failover_in_state_pending", 200)
	run.Floor("cmd_force_failback_in_state_pending", 200)
	run.Floor("cmd_force_failover_in_state_in_progress", 500)
	run.Floor("cmd_force_failback_in_state_in_progress", 500)
	run.Floor("episodes_failback_pending_resolved_after_operator_command_inside", 1000)
	run.Floor("episodes_pending_resolved_after_operator_command_inside", 200)
	run.Floor("quiescent_ends_judged", 50000)
	wait := startChild()
	code := m.Run()
	child, err := wait()
	if err != nil {
		col.Inconclusive("child", err.Error())
		harnessFailed.Store(true)
		code = 1
	} else {
		col.merge(child)
	}
	col.replay()
	run.JudgeRaces(anchored)
	if code != 0 && !harnessFailed.Load() && len(vk.RaceReports()) > 0 {
		// the only way a test of this package fails without harnessFailed is testing's own
		// "race detected during execution of test"; those reports have just been judged
		code = 0
	}
	ec := run.Finish()
	if code != 0 && ec == 0 {
		ec = 2
	}
	// not os.Exit: with -race the runtime's exit hook replaces the status by 66 as soon as any race
	// was reported, including races that have just been judged (violation => 1, listed finding => 0)
	syscall.Exit(ec)
}

// ---------------------------------------------------------------- configuration and operations

type cfgT struct {
	Name     string
	FD, FBD  time.Duration
	GP       time.Duration
	FT, RT   int
	Failback bool
}

func (c cfgT) String() string {
	return fmt.Sprintf("%s{FailoverDelay=%v FailbackDelay=%v GracePeriod=%v FailureThreshold=%d RecoveryThreshold=%d FailbackEnabled=%v}", c.Name, c.FD, c.FBD, c.GP, c.FT, c.RT, c.Failback)
}

type op struct {
	K string // fail ok down up adv ff fb cbfail cbok
	D time.Duration
}

func (o op) String() string {
	if o.K == "adv" {
		return "+" + o.D.String()
	}
	if o.K == "mark" {
		return "|"
	}
	return o.K
}

func opsString(ops []op) string {
	s := make([]string, len(ops))
	for i, o := range ops {
		s[i] = o.String()
	}
	return strings.Join(s, " ")
}

func deltas(c cfgT) []time.Duration {
	cand := []time.Duration{1, c.FD - 1, c.FD, c.FBD - 1, c.FBD, c.GP, time.Second}
	seen := map[time.Duration]bool{}
	var out []time.Duration
	for _, d := range cand {
		if d > 0 && !seen[d] {
			seen[d] = true
			out = append(out, d)
		}
	}
	return out
}

func alphabet(c cfgT) []op {
	a := []op{{K: "down"}, {K: "up"}}
	if c.FT > 1 || c.RT > 1 {
		a = append(a, op{K: "fail"}, op{K: "ok"})
	}
	for _, d := range deltas(c) {
		a = append(a, op{K: "adv", D: d})
	}
	a = append(a, op{K: "ff"}, op{K: "fb"}, op{K: "cbfail"}, op{K: "cbok"})
	return a
}

// ---------------------------------------------------------------- the monitored world

type cbRec struct {
	at   time.Duration
	role ha.Role
	fail bool
	seen ha.Role // CurrentRole() as read from inside the callback
}
type evRec struct {
	at       time.Duration
	typ      ha.FailoverEventType
	old, new ha.Role
}
type ival struct {
	d, e time.Duration
	open bool
}

func (i ival) end() time.Duration {
	if i.open {
		return inf
	}
	return i.e
}

type traceRec struct {
	at      time.Duration
	what    string
	state   ha.FailoverState
	role    ha.Role
	healthy bool
	st      [4]uint64
}

type world struct {
	c  cfgT
	hm *ha.HealthMonitor
	fc *ha.FailoverController
	t0 time.Time

	mu       sync.Mutex
	cbs      []cbRec
	evs      []evRec
	failNext bool
	rdown    []ival // down intervals as reported by the monitor's own events
	lateEvs  int64  // events seen by handlers registered late (concurrent rounds)

	// reference model (from the property statement)
	healthy      bool
	cf, cs       int
	mdown        []ival
	ups          []time.Duration // model recovery instants
	ffCredit     int
	fbCredit     int
	lastFF       time.Duration
	role         ha.Role
	state        ha.FailoverState
	promotions   int
	failbacks    int
	cbSeen       int
	evSeen       int
	completedEv  int
	fbCompleteEv int
	canceledEv   int
	inProgSince  time.Duration
	inProgStart  time.Duration
	lastOp       string
	lastObs      time.Duration
	leftNormal   bool
	nViol        int
	trace        []traceRec
	opsDone      []string
	obs          map[string]int
	statesSeen   map[string]bool
	transSeen    map[string]bool
	stuckFlagged bool

	// transitional states other than in_progress (pending, failback_pending): same clause, own window
	pendState   ha.FailoverState
	pendSince   time.Duration // first observation of the current episode, or the last input since (whichever is later)
	pendBegan   time.Duration
	pendStartOp int // index of the input during which the episode began
	pendFlagged bool
	opIdx       int // inputs applied so far (a concurrent round counts as one)
	lastFBOp    int // opIdx of the last ForceFailback that returned nil
	lastFFOp    int // opIdx of the last ForceFailover attempt (accepted or not)
	lastFBTryOp int // opIdx of the last ForceFailback attempt (accepted or not)
	concurrent  bool
	markKey     string // scripted cases: state/role where the operator commands begin
	endKey      string // state/role/health at quiescence
}

func (w *world) now() time.Duration { return time.Since(w.t0) }

func newWorld(c cfgT) *world {
	w := &world{c: c, healthy: true, role: ha.RoleStandby, state: ha.FailoverStateNormal, inProgSince: -1, lastFF: -1, pendSince: -1, lastFBOp: -1, lastFFOp: -1, lastFBTryOp: -1,
		obs: map[string]int{}, statesSeen: map[string]bool{}, transSeen: map[string]bool{}}
	w.t0 = time.Now()
	logger := zap.NewNop()
	w.hm = ha.NewHealthMonitor(ha.HealthConfig{CheckInterval: time.Hour, Timeout: time.Second, FailureThreshold: c.FT, RecoveryThreshold: c.RT},
		&ha.PartnerInfo{NodeID: "partner", Endpoint: "192.0.2.1:9000"}, logger)
	w.fc = ha.NewFailoverController(ha.FailoverConfig{Enabled: true, FailoverDelay: c.FD, FailbackDelay: c.FBD, FailbackEnabled: c.Failback, GracePeriod: c.GP},
		"standby-node", ha.RoleStandby, 1, w.hm, logger)
	w.fc.SetRoleChangeCallback(func(nr ha.Role) error {
		seen := w.fc.CurrentRole()
		w.mu.Lock()
		fail := w.failNext
		w.failNext = false
		w.cbs = append(w.cbs, cbRec{at: w.now(), role: nr, fail: fail, seen: seen})
		w.mu.Unlock()
		if fail {
			return errors.New("scripted callback failure")
		}
		return nil
	})
	// handlers may be invoked with the controller's lock held: record only
	w.fc.OnFailoverEvent(func(e ha.FailoverEvent) {
		w.mu.Lock()
		w.evs = append(w.evs, evRec{at: w.now(), typ: e.Type, old: e.OldRole, new: e.NewRole})
		w.mu.Unlock()
	})
	w.hm.OnHealthChange(func(e ha.HealthEvent) {
		w.mu.Lock()
		switch e.Type {
		case ha.HealthEventPartnerDown:
			w.rdown = append(w.rdown, ival{d: w.now(), open: true})
		case ha.HealthEventPartnerUp:
			if n := len(w.rdown); n > 0 && w.rdown[n-1].open {
				w.rdown[n-1].open = false
				w.rdown[n-1].e = w.now()
			}
		}
		w.mu.Unlock()
	})
	assocMu.Lock()
	err := w.fc.Start()
	assocMu.Unlock()
	if err != nil {
		panic(err)
	}
	return w
}

func (w *world) close() {
	assocMu.Lock()
	w.fc.Stop()
	w.hm.Stop()
	assocMu.Unlock()
}

func (w *world) witness() map[string]any {
	var tr []string
	from := 0
	if len(w.trace) > 120 {
		from = len(w.trace) - 120
	}
	for _, r := range w.trace[from:] {
		tr = append(tr, fmt.Sprintf("t=%v %s -> state=%s role=%s monitor_healthy=%v stats(init/compl/canc/failback)=%v", r.at, r.what, r.state, r.role, r.healthy, r.st))
	}
	w.mu.Lock()
	var cbs, evs []string
	for _, c := range w.cbs {
		cbs = append(cbs, fmt.Sprintf("t=%v callback(%s) fail=%v role_seen_inside=%s", c.at, c.role, c.fail, c.seen))
	}
	for _, e := range w.evs {
		evs = append(evs, fmt.Sprintf("t=%v %s %s->%s", e.at, e.typ, e.old, e.new))
	}
	w.mu.Unlock()
	return map[string]any{"config": w.c.String(), "ops": strings.Join(w.opsDone, " "), "trace": tr, "callbacks": cbs, "events": evs,
		"model_down_intervals": fmt.Sprint(w.mdown), "reported_down_intervals": fmt.Sprint(w.rdown)}
}

func (w *world) violation(comp, rule, class, desc string) {
	w.nViol++
	col.Violation(comp, rule, class, desc+" | config "+w.c.String()+" | ops: "+strings.Join(w.opsDone, " "), w.witness())
}

// ---- model of partner health from probe results (documented threshold semantics)

func (w *world) modelProbe(fail bool) {
	now := w.now()
	if fail {
		w.cf++
		w.cs = 0
		if w.healthy && w.cf >= w.c.FT {
			w.healthy = false
			w.mdown = append(w.mdown, ival{d: now, open: true})
		}
	} else {
		w.cs++
		w.cf = 0
		if !w.healthy && w.cs >= w.c.RT {
			w.healthy = true
			n := len(w.mdown)
			w.mdown[n-1].open = false
			w.mdown[n-1].e = now
			w.ups = append(w.ups, now)
		}
	}
}

func (w *world) probe(fail bool) {
	w.modelProbe(fail)
	if fail {
		w.hm.VerifC14RecordFailure(errors.New("probe failed"))
		w.obs["probe_fail"]++
	} else {
		w.hm.VerifC14RecordSuccess(time.Millisecond, "partner", ha.RoleActive, 0)
		w.obs["probe_ok"]++
	}
}

func justified(ivs []ival, lo, hi time.Duration, c cfgT) bool {
	for _, iv := range ivs {
		e := iv.end()
		if iv.d+c.FD <= hi && iv.d+c.FD <= e && lo <= e+c.GP {
			return true
		}
	}
	return false
}

// apply executes one non-time operation at the current instant (no settle, no observe).
func (w *world) apply(o op) {
	w.lastOp = o.K
	w.opIdx++
	switch o.K {
	case "fail":
		w.probe(true)
	case "ok":
		w.probe(false)
	case "down":
		for i := 0; i < w.c.FT; i++ {
			w.probe(true)
		}
	case "up":
		for i := 0; i < w.c.RT; i++ {
			w.probe(false)
		}
	case "ff":
		w.obs["cmd_force_failover_in_state_"+w.fc.State().String()]++
		w.lastFFOp = w.opIdx
		err := w.fc.ForceFailover("operator")
		w.obs["force_failover"]++
		if err == nil {
			w.ffCredit++
			w.lastFF = w.now()
			w.obs["force_failover_accepted"]++
		}
	case "fb":
		w.obs["cmd_force_failback_in_state_"+w.fc.State().String()]++
		w.lastFBTryOp = w.opIdx
		err := w.fc.ForceFailback("operator")
		w.obs["force_failback"]++
		if err == nil {
			w.fbCredit++
			w.lastFBOp = w.opIdx
			w.obs["force_failback_accepted"]++
		}
	case "cbfail":
		w.mu.Lock()
		w.failNext = true
		w.mu.Unlock()
		w.obs["script_next_callback_fail"]++
	case "cbok":
		w.mu.Lock()
		w.failNext = false
		w.mu.Unlock()
		w.obs["script_next_callback_ok"]++
	}
	if w.inProgSince >= 0 && o.K != "cbfail" && o.K != "cbok" {
		// "with no new input": every input restarts the window
		w.inProgSince = w.now()
	}
	if w.pendSince >= 0 && o.K != "cbfail" && o.K != "cbok" {
		w.pendSince = w.now()
	}
}

// step = apply + settle + observe, for sequential sequences.
func (w *world) step(o op) {
	if o.K == "mark" {
		// scripted cases: not an input; notes what the controller reports where the commands begin
		w.markKey = fmt.Sprintf("%s/%s", w.fc.State(), w.fc.CurrentRole())
		return
	}
	w.opsDone = append(w.opsDone, o.String())
	if o.K == "adv" {
		w.advance(o.D)
		return
	}
	w.apply(o)
	synctest.Wait()
	w.observe(o.String())
}

// instants returns the instants in (now, target] at which the monitor wants to look:
// each configured delay counted from the most recent down/up/force instants, ±1ns.
func (w *world) instants(now, target time.Duration) []time.Duration {
	var cand []time.Duration
	add := func(t time.Duration) {
		if t > now && t <= target {
			cand = append(cand, t)
		}
	}
	tail := func(iv []ival) []ival {
		if len(iv) > 2 {
			return iv[len(iv)-2:]
		}
		return iv
	}
	w.mu.Lock()
	rd := append([]ival(nil), tail(w.rdown)...)
	w.mu.Unlock()
	for _, iv := range append(append([]ival(nil), tail(w.mdown)...), rd...) {
		for _, t := range []time.Duration{iv.d + w.c.FD - 1, iv.d + w.c.FD, iv.d + w.c.FD + w.c.GP - 1, iv.d + w.c.FD + w.c.GP, iv.d + w.c.FD + w.c.GP + eps + 1} {
			add(t)
		}
		if !iv.open {
			for _, t := range []time.Duration{iv.e + w.c.FBD - 1, iv.e + w.c.FBD, iv.e + w.c.FBD + w.c.GP - 1, iv.e + w.c.FBD + w.c.GP} {
				add(t)
			}
		}
	}
	if w.lastFF >= 0 {
		add(w.lastFF + w.c.GP)
		add(w.lastFF + w.c.GP + eps + 1)
	}
	if w.inProgSince >= 0 {
		add(w.inProgSince + w.c.GP + eps + 1)
	}
	if w.pendSince >= 0 {
		add(w.pendSince + w.pendBound(w.pendState) + 1)
	}
	sort.Slice(cand, func(i, j int) bool { return cand[i] < cand[j] })
	var out []time.Duration
	for _, t := range cand {
		if len(out) == 0 || out[len(out)-1] != t {
			out = append(out, t)
		}
	}
	return out
}

func (w *world) advance(d time.Duration) {
	target := w.now() + d
	for {
		now := w.now()
		if now >= target {
			break
		}
		next := target
		if in := w.instants(now, target); len(in) > 0 {
			next = in[0]
		}
		time.Sleep(next - now)
		synctest.Wait()
		w.observe("+" + (next - now).String())
	}
	w.obs["time_advances"]++
}

// observe judges everything visible at this instant. Called only after synctest.Wait.
func (w *world) observe(what string) {
	now := w.now()
	role := w.fc.CurrentRole()
	state := w.fc.State()
	i, c, cn, fbk := w.fc.Stats()
	monHealthy := w.hm.IsPartnerHealthy()
	w.trace = append(w.trace, traceRec{now, what, state, role, monHealthy, [4]uint64{i, c, cn, fbk}})

	w.mu.Lock()
	cbs := w.cbs
	evs := w.evs
	rdown := append([]ival(nil), w.rdown...)
	w.mu.Unlock()

	// new callback invocations
	cbFrom := w.cbSeen
	for k := cbFrom; k < len(cbs); k++ {
		r := cbs[k]
		if r.fail {
			w.obs["callback_failures_observed"]++
		} else {
			w.obs["callback_ok_observed"]++
		}
		if r.seen == r.role && w.role != r.role {
			w.violation(compCtl, ruleCallback, "role-already-changed-inside-callback",
				fmt.Sprintf("CurrentRole() read inside the role-change callback(%s) at t=%v already returned %s", r.role, r.at, r.seen))
		}
	}
	w.cbSeen = len(cbs)

	// new events
	newRoleEv := 0
	for k := w.evSeen; k < len(evs); k++ {
		e := evs[k]
		w.obs["event_"+string(e.typ)]++
		switch e.typ {
		case ha.FailoverEventRoleChanged:
			newRoleEv++
		case ha.FailoverEventCompleted:
			newRoleEv++
			w.completedEv++
		case ha.FailoverEventFailbackCompleted:
			w.fbCompleteEv++
		case ha.FailoverEventCanceled:
			w.canceledEv++
		}
	}
	w.evSeen = len(evs)

	// --- role changes in this window (previous observation, now]. Polling sees the net change only;
	// a round trip within one window (failback and forced promotion at the same virtual instant) is
	// reconstructed from the callback log, and believed only if the controller also emitted
	// role-change events in the window.
	type flip struct {
		to ha.Role
		lo time.Duration
	}
	var flips []flip
	cur := w.role
	var sim []flip
	for k := cbFrom; k < len(cbs); k++ {
		if r := cbs[k]; !r.fail && r.role != cur {
			sim = append(sim, flip{r.role, r.at})
			cur = r.role
		}
	}
	switch {
	case cur == role && (role != w.role || len(sim) == 0 || newRoleEv > 0):
		flips = sim
		if len(sim) > 1 {
			w.obs["windows_with_several_role_changes"]++
		}
	case role != w.role:
		// --- clause: role changes only after a callback invocation returned nil
		idx, failed := -1, false
		for k := cbFrom; k < len(cbs); k++ {
			if cbs[k].role == role {
				if !cbs[k].fail {
					idx = k
					break
				}
				failed = true
			}
		}
		lo := w.lastObs
		if idx < 0 {
			class := "no-callback-invocation"
			if failed {
				class = "callback-returned-error"
			}
			w.violation(compCtl, ruleCallback, class, fmt.Sprintf("reported role changed %s->%s at t∈(%v,%v] without a successful role-change callback for %s in that window", w.role, role, w.lastObs, now, role))
		} else {
			lo = cbs[idx].at
		}
		flips = []flip{{role, lo}}
	}
	for _, f := range flips {
		if f.to == ha.RoleActive {
			w.promotions++
			w.obs["promotions_observed"]++
			w.judgePromotion(f.lo, now, rdown)
			w.ffCredit = 0 // a ForceFailover justifies one promotion
		} else {
			w.failbacks++
			w.obs["failbacks_observed"]++
			w.judgeFailback(f.lo, now, monHealthy)
			w.fbCredit = 0
		}
	}
	w.role = role

	// --- clause: #completed events = #promotions, each exactly once
	if w.completedEv != w.promotions {
		class := "completed-event-missing"
		if w.completedEv > w.promotions {
			class = "completed-event-without-promotion-or-duplicated"
		}
		w.violation(compCtl, ruleOnce, class, fmt.Sprintf("at t=%v: %d promotions (standby->active role changes) observed but %d 'completed' events emitted", now, w.promotions, w.completedEv))
		w.completedEv = w.promotions // report each discrepancy once
	}
	if int(c) != w.promotions {
		if !w.stuckStat("completed") {
			w.violation(compCtl, ruleOnce, "stats-completed-differs-from-promotions", fmt.Sprintf("at t=%v: Stats().completed=%d but %d promotions observed", now, c, w.promotions))
		}
	}
	if w.fbCompleteEv != w.failbacks || int(fbk) != w.failbacks {
		w.obs["obs_failback_event_or_stat_mismatch"]++ // not part of the statement: observation only
		if os.Getenv("C14_DEBUG") != "" && w.obs["obs_failback_event_or_stat_mismatch"] == 1 {
			b, _ := json.MarshalIndent(w.witness(), "", " ")
			fmt.Printf("DEBUG failback mismatch events=%d stat=%d observed=%d\n%s\n", w.fbCompleteEv, fbk, w.failbacks, b)
		}
	}
	_ = i // 'initiated' is not constrained by the statement; its final value is reported as an observation in flush

	// --- clause: no stuck in-progress
	if state == ha.FailoverStateInProgress {
		w.obs["in_progress_observations"]++
		if w.inProgSince < 0 {
			w.inProgSince = now
			w.inProgStart = w.lastObs // the episode began after the previous observation
		}
		if now-w.inProgSince > w.c.GP+eps && !w.stuckFlagged {
			w.stuckFlagged = true
			w.obs["stuck_in_progress_episodes"]++
			// class: was an operator ForceFailover accepted during this episode (or as the step that began it)?
			comp, class := compCtl+".executeFailover", "after-failover-timer-without-force-failover"
			if w.lastFF >= 0 && w.lastFF >= w.inProgStart {
				comp, class = compCtl+".ForceFailover", "after-accepted-force-failover"
			}
			w.violation(comp, ruleStuck, class,
				fmt.Sprintf("State()=in_progress continuously from t=%v to t=%v (> GracePeriod %v + ε) with no input in between and role still %s: no transition is pending", w.inProgSince, now, w.c.GP, role))
		}
	} else {
		w.inProgSince = -1
		w.stuckFlagged = false
	}

	// --- same clause for the other transitional states: "pending" means a failover timer is running,
	// "failback_pending" that a failback timer or the failback's drain period is running. With no input
	// the transition they announce is due within FailoverDelay resp. FailbackDelay+GracePeriod; a
	// controller that still reports the state after that (+ε) has no transition pending.
	if state == ha.FailoverStatePending || state == ha.FailoverStateFailbackPending {
		if w.pendSince < 0 || w.pendState != state {
			w.pendState, w.pendSince, w.pendBegan, w.pendStartOp, w.pendFlagged = state, now, w.lastObs, w.opIdx, false
			w.obs["episodes_"+state.String()]++
		}
		w.obs[state.String()+"_observations"]++
		if bound := w.pendBound(state); now-w.pendSince > bound && !w.pendFlagged {
			w.pendFlagged = true
			w.obs["stuck_"+state.String()+"_episodes"]++
			after := func(op int) bool { return op > w.pendStartOp || (w.concurrent && op == w.pendStartOp) }
			var comp, class, what string
			if state == ha.FailoverStatePending {
				comp, class, what = compCtl+".handleHealthEvent", "pending-without-operator-command", fmt.Sprintf("FailoverDelay %v", w.c.FD)
				if after(w.lastFFOp) || after(w.lastFBTryOp) {
					comp, class = compCtl+".ForceFailover", "pending-after-operator-command"
					if !after(w.lastFFOp) {
						comp = compCtl + ".ForceFailback"
					}
				}
			} else {
				comp, class, what = compCtl+".executeFailback", "failback-pending-without-operator-command", fmt.Sprintf("FailbackDelay %v + GracePeriod %v", w.c.FBD, w.c.GP)
				switch {
				case after(w.lastFBOp):
					comp, class = compCtl+".ForceFailback", "failback-pending-after-accepted-force-failback"
				case after(w.lastFFOp):
					comp, class = compCtl+".ForceFailover", "failback-pending-after-force-failover-attempt"
				}
			}
			w.violation(comp, ruleStuck, class,
				fmt.Sprintf("State()=%s continuously from t=%v to t=%v (> %s + ε) with no input in between, role %s, partner healthy=%v by the thresholds: no transition is pending (the timer this state announces never fired or was stopped)", state, w.pendSince, now, what, role, w.healthy))
		}
	} else {
		if w.pendSince >= 0 {
			w.obs["episodes_"+w.pendState.String()+"_resolved"]++
			if w.lastFBOp > w.pendStartOp || w.lastFFOp > w.pendStartOp || w.lastFBTryOp > w.pendStartOp {
				w.obs["episodes_"+w.pendState.String()+"_resolved_after_operator_command_inside"]++
			}
		}
		w.pendSince = -1
		w.pendFlagged = false
	}

	if state != ha.FailoverStateNormal {
		w.leftNormal = true
	}
	if state == ha.FailoverStateNormal && w.state == ha.FailoverStatePending && role == ha.RoleStandby {
		w.obs["pending_cancelled_by_recovery"]++
	}
	sk := fmt.Sprintf("%s/%s/h=%v", state, role, monHealthy)
	w.statesSeen[sk] = true
	if state != w.state {
		w.transSeen[w.state.String()+">"+state.String()] = true
	}
	w.state = state
	w.lastObs = now
}

// pendBound: how long a transitional state may last with no input before the transition it announces is overdue.
func (w *world) pendBound(s ha.FailoverState) time.Duration {
	if s == ha.FailoverStateFailbackPending {
		return w.c.FBD + w.c.GP + eps
	}
	return w.c.FD + eps
}

// stuckStat reports a stats discrepancy once per world.
func (w *world) stuckStat(k string) bool {
	if w.obs["_flag_"+k] > 0 {
		return true
	}
	w.obs["_flag_"+k] = 1
	return false
}

func (w *world) judgePromotion(lo, hi time.Duration, rdown []ival) {
	if justified(w.mdown, lo, hi, w.c) {
		w.obs["promotions_justified_by_sustained_down"]++
		// observation (not a violation of the statement): partner recovered during the drain period
		if w.healthy {
			w.obs["obs_promotions_completed_after_partner_recovered_during_grace"]++
		}
		return
	}
	if w.ffCredit > 0 {
		w.obs["promotions_justified_by_force_failover"]++
		return
	}
	if justified(rdown, lo, hi, w.c) {
		w.violation(compMon, rulePromote, "monitor-report-disagrees-with-thresholds",
			fmt.Sprintf("promotion at t∈[%v,%v] follows the monitor's partner-down report, but by the configured thresholds the partner was not down continuously for FailoverDelay: model intervals %v, reported %v", lo, hi, w.mdown, rdown))
		return
	}
	class := "no-partner-down-at-all"
	if n := len(w.mdown); n > 0 {
		iv := w.mdown[n-1]
		switch {
		case iv.d+w.c.FD > hi:
			class = "promoted-before-delay-elapsed"
			if !iv.open {
				class = "promoted-after-recovery-within-delay"
			}
		case iv.d+w.c.FD > iv.end():
			class = "promoted-after-recovery-within-delay"
		default:
			class = "promoted-long-after-recovery"
		}
	}
	w.violation(compCtl, rulePromote, class,
		fmt.Sprintf("role standby->active at t∈[%v,%v] without ForceFailover, but no interval in which the partner was down continuously for FailoverDelay=%v justifies it (down intervals by thresholds: %v)", lo, hi, w.c.FD, w.mdown))
}

func (w *world) judgeFailback(lo, hi time.Duration, monHealthy bool) {
	if w.healthy {
		w.obs["failbacks_while_partner_healthy"]++
		return
	}
	iv := w.mdown[len(w.mdown)-1] // open interval: partner is down now
	if iv.d >= lo {
		// went down at the very instant of the role change: some order of the two is fine
		w.obs["failbacks_concurrent_with_partner_down"]++
		return
	}
	if w.fbCredit > 0 {
		w.obs["failbacks_justified_by_force_failback"]++
		return
	}
	if monHealthy {
		w.violation(compMon, ruleFailback, "monitor-report-disagrees-with-thresholds",
			fmt.Sprintf("failback at t∈[%v,%v] while the monitor reports healthy, but by the configured thresholds the partner has been down since %v", lo, hi, iv.d))
		return
	}
	class := "partner-down-before-failback-decision"
	if iv.d >= lo-w.c.GP {
		class = "partner-went-down-during-grace-period"
	}
	w.violation(compCtl+".executeFailback", ruleFailback, class,
		fmt.Sprintf("role active->standby at t∈[%v,%v] while the partner is down (since t=%v, monitor reports healthy=%v): the node gave up the active role to an unhealthy partner", lo, hi, iv.d, monHealthy))
}

// fingerprint: everything that can influence the future of the controller or of the oracle.
func (w *world) fingerprint() string {
	now := w.now()
	age := func(t, cap time.Duration) string {
		if a := now - t; a <= cap {
			return a.String()
		}
		return "-"
	}
	var b strings.Builder
	w.mu.Lock()
	fn := w.failNext
	w.mu.Unlock()
	fmt.Fprintf(&b, "%s|%s|%v|%v|%d|%d|%v|%v|%v|", w.fc.State(), w.fc.CurrentRole(), w.hm.IsPartnerHealthy(), w.healthy, min(w.cf, w.c.FT), min(w.cs, w.c.RT), fn, w.ffCredit > 0, w.fbCredit > 0)
	for k := len(w.mdown) - 1; k >= 0 && k >= len(w.mdown)-2; k-- {
		iv := w.mdown[k]
		fmt.Fprintf(&b, "d%s", age(iv.d, w.c.FD+w.c.GP+time.Second))
		if !iv.open {
			fmt.Fprintf(&b, "u%s", age(iv.e, w.c.FBD+w.c.GP+time.Second))
		}
		b.WriteByte('|')
	}
	fo, fb := w.fc.VerifC14Deadlines()
	rem := func(t time.Time) string {
		if t.IsZero() {
			return "-"
		}
		if r := t.Sub(w.t0) - now; r > 0 {
			return r.String()
		}
		return "-"
	}
	fmt.Fprintf(&b, "ph%v|fo%s|fb%s|ip%v|nv%d", now%time.Second, rem(fo), rem(fb), w.inProgSince >= 0, min(w.nViol, 1))
	return b.String()
}

// drain lets everything pending play out and be judged.
func (w *world) drain() {
	w.opsDone = append(w.opsDone, "[drain]")
	w.advance(w.c.GP + 2*eps)
	w.advance(w.c.FD + w.c.FBD + 2*w.c.GP + 2*time.Second)
	// quiescence: virtual time has run past every configured delay with no input and the partner's
	// health unchanged; whatever was pending had to happen by now
	state, role := w.fc.State(), w.fc.CurrentRole()
	w.obs["quiescent_ends_judged"]++
	w.endKey = fmt.Sprintf("%s/%s/partner_healthy=%v", state, role, w.healthy)
	w.obs["quiescent_end_"+w.endKey]++
	if state != ha.FailoverStateNormal && state != ha.FailoverStateComplete && !w.pendFlagged && !w.stuckFlagged {
		w.violation(compCtl, ruleStuck, "transitional-state-at-quiescence",
			fmt.Sprintf("State()=%s at t=%v, after FailoverDelay+FailbackDelay+3·GracePeriod+2s of virtual time with no input: nothing is pending any more", state, w.now()))
	}
	if state == ha.FailoverStateComplete && role == ha.RoleActive && w.healthy && w.c.Failback {
		// not part of the statement (failback is constrained by "only while healthy", never required)
		w.obs["obs_quiescent_active_with_healthy_partner_and_failback_enabled"]++
	}
}

type result struct {
	promos     int
	fbs        int
	finished   bool
	fp         string
	leftNormal bool
	nViol      int
	end        string
	mark       string
}

func (w *world) flush(kind string) {
	for k, n := range w.obs {
		if strings.HasPrefix(k, "_") {
			continue
		}
		col.Count(k, n)
	}
	for s := range w.statesSeen {
		col.Distinct("controller_states(state/role/monitor-health)", s)
	}
	for s := range w.transSeen {
		col.Distinct("state_transitions", s)
	}
	col.Count("observations_judged", len(w.trace))
	if n := len(w.trace); n > 0 {
		// observation only: Stats().initiated against what actually happened
		st := w.trace[n-1].st
		col.Count("obs_stats_initiated_total", int(st[0]))
		col.Count("obs_stats_canceled_total", int(st[2]))
		col.Count("obs_canceled_events_total", w.canceledEv)
	}
	col.Count(kind+"_sequences", 1)
}

// runSeq runs one sequential sequence in its own bubble.
func runSeq(t *testing.T, c cfgT, ops []op, kind string) result {
	var res result
	id := wdEnter(c.Name + ": " + opsString(ops))
	defer wdLeave(id)
	caseBegin()
	defer caseEnd()
	// deferred: testing ends the calling goroutine (FailNow) if the race detector reported meanwhile
	defer func() {
		if !res.finished {
			harnessFailed.Store(true)
			col.Inconclusive("sequence", "case did not run to completion: "+c.Name+": "+opsString(ops))
			return
		}
		col.Eval()
		if res.leftNormal {
			col.Nontrivial(c.Name + "|" + opsString(ops))
		}
	}()
	synctest.Test(t, func(t *testing.T) {
		w := newWorld(c)
		synctest.Wait()
		w.observe("start")
		for _, o := range ops {
			w.step(o)
		}
		res.fp = w.fingerprint()
		p0, f0, c0 := w.promotions, w.failbacks, w.cbSeen
		w.drain()
		// an armed timer and a stopped one look the same until time passes: what the drain revealed
		// (end state, role changes and callback invocations during it) is part of the fingerprint
		res.fp += fmt.Sprintf("=>%s/p%d/f%d/c%d", w.endKey, w.promotions-p0, w.failbacks-f0, w.cbSeen-c0)
		w.close()
		res.leftNormal = w.leftNormal
		res.nViol = w.nViol
		res.promos, res.fbs = w.promotions, w.failbacks
		res.end, res.mark = w.endKey, w.markKey
		w.flush(kind)
		res.finished = true
	})
	return res
}

// parallelRun evaluates n jobs on all cores, each worker with its own *testing.T.
func parallelRun(t *testing.T, n int, job func(t *testing.T, i int)) {
	workers := runtime.NumCPU()
	if workers > n {
		workers = n
	}
	if workers < 1 {
		return
	}
	var next int64 = -1
	var wg sync.WaitGroup
	for k := 0; k < workers; k++ {
		wg.Add(1)
		go func(k int) {
			defer wg.Done()
			t.Run(fmt.Sprintf("w%d", k), func(wt *testing.T) {
				for {
					i := int(atomic.AddInt64(&next, 1))
					if i >= n {
						return
					}
					if isChild {
						job(wt, i)
						continue
					}
					// under -race the testing package fails (FailNow) whatever test is running when the
					// detector reports; give every case its own T so that the worker goes on. Race
					// reports are judged from the detector's log (JudgeRaces), not from test status.
					wt.Run("c", func(ct *testing.T) { job(ct, i) })
				}
			})
		}(k)
	}
	wg.Wait()
}

// ---------------------------------------------------------------- configurations

func bfsConfigs() []cfgT {
	return []cfgT{
		{Name: "A", FD: 3 * time.Second, FBD: 5 * time.Second, GP: 2 * time.Second, FT: 1, RT: 1, Failback: true},
		{Name: "B", FD: 2500 * time.Millisecond, FBD: 4500 * time.Millisecond, GP: 1500 * time.Millisecond, FT: 2, RT: 2, Failback: true},
		{Name: "C-nograce", FD: 2 * time.Second, FBD: 3 * time.Second, GP: 0, FT: 1, RT: 1, Failback: true},
		{Name: "D-defaults", FD: 10 * time.Second, FBD: 30 * time.Second, GP: 5 * time.Second, FT: 3, RT: 2, Failback: true},
		{Name: "E-nofailback", FD: 3 * time.Second, FBD: 5 * time.Second, GP: 2 * time.Second, FT: 1, RT: 1, Failback: false},
	}
}

func randomConfig(rng *rand.Rand, i int) cfgT {
	ms := func(lo, hi int) time.Duration { return time.Duration(lo+rng.IntN(hi-lo+1)) * time.Millisecond }
	c := cfgT{Name: fmt.Sprintf("R%d", i), FD: ms(200, 6000), FBD: ms(200, 8000), GP: ms(0, 3000), FT: 1 + rng.IntN(3), RT: 1 + rng.IntN(3), Failback: rng.IntN(8) != 0}
	if rng.IntN(4) == 0 {
		c.GP = 0
	}
	if rng.IntN(3) == 0 { // whole seconds: deadlines coincide with the 1 s control tick
		c.FD = time.Duration(1+rng.IntN(5)) * time.Second
		c.FBD = time.Duration(1+rng.IntN(6)) * time.Second
		if c.GP > 0 {
			c.GP = time.Duration(1+rng.IntN(3)) * time.Second
		}
	}
	return c
}

// ---------------------------------------------------------------- BFS with fingerprinting

func TestBFS(t *testing.T) {
	if !isChild {
		t.Skip("runs in the non-race child process")
	}
	depth := run.Pick(6, 8)
	capFrontier := run.Pick(4000, 15000)
	col.Extra("bfs_depth", depth)
	col.Extra("bfs_frontier_cap", capFrontier)
	truncated := false
	for ci, c := range bfsConfigs() {
		alpha := alphabet(c)
		seen := map[string]bool{}
		frontier := [][]op{{}}
		sampled := false
		pruned := 0
		for d := 1; d <= depth; d++ {
			var cands [][]op
			for _, f := range frontier {
				for _, a := range alpha {
					s := append(append(make([]op, 0, len(f)+1), f...), a)
					cands = append(cands, s)
				}
			}
			res := make([]result, len(cands))
			parallelRun(t, len(cands), func(wt *testing.T, i int) { res[i] = runSeq(wt, c, cands[i], "bfs") })
			var next [][]op
			for i, s := range cands {
				if res[i].nViol > 0 {
					// a sequence that already produced a witness is not extended (in the unchanged tree
					// these are the dead ends behind the listed findings); exploration effort goes to
					// the sequences on which every clause still holds
					pruned++
				} else if !seen[res[i].fp] {
					seen[res[i].fp] = true
					next = append(next, s)
				}
				if !sampled && ci < 2 && res[i].fbs > 0 && res[i].nViol == 0 {
					sampled = true
					col.Sample(map[string]any{"kind": "bfs", "config": c.String(), "ops": opsString(s), "end_fingerprint": res[i].fp})
				}
			}
			if d < depth && len(next) > capFrontier {
				truncated = true
				rng := run.SubRand("bfs-trunc", ci*100+d)
				rng.Shuffle(len(next), func(i, j int) { next[i], next[j] = next[j], next[i] })
				next = next[:capFrontier]
			}
			col.Count(fmt.Sprintf("bfs_depth%d_sequences", d), len(cands))
			frontier = next
		}
		for fp := range seen {
			col.Distinct("bfs_fingerprints", c.Name+"|"+fp)
		}
		col.Count("bfs_distinct_fingerprints", len(seen))
		col.Count("bfs_sequences_not_extended_after_witness", pruned)
	}
	col.Extra("bfs_frontier_truncated", truncated)
}

// ---------------------------------------------------------------- seeded random walks

func randomOps(rng *rand.Rand, c cfgT, n int) []op {
	ds := deltas(c)
	var ops []op
	for len(ops) < n {
		switch x := rng.IntN(100); {
		case x < 32:
			d := ds[rng.IntN(len(ds))]
			switch rng.IntN(5) {
			case 0:
				d = time.Duration(1 + rng.Int64N(int64(c.FD+c.FBD+c.GP)))
			case 1:
				d += time.Duration(rng.IntN(3)-1) * time.Millisecond
				if d <= 0 {
					d = 1
				}
			}
			ops = append(ops, op{K: "adv", D: d})
		case x < 44:
			ops = append(ops, op{K: "down"})
		case x < 56:
			ops = append(ops, op{K: "up"})
		case x < 64:
			ops = append(ops, op{K: "fail"})
		case x < 72:
			ops = append(ops, op{K: "ok"})
		case x < 77:
			ops = append(ops, op{K: "ff"})
		case x < 81:
			ops = append(ops, op{K: "fb"})
		case x < 88:
			ops = append(ops, op{K: "cbfail"})
		case x < 91:
			ops = append(ops, op{K: "cbok"})
		default:
			// flap around the delay boundary: down, almost/exactly the delay, up, then the rest
			k := []time.Duration{c.FD - 1, c.FD, c.FD - time.Millisecond, c.FD + c.GP - 1, c.FD + c.GP}[rng.IntN(5)]
			if k <= 0 {
				k = 1
			}
			ops = append(ops, op{K: "down"}, op{K: "adv", D: k}, op{K: "up"}, op{K: "adv", D: c.GP + 1})
		}
	}
	return ops
}

func TestRandomWalks(t *testing.T) {
	n := run.Pick(6000, 120000)
	stream := "walk"
	if !isChild {
		// a slice of fresh walks under the race detector
		n = run.Pick(120, 1500)
		stream = "walk-race"
	}
	type cse struct {
		c   cfgT
		ops []op
	}
	cases := make([]cse, n)
	for i := range cases {
		rng := run.SubRand(stream, i)
		c := randomConfig(rng, i)
		cases[i] = cse{c, randomOps(rng, c, 8+rng.IntN(40))}
	}
	var sampled int32
	parallelRun(t, n, func(wt *testing.T, i int) {
		r := runSeq(wt, cases[i].c, cases[i].ops, "random_walk")
		if r.promos > 0 && r.nViol == 0 && atomic.AddInt32(&sampled, 1) <= 1 {
			col.Sample(map[string]any{"kind": "random-walk", "config": cases[i].c.String(), "ops": opsString(cases[i].ops)})
		}
	})
}

// ---------------------------------------------------------------- concurrent rounds (schedules, -race)

// A round: up to six goroutines wake at the same virtual instant (optionally exactly a timer
// deadline) and each performs one action: at most one health probe burst (so the model order is
// unambiguous), operator commands, reads of every accessor, late handler registration.
func runRounds(t *testing.T, c cfgT, seedIdx int) result {
	var res result
	id := wdEnter(fmt.Sprintf("rounds %s #%d", c.Name, seedIdx))
	defer wdLeave(id)
	caseBegin()
	defer caseEnd()
	defer func() {
		if !res.finished {
			harnessFailed.Store(true)
			col.Inconclusive("concurrent-rounds", fmt.Sprintf("case %d did not run to completion", seedIdx))
			return
		}
		col.Eval()
		if res.leftNormal {
			col.Nontrivial(fmt.Sprintf("rounds|%s|%d", c.String(), seedIdx))
		}
	}()
	rng := run.SubRand("rounds", seedIdx)
	synctest.Test(t, func(t *testing.T) {
		w := newWorld(c)
		w.concurrent = true
		synctest.Wait()
		w.observe("start")
		nRounds := 6 + rng.IntN(10)
		for r := 0; r < nRounds; r++ {
			// choose the instant: 1ns from now, or exactly the next interesting instant
			now := w.now()
			target := now + 1
			if in := w.instants(now, now+c.FD+c.FBD+2*c.GP+time.Second); len(in) > 0 && rng.IntN(3) != 0 {
				target = in[rng.IntN(min(len(in), 3))]
			} else if rng.IntN(2) == 0 {
				target = now + time.Duration(1+rng.Int64N(int64(c.FD+c.GP)))
			}
			if target-1 > now {
				w.opsDone = append(w.opsDone, "+"+(target-1-now).String())
				w.advance(target - 1 - now)
			}
			// actions of this round
			var acts []string
			health := []string{"down", "up", "fail", "ok", ""}[rng.IntN(5)]
			if health != "" {
				acts = append(acts, health)
			}
			for k := rng.IntN(5); k > 0; k-- {
				acts = append(acts, []string{"ff", "fb", "read", "read", "status", "register", "cbfail"}[rng.IntN(7)])
			}
			if len(acts) == 0 {
				acts = append(acts, "read")
			}
			w.opsDone = append(w.opsDone, "{"+strings.Join(acts, ",")+"}@+1ns")
			w.opIdx++
			doneCh := make(chan struct{}, len(acts))
			var mu sync.Mutex // protects the model fields touched by apply()
			for _, a := range acts {
				a := a
				go func() {
					defer func() { doneCh <- struct{}{} }()
					time.Sleep(1) // wake exactly at target, together with any timer due then
					switch a {
					case "down", "up", "fail", "ok":
						// model first (single health actor per round), then the real monitor
						mu.Lock()
						n := 1
						fail := a == "down" || a == "fail"
						if a == "down" {
							n = c.FT
						} else if a == "up" {
							n = c.RT
						}
						for i := 0; i < n; i++ {
							w.modelProbe(fail)
						}
						w.obs["probe_"+a]++
						if w.inProgSince >= 0 {
							w.inProgSince = w.now()
						}
						if w.pendSince >= 0 {
							w.pendSince = w.now()
						}
						mu.Unlock()
						for i := 0; i < n; i++ {
							if fail {
								w.hm.VerifC14RecordFailure(errors.New("probe failed"))
							} else {
								w.hm.VerifC14RecordSuccess(time.Millisecond, "partner", ha.RoleActive, 0)
							}
						}
					case "ff":
						err := w.fc.ForceFailover("operator")
						mu.Lock()
						w.obs["force_failover"]++
						if err == nil {
							w.ffCredit++
							w.lastFF = w.now()
							w.obs["force_failover_accepted"]++
						}
						if w.inProgSince >= 0 {
							w.inProgSince = w.now()
						}
						if w.pendSince >= 0 {
							w.pendSince = w.now()
						}
						w.lastFFOp = w.opIdx
						mu.Unlock()
					case "fb":
						err := w.fc.ForceFailback("operator")
						mu.Lock()
						w.obs["force_failback"]++
						w.lastFBTryOp = w.opIdx
						if err == nil {
							w.fbCredit++
							w.lastFBOp = w.opIdx
							w.obs["force_failback_accepted"]++
						}
						if w.pendSince >= 0 {
							w.pendSince = w.now()
						}
						mu.Unlock()
					case "read":
						_ = w.fc.CurrentRole()
						_ = w.fc.State()
						_, _, _, _ = w.fc.Stats()
						_ = w.fc.IsFailedOver()
						_ = w.hm.Health()
					case "status":
						_ = w.fc.Status()
						_, _, _ = w.hm.Stats()
					case "register":
						w.fc.OnFailoverEvent(func(ha.FailoverEvent) { atomic.AddInt64(&w.lateEvs, 1) })
					case "cbfail":
						w.mu.Lock()
						w.failNext = true
						w.mu.Unlock()
					}
				}()
			}
			for range acts {
				<-doneCh
			}
			synctest.Wait()
			w.lastOp = "round"
			w.observe("round")
			col.Count("concurrent_rounds", 1)
			col.Count("concurrent_actions", len(acts))
		}
		res.fp = w.fingerprint()
		w.drain()
		w.close()
		res.leftNormal = w.leftNormal
		res.nViol = w.nViol
		res.promos, res.fbs = w.promotions, w.failbacks
		if res.promos > 0 && res.nViol == 0 && atomic.AddInt32(&roundsSampled, 1) <= 1 {
			col.Sample(map[string]any{"kind": "concurrent-rounds", "config": c.String(), "rounds": strings.Join(w.opsDone, " "), "promotions": res.promos, "failbacks": res.fbs})
		}
		w.flush("concurrent")
		col.Distinct("concurrent_round_schedules", c.String()+strings.Join(w.opsDone, " "))
		res.finished = true
	})
	return res
}

var roundsSampled int32

func TestConcurrentRounds(t *testing.T) {
	n := run.Pick(600, 8000)
	var completed int64
	parallelRun(t, n, func(wt *testing.T, i int) {
		rng := run.SubRand("rounds-cfg", i)
		c := randomConfig(rng, i)
		if i%3 == 0 {
			c = bfsConfigs()[i/3%len(bfsConfigs())]
		}
		defer atomic.AddInt64(&completed, 1)
		runRounds(wt, c, i)
	})
	if int(completed) != n {
		harnessFailed.Store(true)
		col.Inconclusive("concurrent-rounds", fmt.Sprintf("only %d of %d cases ran to completion", completed, n))
	}
}
