package c14

import (
	"fmt"
	"sync"
	"testing"
	"time"
)

// Scripted cases: operator commands at every point of every timer window.
//
// A window is a stretch of virtual time during which the controller has something scheduled (the
// failover timer, the drain period of a promotion, the failback timer, the drain period of a
// failback) or has just had something cancelled or failed. For each configuration, window, offset
// inside the window and command group the sequence is
//
//	prefix that opens the window | +offset | commands | (partner's health unchanged) drain far past every delay
//
// and it is judged by the same clauses as every other sequence (observe + the quiescence check in
// drain). Nothing here is an expectation about a particular input: the cases only make sure that
// these classes are in the quick tier whatever the BFS depth.

type window struct {
	name   string
	prefix []op
	length time.Duration
}

func adv(d time.Duration) []op {
	if d <= 0 {
		return nil
	}
	return []op{{K: "adv", D: d}}
}

func cat(parts ...[]op) []op {
	var out []op
	for _, p := range parts {
		out = append(out, p...)
	}
	return out
}

func windows(c cfgT) []window {
	down, up, ff, cbfail := []op{{K: "down"}}, []op{{K: "up"}}, []op{{K: "ff"}}, []op{{K: "cbfail"}}
	promoted := cat(down, adv(c.FD), adv(c.GP))
	return []window{
		{"failover-timer", down, c.FD},
		{"failover-grace", cat(down, adv(c.FD)), c.GP},
		{"forced-failover-grace", ff, c.GP},
		{"after-cancelled-failover-timer", cat(down, adv(c.FD/2), up), c.FD},
		{"after-failed-promotion", cat(cbfail, down, adv(c.FD), adv(c.GP)), c.FD},
		{"failback-timer", cat(promoted, up), c.FBD},
		{"failback-grace", cat(promoted, up, adv(c.FBD)), c.GP},
		{"failback-timer-after-forced-promotion", cat(ff, adv(c.GP), down, up), c.FBD},
		{"failback-timer-rearmed-after-relapse", cat(promoted, up, adv(c.FBD/2), down, adv(time.Second), up), c.FBD},
		{"after-failed-failback", cat(promoted, up, cbfail, adv(c.FBD), adv(c.GP)), c.FBD},
		{"promoted-partner-still-down", promoted, c.FBD},
	}
}

type offset struct {
	class string
	d     time.Duration
}

func offsets(l time.Duration, rnd []time.Duration) []offset {
	if l <= 0 {
		return []offset{{"start", 0}}
	}
	out := []offset{{"start", 0}, {"start+1ns", 1}, {"middle", l / 2}, {"end-1ns", l - 1}, {"end", l}, {"end+1ns", l + 1}}
	for _, r := range rnd {
		out = append(out, offset{"random-inside", 1 + r%l})
	}
	seen := map[time.Duration]bool{}
	var ded []offset
	for _, o := range out {
		if !seen[o.d] {
			seen[o.d] = true
			ded = append(ded, o)
		}
	}
	return ded
}

type cmdGroup struct {
	name string
	ops  []op
}

func cmdGroups() []cmdGroup {
	ff, fb, cbf, ns := op{K: "ff"}, op{K: "fb"}, op{K: "cbfail"}, op{K: "adv", D: 1}
	return []cmdGroup{
		{"none", nil}, // the window left alone: the reference behaviour of the same prefix
		{"ff", []op{ff}},
		{"fb", []op{fb}},
		{"ff,ff", []op{ff, ff}},
		{"fb,fb", []op{fb, fb}},
		{"ff,fb", []op{ff, fb}},
		{"fb,ff", []op{fb, ff}},
		{"fb,+1ns,fb", []op{fb, ns, fb}},
		{"ff,+1ns,ff", []op{ff, ns, ff}},
		{"ff,+1ns,fb", []op{ff, ns, fb}},
		{"cbfail", []op{cbf}}, // the transition that is pending meets a failing callback
		{"cbfail,ff", []op{cbf, ff}},
		{"cbfail,fb", []op{cbf, fb}},
		{"cbfail,ff,ff", []op{cbf, ff, ff}},
		{"cbfail,fb,fb", []op{cbf, fb, fb}},
	}
}

type scripted struct {
	c            cfgT
	win, off, cg string
	ops          []op
}

func scriptedCases(cfgs []cfgT, nRandOff int) []scripted {
	var out []scripted
	for ci, c := range cfgs {
		for wi, w := range windows(c) {
			rng := run.SubRand("scripted-offsets", ci*100+wi)
			var rnd []time.Duration
			for k := 0; k < nRandOff; k++ {
				rnd = append(rnd, time.Duration(rng.Int64N(1<<40)))
			}
			offs := offsets(w.length, rnd)
			for _, o := range offs {
				for _, g := range cmdGroups() {
					out = append(out, scripted{c, w.name, o.class, g.name, cat(w.prefix, adv(o.d), []op{{K: "mark"}}, g.ops)})
				}
			}
			// commands at two different points of the same window
			if w.length >= 4 {
				pts := [][2]time.Duration{{1, w.length / 2}, {w.length / 2, w.length - 1}, {1, w.length - 1}}
				for pi, p := range pts {
					for _, a := range []string{"ff", "fb"} {
						for _, b := range []string{"ff", "fb"} {
							out = append(out, scripted{c, w.name, fmt.Sprintf("two-points-%d", pi), a + ".." + b,
								cat(w.prefix, adv(p[0]), []op{{K: "mark"}, {K: a}}, adv(p[1]-p[0]), []op{{K: b}})})
						}
					}
				}
			}
		}
	}
	return out
}

func TestScripted(t *testing.T) {
	if !isChild {
		t.Skip("runs in the non-race child process")
	}
	cfgs := bfsConfigs()
	nr := run.Pick(6, 60)
	for i := 0; i < nr; i++ {
		c := randomConfig(run.SubRand("scripted-cfg", i), i)
		c.Name = fmt.Sprintf("S%d", i)
		cfgs = append(cfgs, c)
	}
	cases := scriptedCases(cfgs, run.Pick(1, 4))
	var mu sync.Mutex
	ends := map[string]map[string]bool{} // window/offset class/config -> end states over the command groups
	parallelRun(t, len(cases), func(wt *testing.T, i int) {
		k := cases[i]
		r := runSeq(wt, k.c, k.ops, "scripted")
		if !r.finished {
			return
		}
		col.Count("scripted_window_"+k.win, 1)
		col.Count("scripted_commands_"+k.cg, 1)
		col.Distinct("scripted_case_classes(window/offset/commands)", k.win+"/"+k.off+"/"+k.cg)
		col.Distinct("scripted_window_entry_states(window@offset=state/role)", k.win+"@"+k.off+"="+r.mark)
		col.Distinct("scripted_outcomes(window/commands=>end)", k.win+"/"+k.cg+"=>"+r.end)
		if r.mark != "normal/standby" {
			// the commands met a controller that had something scheduled or had left the normal state
			col.Count("scripted_commands_issued_outside_normal_state", 1)
		}
		mu.Lock()
		key := k.c.Name + "/" + k.win + "/" + k.off
		if ends[key] == nil {
			ends[key] = map[string]bool{}
		}
		ends[key][r.end] = true
		mu.Unlock()
	})
	// observation: in how many (configuration, window, offset) the operator commands changed where the
	// controller ends up compared with the other command groups (not judged)
	n := 0
	for _, m := range ends {
		if len(m) > 1 {
			n++
		}
	}
	col.Count("scripted_points_where_commands_change_the_outcome", n)
	col.Count("scripted_points", len(ends))
}
