package c09

// Stateful handler hammer, part 2: DHCPv4 with an existing offer / lease for the client, DHCPv6
// with an existing binding, the RADIUS CoA listener with an existing session, the HA standby with
// synced sessions (message handler and SSE stream framing).

import (
	"bytes"
	"encoding/binary"
	"encoding/json"
	"fmt"
	"math/rand/v2"
	"net"
	"net/http"
	"net/http/httptest"
	"os"
	"runtime"
	"strings"
	"sync"
	"syscall"
	"time"

	"github.com/insomniacslk/dhcp/dhcpv4"
	"go.uber.org/zap"

	"github.com/codelaboratoryltd/bng/pkg/dhcp"
	"github.com/codelaboratoryltd/bng/pkg/dhcpv6"
	"github.com/codelaboratoryltd/bng/pkg/ha"
	"github.com/codelaboratoryltd/bng/pkg/radius"
)

// ---------------------------------------------------------------------------------------------
// DHCPv4: the client already has an offer / a lease (direct or relayed with Option 82)

var gatedDHCPv4States = []string{"offered", "bound", "bound-relayed-opt82"}

var (
	dv4Sub  = &tlvSpec{tb: 1, lb: 1}
	dv4Spec = &tlvSpec{tb: 1, lb: 1, nest: map[int]nestSpec{82: {0, dv4Sub}}}
	phIP4   = []byte{10, 240, 13, 1} // placeholder: the address the server offered to / leased to the client
	phCID   = []byte("CID-F00D")     // placeholder: the circuit-id the client's lease is indexed by
)

func bootp(op, hlen byte, xid uint32, ciaddr, giaddr []byte, chaddr []byte, options []byte) []byte {
	b := make([]byte, 236)
	b[0], b[1], b[2] = op, 1, hlen
	binary.BigEndian.PutUint32(b[4:8], xid)
	copy(b[12:16], ciaddr)
	copy(b[24:28], giaddr)
	copy(b[28:44], chaddr)
	b = append(b, 99, 130, 83, 99)
	return append(b, options...)
}

func dv4Relay() tlvItem {
	return tlvItem{t: 82, v: dv4Sub.ser([]tlvItem{{t: 1, v: phCID, lie: -1}, {t: 2, v: []byte{0, 1, 2, 3, 4, 5}, lie: -1}, it(9, 0, 0, 0x0d, 0xe9, 2, 'x', 'y')}), lie: -1}
}

// dv4Canon lists well-formed option lists of a client that holds the placeholder address.
func dv4Canon(serverID []byte) map[byte][][]tlvItem {
	cid := tlvItem{t: 61, v: append([]byte{1}, phMAC...), lie: -1}
	host := tlvItem{t: 12, v: []byte("cpe-f00d"), lie: -1}
	prl := it(55, 1, 3, 6, 15, 51, 54)
	req := tlvItem{t: 50, v: phIP4, lie: -1}
	sid := tlvItem{t: 54, v: serverID, lie: -1}
	return map[byte][][]tlvItem{
		1: {{it(53, 1), req, cid, host, prl, it(57, 0x05, 0xdc)}, {it(53, 1), dv4Relay(), cid}},
		3: {{it(53, 3), req, sid, cid, host, prl}, {it(53, 3), cid, host, it(51, 0, 0, 0x0e, 0x10)}, {it(53, 3), req, dv4Relay()}},
		4: {{it(53, 4), req, sid, it(56, 'd', 'u', 'p')}},
		7: {{it(53, 7), sid, cid}, {it(53, 7), dv4Relay()}},
		8: {{it(53, 8), cid, prl}},
	}
}

type gatedDHCPv4 struct {
	ev       *env
	name     string
	state    string
	srv      *dhcp.Server
	conn     *capConn
	peer     *net.UDPAddr
	serverID []byte // from the server identifier option of the first OFFER
	canon    map[byte][][]tlvItem
	sys      [][]byte
	seq      int
	// the client of the current case
	mac net.HardwareAddr
	ip  net.IP
	cid []byte
}

func (g *gatedDHCPv4) relayed() bool { return g.state == "bound-relayed-opt82" }

func (g *gatedDHCPv4) legit(t dhcpv4.MessageType, mods ...dhcpv4.Modifier) *dhcpv4.DHCPv4 {
	if g.relayed() {
		o82 := dv4Sub.ser([]tlvItem{{t: 1, v: g.cid, lie: -1}, {t: 2, v: []byte{0, 1, 2, 3, 4, 5}, lie: -1}})
		mods = append(mods, dhcpv4.WithGatewayIP(net.IPv4(10, 99, 0, 1)), dhcpv4.WithOption(dhcpv4.OptGeneric(dhcpv4.OptionRelayAgentInformation, o82)))
	}
	p, err := dhcpv4.FromBytes(dhcpPkt(t, g.mac, mods...))
	if err != nil {
		panic(err)
	}
	return p
}

// call hands one parsed packet to the real handler and returns the reply it wrote, if any.
func (g *gatedDHCPv4) call(p *dhcpv4.DHCPv4) *dhcpv4.DHCPv4 {
	sent := g.conn.n
	g.srv.VerifC09HandleDHCP(g.conn, g.peer, p)
	if g.conn.n == sent {
		return nil
	}
	rep, err := dhcpv4.FromBytes(g.conn.last)
	if err != nil {
		return nil
	}
	return rep
}

// client brings a fresh client into the runner's state by the legitimate exchange.
func (g *gatedDHCPv4) client() error {
	g.seq++
	g.mac = net.HardwareAddr{0x02, 0xab, 0, byte(g.seq >> 16), byte(g.seq >> 8), byte(g.seq)}
	g.cid = []byte(fmt.Sprintf("cid-%04x", g.seq&0xffff))
	off := g.call(g.legit(dhcpv4.MessageTypeDiscover))
	if off == nil || off.MessageType() != dhcpv4.MessageTypeOffer || off.YourIPAddr.To4() == nil {
		return fmt.Errorf("no OFFER for a well-formed DISCOVER")
	}
	g.ip = off.YourIPAddr.To4()
	if g.serverID == nil {
		if sid := off.ServerIdentifier(); sid != nil {
			g.serverID = sid.To4()
		}
	}
	if g.state == "offered" {
		return nil
	}
	ack := g.call(g.legit(dhcpv4.MessageTypeRequest, dhcpv4.WithOption(dhcpv4.OptRequestedIPAddress(g.ip)), dhcpv4.WithOption(dhcpv4.OptServerIdentifier(net.IP(g.serverID)))))
	if ack == nil || ack.MessageType() != dhcpv4.MessageTypeAck {
		return fmt.Errorf("no ACK for a well-formed REQUEST of the offered address")
	}
	return nil
}

func (g *gatedDHCPv4) build(rng *rand.Rand, mt byte, options []byte, end bool, renew bool) []byte {
	if end {
		options = append(append([]byte(nil), options...), 255)
	}
	var ci, gi []byte
	if mt == 7 || mt == 8 || (mt == 3 && renew) {
		ci = phIP4
	}
	if bytes.Contains(options, phCID) || (rng != nil && rng.IntN(8) == 0) {
		gi = []byte{10, 99, 0, 1}
	}
	hlen := byte(6)
	chaddr := []byte(phMAC)
	if rng != nil {
		switch rng.IntN(24) {
		case 0:
			hlen = []byte{0, 1, 5, 7, 16, 17, 255}[rng.IntN(7)]
		case 1: // another station behind the same circuit
			chaddr = []byte{0x02, 0xee, byte(rng.Uint32()), 1, 2, 3}
		}
	}
	return bootp(1, hlen, 0x1234abcd, ci, gi, chaddr, options)
}

func (g *gatedDHCPv4) mkSys() [][]byte {
	key := "gated-dhcpv4"
	if c, ok := cpSysCache[key]; ok {
		return c
	}
	var out [][]byte
	seen := map[string]bool{}
	add := func(b []byte) {
		if k := string(b); !seen[k] && len(b) <= maxInput {
			seen[k] = true
			out = append(out, b)
		}
	}
	for _, mt := range []byte{3, 7, 4, 1, 8} {
		for _, canon := range g.canon[mt] {
			for k, bl := range dv4Spec.blobs(canon, maxInput-260) {
				add(g.build(nil, mt, bl, true, k%2 == 1))
			}
			full := dv4Spec.ser(canon)
			add(g.build(nil, mt, full, false, false)) // no end option
			for _, hl := range []byte{0, 1, 5, 7, 16, 17, 255} {
				b := g.build(nil, mt, full, true, true)
				b[2] = hl
				add(b)
			}
			whole := g.build(nil, mt, full, true, false)
			for n := 236; n < len(whole); n++ { // cut inside the option area
				add(append([]byte(nil), whole[:n]...))
			}
		}
	}
	// message types without a handler, missing / repeated / over-long message type option
	for _, mtOpt := range [][]byte{nil, {53, 0}, {53, 1, 0}, {53, 1, 2}, {53, 1, 5}, {53, 1, 6}, {53, 1, 9}, {53, 1, 255}, {53, 2, 3, 3}, {53, 1, 3, 53, 1, 7}} {
		rest := dv4Spec.ser(g.canon[3][0][1:])
		add(g.build(nil, 3, append(append([]byte(nil), mtOpt...), rest...), true, false))
	}
	rng := rand.New(rand.NewPCG(0xc09, h64(key)))
	rng.Shuffle(len(out), func(i, j int) { out[i], out[j] = out[j], out[i] })
	cpSysCache[key] = out
	return out
}

func (g *gatedDHCPv4) Next(i int, rng *rand.Rand) []byte {
	if i < len(g.sys) {
		return append([]byte(nil), g.sys[i]...)
	}
	mt := []byte{3, 3, 3, 7, 7, 4, 4, 1, 8}[rng.IntN(9)]
	cs := g.canon[mt]
	b := g.build(rng, mt, dv4Spec.hostile(rng, cs[rng.IntN(len(cs))], maxInput-260), rng.IntN(8) != 0, rng.IntN(2) == 0)
	if rng.IntN(10) == 0 {
		b = mutate(rng, b, 0, g.sys[rng.IntN(len(g.sys))])
	}
	return b
}

func (g *gatedDHCPv4) resolve(in []byte) []byte {
	b := bytes.ReplaceAll(in, phMAC, g.mac)
	b = bytes.ReplaceAll(b, phIP4, g.ip)
	return bytes.ReplaceAll(b, phCID, g.cid)
}

// ready brings a fresh client into the state; when the (finite) address pool has been used up by
// the stream so far - declined addresses stay quarantined - it continues on a fresh server and
// reports only an exchange that fails on a fresh server.
func (g *gatedDHCPv4) ready() error {
	err := g.client()
	if err == nil {
		return nil
	}
	srv, _, e2 := newDHCPServer(false)
	if e2 != nil {
		return e2
	}
	g.srv = srv
	g.ev.Count("gated/"+g.name+"/"+g.state+"/fresh-server-after-pool-exhaustion", 1)
	return g.client()
}

func (g *gatedDHCPv4) Feed(in []byte) outcome {
	if _, err := dhcpv4.FromBytes(in); err != nil { // refused by the library in front of the handler, whatever the placeholders stand for
		gateCount(g.ev, g.name, g.state, gFraming)
		return outcome{class: gFraming}
	}
	if err := g.ready(); err != nil {
		g.ev.Note("listener-alive", "no-lease-by-well-formed-exchange", "the DHCPv4 handler no longer brings a client to state "+g.state+" by the legitimate exchange: "+err.Error(), in, "")
		return outcome{class: "setup-failed"}
	}
	req, err := dhcpv4.FromBytes(exact(g.resolve(in)))
	if err != nil {
		gateCount(g.ev, g.name, g.state, gFraming)
		return outcome{class: gFraming}
	}
	leases, st0 := g.srv.ActiveLeases(), g.srv.Stats()
	rep := g.call(req)
	st1 := g.srv.Stats()
	class := gReject
	if rep != nil || g.srv.ActiveLeases() != leases || st0["releases_total"] != st1["releases_total"] || st0["naks_total"] != st1["naks_total"] {
		class = gPassed
	}
	gateCount(g.ev, g.name, g.state, class)
	o := outcome{class: class, nontriv: class == gPassed}
	rt := "none"
	if rep != nil {
		rt = rep.MessageType().String()
	}
	o.dist = map[string]string{"gated_dhcpv4_state_x_msgtype_x_effect": fmt.Sprintf("%s/%s/hlen%d/relay=%v/opt82=%v->reply=%s/leases%+d", g.state, req.MessageType(), len(req.ClientHWAddr), !req.GatewayIPAddr.IsUnspecified(), req.Options.Has(dhcpv4.OptionRelayAgentInformation), rt, g.srv.ActiveLeases()-leases)}
	// still usable: the client renews (or asks again) and then releases what it holds
	g.call(g.legit(dhcpv4.MessageTypeRequest, dhcpv4.WithClientIP(g.ip)))
	g.call(g.legit(dhcpv4.MessageTypeRequest, dhcpv4.WithOption(dhcpv4.OptRequestedIPAddress(g.ip))))
	g.call(g.legit(dhcpv4.MessageTypeRelease, dhcpv4.WithClientIP(g.ip)))
	return o
}

func (g *gatedDHCPv4) Close() {}

func gatedDHCPv4Entry() *entry {
	name := "gated:dhcp.Server.handleDHCP"
	per := func(thorough bool) int {
		if thorough {
			return 20000
		}
		return 2800
	}
	return &entry{
		name: name, comp: "dhcp.Server.handleDHCP", states: gatedDHCPv4States, quick: 3 * per(false), thorough: 3 * per(true), chunk: 3500, cost: 25, // a fresh server (address pool) per chunk
		quota:     func(_ string, thorough bool) int { return per(thorough) },
		gateFloor: func(thorough bool) int { return per(thorough) / 2 },
		open: func(state string, ev *env) (runner, error) {
			srv, _, err := newDHCPServer(false)
			if err != nil {
				return nil, err
			}
			g := &gatedDHCPv4{ev: ev, name: name, state: state, srv: srv, conn: &capConn{}, peer: &net.UDPAddr{IP: net.IPv4(10, 20, 0, 99), Port: 68}}
			if err := g.client(); err != nil { // also yields the server identifier
				return nil, err
			}
			if g.serverID == nil {
				return nil, fmt.Errorf("OFFER carries no server identifier")
			}
			g.call(g.legit(dhcpv4.MessageTypeRelease, dhcpv4.WithClientIP(g.ip)))
			g.canon = dv4Canon(g.serverID)
			g.sys = g.mkSys()
			return g, nil
		},
	}
}

// ---------------------------------------------------------------------------------------------
// DHCPv6: the client already has an advertised / bound address and prefix

var gatedDHCPv6States = []string{"advertised", "bound"}

var dv6Spec = func() *tlvSpec {
	s := &tlvSpec{tb: 2, lb: 2}
	s.nest = map[int]nestSpec{dhcpv6.OptIANA: {12, s}, dhcpv6.OptIAPD: {12, s}, dhcpv6.OptIAAddr: {24, s}, dhcpv6.OptIAPrefix: {25, s}, dhcpv6.OptIATA: {4, s}}
	return s
}()

var (
	phAddr6 = net.ParseIP("2001:db8:f00d:f00d::f00d").To16() // placeholder: the address bound to the client
	phPfx6  = net.ParseIP("2001:db8:f0:d00::").To16()        // placeholder: the prefix delegated to the client
)

type gatedDHCPv6 struct {
	ev       *env
	name     string
	state    string
	srv      *dhcpv6.Server
	conn     *net.UDPConn // the server's socket
	capc     *net.UDPConn // where its replies arrive (the "client")
	from     *net.UDPAddr
	serverID []byte // from the Server Identifier option of the first ADVERTISE
	canon    map[byte][][]tlvItem
	sys      [][]byte
	seq      int
	buf      []byte
	mac      net.HardwareAddr
	addr     net.IP
	pfx      net.IP
	plen     uint8
}

func v6it(t int, v []byte) tlvItem { return tlvItem{t: t, v: v, lie: -1} }

func (g *gatedDHCPv6) duid() []byte { return append([]byte{0, 3, 0, 1}, g.mac...) }

func dv6IANA(addr []byte) tlvItem {
	v := append(be32(1), append(be32(100), be32(200)...)...)
	if addr != nil {
		ia := append(append(append([]byte(nil), addr...), be32(3600)...), be32(7200)...)
		ia = append(ia, dv6Spec.ser([]tlvItem{v6it(dhcpv6.OptStatusCode, []byte{0, 0, 'o', 'k'})})...)
		v = append(v, dv6Spec.ser([]tlvItem{v6it(dhcpv6.OptIAAddr, ia)})...)
	}
	return v6it(dhcpv6.OptIANA, v)
}

func dv6IAPD(pfx []byte, plen uint8) tlvItem {
	v := append(be32(2), append(be32(100), be32(200)...)...)
	if pfx != nil {
		p := append(append(be32(3600), be32(7200)...), plen)
		p = append(p, pfx...)
		v = append(v, dv6Spec.ser([]tlvItem{v6it(dhcpv6.OptIAPrefix, p)})...)
	}
	return v6it(dhcpv6.OptIAPD, v)
}

func dv6Msg(t byte, options []byte) []byte {
	return append([]byte{t, 0xc0, 0x90, 0x01}, options...)
}

// recvReplies drains (without blocking) what the server wrote to the client socket.
func (g *gatedDHCPv6) recvReplies() []*dhcpv6.Message {
	var out []*dhcpv6.Message
	rc, err := g.capc.SyscallConn()
	if err != nil {
		return nil
	}
	for {
		n := -1
		rc.Read(func(fd uintptr) bool {
			m, _, e := syscall.Recvfrom(int(fd), g.buf, syscall.MSG_DONTWAIT)
			if e == nil {
				n = m
			}
			return true // never wait: a write to a local UDP socket has been queued when it returns
		})
		if n < 0 {
			return out
		}
		if m, err := dhcpv6.ParseMessage(append([]byte(nil), g.buf[:n]...)); err == nil {
			out = append(out, m)
		}
	}
}

func (g *gatedDHCPv6) call(raw []byte) ([]*dhcpv6.Message, bool) {
	msg, err := dhcpv6.ParseMessage(exact(raw)) // what receiveLoop does with a datagram
	if err != nil {
		return nil, false
	}
	g.srv.VerifC09HandleMessage(msg, g.from)
	return g.recvReplies(), true
}

func (g *gatedDHCPv6) client() error {
	g.seq++
	g.mac = net.HardwareAddr{0x02, 0xac, 0, byte(g.seq >> 16), byte(g.seq >> 8), byte(g.seq)}
	g.addr, g.pfx = nil, nil
	sol := dv6Msg(dhcpv6.MsgTypeSolicit, dv6Spec.ser([]tlvItem{v6it(dhcpv6.OptClientID, g.duid()), dv6IANA(nil), dv6IAPD(nil, 0), v6it(dhcpv6.OptElapsedTime, []byte{0, 0})}))
	reps, _ := g.call(sol)
	if len(reps) == 0 || reps[0].Type != dhcpv6.MsgTypeAdvertise {
		return fmt.Errorf("no ADVERTISE for a well-formed SOLICIT")
	}
	adv := reps[0]
	if o := adv.GetOption(dhcpv6.OptServerID); o != nil && g.serverID == nil {
		g.serverID = append([]byte(nil), o.Data...)
	}
	if o := adv.GetOption(dhcpv6.OptIANA); o != nil {
		if ia, err := dhcpv6.ParseIANA(o.Data); err == nil {
			for _, io := range ia.Options {
				if io.Code == dhcpv6.OptIAAddr {
					if a, err := dhcpv6.ParseIAAddress(io.Data); err == nil {
						g.addr = a.Address.To16()
					}
				}
			}
		}
	}
	if o := adv.GetOption(dhcpv6.OptIAPD); o != nil {
		if ia, err := dhcpv6.ParseIAPD(o.Data); err == nil {
			for _, io := range ia.Options {
				if io.Code == dhcpv6.OptIAPrefix {
					if p, err := dhcpv6.ParseIAPrefix(io.Data); err == nil {
						g.pfx, g.plen = p.Prefix.To16(), p.PrefixLength
					}
				}
			}
		}
	}
	if g.addr == nil || g.pfx == nil || g.serverID == nil {
		return fmt.Errorf("ADVERTISE lacks address (%v), prefix (%v) or server identifier (%x): %x", g.addr, g.pfx, g.serverID, adv.Serialize())
	}
	if g.state == "advertised" {
		return nil
	}
	reps, _ = g.call(g.legit(dhcpv6.MsgTypeRequest))
	if len(reps) == 0 || reps[0].Type != dhcpv6.MsgTypeReply {
		return fmt.Errorf("no REPLY for a well-formed REQUEST")
	}
	return nil
}

func (g *gatedDHCPv6) legit(t byte) []byte {
	return dv6Msg(t, dv6Spec.ser([]tlvItem{v6it(dhcpv6.OptClientID, g.duid()), v6it(dhcpv6.OptServerID, g.serverID), dv6IANA(g.addr), dv6IAPD(g.pfx, g.plen)}))
}

func dv6Canon(serverID []byte) map[byte][][]tlvItem {
	cid := v6it(dhcpv6.OptClientID, append([]byte{0, 3, 0, 1}, phMAC...))
	sid := v6it(dhcpv6.OptServerID, serverID)
	na, pd := dv6IANA(phAddr6), dv6IAPD(phPfx6, 56)
	oro := v6it(dhcpv6.OptORO, []byte{0, 23, 0, 24})
	el := v6it(dhcpv6.OptElapsedTime, []byte{0, 10})
	bound := []tlvItem{cid, sid, na, pd, el, oro}
	noSrv := []tlvItem{cid, na, pd, el}
	m := map[byte][][]tlvItem{}
	for _, t := range []byte{dhcpv6.MsgTypeRequest, dhcpv6.MsgTypeRenew, dhcpv6.MsgTypeRelease, dhcpv6.MsgTypeDecline} {
		m[t] = [][]tlvItem{bound}
	}
	for _, t := range []byte{dhcpv6.MsgTypeRebind, dhcpv6.MsgTypeConfirm} {
		m[t] = [][]tlvItem{noSrv}
	}
	m[dhcpv6.MsgTypeSolicit] = [][]tlvItem{{cid, dv6IANA(nil), dv6IAPD(nil, 0), v6it(dhcpv6.OptRapidCommit, nil), el}, noSrv}
	m[dhcpv6.MsgTypeInformationRequest] = [][]tlvItem{{cid, oro, el}}
	for _, t := range []byte{dhcpv6.MsgTypeAdvertise, dhcpv6.MsgTypeReply, dhcpv6.MsgTypeReconfigure, dhcpv6.MsgTypeRelayForw, dhcpv6.MsgTypeRelayRepl, 0, 14, 255} { // no handler
		m[t] = [][]tlvItem{{cid, sid, na}}
	}
	return m
}

var dv6Types = []byte{3, 5, 8, 9, 6, 4, 1, 11, 2, 7, 10, 12, 13, 0, 14, 255}

func (g *gatedDHCPv6) mkSys() [][]byte {
	key := "gated-dhcpv6"
	if c, ok := cpSysCache[key]; ok {
		return c
	}
	var out [][]byte
	seen := map[string]bool{}
	add := func(b []byte) {
		if k := string(b); !seen[k] && len(b) <= maxInput {
			seen[k] = true
			out = append(out, b)
		}
	}
	for _, t := range dv6Types {
		for _, canon := range g.canon[t] {
			bl := dv6Spec.blobs(canon, maxInput-4)
			step := 1
			if t != 3 && t != 5 && t != 8 && t != 9 { // the full enumeration for the messages that act on the binding
				step = 5
			}
			for i := 0; i < len(bl); i += step {
				add(dv6Msg(t, bl[i]))
			}
			full := dv6Msg(t, dv6Spec.ser(canon))
			for n := 0; n < 4; n++ {
				add(append([]byte(nil), full[:n]...))
			}
		}
	}
	rng := rand.New(rand.NewPCG(0xc09, h64(key)))
	rng.Shuffle(len(out), func(i, j int) { out[i], out[j] = out[j], out[i] })
	cpSysCache[key] = out
	return out
}

func (g *gatedDHCPv6) Next(i int, rng *rand.Rand) []byte {
	if i < len(g.sys) {
		return append([]byte(nil), g.sys[i]...)
	}
	t := dv6Types[rng.IntN(len(dv6Types))]
	if rng.IntN(3) != 0 {
		t = dv6Types[rng.IntN(6)]
	}
	cs := g.canon[t]
	b := dv6Msg(t, dv6Spec.hostile(rng, cs[rng.IntN(len(cs))], maxInput-4))
	if rng.IntN(10) == 0 {
		b = mutate(rng, b, 0, g.sys[rng.IntN(len(g.sys))])
	}
	return b
}

func (g *gatedDHCPv6) resolve(in []byte) []byte {
	b := bytes.ReplaceAll(in, phMAC, g.mac)
	b = bytes.ReplaceAll(b, phAddr6, g.addr)
	return bytes.ReplaceAll(b, phPfx6, g.pfx)
}

// mkServer sets up a fresh server (fresh pools) on the runner's sockets.
func (g *gatedDHCPv6) mkServer() error {
	srv, err := dhcpv6.NewServer(dhcpv6.ServerConfig{Interface: "lo", AddressPool: "2001:db8:1::/64", PrefixPool: "2001:db8:100::/40", DelegationLength: 56, DNSServers: []string{"2001:db8::53"}}, zap.NewNop())
	if err != nil {
		return err
	}
	srv.VerifC09SetConn(g.conn)
	g.srv = srv
	return nil
}

// ready brings a fresh client into the state. The address pool is finite (1000 addresses) and
// declined addresses are quarantined for good, so a long hostile stream legitimately uses it up:
// that is not a finding of this property - the runner continues on a fresh server, and reports
// only an exchange that fails on a fresh server.
func (g *gatedDHCPv6) ready() error {
	err := g.client()
	if err == nil {
		return nil
	}
	if e2 := g.mkServer(); e2 != nil {
		return e2
	}
	g.ev.Count("gated/"+g.name+"/"+g.state+"/fresh-server-after-pool-exhaustion", 1)
	old := g.serverID
	g.serverID = nil
	if err = g.client(); err == nil && old != nil && !bytes.Equal(old, g.serverID) {
		err = fmt.Errorf("the fresh server has another identifier (%x, was %x)", g.serverID, old)
	}
	return err
}

func (g *gatedDHCPv6) Feed(in []byte) outcome {
	if _, err := dhcpv6.ParseMessage(exact(in)); err != nil { // refused by the message parser in front of the handler (fed to it all the same, first pass entry dhcpv6.ParseMessage)
		gateCount(g.ev, g.name, g.state, gFraming)
		return outcome{class: gFraming}
	}
	if err := g.ready(); err != nil {
		g.ev.Note("listener-alive", "no-binding-by-well-formed-exchange", "the DHCPv6 handler no longer brings a client to state "+g.state+" by the legitimate exchange: "+err.Error(), in, "")
		return outcome{class: "setup-failed"}
	}
	st0 := g.srv.GetStats()
	reps, parsed := g.call(g.resolve(in))
	if !parsed {
		gateCount(g.ev, g.name, g.state, gFraming)
		return outcome{class: gFraming}
	}
	st1 := g.srv.GetStats()
	class := gReject
	if len(reps) > 0 || st0["active_leases"] != st1["active_leases"] {
		class = gPassed
	}
	gateCount(g.ev, g.name, g.state, class)
	o := outcome{class: class, nontriv: class == gPassed}
	status := "none"
	if len(reps) > 0 {
		status = fmt.Sprintf("type%d", reps[0].Type)
		if sc := reps[0].GetOption(dhcpv6.OptStatusCode); sc != nil && len(sc.Data) >= 2 {
			status += fmt.Sprintf("/status%d", binary.BigEndian.Uint16(sc.Data))
		}
	}
	o.dist = map[string]string{"gated_dhcpv6_state_x_msgtype_x_effect": fmt.Sprintf("%s/type%d->%s", g.state, in[0], status)}
	// still usable: the client renews and releases its binding
	g.call(g.legit(dhcpv6.MsgTypeRenew))
	g.call(g.legit(dhcpv6.MsgTypeRelease))
	return o
}

func (g *gatedDHCPv6) Close() { g.conn.Close(); g.capc.Close() }

func gatedDHCPv6Entry() *entry {
	name := "gated:dhcpv6.Server.handleMessage"
	per := func(thorough bool) int {
		if thorough {
			return 20000
		}
		return 3200
	}
	return &entry{
		name: name, comp: "dhcpv6.Server.handleMessage", states: gatedDHCPv6States, quick: 2 * per(false), thorough: 2 * per(true), chunk: 4000, cost: 20,
		quota:     func(_ string, thorough bool) int { return per(thorough) },
		gateFloor: func(thorough bool) int { return per(thorough) / 2 },
		open: func(state string, ev *env) (runner, error) {
			// The server answers to port 546 of the address the message came from. Each child owns one
			// address of 127/8 (derived from its pid), so that children never see each other's replies.
			pid := os.Getpid()
			me := net.IPv4(127, byte(1+(pid>>16)%250), byte(pid>>8), byte(pid))
			capc, err := net.ListenUDP("udp4", &net.UDPAddr{IP: me, Port: dhcpv6.DHCPv6ClientPort})
			if err != nil {
				return nil, err
			}
			conn, err := net.ListenUDP("udp4", &net.UDPAddr{IP: net.IPv4(127, 0, 0, 1), Port: 0})
			if err != nil {
				capc.Close()
				return nil, err
			}
			g := &gatedDHCPv6{ev: ev, name: name, state: state, conn: conn, capc: capc, from: &net.UDPAddr{IP: me, Port: 546}, buf: make([]byte, 65536)}
			if err := g.mkServer(); err != nil {
				g.Close()
				return nil, err
			}
			if err := g.client(); err != nil { // also yields the server identifier
				g.Close()
				return nil, err
			}
			g.call(g.legit(dhcpv6.MsgTypeRelease))
			g.canon = dv6Canon(g.serverID)
			g.sys = g.mkSys()
			return g, nil
		},
	}
}

// ---------------------------------------------------------------------------------------------
// RADIUS CoA / Disconnect with a valid Request Authenticator, naming an existing session

var radSpec = func() *tlvSpec {
	s := &tlvSpec{tb: 1, lb: 1, incl: true}
	s.nest = map[int]nestSpec{26: {4, s}}
	return s
}()

func coaCanon() [][]tlvItem {
	sv := func(t int, s string) tlvItem { return tlvItem{t: t, v: []byte(s), lie: -1} }
	vsa := tlvItem{t: 26, v: append(be32(9), radSpec.ser([]tlvItem{sv(1, "subscriber:qos=gold"), sv(1, "ip:sub-qos-policy-in=10M")})...), lie: -1}
	return [][]tlvItem{
		{sv(1, "alice"), sv(44, "live-7"), it(8, 10, 9, 0, 8), sv(11, "gold"), it(27, 0, 0, 0x0e, 0x10), it(28, 0, 0, 2, 0x58), vsa},
		{sv(31, "02:00:00:00:00:07"), it(4, 192, 0, 2, 1), it(25, 1, 2, 3), it(55, 0x65, 0, 0, 0)},
		{sv(44, "live-3"), it(80, make([]byte, 16)...), it(24, 9, 9)},
		{it(8, 10, 9, 0, 8)},
	}
}

type gatedCoA struct {
	*coaLoop
	ev   *env
	name string
	sys  [][]byte
}

// coaFrame builds a signed request; mode selects what the RADIUS length field says.
func coaFrame(code, id byte, attrs []byte, mode int) []byte {
	b := radiusPkt(code, id, attrs)
	switch mode {
	case 1:
		binary.BigEndian.PutUint16(b[2:4], 20)
	case 2:
		if len(b) > 21 {
			binary.BigEndian.PutUint16(b[2:4], uint16(len(b)-1))
		}
	case 3:
		if len(b) > 23 {
			binary.BigEndian.PutUint16(b[2:4], uint16(len(b)-3))
		}
	case 4:
		b = append(b, 0xEE, 0xEE) // padding behind the packet
	case 5:
		binary.BigEndian.PutUint16(b[2:4], uint16(len(b)+1))
	case 6:
		binary.BigEndian.PutUint16(b[2:4], 19)
	}
	coaSign(b, coaSecret)
	return b
}

func coaSys() [][]byte {
	key := "gated-coa"
	if c, ok := cpSysCache[key]; ok {
		return c
	}
	var out [][]byte
	seen := map[string]bool{}
	add := func(b []byte) {
		if k := string(b); !seen[k] && len(b) <= maxInput {
			seen[k] = true
			out = append(out, b)
		}
	}
	for _, code := range []byte{radius.CodeCoARequest, radius.CodeDisconnectRequest} {
		for _, canon := range coaCanon() {
			for _, bl := range radSpec.blobs(canon, maxInput-20) {
				add(coaFrame(code, 7, bl, 0))
			}
			full := radSpec.ser(canon)
			for mode := 1; mode <= 6; mode++ {
				add(coaFrame(code, 7, full, mode))
			}
		}
	}
	for _, code := range []byte{0, 1, 2, 4, 41, 42, 44, 45, 255} { // codes the listener has no handler for, validly signed
		add(coaFrame(code, 7, radSpec.ser(coaCanon()[0]), 0))
	}
	rng := rand.New(rand.NewPCG(0xc09, h64(key)))
	rng.Shuffle(len(out), func(i, j int) { out[i], out[j] = out[j], out[i] })
	cpSysCache[key] = out
	return out
}

func (g *gatedCoA) Next(i int, rng *rand.Rand) []byte {
	if i < len(g.sys) {
		return append([]byte(nil), g.sys[i]...)
	}
	code := []byte{radius.CodeCoARequest, radius.CodeDisconnectRequest}[rng.IntN(2)]
	cs := coaCanon()
	mode := 0
	if rng.IntN(6) == 0 {
		mode = 1 + rng.IntN(6)
	}
	b := coaFrame(code, byte(rng.Uint32()), radSpec.hostile(rng, cs[rng.IntN(len(cs))], maxInput-20), mode)
	if rng.IntN(10) == 0 { // byte-level damage, signed again so that it still passes the authenticator gate
		b = mutate(rng, b, 0, g.sys[rng.IntN(len(g.sys))])
		coaSign(b, coaSecret)
	}
	return b
}

func (g *gatedCoA) Feed(in []byte) outcome {
	b := g.srv.GetStats()
	o := g.coaLoop.Feed(in) // sends the datagram, then a well-formed probe that must be answered
	if o.pan != nil {
		return o
	}
	a := g.srv.GetStats()
	acks := a["coa_acks_sent"] - b["coa_acks_sent"] + a["disconnect_acks_sent"] - b["disconnect_acks_sent"]
	class := gReject
	switch {
	case len(in) < 20:
		class = gFraming
	case o.nontriv: // the listener answered or counted the request: authenticator and attribute framing passed
		class = gPassed
	}
	gateCount(g.ev, g.name, "session-exists", class)
	if acks > 0 {
		g.ev.Count("gated/"+g.name+"/session-exists/acked-session-found", int(acks))
	}
	o.class = class
	o.nontriv = class == gPassed
	return o
}

func gatedCoAEntry() *entry {
	name := "gated:radius.CoAServer.receiveLoop"
	return &entry{
		name: name, comp: "radius.CoAServer.receiveLoop", states: []string{"session-exists"}, quick: 3000, thorough: 40000, chunk: 1500, cost: 40,
		gateFloor: func(thorough bool) int {
			if thorough {
				return 8000
			}
			return 600
		},
		open: func(state string, ev *env) (runner, error) {
			l, err := openCoALoop(ev)
			if err != nil {
				return nil, err
			}
			return &gatedCoA{coaLoop: l, ev: ev, name: name, sys: coaSys()}, nil
		},
	}
}

// ---------------------------------------------------------------------------------------------
// HA standby with synced sessions: the message handler, and the SSE stream framing in front of it

func haSess(id string) map[string]any {
	return map[string]any{"session_id": id, "subscriber_id": "sub-" + id, "mac": "02:00:00:00:00:01", "ip": "10.0.0.5", "ipv6": "2001:db8::5", "vlan": 100, "s_tag": 10, "c_tag": 20,
		"qos_profile": "gold", "download_rate_bps": 100000000, "session_type": "ipoe", "username": "alice", "created_at": "2023-11-14T22:13:20Z", "last_activity": "2023-11-14T22:13:20Z", "state": "active", "walled_garden": false}
}

func haJSON(v any) []byte {
	b, err := json.Marshal(v)
	if err != nil {
		panic(err)
	}
	return b
}

func haMsg(typ any, sessions any, omitSessions bool) map[string]any {
	m := map[string]any{"type": typ, "timestamp": "2023-11-14T22:13:20Z", "sequence_num": 7, "node_id": "bng-a"}
	if !omitSessions {
		m["sessions"] = sessions
	}
	return m
}

// haSessionVariants lists shapes of the "sessions" member; known ids are s-1..s-3.
func haSessionVariants() []any {
	bad := haSess("s-2")
	bad["vlan"], bad["created_at"], bad["walled_garden"], bad["download_rate_bps"] = "x", "yesterday", 1, -1
	huge := haSess("s-1")
	huge["username"] = strings.Repeat("u", 1200)
	var many []any
	for i := 0; i < 12; i++ {
		many = append(many, map[string]any{"session_id": fmt.Sprintf("m-%d", i)})
	}
	id := func(s string) map[string]any { return map[string]any{"session_id": s} }
	sparse := map[string]any{"session_id": "s-2", "created_at": nil, "mac": nil, "vlan": nil}
	zero := haSess("s-3")
	zero["created_at"], zero["last_activity"], zero["ip"], zero["mac"], zero["vlan"] = "0001-01-01T00:00:00Z", "9999-12-31T23:59:59Z", "", "not-a-mac", -2147483648
	var dups []any
	for i := 0; i < 40; i++ {
		dups = append(dups, id("never-synced"))
	}
	return []any{
		// well-typed lists (they pass the decoder): known / never-synced / empty / odd identifiers, nulls, repeats
		[]any{id("s-1")}, []any{id("never-synced")}, []any{id("never-synced"), id("never-synced-2")}, []any{id("s-1"), id("never-synced")}, []any{id("never-synced"), id("s-1")},
		[]any{id("")}, []any{id("\x00")}, []any{id(strings.Repeat("i", 1500))}, []any{id("s-1"), id("s-1"), id("s-1")}, []any{nil, nil}, []any{nil, id("s-2"), nil}, []any{map[string]any{}, map[string]any{}},
		[]any{sparse}, []any{zero}, dups, []any{haSess("s-1"), haSess("s-2"), haSess("s-3"), haSess("never-synced")},
		// ill-typed ones (the decoder must refuse them)
		nil, []any{}, map[string]any{}, "x", 7, []any{nil}, []any{1}, []any{"s-1"}, []any{[]any{}}, []any{map[string]any{}},
		[]any{haSess("s-1")}, []any{haSess("never-synced")}, []any{haSess("s-1"), haSess("s-1")}, []any{haSess("never-synced"), haSess("s-2")},
		[]any{haSess("s-1"), haSess("s-2"), haSess("s-3")}, []any{map[string]any{"session_id": ""}}, []any{map[string]any{"session_id": 5}},
		[]any{bad}, []any{huge}, many, []any{haSess("s-1"), nil, haSess("never-synced"), map[string]any{}},
	}
}

var haTypes = []any{"add", "update", "delete", "full", "heartbeat", "full_request", "", "DELETE", "no-such-type", 3, nil}

func haSys() [][]byte {
	key := "gated-ha"
	if c, ok := cpSysCache[key]; ok {
		return c
	}
	var out [][]byte
	seen := map[string]bool{}
	add := func(b []byte) {
		if k := string(b); !seen[k] && len(b) <= maxInput {
			seen[k] = true
			out = append(out, b)
		}
	}
	for _, t := range haTypes {
		add(haJSON(haMsg(t, nil, true)))
		for _, sv := range haSessionVariants() {
			add(haJSON(haMsg(t, sv, false)))
		}
	}
	for _, t := range []any{"add", "delete", "full"} { // cut at every byte
		full := haJSON(haMsg(t, []any{map[string]any{"session_id": "s-1", "mac": "m", "vlan": 1}}, false))
		for n := 0; n < len(full); n++ {
			add(append([]byte(nil), full[:n]...))
		}
	}
	for _, raw := range []string{"", "null", "[]", "{}", "7", `"add"`, `{"type":"delete","sessions":[{"session_id":"never-synced"}],"sessions":[{"session_id":"s-1"}]}`,
		`{"type":"add","timestamp":"x"}`, `{"type":"add","timestamp":0}`, `{"type":"add","sequence_num":-1}`, `{"type":"add","sequence_num":1e40}`,
		`{"type":"delete","sessions":[{"session_id":"\u0000"}]}`, strings.Repeat("[", 1500), strings.Repeat(`{"sessions":`, 150), `{"type":"add","sessions":[` + strings.Repeat(`{},`, 600) + `{}]}`} {
		add([]byte(raw))
	}
	rng := rand.New(rand.NewPCG(0xc09, h64(key)))
	rng.Shuffle(len(out), func(i, j int) { out[i], out[j] = out[j], out[i] })
	cpSysCache[key] = out
	return out
}

// haStreamSys wraps payloads into the line shapes an event stream can carry.
func haStreamSys() [][]byte {
	key := "gated-ha-stream"
	if c, ok := cpSysCache[key]; ok {
		return c
	}
	var out [][]byte
	seen := map[string]bool{}
	add := func(b []byte) {
		if k := string(b); !seen[k] && len(b) <= maxInput-1 {
			seen[k] = true
			out = append(out, b)
		}
	}
	msgs := haSys()
	for i, p := range msgs {
		if bytes.ContainsAny(p, "\n") {
			continue
		}
		add(append([]byte("data: "), p...))
		if i%8 == 0 {
			for _, pre := range []string{"data:", "data:  ", "data:\t", "Data: ", "DATA: ", "event: ", "id: ", "retry: ", ": ", "", " data: ", "data", "data :"} {
				add(append([]byte(pre), p...))
			}
			add(append(append([]byte("data: "), p...), '\r'))
		}
	}
	valid := append([]byte("data: "), haJSON(haMsg("add", []any{haSess("s-9")}, false))...)
	for n := 0; n <= len(valid) && n < 64; n++ { // the line cut at every byte: "d", "data", "data:", "data: ", "data: {" ...
		add(append([]byte(nil), valid[:n]...))
		add(append(append([]byte(nil), valid[:n]...), '\r'))
	}
	for _, raw := range []string{"\r", "\x00", "data: \x00", "event: add\ndata: {}\n", "data: {\ndata: }\n", "\n\n\n", "data:\ndata:\n", "data: " + strings.Repeat("x", 2000), strings.Repeat("data: {}\n", 200)} {
		add([]byte(raw))
	}
	rng := rand.New(rand.NewPCG(0xc09, h64(key)))
	rng.Shuffle(len(out), func(i, j int) { out[i], out[j] = out[j], out[i] })
	cpSysCache[key] = out
	return out
}

type gatedHA struct {
	ev    *env
	name  string
	state string
	s     *ha.HASyncer
	store *ha.InMemorySessionStore
	sys   [][]byte
	seq   int
	// stream-attached
	ts      *httptest.Server
	lines   chan []byte
	crashed chan *feedPanic
	ended   chan error
	dead    *feedPanic
	mu      sync.Mutex
	stop    chan struct{}
}

func (g *gatedHA) syncer(endpoint string) {
	cfg := ha.DefaultSyncConfig()
	cfg.NodeID, cfg.Role, cfg.Partner = "bng-b", ha.RoleStandby, &ha.PartnerInfo{NodeID: "bng-a", Endpoint: endpoint}
	cfg.RequestTimeout = time.Hour // the syncer's HTTP client applies it to the whole stream
	g.store = ha.NewInMemorySessionStore()
	g.s = ha.NewHASyncer(cfg, g.store, zap.NewNop())
}

func haBase() []byte {
	return haJSON(haMsg("add", []any{haSess("s-1"), haSess("s-2"), haSess("s-3")}, false))
}

// attach starts the real connectToStream on a harness goroutine (in production: standbyLoop's
// goroutine, where a panic is process-fatal) and waits until snapshot and stream are in place.
func (g *gatedHA) attach() error {
	g.ended = make(chan error, 1)
	go func() {
		defer loopGuard(g.crashed, "ha.HASyncer.connectToStream")
		g.ended <- g.s.VerifC09ConnectToStream()
	}()
	deadline := time.Now().Add(5 * time.Second)
	for !g.s.IsConnected() {
		select {
		case err := <-g.ended:
			return fmt.Errorf("connectToStream returned before the stream was attached: %v", err)
		case p := <-g.crashed:
			g.dead = p
			return fmt.Errorf("connectToStream panicked while attaching: %s", p.msg)
		default:
		}
		if time.Now().After(deadline) {
			return fmt.Errorf("standby did not attach to the stream")
		}
		time.Sleep(200 * time.Microsecond)
	}
	return nil
}

func (g *gatedHA) Next(i int, rng *rand.Rand) []byte {
	if i < len(g.sys) {
		return append([]byte(nil), g.sys[i]...)
	}
	s := g.sys[rng.IntN(len(g.sys))]
	switch rng.IntN(5) {
	case 0, 1, 2: // a message built from the shapes, then damaged as a JSON document (it stays well-formed JSON)
		vs := haSessionVariants()
		var doc any = haMsg(haTypes[rng.IntN(len(haTypes))], vs[rng.IntN(len(vs))], rng.IntN(8) == 0)
		for r, rounds := 0, rng.IntN(4); r < rounds; r++ {
			doc = jsonHostile(rng, doc, 0)
		}
		b := haJSON(doc)
		if len(b) > maxInput-8 {
			b = haJSON(haMsg("delete", vs[rng.IntN(len(vs))], false))
		}
		if g.state == "stream-attached" {
			pre := []string{"data: ", "data: ", "data: ", "data:", "data:  ", "event: "}[rng.IntN(6)]
			b = append([]byte(pre), b...)
		}
		return b
	case 3:
		keep := 0
		if g.state == "stream-attached" && rng.IntN(2) == 0 {
			keep = 6
		}
		return mutate(rng, s, keep, g.sys[rng.IntN(len(g.sys))])
	default:
		return mutate(rng, s, 0, g.sys[rng.IntN(len(g.sys))])
	}
}

// jsonHostile replaces, removes or multiplies one node of a JSON document.
func jsonHostile(rng *rand.Rand, v any, depth int) any {
	leaf := func() any {
		return []any{nil, true, 0, -1, 1e40, 1.5, "", "s-1", "never-synced", strings.Repeat("A", 300), "2023-11-14T22:13:20Z", "0000-00-00T00:00:00Z", []any{}, map[string]any{}, []any{[]any{[]any{}}},
			map[string]any{"session_id": "s-2"}, haSess("s-3"), haSess("never-synced")}[rng.IntN(18)]
	}
	if depth > 6 || rng.IntN(8) == 0 {
		return leaf()
	}
	switch x := v.(type) {
	case string: // mostly stay a string: the document keeps passing the decoder
		return []any{"", "s-1", "s-2", "never-synced", "\x00", strings.Repeat("A", 300), "delete", "add", "full", "update", "0001-01-01T00:00:00Z", "2023-11-14T22:13:20+14:00", nil}[rng.IntN(13)]
	case int, float64:
		return []any{0, 1, 4095, 65535, 65536, 2147483647, -1, nil}[rng.IntN(8)]
	case bool:
		return []any{true, false, nil}[rng.IntN(3)]
	case map[string]any:
		if len(x) == 0 {
			return map[string]any{"session_id": leaf(), "type": leaf()}
		}
		keys := make([]string, 0, len(x))
		for k := range x {
			keys = append(keys, k)
		}
		sortStrings(keys)
		k := keys[rng.IntN(len(keys))]
		out := map[string]any{}
		for kk, vv := range x {
			out[kk] = vv
		}
		switch rng.IntN(5) {
		case 0:
			delete(out, k)
		case 1:
			out[k+"x"] = out[k]
		default:
			out[k] = jsonHostile(rng, x[k], depth+1)
		}
		return out
	case []any:
		if len(x) == 0 {
			return []any{leaf()}
		}
		i := rng.IntN(len(x))
		out := append([]any(nil), x...)
		switch rng.IntN(5) {
		case 0:
			return append(out[:i:i], out[i+1:]...)
		case 1: // the same element many times
			for k := 0; k < 1+rng.IntN(6); k++ {
				out = append(out, x[i])
			}
			return out
		default:
			out[i] = jsonHostile(rng, x[i], depth+1)
			return out
		}
	default:
		return leaf()
	}
}

func sortStrings(s []string) {
	for i := 1; i < len(s); i++ {
		for j := i; j > 0 && s[j] < s[j-1]; j-- {
			s[j], s[j-1] = s[j-1], s[j]
		}
	}
}

func (g *gatedHA) Feed(in []byte) outcome {
	g.seq++
	probe := fmt.Sprintf("probe-%d", g.seq)
	probeAdd := haJSON(haMsg("add", []any{haSess(probe)}, false))
	probeDel := haJSON(haMsg("delete", []any{haSess(probe)}, false))
	if g.state == "standby-synced" {
		g.s.VerifC09HandleSSEData(haBase()) // s-1..s-3 are synced (again)
		b := g.s.Stats().MessagesReceived
		err := g.s.VerifC09HandleSSEData(exact(in))
		class := gReject
		if err == nil && g.s.Stats().MessagesReceived > b {
			class = gPassed
		} else if err != nil {
			class = gFraming
		}
		gateCount(g.ev, g.name, g.state, class)
		// still usable: a session can be added, read back and deleted
		g.s.VerifC09HandleSSEData(probeAdd)
		_, ok := g.s.GetReceivedSession(probe)
		g.s.VerifC09HandleSSEData(probeDel)
		_ = g.s.GetAllReceivedSessions()
		o := outcome{class: class, nontriv: class == gPassed}
		o.dist = map[string]string{"gated_ha_effect": fmt.Sprintf("%s/%s/probe-readable=%v", g.state, class, ok)}
		return o
	}
	// stream-attached: the input is what the active writes to the stream (one or more lines)
	if g.dead != nil {
		return outcome{pan: g.dead}
	}
	select {
	case <-g.ended: // the stream ended earlier (e.g. read error): attach again, as standbyLoop does
		if err := g.attach(); err != nil {
			if g.dead != nil {
				return outcome{pan: g.dead}
			}
			g.ev.Note("listener-alive", "standby-cannot-reattach", "the standby no longer attaches to a well-behaved active: "+err.Error(), in, "")
			return outcome{class: "setup-failed"}
		}
		g.ev.Count("gated/"+g.name+"/"+g.state+"/stream-reattached", 1)
	default:
	}
	before := g.s.Stats().MessagesReceived
	chunk := append(append([]byte(nil), in...), '\n')
	chunk = append(chunk, "data: "...)
	chunk = append(chunk, probeAdd...)
	chunk = append(chunk, '\n')
	g.lines <- chunk
	// logical completion: the probe line behind the input has been applied (a line that swallows the
	// probe, e.g. an unterminated one, is completed by a second probe)
	for spin := 0; ; spin++ {
		if _, ok := g.s.GetReceivedSession(probe); ok {
			break
		}
		select {
		case p := <-g.crashed:
			g.dead = p
			return outcome{pan: p}
		case err := <-g.ended:
			g.ended <- err
			gateCount(g.ev, g.name, g.state, gReject)
			return outcome{class: "stream-ended"}
		default:
		}
		if spin%2000 == 1999 { // the probe did not arrive (swallowed by the input, or written to a stream that was ending): again
			select {
			case g.lines <- append(append([]byte("\ndata: "), probeAdd...), '\n'):
			default:
			}
		}
		if spin < 200 {
			runtime.Gosched()
		} else {
			time.Sleep(50 * time.Microsecond)
		}
	}
	after := g.s.Stats().MessagesReceived
	class := gReject
	if after-before >= 2 { // besides the probe, at least one data line of the input reached the message handler
		class = gPassed
	}
	gateCount(g.ev, g.name, g.state, class)
	g.lines <- append(append([]byte("data: "), probeDel...), '\n')
	for spin := 0; ; spin++ { // the delete has been applied too: the next case starts from a quiet stream
		if _, ok := g.s.GetReceivedSession(probe); !ok {
			break
		}
		select {
		case p := <-g.crashed:
			g.dead = p
			return outcome{pan: p}
		case err := <-g.ended:
			g.ended <- err
			return outcome{class: "stream-ended"}
		default:
		}
		if spin%2000 == 1999 {
			select {
			case g.lines <- append(append([]byte("\ndata: "), probeDel...), '\n'):
			default:
			}
		}
		if spin < 200 {
			runtime.Gosched()
		} else {
			time.Sleep(50 * time.Microsecond)
		}
	}
	o := outcome{class: class, nontriv: class == gPassed}
	o.dist = map[string]string{"gated_ha_effect": fmt.Sprintf("%s/%s/messages+%d", g.state, class, min(int(after-before), 4))}
	return o
}

func (g *gatedHA) Close() {
	if g.ts != nil {
		close(g.stop)
		g.ts.CloseClientConnections()
		g.ts.Close()
	}
}

func gatedHAEntry(name, comp, only string) *entry {
	per := func(state string, thorough bool) int {
		n := len(haSys()) + 1500
		if state == "stream-attached" {
			n = len(haStreamSys()) + 1000
		}
		if thorough {
			n += 20000
		}
		return n
	}
	return &entry{
		name: name, comp: comp, states: []string{only}, totalFn: func(t bool) int { return per(only, t) }, chunk: 2000, cost: 15,
		quota:     per,
		gateFloor: func(thorough bool) int { return per(only, thorough) / 8 },
		open: func(state string, ev *env) (runner, error) {
			g := &gatedHA{ev: ev, name: name, state: state}
			if state == "standby-synced" {
				g.syncer("127.0.0.1:1")
				g.sys = haSys()
				if err := g.s.VerifC09HandleSSEData(haBase()); err != nil {
					return nil, err
				}
				return g, nil
			}
			g.sys = haStreamSys()
			g.lines, g.crashed, g.stop = make(chan []byte, 8), make(chan *feedPanic, 1), make(chan struct{})
			snapshot := haJSON(haMsg("full", []any{haSess("s-1"), haSess("s-2"), haSess("s-3")}, false))
			mux := http.NewServeMux()
			mux.HandleFunc("/ha/sessions", func(w http.ResponseWriter, r *http.Request) {
				w.Header().Set("Content-Type", "application/json")
				w.Write(snapshot)
			})
			mux.HandleFunc("/ha/sessions/stream", func(w http.ResponseWriter, r *http.Request) {
				w.Header().Set("Content-Type", "text/event-stream")
				w.WriteHeader(http.StatusOK)
				fl, _ := w.(http.Flusher)
				fl.Flush()
				for {
					select {
					case b := <-g.lines:
						if _, err := w.Write(b); err != nil {
							return
						}
						fl.Flush()
					case <-r.Context().Done():
						return
					case <-g.stop:
						return
					}
				}
			})
			g.ts = httptest.NewServer(mux)
			g.syncer(strings.TrimPrefix(g.ts.URL, "http://"))
			if err := g.attach(); err != nil {
				g.Close()
				return nil, err
			}
			if _, ok := g.s.GetReceivedSession("s-2"); !ok {
				g.Close()
				return nil, fmt.Errorf("snapshot not applied after attaching")
			}
			return g, nil
		},
	}
}
