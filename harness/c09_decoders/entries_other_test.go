package c09

import (
	"bytes"
	"context"
	"crypto/md5"
	"encoding/binary"
	"fmt"
	"math/rand/v2"
	"net"
	"os"
	"runtime"
	"strings"
	"sync"
	"time"

	"github.com/insomniacslk/dhcp/dhcpv4"
	"go.uber.org/zap"
	lradius "layeh.com/radius"
	"layeh.com/radius/rfc2865"
	"layeh.com/radius/rfc2866"

	"github.com/codelaboratoryltd/bng/pkg/dhcp"
	"github.com/codelaboratoryltd/bng/pkg/dhcpv6"
	"github.com/codelaboratoryltd/bng/pkg/ebpf"
	"github.com/codelaboratoryltd/bng/pkg/ha"
	"github.com/codelaboratoryltd/bng/pkg/nat"
	"github.com/codelaboratoryltd/bng/pkg/radius"
	"github.com/codelaboratoryltd/bng/pkg/ztp"
)

func entries() []*entry {
	var es []*entry
	es = append(es, pppoeParserEntries()...)
	es = append(es,
		pppoeLoopEntry(),
		fsmEntry("pppoe.LCPStateMachine.ReceivePacket", "lcp", lcpSamples, lcpGoodReq, []byte{7, 2}),
		fsmEntry("pppoe.IPCPStateMachine.ReceivePacket", "ipcp", ipcpSamples, ipcpGoodReq, []byte{129, 6, 9, 9, 9, 9}),
		fsmEntry("pppoe.IPV6CPStateMachine.ReceivePacket", "ipv6cp", ipv6cpSamples, ipv6cpGoodReq, []byte{1, 10, 2, 0, 0, 0, 0, 0, 0, 9}),
		authEntry(),
		keepaliveEntry(),
		option82Entry(),
		dhcpEntry(),
	)
	es = append(es, dhcpv6ParserEntries()...)
	es = append(es,
		dhcpv6Entry(),
		coaEntry(),
		parserEntry("radius.parseAttributes", radiusAttrSamples(),
			func(in []byte) (bool, error) { a, err := radius.VerifC09ParseAttributes(in); return len(a) > 0, err },
			func(n int) []byte { return repeatTo(nil, []byte{26, 2}, n) }),
		radiusClientEntry(),
		parserEntry("ha.DecodeSyncMessage", haSamples(),
			func(in []byte) (bool, error) {
				m, err := ha.DecodeSyncMessage(in)
				return m != nil && m.Type != "", err
			},
			haScale),
		haEntry(),
		algEntry(),
		parserEntry("ztp.parseVendorOptions", [][]byte{append([]byte{1, 22}, []byte("https://nexus.example/")...), {2, 3, 1, 2, 3, 1, 4, 'h', 't', 't', 'p'}, {1, 0}},
			func(in []byte) (bool, error) { return ztp.VerifC09ParseVendorOptions(in) != "", nil },
			func(n int) []byte { return repeatTo(nil, []byte{2, 2, 0, 0}, n) }),
		ztpEntry(),
		exPPPoEEntry(), // third pass (c09_exhausted_test.go); here because of its long session-table-full job
	)
	return es
}

// goroutine settling: wait until goroutines started by a handler have finished
func settle(base int) {
	t0 := time.Now()
	for i := 0; runtime.NumGoroutine() > base; i++ {
		if i < 200 {
			runtime.Gosched()
			continue
		}
		if time.Since(t0) > 300*time.Millisecond {
			return
		}
		time.Sleep(20 * time.Microsecond)
	}
}

// ---------------------------------------------------------------------------------------------
// DHCPv4

type capConn struct {
	n    int
	last []byte
	dst  net.Addr
}

func (c *capConn) WriteTo(b []byte, a net.Addr) (int, error) {
	c.n++
	c.last = append(c.last[:0], b...)
	c.dst = a
	return len(b), nil
}
func (c *capConn) ReadFrom(b []byte) (int, net.Addr, error) {
	return 0, nil, fmt.Errorf("not readable")
}
func (c *capConn) Close() error                     { return nil }
func (c *capConn) LocalAddr() net.Addr              { return &net.UDPAddr{IP: net.IPv4zero, Port: 67} }
func (c *capConn) SetDeadline(time.Time) error      { return nil }
func (c *capConn) SetReadDeadline(time.Time) error  { return nil }
func (c *capConn) SetWriteDeadline(time.Time) error { return nil }

func opt82Raw() []byte {
	return append(append([]byte{1, 12}, []byte("eth 0/1/2:33")...), append([]byte{2, 6}, 0, 1, 2, 3, 4, 5)...)
}

func dhcpMAC(i int) net.HardwareAddr { return net.HardwareAddr{0x02, 0xaa, 0, 0, 0, byte(i)} }

func dhcpPkt(t dhcpv4.MessageType, mac net.HardwareAddr, mods ...dhcpv4.Modifier) []byte {
	all := append([]dhcpv4.Modifier{dhcpv4.WithMessageType(t), dhcpv4.WithHwAddr(mac)}, mods...)
	p, err := dhcpv4.New(all...)
	if err != nil {
		panic(err)
	}
	return p.ToBytes()
}

func dhcpSamples() [][]byte {
	srv := net.IPv4(10, 20, 0, 1)
	relay := dhcpv4.WithGatewayIP(net.IPv4(10, 99, 0, 1))
	o82 := dhcpv4.WithOption(dhcpv4.OptGeneric(dhcpv4.OptionRelayAgentInformation, opt82Raw()))
	return [][]byte{
		dhcpPkt(dhcpv4.MessageTypeDiscover, dhcpMAC(1), dhcpv4.WithOption(dhcpv4.OptHostName("cpe-1")), dhcpv4.WithRequestedOptions(dhcpv4.OptionSubnetMask, dhcpv4.OptionRouter, dhcpv4.OptionDomainNameServer)),
		dhcpPkt(dhcpv4.MessageTypeDiscover, dhcpMAC(2), relay, o82),
		dhcpPkt(dhcpv4.MessageTypeRequest, dhcpMAC(1), dhcpv4.WithOption(dhcpv4.OptRequestedIPAddress(net.IPv4(10, 20, 0, 11))), dhcpv4.WithOption(dhcpv4.OptServerIdentifier(srv))),
		dhcpPkt(dhcpv4.MessageTypeRequest, dhcpMAC(3), relay, o82, dhcpv4.WithOption(dhcpv4.OptRequestedIPAddress(net.IPv4(10, 20, 0, 12)))),
		dhcpPkt(dhcpv4.MessageTypeRequest, dhcpMAC(1), dhcpv4.WithClientIP(net.IPv4(10, 20, 0, 11))),
		dhcpPkt(dhcpv4.MessageTypeRelease, dhcpMAC(1), dhcpv4.WithClientIP(net.IPv4(10, 20, 0, 11))),
		dhcpPkt(dhcpv4.MessageTypeDecline, dhcpMAC(3), dhcpv4.WithOption(dhcpv4.OptRequestedIPAddress(net.IPv4(10, 20, 0, 12)))),
		dhcpPkt(dhcpv4.MessageTypeInform, dhcpMAC(4), dhcpv4.WithClientIP(net.IPv4(10, 20, 3, 4))),
	}
}

// hwlenOffset is the offset of the hardware address length octet in a BOOTP header.
const hwlenOffset = 2

type radiusFake struct {
	auth, acct *net.UDPConn
	port       int
	secret     []byte
	mu         sync.Mutex
	next       []byte // response template for the next Access-Request (nil: plain Access-Accept)
	served     int
	wg         sync.WaitGroup
}

func respAuth(resp []byte, reqAuth []byte, secret []byte) {
	h := md5.New()
	h.Write(resp[:4])
	h.Write(reqAuth)
	h.Write(resp[20:])
	h.Write(secret)
	copy(resp[4:20], h.Sum(nil))
}

func newRadiusFake(secret string) (*radiusFake, error) {
	for try := 0; try < 50; try++ {
		a, err := net.ListenUDP("udp4", &net.UDPAddr{IP: net.IPv4(127, 0, 0, 1), Port: 0})
		if err != nil {
			return nil, err
		}
		port := a.LocalAddr().(*net.UDPAddr).Port
		b, err := net.ListenUDP("udp4", &net.UDPAddr{IP: net.IPv4(127, 0, 0, 1), Port: port + 1})
		if err != nil {
			a.Close()
			continue
		}
		f := &radiusFake{auth: a, acct: b, port: port, secret: []byte(secret)}
		f.wg.Add(2)
		go f.serve(a, true)
		go f.serve(b, false)
		return f, nil
	}
	return nil, fmt.Errorf("no two adjacent free UDP ports")
}

func (f *radiusFake) serve(c *net.UDPConn, auth bool) {
	defer f.wg.Done()
	buf := make([]byte, 4096)
	for {
		n, addr, err := c.ReadFromUDP(buf)
		if err != nil {
			return
		}
		if n < 20 {
			continue
		}
		req := buf[:n]
		var resp []byte
		f.mu.Lock()
		tmpl := f.next
		f.served++
		f.mu.Unlock()
		if tmpl != nil && len(tmpl) >= 20 {
			resp = append([]byte(nil), tmpl...)
			resp[1] = req[1]
			respAuth(resp, req[4:20], f.secret)
		} else if tmpl != nil {
			resp = append([]byte(nil), tmpl...) // too short to carry an authenticator: sent as is
		} else {
			code := byte(2) // Access-Accept
			if !auth {
				code = 5 // Accounting-Response
			}
			resp = make([]byte, 20)
			resp[0], resp[1] = code, req[1]
			binary.BigEndian.PutUint16(resp[2:4], 20)
			respAuth(resp, req[4:20], f.secret)
		}
		c.WriteToUDP(resp, addr)
	}
}

func (f *radiusFake) close() {
	f.auth.Close()
	f.acct.Close()
	f.wg.Wait()
}

func (f *radiusFake) client() (*radius.Client, error) {
	return radius.NewClient(radius.ClientConfig{
		Servers: []radius.ServerConfig{{Host: "127.0.0.1", Port: f.port, Secret: string(f.secret)}},
		NASID:   "verif-nas", Timeout: 40 * time.Millisecond, Retries: 1,
		RateLimit: radius.RateLimitConfig{RequestsPerSecond: 1e7, BurstSize: 1 << 20},
	}, zap.NewNop())
}

func newDHCPServer(withRadius bool) (*dhcp.Server, *radiusFake, error) {
	lg := zap.NewNop()
	loader, err := ebpf.NewLoader("lo", lg) // as in cmd/bng: a Loader is always present (maps not loaded here)
	if err != nil {
		return nil, nil, err
	}
	pm := dhcp.NewPoolManager(loader, lg)
	pool, err := dhcp.NewPool(dhcp.PoolConfig{ID: 1, Name: "default", Network: "10.20.0.0/20", Gateway: "10.20.0.1", DNSServers: []string{"8.8.8.8", "8.8.4.4"}, LeaseTime: time.Hour, ReservedStart: 10, ReservedEnd: 5})
	if err != nil {
		return nil, nil, err
	}
	if err := pm.AddPool(pool); err != nil {
		return nil, nil, err
	}
	srv, err := dhcp.NewServer(dhcp.ServerConfig{Interface: "lo", ServerIP: net.IPv4(10, 20, 0, 1), RADIUSAuthEnabled: withRadius}, loader, pm, lg)
	if err != nil {
		return nil, nil, err
	}
	nm, err := nat.NewManager(nat.ManagerConfig{Interface: "lo"}, lg)
	if err != nil {
		return nil, nil, err
	}
	nm.AddPublicIP(net.IPv4(203, 0, 113, 1))
	srv.SetNATManager(nm)
	var rf *radiusFake
	if withRadius {
		rf, err = newRadiusFake("verif-secret")
		if err != nil {
			return nil, nil, err
		}
		cl, err := rf.client()
		if err != nil {
			return nil, nil, err
		}
		srv.SetRADIUSClient(cl)
	}
	return srv, rf, nil
}

func dhcpEntry() *entry {
	return &entry{
		name: "dhcp.Server.handleDHCP", states: []string{"local-pool", "radius-auth"}, chunk: 1500, cost: 20, scale: true,
		quick: 20000, thorough: 100000,
		quota: func(state string, thorough bool) int {
			n := 16000
			if state == "radius-auth" { // every new session costs a RADIUS exchange over loopback
				n = 4000
			}
			if thorough {
				n *= 5
			}
			return n
		},
		open: func(state string, ev *env) (runner, error) {
			srv, rf, err := newDHCPServer(state == "radius-auth")
			if err != nil {
				return nil, err
			}
			conn := &capConn{}
			peer := &net.UDPAddr{IP: net.IPv4(10, 20, 0, 99), Port: 68}
			var lastOffer, lastAck []byte // follow-ups a well-behaved client would send next
			r := &fnRunner{seeds: dhcpSamples(), keep: 0}
			r.initSys("dhcp")
			r.dyn = func(rng *rand.Rand) []byte {
				if lastAck != nil && rng.IntN(3) == 0 {
					return lastAck
				}
				return lastOffer
			}
			r.close = func() {
				if rf != nil {
					time.Sleep(60 * time.Millisecond)
					rf.close()
				}
			}
			r.feed = func(in []byte) outcome {
				req, err := dhcpv4.FromBytes(exact(in))
				if err != nil {
					return outcome{class: "rejected-by-dhcpv4-library"}
				}
				sent := conn.n
				base := runtime.NumGoroutine()
				srv.VerifC09HandleDHCP(conn, peer, req)
				settle(base) // accounting goroutines started by the handler
				o := outcome{class: "no-reply", nontriv: true}
				mt := req.MessageType().String()
				if conn.n > sent {
					o.class = "reply"
					if rep, err := dhcpv4.FromBytes(conn.last); err == nil {
						o.class = "reply-" + rep.MessageType().String()
						switch rep.MessageType() {
						case dhcpv4.MessageTypeOffer:
							lastOffer = dhcpPkt(dhcpv4.MessageTypeRequest, req.ClientHWAddr, dhcpv4.WithOption(dhcpv4.OptRequestedIPAddress(rep.YourIPAddr)), dhcpv4.WithOption(dhcpv4.OptServerIdentifier(net.IPv4(10, 20, 0, 1))))
						case dhcpv4.MessageTypeAck:
							if len(req.ClientHWAddr) == 6 && rep.YourIPAddr != nil && !rep.YourIPAddr.IsUnspecified() {
								lastAck = dhcpPkt(dhcpv4.MessageTypeRelease, req.ClientHWAddr, dhcpv4.WithClientIP(rep.YourIPAddr))
							}
						}
					}
				}
				o.dist = map[string]string{"dhcpv4_msgtype_x_outcome": fmt.Sprintf("%s/%s/hlen%d/relay=%v/opt82=%v", mt, o.class, len(req.ClientHWAddr), !req.GatewayIPAddr.IsUnspecified(), req.Options.Has(dhcpv4.OptionRelayAgentInformation))}
				return o
			}
			r.scale = func(n int) []byte {
				sub := repeatTo(nil, []byte{9, 2, 0, 0}, n-300)
				return dhcpPkt(dhcpv4.MessageTypeDiscover, dhcpMAC(200), dhcpv4.WithGatewayIP(net.IPv4(10, 99, 0, 1)), dhcpv4.WithOption(dhcpv4.OptGeneric(dhcpv4.OptionRelayAgentInformation, sub)))
			}
			return r, nil
		},
	}
}

func option82Entry() *entry {
	return &entry{
		name: "dhcp.parseOption82", states: []string{"wire-packet", "raw-option-82"}, quick: 20000, thorough: 100000, chunk: 5000, cost: 2, scale: true,
		open: func(state string, ev *env) (runner, error) {
			r := &fnRunner{}
			if state == "wire-packet" {
				r.seeds = dhcpSamples()[1:4]
			} else {
				r.seeds = [][]byte{opt82Raw(), {1, 0}, {2, 1, 7, 1, 2, 'a', 'b', 9, 0}}
			}
			r.initSys("opt82" + state)
			r.feed = func(in []byte) outcome {
				var req *dhcpv4.DHCPv4
				if state == "wire-packet" {
					var err error
					req, err = dhcpv4.FromBytes(exact(in))
					if err != nil {
						return outcome{class: "rejected-by-dhcpv4-library"}
					}
				} else {
					req, _ = dhcpv4.New()
					req.Options[uint8(dhcpv4.OptionRelayAgentInformation)] = exact(in)
				}
				info := dhcp.VerifC09ParseOption82(req)
				if info == nil {
					return outcome{class: "no-option-82"}
				}
				return outcome{class: "parsed", nontriv: true, dist: map[string]string{"opt82_shape": fmt.Sprintf("cid=%v/rid=%v", info.CircuitID != nil, info.RemoteID != nil)}}
			}
			r.scale = func(n int) []byte {
				sub := repeatTo(nil, []byte{9, 2, 0, 0}, n)
				if state == "wire-packet" {
					return dhcpPkt(dhcpv4.MessageTypeDiscover, dhcpMAC(200), dhcpv4.WithOption(dhcpv4.OptGeneric(dhcpv4.OptionRelayAgentInformation, sub[:len(sub)-300])))
				}
				return sub
			}
			return r, nil
		},
	}
}

// ---------------------------------------------------------------------------------------------
// DHCPv6

func v6ClientID(i int) dhcpv6.Option {
	return dhcpv6.MakeClientIDOption((&dhcpv6.DUID{Type: dhcpv6.DUIDTypeLL, Data: []byte{0, 1, 2, 0xaa, 0, 0, 0, byte(i)}}).Serialize())
}

func v6ServerDUID() *dhcpv6.DUID {
	var hw net.HardwareAddr
	if ifc, err := net.InterfaceByName("lo"); err == nil {
		hw = ifc.HardwareAddr
	}
	return &dhcpv6.DUID{Type: dhcpv6.DUIDTypeLL, Data: append([]byte{0, 1}, hw...)}
}

func v6Samples() [][]byte {
	iana := dhcpv6.MakeIANAOption(&dhcpv6.IANA{IAID: 1, T1: 100, T2: 200})
	ianaAddr := dhcpv6.MakeIANAOption(&dhcpv6.IANA{IAID: 1, Options: []dhcpv6.Option{dhcpv6.MakeIAAddressOption(&dhcpv6.IAAddress{Address: net.ParseIP("2001:db8:1::2"), PreferredLifetime: 100, ValidLifetime: 200})}})
	iapd := dhcpv6.MakeIAPDOption(&dhcpv6.IAPD{IAID: 2, Options: []dhcpv6.Option{dhcpv6.MakeIAPrefixOption(&dhcpv6.IAPrefix{PrefixLength: 56, Prefix: net.ParseIP("2001:db8:100::")})}})
	sid := dhcpv6.MakeServerIDOption(v6ServerDUID())
	m := func(t uint8, o ...dhcpv6.Option) []byte {
		return (&dhcpv6.Message{Type: t, TransactionID: [3]byte{1, 2, 3}, Options: o}).Serialize()
	}
	return [][]byte{
		m(dhcpv6.MsgTypeSolicit, v6ClientID(1), iana, iapd, dhcpv6.Option{Code: dhcpv6.OptElapsedTime, Data: []byte{0, 0}}),
		m(dhcpv6.MsgTypeSolicit, v6ClientID(2), iana, dhcpv6.Option{Code: dhcpv6.OptRapidCommit}),
		m(dhcpv6.MsgTypeRequest, v6ClientID(1), sid, iana, iapd),
		m(dhcpv6.MsgTypeRenew, v6ClientID(1), sid, ianaAddr),
		m(dhcpv6.MsgTypeRebind, v6ClientID(1), ianaAddr),
		m(dhcpv6.MsgTypeConfirm, v6ClientID(1), ianaAddr),
		m(dhcpv6.MsgTypeRelease, v6ClientID(1), sid, ianaAddr),
		m(dhcpv6.MsgTypeDecline, v6ClientID(2), sid, ianaAddr),
		m(dhcpv6.MsgTypeInformationRequest, v6ClientID(3)),
	}
}

func dhcpv6ParserEntries() []*entry {
	msgs := v6Samples()
	o := dhcpv6.SerializeOptions([]dhcpv6.Option{v6ClientID(1), {Code: dhcpv6.OptElapsedTime, Data: []byte{0, 0}}, dhcpv6.MakeDNSServersOption([]net.IP{net.ParseIP("2001:db8::53")})})
	iana := (&dhcpv6.IANA{IAID: 1, T1: 2, T2: 3, Options: []dhcpv6.Option{dhcpv6.MakeIAAddressOption(&dhcpv6.IAAddress{Address: net.ParseIP("2001:db8:1::2"), PreferredLifetime: 1, ValidLifetime: 2}), dhcpv6.MakeStatusCodeOption(0, "ok")}}).Serialize()
	iapd := (&dhcpv6.IAPD{IAID: 1, T1: 2, T2: 3, Options: []dhcpv6.Option{dhcpv6.MakeIAPrefixOption(&dhcpv6.IAPrefix{PrefixLength: 56, Prefix: net.ParseIP("2001:db8:100::"), PreferredLifetime: 1, ValidLifetime: 2})}}).Serialize()
	iaaddr := (&dhcpv6.IAAddress{Address: net.ParseIP("2001:db8:1::2"), PreferredLifetime: 1, ValidLifetime: 2, Options: []dhcpv6.Option{dhcpv6.MakeStatusCodeOption(0, "fine")}}).Serialize()
	iapfx := (&dhcpv6.IAPrefix{PrefixLength: 56, Prefix: net.ParseIP("2001:db8:100::"), Options: []dhcpv6.Option{dhcpv6.MakeStatusCodeOption(0, "fine")}}).Serialize()
	duid := (&dhcpv6.DUID{Type: dhcpv6.DUIDTypeLL, Data: []byte{0, 1, 2, 3, 4, 5, 6, 7}}).Serialize()
	empty := []byte{0, 8, 0, 0} // zero-length option as repetition unit
	return []*entry{
		parserEntry("dhcpv6.ParseMessage", msgs, func(in []byte) (bool, error) {
			m, err := dhcpv6.ParseMessage(in)
			return m != nil && len(m.Options) > 0, err
		},
			func(n int) []byte { return repeatTo([]byte{1, 0, 0, 1}, empty, n) }),
		parserEntry("dhcpv6.ParseOptions", [][]byte{o, msgs[0][4:]}, func(in []byte) (bool, error) { x, err := dhcpv6.ParseOptions(in); return len(x) > 0, err },
			func(n int) []byte { return repeatTo(nil, empty, n) }),
		parserEntry("dhcpv6.ParseIANA", [][]byte{iana, iana[:12]}, func(in []byte) (bool, error) { x, err := dhcpv6.ParseIANA(in); return x != nil, err },
			func(n int) []byte { return repeatTo(iana[:12], empty, n) }),
		parserEntry("dhcpv6.ParseIAPD", [][]byte{iapd, iapd[:12]}, func(in []byte) (bool, error) { x, err := dhcpv6.ParseIAPD(in); return x != nil, err },
			func(n int) []byte { return repeatTo(iapd[:12], empty, n) }),
		parserEntry("dhcpv6.ParseIAAddress", [][]byte{iaaddr, iaaddr[:24]}, func(in []byte) (bool, error) { x, err := dhcpv6.ParseIAAddress(in); return x != nil, err },
			func(n int) []byte { return repeatTo(iaaddr[:24], empty, n) }),
		parserEntry("dhcpv6.ParseIAPrefix", [][]byte{iapfx, iapfx[:25]}, func(in []byte) (bool, error) { x, err := dhcpv6.ParseIAPrefix(in); return x != nil, err },
			func(n int) []byte { return repeatTo(iapfx[:25], empty, n) }),
		parserEntry("dhcpv6.ParseDUID", [][]byte{duid, {0, 1}}, func(in []byte) (bool, error) { x, err := dhcpv6.ParseDUID(in); return x != nil, err }, nil),
	}
}

func dhcpv6Entry() *entry {
	return &entry{
		name: "dhcpv6.Server.handleMessage", quick: 20000, thorough: 100000, chunk: 1000, cost: 15, scale: true,
		open: func(state string, ev *env) (runner, error) {
			srv, err := dhcpv6.NewServer(dhcpv6.ServerConfig{Interface: "lo", AddressPool: "2001:db8:1::/64", PrefixPool: "2001:db8:100::/40", DelegationLength: 56, DNSServers: []string{"2001:db8::53"}}, zap.NewNop())
			if err != nil {
				return nil, err
			}
			conn, err := net.ListenUDP("udp6", &net.UDPAddr{IP: net.IPv6loopback, Port: 0})
			if err != nil {
				return nil, err
			}
			srv.VerifC09SetConn(conn)
			from := &net.UDPAddr{IP: net.IPv6loopback, Port: 546}
			r := &fnRunner{seeds: v6Samples()}
			r.initSys("dhcpv6")
			r.close = func() { conn.Close() }
			sum := func(m map[string]uint64) (sent uint64) { return m["advertises_sent"] + m["replies_sent"] }
			r.feed = func(in []byte) outcome {
				// what receiveLoop does with a datagram: ParseMessage, then handleMessage
				msg, err := dhcpv6.ParseMessage(exact(in))
				if err != nil {
					return outcome{class: "parse-error"}
				}
				b := srv.GetStats()
				srv.VerifC09HandleMessage(msg, from)
				a := srv.GetStats()
				o := outcome{class: "no-reply", nontriv: true}
				if sum(a) > sum(b) {
					o.class = "reply"
				}
				o.dist = map[string]string{"dhcpv6_msgtype_x_outcome": fmt.Sprintf("type%d/%s/iana=%d/iapd=%d", msg.Type, o.class, min(len(msg.GetAllOptions(dhcpv6.OptIANA)), 3), min(len(msg.GetAllOptions(dhcpv6.OptIAPD)), 3))}
				return o
			}
			r.scale = func(n int) []byte {
				unit := dhcpv6.SerializeOptions([]dhcpv6.Option{dhcpv6.MakeIANAOption(&dhcpv6.IANA{IAID: 1})})
				head := (&dhcpv6.Message{Type: dhcpv6.MsgTypeSolicit, TransactionID: [3]byte{9, 9, 9}, Options: []dhcpv6.Option{v6ClientID(77)}}).Serialize()
				return repeatTo(head, unit, n)
			}
			return r, nil
		},
	}
}

// ---------------------------------------------------------------------------------------------
// RADIUS: CoA listener (real loopback socket), attribute parser, client response path

const coaSecret = "verif-coa-secret"

func coaSign(b []byte, secret string) {
	if len(b) < 20 {
		return
	}
	l := int(binary.BigEndian.Uint16(b[2:4]))
	if l < 20 || l > len(b) {
		return
	}
	h := md5.New()
	h.Write(b[:4])
	h.Write(make([]byte, 16))
	h.Write(b[20:l])
	h.Write([]byte(secret))
	copy(b[4:20], h.Sum(nil))
}

func radiusPkt(code byte, id byte, attrs ...[]byte) []byte {
	b := make([]byte, 20)
	b[0], b[1] = code, id
	for _, a := range attrs {
		b = append(b, a...)
	}
	binary.BigEndian.PutUint16(b[2:4], uint16(len(b)))
	return b
}

func attr(t byte, v []byte) []byte { return append([]byte{t, byte(2 + len(v))}, v...) }

func radiusAttrSamples() [][]byte {
	vsa := attr(26, append(be32(9), attr(1, []byte("subscriber:qos=gold"))...))
	return [][]byte{
		bytes.Join([][]byte{attr(1, []byte("alice")), attr(44, []byte("live-7")), attr(8, []byte{10, 9, 0, 8}), attr(11, []byte("gold")), attr(27, be32(3600)), attr(28, be32(600)), vsa}, nil),
		bytes.Join([][]byte{attr(31, []byte("02:00:00:00:00:07")), attr(4, []byte{192, 0, 2, 1}), attr(25, []byte{1, 2, 3})}, nil),
		attr(44, nil),
	}
}

func coaSamples() [][]byte {
	as := radiusAttrSamples()
	out := [][]byte{
		radiusPkt(radius.CodeCoARequest, 1, as[0]),
		radiusPkt(radius.CodeCoARequest, 2, as[1]),
		radiusPkt(radius.CodeDisconnectRequest, 3, as[0]),
		radiusPkt(radius.CodeDisconnectRequest, 4, attr(44, []byte("live-3"))),
		radiusPkt(radius.CodeDisconnectRequest, 5),
		radiusPkt(1, 6, attr(1, []byte("alice"))),
	}
	for _, b := range out {
		coaSign(b, coaSecret)
	}
	return out
}

type coaLoop struct {
	ev      *env
	srv     *radius.CoAServer
	c       *net.UDPConn
	fn      *fnRunner
	probe   []byte
	buf     []byte
	crashed chan *feedPanic
	cancel  context.CancelFunc
	dead    *feedPanic
	seq     int
	probes  int
	last    []byte // the last datagram that was not the reply to a probe (reply-construction sweep)
}

func openCoALoop(ev *env) (*coaLoop, error) { return openCoALoopVariant(ev, "") }

// openCoALoopVariant: variant "" is the usual set-up (processor over a small session table whose
// back ends succeed); "backends-failing": the session exists but terminator, policy updater and
// fast path updater report errors; "no-session-table": a processor nobody gave any lookup or
// back end function; "no-handlers": the bare listener without processor.
func openCoALoopVariant(ev *env, variant string) (*coaLoop, error) {
	srv, err := radius.NewCoAServer(radius.CoAServerConfig{Address: "127.0.0.1:0", Secret: coaSecret}, zap.NewNop())
	if err != nil {
		return nil, err
	}
	// the real CoAProcessor as handler, over a small session table
	p := radius.NewCoAProcessor(zap.NewNop())
	info := func(id string) (*radius.SessionInfo, bool) {
		if !strings.HasPrefix(id, "live-") {
			return nil, false
		}
		return &radius.SessionInfo{SessionID: id, Username: "alice", MAC: net.HardwareAddr{2, 0, 0, 0, 0, 7}, FramedIP: net.IPv4(10, 9, 0, 8), State: "active"}, true
	}
	var backendErr error
	if variant == "backends-failing" {
		backendErr = fmt.Errorf("map full")
	}
	if variant != "no-session-table" {
		p.SetSessionLookup(info)
		p.SetSessionLookupByIP(func(ip net.IP) (*radius.SessionInfo, bool) {
			if ip.Equal(net.IPv4(10, 9, 0, 8)) {
				return info("live-7")
			}
			return nil, false
		})
		p.SetSessionLookupByMAC(func(m string) (*radius.SessionInfo, bool) {
			if strings.EqualFold(m, "02:00:00:00:00:07") {
				return info("live-7")
			}
			return nil, false
		})
		p.SetSessionTerminator(func(ctx context.Context, id string, reason uint32) error { return backendErr })
		p.SetSessionPolicyUpdater(func(ctx context.Context, id string, u *radius.PolicyUpdate) error { return backendErr })
		p.SetEBPFQoSUpdater(func(id string, d, u uint64) error { return backendErr })
	}
	if variant != "no-handlers" {
		srv.SetCoAHandler(p.HandleCoA)
		srv.SetDisconnectHandler(p.HandleDisconnect)
	}
	if variant == "handler-text" { // handlers of the harness: reply text of the length the request names (c09_replies_test.go)
		srv.SetCoAHandler(rpCoATextHandler)
		srv.SetDisconnectHandler(rpDiscTextHandler)
	}
	// what Start does: listen, mark running, run receiveLoop on its own goroutine — here on a
	// goroutine whose deferred guard reports a panic that unwinds the loop (process-fatal in production)
	lc, err := net.ListenUDP("udp4", &net.UDPAddr{IP: net.IPv4(127, 0, 0, 1), Port: 0})
	if err != nil {
		return nil, err
	}
	srv.VerifC09Bind(lc)
	ctx, cancel := context.WithCancel(context.Background())
	crashed := make(chan *feedPanic, 1)
	go func() {
		defer loopGuard(crashed, "radius.CoAServer.receiveLoop")
		srv.VerifC09ReceiveLoop(ctx)
	}()
	addr, _ := srv.VerifC09Addr().(*net.UDPAddr)
	if addr == nil {
		cancel()
		return nil, fmt.Errorf("listener has no address")
	}
	c, err := net.DialUDP("udp4", nil, addr)
	if err != nil {
		cancel()
		return nil, err
	}
	l := &coaLoop{ev: ev, srv: srv, c: c, buf: make([]byte, 4096), crashed: crashed, cancel: cancel}
	l.fn = &fnRunner{seeds: coaSamples()}
	l.fn.initSys("coa")
	l.fn.fix = func(b []byte, rng *rand.Rand) []byte {
		coaSign(b, coaSecret)
		return b
	}
	if _, ok := l.roundtrip(nil); !ok {
		return nil, fmt.Errorf("listener does not answer a well-formed Disconnect-Request")
	}
	return l, nil
}

// roundtrip sends the input (if any) followed by a fresh well-formed probe and collects replies
// until the reply to that probe arrives: the listener handles datagrams one by one, so the
// probe's reply means the input has been handled completely. The probe's reply is recognised
// by its response authenticator (computed over the probe's own request authenticator).
func (l *coaLoop) roundtrip(in []byte) (replies int, alive bool) {
	l.seq++
	probe := radiusPkt(radius.CodeDisconnectRequest, byte(l.seq), attr(44, []byte(fmt.Sprintf("probe-no-such-session-%d", l.seq))))
	coaSign(probe, coaSecret)
	isProbeReply := func(r []byte) bool {
		if len(r) < 20 || r[1] != probe[1] {
			return false
		}
		want := append([]byte(nil), r...)
		respAuth(want, probe[4:20], []byte(coaSecret))
		return bytes.Equal(want[4:20], r[4:20])
	}
	l.last = l.last[:0]
	if in != nil {
		l.c.Write(in)
	}
	deadline := time.Now().Add(4 * time.Second)
	l.probes = 0
	for time.Now().Before(deadline) {
		l.c.Write(probe)
		l.probes++
		for {
			l.c.SetReadDeadline(time.Now().Add(40 * time.Millisecond))
			n, err := l.c.Read(l.buf)
			if err != nil {
				select {
				case p := <-l.crashed:
					l.dead = p
					return replies, false
				default:
				}
				break
			}
			if isProbeReply(l.buf[:n]) {
				return replies, true
			}
			if n >= 2 && l.buf[0] == radius.CodeDisconnectNAK && bytes.Contains(l.buf[:n], []byte("probe")) {
				continue // late reply to an earlier probe
			}
			replies++
			l.last = append(l.last[:0], l.buf[:n]...)
		}
	}
	return replies, false
}

func (l *coaLoop) Next(i int, rng *rand.Rand) []byte { return l.fn.Next(i, rng) }

func (l *coaLoop) Feed(in []byte) outcome {
	if len(in) == 0 {
		in = []byte{0} // an empty datagram cannot be told apart from none on a connected socket
	}
	b := l.srv.GetStats()
	replies, alive := l.roundtrip(in)
	if l.dead != nil {
		return outcome{pan: l.dead}
	}
	if !alive {
		fmt.Fprintln(os.Stderr, "C09-LISTENER-DEAD")
		os.Exit(8)
	}
	a := l.srv.GetStats()
	o := outcome{class: "dropped"}
	got := (a["coa_requests_received"] - b["coa_requests_received"]) + (a["disconnect_requests_received"] - b["disconnect_requests_received"]) - uint64(l.probes) // minus the probes
	if replies > 0 {
		o.class = "replied"
		o.nontriv = true
	} else if got > 0 && got < 1000 {
		o.class = "handled-no-reply"
		o.nontriv = true
	}
	code := -1
	if len(in) > 0 {
		code = int(in[0])
		if code != 40 && code != 43 {
			code = 0
		}
	}
	o.dist = map[string]string{"coa_code_x_outcome": fmt.Sprintf("code%d/%s/acks=%d/naks=%d", code, o.class,
		a["coa_acks_sent"]-b["coa_acks_sent"]+a["disconnect_acks_sent"]-b["disconnect_acks_sent"], a["coa_naks_sent"]-b["coa_naks_sent"]+a["disconnect_naks_sent"]-b["disconnect_naks_sent"]-uint64(l.probes))}
	return o
}

func (l *coaLoop) Close() { l.cancel(); l.c.Close(); l.srv.Stop() }

func (l *coaLoop) ScaleInput(n int) []byte {
	b := radiusPkt(radius.CodeCoARequest, 9, repeatTo(nil, []byte{26, 2}, n-20))
	coaSign(b, coaSecret)
	return b
}

func coaEntry() *entry {
	return &entry{
		name: "radius.CoAServer.receiveLoop", quick: 20000, thorough: 100000, chunk: 1000, cost: 40, scale: true,
		open: func(state string, ev *env) (runner, error) { return openCoALoop(ev) },
	}
}

func radiusClientEntry() *entry {
	return &entry{
		name: "radius.Client.Authenticate", states: []string{"access", "accounting"}, quick: 4000, thorough: 20000, chunk: 400, cost: 400,
		open: func(state string, ev *env) (runner, error) {
			rf, err := newRadiusFake("verif-secret")
			if err != nil {
				return nil, err
			}
			cl, err := rf.client()
			if err != nil {
				return nil, err
			}
			mk := func(code lradius.Code, f func(p *lradius.Packet)) []byte {
				p := lradius.New(code, []byte("verif-secret"))
				f(p)
				b, err := p.Encode()
				if err != nil {
					panic(err)
				}
				return b
			}
			seeds := [][]byte{
				mk(lradius.CodeAccessAccept, func(p *lradius.Packet) {
					rfc2865.SessionTimeout_Set(p, 3600)
					rfc2865.IdleTimeout_Set(p, 600)
					rfc2865.FramedIPAddress_Set(p, net.IPv4(10, 9, 0, 8))
					rfc2865.FilterID_SetString(p, "gold")
					rfc2865.Class_Set(p, []byte{1, 2, 3})
				}),
				mk(lradius.CodeAccessReject, func(p *lradius.Packet) { rfc2865.ReplyMessage_SetString(p, "no") }),
				mk(lradius.CodeAccessChallenge, func(p *lradius.Packet) { rfc2865.State_Set(p, []byte{1}) }),
				mk(lradius.CodeAccountingResponse, func(p *lradius.Packet) {}),
				mk(lradius.CodeAccessAccept, func(p *lradius.Packet) { rfc2866.AcctSessionID_SetString(p, "x") }),
			}
			r := &fnRunner{seeds: seeds}
			r.initSys("radius-client")
			r.fix = func(b []byte, rng *rand.Rand) []byte {
				// most responses should survive the client's framing check so that bng's own handling is reached
				if len(b) >= 20 && rng.IntN(4) != 0 {
					binary.BigEndian.PutUint16(b[2:4], uint16(len(b)))
				}
				return b
			}
			r.close = rf.close
			r.feed = func(in []byte) outcome {
				rf.mu.Lock()
				rf.next = append([]byte{}, in...)
				rf.mu.Unlock()
				ctx, cancel := context.WithTimeout(context.Background(), 2*time.Second)
				defer cancel()
				if state == "accounting" {
					err := cl.SendAccounting(ctx, &radius.AcctRequest{SessionID: "s1", Username: "alice", MAC: net.HardwareAddr{2, 0, 0, 0, 0, 7}, FramedIP: net.IPv4(10, 9, 0, 8), StatusType: radius.AcctStatusStop, InputOctets: 1 << 33, OutputOctets: 5, SessionTime: 9, TerminateCause: 1, Class: []byte{1}})
					return outcome{class: errClass(err), nontriv: err == nil}
				}
				resp, err := cl.Authenticate(ctx, &radius.AuthRequest{Username: "alice", Password: "pw", MAC: net.HardwareAddr{2, 0, 0, 0, 0, 7}, NASPortType: 15})
				o := outcome{class: errClass(err), nontriv: err == nil}
				if resp != nil {
					o.class = fmt.Sprintf("accepted=%v", resp.Accepted)
					o.dist = map[string]string{"radius_response_shape": fmt.Sprintf("acc=%v/st=%v/ip=%v/filter=%v/class=%v", resp.Accepted, resp.SessionTimeout != 0, resp.FramedIP != nil, resp.FilterID != "", resp.Class != nil)}
				}
				return o
			}
			return r, nil
		},
	}
}

// ---------------------------------------------------------------------------------------------
// HA sync messages

func haSamples() [][]byte {
	now := time.Unix(1700000000, 0).UTC()
	sess := ha.SessionState{SessionID: "s-1", SubscriberID: "sub-1", MAC: "02:00:00:00:00:01", IP: "10.0.0.5", IPv6: "2001:db8::5", VLAN: 100, STag: 10, CTag: 20, QoSProfile: "gold", DownloadRateBps: 1e8, SessionType: "ipoe", Username: "alice", CreatedAt: now, LastActivity: now, State: "active"}
	var out [][]byte
	for _, t := range []ha.SyncMessageType{ha.SyncTypeFull, ha.SyncTypeAdd, ha.SyncTypeUpdate, ha.SyncTypeDelete, ha.SyncTypeHeartbeat, ha.SyncTypeFullRequest} {
		m := &ha.SyncMessage{Type: t, Timestamp: now, SequenceNum: 7, NodeID: "bng-a"}
		if t != ha.SyncTypeHeartbeat && t != ha.SyncTypeFullRequest {
			s2 := sess
			s2.SessionID = "s-2"
			m.Sessions = []ha.SessionState{sess, s2}
		}
		b, err := m.Encode()
		if err != nil {
			panic(err)
		}
		out = append(out, b)
	}
	return out
}

func haScale(n int) []byte {
	unit := []byte(`{"session_id":"s","mac":"m","ip":"1.2.3.4","vlan":1,"session_type":"ipoe","state":"a","walled_garden":false},`)
	b := repeatTo([]byte(`{"type":"add","node_id":"a","timestamp":"2024-01-01T00:00:00Z","sessions":[`), unit, n-60)
	return append(b, []byte(`{"session_id":"z"}]}`)...)
}

func haEntry() *entry {
	return &entry{
		name: "ha.HASyncer.handleSSEData", quick: 20000, thorough: 100000, chunk: 5000, cost: 8, scale: true,
		open: func(state string, ev *env) (runner, error) {
			cfg := ha.DefaultSyncConfig()
			cfg.NodeID, cfg.Role, cfg.Partner = "bng-b", ha.RoleStandby, &ha.PartnerInfo{NodeID: "bng-a", Endpoint: "127.0.0.1:1"}
			store := ha.NewInMemorySessionStore()
			s := ha.NewHASyncer(cfg, store, zap.NewNop())
			r := &fnRunner{seeds: haSamples(), scale: haScale}
			r.initSys("ha")
			r.feed = func(in []byte) outcome {
				b := s.Stats().MessagesReceived
				n0 := store.GetSessionCount()
				err := s.VerifC09HandleSSEData(exact(in))
				o := outcome{class: errClass(err), nontriv: err == nil && s.Stats().MessagesReceived > b}
				if n1 := store.GetSessionCount(); n1 != n0 {
					o.class += "+store-changed"
				}
				return o
			}
			return r, nil
		},
	}
}

// ---------------------------------------------------------------------------------------------
// NAT ALGs

func algEntry() *entry {
	ftpOut := [][]byte{[]byte("PORT 10,0,0,5,4,1\r\n"), []byte("EPRT |1|10.0.0.5|1025|\r\n"), []byte("USER anonymous\r\nPORT 192,168,1,2,200,13\r\nLIST\r\n"), []byte("eprt |1|not-an-ip|99999999999999999999|\r\n"), []byte("EPRT |2|2001:db8::5|1025|\r\n")}
	ftpIn := [][]byte{[]byte("227 Entering Passive Mode (198,51,100,7,19,137)\r\n"), []byte("229 Entering Extended Passive Mode (|||6446|)\r\n"), []byte("220 hello\r\n227 ok (1,2,3,4,5,6)\r\n")}
	sip := func(ip string) []byte {
		return []byte("INVITE sip:bob@example.com SIP/2.0\r\nVia: SIP/2.0/UDP " + ip + ":5060;branch=z9hG4bK776\r\nContact: <sip:alice@" + ip + ":5060>\r\nContent-Type: application/sdp\r\n\r\nv=0\r\no=- 1 1 IN IP4 " + ip + "\r\nc=IN IP4 " + ip + "\r\nm=audio 49170 RTP/AVP 0\r\n")
	}
	return &entry{
		name: "nat.ALGHandler.ProcessPacket", states: []string{"ftp-outbound", "ftp-inbound", "sip-outbound", "sip-inbound"}, quick: 32000, thorough: 160000, chunk: 8000, cost: 6, scale: true,
		open: func(state string, ev *env) (runner, error) {
			lg := zap.NewNop()
			nm, err := nat.NewManager(nat.ManagerConfig{Interface: "lo", EnableFTPALG: true, EnableSIPALG: true}, lg)
			if err != nil {
				return nil, err
			}
			nm.AddPublicIP(net.IPv4(203, 0, 113, 1))
			h := nat.NewALGHandler(nm, lg)
			conn := &nat.ALGConnection{SubscriberID: 1, PrivateIP: net.IPv4(10, 0, 0, 5), PrivatePort: 40000, PublicIP: net.IPv4(203, 0, 113, 1), PublicPort: 2048, DestIP: net.IPv4(198, 51, 100, 7), DestPort: 21, Protocol: 6}
			typ, outb := nat.ALGTypeFTP, true
			var seeds [][]byte
			var unit []byte
			switch state {
			case "ftp-outbound":
				seeds, unit = ftpOut, []byte("PORT 10,0,0,5,4,1\r\n")
			case "ftp-inbound":
				seeds, outb, unit = ftpIn, false, []byte("227 x (1,2,3,4,5,6)\r\n")
			case "sip-outbound":
				typ, seeds, unit = nat.ALGTypeSIP, [][]byte{sip("10.0.0.5")}, []byte("Via: SIP/2.0/UDP 10.0.0.5\r\n")
			default:
				typ, outb, seeds, unit = nat.ALGTypeSIP, false, [][]byte{sip("203.0.113.1")}, []byte("c=IN IP4 203.0.113.1\r\n")
			}
			r := &fnRunner{seeds: seeds}
			r.initSys("alg" + state)
			r.feed = func(in []byte) outcome {
				x := exact(in)
				out, err := h.ProcessPacket(typ, conn, x, outb)
				o := outcome{class: errClass(err)}
				if err == nil && !bytes.Equal(out, in) {
					o.class = "rewritten"
					o.nontriv = true
				} else if err == nil && h.GetDynamicMapping(conn.PrivateIP, 6446, 6) != nil {
					o.nontriv = true
				}
				return o
			}
			r.scale = func(n int) []byte { return repeatTo(nil, unit, n) }
			return r, nil
		},
	}
}

// ---------------------------------------------------------------------------------------------
// ZTP: DHCP ACK -> Nexus URL

func ztpEntry() *entry {
	return &entry{
		name: "ztp.extractNexusURL", states: []string{"wire-ack", "raw-option-43", "raw-option-224"}, quick: 20000, thorough: 100000, chunk: 5000, cost: 2,
		open: func(state string, ev *env) (runner, error) {
			v43 := append([]byte{1, 22}, []byte("https://nexus.example/")...)
			ack := func(mods ...dhcpv4.Modifier) []byte {
				return dhcpPkt(dhcpv4.MessageTypeAck, dhcpMAC(1), append(mods, dhcpv4.WithYourIP(net.IPv4(10, 1, 1, 5)))...)
			}
			r := &fnRunner{}
			if state == "wire-ack" {
				r.seeds = [][]byte{ack(dhcpv4.WithOption(dhcpv4.OptGeneric(dhcpv4.GenericOptionCode(43), v43))), ack(dhcpv4.WithOption(dhcpv4.OptGeneric(dhcpv4.GenericOptionCode(224), []byte("https://n/"))))}
			} else {
				r.seeds = [][]byte{v43, {2, 3, 1, 2, 3, 1, 4, 'h', 't', 't', 'p'}, {1, 0}}
			}
			r.initSys("ztp" + state)
			r.feed = func(in []byte) outcome {
				var p *dhcpv4.DHCPv4
				switch state {
				case "wire-ack":
					var err error
					if p, err = dhcpv4.FromBytes(exact(in)); err != nil {
						return outcome{class: "rejected-by-dhcpv4-library"}
					}
				case "raw-option-43":
					p, _ = dhcpv4.New()
					p.Options[43] = exact(in)
				default:
					p, _ = dhcpv4.New()
					p.Options[224] = exact(in)
				}
				u := ztp.VerifC09ExtractNexusURL(p)
				return outcome{class: map[bool]string{true: "url", false: "no-url"}[u != ""], nontriv: u != ""}
			}
			return r, nil
		},
	}
}
