package c09

// C09, fourth pass: *response construction* as part of the handler.
//
// Every handler that builds a reply whose size depends on what the request carried gets authentic,
// well-formed requests whose variable-length fields are swept over their whole length range (every
// length, not a sample), in each state in which the handler answers: RADIUS CoA / Disconnect with
// the project's CoAProcessor (error texts built from the identification attributes) and with
// handlers that return texts of every length 0..300; the three PPP automata (Echo-Reply,
// Code-Reject, Configure-Reject / -Nak, Terminate-Ack echoing up to the MRU and beyond); the PPPoE
// server (PADO / PADS echoing Host-Uniq, Relay-Session-Id, AC-Cookie; Echo-Reply, Code-Reject and
// Protocol-Reject through the real receive loop for sessions in every phase); DHCPv4 / DHCPv6
// replies to requests whose client-supplied options have every length. The oracle is the one of the
// other passes: no panic, no hang, nothing read beyond the input, listener alive. What the replies
// looked like (text length classes, longest reply, replies longer than the MRU / MTU, reply
// attributes whose one-octet length wrapped) is recorded as evidence, not judged.
//
// The streams are systematic lists (entry.totalFn = their length): input i is descriptor i, the
// same in both tiers and for every seed.

import (
	"bytes"
	"context"
	"encoding/binary"
	"fmt"
	"math/rand/v2"
	"net"
	"sort"
	"strings"

	"github.com/codelaboratoryltd/bng/pkg/dhcpv6"
	"github.com/codelaboratoryltd/bng/pkg/pppoe"
	"github.com/codelaboratoryltd/bng/pkg/radius"
)

func replyEntries() []*entry {
	return []*entry{
		rpCoAEntry(),
		rpFSMEntry("reply:pppoe.LCPStateMachine", "pppoe.LCPStateMachine.ReceivePacket", "lcp", lcpGoodReq),
		rpFSMEntry("reply:pppoe.IPCPStateMachine", "pppoe.IPCPStateMachine.ReceivePacket", "ipcp", ipcpGoodReq),
		rpFSMEntry("reply:pppoe.IPV6CPStateMachine", "pppoe.IPV6CPStateMachine.ReceivePacket", "ipv6cp", ipv6cpGoodReq),
		rpPPPoEEntry(),
		rpDHCPv4Entry(),
		rpDHCPv6Entry(),
	}
}

func lenClass(n int) string {
	switch {
	case n <= 252:
		return "le252"
	case n <= 256:
		return fmt.Sprint(n)
	case n < 65533:
		return "ge257"
	default:
		return "ge65533"
	}
}

// =============================================================================================
// RADIUS CoA / Disconnect: Reply-Message and Error-Cause built from the request

var rpCoAStates = []string{"processor/unknown-session", "handler-text"}

// the handlers of state handler-text: the request names (in User-Name) the length of the text, the
// verdict and the Error-Cause the handler returns
func rpTextOf(user string) (bool, uint32, string) {
	var n, ok, ec int
	if _, err := fmt.Sscanf(user, "reply-len=%d;ok=%d;ec=%d", &n, &ok, &ec); err != nil || n < 0 || n > 4096 {
		return false, 404, "unparsable"
	}
	return ok == 1, uint32(ec), strings.Repeat("m", n)
}

func rpCoATextHandler(ctx context.Context, req *radius.CoARequest) *radius.CoAResponse {
	ok, ec, msg := rpTextOf(req.Username)
	return &radius.CoAResponse{Success: ok, ErrorCause: ec, Message: msg}
}

func rpDiscTextHandler(ctx context.Context, req *radius.DisconnectRequest) *radius.DisconnectResponse {
	ok, ec, msg := rpTextOf(req.Username)
	return &radius.DisconnectResponse{Success: ok, ErrorCause: ec, Message: msg}
}

const rpTextMax = 300

type rpCoACtx struct {
	sweep int       // attribute whose value takes every length 0..253
	other []tlvItem // the rest of the request
}

func rpCoAContexts() []rpCoACtx {
	sv := func(t int, n int, c byte) tlvItem { return tlvItem{t: t, v: bytes.Repeat([]byte{c}, n), lie: -1} }
	ip := it(8, 10, 99, 0, 1) // no session has this address
	return []rpCoACtx{
		{44, nil}, {44, []tlvItem{sv(31, 1, 'a')}}, {44, []tlvItem{sv(31, 17, 'b')}}, {44, []tlvItem{ip}}, {44, []tlvItem{sv(31, 17, 'b'), ip, sv(1, 5, 'u')}}, {44, []tlvItem{sv(31, 253, 'c')}},
		{31, nil}, {31, []tlvItem{sv(44, 1, 'd')}}, {31, []tlvItem{sv(44, 15, 'e')}}, {31, []tlvItem{sv(44, 100, 'f'), ip}}, {31, []tlvItem{sv(44, 253, 'g')}}, {31, []tlvItem{ip}},
		{1, []tlvItem{sv(44, 9, 'h')}}, {11, []tlvItem{sv(44, 9, 'h'), sv(31, 17, 'b')}},
	}
}

var rpCoACodes = []byte{radius.CodeCoARequest, radius.CodeDisconnectRequest}

func rpCoATotal(state string) int {
	if state == "handler-text" {
		return 2 * 2 * 2 * (rpTextMax + 1)
	}
	return 2 * len(rpCoAContexts()) * 254
}

func rpCoAInput(state string, i int) []byte {
	if state == "handler-text" {
		n := i % (rpTextMax + 1)
		i /= rpTextMax + 1
		ec := []int{0, 503}[i%2]
		ok := (i / 2) % 2
		code := rpCoACodes[(i/4)%2]
		user := fmt.Sprintf("reply-len=%d;ok=%d;ec=%d", n, ok, ec)
		return coaFrame(code, byte(n), radSpec.ser([]tlvItem{{t: 1, v: []byte(user), lie: -1}, {t: 44, v: []byte("live-7"), lie: -1}}), 0)
	}
	l := i % 254
	i /= 254
	cs := rpCoAContexts()
	c := cs[i%len(cs)]
	code := rpCoACodes[(i/len(cs))%2]
	items := append([]tlvItem{{t: c.sweep, v: bytes.Repeat([]byte{'x'}, l), lie: -1}}, c.other...)
	return coaFrame(code, byte(l), radSpec.ser(items), 0)
}

type rpCoA struct {
	*coaLoop
	ev    *env
	name  string
	state string
}

func (g *rpCoA) Next(i int, rng *rand.Rand) []byte { return rpCoAInput(g.state, i) }

func (g *rpCoA) Feed(in []byte) outcome {
	o := g.coaLoop.Feed(in) // the datagram, then a well-formed probe that must be answered
	if o.pan != nil {
		return o
	}
	k := "reply_coa/" + g.state + "/"
	rep := g.coaLoop.last
	if len(rep) < 20 || len(in) < 1 {
		g.ev.Count(k+"no-reply", 1)
		gateCount(g.ev, g.name, g.state, gReject)
		return o
	}
	gateCount(g.ev, g.name, g.state, gPassed)
	o.nontriv = true
	// what was built: datagram = header, optional Error-Cause (6 octets), optional Reply-Message
	rest := rep[20:]
	ec := len(rest) >= 6 && rest[0] == 101 && rest[1] == 6
	if ec {
		rest = rest[6:]
	}
	tl := 0
	if len(rest) >= 2 && rest[0] == 18 {
		tl = len(rest) - 2
		if int(rest[1]) != len(rest) {
			g.ev.Count(k+"reply-message-length-octet-differs-from-text", 1) // evidence only: outside the statement of C09
		}
	}
	g.ev.Count(k+"text_len_"+lenClass(tl), 1)
	if int(binary.BigEndian.Uint16(rep[2:4])) != len(rep) || len(rep) > 4096 {
		g.ev.Count(k+"reply-length-field-differs-from-datagram", 1)
	}
	o.class = fmt.Sprintf("reply-code%d", rep[0])
	o.dist = map[string]string{
		"reply_coa_state_x_code_x_text_len": fmt.Sprintf("%s/code%d->%d/ec=%v/text=%d", g.state, in[0], rep[0], ec, tl),
	}
	return o
}

func rpCoAEntry() *entry {
	name := "reply:radius.CoAServer.sendResponse"
	return &entry{
		name: name, comp: "radius.CoAServer.receiveLoop", states: rpCoAStates, chunk: 1300, cost: 40,
		totalFn: func(bool) int { return rpCoATotal(rpCoAStates[0]) + rpCoATotal(rpCoAStates[1]) },
		quota:   func(state string, _ bool) int { return rpCoATotal(state) },
		floors: func(bool) map[string]int {
			m := map[string]int{}
			for _, st := range rpCoAStates {
				for _, c := range []string{"le252", "253", "254", "255", "256", "ge257"} {
					m["reply_coa/"+st+"/text_len_"+c] = 2 // both request codes
				}
			}
			m["gate_passed/"+name] = (rpCoATotal(rpCoAStates[0]) + rpCoATotal(rpCoAStates[1])) * 9 / 10
			return m
		},
		open: func(state string, ev *env) (runner, error) {
			variant := ""
			if state == "handler-text" {
				variant = state
			}
			l, err := openCoALoopVariant(ev, variant)
			if err != nil {
				return nil, err
			}
			return &rpCoA{coaLoop: l, ev: ev, name: name, state: state}, nil
		},
	}
}

// =============================================================================================
// LCP / IPCP / IPv6CP automata: Echo-Reply, Code-Reject, Terminate-Ack, Configure-Reject / -Nak

type rpDesc struct {
	kind string
	n    int
}

func rpSweep(out []rpDesc, kind string, from, to int) []rpDesc {
	for n := from; n <= to; n++ {
		out = append(out, rpDesc{kind, n})
	}
	return out
}

const rpMaxData = 1500

// rpFSMDescs lists the sweep of one (protocol, state). Every data length 0..1500 is delivered in the
// states in which a request is outstanding / answered / the layer is opened (LCP: Req-Sent, Ack-Sent,
// Opened; the two network control protocols: Opened, unknown code only); everywhere else every
// length on both sides of the one-octet boundary (0..260) and of the MRU (1480..1500).
// Echo-Request is an LCP packet: the other two protocols get the short ranges of it. The network
// control protocols are swept in the six states in which they can meet a packet after LCP opened.
func rpFSMStates(proto string) []string {
	if proto == "lcp" {
		return fsmStates
	}
	return []string{"Closed", "Stopped", "Req-Sent", "Ack-Rcvd", "Ack-Sent", "Opened"}
}

func rpFSMFull(proto, state, kind string) bool {
	if proto == "lcp" {
		return state == "Req-Sent" || state == "Ack-Sent" || state == "Opened"
	}
	return state == "Opened" && kind == "unknown-code"
}

func rpFSMDescs(proto, state string) []rpDesc {
	var d []rpDesc
	key := rpFSMFull(proto, state, "unknown-code")
	for _, kind := range []string{"echo-request", "unknown-code", "terminate-request"} {
		if rpFSMFull(proto, state, kind) {
			d = rpSweep(d, kind, 0, rpMaxData)
		} else {
			d = rpSweep(d, kind, 0, 260)
			d = rpSweep(d, kind, 1480, rpMaxData)
		}
	}
	d = rpSweep(d, "conf-req/unknown-option", 0, 253)
	d = rpSweep(d, "conf-req/nak-able+unknown-option", 0, 253)
	if key {
		d = rpSweep(d, "conf-req/six-unknown-options", 0, 253)
		d = rpSweep(d, "conf-req/nak-able+padding-options", 0, 253)
	}
	d = rpSweep(d, "protocol-reject", 0, 64)
	d = rpSweep(d, "code-reject", 0, 64)
	d = rpSweep(d, "discard-request", 0, 64)
	d = rpSweep(d, "identification", 0, 64)
	return d
}

func rpNakable(proto string) []byte {
	switch proto {
	case "lcp":
		return opts(pppoe.LCPOption{Type: pppoe.LCPOptMRU, Data: be16(10)})
	case "ipcp":
		return opts(pppoe.LCPOption{Type: pppoe.IPCPOptIPAddress, Data: []byte{1, 2, 3, 4}})
	}
	return opts(pppoe.LCPOption{Type: 1, Data: make([]byte, 8)})
}

func rpFill(n int, c byte) []byte { return bytes.Repeat([]byte{c}, n) }

// rpCPPacket builds the control-protocol packet of a descriptor (also used inside session frames).
func rpCPPacket(proto string, d rpDesc, good []byte) []byte {
	unk := func(t uint8, n int) []byte { return append([]byte{t, byte(2 + n)}, rpFill(n, 0x6f)...) }
	id := uint8(0x40 + d.n%64)
	switch d.kind {
	case "echo-request":
		data := rpFill(d.n, 0x65)
		if d.n >= 4 {
			copy(data, be32(0x0badcafe))
		}
		return lcpPkt(pppoe.LCPCodeEchoRequest, id, data)
	case "unknown-code":
		return lcpPkt(0x55, id, rpFill(d.n, 0x75))
	case "terminate-request":
		return lcpPkt(pppoe.LCPCodeTermRequest, id, rpFill(d.n, 0x74))
	case "conf-req/unknown-option":
		return lcpPkt(pppoe.LCPCodeConfigRequest, id, append(append([]byte(nil), good...), unk(0x63, d.n)...))
	case "conf-req/six-unknown-options":
		b := append([]byte(nil), good...)
		for t := uint8(0x64); t < 0x69; t++ {
			b = append(b, unk(t, 253)...)
		}
		return lcpPkt(pppoe.LCPCodeConfigRequest, id, append(b, unk(0x63, d.n)...))
	case "conf-req/nak-able+unknown-option":
		return lcpPkt(pppoe.LCPCodeConfigRequest, id, append(rpNakable(proto), unk(0x63, d.n)...))
	case "conf-req/nak-able+padding-options":
		b := append([]byte(nil), unk(0x63, d.n)...)
		b = append(b, rpNakable(proto)...)
		return lcpPkt(pppoe.LCPCodeConfigRequest, id, append(b, good...))
	case "protocol-reject":
		return lcpPkt(pppoe.LCPCodeProtoReject, id, rpFill(d.n, 0x70))
	case "code-reject":
		return lcpPkt(pppoe.LCPCodeCodeReject, id, rpFill(d.n, 0x63))
	case "discard-request":
		return lcpPkt(11, id, rpFill(d.n, 0x64))
	}
	return lcpPkt(12, id, rpFill(d.n, 0x69))
}

// rpKindOfCP names the descriptor class of a control-protocol packet (from the packet itself, so that
// a witness fed alone is counted in the same class).
func rpKindOfCP(p []byte) string {
	if len(p) < 4 {
		return "short"
	}
	switch p[0] {
	case pppoe.LCPCodeConfigRequest:
		return "conf-req"
	case pppoe.LCPCodeTermRequest:
		return "terminate-request"
	case pppoe.LCPCodeCodeReject:
		return "code-reject"
	case pppoe.LCPCodeProtoReject:
		return "protocol-reject"
	case pppoe.LCPCodeEchoRequest:
		return "echo-request"
	case 11:
		return "discard-request"
	case 12:
		return "identification"
	case 0x55:
		return "unknown-code"
	}
	return fmt.Sprintf("code%d", p[0])
}

type rpFSM struct {
	ev          *env
	name, proto string
	state       string
	goodReq     func(uint8) []byte
	descs       []rpDesc
}

func (g *rpFSM) AfterPanic() bool { return true } // every Feed builds a fresh automaton

func (g *rpFSM) Next(i int, rng *rand.Rand) []byte {
	return rpCPPacket(g.proto, g.descs[i%len(g.descs)], g.goodReq(1)[4:])
}

func (g *rpFSM) Feed(in []byte) outcome {
	rec := &sendRec{}
	m, err := newFSM(g.proto, rec)
	if err != nil {
		panic(err)
	}
	if err := driveFSM(m, rec, g.state, g.goodReq); err != nil {
		panic(err)
	}
	defer m.down()
	before, sent := m.state(), rec.n
	rec.mu.Lock()
	rec.maxLen = 0
	rec.mu.Unlock()
	rerr := m.recv(exact(in))
	rec.mu.Lock()
	replied, rlen := rec.n > sent, rec.maxLen
	rcode := -1
	if replied && len(rec.last) > 0 {
		rcode = int(rec.last[0])
	}
	rec.mu.Unlock()
	after := m.state()
	kind := rpKindOfCP(in)
	k := "reply_fsm/" + g.proto + "/" + g.state + "/" + kind + "/"
	class := gReject
	if replied {
		class = gPassed
		g.ev.Count(k+"replied", 1)
		if rlen > 1492 {
			g.ev.Count("reply_fsm/"+g.proto+"/reply-longer-than-the-default-mru-1492", 1) // evidence only
		}
		if rlen > len(in)+8 {
			g.ev.Count("reply_fsm/"+g.proto+"/reply-longer-than-request-plus-8", 1)
		}
	} else if before != after || rerr != nil {
		class = gPassed
		g.ev.Count(k+"no-reply-but-effect", 1)
	} else {
		g.ev.Count(k+"silent", 1)
	}
	gateCount(g.ev, g.name, g.state, class)
	o := outcome{class: class, nontriv: class == gPassed}
	o.dist = map[string]string{"reply_fsm_state_x_kind_x_reply": fmt.Sprintf("%s:%s+%s/len=%s->%s/reply-code=%d/reply-len=%s", g.proto, before, kind, rpLenBucket(len(in)), after, rcode, rpLenBucket(rlen))}
	// the automaton must still be usable
	m.recv(g.goodReq(91))
	m.recv(lcpPkt(pppoe.LCPCodeEchoRequest, 92, []byte{0x0b, 0xad, 0xca, 0xfe, 'o', 'k'}))
	m.recv(lcpPkt(pppoe.LCPCodeTermRequest, 93, nil))
	_ = m.state()
	return o
}

func (g *rpFSM) Close() {}

func rpLenBucket(n int) string {
	switch {
	case n <= 0:
		return "0"
	case n < 8:
		return "1-7"
	case n <= 255:
		return "8-255"
	case n <= 259:
		return "256-259"
	case n <= 1480:
		return "260-1480"
	case n <= 1492:
		return "1481-1492"
	case n <= 1500:
		return "1493-1500"
	}
	return "gt1500"
}

func rpFSMEntry(name, comp, proto string, goodReq func(uint8) []byte) *entry {
	per := func(state string) int { return len(rpFSMDescs(proto, state)) }
	return &entry{
		name: name, comp: comp, states: rpFSMStates(proto), chunk: 1 << 20, cost: 4,
		totalFn: func(bool) int {
			t := 0
			for _, st := range rpFSMStates(proto) {
				t += per(st)
			}
			return t
		},
		quota: func(state string, _ bool) int { return per(state) },
		floors: func(bool) map[string]int {
			m := map[string]int{
				"reply_fsm/" + proto + "/Opened/conf-req/replied":          4 * 254,
				"reply_fsm/" + proto + "/Req-Sent/conf-req/replied":        2 * 254,
				"reply_fsm/" + proto + "/Opened/terminate-request/replied": 282,
			}
			if proto == "lcp" {
				m["reply_fsm/lcp/Opened/echo-request/replied"] = rpMaxData - 4
				m["reply_fsm/lcp/Opened/unknown-code/replied"] = rpMaxData
				m["reply_fsm/lcp/Ack-Sent/unknown-code/replied"] = rpMaxData
			}
			return m
		},
		open: func(state string, ev *env) (runner, error) {
			g := &rpFSM{ev: ev, name: name, proto: proto, state: state, goodReq: goodReq, descs: rpFSMDescs(proto, state)}
			rec := &sendRec{}
			m, err := newFSM(proto, rec)
			if err != nil {
				return nil, err
			}
			if err := driveFSM(m, rec, state, goodReq); err != nil {
				return nil, err
			}
			m.down()
			return g, nil
		},
	}
}

// =============================================================================================
// PPPoE server: PADO / PADS echoing client tags; session-level replies through the real receive loop

// placeholders of the session frames: source address and session id stand for "the session that is
// in phase k" (resolved at delivery from the server's session table)
func rpPhaseMAC(k int) net.HardwareAddr {
	return net.HardwareAddr{0x02, 0xf0, 0x0d, 0xf0, 0x0d, byte(0xe0 + k)}
}
func rpPhaseSID(k int) uint16 { return 0xffe0 + uint16(k) }

const rpPhases = 4

var rpPhaseNames = []string{"LCP Negotiation", "Authentication", "IPCP Negotiation", "Established"}

var rpDiscTags = []uint16{pppoe.TagHostUniq, pppoe.TagRelaySessionID, pppoe.TagACCookie, pppoe.TagServiceName, pppoe.TagVendorSpecific}

const rpTagMax = 2010 // frame = 14 + 6 + tags; 2048 bytes per input

func rpPPPoEDescs() []rpDesc {
	var d []rpDesc
	short := func(kind string) {
		d = rpSweep(d, kind, 0, 300)
		d = rpSweep(d, kind, 1400, 1500)
		d = rpSweep(d, kind, rpTagMax-20, rpTagMax)
	}
	for ti, t := range rpDiscTags {
		if t == pppoe.TagHostUniq || t == pppoe.TagRelaySessionID || t == pppoe.TagServiceName { // echoed in the PADO
			d = rpSweep(d, fmt.Sprintf("padi/tag%d", ti), 0, rpTagMax)
		} else {
			short(fmt.Sprintf("padi/tag%d", ti))
		}
	}
	for ti := 0; ti < 3; ti++ { // PADR: Host-Uniq, Relay-Session-Id (echoed in the PADS), AC-Cookie
		if rpDiscTags[ti] == pppoe.TagACCookie {
			short(fmt.Sprintf("padr/tag%d", ti))
		} else {
			d = rpSweep(d, fmt.Sprintf("padr/tag%d", ti), 0, rpTagMax)
		}
	}
	for k := 0; k < rpPhases; k++ {
		d = rpSweep(d, fmt.Sprintf("sess%d/lcp/echo-request", k), 0, rpMaxData)
		d = rpSweep(d, fmt.Sprintf("sess%d/unknown-protocol", k), 0, rpMaxData)
		if k == 0 || k == 3 {
			d = rpSweep(d, fmt.Sprintf("sess%d/lcp/unknown-code", k), 0, rpMaxData)
		}
		d = rpSweep(d, fmt.Sprintf("sess%d/lcp/conf-req/unknown-option", k), 0, 253)
		d = rpSweep(d, fmt.Sprintf("sess%d/ipcp/conf-req/unknown-option", k), 0, 253)
		d = rpSweep(d, fmt.Sprintf("sess%d/ipv6cp/conf-req/unknown-option", k), 0, 253)
	}
	for _, k := range []int{2, 3} { // the network control protocols
		for _, p := range []string{"ipcp", "ipv6cp"} {
			d = rpSweep(d, fmt.Sprintf("sess%d/%s/unknown-code", k, p), 0, 300)
			d = rpSweep(d, fmt.Sprintf("sess%d/%s/unknown-code", k, p), 1450, rpMaxData)
		}
	}
	return d
}

var rpPPPoEDescCache []rpDesc

func rpPPPoEInput(d rpDesc) []byte {
	var k, ti int
	cookie := bytes.Repeat([]byte{0x5a}, 16)
	switch {
	case strings.HasPrefix(d.kind, "padi/"):
		fmt.Sscanf(d.kind, "padi/tag%d", &ti)
		mac := net.HardwareAddr{0x02, 0xf1, byte(ti), 0, byte(d.n >> 8), byte(d.n)}
		tags := []pppoe.Tag{{Type: rpDiscTags[ti], Value: rpFill(d.n, 0x48)}}
		if rpDiscTags[ti] != pppoe.TagServiceName {
			tags = append([]pppoe.Tag{{Type: pppoe.TagServiceName}}, tags...)
		}
		return discFrame(mac, pppoe.CodePADI, 0, tags)
	case strings.HasPrefix(d.kind, "padr/"):
		fmt.Sscanf(d.kind, "padr/tag%d", &ti)
		mac := net.HardwareAddr{0x02, 0xf2, byte(ti), 0, byte(d.n >> 8), byte(d.n)}
		tags := []pppoe.Tag{{Type: pppoe.TagServiceName, Value: []byte("internet")}}
		if rpDiscTags[ti] == pppoe.TagACCookie {
			tags = append(tags, pppoe.Tag{Type: pppoe.TagACCookie, Value: rpFill(d.n, 0x5a)})
		} else {
			tags = append(tags, pppoe.Tag{Type: pppoe.TagACCookie, Value: cookie}, pppoe.Tag{Type: rpDiscTags[ti], Value: rpFill(d.n, 0x48)})
		}
		return discFrame(mac, pppoe.CodePADR, 0, tags)
	}
	rest := ""
	if i := strings.Index(d.kind, "/"); i > 0 {
		fmt.Sscanf(d.kind[:i], "sess%d", &k)
		rest = d.kind[i+1:]
	}
	mac, sid := rpPhaseMAC(k), rpPhaseSID(k)
	if rest == "unknown-protocol" {
		return sessFrame(mac, sid, 0x8ffd, rpFill(d.n, 0x50))
	}
	proto, kind, _ := strings.Cut(rest, "/")
	pn := map[string]uint16{"lcp": pppoe.ProtocolLCP, "ipcp": pppoe.ProtocolIPCP, "ipv6cp": pppoe.ProtocolIPv6CP}[proto]
	good := map[string]func(uint8) []byte{"lcp": lcpGoodReq, "ipcp": ipcpGoodReq, "ipv6cp": ipv6cpGoodReq}[proto]
	return sessFrame(mac, sid, pn, rpCPPacket(proto, rpDesc{kind, d.n}, good(1)[4:]))
}

type rpPPPoE struct {
	*pppoeLoop
	name  string
	descs []rpDesc
}

func (g *rpPPPoE) Next(i int, rng *rand.Rand) []byte { return rpPPPoEInput(g.descs[i%len(g.descs)]) }

// resolve replaces the phase placeholders by a live session that is in the k-th of the phases the
// server's session table shows (sorted by name) and the station that owns it.
func (g *rpPPPoE) resolve(in []byte) ([]byte, string) {
	if len(in) < 18 || binary.BigEndian.Uint16(in[12:14]) != pppoe.EtherTypePPPoESession {
		return in, ""
	}
	sid := binary.BigEndian.Uint16(in[16:18])
	if sid < 0xffe0 || sid >= 0xffe0+rpPhases {
		return in, ""
	}
	keys := make([]string, 0, len(g.live))
	for k := range g.live {
		keys = append(keys, k)
	}
	sort.Strings(keys)
	if len(keys) == 0 {
		return in, "no-session"
	}
	st := keys[int(sid-0xffe0)%len(keys)]
	if want := rpPhaseNames[int(sid-0xffe0)%len(rpPhaseNames)]; len(g.live[want]) > 0 {
		st = want // the usual case: the phase of that name is populated
	}
	real := g.live[st][0]
	b := append([]byte(nil), in...)
	binary.BigEndian.PutUint16(b[16:18], real)
	if mac := g.srv.VerifC09SessionMAC(real); len(mac) == 6 {
		copy(b[6:12], mac)
	}
	return b, st
}

func (g *rpPPPoE) Feed(in []byte) outcome {
	if err := g.prime(); err != nil { // sessions in every phase (no-op while at least six exist)
		g.ev.Note("listener-alive", "no-answer-to-well-formed-discovery", "the receive loop no longer completes a well-formed PADI/PADR exchange: "+err.Error(), in, "")
	}
	if g.dead != nil {
		return outcome{pan: g.dead}
	}
	g.refresh()
	b, phase := g.resolve(in)
	o := g.pppoeLoop.Feed(b)
	if o.pan != nil {
		return o
	}
	g.mu.Lock()
	out := append([][]byte(nil), g.sent...)
	g.mu.Unlock()
	kind := "other"
	if len(b) >= 20 {
		switch binary.BigEndian.Uint16(b[12:14]) {
		case pppoe.EtherTypePPPoEDiscovery:
			kind = fmt.Sprintf("disc-code%02x", b[15])
			if len(b) >= 24 { // the biggest tag names the class
				if tags, err := pppoe.ParseTags(b[20:]); err == nil {
					best := -1
					for i, t := range tags {
						if best < 0 || len(t.Value) > len(tags[best].Value) {
							best = i
						}
					}
					if best >= 0 {
						kind += fmt.Sprintf("/tag%04x", tags[best].Type)
					}
				}
			}
		case pppoe.EtherTypePPPoESession:
			if len(b) >= 22 {
				kind = fmt.Sprintf("sess-proto%04x/%s/%s", binary.BigEndian.Uint16(b[20:22]), rpKindOfCP(b[22:]), phase)
			}
		}
	}
	k := "reply_pppoe/" + kind + "/"
	class := gReject
	longest := 0
	if len(out) > 0 {
		class = gPassed
		g.ev.Count(k+"replied", 1)
		for _, f := range out {
			if len(f) > longest {
				longest = len(f)
			}
		}
		if longest > 1514 {
			g.ev.Count("reply_pppoe/reply-frame-longer-than-1514", 1) // evidence only
		}
	} else {
		g.ev.Count(k+"silent", 1)
	}
	gateCount(g.ev, g.name, "sessions-in-every-phase", class)
	o.nontriv = class == gPassed
	o.dist = map[string]string{"reply_pppoe_kind_x_len_x_reply": fmt.Sprintf("%s/len=%s->replies=%d/longest=%s", kind, rpLenBucket(len(in)), len(out), rpLenBucket(longest))}
	// a PADR that was granted a session: the station leaves again (keeps the table small)
	for _, f := range out {
		if len(f) >= 20 && binary.BigEndian.Uint16(f[12:14]) == pppoe.EtherTypePPPoEDiscovery && f[15] == pppoe.CodePADS {
			if sid := binary.BigEndian.Uint16(f[16:18]); sid != 0 {
				g.aux(discFrame(net.HardwareAddr(b[6:12]), pppoe.CodePADT, sid, nil))
			}
		}
	}
	if g.dead != nil {
		return outcome{pan: g.dead}
	}
	return o
}

func rpPPPoEEntry() *entry {
	name := "reply:pppoe.Server.receiveLoop"
	per := func() int {
		if rpPPPoEDescCache == nil {
			rpPPPoEDescCache = rpPPPoEDescs()
		}
		return len(rpPPPoEDescCache)
	}
	return &entry{
		name: name, comp: "pppoe.Server.receiveLoop", states: []string{"sessions-in-every-phase"}, chunk: 2600, cost: 14,
		totalFn: func(bool) int { return per() },
		floors: func(bool) map[string]int {
			return map[string]int{
				"gate_passed/" + name: per() / 3,
				fmt.Sprintf("reply_pppoe/disc-code%02x/tag%04x/replied", pppoe.CodePADI, pppoe.TagHostUniq):   1400,
				fmt.Sprintf("reply_pppoe/disc-code%02x/tag%04x/replied", pppoe.CodePADR, pppoe.TagHostUniq):   1400,
				fmt.Sprintf("reply_pppoe/sess-proto%04x/echo-request/Established/replied", pppoe.ProtocolLCP): 1000,
			}
		},
		open: func(state string, ev *env) (runner, error) {
			per()
			l, err := openPPPoELoop(state, ev)
			if err != nil {
				return nil, err
			}
			return &rpPPPoE{pppoeLoop: l, name: name, descs: rpPPPoEDescCache}, nil
		},
	}
}

// =============================================================================================
// DHCPv4: replies to requests whose client-supplied options have every length 0..255

var rpV4States = []string{"bound", "bound-relayed-opt82"}

var rpV4Opts = []string{"61", "60", "81", "12", "82/circuit-id", "82/remote-id", "82/raw"}
var rpV4Msgs = []string{"discover", "request-selecting", "request-renewing", "inform"}

func rpV4Total(state string) int {
	if state == "bound" {
		return len(rpV4Msgs) * len(rpV4Opts) * 256
	}
	return 2 * 4 * 256 // DISCOVER and selecting REQUEST; option 61 and the three Option 82 sweeps
}

func rpV4Input(g *gatedDHCPv4, state string, i int) []byte {
	l := i % 256
	i /= 256
	ol := rpV4Opts
	if state != "bound" {
		ol = []string{"61", "82/circuit-id", "82/remote-id", "82/raw"}
	}
	opt := ol[i%len(ol)]
	ml := rpV4Msgs
	if state != "bound" {
		ml = rpV4Msgs[:2]
	}
	msg := ml[(i/len(ol))%len(ml)]
	var items []tlvItem
	mt := byte(3)
	switch msg {
	case "discover":
		mt = 1
		items = []tlvItem{it(53, 1), {t: 50, v: phIP4, lie: -1}}
	case "request-selecting":
		items = []tlvItem{it(53, 3), {t: 50, v: phIP4, lie: -1}, {t: 54, v: g.serverID, lie: -1}}
	case "request-renewing":
		items = []tlvItem{it(53, 3)}
	default:
		mt = 8
		items = []tlvItem{it(53, 8)}
	}
	relay := false
	sub := func(t byte, n int) []byte { return append([]byte{t, byte(n)}, rpFill(n, 0x52)...) }
	switch opt {
	case "82/circuit-id": // one sub-option that fills the option: value length l
		relay = true
		v := rpFill(l, 0x01)
		if l >= 2 {
			v = sub(1, l-2)
		}
		items = append(items, tlvItem{t: 82, v: v, lie: -1})
	case "82/remote-id": // the circuit-id the lease is indexed by, then a remote-id up to the end of the option
		relay = true
		v := append([]byte{1, byte(len(phCID))}, phCID...)
		if n := l - len(v); n >= 2 {
			v = append(v, sub(2, n-2)...)
		} else {
			v = v[:min(l, len(v))]
		}
		items = append(items, tlvItem{t: 82, v: v, lie: -1})
	case "82/raw":
		relay = true
		items = append(items, tlvItem{t: 82, v: rpFill(l, 0xee), lie: -1})
	default:
		var t int
		fmt.Sscanf(opt, "%d", &t)
		items = append(items, tlvItem{t: t, v: rpFill(l, 0x41), lie: -1})
	}
	items = append(items, it(55, 1, 3, 6, 15, 51, 54, 82, 81, 12))
	b := g.build(nil, mt, dv4Spec.ser(items), true, msg == "request-renewing")
	if relay {
		copy(b[24:28], []byte{10, 99, 0, 1})
	}
	return b
}

type rpDHCPv4 struct {
	*gatedDHCPv4
}

func (g *rpDHCPv4) Next(i int, rng *rand.Rand) []byte { return rpV4Input(g.gatedDHCPv4, g.state, i) }

func (g *rpDHCPv4) Feed(in []byte) outcome {
	o := g.gatedDHCPv4.Feed(in)
	mt := "none"
	if len(in) > 243 && in[240] == 53 {
		mt = fmt.Sprint(in[242])
	}
	g.ev.Count("reply_dhcpv4/"+g.state+"/msgtype"+mt+"/"+o.class, 1)
	return o
}

func rpDHCPv4Entry() *entry {
	name := "reply:dhcp.Server.handleDHCP"
	return &entry{
		name: name, comp: "dhcp.Server.handleDHCP", states: rpV4States, chunk: 3600, cost: 25,
		totalFn:   func(bool) int { return rpV4Total(rpV4States[0]) + rpV4Total(rpV4States[1]) },
		quota:     func(state string, _ bool) int { return rpV4Total(state) },
		gateFloor: func(bool) int { return (rpV4Total(rpV4States[0]) + rpV4Total(rpV4States[1])) / 2 },
		open: func(state string, ev *env) (runner, error) {
			e := gatedDHCPv4Entry()
			r, err := e.open(state, ev)
			if err != nil {
				return nil, err
			}
			g := r.(*gatedDHCPv4)
			g.name = name
			return &rpDHCPv4{g}, nil
		},
	}
}

// =============================================================================================
// DHCPv6: replies to messages whose client-supplied options have every length

var rpV6Msgs = []byte{dhcpv6.MsgTypeSolicit, 101 /* Solicit with Rapid Commit */, dhcpv6.MsgTypeRequest, dhcpv6.MsgTypeRenew, dhcpv6.MsgTypeInformationRequest}
var rpV6Opts = []int{dhcpv6.OptClientID, 16 /* vendor class */, 39 /* client FQDN */, dhcpv6.OptORO, 18 /* interface-id */, 37 /* remote-id */}

const rpV6Short = 300 // every length 0..300 for every (message, option)
const rpV6Long = 1900 // Client Identifier of every length up to the size bound, two message types
var rpV6LongMsgs = []byte{dhcpv6.MsgTypeSolicit, dhcpv6.MsgTypeRequest}

func rpV6Total() int {
	return len(rpV6Msgs)*len(rpV6Opts)*(rpV6Short+1) + len(rpV6LongMsgs)*(rpV6Long-rpV6Short)
}

func rpV6Input(serverID []byte, i int) []byte {
	var t byte
	var opt, l int
	if short := len(rpV6Msgs) * len(rpV6Opts) * (rpV6Short + 1); i < short {
		l = i % (rpV6Short + 1)
		i /= rpV6Short + 1
		opt = rpV6Opts[i%len(rpV6Opts)]
		t = rpV6Msgs[(i/len(rpV6Opts))%len(rpV6Msgs)]
	} else {
		i -= short
		l = rpV6Short + 1 + i%(rpV6Long-rpV6Short)
		opt = dhcpv6.OptClientID
		t = rpV6LongMsgs[(i/(rpV6Long-rpV6Short))%len(rpV6LongMsgs)]
	}
	cid := v6it(dhcpv6.OptClientID, append([]byte{0, 3, 0, 1}, phMAC...))
	var items []tlvItem
	if opt == dhcpv6.OptClientID { // the identifier itself is swept: a client the server does not know yet
		v := rpFill(l, 0x44)
		copy(v, []byte{0, 3, 0, 1})
		items = []tlvItem{v6it(opt, v)}
	} else {
		items = []tlvItem{cid, v6it(opt, rpFill(l, 0x46))}
	}
	el := v6it(dhcpv6.OptElapsedTime, []byte{0, 10})
	switch t {
	case dhcpv6.MsgTypeSolicit:
		items = append(items, dv6IANA(nil), dv6IAPD(nil, 0), el)
	case 101:
		t = dhcpv6.MsgTypeSolicit
		items = append(items, dv6IANA(nil), dv6IAPD(nil, 0), v6it(dhcpv6.OptRapidCommit, nil), el)
	case dhcpv6.MsgTypeInformationRequest:
		items = append(items, v6it(dhcpv6.OptORO, []byte{0, 23, 0, 24}), el)
	default:
		items = append(items, v6it(dhcpv6.OptServerID, serverID), dv6IANA(phAddr6), dv6IAPD(phPfx6, 56), el)
	}
	return dv6Msg(t, dv6Spec.ser(items))
}

type rpDHCPv6 struct {
	*gatedDHCPv6
}

func (g *rpDHCPv6) Next(i int, rng *rand.Rand) []byte { return rpV6Input(g.serverID, i) }

func (g *rpDHCPv6) Feed(in []byte) outcome {
	o := g.gatedDHCPv6.Feed(in)
	mt := "none"
	if len(in) > 0 {
		mt = fmt.Sprint(in[0])
	}
	g.ev.Count("reply_dhcpv6/"+g.state+"/msgtype"+mt+"/"+o.class, 1)
	return o
}

func rpDHCPv6Entry() *entry {
	name := "reply:dhcpv6.Server.handleMessage"
	return &entry{
		name: name, comp: "dhcpv6.Server.handleMessage", states: []string{"bound"}, chunk: 3400, cost: 20,
		totalFn:   func(bool) int { return rpV6Total() },
		gateFloor: func(bool) int { return rpV6Total() / 2 },
		open: func(state string, ev *env) (runner, error) {
			e := gatedDHCPv6Entry()
			r, err := e.open(state, ev)
			if err != nil {
				return nil, err
			}
			g := r.(*gatedDHCPv6)
			g.name = name
			return &rpDHCPv6{g}, nil
		},
	}
}
