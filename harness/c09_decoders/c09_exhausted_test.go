package c09

// C09, third pass: the stateful handlers in *resource-exhausted and otherwise unusual server
// states*.
//
// The stateful hammer (c09_stateful*.go) drives every handler into the states a well-behaved
// peer reaches on a server that has room for it. Code that only runs when the server has no
// room - reclaim-on-exhaustion, retry loops, "no address" replies, the search for a free session
// id behind a wrapped counter, back ends that report errors - is never seen there, and neither
// is the legitimate packet that reaches it. This pass builds, per case, a server whose relevant
// pool / table is completely in use (tiny pools: DHCPv6 /126 + /62, DHCPv4 /29 with a two-block
// NAT range, PPPoE /30; or every address only offered, declined, lapsed but not swept; the
// session id counter about to wrap; the session table full; RADIUS back ends that fail; an HA
// store that refuses writes or holds thousands of stale sessions), by the legitimate exchanges of
// a handful of clients, and then delivers
//   1. every *well-formed* message type of the protocol, from each kind of client the state knows
//      (one that holds a binding, one that holds part of one, one that holds nothing), with each
//      sensible reference (own / another client's / no address), and
//   2. the hostile packets of the stateful hammer (same generators), resolved for one of those
//      clients,
// each followed by a legitimate exchange on the same server, under the same watchdog / journal /
// reproduce-in-a-fresh-process discipline as the other passes. Nothing is asserted about *what*
// the server answers: the oracle is the property's - returns, no panic, stays inside its input,
// listener alive.

import (
	"bytes"
	"context"
	"encoding/binary"
	"encoding/hex"
	"fmt"
	"math/rand/v2"
	"net"
	"os"
	"strings"
	"time"

	"github.com/insomniacslk/dhcp/dhcpv4"
	"go.uber.org/zap"

	"github.com/codelaboratoryltd/bng/pkg/allocator"
	"github.com/codelaboratoryltd/bng/pkg/dhcp"
	"github.com/codelaboratoryltd/bng/pkg/dhcpv6"
	"github.com/codelaboratoryltd/bng/pkg/ebpf"
	"github.com/codelaboratoryltd/bng/pkg/ha"
	"github.com/codelaboratoryltd/bng/pkg/nat"
	"github.com/codelaboratoryltd/bng/pkg/pppoe"
	"github.com/codelaboratoryltd/bng/pkg/radius"
)

// exhaustedEntries run with the stateful hammer; the PPPoE entry runs with the first pass
// (entries()), whose wall time hides the 65 535 exchanges its session-table-full state costs.
func exhaustedEntries() []*entry {
	return []*entry{exV6Entry(), exV4Entry(), exCoAEntry(), exHAEntry()}
}

// explicit client roles of the well-formed matrices (the hostile lists carry phMAC, whose role is
// derived from the input itself, so that a witness fed alone meets the same client)
var (
	phMACa = net.HardwareAddr{0x02, 0xf0, 0x0d, 0xf0, 0x0d, 0x0a}
	phMACb = net.HardwareAddr{0x02, 0xf0, 0x0d, 0xf0, 0x0d, 0x0b}
	phMACc = net.HardwareAddr{0x02, 0xf0, 0x0d, 0xf0, 0x0d, 0x0c}
	phMACd = net.HardwareAddr{0x02, 0xf0, 0x0d, 0xf0, 0x0d, 0x0d}
)

// roleOf names the client an input is resolved for: explicit placeholder, else a hash of the input.
func roleOf(in []byte, n int) int {
	for i, m := range []net.HardwareAddr{phMACa, phMACb, phMACc, phMACd} {
		if i < n && bytes.Contains(in, m) {
			return i
		}
	}
	return int(h64(hex.EncodeToString(in)) % uint64(n))
}

func exCount(ev *env, fam, state, event string) { ev.Count("exh_"+fam+"/"+state+"/"+event, 1) }

// streamOf lays out the input stream of an exhausted-state runner: the well-formed matrix, then a
// prefix of the (shuffled) systematic hostile list of the stateful hammer, then its seeded mutants.
type streamOf struct {
	wf      [][]byte
	sys     [][]byte
	nsys    int
	hostile func(i int, rng *rand.Rand) []byte
}

func (s *streamOf) next(i int, rng *rand.Rand) []byte {
	if i < len(s.wf) {
		return append([]byte(nil), s.wf[i]...)
	}
	i -= len(s.wf)
	if i < s.nsys && i < len(s.sys) {
		return append([]byte(nil), s.sys[i]...)
	}
	return s.hostile(len(s.sys)+i, rng)
}

// exSys is the number of systematic hostile packets per state in the tier of this process.
func exSys(q int) int {
	if os.Getenv("VERIF_TIER") == "thorough" {
		return 8 * q
	}
	return q
}

func exQuota(wf, sysQ, rndQ int) func(string, bool) int {
	return func(_ string, thorough bool) int {
		if thorough {
			return wf + 8*sysQ + 8*rndQ
		}
		return wf + sysQ + rndQ
	}
}

// =============================================================================================
// DHCPv6: legacy AddressPool / PrefixPool and the integrated allocator, completely in use

var exV6States = []string{
	"legacy/pools-exhausted", "legacy/pools-exhausted-lapsed-unswept", "legacy-address-only/pool-exhausted",
	"allocator/pools-exhausted", "allocator/pools-exhausted-lapsed-unswept", "allocator/store-refuses-writes",
}

var (
	phAddr6b = net.ParseIP("2001:db8:f00d:f00d::f00e").To16() // placeholder: the address bound to another client
	phPfx6b  = net.ParseIP("2001:db8:f0:d01::").To16()        // placeholder: the prefix delegated to the client that holds no address
)

type v6Client struct {
	mac  net.HardwareAddr
	addr net.IP
	pfx  net.IP
	plen uint8
}

// refusingStore is an allocation store whose writes can be made to fail (a store that is full or
// unreachable); reads keep working.
type refusingStore struct {
	*allocator.MemoryAllocationStore
	refuse bool
}

func (s *refusingStore) SaveAllocation(ctx context.Context, a allocator.AllocationRecord) error {
	if s.refuse {
		return fmt.Errorf("store refuses writes")
	}
	return s.MemoryAllocationStore.SaveAllocation(ctx, a)
}

func (s *refusingStore) RemoveAllocation(ctx context.Context, poolID, sub string) error {
	if s.refuse {
		return fmt.Errorf("store refuses writes")
	}
	return s.MemoryAllocationStore.RemoveAllocation(ctx, poolID, sub)
}

type exV6World struct {
	srv      *dhcpv6.Server
	holders  []v6Client // hold an address (and a prefix where prefixes are delegated)
	pdonly   []v6Client // hold a prefix, no address
	born     time.Time  // when the last binding was made
	aa, pa   *allocator.PoolAllocator
	store    *refusingStore
	verified bool
}

type exV6 struct {
	*gatedDHCPv6 // sockets, server identifier, canonical lists, call()
	st           *streamOf
	backend      string
	lapsed       bool
	refusing     bool
	ready        []*exV6World
	seq          int
}

func exV6IA(code int, iaid uint32, inner ...tlvItem) tlvItem {
	v := append(be32(iaid), append(be32(0), be32(0)...)...)
	return v6it(code, append(v, dv6Spec.ser(inner)...))
}

func exV6Addr(a []byte) tlvItem {
	return v6it(dhcpv6.OptIAAddr, append(append(append([]byte(nil), a...), be32(3600)...), be32(7200)...))
}

func exV6Pfx(p []byte, plen uint8) tlvItem {
	return v6it(dhcpv6.OptIAPrefix, append(append(append(be32(3600), be32(7200)...), plen), p...))
}

// exV6Matrix lists every well-formed client message type for each of the three roles.
func exV6Matrix(serverID []byte) [][]byte {
	var out [][]byte
	sid := v6it(dhcpv6.OptServerID, serverID)
	el := v6it(dhcpv6.OptElapsedTime, []byte{0, 10})
	oro := v6it(dhcpv6.OptORO, []byte{0, 23, 0, 24})
	rc := v6it(dhcpv6.OptRapidCommit, nil)
	na0, pd0 := exV6IA(dhcpv6.OptIANA, 1), exV6IA(dhcpv6.OptIAPD, 2)
	naOwn, naOther := exV6IA(dhcpv6.OptIANA, 1, exV6Addr(phAddr6)), exV6IA(dhcpv6.OptIANA, 1, exV6Addr(phAddr6b))
	pdOwn, pdB := exV6IA(dhcpv6.OptIAPD, 2, exV6Pfx(phPfx6, 64)), exV6IA(dhcpv6.OptIAPD, 2, exV6Pfx(phPfx6b, 64))
	for _, m := range []net.HardwareAddr{phMACa, phMACb, phMACc} {
		cid := v6it(dhcpv6.OptClientID, append([]byte{0, 3, 0, 1}, m...))
		add := func(t byte, withSid bool, ias ...tlvItem) {
			l := []tlvItem{cid}
			if withSid {
				l = append(l, sid)
			}
			l = append(append(l, ias...), el)
			out = append(out, dv6Msg(t, dv6Spec.ser(l)))
		}
		for _, ias := range [][]tlvItem{{na0}, {pd0}, {na0, pd0}, {na0, pd0, rc}, {na0, rc}, {pd0, rc}, {}, {rc}, {naOwn, oro}, {naOwn, pdOwn, rc}} {
			add(dhcpv6.MsgTypeSolicit, false, ias...)
		}
		for _, ias := range [][]tlvItem{{na0}, {pd0}, {na0, pd0}, {naOwn, pdOwn}, {naOwn}, {naOther}, {pdB}, {}} {
			add(dhcpv6.MsgTypeRequest, true, ias...)
		}
		for _, ias := range [][]tlvItem{{naOwn, pdOwn}, {naOwn}, {pdOwn}, {pdB}, {na0}, {na0, pd0}, {naOther}} {
			add(dhcpv6.MsgTypeRenew, true, ias...)
			add(dhcpv6.MsgTypeRebind, false, ias...)
		}
		for _, ias := range [][]tlvItem{{naOwn}, {naOther}, {na0}, {naOwn, naOther}} {
			add(dhcpv6.MsgTypeConfirm, false, ias...)
		}
		for _, ias := range [][]tlvItem{{naOwn, pdOwn}, {naOwn}, {pdB}, {naOther}, {}} {
			add(dhcpv6.MsgTypeRelease, true, ias...)
		}
		for _, ias := range [][]tlvItem{{naOwn}, {naOther}, {naOwn, naOther}} {
			add(dhcpv6.MsgTypeDecline, true, ias...)
		}
		add(dhcpv6.MsgTypeInformationRequest, false, oro)
		add(dhcpv6.MsgTypeInformationRequest, true, oro)
	}
	return out
}

// v6Reply reads what a reply grants: address / prefix, and the status inside IA_NA / IA_PD
// (-1: the option is absent, 0: a binding is present).
func v6Reply(m *dhcpv6.Message) (addr, pfx net.IP, plen uint8, naSt, pdSt int) {
	naSt, pdSt = -1, -1
	st := func(os []dhcpv6.Option) int {
		for _, o := range os {
			if o.Code == dhcpv6.OptStatusCode && len(o.Data) >= 2 {
				return int(binary.BigEndian.Uint16(o.Data))
			}
		}
		return 0
	}
	if o := m.GetOption(dhcpv6.OptIANA); o != nil {
		if ia, err := dhcpv6.ParseIANA(o.Data); err == nil {
			naSt = st(ia.Options)
			for _, io := range ia.Options {
				if io.Code == dhcpv6.OptIAAddr {
					if a, err := dhcpv6.ParseIAAddress(io.Data); err == nil {
						addr = a.Address.To16()
					}
				}
			}
		}
	}
	if o := m.GetOption(dhcpv6.OptIAPD); o != nil {
		if ia, err := dhcpv6.ParseIAPD(o.Data); err == nil {
			pdSt = st(ia.Options)
			for _, io := range ia.Options {
				if io.Code == dhcpv6.OptIAPrefix {
					if p, err := dhcpv6.ParseIAPrefix(io.Data); err == nil {
						pfx, plen = p.Prefix.To16(), p.PrefixLength
					}
				}
			}
		}
	}
	return
}

func (g *exV6) msg(t byte, mac net.HardwareAddr, withSid bool, ias ...tlvItem) []byte {
	l := []tlvItem{v6it(dhcpv6.OptClientID, append([]byte{0, 3, 0, 1}, mac...))}
	if withSid {
		l = append(l, v6it(dhcpv6.OptServerID, g.serverID))
	}
	return dv6Msg(t, dv6Spec.ser(append(l, ias...)))
}

// bind takes a client through Solicit / Request for the IAs asked for.
func (g *exV6) bind(w *exV6World, mac net.HardwareAddr, na, pd bool) (v6Client, error) {
	c := v6Client{mac: mac}
	var ias []tlvItem
	if na {
		ias = append(ias, exV6IA(dhcpv6.OptIANA, 1))
	}
	if pd {
		ias = append(ias, exV6IA(dhcpv6.OptIAPD, 2))
	}
	g.srv = w.srv
	reps, _ := g.call(g.msg(dhcpv6.MsgTypeSolicit, mac, false, ias...))
	if len(reps) == 0 || reps[0].Type != dhcpv6.MsgTypeAdvertise {
		return c, fmt.Errorf("no ADVERTISE for a well-formed SOLICIT")
	}
	if g.serverID == nil {
		if o := reps[0].GetOption(dhcpv6.OptServerID); o != nil {
			g.serverID = append([]byte(nil), o.Data...)
		}
	}
	c.addr, c.pfx, c.plen, _, _ = v6Reply(reps[0])
	ias = nil
	if na {
		ias = append(ias, exV6IA(dhcpv6.OptIANA, 1, exV6Addr(orZero16(c.addr))))
	}
	if pd {
		ias = append(ias, exV6IA(dhcpv6.OptIAPD, 2, exV6Pfx(orZero16(c.pfx), c.plen)))
	}
	reps, _ = g.call(g.msg(dhcpv6.MsgTypeRequest, mac, true, ias...))
	if len(reps) == 0 || reps[0].Type != dhcpv6.MsgTypeReply {
		return c, fmt.Errorf("no REPLY for a well-formed REQUEST")
	}
	c.addr, c.pfx, c.plen, _, _ = v6Reply(reps[0])
	w.born = time.Now()
	return c, nil
}

func orZero16(ip net.IP) []byte {
	if len(ip) == 16 {
		return ip
	}
	return make([]byte, 16)
}

func (g *exV6) mac() net.HardwareAddr {
	g.seq++
	return net.HardwareAddr{0x02, 0xad, 0, byte(g.seq >> 16), byte(g.seq >> 8), byte(g.seq)}
}

// build sets up a fresh server and lets clients take everything its pools hold.
func (g *exV6) build() (*exV6World, error) {
	w := &exV6World{}
	cfg := dhcpv6.ServerConfig{Interface: "lo", DNSServers: []string{"2001:db8::53"}}
	if g.lapsed {
		cfg.PreferredLifetime, cfg.ValidLifetime = 1, 1 // seconds: the smallest lifetimes the server can be configured with
	}
	nAddr, nPfx := 3, 4
	switch g.backend {
	case "legacy":
		cfg.AddressPool, cfg.PrefixPool, cfg.DelegationLength = "2001:db8:1::/126", "2001:db8:100::/62", 64
	case "legacy-address-only":
		cfg.AddressPool, nPfx = "2001:db8:1::/126", 0
	default:
		w.store = &refusingStore{MemoryAllocationStore: allocator.NewMemoryAllocationStore()}
		var err error
		if w.aa, err = allocator.NewPoolAllocatorWithType(allocator.PoolAllocatorConfig{PoolID: "v6-na", BaseNetwork: "2001:db8:1::/127", PrefixLength: 128, PoolType: allocator.PoolTypeIPv6Address, Store: w.store}); err != nil {
			return nil, err
		}
		if w.pa, err = allocator.NewPoolAllocatorWithType(allocator.PoolAllocatorConfig{PoolID: "v6-pd", BaseNetwork: "2001:db8:100::/62", PrefixLength: 64, PoolType: allocator.PoolTypeIPv6Prefix, Store: w.store}); err != nil {
			return nil, err
		}
		cfg.AddressAllocator, cfg.PrefixAllocator, cfg.AllocationStore = w.aa, w.pa, w.store
		nAddr = 2
		if g.refusing { // room is left in both pools: the store, not the pool, refuses the next client
			nAddr, nPfx = 1, 2
		}
	}
	srv, err := dhcpv6.NewServer(cfg, zap.NewNop())
	if err != nil {
		return nil, err
	}
	srv.VerifC09SetConn(g.conn)
	w.srv = srv
	for i := 0; i < nAddr; i++ {
		c, err := g.bind(w, g.mac(), true, nPfx > 0)
		if err != nil {
			return nil, err
		}
		w.holders = append(w.holders, c)
	}
	for i := nAddr; i < nPfx; i++ {
		c, err := g.bind(w, g.mac(), false, true)
		if err != nil {
			return nil, err
		}
		w.pdonly = append(w.pdonly, c)
	}
	if w.store != nil && g.refusing {
		w.store.refuse = true
	}
	w.verified = g.inUse(w)
	for _, c := range w.holders {
		if c.addr == nil {
			w.verified = false
		}
	}
	return w, nil
}

// inUse reports whether everything the pools hold is in use (read-only views; a probe message
// would sweep the lapsed leases).
func (g *exV6) inUse(w *exV6World) bool {
	switch {
	case g.refusing:
		return true
	case w.aa != nil:
		a1, t1, _ := w.aa.Stats()
		a2, t2, _ := w.pa.Stats()
		return a1 == t1 && a2 == t2
	}
	af, pf := w.srv.VerifC09PoolFree()
	return af == 0 && (pf == 0 || pf == -1)
}

func (g *exV6) ripe(w *exV6World) {
	if !g.lapsed {
		return
	}
	if d := time.Until(w.born.Add(1050 * time.Millisecond)); d > 0 {
		time.Sleep(d)
	}
}

// Next prepares, for the lapsed states, a batch of servers at once: their leases run out together.
func (g *exV6) Next(i int, rng *rand.Rand) []byte {
	if g.lapsed && len(g.ready) == 0 && g.ev.to > i {
		const batch, some = 48, 16
		for k := 0; k < batch && k < g.ev.to-i; k++ {
			if w, err := g.build(); err == nil {
				g.ready = append(g.ready, w)
			}
		}
		if n := len(g.ready); n > 0 {
			// "some leases lapsed": half-way through the lifetime one holder renews on each of the
			// servers built last (they are used first): its lease then outlives the others by half a
			// second. Whether a case is still delivered inside that half second depends on the
			// machine - the sub-state actually met is read from the lease table at delivery and counted.
			first := max(n-some, 0)
			time.Sleep(time.Until(g.ready[n-1].born.Add(550 * time.Millisecond)))
			for k := n - 1; k >= first && time.Since(g.ready[first].born) < 800*time.Millisecond; k-- { // (not on a machine too slow for it: a renewal behind the lifetime would free the address)
				w := g.ready[k]
				h := w.holders[len(w.holders)/2]
				g.srv = w.srv
				g.call(g.msg(dhcpv6.MsgTypeRenew, h.mac, true, exV6IA(dhcpv6.OptIANA, 1, exV6Addr(orZero16(h.addr))), exV6IA(dhcpv6.OptIAPD, 2, exV6Pfx(orZero16(h.pfx), h.plen))))
			}
			g.ripe(g.ready[n-1])
		}
	}
	return g.st.next(i, rng)
}

func (g *exV6) world() (*exV6World, error) {
	if n := len(g.ready); n > 0 {
		w := g.ready[n-1]
		g.ready = g.ready[:n-1]
		return w, nil
	}
	w, err := g.build()
	if err == nil {
		g.ripe(w)
	}
	return w, err
}

func (g *exV6) Feed(in []byte) outcome {
	if _, err := dhcpv6.ParseMessage(exact(in)); err != nil {
		gateCount(g.ev, g.name, g.state, gFraming)
		return outcome{class: gFraming}
	}
	w, err := g.world()
	if err != nil || !w.verified || !g.inUse(w) {
		exCount(g.ev, "dhcpv6", g.state, "set-up-did-not-reach-the-state")
		return outcome{class: "setup-failed"}
	}
	g.srv = w.srv
	// the client the input is resolved for
	role := roleOf(in, 3)
	roleName := []string{"holder", "prefix-only", "newcomer"}[role]
	var me v6Client
	switch {
	case role == 0:
		me = w.holders[0]
	case role == 1 && len(w.pdonly) > 0:
		me = w.pdonly[0]
	default:
		me = v6Client{mac: g.mac()}
		if role == 1 {
			roleName = "newcomer-b"
		}
	}
	other := w.holders[len(w.holders)-1]
	pfxB := other
	if len(w.pdonly) > 0 {
		pfxB = w.pdonly[0]
	}
	b := in
	for _, m := range []net.HardwareAddr{phMAC, phMACa, phMACb, phMACc} {
		b = bytes.ReplaceAll(b, m, me.mac)
	}
	own, ownP := me.addr, me.pfx
	if own == nil {
		own = w.holders[0].addr // a client without an address names one that belongs to somebody else
	}
	if ownP == nil {
		ownP = orZero16(w.holders[0].pfx)
	}
	b = bytes.ReplaceAll(b, phAddr6, own)
	b = bytes.ReplaceAll(b, phAddr6b, other.addr)
	b = bytes.ReplaceAll(b, phPfx6, ownP)
	b = bytes.ReplaceAll(b, phPfx6b, orZero16(pfxB.pfx))

	if total, lapsedN := w.srv.VerifC09LeaseAges(); g.lapsed && total > 0 && lapsedN == total {
		exCount(g.ev, "dhcpv6", g.state, "delivered-with-every-lease-lapsed-and-unswept")
	} else if g.lapsed && lapsedN > 0 {
		exCount(g.ev, "dhcpv6", g.state, "delivered-with-some-leases-lapsed-and-unswept")
	} else if !g.lapsed && total > 0 && lapsedN == 0 {
		exCount(g.ev, "dhcpv6", g.state, "delivered-with-every-pool-entry-in-use")
	}
	st0 := w.srv.GetStats()
	reps, parsed := g.call(b)
	if !parsed {
		gateCount(g.ev, g.name, g.state, gFraming)
		return outcome{class: gFraming}
	}
	st1 := w.srv.GetStats()
	class := gReject
	if len(reps) > 0 || st0["active_leases"] != st1["active_leases"] {
		class = gPassed
	}
	gateCount(g.ev, g.name, g.state, class)
	o := outcome{class: class, nontriv: class == gPassed}
	eff := "none"
	if len(reps) > 0 {
		addr, pfx, _, naSt, pdSt := v6Reply(reps[0])
		eff = fmt.Sprintf("type%d/na=%d/pd=%d", reps[0].Type, naSt, pdSt)
		if sc := reps[0].GetOption(dhcpv6.OptStatusCode); sc != nil && len(sc.Data) >= 2 {
			eff += fmt.Sprintf("/status%d", binary.BigEndian.Uint16(sc.Data))
		}
		if naSt == dhcpv6.StatusNoAddrsAvail {
			exCount(g.ev, "dhcpv6", g.state, "reply-NoAddrsAvail")
		}
		if pdSt == dhcpv6.StatusNoPrefixAvail {
			exCount(g.ev, "dhcpv6", g.state, "reply-NoPrefixAvail")
		}
		if addr != nil && me.addr == nil {
			exCount(g.ev, "dhcpv6", g.state, "address-for-a-client-that-held-none") // only possible after a reclaim
		}
		if pfx != nil && me.pfx == nil {
			exCount(g.ev, "dhcpv6", g.state, "prefix-for-a-client-that-held-none")
		}
		if reps[0].Type == dhcpv6.MsgTypeAdvertise && naSt == -1 && pdSt == -1 {
			exCount(g.ev, "dhcpv6", g.state, "advertise-without-any-binding")
		}
	}
	o.dist = map[string]string{"exhausted_dhcpv6_state_x_msgtype_x_client_x_effect": fmt.Sprintf("%s/type%d/%s->%s", g.state, in[0], roleName, eff)}
	// still usable: a further newcomer asks, a holder renews, another one releases, the newcomer
	// asks again (an address has just become free), a holder confirms
	nc := g.mac()
	ias := []tlvItem{exV6IA(dhcpv6.OptIANA, 1), exV6IA(dhcpv6.OptIAPD, 2)}
	g.call(g.msg(dhcpv6.MsgTypeSolicit, nc, false, ias...))
	h := w.holders[len(w.holders)/2]
	g.call(g.msg(dhcpv6.MsgTypeRenew, h.mac, true, exV6IA(dhcpv6.OptIANA, 1, exV6Addr(orZero16(h.addr))), exV6IA(dhcpv6.OptIAPD, 2, exV6Pfx(orZero16(h.pfx), h.plen))))
	g.call(g.msg(dhcpv6.MsgTypeRelease, other.mac, true, exV6IA(dhcpv6.OptIANA, 1, exV6Addr(orZero16(other.addr)))))
	g.call(g.msg(dhcpv6.MsgTypeRequest, nc, true, ias...))
	g.call(g.msg(dhcpv6.MsgTypeConfirm, w.holders[0].mac, false, exV6IA(dhcpv6.OptIANA, 1, exV6Addr(orZero16(w.holders[0].addr)))))
	return o
}

func (g *exV6) AfterPanic() bool { return true } // every Feed builds a fresh server

func exV6Entry() *entry {
	name := "exhausted:dhcpv6.Server.handleMessage"
	const wf, sysQ, rndQ = 138, 200, 80 // wf = len(exV6Matrix()): checked in open (entry constructors run in every child and must stay cheap)
	quota := exQuota(wf, sysQ, rndQ)
	total := func(t bool) int { return len(exV6States) * quota("", t) }
	return &entry{
		name: name, comp: "dhcpv6.Server.handleMessage", states: exV6States, totalFn: total, chunk: 1 << 20, cost: 60,
		quota:     quota,
		gateFloor: func(t bool) int { return total(t) / 3 },
		floors: func(t bool) map[string]int {
			return map[string]int{
				"exh_dhcpv6/legacy/pools-exhausted/reply-NoAddrsAvail":                                              20,
				"exh_dhcpv6/legacy/pools-exhausted/reply-NoPrefixAvail":                                             10,
				"exh_dhcpv6/legacy-address-only/pool-exhausted/reply-NoAddrsAvail":                                  20,
				"exh_dhcpv6/legacy/pools-exhausted-lapsed-unswept/address-for-a-client-that-held-none":              20,
				"exh_dhcpv6/legacy/pools-exhausted-lapsed-unswept/delivered-with-every-lease-lapsed-and-unswept":    50,
				"exh_dhcpv6/allocator/pools-exhausted/reply-NoAddrsAvail":                                           20,
				"exh_dhcpv6/allocator/pools-exhausted-lapsed-unswept/delivered-with-every-lease-lapsed-and-unswept": 50,
				"exh_dhcpv6/allocator/store-refuses-writes/reply-NoAddrsAvail":                                      20,
			}
		},
		open: func(state string, ev *env) (runner, error) {
			pid := os.Getpid()
			me := net.IPv4(127, byte(1+(pid>>16)%250), byte(pid>>8), byte(pid))
			capc, err := net.ListenUDP("udp4", &net.UDPAddr{IP: me, Port: dhcpv6.DHCPv6ClientPort})
			if err != nil {
				return nil, err
			}
			conn, err := net.ListenUDP("udp4", &net.UDPAddr{IP: net.IPv4(127, 0, 0, 1), Port: 0})
			if err != nil {
				capc.Close()
				return nil, err
			}
			gd := &gatedDHCPv6{ev: ev, name: name, state: state, conn: conn, capc: capc, from: &net.UDPAddr{IP: me, Port: 546}, buf: make([]byte, 65536)}
			g := &exV6{gatedDHCPv6: gd, backend: state[:strings.Index(state, "/")], lapsed: strings.HasSuffix(state, "lapsed-unswept"), refusing: strings.HasSuffix(state, "refuses-writes")}
			w, err := g.build() // the state must be reachable; also yields the server identifier
			if err != nil {
				g.Close()
				return nil, err
			}
			if !w.verified || g.serverID == nil {
				g.Close()
				return nil, fmt.Errorf("the legitimate exchanges of %d+%d clients do not use up the pools (server identifier %x)", len(w.holders), len(w.pdonly), g.serverID)
			}
			gd.canon = dv6Canon(g.serverID)
			gd.sys = gd.mkSys()
			g.st = &streamOf{wf: exV6Matrix(g.serverID), sys: gd.sys, nsys: exSys(sysQ), hostile: gd.Next}
			if len(g.st.wf) != wf {
				g.Close()
				return nil, fmt.Errorf("well-formed matrix has %d messages, the quota assumes %d", len(g.st.wf), wf)
			}
			return g, nil
		},
	}
}

// =============================================================================================
// DHCPv4: every address of the pool leased / only offered / declined / lapsed but not swept, the
// NAT range smaller than the pool

var exV4States = []string{"pool-leased-out", "pool-offered-out", "pool-declined-out", "pool-lapsed-unswept"}

var phIP4b = []byte{10, 240, 13, 2} // placeholder: the address of another client

type v4Client struct {
	mac     net.HardwareAddr
	ip      net.IP
	cid     []byte
	relayed bool
}

type exV4World struct {
	srv      *dhcp.Server
	pool     *dhcp.Pool
	cl       []v4Client
	born     time.Time
	verified bool
}

type exV4 struct {
	gd     *gatedDHCPv4
	ev     *env
	name   string
	state  string
	st     *streamOf
	loader *ebpf.Loader
	conn   *capConn
	peer   *net.UDPAddr
	ready  []*exV4World
	seq    int
}

const exV4Lease = 40 * time.Millisecond

var exV4ServerID = []byte{10, 20, 0, 1}

func (g *exV4) lapsed() bool { return g.state == "pool-lapsed-unswept" }

func (g *exV4) mac() net.HardwareAddr {
	g.seq++
	return net.HardwareAddr{0x02, 0xae, 0, byte(g.seq >> 16), byte(g.seq >> 8), byte(g.seq)}
}

func (g *exV4) pkt(c v4Client, t dhcpv4.MessageType, mods ...dhcpv4.Modifier) *dhcpv4.DHCPv4 {
	if c.relayed {
		o82 := dv4Sub.ser([]tlvItem{{t: 1, v: c.cid, lie: -1}, {t: 2, v: []byte{0, 1, 2, 3, 4, 5}, lie: -1}})
		mods = append(mods, dhcpv4.WithGatewayIP(net.IPv4(10, 99, 0, 1)), dhcpv4.WithOption(dhcpv4.OptGeneric(dhcpv4.OptionRelayAgentInformation, o82)))
	}
	p, err := dhcpv4.FromBytes(dhcpPkt(t, c.mac, mods...))
	if err != nil {
		panic(err)
	}
	return p
}

func (g *exV4) call(w *exV4World, p *dhcpv4.DHCPv4) *dhcpv4.DHCPv4 {
	sent := g.conn.n
	w.srv.VerifC09HandleDHCP(g.conn, g.peer, p)
	if g.conn.n == sent {
		return nil
	}
	rep, err := dhcpv4.FromBytes(g.conn.last)
	if err != nil {
		return nil
	}
	return rep
}

func (g *exV4) build() (*exV4World, error) {
	lg := zap.NewNop()
	lease := time.Hour
	if g.lapsed() {
		lease = exV4Lease
	}
	pm := dhcp.NewPoolManager(g.loader, lg)
	pool, err := dhcp.NewPool(dhcp.PoolConfig{ID: 1, Name: "tiny", Network: "10.20.0.0/29", Gateway: "10.20.0.1", DNSServers: []string{"8.8.8.8"}, LeaseTime: lease})
	if err != nil {
		return nil, err
	}
	if err := pm.AddPool(pool); err != nil {
		return nil, err
	}
	srv, err := dhcp.NewServer(dhcp.ServerConfig{Interface: "lo", ServerIP: net.IP(exV4ServerID)}, g.loader, pm, lg)
	if err != nil {
		return nil, err
	}
	// two port blocks for five addresses: the third session finds the NAT range used up
	nm, err := nat.NewManager(nat.ManagerConfig{Interface: "lo", PortRangeStart: 1024, PortRangeEnd: 3071, PortsPerSubscriber: 1024}, lg)
	if err != nil {
		return nil, err
	}
	nm.AddPublicIP(net.IPv4(203, 0, 113, 1))
	srv.SetNATManager(nm)
	w := &exV4World{srv: srv, pool: pool}
	for i := 0; i < 5; i++ {
		c := v4Client{mac: g.mac(), relayed: i == 1}
		c.cid = []byte(fmt.Sprintf("port-%04x", g.seq&0xffff))
		off := g.call(w, g.pkt(c, dhcpv4.MessageTypeDiscover))
		if off == nil || off.MessageType() != dhcpv4.MessageTypeOffer || off.YourIPAddr.To4() == nil {
			return nil, fmt.Errorf("no OFFER for the well-formed DISCOVER of client %d of 5", i+1)
		}
		c.ip = off.YourIPAddr.To4()
		bindIt := g.state == "pool-leased-out" || g.state == "pool-declined-out" || (g.lapsed() && i < 3)
		if bindIt {
			ack := g.call(w, g.pkt(c, dhcpv4.MessageTypeRequest, dhcpv4.WithOption(dhcpv4.OptRequestedIPAddress(c.ip)), dhcpv4.WithOption(dhcpv4.OptServerIdentifier(net.IP(exV4ServerID)))))
			if ack == nil || ack.MessageType() != dhcpv4.MessageTypeAck {
				return nil, fmt.Errorf("no ACK for the well-formed REQUEST of client %d of 5", i+1)
			}
		}
		w.cl = append(w.cl, c)
	}
	if g.state == "pool-declined-out" {
		for _, c := range w.cl {
			g.call(w, g.pkt(c, dhcpv4.MessageTypeDecline, dhcpv4.WithOption(dhcpv4.OptRequestedIPAddress(c.ip)), dhcpv4.WithOption(dhcpv4.OptServerIdentifier(net.IP(exV4ServerID)))))
		}
	}
	w.born = time.Now()
	w.verified = pool.Stats().Available == 0
	return w, nil
}

func (g *exV4) ripe(w *exV4World) {
	if !g.lapsed() {
		return
	}
	if d := time.Until(w.born.Add(exV4Lease + 10*time.Millisecond)); d > 0 {
		time.Sleep(d)
	}
}

func (g *exV4) Next(i int, rng *rand.Rand) []byte {
	if g.lapsed() && len(g.ready) == 0 && g.ev.to > i {
		for k := 0; k < 64 && k < g.ev.to-i; k++ {
			if w, err := g.build(); err == nil {
				g.ready = append(g.ready, w)
			}
		}
		if n := len(g.ready); n > 0 {
			g.ripe(g.ready[n-1])
		}
	}
	return g.st.next(i, rng)
}

func (g *exV4) world() (*exV4World, error) {
	if n := len(g.ready); n > 0 {
		w := g.ready[n-1]
		g.ready = g.ready[:n-1]
		return w, nil
	}
	w, err := g.build()
	if err == nil {
		g.ripe(w)
	}
	return w, err
}

// exV4Matrix lists every well-formed client message type for each of the four roles (the second
// role is a client behind a relay agent that inserts Option 82).
func exV4Matrix() [][]byte {
	var out [][]byte
	sid := tlvItem{t: 54, v: exV4ServerID, lie: -1}
	prl := it(55, 1, 3, 6, 15, 51, 54)
	for r, m := range []net.HardwareAddr{phMACa, phMACb, phMACc, phMACd} {
		cid := tlvItem{t: 61, v: append([]byte{1}, m...), lie: -1}
		add := func(mt byte, ci []byte, relay bool, items ...tlvItem) {
			l := append([]tlvItem{it(53, mt)}, items...)
			var gi []byte
			if relay {
				gi = []byte{10, 99, 0, 1}
				l = append(l, dv4Relay())
			}
			out = append(out, bootp(1, 6, 0x1234abcd, ci, gi, m, append(dv4Spec.ser(l), 255)))
		}
		req := func(ip []byte) tlvItem { return tlvItem{t: 50, v: ip, lie: -1} }
		// as the role sends it; the first client and the newcomer also through a relay agent's port
		for _, relay := range map[int][]bool{0: {false, true}, 1: {true}, 2: {false}, 3: {false, true}}[r] {
			add(1, nil, relay)
			add(1, nil, relay, req(phIP4), cid, tlvItem{t: 12, v: []byte("cpe"), lie: -1}, prl)
			add(1, nil, relay, req(phIP4b))
			add(3, nil, relay, req(phIP4), sid, cid, prl)                                     // SELECTING
			add(3, nil, relay, req(phIP4b), sid)                                              // SELECTING an address offered to somebody else
			add(3, nil, relay, req(phIP4), tlvItem{t: 54, v: []byte{10, 20, 0, 77}, lie: -1}) // the client selected another server
			add(3, nil, relay, req(phIP4))                                                    // INIT-REBOOT
			add(3, nil, relay, req(phIP4b))
			add(3, nil, relay, req([]byte{192, 0, 2, 9}))
			add(3, phIP4, relay, it(51, 0, 0, 0x0e, 0x10)) // RENEWING
			add(3, phIP4b, relay)
			add(8, phIP4, relay, prl)
			add(8, nil, relay)
			add(4, nil, relay, req(phIP4), sid, it(56, 'd', 'u', 'p'))
			add(4, nil, relay, req(phIP4b), sid)
			add(7, phIP4, relay, sid)
			add(7, phIP4b, relay, sid)
		}
	}
	return out
}

func (g *exV4) Feed(in []byte) outcome {
	if _, err := dhcpv4.FromBytes(in); err != nil {
		gateCount(g.ev, g.name, g.state, gFraming)
		return outcome{class: gFraming}
	}
	w, err := g.world()
	if err != nil || !w.verified {
		exCount(g.ev, "dhcpv4", g.state, "set-up-did-not-reach-the-state")
		return outcome{class: "setup-failed"}
	}
	role := roleOf(in, 4)
	roleName := []string{"first", "relayed", "last", "newcomer"}[role]
	var me v4Client
	switch role {
	case 0:
		me = w.cl[0]
	case 1:
		me = w.cl[1]
	case 2:
		me = w.cl[4]
	default:
		me = v4Client{mac: g.mac(), ip: w.cl[0].ip, cid: []byte("port-new")} // names an address that belongs to somebody else
	}
	b := in
	for _, m := range []net.HardwareAddr{phMAC, phMACa, phMACb, phMACc, phMACd} {
		b = bytes.ReplaceAll(b, m, me.mac)
	}
	b = bytes.ReplaceAll(b, phIP4, me.ip)
	b = bytes.ReplaceAll(b, phIP4b, w.cl[2].ip)
	if role == 1 {
		b = bytes.ReplaceAll(b, phCID, me.cid)
	} else {
		b = bytes.ReplaceAll(b, phCID, w.cl[1].cid) // arrives through the port another client's lease is indexed by
	}
	req, err := dhcpv4.FromBytes(exact(b))
	if err != nil {
		gateCount(g.ev, g.name, g.state, gFraming)
		return outcome{class: gFraming}
	}
	if g.lapsed() && g.seq%2 == 0 { // "some leases lapsed": one client has just renewed, the others' leases and offers have run out
		g.call(w, g.pkt(w.cl[2], dhcpv4.MessageTypeRequest, dhcpv4.WithClientIP(w.cl[2].ip)))
	}
	ps := w.pool.Stats()
	if ps.Available == 0 {
		exCount(g.ev, "dhcpv4", g.state, "delivered-with-no-free-address")
	}
	if g.lapsed() {
		live, gone := 0, 0
		for _, c := range w.cl[:3] {
			if _, exp, ok := w.srv.VerifLeaseIP(c.mac); ok && exp > time.Now().UnixNano() {
				live++
			} else if ok {
				gone++
			}
		}
		switch {
		case gone > 0 && live > 0:
			exCount(g.ev, "dhcpv4", g.state, "delivered-with-some-leases-lapsed-and-unswept")
		case gone > 0:
			exCount(g.ev, "dhcpv4", g.state, "delivered-with-every-lease-lapsed-and-unswept")
		}
	}
	leases, st0 := w.srv.ActiveLeases(), w.srv.Stats()
	rep := g.call(w, req)
	st1 := w.srv.Stats()
	class := gReject
	if rep != nil || w.srv.ActiveLeases() != leases || st0["releases_total"] != st1["releases_total"] || st0["naks_total"] != st1["naks_total"] {
		class = gPassed
	}
	gateCount(g.ev, g.name, g.state, class)
	o := outcome{class: class, nontriv: class == gPassed}
	rt := "none"
	if rep != nil {
		rt = rep.MessageType().String()
	}
	switch mt := req.MessageType(); {
	case mt == dhcpv4.MessageTypeDiscover && rep == nil && ps.Available == 0:
		exCount(g.ev, "dhcpv4", g.state, "discover-unanswered")
	case mt == dhcpv4.MessageTypeDiscover && rt == "OFFER" && g.lapsed() && role != 3:
		exCount(g.ev, "dhcpv4", g.state, "offer-to-a-client-whose-lease-or-offer-had-lapsed")
	case mt == dhcpv4.MessageTypeRequest && rt == "NAK":
		exCount(g.ev, "dhcpv4", g.state, "request-refused")
	case mt == dhcpv4.MessageTypeRequest && rt == "ACK":
		exCount(g.ev, "dhcpv4", g.state, "request-acknowledged")
	}
	o.dist = map[string]string{"exhausted_dhcpv4_state_x_msgtype_x_client_x_effect": fmt.Sprintf("%s/%s/%s/relay=%v->reply=%s/leases%+d/free%+d", g.state, req.MessageType(), roleName, !req.GatewayIPAddr.IsUnspecified(), rt, w.srv.ActiveLeases()-leases, w.pool.Stats().Available-ps.Available)}
	// still usable: a further newcomer asks, a client renews and releases, the newcomer asks again,
	// the periodic sweep runs, one more newcomer asks
	nc := v4Client{mac: g.mac()}
	g.call(w, g.pkt(nc, dhcpv4.MessageTypeDiscover))
	g.call(w, g.pkt(w.cl[2], dhcpv4.MessageTypeRequest, dhcpv4.WithClientIP(w.cl[2].ip)))
	g.call(w, g.pkt(w.cl[2], dhcpv4.MessageTypeRelease, dhcpv4.WithClientIP(w.cl[2].ip)))
	if off := g.call(w, g.pkt(nc, dhcpv4.MessageTypeDiscover)); off != nil && off.MessageType() == dhcpv4.MessageTypeOffer {
		g.call(w, g.pkt(nc, dhcpv4.MessageTypeRequest, dhcpv4.WithOption(dhcpv4.OptRequestedIPAddress(off.YourIPAddr)), dhcpv4.WithOption(dhcpv4.OptServerIdentifier(net.IP(exV4ServerID)))))
	}
	w.srv.VerifCleanupExpired()
	g.call(w, g.pkt(v4Client{mac: g.mac(), relayed: true, cid: []byte("port-late")}, dhcpv4.MessageTypeDiscover))
	return o
}

func (g *exV4) Close()           {}
func (g *exV4) AfterPanic() bool { return true }

func exV4Entry() *entry {
	name := "exhausted:dhcp.Server.handleDHCP"
	const wf, sysQ, rndQ = 102, 250, 100 // wf = len(exV4Matrix()), checked in open
	quota := exQuota(wf, sysQ, rndQ)
	total := func(t bool) int { return len(exV4States) * quota("", t) }
	return &entry{
		name: name, comp: "dhcp.Server.handleDHCP", states: exV4States, totalFn: total, chunk: 1 << 20, cost: 40,
		quota:     quota,
		gateFloor: func(t bool) int { return total(t) / 7 },
		floors: func(t bool) map[string]int {
			return map[string]int{
				"exh_dhcpv4/pool-leased-out/discover-unanswered":                                   5,
				"exh_dhcpv4/pool-offered-out/discover-unanswered":                                  5,
				"exh_dhcpv4/pool-declined-out/discover-unanswered":                                 10,
				"exh_dhcpv4/pool-lapsed-unswept/offer-to-a-client-whose-lease-or-offer-had-lapsed": 5,
				"exh_dhcpv4/pool-lapsed-unswept/delivered-with-no-free-address":                    100,
				"exh_dhcpv4/pool-lapsed-unswept/delivered-with-some-leases-lapsed-and-unswept":     5,
				"exh_dhcpv4/pool-lapsed-unswept/delivered-with-every-lease-lapsed-and-unswept":     50,
				"exh_dhcpv4/pool-leased-out/request-refused":                                       10,
			}
		},
		open: func(state string, ev *env) (runner, error) {
			loader, err := ebpf.NewLoader("lo", zap.NewNop())
			if err != nil {
				return nil, err
			}
			g := &exV4{ev: ev, name: name, state: state, loader: loader, conn: &capConn{}, peer: &net.UDPAddr{IP: net.IPv4(10, 20, 0, 99), Port: 68}}
			w, err := g.build()
			if err != nil {
				return nil, err
			}
			if !w.verified {
				return nil, fmt.Errorf("the legitimate exchanges of 5 clients leave %d addresses free", w.pool.Stats().Available)
			}
			g.gd = &gatedDHCPv4{ev: ev, name: name, state: state, canon: dv4Canon(exV4ServerID)}
			g.gd.sys = g.gd.mkSys()
			g.st = &streamOf{wf: exV4Matrix(), sys: g.gd.sys, nsys: exSys(sysQ), hostile: g.gd.Next}
			if len(g.st.wf) != wf {
				return nil, fmt.Errorf("well-formed matrix has %d messages, the quota assumes %d", len(g.st.wf), wf)
			}
			return g, nil
		},
	}
}

// =============================================================================================
// PPPoE server: the client address pool used up, the session id counter about to wrap, the
// session table full

var exPPPoEStates = []string{"client-pool-exhausted", "session-id-counter-wraps", "session-table-full"}

type pppSess struct {
	mac net.HardwareAddr
	sid uint16
}

type exPPPoE struct {
	l     *pppoeLoop
	gp    *gatedPPPoE
	ev    *env
	name  string
	state string
	st    *streamOf
	// the sessions of the state: established (holds the address), authenticated (no address left
	// for it), LCP negotiation, authentication phase
	s    [4]pppSess
	want [4]string
	seq  int
	lost bool
}

func (g *exPPPoE) mac() net.HardwareAddr {
	g.seq++
	return net.HardwareAddr{0x02, 0xce, 0, byte(g.seq >> 16), byte(g.seq >> 8), byte(g.seq)}
}

// discover runs a well-formed PADI / PADR exchange and returns the session id of the PADS.
func (g *exPPPoE) discover(mac net.HardwareAddr) (uint16, uint8, error) {
	l := g.l
	out := l.push(discFrame(mac, pppoe.CodePADI, 0, []pppoe.Tag{{Type: pppoe.TagServiceName}, {Type: pppoe.TagHostUniq, Value: []byte{1, 2, 3, 4}}}))
	var cookie []byte
	for _, f := range out {
		if len(f) >= 20 && f[15] == pppoe.CodePADO {
			tags, _ := pppoe.ParseTags(f[20:])
			if c := pppoe.FindTag(tags, pppoe.TagACCookie); c != nil {
				cookie = c.Value
			}
		}
	}
	if l.dead != nil {
		return 0, 0, fmt.Errorf("receive loop dead")
	}
	if cookie == nil {
		return 0, 0, fmt.Errorf("no PADO for a well-formed PADI")
	}
	out = l.push(discFrame(mac, pppoe.CodePADR, 0, []pppoe.Tag{{Type: pppoe.TagServiceName, Value: []byte("internet")}, {Type: pppoe.TagACCookie, Value: cookie}, {Type: pppoe.TagHostUniq, Value: []byte{1, 2, 3, 4}}}))
	var sid uint16
	var lcpID uint8 = 1
	for _, f := range out {
		if len(f) >= 20 && f[15] == pppoe.CodePADS {
			sid = binary.BigEndian.Uint16(f[16:18])
		}
		if len(f) >= 26 && binary.BigEndian.Uint16(f[12:14]) == pppoe.EtherTypePPPoESession && binary.BigEndian.Uint16(f[20:22]) == pppoe.ProtocolLCP && f[22] == pppoe.LCPCodeConfigRequest {
			lcpID = f[23]
		}
	}
	if l.dead != nil {
		return 0, 0, fmt.Errorf("receive loop dead")
	}
	if sid == 0 {
		return 0, 0, fmt.Errorf("no PADS for a well-formed PADR")
	}
	return sid, lcpID, nil
}

// session brings a new station's session to the given depth (0 LCP negotiation, 1 authentication,
// 2 authenticated, 3 IPCP acknowledged) by the legitimate exchange.
func (g *exPPPoE) session(depth int) (pppSess, error) {
	mac := g.mac()
	sid, lcpID, err := g.discover(mac)
	if err != nil {
		return pppSess{}, err
	}
	l := g.l
	if depth >= 1 {
		l.push(sessFrame(mac, sid, pppoe.ProtocolLCP, lcpPkt(pppoe.LCPCodeConfigAck, lcpID, nil)))
	}
	if depth >= 2 {
		l.push(sessFrame(mac, sid, pppoe.ProtocolPAP, papReq(1, "alice", "secret")))
	}
	if depth >= 3 {
		l.push(sessFrame(mac, sid, pppoe.ProtocolIPCP, lcpPkt(pppoe.LCPCodeConfigAck, 1, opts(pppoe.LCPOption{Type: pppoe.IPCPOptIPAddress, Data: []byte{10, 10, 0, 1}}))))
	}
	if l.dead != nil {
		return pppSess{}, fmt.Errorf("receive loop dead")
	}
	return pppSess{mac: mac, sid: sid}, nil
}

func (g *exPPPoE) setup() error {
	cfg := pppoeDefaultCfg()
	if g.state == "client-pool-exhausted" {
		cfg.ClientPool = "10.10.0.0/30" // one client address
	}
	l, err := newPPPoELoop(g.ev, cfg)
	if err != nil {
		return err
	}
	g.l = l
	g.gp.l = l
	for i, depth := range []int{3, 2, 0, 1} {
		s, err := g.session(depth)
		if err != nil {
			return err
		}
		g.s[i] = s
		g.want[i] = l.srv.VerifC09SessionState(s.sid)
	}
	if g.state == "session-table-full" {
		if err := l.fill(); err != nil {
			return err
		}
		time.Sleep(200 * time.Millisecond)
	}
	if g.want[0] != "Established" || g.want[2] != "LCP Negotiation" || g.want[3] != "Authentication" {
		return fmt.Errorf("sessions are in phases %q after the legitimate exchanges", g.want)
	}
	if g.state == "client-pool-exhausted" {
		if free, ip := l.srv.VerifC09ClientPoolFree(), l.srv.VerifC09SessionClientIP(g.s[1].sid); free != 0 || ip != nil {
			return fmt.Errorf("client pool has %d free addresses and the second authenticated session holds %v", free, ip)
		}
	}
	return nil
}

// intact reports whether the sessions of the state are still what the set-up made them.
func (g *exPPPoE) intact() bool {
	if g.l == nil || g.l.dead != nil {
		return false
	}
	for i, s := range g.s {
		if g.l.srv.VerifC09SessionState(s.sid) != g.want[i] {
			return false
		}
		if m := g.l.srv.VerifC09SessionMAC(s.sid); m == nil || m.String() != s.mac.String() {
			return false
		}
	}
	switch g.state {
	case "client-pool-exhausted":
		return g.l.srv.VerifC09ClientPoolFree() == 0 && g.l.srv.VerifC09SessionClientIP(g.s[1].sid) == nil
	case "session-table-full":
		return g.l.srv.GetSessionCount() >= 65535
	}
	return g.l.srv.GetSessionCount() <= 64
}

// exPPPoEMatrix lists the well-formed frames: discovery from a new station and from the owner of
// a session, and every PPP packet type towards each of the four sessions. Role placeholders:
// phMACa..d are the owners of the four sessions (the session id follows the MAC), a frame that
// carries none of them comes from a new station.
func exPPPoEMatrix() [][]byte {
	var out [][]byte
	newMAC := net.HardwareAddr{0x02, 0xf0, 0x0d, 0xf0, 0x0d, 0xee} // replaced by a fresh station address
	cookie := bytes.Repeat([]byte{0x5a}, 16)
	hu := pppoe.Tag{Type: pppoe.TagHostUniq, Value: []byte{9, 8, 7, 6}}
	for _, m := range []net.HardwareAddr{newMAC, phMACa, phMACb} {
		for _, svc := range []string{"", "internet", "some-other-service"} {
			out = append(out, discFrame(m, pppoe.CodePADI, 0, []pppoe.Tag{{Type: pppoe.TagServiceName, Value: []byte(svc)}, hu}))
		}
		out = append(out, discFrame(m, pppoe.CodePADI, 0, []pppoe.Tag{{Type: pppoe.TagServiceName}, {Type: pppoe.TagRelaySessionID, Value: []byte{1, 2, 3}}, {Type: pppoe.TagVendorSpecific, Value: []byte{0, 0, 0x0d, 0xe9, 1, 4, 'p', 'o', 'r', 't'}}, {Type: pppoe.TagEndOfList}}))
		out = append(out, discFrame(m, pppoe.CodePADR, 0, []pppoe.Tag{{Type: pppoe.TagServiceName, Value: []byte("internet")}, {Type: pppoe.TagACCookie, Value: cookie}, hu}))
		out = append(out, discFrame(m, pppoe.CodePADR, 0, []pppoe.Tag{{Type: pppoe.TagServiceName}, {Type: pppoe.TagACCookie, Value: cookie}}))
		out = append(out, discFrame(m, pppoe.CodePADR, 0, []pppoe.Tag{{Type: pppoe.TagServiceName, Value: []byte("internet")}, {Type: pppoe.TagACCookie, Value: cookie}, {Type: pppoe.TagRelaySessionID, Value: []byte{1, 2, 3}}, hu}))
		out = append(out, discFrame(m, pppoe.CodePADT, phSID, []pppoe.Tag{{Type: pppoe.TagGenericErr, Value: []byte("bye")}}))
		out = append(out, discFrame(m, pppoe.CodePADT, phSID, nil))
	}
	ip := []byte{0x45, 0, 0, 20, 0, 0, 0, 0, 64, 17, 0, 0, 10, 10, 0, 2, 8, 8, 8, 8}
	ip6 := append([]byte{0x60, 0, 0, 0, 0, 0, 59, 64}, make([]byte, 32)...)
	for _, m := range []net.HardwareAddr{phMACa, phMACb, phMACc, phMACd} {
		s := func(proto uint16, ppp []byte) { out = append(out, sessFrame(m, phSID, proto, ppp)) }
		s(pppoe.ProtocolLCP, lcpGoodReq(7))
		s(pppoe.ProtocolLCP, lcpPkt(pppoe.LCPCodeConfigAck, 1, nil))
		s(pppoe.ProtocolLCP, lcpPkt(pppoe.LCPCodeConfigNak, 1, opts(pppoe.LCPOption{Type: pppoe.LCPOptMRU, Data: be16(1400)})))
		s(pppoe.ProtocolLCP, lcpPkt(pppoe.LCPCodeConfigReject, 1, opts(pppoe.LCPOption{Type: pppoe.LCPOptAuthProto, Data: []byte{0xc0, 0x23}})))
		s(pppoe.ProtocolLCP, lcpPkt(pppoe.LCPCodeTermRequest, 8, []byte("bye")))
		s(pppoe.ProtocolLCP, lcpPkt(pppoe.LCPCodeTermAck, 8, nil))
		s(pppoe.ProtocolLCP, lcpPkt(pppoe.LCPCodeCodeReject, 9, lcpPkt(0x42, 1, nil)))
		s(pppoe.ProtocolLCP, lcpPkt(pppoe.LCPCodeProtoReject, 9, append(be16(0x8057), 1, 1, 0, 4)))
		s(pppoe.ProtocolLCP, lcpPkt(pppoe.LCPCodeEchoRequest, 10, append(be32(7), []byte("ping")...)))
		s(pppoe.ProtocolLCP, lcpPkt(pppoe.LCPCodeEchoReply, 10, be32(7)))
		s(pppoe.ProtocolLCP, lcpPkt(pppoe.LCPCodeDiscardReq, 11, be32(7)))
		s(pppoe.ProtocolPAP, papReq(1, "alice", "secret"))
		s(pppoe.ProtocolPAP, papReq(2, "", ""))
		s(pppoe.ProtocolPAP, papReq(3, "bob@example.net", "pw"))
		s(pppoe.ProtocolPAP, papReq(4, strings.Repeat("u", 200), strings.Repeat("p", 200)))
		s(pppoe.ProtocolCHAP, chapResp(1, make([]byte, 16), "alice"))
		s(pppoe.ProtocolIPCP, lcpPkt(pppoe.LCPCodeConfigRequest, 1, opts(pppoe.LCPOption{Type: pppoe.IPCPOptIPAddress, Data: []byte{0, 0, 0, 0}}, pppoe.LCPOption{Type: pppoe.IPCPOptPrimaryDNS, Data: []byte{0, 0, 0, 0}}, pppoe.LCPOption{Type: pppoe.IPCPOptSecondaryDNS, Data: []byte{0, 0, 0, 0}})))
		s(pppoe.ProtocolIPCP, lcpPkt(pppoe.LCPCodeConfigRequest, 2, opts(pppoe.LCPOption{Type: pppoe.IPCPOptIPAddress, Data: []byte{10, 10, 0, 2}})))
		s(pppoe.ProtocolIPCP, lcpPkt(pppoe.LCPCodeConfigAck, 1, opts(pppoe.LCPOption{Type: pppoe.IPCPOptIPAddress, Data: []byte{10, 10, 0, 1}})))
		s(pppoe.ProtocolIPCP, lcpPkt(pppoe.LCPCodeConfigNak, 1, opts(pppoe.LCPOption{Type: pppoe.IPCPOptIPAddress, Data: []byte{10, 10, 0, 9}})))
		s(pppoe.ProtocolIPCP, lcpPkt(pppoe.LCPCodeConfigReject, 1, opts(pppoe.LCPOption{Type: pppoe.IPCPOptIPAddress, Data: []byte{10, 10, 0, 1}})))
		s(pppoe.ProtocolIPCP, lcpPkt(pppoe.LCPCodeTermRequest, 3, nil))
		s(pppoe.ProtocolIPv6CP, ipv6cpGoodReq(1))
		s(pppoe.ProtocolIP, ip)
		s(0x0057, ip6)
	}
	return out
}

var exPPPoENewMAC = net.HardwareAddr{0x02, 0xf0, 0x0d, 0xf0, 0x0d, 0xee}

func (g *exPPPoE) Next(i int, rng *rand.Rand) []byte { return g.st.next(i, rng) }

// freeOne lets the owner of some session outside the four of the state end it (one id becomes free).
func (g *exPPPoE) freeOne() bool {
	for try := 0; try < 64; try++ {
		g.seq++
		id := uint16(100 + (g.seq*7919)%65000)
		if m := g.l.srv.VerifC09SessionMAC(id); m != nil {
			g.l.push(discFrame(m, pppoe.CodePADT, id, nil))
			return g.l.dead == nil
		}
	}
	return false
}

// repair replaces the sessions of the state that a case has moved on or ended, without giving up
// the full table (filling it again costs 65 535 exchanges).
func (g *exPPPoE) repair() bool {
	l := g.l
	for i, depth := range []int{3, 2, 0, 1} {
		s := g.s[i]
		m := l.srv.VerifC09SessionMAC(s.sid)
		if l.srv.VerifC09SessionState(s.sid) == g.want[i] && m != nil && m.String() == s.mac.String() {
			continue
		}
		if m != nil && m.String() == s.mac.String() {
			l.push(discFrame(s.mac, pppoe.CodePADT, s.sid, nil))
		} else if l.srv.GetSessionCount() >= 65535 && !g.freeOne() {
			return false
		}
		ns, err := g.session(depth)
		if err != nil {
			return false
		}
		g.s[i] = ns
		if l.srv.VerifC09SessionState(ns.sid) != g.want[i] {
			return false
		}
	}
	for i := 0; l.srv.GetSessionCount() < 65535 && i < 256 && l.dead == nil; i++ {
		l.auxFast(discFrame(g.mac(), pppoe.CodePADR, 0, []pppoe.Tag{{Type: pppoe.TagServiceName, Value: []byte("internet")}, {Type: pppoe.TagACCookie, Value: bytes.Repeat([]byte{0x5a}, 16)}}))
	}
	exCount(g.ev, "pppoe", g.state, "sessions-of-the-state-replaced")
	return g.intact()
}

func (g *exPPPoE) Feed(in []byte) outcome {
	if g.lost {
		return outcome{class: "setup-failed"}
	}
	if g.state == "session-table-full" && g.l != nil && g.l.dead == nil && !g.intact() && !g.repair() {
		// filling the table again would take longer than the watchdog allows an input: the rest of
		// this chunk is not executed in this state (counted; the floor on inputs notices)
		g.lost = true
		exCount(g.ev, "pppoe", g.state, "state-lost")
		return outcome{class: "setup-failed"}
	}
	if !g.intact() {
		if g.l != nil {
			g.l.Close()
			exCount(g.ev, "pppoe", g.state, "server-rebuilt")
		}
		if err := g.setup(); err != nil {
			if g.l != nil && g.l.dead != nil {
				return outcome{pan: g.l.dead}
			}
			exCount(g.ev, "pppoe", g.state, "set-up-did-not-reach-the-state")
			g.l = nil
			return outcome{class: "setup-failed"}
		}
	}
	l := g.l
	// the session the frame is resolved for
	role := roleOf(in, 4)
	if bytes.Contains(in, exPPPoENewMAC) {
		role = 4
	}
	me := pppSess{mac: g.mac(), sid: g.s[0].sid} // a new station names somebody else's session
	if role < 4 {
		me = g.s[role]
	}
	f := append([]byte(nil), in...)
	if len(f) >= 12 {
		for _, m := range []net.HardwareAddr{phMAC, phMACa, phMACb, phMACc, phMACd, exPPPoENewMAC} {
			if string(f[6:12]) == string(m) {
				copy(f[6:12], me.mac)
			}
		}
	}
	if len(f) >= 18 && binary.BigEndian.Uint16(f[16:18]) == phSID {
		binary.BigEndian.PutUint16(f[16:18], me.sid)
	}
	if g.state == "session-id-counter-wraps" {
		l.srv.VerifC09SetNextSessionID(0xFFFF) // the value it has after 65 534 sessions were created; ids 1..4 are live
	}
	n0, st0, free0 := l.srv.GetSessionCount(), l.srv.VerifC09SessionState(me.sid), l.srv.VerifC09ClientPoolFree()
	out := l.push(f)
	if l.dead != nil {
		return outcome{pan: l.dead}
	}
	n1, st1 := l.srv.GetSessionCount(), l.srv.VerifC09SessionState(me.sid)
	class := gReject
	if len(out) > 0 || n0 != n1 || st0 != st1 {
		class = gPassed
	} else if len(f) < 20 {
		class = gFraming
	}
	gateCount(g.ev, g.name, g.state, class)
	o := outcome{class: class, nontriv: class == gPassed}
	kind := "short"
	if len(f) >= 20 {
		switch binary.BigEndian.Uint16(f[12:14]) {
		case pppoe.EtherTypePPPoEDiscovery:
			kind = fmt.Sprintf("disc/code%02x", f[15])
			for _, r := range out {
				if f[15] == pppoe.CodePADR && len(r) >= 20 && r[15] == pppoe.CodePADS {
					switch sid := binary.BigEndian.Uint16(r[16:18]); {
					case g.state == "session-id-counter-wraps" && sid == 0xFFFF:
						exCount(g.ev, "pppoe", g.state, "session-with-the-last-id-before-the-wrap")
					case g.state == "session-id-counter-wraps" && sid >= 5 && sid < 64:
						exCount(g.ev, "pppoe", g.state, "session-id-found-behind-the-wrap")
					}
				}
			}
			if f[15] == pppoe.CodePADR && len(out) == 0 && n0 >= 65535 {
				exCount(g.ev, "pppoe", g.state, "padr-unanswered-no-free-session-id")
			}
		case pppoe.EtherTypePPPoESession:
			proto, code := uint16(0), -1
			if len(f) >= 22 {
				proto = binary.BigEndian.Uint16(f[20:22])
			}
			if len(f) >= 23 && f[22] < 16 {
				code = int(f[22])
			}
			kind = fmt.Sprintf("sess/proto%04x/code%d", proto, code)
			if proto == pppoe.ProtocolPAP && st0 == "Authentication" && st1 == "IPCP Negotiation" && free0 == 0 && l.srv.VerifC09SessionClientIP(me.sid) == nil {
				exCount(g.ev, "pppoe", g.state, "authenticated-but-no-address-left")
			}
			if proto == pppoe.ProtocolIPCP && st0 == "IPCP Negotiation" && l.srv.VerifC09SessionClientIP(me.sid) == nil && len(out) > 0 {
				exCount(g.ev, "pppoe", g.state, "ipcp-answered-for-a-session-without-address")
			}
		default:
			kind = "other-ethertype"
		}
	}
	if st1 == "" {
		st1 = "gone"
	}
	who := []string{"established", "authenticated-no-address", "lcp", "authentication", "new-station"}[role]
	if g.state != "client-pool-exhausted" && role == 1 {
		who = "authenticated"
	}
	o.dist = map[string]string{"exhausted_pppoe_state_x_frame_x_session_x_effect": fmt.Sprintf("%s/%s/%s/%s->%s/replies=%d/sessions%+d", g.state, kind, who, class, st1, min(len(out), 3), n1-n0)}
	if !bytes.Contains(in, canary) {
		for _, r := range out {
			if bytes.Contains(r, canary) {
				l.ev.Note("in-bounds", "reply-echoes-bytes-beyond-received-frame/exhausted-state", fmt.Sprintf("the server's reply to a %d-byte frame contains the marker the socket placed after the received bytes in the receive buffer", len(f)), in, fmt.Sprintf("reply=%x", r))
				break
			}
		}
	}
	for _, r := range out { // a session the frame created is ended again by its owner
		if len(r) >= 20 && binary.BigEndian.Uint16(r[12:14]) == pppoe.EtherTypePPPoEDiscovery && r[15] == pppoe.CodePADS && g.state != "session-table-full" {
			l.push(discFrame(me.mac, pppoe.CodePADT, binary.BigEndian.Uint16(r[16:18]), nil))
		}
	}
	// still usable: the established session answers an Echo-Request, and a further station gets
	// through discovery (or, with the table full, is turned away) and leaves again
	l.push(sessFrame(g.s[0].mac, g.s[0].sid, pppoe.ProtocolLCP, lcpPkt(pppoe.LCPCodeEchoRequest, 200, be32(7))))
	if l.dead != nil {
		return outcome{pan: l.dead}
	}
	nm := g.mac()
	if sid, _, err := g.discover(nm); err == nil {
		if g.state == "session-id-counter-wraps" && sid >= 5 && sid < 64 {
			exCount(g.ev, "pppoe", g.state, "session-id-found-behind-the-wrap")
		}
		l.push(discFrame(nm, pppoe.CodePADT, sid, nil))
	} else if l.dead == nil && g.state == "session-table-full" {
		exCount(g.ev, "pppoe", g.state, "padr-unanswered-no-free-session-id")
		// nearly full: one station leaves, the next one must be given the only free id
		if g.freeOne() {
			if _, _, err := g.discover(g.mac()); err == nil {
				exCount(g.ev, "pppoe", g.state, "session-id-found-in-a-table-with-one-free-id")
			}
		}
	}
	if l.dead != nil {
		return outcome{pan: l.dead}
	}
	if g.state == "session-table-full" { // keep the table full with well-formed PADRs
		for i := 0; l.srv.GetSessionCount() < 65535 && i < 64 && l.dead == nil; i++ {
			l.auxFast(discFrame(g.mac(), pppoe.CodePADR, 0, []pppoe.Tag{{Type: pppoe.TagServiceName, Value: []byte("internet")}, {Type: pppoe.TagACCookie, Value: bytes.Repeat([]byte{0x5a}, 16)}}))
		}
	}
	return o
}

func (g *exPPPoE) Close() {
	if g.l != nil {
		g.l.Close()
	}
}

func exPPPoEEntry() *entry {
	name := "exhausted:pppoe.Server.receiveLoop"
	const wf = 127 // len(exPPPoEMatrix()), checked in open
	quota := func(state string, thorough bool) int {
		switch {
		case state == "session-table-full" && !thorough:
			return wf + 80 // filling the table costs 65 535 well-formed exchanges (about 20 s of one worker): one short chunk
		case state == "session-table-full":
			return wf + 600
		case thorough:
			return wf + 8*500
		}
		return wf + 500 // 400 systematic + 100 seeded
	}
	total := func(t bool) int {
		n := 0
		for _, s := range exPPPoEStates {
			n += quota(s, t)
		}
		return n
	}
	return &entry{
		name: name, comp: "pppoe.Server.receiveLoop", states: exPPPoEStates, totalFn: total, chunk: 1 << 20, cost: 14,
		stateCost: func(state string) int {
			if state == "session-table-full" {
				return 1 << 30 // the fill makes this the longest job of the pass: start it first
			}
			return 0
		},
		quota:     quota,
		gateFloor: func(t bool) int { return total(t) / 8 },
		floors: func(t bool) map[string]int {
			m := map[string]int{
				"exh_pppoe/client-pool-exhausted/authenticated-but-no-address-left":           2,
				"exh_pppoe/client-pool-exhausted/ipcp-answered-for-a-session-without-address": 2,
				"exh_pppoe/session-id-counter-wraps/session-with-the-last-id-before-the-wrap": 5,
				"exh_pppoe/session-id-counter-wraps/session-id-found-behind-the-wrap":         5,
			}
			m["exh_pppoe/session-table-full/padr-unanswered-no-free-session-id"] = 5
			m["exh_pppoe/session-table-full/session-id-found-in-a-table-with-one-free-id"] = 5
			return m
		},
		open: func(state string, ev *env) (runner, error) {
			g := &exPPPoE{ev: ev, name: name, state: state, gp: &gatedPPPoE{ev: ev, name: name, phase: state, sys: gatedPPPoESys()}}
			if err := g.setup(); err != nil {
				g.Close()
				return nil, err
			}
			g.st = &streamOf{wf: exPPPoEMatrix(), sys: g.gp.sys, nsys: exSys(400), hostile: g.gp.Next}
			if len(g.st.wf) != wf {
				g.Close()
				return nil, fmt.Errorf("well-formed matrix has %d frames, the quota assumes %d", len(g.st.wf), wf)
			}
			return g, nil
		},
	}
}

// =============================================================================================
// RADIUS CoA / Disconnect listener whose back ends fail, that has no session table, no handlers

var exCoAStates = []string{"backends-failing", "no-session-table", "no-handlers"}

// exCoAMatrix lists well-formed, validly signed requests: both codes, every way of naming a
// session (known / unknown), every kind of policy change.
func exCoAMatrix() [][]byte {
	sv := func(t int, s string) tlvItem { return tlvItem{t: t, v: []byte(s), lie: -1} }
	idents := [][]tlvItem{
		{sv(44, "live-7")}, {sv(44, "no-such-session")}, {it(8, 10, 9, 0, 8)}, {it(8, 10, 9, 0, 99)}, {sv(31, "02:00:00:00:00:07")}, {sv(31, "02:00:00:00:00:99")},
		{sv(1, "alice")}, {}, {sv(1, "alice"), sv(44, "live-3"), it(8, 10, 9, 0, 8), sv(31, "02:00:00:00:00:07"), it(4, 192, 0, 2, 1)},
	}
	vsa := tlvItem{t: 26, v: append(be32(9), radSpec.ser([]tlvItem{sv(1, "subscriber:qos=gold"), sv(1, "ip:sub-qos-policy-in=10M")})...), lie: -1}
	policies := [][]tlvItem{{}, {sv(11, "gold")}, {it(27, 0, 0, 0x0e, 0x10), it(28, 0, 0, 2, 0x58)}, {vsa}, {sv(11, "gold"), it(27, 0, 0, 0x0e, 0x10), it(28, 0, 0, 2, 0x58), vsa, it(25, 1, 2, 3), it(55, 0x65, 0, 0, 0)}}
	var out [][]byte
	id := byte(0)
	for _, code := range []byte{radius.CodeCoARequest, radius.CodeDisconnectRequest} {
		for _, in := range idents {
			for _, po := range policies {
				id++
				out = append(out, coaFrame(code, id, radSpec.ser(append(append([]tlvItem(nil), in...), po...)), 0))
			}
		}
	}
	return out
}

type exCoA struct {
	*gatedCoA
	state string
	st    *streamOf
}

func (g *exCoA) Next(i int, rng *rand.Rand) []byte { return g.st.next(i, rng) }

func (g *exCoA) Feed(in []byte) outcome {
	b := g.srv.GetStats()
	o := g.coaLoop.Feed(in)
	if o.pan != nil {
		return o
	}
	a := g.srv.GetStats()
	probes := uint64(g.probes)
	acks := a["coa_acks_sent"] - b["coa_acks_sent"] + a["disconnect_acks_sent"] - b["disconnect_acks_sent"]
	naks := a["coa_naks_sent"] - b["coa_naks_sent"] + a["disconnect_naks_sent"] - b["disconnect_naks_sent"] - probes
	class := gReject
	switch {
	case len(in) < 20:
		class = gFraming
	case o.nontriv:
		class = gPassed
	}
	gateCount(g.ev, g.name, g.state, class)
	if acks > 0 && acks < 1000 {
		exCount(g.ev, "coa", g.state, "acknowledged")
	}
	if naks > 0 && naks < 1000 {
		exCount(g.ev, "coa", g.state, "refused")
	}
	if o.dist != nil {
		o.dist = map[string]string{"exhausted_coa_state_x_code_x_outcome": g.state + "/" + o.dist["coa_code_x_outcome"]}
	}
	o.class, o.nontriv = class, class == gPassed
	return o
}

func exCoAEntry() *entry {
	name := "exhausted:radius.CoAServer.receiveLoop"
	const wf = 90 // len(exCoAMatrix()), checked in open
	quota := exQuota(wf, 200, 60)
	total := func(t bool) int { return len(exCoAStates) * quota("", t) }
	return &entry{
		name: name, comp: "radius.CoAServer.receiveLoop", states: exCoAStates, totalFn: total, chunk: 1 << 20, cost: 40,
		quota:     quota,
		gateFloor: func(t bool) int { return total(t) / 5 },
		floors: func(t bool) map[string]int {
			return map[string]int{
				"exh_coa/backends-failing/refused": 20,
				"exh_coa/no-session-table/refused": 20,
				"exh_coa/no-handlers/acknowledged": 10,
				"exh_coa/no-handlers/refused":      10,
			}
		},
		open: func(state string, ev *env) (runner, error) {
			l, err := openCoALoopVariant(ev, state)
			if err != nil {
				return nil, err
			}
			gc := &gatedCoA{coaLoop: l, ev: ev, name: name, sys: coaSys()}
			g := &exCoA{gatedCoA: gc, state: state, st: &streamOf{wf: exCoAMatrix(), sys: gc.sys, nsys: exSys(200), hostile: gc.Next}}
			if len(g.st.wf) != wf {
				l.Close()
				return nil, fmt.Errorf("well-formed matrix has %d requests, the quota assumes %d", len(g.st.wf), wf)
			}
			return g, nil
		},
	}
}

// =============================================================================================
// HA standby whose store refuses writes, or holds thousands of sessions the active never sent

var exHAStates = []string{"store-refuses-writes", "store-large-and-stale"}

// refusingHAStore fails every write (a store that is full or unreachable).
type refusingHAStore struct {
	*ha.InMemorySessionStore
	refused int
}

func (s *refusingHAStore) PutSession(x *ha.SessionState) error {
	s.refused++
	return fmt.Errorf("store refuses writes")
}

func (s *refusingHAStore) DeleteSession(id string) error {
	s.refused++
	return fmt.Errorf("store refuses writes")
}

const exHAStale = 1000

type exHA struct {
	ev    *env
	name  string
	state string
	st    *streamOf
	gh    *gatedHA
	s     *ha.HASyncer
	mem   *ha.InMemorySessionStore
	ref   *refusingHAStore
	seq   int
}

func exHAMatrix() [][]byte {
	var many []any
	for i := 0; i < 50; i++ {
		many = append(many, haSess(fmt.Sprintf("bulk-%d", i)))
	}
	lists := []any{[]any{haSess("s-1")}, []any{haSess("never-synced")}, []any{haSess("s-1"), haSess("s-2"), haSess("s-3")}, many, []any{}, []any{haSess("stale-7")}}
	var out [][]byte
	for _, t := range []string{"add", "update", "delete", "full", "heartbeat", "full_request"} {
		out = append(out, haJSON(haMsg(t, nil, true)))
		for _, l := range lists {
			out = append(out, haJSON(haMsg(t, l, false)))
		}
	}
	return out
}

func (g *exHA) setup() {
	cfg := ha.DefaultSyncConfig()
	cfg.NodeID, cfg.Role, cfg.Partner = "bng-b", ha.RoleStandby, &ha.PartnerInfo{NodeID: "bng-a", Endpoint: "127.0.0.1:1"}
	g.mem = ha.NewInMemorySessionStore()
	var store ha.SessionStore = g.mem
	if g.state == "store-refuses-writes" {
		g.ref = &refusingHAStore{InMemorySessionStore: g.mem}
		store = g.ref
	} else {
		for i := 0; i < exHAStale; i++ { // sessions from an earlier life of this node that the active never mentions
			s := ha.SessionState{SessionID: fmt.Sprintf("stale-%d", i), MAC: "02:00:00:00:00:09", IP: "10.0.9.9", State: "active"}
			g.mem.PutSession(&s)
		}
	}
	g.s = ha.NewHASyncer(cfg, store, zap.NewNop())
	g.s.VerifC09HandleSSEData(haBase())
}

func (g *exHA) Next(i int, rng *rand.Rand) []byte { return g.st.next(i, rng) }

func (g *exHA) Feed(in []byte) outcome {
	if g.s == nil || (g.state == "store-large-and-stale" && g.mem.GetSessionCount() < exHAStale) {
		if g.s != nil {
			exCount(g.ev, "ha", g.state, "standby-rebuilt")
		}
		g.setup()
	}
	g.seq++
	n0, r0 := g.mem.GetSessionCount(), 0
	if g.ref != nil {
		r0 = g.ref.refused
	}
	b := g.s.Stats().MessagesReceived
	err := g.s.VerifC09HandleSSEData(exact(in))
	class := gReject
	if err == nil && g.s.Stats().MessagesReceived > b {
		class = gPassed
	} else if err != nil {
		class = gFraming
	}
	gateCount(g.ev, g.name, g.state, class)
	if g.ref != nil && g.ref.refused > r0 {
		exCount(g.ev, "ha", g.state, "message-applied-although-the-store-refused")
	}
	if n1 := g.mem.GetSessionCount(); n1 < n0-exHAStale/2 {
		exCount(g.ev, "ha", g.state, "stale-sessions-pruned-by-a-snapshot")
	}
	// still usable: a session can be added, read back and deleted
	probe := fmt.Sprintf("probe-%d", g.seq)
	g.s.VerifC09HandleSSEData(haJSON(haMsg("add", []any{haSess(probe)}, false)))
	_, ok := g.s.GetReceivedSession(probe)
	g.s.VerifC09HandleSSEData(haJSON(haMsg("delete", []any{haSess(probe)}, false)))
	_ = g.s.GetAllReceivedSessions()
	o := outcome{class: class, nontriv: class == gPassed}
	o.dist = map[string]string{"exhausted_ha_effect": fmt.Sprintf("%s/%s/probe-readable=%v/store%+d", g.state, class, ok, sign(g.mem.GetSessionCount()-n0))}
	return o
}

func sign(n int) int {
	switch {
	case n > 0:
		return 1
	case n < 0:
		return -1
	}
	return 0
}

func (g *exHA) Close()           {}
func (g *exHA) AfterPanic() bool { g.s = nil; return true }

func exHAEntry() *entry {
	name := "exhausted:ha.HASyncer.handleSSEData"
	const wf = 42 // len(exHAMatrix()), checked in open
	quota := exQuota(wf, 300, 100)
	total := func(t bool) int { return len(exHAStates) * quota("", t) }
	return &entry{
		name: name, comp: "ha.HASyncer.handleSSEData", states: exHAStates, totalFn: total, chunk: 1 << 20, cost: 15,
		quota:     quota,
		gateFloor: func(t bool) int { return total(t) / 8 },
		floors: func(t bool) map[string]int {
			return map[string]int{
				"exh_ha/store-refuses-writes/message-applied-although-the-store-refused": 10,
				"exh_ha/store-large-and-stale/stale-sessions-pruned-by-a-snapshot":       3,
			}
		},
		open: func(state string, ev *env) (runner, error) {
			g := &exHA{ev: ev, name: name, state: state, gh: &gatedHA{ev: ev, name: name, state: "standby-synced", sys: haSys()}}
			g.setup()
			g.st = &streamOf{wf: exHAMatrix(), sys: g.gh.sys, nsys: exSys(300), hostile: g.gh.Next}
			if len(g.st.wf) != wf {
				return nil, fmt.Errorf("well-formed matrix has %d messages, the quota assumes %d", len(g.st.wf), wf)
			}
			return g, nil
		},
	}
}
