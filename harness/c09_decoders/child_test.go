package c09

import (
	"encoding/binary"
	"encoding/hex"
	"encoding/json"
	"fmt"
	"hash/fnv"
	"math/rand/v2"
	"os"
	"path/filepath"
	"runtime"
	"runtime/debug"
	"runtime/pprof"
	"strings"
	"sync"
	"sync/atomic"
	"syscall"
	"time"
	"unsafe"
)

// ---------------------------------------------------------------------------------------------
// journal: the input about to be fed, written with one pwrite before the call

type journalRec struct {
	Idx   int
	Aux   bool
	Input []byte
}

type journal struct {
	f   *os.File
	buf []byte
}

func openJournal(path string) (*journal, error) {
	f, err := os.OpenFile(path, os.O_CREATE|os.O_RDWR|os.O_TRUNC, 0o644)
	if err != nil {
		return nil, err
	}
	return &journal{f: f}, nil
}

// layout: magic(4) idx(4) aux(1) len(4) bytes  — the length is written last in the same pwrite,
// a record is therefore either complete or absent (a pwrite that returned cannot be torn by a
// later death of the process).
func (j *journal) write(idx int, aux bool, in []byte) {
	need := 13 + len(in)
	if cap(j.buf) < need {
		j.buf = make([]byte, need+1024)
	}
	b := j.buf[:need]
	copy(b[0:4], "C09J")
	binary.BigEndian.PutUint32(b[4:8], uint32(int32(idx)))
	b[8] = 0
	if aux {
		b[8] = 1
	}
	binary.BigEndian.PutUint32(b[9:13], uint32(len(in)))
	copy(b[13:], in)
	if _, err := j.f.WriteAt(b, 0); err != nil {
		fmt.Fprintln(os.Stderr, "c09 child: journal write:", err)
		os.Exit(5)
	}
}

func readJournal(path string) *journalRec {
	b, err := os.ReadFile(path)
	if err != nil || len(b) < 13 || string(b[0:4]) != "C09J" {
		return nil
	}
	n := int(binary.BigEndian.Uint32(b[9:13]))
	if 13+n > len(b) {
		return nil
	}
	return &journalRec{Idx: int(int32(binary.BigEndian.Uint32(b[4:8]))), Aux: b[8] == 1, Input: append([]byte(nil), b[13:13+n]...)}
}

// ---------------------------------------------------------------------------------------------
// entry points

// outcome is what the harness observed for one input.
type outcome struct {
	class   string            // short class for counting (ok, error, reply, dropped …)
	nontriv bool              // got past the entry point's framing
	dist    map[string]string // set -> key (distinct observations, e.g. state transitions)
	pan     *feedPanic        // a panic that unwound a bng loop running on a harness-owned goroutine
}

type runner interface {
	// Next builds input i of the stream (systematic index or seeded mutant of a sample that fits the current state).
	Next(i int, rng *rand.Rand) []byte
	// Feed hands one input to bng. It may panic (the framework recovers) or kill the process.
	Feed(in []byte) outcome
	Close()
}

// scaler is implemented by runners that take part in the scaling probe.
type scaler interface {
	ScaleInput(n int) []byte
}

type entry struct {
	name     string
	states   []string
	quick    int // inputs over all states, quick tier
	thorough int
	chunk    int
	cost     int                                   // relative cost per input (scheduling only)
	scale    bool                                  // take part in the scaling probe (runner implements scaler)
	quota    func(state string, thorough bool) int // optional: inputs for one state (default: equal split)
	scaleIn  []string                              // optional: states that take part in the scaling probe (default: all)
	open     func(state string, env *env) (runner, error)
	// stateful handler hammer (c09_stateful_test.go)
	comp      string                  // component reported in violations (default: name)
	gateFloor func(thorough bool) int // floor for the gate_passed/<name> counter
	// exhausted-state hammer (c09_exhausted_test.go)
	floors    func(thorough bool) map[string]int // floors for counters that prove the state-specific code was reached
	stateCost func(state string) int             // optional: scheduling cost of a state's jobs (0: cost x inputs)
	totalFn   func(thorough bool) int            // inputs over all states, computed in the parent only (replaces quick/thorough)
}

func (e *entry) total(thorough bool) int {
	if e.totalFn != nil {
		return e.totalFn(thorough)
	}
	if thorough {
		return e.thorough
	}
	return e.quick
}

// env is what a runner gets from the framework.
type env struct {
	seed    int64
	j       *journal
	cur     int
	to      int // end of the generated stream of this child (0: explicit inputs)
	res     *result
	notesMu sync.Mutex
}

// Aux journals a well-formed auxiliary input (priming frame, probe) under the current index.
func (e *env) Aux(in []byte) {
	if e.j != nil {
		e.j.write(e.cur, true, in)
	}
}

func (e *env) Note(rule, class, desc string, in []byte, extra string) {
	e.notesMu.Lock()
	defer e.notesMu.Unlock()
	for _, n := range e.res.Notes {
		if n.Rule == rule && n.Class == class {
			e.res.Counters["notes/"+rule+"/"+class]++
			return
		}
	}
	e.res.Counters["notes/"+rule+"/"+class]++
	e.res.Notes = append(e.res.Notes, noteRec{Rule: rule, Class: class, Desc: desc, Idx: e.cur, Input: hex.EncodeToString(in), Extra: extra})
}

func (e *env) Count(k string, n int) { e.res.Counters[k] += n }

func findEntry(name string) *entry {
	for _, e := range entries() {
		if e.name == name {
			return e
		}
	}
	for _, e := range statefulEntries() {
		if e.name == name {
			return e
		}
	}
	return nil
}

func h64(parts ...string) uint64 {
	h := fnv.New64a()
	for _, p := range parts {
		h.Write([]byte(p))
		h.Write([]byte{0})
	}
	return h.Sum64()
}

func rngFor(seed int64, entry, state string, i int) *rand.Rand {
	return rand.New(rand.NewPCG(uint64(seed)^(uint64(i+1)*0x9e3779b97f4a7c15), h64("C09", entry, state)))
}

// exact returns a copy of b whose capacity equals its length, so that any slicing beyond the
// input panics instead of silently reading memory that is not part of the input.
func exact(b []byte) []byte {
	c := make([]byte, len(b))
	copy(c, b)
	return c[:len(c):len(c)]
}

// ---------------------------------------------------------------------------------------------
// child main

func writeResult(dir string, r *result) {
	b, _ := json.Marshal(r)
	tmp := filepath.Join(dir, "result.json.tmp")
	if err := os.WriteFile(tmp, b, 0o644); err == nil {
		os.Rename(tmp, filepath.Join(dir, "result.json"))
	}
}

func newResult() *result {
	return &result{Classes: map[string]int{}, Distinct: map[string][]string{}, PanicCount: map[string]int{}, Counters: map[string]int{}}
}

type feedPanic struct {
	msg, site, owner, stack string
}

func safeFeed(r runner, in []byte) (out outcome, p *feedPanic) {
	defer func() {
		if v := recover(); v != nil {
			st := string(debug.Stack())
			msg := fmt.Sprint(v)
			if e, ok := v.(error); ok {
				msg = e.Error()
			}
			site, owner := siteOfRecovered(st)
			p = &feedPanic{msg: "panic: " + msg, site: site, owner: owner, stack: st}
		}
	}()
	out = r.Feed(in)
	return
}

// loopGuard is deferred on the harness goroutine that runs a bng receive loop: a panic that
// unwinds the loop (in production: kills the process, nothing recovers it) is handed to the feeder.
func loopGuard(ch chan *feedPanic, loopName string) {
	if v := recover(); v != nil {
		st := string(debug.Stack())
		msg := fmt.Sprint(v)
		if e, ok := v.(error); ok {
			msg = e.Error()
		}
		site, owner := siteOfRecovered(st)
		ch <- &feedPanic{msg: "panic: " + msg + " [unwound " + loopName + ", whose goroutine nothing in bng recovers: process-fatal in production]", site: site, owner: owner, stack: st}
	}
}

// siteOfRecovered drops the frames of the recovery machinery (everything up to and including
// the runtime's panic frames) and attributes the rest like a crash dump.
func siteOfRecovered(st string) (string, string) {
	lines := strings.Split(st, "\n")
	// goroutine header, then frames; find the last "panic(" / runtime.goPanic / runtime.panic frame
	last := 0
	for i, l := range lines {
		t := strings.TrimSpace(l)
		if strings.HasPrefix(t, "panic(") || strings.HasPrefix(t, "runtime.goPanic") || strings.HasPrefix(t, "runtime.panic") || strings.HasPrefix(t, "runtime.sigpanic") {
			last = i
		}
	}
	if last+2 < len(lines) {
		return siteOf(lines[last+2:])
	}
	return "", "unknown"
}

func childMain() {
	b, err := os.ReadFile(os.Getenv("VERIF_C09_SPEC"))
	if err != nil {
		fmt.Fprintln(os.Stderr, "c09 child: spec:", err)
		os.Exit(4)
	}
	var sp spec
	if err := json.Unmarshal(b, &sp); err != nil {
		fmt.Fprintln(os.Stderr, "c09 child: spec:", err)
		os.Exit(4)
	}
	if pf := os.Getenv("VERIF_C09_PROF"); pf != "" { // debugging aid
		if f, err := os.Create(pf); err == nil {
			pprof.StartCPUProfile(f)
			defer pprof.StopCPUProfile()
		}
	}
	res := newResult()
	e := findEntry(sp.Entry)
	if e == nil {
		res.SetupErr = "unknown entry " + sp.Entry
		writeResult(sp.Dir, res)
		os.Exit(0)
	}
	j, err := openJournal(filepath.Join(sp.Dir, "journal"))
	if err != nil {
		res.SetupErr = err.Error()
		writeResult(sp.Dir, res)
		os.Exit(0)
	}
	// hang watchdog: a candidate only (confirmed by reproduction in a fresh process)
	var inflight atomic.Int64 // index currently being processed
	var since atomic.Int64    // unix nanos when it started
	var prepping atomic.Int64 // unix nanos when the generation of the next input started (0: not generating)
	inflight.Store(-1)
	var resMu sync.Mutex
	go func() {
		for {
			time.Sleep(250 * time.Millisecond)
			// generating an input may include well-formed set-up exchanges (a batch of servers brought
			// into an exhausted state): a set-up that does not come back is not attributed to any
			// input (the parent reports the dead child as inconclusive and resumes behind it)
			if p := prepping.Load(); p != 0 && time.Since(time.Unix(0, p)) > 120*time.Second {
				fmt.Fprintln(os.Stderr, "C09-PREP-STALL: the set-up in front of the next input did not finish within 120 s")
				buf := make([]byte, 1<<20)
				n := runtime.Stack(buf, true)
				os.Stderr.Write(buf[:n])
				os.Exit(9)
			}
			i := inflight.Load()
			if i >= 0 && time.Since(time.Unix(0, since.Load())) > time.Duration(sp.Watchdog)*time.Second {
				resMu.Lock()
				k := int(i)
				res.HangIdx = &k
				writeResult(sp.Dir, res)
				fmt.Fprintf(os.Stderr, "C09-HANG idx=%d\n", k)
				buf := make([]byte, 1<<20)
				n := runtime.Stack(buf, true)
				os.Stderr.Write(buf[:n])
				os.Exit(7)
			}
		}
	}()

	if sp.Scale {
		childScale(e, &sp, res, j, func(k int) { since.Store(time.Now().UnixNano()); inflight.Store(int64(k)) }, func() { inflight.Store(-1) })
		res.Done = true
		writeResult(sp.Dir, res)
		os.Exit(0)
	}
	ev := &env{seed: sp.Seed, j: j, res: res, cur: -1}
	if len(sp.Inputs) == 0 {
		ev.to = sp.To
	}
	r, err := e.open(sp.State, ev)
	if err != nil {
		res.SetupErr = err.Error()
		writeResult(sp.Dir, res)
		os.Exit(0)
	}

	var explicit [][]byte
	for _, h := range sp.Inputs {
		x, _ := hex.DecodeString(h)
		explicit = append(explicit, x)
	}
	from, to := sp.From, sp.To
	if explicit != nil {
		from, to = 0, len(explicit)
	}

	nt := map[uint64]struct{}{}
	dist := map[string]map[string]struct{}{}
	flush := func(done bool) {
		resMu.Lock()
		defer resMu.Unlock()
		res.Nontriv = res.Nontriv[:0]
		for h := range nt {
			res.Nontriv = append(res.Nontriv, h)
		}
		for set, m := range dist {
			keys := make([]string, 0, len(m))
			for k := range m {
				keys = append(keys, k)
			}
			res.Distinct[set] = keys
		}
		res.Done = done
		writeResult(sp.Dir, res)
	}
	ckpt := 64
	for i := from; i < to; i++ {
		var in []byte
		if explicit != nil {
			in = explicit[i]
		} else {
			ev.cur = i
			prepping.Store(time.Now().UnixNano())
			in = r.Next(i, rngFor(sp.Seed, e.name, sp.State, i))
			prepping.Store(0)
		}
		if len(in) > maxInput {
			in = in[:maxInput]
		}
		ev.cur = i
		j.write(i, false, in)
		since.Store(time.Now().UnixNano())
		inflight.Store(int64(i))
		t0 := time.Now()
		out, p := safeFeed(r, in)
		if p == nil && out.pan != nil {
			p = out.pan
		}
		dt := time.Since(t0).Nanoseconds()
		inflight.Store(-1)
		resMu.Lock()
		res.Fed++
		if dt > res.MaxCallNs {
			res.MaxCallNs = dt
		}
		if p != nil {
			res.Classes["PANIC"]++
			res.PanicCount[p.site]++
			seen := 0
			for _, q := range res.Panics {
				if q.Site == p.site {
					seen++
				}
			}
			if seen < 2 {
				res.Panics = append(res.Panics, panicRec{Idx: i, Input: hex.EncodeToString(in), Msg: p.msg, Site: p.site, Owner: p.owner, Stack: tail(p.stack, 2500)})
			}
		} else {
			res.Classes[out.class]++
			if out.nontriv {
				nt[h64(hex.EncodeToString(in))] = struct{}{}
				if len(res.Samples) < 1 && len(in) > 0 && len(in) <= 96 {
					res.Samples = append(res.Samples, sampleRec{Entry: e.name, State: sp.State, Input: hex.EncodeToString(in), Outcome: out.class})
				}
			}
			for set, k := range out.dist {
				m := dist[set]
				if m == nil {
					m = map[string]struct{}{}
					dist[set] = m
				}
				m[k] = struct{}{}
			}
		}
		resMu.Unlock()
		if ap, ok := r.(interface{ AfterPanic() bool }); p != nil && !(ok && ap.AfterPanic()) {
			// the entry point's state may be inconsistent after a panic: start afresh
			r.Close()
			r, err = e.open(sp.State, ev)
			if err != nil {
				resMu.Lock()
				res.SetupErr = "re-open after panic: " + err.Error()
				resMu.Unlock()
				flush(false)
				os.Exit(0)
			}
		}
		if (i-from)%ckpt == ckpt-1 {
			flush(false)
		}
	}
	ev.cur = to
	r.Close()
	flush(true)
	pprof.StopCPUProfile()
	os.Exit(0)
}

// scaleStates lists the states that take part in the scaling probe of an entry point.
func scaleStates(e *entry) []string {
	if e.scaleIn != nil {
		return e.scaleIn
	}
	if len(e.states) == 0 {
		return []string{""}
	}
	return e.states
}

// childScale runs the scaling probe of one entry point (all its states).
func childScale(e *entry, sp *spec, res *result, j *journal, begin func(int), end func()) {
	states := scaleStates(e)
	sizes := []int{512, 1024, 2048}
	for si, st := range states {
		ev := &env{seed: sp.Seed, res: res, cur: -1}
		r0, err := e.open(st, ev)
		if err != nil {
			res.SetupErr = err.Error()
			return
		}
		sc, ok := r0.(scaler)
		if !ok {
			r0.Close()
			continue
		}
		inputs := make([][]byte, len(sizes))
		for k, n := range sizes {
			inputs[k] = sc.ScaleInput(n)
		}
		r0.Close()
		mins := make([]int64, len(sizes))
		for k := range sizes {
			mins[k] = 1 << 62
			for rep := 0; rep < 9; rep++ {
				r, err := e.open(st, ev)
				if err != nil {
					res.SetupErr = err.Error()
					return
				}
				in := append([]byte(nil), inputs[k]...)
				// CPU time of this process, not wall time: other processes competing for the
				// cores do not inflate it; no collection runs inside the timed section
				runtime.GC()
				j.write(si*10000+sizes[k], false, in) // a hang or process death is attributed to this sample
				begin(si*10000 + sizes[k])
				gcp := debug.SetGCPercent(-1)
				t0 := cpuNow()
				o, p := safeFeed(r, in)
				dt := cpuNow() - t0
				debug.SetGCPercent(gcp)
				end()
				if p == nil {
					p = o.pan
				}
				r.Close()
				if p != nil {
					// a panic on a well-formed scaled sample is found by the stream as well; not timed
					dt = 1 << 62
				}
				if dt < mins[k] {
					mins[k] = dt
				}
			}
		}
		rec := scaleRec{State: st, Sizes: sizes, MinNs: mins}
		for k := 1; k < len(sizes); k++ {
			rec.Ratio = append(rec.Ratio, float64(mins[k])/float64(max64(mins[k-1], 1)))
		}
		rec.Flag = mins[2] < 1<<62 && mins[2] >= 200_000 && rec.Ratio[0] >= 6 && rec.Ratio[1] >= 6
		if rec.Flag {
			rec.Input = hex.EncodeToString(inputs[2])
		}
		res.Scale = append(res.Scale, rec)
	}
}

// cpuNow returns the CPU time consumed by this process so far (CLOCK_PROCESS_CPUTIME_ID), in ns.
func cpuNow() int64 {
	var ts syscall.Timespec
	syscall.Syscall(syscall.SYS_CLOCK_GETTIME, 2, uintptr(unsafe.Pointer(&ts)), 0)
	return ts.Nano()
}

func max64(a, b int64) int64 {
	if a > b {
		return a
	}
	return b
}
