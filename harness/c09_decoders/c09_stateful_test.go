package c09

// C09, second pass: the *stateful handler hammer*.
//
// The first pass (TestHammer) feeds byte-level mutants to every decoder; handlers that sit
// behind a state / identifier gate (an LCP Configure-Nak is only looked at when its Identifier
// equals that of the outstanding Configure-Request, a CHAP Response only when it answers the
// outstanding Challenge, a PPPoE session frame only when it comes from the station that owns a
// live session, a DHCP REQUEST is a renewal only when a lease exists, ...) see almost none of
// those mutants. This pass first drives the real object into each reachable state by the
// legitimate sequence of calls and packets, reads the identifiers it currently expects out of
// the packets the object itself emitted (send callback / captured replies), and then delivers
// structure-aware hostile packets that PASS the gate: right code, matching identifier, and a
// body whose options are short / long / empty / repeated / over-long, whose length fields lie,
// cut at every byte boundary, up to the 2 KiB bound, plus seeded structural and byte-level
// mutants of valid packets. After every hostile packet a legitimate packet is delivered to the
// same object: it must still be usable.
//
// It reuses the child-process / journal machinery of the first pass (child_test.go): the hostile
// input is journalled before it is fed, a recovered panic is reported as no-panic, the 10 s
// per-input watchdog as no-hang (confirmed only if it reproduces in a fresh process).

import (
	"encoding/binary"
	"fmt"
	"math/rand/v2"
	"net"
	"testing"

	"go.uber.org/zap"

	"github.com/codelaboratoryltd/bng/pkg/pppoe"
	"github.com/codelaboratoryltd/bng/pkg/radius"
)

func TestStatefulHammer(t *testing.T) { hammer(t, statefulEntries(), "stateful_") }

func statefulEntries() []*entry {
	return append(append(gatedEntries(), exhaustedEntries()...), replyEntries()...)
}

func gatedEntries() []*entry {
	return []*entry{
		gatedFSMEntry("gated:pppoe.LCPStateMachine", "pppoe.LCPStateMachine.ReceivePacket", "lcp", lcpGoodReq),
		gatedFSMEntry("gated:pppoe.IPCPStateMachine", "pppoe.IPCPStateMachine.ReceivePacket", "ipcp", ipcpGoodReq),
		gatedFSMEntry("gated:pppoe.IPV6CPStateMachine", "pppoe.IPV6CPStateMachine.ReceivePacket", "ipv6cp", ipv6cpGoodReq),
		gatedAuthEntry(),
		gatedPPPoEEntry(),
		gatedDHCPv4Entry(),
		gatedDHCPv6Entry(),
		gatedCoAEntry(),
		gatedHAEntry("gated:ha.HASyncer.handleSSEData", "ha.HASyncer.handleSSEData", "standby-synced"),
		gatedHAEntry("gated:ha.HASyncer.connectToStream", "ha.HASyncer.connectToStream", "stream-attached"),
	}
}

// ---------------------------------------------------------------------------------------------
// gate bookkeeping: every delivered packet is counted per (handler, state) as
//   passed            the handler emitted a packet, changed state, or returned an error from
//                     beyond the gate (i.e. the guarded code demonstrably ran)
//   rejected          no observable effect (dropped at the gate, or accepted silently)
//   framing-rejected  refused by the packet framing before any gate (length field, short header)

const (
	gPassed  = "passed"
	gReject  = "rejected"
	gFraming = "framing-rejected"
)

func gateCount(ev *env, name, state, class string) {
	ev.Count("gate_"+class+"/"+name, 1)
	ev.Count("gated/"+name+"/"+state+"/"+class, 1)
}

// ---------------------------------------------------------------------------------------------
// generic TLV toolkit: option lists of LCP/IPCP/IPv6CP (1+1, length counts the header), RADIUS
// attributes (same), DHCPv4 options (1+1, length without header), DHCPv6 options and PPPoE tags
// (2+2, without header), with nested lists (Option 82 sub-options, IA_NA/IA_PD contents, VSAs).

type tlvSpec struct {
	tb, lb int
	incl   bool
	nest   map[int]nestSpec
}

type nestSpec struct {
	skip int // fixed bytes in front of the nested list
	spec *tlvSpec
}

type tlvItem struct {
	t   int
	v   []byte
	lie int // -1: honest length field; otherwise the value written into it
}

func it(t int, v ...byte) tlvItem { return tlvItem{t: t, v: v, lie: -1} }

func (s *tlvSpec) hdr() int { return s.tb + s.lb }

func (s *tlvSpec) maxLen() int {
	if s.lb == 1 {
		return 255
	}
	return 65535
}

func (s *tlvSpec) put(dst []byte, x tlvItem) []byte {
	if s.tb == 1 {
		dst = append(dst, byte(x.t))
	} else {
		dst = append(dst, byte(x.t>>8), byte(x.t))
	}
	l := len(x.v)
	if s.incl {
		l += s.hdr()
	}
	if x.lie >= 0 {
		l = x.lie
	}
	if s.lb == 1 {
		dst = append(dst, byte(l))
	} else {
		dst = append(dst, byte(l>>8), byte(l))
	}
	return append(dst, x.v...)
}

func (s *tlvSpec) ser(items []tlvItem) []byte {
	var b []byte
	for _, x := range items {
		b = s.put(b, x)
	}
	return b
}

// parse splits a well-formed list; it stops at the first inconsistency.
func (s *tlvSpec) parse(b []byte) []tlvItem {
	var out []tlvItem
	for len(b) >= s.hdr() {
		var t, l int
		if s.tb == 1 {
			t = int(b[0])
		} else {
			t = int(binary.BigEndian.Uint16(b))
		}
		if s.lb == 1 {
			l = int(b[s.tb])
		} else {
			l = int(binary.BigEndian.Uint16(b[s.tb:]))
		}
		if s.incl {
			l -= s.hdr()
		}
		if l < 0 || s.hdr()+l > len(b) {
			break
		}
		out = append(out, tlvItem{t: t, v: append([]byte(nil), b[s.hdr():s.hdr()+l]...), lie: -1})
		b = b[s.hdr()+l:]
	}
	return out
}

func cloneItems(in []tlvItem) []tlvItem {
	out := make([]tlvItem, len(in))
	for i, x := range in {
		out[i] = tlvItem{t: x.t, v: append([]byte(nil), x.v...), lie: x.lie}
	}
	return out
}

// resize returns the value cut or extended (with a recognisable filler) to n bytes.
func resize(v []byte, n int) []byte {
	out := make([]byte, n)
	copy(out, v)
	for i := len(v); i < n; i++ {
		out[i] = byte(0xA0 + i%16)
	}
	return out
}

// lies lists the interesting dishonest values of one item's length field.
func (s *tlvSpec) lies(x tlvItem, rest int) []int {
	h := 0
	if s.incl {
		h = s.hdr()
	}
	act := len(x.v) + h
	cand := []int{0, 1, h - 1, h, act - 1, act + 1, act + 2, rest + h, rest + h + 1, s.maxLen() - 1, s.maxLen()}
	var out []int
	seen := map[int]bool{act: true}
	for _, c := range cand {
		if c < 0 || c > s.maxLen() || seen[c] {
			continue
		}
		seen[c] = true
		out = append(out, c)
	}
	return out
}

// blobs enumerates the small-scope hostile variants of one canonical list: every item with
// every value length 0..len+2 (honest length field), alone and inside the otherwise valid list;
// every dishonest length value of every item; the list cut at every byte; every item repeated;
// the list repeated up to limit bytes.
func (s *tlvSpec) blobs(canon []tlvItem, limit int) [][]byte {
	var out [][]byte
	full := s.ser(canon)
	out = append(out, full, nil)
	for i, x := range canon {
		for n := 0; n <= len(x.v)+2; n++ {
			if n == len(x.v) {
				continue
			}
			y := tlvItem{t: x.t, v: resize(x.v, n), lie: -1}
			out = append(out, s.ser([]tlvItem{y}))
			l := cloneItems(canon)
			l[i] = y
			out = append(out, s.ser(l))
		}
		big := s.maxLen() // the largest value the length field can describe
		if s.incl {
			big -= s.hdr()
		}
		if big > len(x.v)+2 && big+s.hdr() <= limit {
			out = append(out, s.ser([]tlvItem{{t: x.t, v: resize(x.v, big), lie: -1}}))
		}
		after := 0
		for _, z := range canon[i+1:] {
			after += s.hdr() + len(z.v)
		}
		for _, lie := range s.lies(x, len(x.v)+after) {
			y := tlvItem{t: x.t, v: x.v, lie: lie}
			out = append(out, s.ser([]tlvItem{y}))
			l := cloneItems(canon)
			l[i] = y
			out = append(out, s.ser(l))
		}
		for _, times := range []int{2, 3, 17} {
			var l []tlvItem
			for k := 0; k < times; k++ {
				l = append(l, x)
			}
			out = append(out, s.ser(append(l, canon...)))
		}
		// nested list inside this item: recurse one level
		if ns, ok := s.nest[x.t]; ok && len(x.v) >= ns.skip {
			inner := ns.spec.parse(x.v[ns.skip:])
			for _, ib := range ns.spec.blobs(inner, limit/2) {
				l := cloneItems(canon)
				l[i].v = append(append([]byte(nil), x.v[:ns.skip]...), ib...)
				if len(l[i].v)+s.hdr() <= s.maxLen() || !s.incl {
					out = append(out, s.ser(l))
				}
			}
		}
	}
	for n := 1; n < len(full); n++ {
		out = append(out, append([]byte(nil), full[:n]...))
	}
	if len(full) > 0 {
		out = append(out, repeatTo(nil, full, limit))
		out = append(out, repeatTo(nil, s.ser(canon[:1]), limit))
	}
	return out
}

// hostile applies one to three structural mutations to a list and serialises it.
func (s *tlvSpec) hostile(rng *rand.Rand, canon []tlvItem, limit int) []byte {
	l := cloneItems(canon)
	var raw []byte
	cut := -1
	for r, rounds := 0, 1+rng.IntN(3); r < rounds; r++ {
		if len(l) == 0 {
			l = append(l, tlvItem{t: rng.IntN(256), v: randBytes(rng, rng.IntN(8)), lie: -1})
		}
		i := rng.IntN(len(l))
		switch rng.IntN(14) {
		case 0: // short value, honest length
			if n := len(l[i].v); n > 0 {
				l[i].v = l[i].v[:rng.IntN(n)]
			}
		case 1: // long value, honest length
			add := []int{1, 2, 3, 4, 8, 16, 64, 200}[rng.IntN(8)]
			if s.incl && len(l[i].v)+add+s.hdr() > s.maxLen() {
				add = s.maxLen() - s.hdr() - len(l[i].v)
			}
			if add > 0 {
				l[i].v = resize(l[i].v, len(l[i].v)+add)
			}
		case 2: // empty value
			l[i].v = nil
		case 3, 4: // the length field lies
			rest := 0
			for _, z := range l[i:] {
				rest += s.hdr() + len(z.v)
			}
			c := s.lies(l[i], rest-s.hdr())
			l[i].lie = c[rng.IntN(len(c))]
		case 5: // cut the serialised list anywhere
			cut = rng.IntN(1 << 16)
		case 6: // repeat one item
			n := []int{1, 2, 3, 8, 40, 200}[rng.IntN(6)]
			var rep []tlvItem
			for k := 0; k < n && (k+1)*(s.hdr()+len(l[i].v)) < limit; k++ {
				rep = append(rep, l[i])
			}
			l = append(l[:i:i], append(rep, l[i:]...)...)
		case 7: // repeat the whole list up to the size bound
			unit := cloneItems(l)
			sz := len(s.ser(unit))
			for n := sz; sz > 0 && n+sz <= limit && rng.IntN(12) != 0; n += sz {
				l = append(l, unit...)
			}
		case 8: // drop
			l = append(l[:i:i], l[i+1:]...)
		case 9: // swap
			j := rng.IntN(len(l))
			l[i], l[j] = l[j], l[i]
		case 10: // item of a type the handler does not know
			x := tlvItem{t: rng.IntN(1 << (8 * uint(s.tb))), v: randBytes(rng, rng.IntN(12)), lie: -1}
			l = append(l[:i:i], append([]tlvItem{x}, l[i:]...)...)
		case 11: // overwrite the value
			f := []byte{0, 0xff, 0x80, 0x7f}[rng.IntN(4)]
			for k := range l[i].v {
				l[i].v[k] = f
			}
		case 12: // mutate a nested list
			if ns, ok := s.nest[l[i].t]; ok && len(l[i].v) >= ns.skip {
				inner := ns.spec.parse(l[i].v[ns.skip:])
				nb := ns.spec.hostile(rng, inner, limit/2)
				v := append(append([]byte(nil), l[i].v[:ns.skip]...), nb...)
				if s.incl && len(v)+s.hdr() > s.maxLen() {
					v = v[:s.maxLen()-s.hdr()]
				}
				l[i].v = v
			} else if n := len(l[i].v); n > 0 {
				l[i].v[rng.IntN(n)] ^= 1 << rng.IntN(8)
			}
		case 13: // random value of the same size
			l[i].v = randBytes(rng, len(l[i].v))
		}
	}
	raw = s.ser(l)
	if cut >= 0 && len(raw) > 0 {
		raw = raw[:cut%len(raw)]
	}
	if len(raw) > limit {
		raw = raw[:limit]
	}
	return raw
}

// ---------------------------------------------------------------------------------------------
// PPP control protocol packets (LCP, IPCP, IPv6CP share the RFC 1661 format)

var cpSpec = &tlvSpec{tb: 1, lb: 1, incl: true}

const cpLimit = 1480 // control packets must fit a PPPoE frame in the server-level runner

// cpPkt frames data as a control packet; mode selects what the length field says.
func cpPkt(code, id uint8, data []byte, mode int) []byte {
	b := append([]byte{code, id, 0, 0}, data...)
	n := len(b)
	switch mode {
	case 1: // header only, the options are trailing padding
		n = 4
	case 2:
		n = len(b) - 1
	case 3: // beyond the data (framing must refuse it)
		n = len(b) + 1
	case 4:
		n = 3
	case 5:
		n = 0
	case 6: // honest, followed by padding that is not part of the packet
		b = append(b, 0xEE, 0xEE, 0xEE)
	case 7:
		n = 0xffff
	case 8: // cuts the last option in two
		if len(data) > 2 {
			n = len(b) - 2
		}
	}
	binary.BigEndian.PutUint16(b[2:4], uint16(n))
	return b
}

type cpProto struct {
	name  string
	canon [][]tlvItem
}

func cpProtoFor(proto string) *cpProto {
	switch proto {
	case "lcp":
		mru, magic := it(1, 0x05, 0xd4), it(5, 0x0b, 0xad, 0xca, 0xfe)
		return &cpProto{name: proto, canon: [][]tlvItem{
			{mru, magic, it(3, 0xc0, 0x23), it(7), it(8)},
			{mru, magic, it(3, 0xc2, 0x23, 0x05)},
			{it(1, 0x00, 0x20), it(5, 0, 0, 0, 0), it(4, 0xc0, 0x25, 0, 0, 0, 10), it(13, 6), it(2, 0, 0, 0, 0)},
			{it(5, 0x12, 0x34, 0xab, 0xcd), it(3, 0xc2, 0x23, 0x81), it(17, 0x05, 0xdc), it(19, 1, 2, 3, 4, 5, 6, 7)}, // our own magic (loop), MS-CHAP, multilink
		}}
	case "ipcp":
		return &cpProto{name: proto, canon: [][]tlvItem{
			{it(3, 10, 0, 0, 2), it(129, 0, 0, 0, 0), it(131, 0, 0, 0, 0)},
			{it(3, 0, 0, 0, 0), it(2, 0x00, 0x2d, 0x0f, 0x00), it(1, 10, 0, 0, 1, 10, 0, 0, 2)},
			{it(3, 192, 168, 1, 77), it(129, 9, 9, 9, 9), it(130, 0, 0, 0, 0), it(131, 1, 1, 1, 1), it(132, 0, 0, 0, 0)},
		}}
	default:
		return &cpProto{name: proto, canon: [][]tlvItem{
			{it(1, 0x02, 0xaa, 0xbb, 0xff, 0xfe, 0xcc, 0xdd, 0xee)},
			{it(1, 0, 0, 0, 0, 0, 0, 0, 0), it(2, 0x00, 0x4f)},
			{it(1, 0x02, 0, 0, 0, 0, 0, 0, 1)}, // the local interface id (collision)
		}}
	}
}

var cpOtherCodes = []uint8{5, 6, 7, 8, 9, 10, 11, 0, 12, 13, 14, 15, 0x42, 0xff}

// otherBodies lists bodies for the codes that do not carry an option list.
func cpOtherBodies(code uint8) [][]byte {
	big := make([]byte, cpLimit-4)
	for i := range big {
		big[i] = byte(i)
	}
	switch code {
	case 7: // Code-Reject: a copy of the rejected packet
		out := [][]byte{nil, {1}, {1, 1}, {1, 1, 0}, {1, 1, 0, 4}, {2, 1, 0, 4}, {3, 1, 0, 4}, {4, 9, 0, 6, 1, 2}, {5, 1, 0, 4}, {9, 1, 0, 8, 0, 0, 0, 0}, {0x42, 1, 0xff, 0xff}, big}
		return out
	case 8: // Protocol-Reject: rejected protocol + rejected information
		return [][]byte{nil, {0xc0}, {0xc0, 0x21}, {0xc0, 0x21, 1, 1, 0, 4}, {0x80, 0x21}, {0x80, 0x57, 1}, {0xc0, 0x23, 1, 1, 0, 6, 0, 0}, {0xc2, 0x23}, {0, 0}, {0xff, 0xff}, append([]byte{0xc0, 0x21}, big[:cpLimit-6]...)}
	case 9, 10, 11: // Echo-Request / Echo-Reply / Discard-Request: magic number + data
		var out [][]byte
		for _, magic := range [][]byte{{0x0b, 0xad, 0xca, 0xfe}, {0x12, 0x34, 0xab, 0xcd}, {0, 0, 0, 0}} {
			for n := 0; n <= 8; n++ {
				out = append(out, resize(magic, n))
			}
		}
		return append(out, big)
	default: // Terminate-*, unknown codes
		return [][]byte{nil, {0}, []byte("bye"), {1, 4, 5, 0xd4}, big[:255], big}
	}
}

var cpSysCache = map[string][][]byte{}

// cpSys enumerates the systematic hostile packets of one protocol (identifier 0, patched later).
func cpSys(p *cpProto) [][]byte {
	if c, ok := cpSysCache[p.name]; ok {
		return c
	}
	var out [][]byte
	seen := map[string]bool{}
	add := func(b []byte) {
		if len(b) > maxInput {
			return
		}
		if k := string(b); !seen[k] {
			seen[k] = true
			out = append(out, b)
		}
	}
	for _, canon := range p.canon {
		blobs := cpSpec.blobs(canon, cpLimit-4)
		for code := uint8(1); code <= 4; code++ {
			for _, bl := range blobs {
				add(cpPkt(code, 0, bl, 0))
			}
			full := cpSpec.ser(canon)
			for mode := 1; mode <= 8; mode++ {
				add(cpPkt(code, 0, full, mode))
			}
		}
	}
	for _, code := range cpOtherCodes {
		for _, body := range cpOtherBodies(code) {
			add(cpPkt(code, 0, body, 0))
			add(cpPkt(code, 0, body, 2))
			add(cpPkt(code, 0, body, 6))
		}
		add(cpPkt(code, 0, cpSpec.ser(p.canon[0]), 0))
	}
	for n := 0; n < 4; n++ { // shorter than a header
		add(make([]byte, n))
	}
	rng := rand.New(rand.NewPCG(0xc09, h64("gated", p.name)))
	rng.Shuffle(len(out), func(i, j int) { out[i], out[j] = out[j], out[i] })
	cpSysCache[p.name] = out
	return out
}

// cpRandom builds one seeded hostile control packet; own is the option list of the object's own
// outstanding Configure-Request (what a peer's Ack/Nak/Reject legitimately refers to).
func cpRandom(rng *rand.Rand, p *cpProto, own []tlvItem) []byte {
	code := uint8(1 + rng.IntN(4))
	if x := rng.IntN(10); x >= 7 {
		code = cpOtherCodes[rng.IntN(len(cpOtherCodes))]
	}
	var body []byte
	if code >= 1 && code <= 4 {
		canon := p.canon[rng.IntN(len(p.canon))]
		if len(own) > 0 && code != 1 && rng.IntN(2) == 0 {
			canon = own
		}
		body = cpSpec.hostile(rng, canon, cpLimit-4)
	} else {
		bs := cpOtherBodies(code)
		body = bs[rng.IntN(len(bs))]
		if rng.IntN(3) == 0 {
			body = mutate(rng, body, 0, cpSpec.ser(p.canon[0]))
		}
	}
	if len(body) > cpLimit-4 {
		body = body[:cpLimit-4]
	}
	mode := 0
	if rng.IntN(6) == 0 {
		mode = 1 + rng.IntN(8)
	}
	b := cpPkt(code, 0, body, mode)
	if rng.IntN(12) == 0 { // byte-level damage on top, header included
		b = mutate(rng, b, 0, cpSpec.ser(p.canon[0]))
	}
	return b
}

// patchID puts the identifier the object currently expects into a generated packet; a small
// share of the seeded packets gets a neighbouring or random identifier instead (the gate's
// other side).
func patchID(b []byte, id uint8, rng *rand.Rand, always bool) []byte {
	if len(b) < 2 {
		return b
	}
	b[1] = id
	if !always {
		switch rng.IntN(20) {
		case 0:
			b[1] = id + 1
		case 1:
			b[1] = id - 1
		case 2:
			b[1] = byte(rng.Uint32())
		}
	}
	return b
}

// ---------------------------------------------------------------------------------------------
// LCP / IPCP / IPv6CP automata, each in each of its ten states

type gatedFSM struct {
	ev          *env
	name, proto string
	state       string
	goodReq     func(uint8) []byte
	p           *cpProto
	sys         [][]byte
	id          uint8     // identifier of the automaton's own last Configure-Request (from the packet it sent)
	own         []tlvItem // the options of that request
}

func (g *gatedFSM) AfterPanic() bool { return true } // every Feed builds a fresh automaton

func (g *gatedFSM) Next(i int, rng *rand.Rand) []byte {
	if i < len(g.sys) {
		return patchID(append([]byte(nil), g.sys[i]...), g.id, rng, true)
	}
	return patchID(cpRandom(rng, g.p, g.own), g.id, rng, false)
}

func (g *gatedFSM) Feed(in []byte) outcome {
	rec := &sendRec{}
	m, err := newFSM(g.proto, rec)
	if err != nil {
		panic(err)
	}
	if err := driveFSM(m, rec, g.state, g.goodReq); err != nil {
		panic(err)
	}
	defer m.down() // stops the restart timer
	before, sent := m.state(), rec.n
	rerr := m.recv(exact(in))
	after, replied := m.state(), rec.n > sent
	_, ferr := pppoe.ParseLCPPacket(in)
	class := gReject
	switch {
	case ferr != nil:
		class = gFraming
	case replied || before != after || rerr != nil:
		class = gPassed
	}
	gateCount(g.ev, g.name, g.state, class)
	code := "short"
	if len(in) >= 1 {
		code = fmt.Sprint(in[0])
		if in[0] > 11 {
			code = "unknown"
		}
	}
	idm := len(in) >= 2 && in[1] == g.id
	o := outcome{class: class, nontriv: class == gPassed}
	o.dist = map[string]string{"gated_fsm_state_x_code_x_effect": fmt.Sprintf("%s:%s+code%s/id-match=%v->%s/reply=%v/err=%v", g.proto, before, code, idm, after, replied, rerr != nil)}
	// the automaton must still be usable: a legitimate exchange follows on the same object
	m.recv(g.goodReq(91))
	rec.mu.Lock()
	ackID, ackOpts, have := rec.lastReqID, rec.lastReq, rec.haveReq
	rec.mu.Unlock()
	if have {
		m.recv(lcpPkt(pppoe.LCPCodeConfigAck, ackID, ackOpts))
	}
	m.recv(lcpPkt(pppoe.LCPCodeEchoRequest, 92, []byte{0x0b, 0xad, 0xca, 0xfe, 'o', 'k'}))
	m.recv(lcpPkt(pppoe.LCPCodeTermRequest, 93, nil))
	_ = m.state()
	return o
}

func (g *gatedFSM) Close() {}

// The code in front of a handler's state switch (identifier gate, option parsing) is the same in
// every state, so the quick tier runs the whole systematic list in two states (a request
// outstanding; opened) and a third of it (any prefix of the shuffled list is a fair sample) in the
// other eight; the thorough tier runs all of it everywhere.
var gatedFSMKeyStates = map[string]bool{"Req-Sent": true, "Opened": true}

func gatedFSMEntry(name, comp, proto string, goodReq func(uint8) []byte) *entry {
	p := cpProtoFor(proto)
	quota := func(state string, thorough bool) int {
		n := len(cpSys(p))
		if gatedFSMKeyStates[state] {
			n += 300
		} else {
			n = n/3 + 150
		}
		if thorough {
			n = len(cpSys(p)) + 7000
		}
		return n
	}
	total := func(thorough bool) int {
		t := 0
		for _, st := range fsmStates {
			t += quota(st, thorough)
		}
		return t
	}
	return &entry{
		name: name, comp: comp, states: fsmStates, totalFn: total, chunk: 1 << 20, cost: 4,
		quota:     quota,
		gateFloor: func(thorough bool) int { return total(thorough) / 4 },
		open: func(state string, ev *env) (runner, error) {
			g := &gatedFSM{ev: ev, name: name, proto: proto, state: state, goodReq: goodReq, p: p, sys: cpSys(p)}
			// what does the automaton expect in this state? read it from the packets it sent
			rec := &sendRec{}
			m, err := newFSM(proto, rec)
			if err != nil {
				return nil, err
			}
			if err := driveFSM(m, rec, state, goodReq); err != nil {
				return nil, err
			}
			m.down()
			if rec.haveReq {
				g.id = rec.lastReqID
				g.own = cpSpec.parse(rec.lastReq)
			}
			return g, nil
		},
	}
}

// ---------------------------------------------------------------------------------------------
// PAP / CHAP authenticator in every state it can be in, including the states that need a
// RADIUS server that refuses (failed, rate-limited after five failures)

var gatedAuthStates = []string{"pap-pending", "pap-success", "pap-failed", "pap-rate-limited", "chap-pending", "chap-success", "chap-rechallenged", "chap-failed", "chap-rate-limited"}

type authRec struct {
	n        int
	chapID   uint8 // identifier of the last Challenge the authenticator sent
	haveChal bool
	lastCode uint8
}

func (r *authRec) send(proto uint16, data []byte) {
	r.n++
	if len(data) >= 2 {
		r.lastCode = data[0]
		if proto == pppoe.ProtocolCHAP && data[0] == pppoe.CHAPCodeChallenge {
			r.chapID, r.haveChal = data[1], true
		}
	}
}

type gatedAuth struct {
	ev    *env
	name  string
	state string
	chap  bool
	proto uint16
	rf    *radiusFake
	cl    *radius.Client
	sys   [][]byte
	// rate-limited states keep one authenticator for a while (five refused logins each)
	a     *pppoe.Authenticator
	rec   *authRec
	uses  int
	dirty bool
}

func papBody(user, pass []byte, ulen, plen int) []byte {
	b := []byte{byte(ulen)}
	b = append(b, user...)
	b = append(b, byte(plen))
	return append(b, pass...)
}

func authSys(chap bool) [][]byte {
	key := "gated-auth-pap"
	if chap {
		key = "gated-auth-chap"
	}
	if c, ok := cpSysCache[key]; ok {
		return c
	}
	var out [][]byte
	seen := map[string]bool{}
	add := func(b []byte) {
		if k := string(b); !seen[k] && len(b) <= maxInput {
			seen[k] = true
			out = append(out, b)
		}
	}
	var bodies [][]byte
	if chap {
		val := make([]byte, 16)
		for i := range val {
			val[i] = 0xab
		}
		name := []byte("alice@example.net")
		for _, vs := range []int{0, 1, 15, 16, 17, 49, 255} { // Value-Size against the value actually present
			for _, have := range []int{0, 1, 15, 16, 17, 255} {
				bodies = append(bodies, append(append([]byte{byte(vs)}, resize(val, have)...), name...))
				bodies = append(bodies, append([]byte{byte(vs)}, resize(val, have)...))
			}
		}
		bodies = append(bodies, nil, append(append([]byte{16}, val...), resize(name, 1400)...))
	} else {
		user, pass := []byte("alice"), []byte("secret")
		for _, ul := range []int{0, 1, 4, 5, 6, 7, 12, 13, 255} { // Peer-ID-Length / Passwd-Length against what follows
			for _, pl := range []int{0, 1, 5, 6, 7, 255} {
				bodies = append(bodies, papBody(user, pass, ul, pl))
			}
			bodies = append(bodies, append([]byte{byte(ul)}, user...)) // no password length octet at all
		}
		bodies = append(bodies, nil, papBody(resize(user, 255), resize(pass, 255), 255, 255), papBody(nil, nil, 0, 0),
			append(papBody(user, pass, 5, 6), resize(nil, 1400)...))
	}
	codes := []uint8{1, 2, 3, 4, 0, 5, 0xff}
	handled := uint8(pppoe.PAPCodeAuthRequest)
	if chap {
		handled = pppoe.CHAPCodeResponse
	}
	for _, code := range codes {
		for k, b := range bodies {
			if code != handled && k%6 != 0 { // the other codes have no handler: a sample is enough
				continue
			}
			add(cpPkt(code, 0, b, 0))
			if code <= 2 {
				for n := 0; n < len(b) && n < 40; n++ { // cut at every byte, length field honest
					add(cpPkt(code, 0, b[:n], 0))
				}
			}
		}
		for mode := 1; mode <= 8; mode++ {
			add(cpPkt(code, 0, bodies[len(bodies)/2], mode))
			add(cpPkt(code, 0, bodies[0], mode))
		}
	}
	for n := 0; n < 4; n++ {
		add(make([]byte, n))
	}
	rng := rand.New(rand.NewPCG(0xc09, h64(key)))
	rng.Shuffle(len(out), func(i, j int) { out[i], out[j] = out[j], out[i] })
	cpSysCache[key] = out
	return out
}

func (g *gatedAuth) good(id uint8) []byte {
	if g.chap {
		return chapResp(id, []byte{1, 2, 3, 4, 5, 6, 7, 8, 9, 10, 11, 12, 13, 14, 15, 16}, "alice")
	}
	return papReq(id, "alice", "secret")
}

// build drives a fresh authenticator into the state with legitimate packets only.
func (g *gatedAuth) build() (*pppoe.Authenticator, *authRec, error) {
	rec := &authRec{}
	cfg := pppoe.DefaultAuthConfig()
	cfg.Protocol = g.proto
	var cl *radius.Client
	fails := 0
	switch g.state {
	case "pap-failed", "chap-failed":
		cl, fails = g.cl, 1
	case "pap-rate-limited", "chap-rate-limited":
		cl, fails = g.cl, 5
	}
	a := pppoe.NewAuthenticator(cfg, cl, rec.send, zap.NewNop())
	if err := a.Start(); err != nil {
		return nil, nil, err
	}
	if g.chap && !rec.haveChal {
		return nil, nil, fmt.Errorf("no CHAP Challenge after Start")
	}
	for k := 0; k < fails; k++ {
		a.ReceivePacket(g.proto, g.good(rec.chapID))
	}
	switch g.state {
	case "pap-success", "chap-success", "chap-rechallenged":
		a.ReceivePacket(g.proto, g.good(rec.chapID))
		if g.state == "chap-rechallenged" {
			old := rec.chapID
			if err := a.SendReauthChallenge(); err != nil {
				return nil, nil, err
			}
			if rec.chapID == old {
				return nil, nil, fmt.Errorf("re-authentication did not send a new Challenge")
			}
		}
	}
	want := map[string]string{"pap-pending": "Pending", "chap-pending": "Pending", "pap-success": "Success", "chap-success": "Success", "chap-rechallenged": "Success"}[g.state]
	if fails > 0 {
		want = "Failure"
	}
	if got := a.GetState().String(); got != want {
		return nil, nil, fmt.Errorf("authenticator is %s after the legitimate prefix of state %s (want %s)", got, g.state, want)
	}
	return a, rec, nil
}

func (g *gatedAuth) object() (*pppoe.Authenticator, *authRec) {
	limited := g.state == "pap-rate-limited" || g.state == "chap-rate-limited"
	if limited && g.a != nil && g.uses < 48 && !g.dirty {
		g.uses++
		return g.a, g.rec
	}
	a, rec, err := g.build()
	if err != nil {
		panic(err)
	}
	g.a, g.rec, g.uses, g.dirty = a, rec, 0, false
	return a, rec
}

func (g *gatedAuth) AfterPanic() bool { g.dirty = true; return true }

func (g *gatedAuth) Next(i int, rng *rand.Rand) []byte {
	id := uint8(1)
	if g.rec != nil && g.chap {
		id = g.rec.chapID
	}
	if i < len(g.sys) {
		return patchID(append([]byte(nil), g.sys[i]...), id, rng, true)
	}
	s := g.sys[rng.IntN(len(g.sys))]
	var b []byte
	switch rng.IntN(3) {
	case 0:
		b = mutate(rng, g.good(id), 4, s)
		if len(b) >= 4 && rng.IntN(4) != 0 {
			binary.BigEndian.PutUint16(b[2:4], uint16(len(b)))
		}
	case 1:
		b = mutate(rng, s, 0, g.good(id))
	default:
		b = append([]byte(nil), s...)
	}
	return patchID(b, id, rng, false)
}

func (g *gatedAuth) Feed(in []byte) outcome {
	a, rec := g.object()
	before, sent := a.GetState().String(), rec.n
	err := a.ReceivePacket(g.proto, exact(in))
	after, replied := a.GetState().String(), rec.n > sent
	class := gReject
	switch {
	case len(in) < 4 || int(binary.BigEndian.Uint16(in[2:4])) < 4 || int(binary.BigEndian.Uint16(in[2:4])) > len(in):
		class = gFraming
	case replied || before != after || err != nil:
		class = gPassed
	}
	gateCount(g.ev, g.name, g.state, class)
	o := outcome{class: class, nontriv: class == gPassed}
	code := -1
	if len(in) > 0 && in[0] < 6 {
		code = int(in[0])
	}
	o.dist = map[string]string{"gated_auth_state_x_code_x_effect": fmt.Sprintf("%s+code%d->%s/reply=%v(code %d)/err=%v", g.state, code, after, replied, rec.lastCode, err != nil)}
	// still usable: a legitimate request / response follows on the same object
	a.ReceivePacket(g.proto, g.good(rec.chapID))
	_ = a.GetUsername()
	if st := a.GetState().String(); st != "Failure" && (g.state == "pap-rate-limited" || g.state == "chap-rate-limited") {
		g.dirty = true // the limiter's minute is over or a login went through: build a new one next time
	}
	return o
}

func (g *gatedAuth) Close() {
	if g.rf != nil {
		g.rf.close()
	}
}

func gatedAuthEntry() *entry {
	name := "gated:pppoe.Authenticator"
	quota := func(state string, thorough bool) int {
		chap := len(state) > 4 && state[:4] == "chap"
		n := len(authSys(chap)) + 300
		switch state {
		case "pap-success", "chap-success":
			n = n/2 + 100
		case "pap-failed", "chap-failed": // every case costs RADIUS exchanges over loopback
			n = 500
		case "pap-rate-limited", "chap-rate-limited":
			n = 700
		}
		if thorough {
			n *= 6
		}
		return n
	}
	total := func(thorough bool) int {
		t := 0
		for _, st := range gatedAuthStates {
			t += quota(st, thorough)
		}
		return t
	}
	return &entry{
		name: name, comp: "pppoe.Authenticator.ReceivePacket", states: gatedAuthStates, totalFn: total, chunk: 1 << 20, cost: 6,
		quota:     quota,
		gateFloor: func(thorough bool) int { return total(thorough) / 5 },
		open: func(state string, ev *env) (runner, error) {
			g := &gatedAuth{ev: ev, name: name, state: state, chap: len(state) > 4 && state[:4] == "chap", proto: pppoe.ProtocolPAP}
			if g.chap {
				g.proto = pppoe.ProtocolCHAP
			}
			g.sys = authSys(g.chap)
			switch state {
			case "pap-failed", "chap-failed", "pap-rate-limited", "chap-rate-limited":
				rf, err := newRadiusFake("verif-secret")
				if err != nil {
					return nil, err
				}
				rej := make([]byte, 20)
				rej[0] = 3 // Access-Reject
				binary.BigEndian.PutUint16(rej[2:4], 20)
				rf.next = rej
				cl, err := rf.client()
				if err != nil {
					rf.close()
					return nil, err
				}
				g.rf, g.cl = rf, cl
			}
			a, rec, err := g.build() // the state must be reachable; also yields the identifier in force
			if err != nil {
				g.Close()
				return nil, err
			}
			g.a, g.rec = a, rec
			return g, nil
		},
	}
}

// ---------------------------------------------------------------------------------------------
// the PPPoE server's discovery and session frame handlers, with a live session in each phase

var gatedPhases = []string{"LCP Negotiation", "Authentication", "IPCP Negotiation", "Established"}

// placeholders in generated frames, replaced at delivery by the live session of the phase
var phMAC = net.HardwareAddr{0x02, 0xf0, 0x0d, 0xf0, 0x0d, 0x01}

const phSID = 0xF00D

type gatedPPPoE struct {
	l     *pppoeLoop
	ev    *env
	name  string
	phase string
	sid   uint16
	mac   net.HardwareAddr
	sys   [][]byte
}

var tagSpec = &tlvSpec{tb: 2, lb: 2}

func pppoeRaw(dst, src net.HardwareAddr, et uint16, code uint8, sid uint16, payload []byte, lenField int) []byte {
	h := []byte{0x11, code, byte(sid >> 8), byte(sid), byte(lenField >> 8), byte(lenField)}
	return ethFrame(dst, src, et, append(h, payload...))
}

// lenModes lists what the PPPoE length field may say about an n-byte payload.
func pppoeLens(n int) []int {
	return []int{n, 0, 1, 2, 3, n - 1, n + 1, n + 100, 0xffff, 0x8000}
}

func gatedPPPoESys() [][]byte {
	if c, ok := cpSysCache["gated-pppoe"]; ok {
		return c
	}
	var out [][]byte
	seen := map[string]bool{}
	add := func(b []byte) {
		if k := string(b); !seen[k] && len(b) <= 1522 {
			seen[k] = true
			out = append(out, b)
		}
	}
	sess := func(proto uint16, ppp []byte, lf int) []byte {
		pl := append(be16(proto), ppp...)
		if lf < 0 {
			lf = len(pl)
		}
		return pppoeRaw(srvMAC, phMAC, pppoe.EtherTypePPPoESession, pppoe.CodeSession, phSID, pl, lf&0xffff)
	}
	// session frames: every systematic control packet of every control protocol, correctly framed
	for _, pr := range []struct {
		proto uint16
		name  string
	}{{pppoe.ProtocolLCP, "lcp"}, {pppoe.ProtocolIPCP, "ipcp"}, {pppoe.ProtocolIPv6CP, "ipv6cp"}} {
		all := cpSys(cpProtoFor(pr.name))
		step := 1
		switch pr.name {
		case "ipcp":
			step = 2
		case "ipv6cp": // the server has no IPv6CP handler: a sample is enough
			step = 8
		}
		for i := 0; i < len(all); i += step {
			b := append([]byte(nil), all[i]...)
			if len(b) >= 2 {
				b[1] = 1 // the identifier of the server's own Configure-Request
			}
			add(sess(pr.proto, b, -1))
		}
	}
	for _, chap := range []bool{false, true} {
		proto := uint16(pppoe.ProtocolPAP)
		if chap {
			proto = pppoe.ProtocolCHAP
		}
		for k, b := range authSys(chap) {
			if chap && k%6 != 0 { // the server has no CHAP handler: a sample is enough
				continue
			}
			b = append([]byte(nil), b...)
			if len(b) >= 2 {
				b[1] = 1
			}
			add(sess(proto, b, -1))
		}
	}
	// what the PPPoE length field says, for a valid packet of each protocol (and no protocol at all)
	ip := []byte{0x45, 0, 0, 20, 0, 0, 0, 0, 64, 17, 0, 0, 10, 10, 0, 2, 8, 8, 8, 8}
	for _, c := range []struct {
		proto uint16
		ppp   []byte
	}{{pppoe.ProtocolLCP, lcpGoodReq(1)}, {pppoe.ProtocolLCP, lcpPkt(pppoe.LCPCodeEchoRequest, 1, be32(7))}, {pppoe.ProtocolLCP, lcpPkt(pppoe.LCPCodeTermRequest, 1, nil)},
		{pppoe.ProtocolPAP, papReq(1, "alice", "secret")}, {pppoe.ProtocolCHAP, chapResp(1, make([]byte, 16), "alice")}, {pppoe.ProtocolIPCP, ipcpGoodReq(1)},
		{pppoe.ProtocolIPv6CP, ipv6cpGoodReq(1)}, {pppoe.ProtocolIP, ip}, {0x0057, ip}, {0x8057, nil}, {0xc025, []byte{1, 2, 3}}, {0, nil}} {
		pl := 2 + len(c.ppp)
		for _, lf := range pppoeLens(pl) {
			add(sess(c.proto, c.ppp, lf))
			add(append(sess(c.proto, c.ppp, lf), make([]byte, 46)...)) // Ethernet padding behind the PPPoE payload
		}
		full := sess(c.proto, c.ppp, -1)
		for n := 14; n < len(full); n++ { // cut at every byte
			add(append([]byte(nil), full[:n]...))
		}
	}
	// discovery frames that name the live session / come from the station that owns it
	canon := []tlvItem{{t: int(pppoe.TagServiceName), v: []byte("internet"), lie: -1}, {t: int(pppoe.TagACCookie), v: make([]byte, 16), lie: -1},
		{t: int(pppoe.TagHostUniq), v: []byte{1, 2, 3, 4}, lie: -1}, {t: int(pppoe.TagGenericErr), v: []byte("bye"), lie: -1}, {t: int(pppoe.TagEndOfList), lie: -1}}
	blobs := tagSpec.blobs(canon, 1484)
	for _, code := range []uint8{pppoe.CodePADT, pppoe.CodePADR, pppoe.CodePADI, pppoe.CodePADS, pppoe.CodePADO, 0x00, 0xd3} {
		for k, bl := range blobs {
			if code != pppoe.CodePADT && code != pppoe.CodePADR && k%4 != 0 {
				continue
			}
			add(pppoeRaw(srvMAC, phMAC, pppoe.EtherTypePPPoEDiscovery, code, phSID, bl, len(bl)))
		}
		full := tagSpec.ser(canon)
		for _, lf := range pppoeLens(len(full)) {
			add(pppoeRaw(srvMAC, phMAC, pppoe.EtherTypePPPoEDiscovery, code, phSID, full, lf&0xffff))
			add(pppoeRaw(bcastMAC, phMAC, pppoe.EtherTypePPPoEDiscovery, code, 0, full, lf&0xffff))
		}
	}
	rng := rand.New(rand.NewPCG(0xc09, h64("gated-pppoe")))
	rng.Shuffle(len(out), func(i, j int) { out[i], out[j] = out[j], out[i] })
	cpSysCache["gated-pppoe"] = out
	return out
}

// ensure returns a live session in the runner's phase, creating one by the legitimate exchange
// if the previous one is gone or has moved on. Priming frames are not journalled: the journal
// keeps the hostile input the framework recorded before Feed.
func (g *gatedPPPoE) ensure() error {
	l := g.l
	if g.mac != nil && l.srv.VerifC09SessionState(g.sid) == g.phase {
		if m := l.srv.VerifC09SessionMAC(g.sid); m != nil && m.String() == g.mac.String() {
			return nil
		}
	}
	if g.mac != nil && l.srv.VerifC09SessionState(g.sid) != "" { // the previous session has moved on: its owner ends it
		if m := l.srv.VerifC09SessionMAC(g.sid); m != nil && m.String() == g.mac.String() {
			l.push(discFrame(g.mac, pppoe.CodePADT, g.sid, nil))
		}
	}
	mac := l.clientMAC()
	out := l.push(discFrame(mac, pppoe.CodePADI, 0, []pppoe.Tag{{Type: pppoe.TagServiceName}, {Type: pppoe.TagHostUniq, Value: []byte{1, 2, 3, 4}}}))
	var cookie []byte
	for _, f := range out {
		if len(f) >= 20 && f[15] == pppoe.CodePADO {
			tags, _ := pppoe.ParseTags(f[20:])
			if c := pppoe.FindTag(tags, pppoe.TagACCookie); c != nil {
				cookie = c.Value
			}
		}
	}
	if l.dead != nil {
		return nil
	}
	if cookie == nil {
		return fmt.Errorf("no PADO for a well-formed PADI")
	}
	out = l.push(discFrame(mac, pppoe.CodePADR, 0, []pppoe.Tag{{Type: pppoe.TagServiceName, Value: []byte("internet")}, {Type: pppoe.TagACCookie, Value: cookie}, {Type: pppoe.TagHostUniq, Value: []byte{1, 2, 3, 4}}}))
	var sid uint16
	var lcpID uint8 = 1
	for _, f := range out {
		if len(f) >= 20 && f[15] == pppoe.CodePADS {
			sid = binary.BigEndian.Uint16(f[16:18])
		}
		if len(f) >= 26 && binary.BigEndian.Uint16(f[12:14]) == pppoe.EtherTypePPPoESession && binary.BigEndian.Uint16(f[20:22]) == pppoe.ProtocolLCP && f[22] == pppoe.LCPCodeConfigRequest {
			lcpID = f[23] // the identifier of the server's Configure-Request, from the frame it sent
		}
	}
	if l.dead != nil {
		return nil
	}
	if sid == 0 {
		return fmt.Errorf("no PADS for a well-formed PADR")
	}
	depth := 0
	for i, p := range gatedPhases {
		if p == g.phase {
			depth = i
		}
	}
	if depth >= 1 {
		l.push(sessFrame(mac, sid, pppoe.ProtocolLCP, lcpPkt(pppoe.LCPCodeConfigAck, lcpID, nil)))
	}
	if depth >= 2 {
		l.push(sessFrame(mac, sid, pppoe.ProtocolPAP, papReq(1, "alice", "secret")))
	}
	if depth >= 3 {
		l.push(sessFrame(mac, sid, pppoe.ProtocolIPCP, lcpPkt(pppoe.LCPCodeConfigAck, 1, opts(pppoe.LCPOption{Type: pppoe.IPCPOptIPAddress, Data: []byte{10, 10, 0, 1}}))))
	}
	if l.dead != nil {
		return nil
	}
	if got := l.srv.VerifC09SessionState(sid); got != g.phase {
		return fmt.Errorf("session %d is in phase %q after the legitimate prefix of %q", sid, got, g.phase)
	}
	g.sid, g.mac = sid, mac
	return nil
}

func (g *gatedPPPoE) Next(i int, rng *rand.Rand) []byte {
	if i < len(g.sys) {
		return append([]byte(nil), g.sys[i]...)
	}
	s := g.sys[rng.IntN(len(g.sys))]
	o := g.sys[rng.IntN(len(g.sys))]
	var b []byte
	switch x := rng.IntN(10); {
	case x < 6: // damage behind the PPPoE header; the frame still names the live session
		b = mutate(rng, s, 20, o)
		if len(b) >= 20 && rng.IntN(3) != 0 {
			binary.BigEndian.PutUint16(b[18:20], uint16(len(b)-20))
		}
	case x < 8: // the PPPoE header is fair game (version/type, code, session id, length)
		b = mutate(rng, s, 14, o)
	case x < 9:
		b = mutate(rng, s, 0, o)
	default: // a control packet built afresh, correctly framed
		names := []string{"lcp", "ipcp", "ipv6cp"}
		k := rng.IntN(3)
		ppp := patchID(cpRandom(rng, cpProtoFor(names[k]), nil), 1, rng, false)
		pl := append(be16([]uint16{pppoe.ProtocolLCP, pppoe.ProtocolIPCP, pppoe.ProtocolIPv6CP}[k]), ppp...)
		b = pppoeRaw(srvMAC, phMAC, pppoe.EtherTypePPPoESession, pppoe.CodeSession, phSID, pl, len(pl))
	}
	if len(b) > 1522 {
		b = b[:1522]
	}
	return b
}

// resolve replaces the placeholders by the live session's station address and session id.
func (g *gatedPPPoE) resolve(in []byte) []byte {
	b := append([]byte(nil), in...)
	if len(b) >= 12 && string(b[6:12]) == string(phMAC) {
		copy(b[6:12], g.mac)
	}
	if len(b) >= 18 && binary.BigEndian.Uint16(b[16:18]) == phSID {
		binary.BigEndian.PutUint16(b[16:18], g.sid)
	}
	return b
}

func (g *gatedPPPoE) Feed(in []byte) outcome {
	l := g.l
	if l.dead == nil {
		if err := g.ensure(); err != nil {
			l.ev.Note("listener-alive", "no-session-by-well-formed-exchange", "the receive loop no longer brings a session to phase "+g.phase+" by the legitimate exchange: "+err.Error(), in, "")
			return outcome{class: "setup-failed"}
		}
	}
	if l.dead != nil {
		return outcome{pan: l.dead}
	}
	f := g.resolve(in)
	n0, st0 := l.srv.GetSessionCount(), l.srv.VerifC09SessionState(g.sid)
	out := l.push(f)
	if l.dead != nil {
		return outcome{pan: l.dead}
	}
	n1, st1 := l.srv.GetSessionCount(), l.srv.VerifC09SessionState(g.sid)
	class := gReject
	if len(out) > 0 || n0 != n1 || st0 != st1 {
		class = gPassed
	} else if len(f) < 20 {
		class = gFraming
	}
	gateCount(g.ev, g.name, g.phase, class)
	o := outcome{class: class, nontriv: class == gPassed}
	kind := "short"
	if len(f) >= 20 {
		switch binary.BigEndian.Uint16(f[12:14]) {
		case pppoe.EtherTypePPPoEDiscovery:
			kind = fmt.Sprintf("disc/code%02x", f[15])
		case pppoe.EtherTypePPPoESession:
			proto, code := uint16(0), -1
			if len(f) >= 22 {
				proto = binary.BigEndian.Uint16(f[20:22])
			}
			if len(f) >= 23 && f[22] < 16 {
				code = int(f[22])
			}
			kind = fmt.Sprintf("sess/proto%04x/code%d", proto, code)
		default:
			kind = "other-ethertype"
		}
	}
	st := st1
	if st == "" {
		st = "gone"
	}
	o.dist = map[string]string{"gated_pppoe_phase_x_frame_x_effect": fmt.Sprintf("%s/%s/%s->%s/replies=%d", g.phase, kind, class, st, min(len(out), 3))}
	// still usable: the session (if it still exists) answers an Echo-Request, and the loop is alive
	l.push(sessFrame(g.mac, g.sid, pppoe.ProtocolLCP, lcpPkt(pppoe.LCPCodeEchoRequest, 200, be32(7))))
	if l.dead != nil {
		return outcome{pan: l.dead}
	}
	return o
}

func (g *gatedPPPoE) Close() { g.l.Close() }

func gatedPPPoEEntry() *entry {
	name := "gated:pppoe.Server.receiveLoop"
	per := func(thorough bool) int {
		n := len(gatedPPPoESys())
		if thorough {
			return n + 12000
		}
		return n/3 + 300
	}
	return &entry{
		name: name, comp: "pppoe.Server.receiveLoop", states: gatedPhases, totalFn: func(t bool) int { return 4 * per(t) }, chunk: 4000, cost: 12,
		quota:     func(state string, thorough bool) int { return per(thorough) },
		gateFloor: func(thorough bool) int { return per(thorough) / 2 },
		open: func(state string, ev *env) (runner, error) {
			l, err := openPPPoELoop("sessions-in-every-phase", ev)
			if err != nil {
				return nil, err
			}
			g := &gatedPPPoE{l: l, ev: ev, name: name, phase: state, sys: gatedPPPoESys()}
			if err := g.ensure(); err != nil {
				l.Close()
				return nil, err
			}
			return g, nil
		},
	}
}
