package c09

// C09 — no packet from the network can crash or hang the gateway (DESIGN §3-E8, §5 C09).
//
// The parent (this test binary as started by /verif/check) cuts every (entry point, protocol
// state) input stream into chunks and runs each chunk in a child process: the same binary
// re-executed with VERIF_C09_SPEC set. The child journals every input to a file *before*
// feeding it to bng, so a process-fatal error (a panic in a goroutine of bng that nothing
// recovers, `fatal error:`, checkptr) is attributed to one input; the parent turns "child
// died at input X" into a candidate, reproduces it once in a fresh child and reports it.

import (
	"encoding/hex"
	"encoding/json"
	"fmt"
	"os"
	"os/exec"
	"path/filepath"
	"runtime"
	"sort"
	"strings"
	"sync"
	"sync/atomic"
	"testing"
	"time"

	"verif/harness/internal/vk"
)

var run *vk.Run

func TestMain(m *testing.M) {
	if os.Getenv("VERIF_C09_SPEC") != "" {
		childMain()
		return
	}
	run = vk.Start("C09", "exploration")
	const run0Rule = "per (entry point, protocol state) an input stream indexed by i: first the small-scope systematic mutants of every well-formed sample built with the repo's own serialisers (truncation at every byte; every interesting 8/16-bit value in each of the first 12 bytes), then seeded mutants (bit flips, length-field tampering, truncation, duplication, splicing, random bytes; 0..2048 bytes); stateful handlers get samples that follow their current state (live session ids, last identifier, valid authenticator). non-trivial = distinct input that got past the entry point's framing (call returned nil / produced a reply or a state change / parser returned a non-empty result)"
	run.Assume("wall-clock is used only by the 10 s per-input hang watchdog (a firing is a candidate, confirmed only if it reproduces in a fresh process) and by the scaling probe, which reads the process CPU clock instead (min of 9 repetitions at n,2n,4n bytes with the collector off; flagged only if both doublings cost >= 6x and the largest run takes >= 200us of CPU, and only if a second probe in a fresh process flags it again)")
	run.Rule(run0Rule + " || second pass (TestStatefulHammer, entries gated:*): per (gated handler, state) the real object is driven into the state by the legitimate sequence of calls/packets, the identifiers it then expects (Configure-Request identifier and options, CHAP Challenge identifier, session id and station address, offered address and server identifier, leased IPv6 address / prefix and server DUID) are read from the packets it emitted, and it gets input i of a stream: first the shuffled small-scope list of structure-aware hostile packets that carry those identifiers (every code; every option with every value length 0..len+2, every dishonest option length, repeated options, the option list cut at every byte, packet length field short/long/zero, up to the size bound; nested option lists one level deep), then seeded structural mutants (1-3 of: short/long/empty value, lying length, cut, repeat, max-size, drop, swap, unknown type, nested damage) and byte-level mutants of valid packets; 15% of the seeded packets get a neighbouring/random identifier. After each input a legitimate exchange is delivered to the same object (must not panic or hang). gate-passed = the handler emitted a packet, changed state / lease / session table, or returned an error from beyond the framing check; gate-rejected = no observable effect; framing-rejected = refused by the length/header check (or the wire parser) in front of the handler. non-trivial = distinct gate-passed input || third pass (entries exhausted:*, same test): per (stateful handler, exhausted / unusual server state) every case builds a fresh server whose pool or table is completely in use by the legitimate exchanges of a handful of clients (DHCPv6 legacy /126 address + /62 prefix pool, address pool only, integrated allocator /127 + /62, allocation store that refuses writes; DHCPv4 /29 pool with a two-block NAT range: every address leased / only offered / declined / lapsed-unswept; PPPoE /30 client pool, session id counter about to wrap, all 65 535 session ids taken (one short chunk in the quick tier); RADIUS CoA back ends failing / no session table / no handlers; HA standby whose store refuses writes / holds 1000 stale sessions), the lapsed-unswept states by the smallest configurable lifetimes (1 s, 40 ms) and a real wait, optionally with one client renewed so that only some leases have lapsed (the sub-state met at delivery is read from the lease table and counted), and delivers input i of a stream: first the matrix of every well-formed client message type x client role (holds a binding / holds a prefix only / relayed / newcomer) x reference (own, another client's, no address; Rapid-Commit; with and without relay agent), then a prefix of the shuffled systematic hostile list of the second pass and its seeded mutants, resolved for one of the roles (explicit placeholder or a hash of the input, so that a witness fed alone meets the same client); then a legitimate follow-up on the same server (newcomer asks, holder renews, holder releases, newcomer asks again, sweep). Counters exh_<protocol>/<state>/<event> say which exhaustion paths were observed from the replies (NoAddrsAvail, NoPrefixAvail, address granted to a client that held none = reclaim on exhaustion, DISCOVER unanswered, authenticated without address, session id found behind the wrap, NAK from failing back ends ...) || fourth pass (entries reply:*, same test; c09_replies_test.go): response construction. Per (handler that builds a reply whose size depends on the request, state) a systematic list, identical for every seed and tier, of authentic well-formed requests whose variable-length field takes EVERY length of its range: RADIUS CoA-/Disconnect-Request (valid authenticator) to the real CoAProcessor naming unknown sessions with Acct-Session-Id / Calling-Station-Id / User-Name / Filter-Id of 0..253 octets in 14 attribute contexts, and to handlers returning texts of every length 0..300 x ACK/NAK x with/without Error-Cause; LCP automaton in each of the ten states, IPCP/IPv6CP in the six they can meet a packet in: Echo-Request, unknown code (Code-Reject), Terminate-Request with every data length 0..1500 where a request is outstanding/answered or the layer is opened and 0..260 + 1480..1500 elsewhere, Configure-Request with unknown / nak-able options of 0..253 octets alone and behind 5 x 253 octets; PPPoE server through its real receive loop: PADI/PADR with Host-Uniq, Relay-Session-Id, Service-Name of 0..2010 octets (AC-Cookie, Vendor-Specific: 0..300, 1400..1500, 1990..2010), session frames (Echo-Request, unknown code, unknown protocol = Protocol-Reject, Configure-Request with unknown options) of 0..1500 octets to sessions in each phase; DHCPv4 DISCOVER/REQUEST/INFORM with options 61,60,81,12 and Option 82 (circuit-id, remote-id, raw) of 0..255 octets, bound and relayed; DHCPv6 Solicit(+Rapid Commit)/Request/Renew/Information-Request with Client-Id, Vendor Class, FQDN, ORO, Interface-Id, Remote-Id of 0..300 octets and Client-Id up to 1900. non-trivial = distinct request that was answered (or had an observable effect); counters reply_*/... record what the replies looked like (text length classes 253/254/255/256, longest reply, replies beyond MRU/MTU, Reply-Message length octet that no longer matches its text): evidence, not judged")
	run.Assume("a panic is attributed to bng when the innermost non-runtime, non-stdlib, non-third-party frame of its stack is a bng function; panics raised inside the harness or inside third-party parsers called by the harness are reported as observations, not violations")
	code := m.Run()
	ec := run.Finish()
	if code != 0 && ec == 0 {
		ec = 2
	}
	os.Exit(ec)
}

// ---------------------------------------------------------------------------------------------
// chunk spec / result exchanged with the child

type spec struct {
	Entry    string   `json:"entry"`
	State    string   `json:"state"`
	From     int      `json:"from"`
	To       int      `json:"to"`
	Inputs   []string `json:"inputs,omitempty"` // explicit inputs (hex) instead of the generated stream
	Scale    bool     `json:"scale,omitempty"`  // run the scaling probe instead of the stream
	Seed     int64    `json:"seed"`
	Dir      string   `json:"dir"`
	Watchdog int      `json:"watchdog_s"`
}

type panicRec struct {
	Idx   int    `json:"idx"`
	Input string `json:"input"`
	Aux   bool   `json:"aux,omitempty"`
	Msg   string `json:"msg"`
	Site  string `json:"site"`
	Owner string `json:"owner"` // bng | harness | thirdparty
	Stack string `json:"stack"`
}

type noteRec struct { // other violations detected inside the child
	Rule  string `json:"rule"`
	Class string `json:"class"`
	Desc  string `json:"desc"`
	Idx   int    `json:"idx"`
	Input string `json:"input"`
	Extra string `json:"extra,omitempty"`
}

type scaleRec struct {
	State string    `json:"state"`
	Sizes []int     `json:"sizes"`
	MinNs []int64   `json:"min_ns"`
	Ratio []float64 `json:"ratio"`
	Flag  bool      `json:"flag"`
	Input string    `json:"input_4n,omitempty"` // the largest sample (hex), kept only when flagged
}

type sampleRec struct {
	Entry   string `json:"entry"`
	State   string `json:"state"`
	Input   string `json:"input"`
	Outcome string `json:"outcome"`
}

type result struct {
	Done       bool                `json:"done"`
	SetupErr   string              `json:"setup_err,omitempty"`
	Fed        int                 `json:"fed"`
	Classes    map[string]int      `json:"classes"`
	Distinct   map[string][]string `json:"distinct"`
	Nontriv    []uint64            `json:"nontriv"`
	Panics     []panicRec          `json:"panics"`
	PanicCount map[string]int      `json:"panic_count"`
	Notes      []noteRec           `json:"notes"`
	Samples    []sampleRec         `json:"samples"`
	HangIdx    *int                `json:"hang_idx,omitempty"`
	Scale      []scaleRec          `json:"scale,omitempty"`
	MaxCallNs  int64               `json:"max_call_ns"`
	Counters   map[string]int      `json:"counters"`
}

// ---------------------------------------------------------------------------------------------
// parent

type verdict struct {
	ok   bool
	how  string
	note string
}

type agg struct {
	mu       sync.Mutex
	cands    map[string]*cand
	order    []string
	verdicts map[string]verdict
	scales   map[string][]scaleRec
	maxCall  map[string]int64
	samples  map[string]sampleRec
	jobWall  map[string]float64
}

// consider registers a candidate; the first witness of every (entry, rule, class) is
// reproduced right away by the calling worker.
func (a *agg) consider(c *cand) {
	if c.comp == "" {
		c.comp = c.entry
	}
	k := c.entry + "|" + c.rule + "|" + c.class
	a.mu.Lock()
	if old, ok := a.cands[k]; ok {
		old.count++
		a.mu.Unlock()
		return
	}
	c.count = 1
	a.cands[k] = c
	a.order = append(a.order, k)
	a.mu.Unlock()
	ok, how, note := reproduce(c)
	a.mu.Lock()
	a.verdicts[k] = verdict{ok, how, note}
	a.mu.Unlock()
}

var workDir string
var childSeq int64

func exe() string {
	p, err := os.Executable()
	if err != nil {
		panic(err)
	}
	return p
}

// runChild executes one spec in a child process and returns (result or nil, journal, stderr, exit error).
func runChild(sp spec) (*result, *journalRec, string, error) {
	n := atomic.AddInt64(&childSeq, 1)
	dir := filepath.Join(workDir, fmt.Sprintf("c%06d", n))
	os.MkdirAll(dir, 0o755)
	sp.Dir = dir
	sp.Seed = run.Seed
	if sp.Watchdog == 0 {
		sp.Watchdog = 10
	}
	b, _ := json.Marshal(sp)
	specPath := filepath.Join(dir, "spec.json")
	os.WriteFile(specPath, b, 0o644)
	cmd := exec.Command(exe(), "-test.timeout=0", "-test.count=1")
	// atexit_sleep_ms=0: the race runtime otherwise sleeps 1 s at every exit of a child;
	// exitcode=0: a data race reported in the child must not look like a process death
	cmd.Env = append(os.Environ(), "VERIF_C09_SPEC="+specPath, "GOMAXPROCS=2", "GOTRACEBACK=all", "GORACE="+strings.TrimSpace(os.Getenv("GORACE")+" atexit_sleep_ms=0 exitcode=0"))
	errf, _ := os.Create(filepath.Join(dir, "stderr"))
	cmd.Stderr = errf
	cmd.Stdout = errf
	done := make(chan error, 1)
	if err := cmd.Start(); err != nil {
		errf.Close()
		return nil, nil, "", err
	}
	go func() { done <- cmd.Wait() }()
	var werr error
	// overall child watchdog: generous (every input has its own 10 s watchdog inside the child)
	limit := time.Duration(600+(sp.To-sp.From)/20) * time.Second
	select {
	case werr = <-done:
	case <-time.After(limit):
		cmd.Process.Kill()
		werr = fmt.Errorf("child exceeded %v: %v", limit, <-done)
	}
	errf.Close()
	se, _ := os.ReadFile(filepath.Join(dir, "stderr"))
	var res *result
	if rb, err := os.ReadFile(filepath.Join(dir, "result.json")); err == nil {
		var r result
		if json.Unmarshal(rb, &r) == nil {
			res = &r
		}
	}
	j := readJournal(filepath.Join(dir, "journal"))
	if werr == nil && res != nil && res.Done {
		os.RemoveAll(dir)
	}
	return res, j, string(se), werr
}

type job struct {
	e        *entry
	state    string
	from, to int
	scale    bool
}

func (a *agg) merge(e *entry, state string, from int, r *result) {
	if r == nil {
		return
	}
	run.Evals(r.Fed)
	run.Count("inputs/"+e.name, r.Fed)
	for c, n := range r.Classes {
		run.Count("outcome/"+e.name+"/"+c, n)
	}
	for c, n := range r.Counters {
		run.Count(c, n)
	}
	for set, keys := range r.Distinct {
		for _, k := range keys {
			run.Distinct(set, k)
		}
	}
	for _, h := range r.Nontriv {
		run.Nontrivial(fmt.Sprintf("%s|%s|%x", e.name, state, h))
	}
	run.Count("nontrivial_inputs/"+e.name, len(r.Nontriv))
	if state != "" && r.Fed > 0 {
		run.Distinct("entry_states_exercised", e.name+"/"+state)
	}
	for site, n := range r.PanicCount {
		run.Count("recovered_panics/"+e.name+"/"+site, n)
	}
	a.mu.Lock()
	if len(r.Scale) > 0 {
		a.scales[e.name] = append(a.scales[e.name], r.Scale...)
	}
	if r.MaxCallNs > a.maxCall[e.name] {
		a.maxCall[e.name] = r.MaxCallNs
	}
	for _, s := range r.Samples {
		if _, ok := a.samples[s.Entry]; !ok {
			a.samples[s.Entry] = s
		}
	}
	a.mu.Unlock()
	for _, p := range r.Panics {
		switch p.Owner {
		case "bng":
			in, _ := hex.DecodeString(p.Input)
			a.consider(&cand{entry: e.name, comp: e.comp, state: state, rule: "no-panic", class: p.Site + "#" + panicKind(p.Msg), kind: "recovered", idx: p.Idx, input: in, aux: p.Aux, msg: p.Msg, site: p.Site, stack: p.Stack, from: from})
		case "thirdparty":
			run.Count("observed_third_party_panics/"+e.name, 1)
			run.Distinct("third_party_panic_sites", p.Site)
		default:
			run.Inconclusive(e.name+"/"+state, "panic inside the harness: "+p.Msg+" at "+p.Site)
		}
	}
	for _, n := range r.Notes {
		in, _ := hex.DecodeString(n.Input)
		a.consider(&cand{entry: e.name, comp: e.comp, state: state, rule: n.Rule, class: n.Class, kind: "note", idx: n.Idx, input: in, msg: n.Desc, extra: n.Extra, from: from})
	}
}

// runJob runs one chunk, resuming after every process death.
func runJob(a *agg, jb job, fatalBudget *int64) {
	from := jb.from
	hangs := 0
	for from < jb.to || jb.scale {
		sp := spec{Entry: jb.e.name, State: jb.state, From: from, To: jb.to, Scale: jb.scale}
		res, j, stderr, werr := runChild(sp)
		if res != nil && res.SetupErr != "" {
			run.Inconclusive(jb.e.name+"/"+jb.state, "setup failed: "+res.SetupErr)
			return
		}
		a.merge(jb.e, jb.state, from, res)
		if werr == nil && res != nil && res.Done {
			return
		}
		// the child died (or was killed by its watchdog)
		if j == nil {
			run.Inconclusive(jb.e.name+"/"+jb.state, fmt.Sprintf("child died before journalling anything (%v): %s", werr, tail(stderr, 400)))
			return
		}
		kind := "fatal"
		run.Count("process_deaths/"+jb.e.name, 1)
		if jb.scale { // the journal index of a scaling sample encodes its state: stateIndex*10000 + size
			if sts := scaleStates(jb.e); j.Idx/10000 < len(sts) {
				jb.state = sts[j.Idx/10000]
			}
		}
		switch {
		case res != nil && res.HangIdx != nil:
			kind = "hang"
			site := hangSite(stderr)
			a.consider(&cand{entry: jb.e.name, comp: jb.e.comp, state: jb.state, rule: "no-hang", class: "watchdog-10s@" + site, kind: "hang", idx: j.Idx, input: j.Input, aux: j.Aux, site: site,
				msg: "input still being processed after the 10 s watchdog; goroutine busy in " + site, stack: tail(stderr, 6000), from: from})
		case strings.Contains(stderr, "C09-LISTENER-DEAD"):
			kind = "listener"
			a.consider(&cand{entry: jb.e.name, comp: jb.e.comp, state: jb.state, rule: "listener-alive", class: "no-answer-to-valid-probe", kind: "listener", idx: j.Idx, input: j.Input, aux: j.Aux,
				msg: "listener stopped answering a well-formed probe although the process is alive", stack: tail(stderr, 6000), from: from})
		default:
			msg, site, owner := parseCrash(stderr)
			if owner != "bng" {
				run.Inconclusive(jb.e.name+"/"+jb.state, fmt.Sprintf("child died at input %d without a bng frame on the crashing stack (%s, %v): %s", j.Idx, owner, werr, tail(msg+" "+stderr, 300)))
			} else {
				rule := "no-panic"
				if strings.HasPrefix(msg, "fatal error") {
					rule = "no-fatal-error"
				}
				a.consider(&cand{entry: jb.e.name, comp: jb.e.comp, state: jb.state, rule: rule, class: site + "#" + panicKind(msg), kind: "fatal", idx: j.Idx, input: j.Input, aux: j.Aux,
					msg: msg + " [process died]", site: site, stack: tail(stderr, 6000), from: from})
			}
		}
		if jb.scale {
			return
		}
		if kind == "hang" {
			hangs++
		}
		if kind == "hang" && hangs >= 2 && j.Idx+1 < jb.to {
			// every further hang would cost another watchdog period: two witnesses per chunk are enough
			// (the first one may be a stall of an overloaded machine: the stream goes on behind it)
			run.Count("inputs_not_executed_after_hang/"+jb.e.name, jb.to-j.Idx-1)
			return
		}
		from = j.Idx + 1
		if atomic.AddInt64(fatalBudget, -1) < 0 {
			run.Inconclusive(jb.e.name+"/"+jb.state, fmt.Sprintf("process-death budget of the entry point exhausted; inputs %d..%d not executed", from, jb.to-1))
			run.Count("inputs_not_executed/"+jb.e.name, jb.to-from)
			return
		}
	}
}

func tail(s string, n int) string {
	if len(s) <= n {
		return s
	}
	return s[len(s)-n:]
}

func TestHammer(t *testing.T) { hammer(t, entries(), "") }

// hammer runs every (entry point, state) stream of es in child processes and judges the
// candidates; pfx distinguishes the evidence keys of the second (stateful) pass.
func hammer(t *testing.T, es []*entry, pfx string) {
	var err error
	seq0 := atomic.LoadInt64(&childSeq)
	base := os.Getenv("VERIF_BUILD")
	if base == "" {
		base = os.TempDir()
	}
	workDir, err = os.MkdirTemp(base, "c09work-")
	if err != nil {
		t.Fatal(err)
	}
	a := &agg{cands: map[string]*cand{}, verdicts: map[string]verdict{}, scales: map[string][]scaleRec{}, maxCall: map[string]int64{}, samples: map[string]sampleRec{}, jobWall: map[string]float64{}}
	only := os.Getenv("VERIF_C09_ONLY") // debugging aid: restrict to entry points containing this string

	var jobs []job
	budgets := map[string]*int64{}
	for _, e := range es {
		if only != "" && !strings.Contains(e.name, only) {
			continue
		}
		b := int64(run.Pick(4000, 40000))
		budgets[e.name] = &b
		states := e.states
		if len(states) == 0 {
			states = []string{""}
		}
		total := e.total(run.Thorough())
		chunk := e.chunk
		if chunk == 0 {
			chunk = 2500
		}
		if run.Thorough() {
			chunk *= 4 // fewer process start-ups per input
		}
		for _, st := range states {
			per := (total + len(states) - 1) / len(states)
			if e.quota != nil {
				per = e.quota(st, run.Thorough())
			}
			for from := 0; from < per; from += chunk {
				to := from + chunk
				if to > per {
					to = per
				}
				jobs = append(jobs, job{e: e, state: st, from: from, to: to})
			}
		}
		if e.scale {
			jobs = append(jobs, job{e: e, scale: true})
		}
	}
	// long chunks first
	jobCost := func(jb job) int {
		if jb.e.stateCost != nil {
			if c := jb.e.stateCost(jb.state); c > 0 {
				return c
			}
		}
		return jb.e.cost * (jb.to - jb.from)
	}
	sort.SliceStable(jobs, func(i, j int) bool { return jobCost(jobs[i]) > jobCost(jobs[j]) })

	workers := runtime.NumCPU()
	if workers > 16 {
		workers = 16
	}
	if workers < 2 {
		workers = 2
	}
	ch := make(chan job)
	var wg sync.WaitGroup
	for w := 0; w < workers; w++ {
		wg.Add(1)
		go func() {
			defer wg.Done()
			for jb := range ch {
				t0 := time.Now()
				runJob(a, jb, budgets[jb.e.name])
				a.mu.Lock()
				a.jobWall[jb.e.name] += time.Since(t0).Seconds()
				a.mu.Unlock()
			}
		}()
	}
	for _, jb := range jobs {
		ch <- jb
	}
	close(ch)
	wg.Wait()

	judge(t, a)
	run.Extra(pfx+"entry_points", len(budgets))
	run.Extra(pfx+"child_processes", atomic.LoadInt64(&childSeq)-seq0)
	mc := map[string]float64{}
	for k, v := range a.maxCall {
		mc[k] = float64(v) / 1e3
	}
	run.Extra(pfx+"max_call_us_by_entry", mc)
	run.Extra(pfx+"worker_seconds_by_entry", a.jobWall)
	sc := map[string]any{}
	for k, v := range a.scales {
		sc[k] = v
	}
	if len(sc) > 0 || pfx == "" {
		run.Extra(pfx+"scaling_probe", sc)
	}
	names := make([]string, 0, len(a.samples))
	for k := range a.samples {
		names = append(names, k)
	}
	sort.Strings(names)
	for _, k := range names {
		run.Sample(a.samples[k])
	}
	if only == "" {
		for _, e := range es {
			run.Floor("inputs/"+e.name, int64(e.total(run.Thorough())/10))
			if e.gateFloor != nil {
				// a run that never reaches the guarded code of a gated handler is inconclusive
				run.Floor("gate_passed/"+e.name, int64(e.gateFloor(run.Thorough())))
			}
			if e.floors != nil {
				for k, n := range e.floors(run.Thorough()) {
					run.Floor(k, int64(n))
				}
			}
		}
	}
	if os.Getenv("VERIF_C09_KEEP") == "" { // witnesses are in the replay files; the children's directories are scratch
		os.RemoveAll(workDir)
	}
}

// ---------------------------------------------------------------------------------------------
// judging: candidates -> reproduced in a fresh child -> violations

type cand struct {
	entry, state string
	comp         string // component reported (default: the entry's name)
	rule, class  string
	kind         string // recovered | fatal | hang | listener | note
	idx          int
	input        []byte
	aux          bool
	msg, site    string
	stack        string
	from         int
	count        int
	extra        string
}

func panicKind(msg string) string {
	switch {
	case strings.Contains(msg, "slice bounds out of range"):
		return "slice-bounds"
	case strings.Contains(msg, "index out of range"):
		return "index-range"
	case strings.Contains(msg, "nil pointer dereference"):
		return "nil-deref"
	case strings.Contains(msg, "nil map"):
		return "nil-map"
	case strings.Contains(msg, "makeslice"):
		return "makeslice"
	case strings.Contains(msg, "divide by zero"):
		return "div-zero"
	case strings.Contains(msg, "stack overflow") || strings.Contains(msg, "goroutine stack exceeds"):
		return "stack-overflow"
	case strings.Contains(msg, "out of memory"):
		return "out-of-memory"
	case strings.Contains(msg, "concurrent map"):
		return "concurrent-map"
	case strings.Contains(msg, "checkptr"):
		return "checkptr"
	case strings.Contains(msg, "all goroutines are asleep"):
		return "deadlock"
	default:
		return "other"
	}
}

func judge(t *testing.T, a *agg) {
	for name, recs := range a.scales {
		for _, sc := range recs {
			run.Count("scaling_probes", 1)
			if sc.Flag {
				a.consider(&cand{entry: name, state: sc.State, rule: "linear-time", class: "both-doublings-cost-6x", kind: "scale", input: unhex(sc.Input), msg: fmt.Sprintf("CPU time grows faster than 6x per doubling of the input: sizes %v bytes, min CPU ns %v, ratios %.1f; witness is the largest sample", sc.Sizes, sc.MinNs, sc.Ratio)})
			}
		}
	}
	for _, k := range a.order {
		c := a.cands[k]
		v := a.verdicts[k]
		if !v.ok {
			run.Inconclusive(c.entry+"/"+c.state, fmt.Sprintf("candidate %s %s at input %d (%s) did not reproduce in a fresh process (%s)", c.rule, c.class, c.idx, hexShort(c.input), v.note))
			continue
		}
		run.Count("confirmed_candidates", 1)
		desc := fmt.Sprintf("%s in state %q: %s; %d byte input %s (%s, %d witnesses in this run)", c.entry, c.state, c.msg, len(c.input), hexShort(c.input), v.how, c.count)
		if c.comp != c.entry {
			desc += "; stateful case: the object is first driven into the state by the legitimate exchange, then gets this input (placeholders for the live session / client resolved at delivery), then a legitimate follow-up on the same object - the failure may surface in the follow-up"
		}
		w := map[string]any{
			"entry": c.entry, "state": c.state, "input_hex": hex.EncodeToString(c.input), "input_index": c.idx,
			"auxiliary_well_formed_frame": c.aux, "kind": c.kind, "message": c.msg, "site": c.site,
			"stack": tail(c.stack, 3000), "reproduced": v.how, "witnesses": c.count, "extra": c.extra,
			"replay": "VERIF_C09_SPEC=<file with {\"entry\":...,\"state\":...,\"inputs\":[input_hex],\"dir\":<scratch dir>}> on the test binary",
		}
		run.Violation(c.comp, c.rule, c.class, desc, w)
	}
}

func unhex(h string) []byte {
	b, _ := hex.DecodeString(h)
	return b
}

func hexShort(b []byte) string {
	h := hex.EncodeToString(b)
	if len(h) > 96 {
		return h[:96] + "…"
	}
	return h
}

// reproduce re-runs the witness in a fresh child: first the input alone on a freshly set-up
// entry point, then (stateful entry points) the generated stream from the start of the
// chunk segment up to the input.
func reproduce(c *cand) (bool, string, string) {
	if c.kind == "scale" {
		res, _, _, _ := runChild(spec{Entry: c.entry, Scale: true})
		if res != nil {
			for _, s := range res.Scale {
				if s.State == c.state && s.Flag {
					return true, "flagged again by a second probe in a fresh process", ""
				}
			}
		}
		return false, "", "second probe not flagged"
	}
	try := func(sp spec, label string) (bool, string, string) {
		res, j, stderr, werr := runChild(sp)
		switch c.kind {
		case "recovered":
			if res != nil {
				for _, p := range res.Panics {
					if p.Site == c.site {
						return true, "recovered again " + label, ""
					}
				}
				if res.PanicCount[c.site] > 0 {
					return true, "recovered again " + label, ""
				}
			}
			return false, "", "no panic at " + c.site
		case "fatal":
			if werr != nil && j != nil {
				_, site, _ := parseCrash(stderr)
				if site == c.site {
					return true, "process died again at the same site " + label, ""
				}
				return false, "", "died at " + site
			}
			return false, "", "child survived"
		case "hang":
			if res != nil && res.HangIdx != nil {
				if hs := hangSite(stderr); hs == c.site {
					return true, "watchdog fired again with the goroutine busy in the same function " + label, ""
				} else {
					return false, "", "hang elsewhere: " + hs
				}
			}
			return false, "", "no hang"
		case "listener":
			if strings.Contains(stderr, "C09-LISTENER-DEAD") {
				return true, "listener dead again " + label, ""
			}
			return false, "", "listener answered"
		case "note":
			if res != nil {
				for _, n := range res.Notes {
					if n.Rule == c.rule && n.Class == c.class {
						return true, "observed again " + label, ""
					}
				}
			}
			return false, "", "not observed"
		}
		return false, "", "unknown kind"
	}
	ok, how, note := try(spec{Entry: c.entry, State: c.state, Inputs: []string{hex.EncodeToString(c.input)}}, "when fed alone to a freshly set-up entry point in a fresh process")
	if ok {
		return ok, how, note
	}
	if c.idx >= c.from && c.idx-c.from <= 20000 {
		ok2, how2, note2 := try(spec{Entry: c.entry, State: c.state, From: c.from, To: c.idx + 1}, fmt.Sprintf("when the generated stream %d..%d is replayed in a fresh process", c.from, c.idx))
		if ok2 {
			return ok2, how2, note2
		}
		note += "; " + note2
	}
	return false, "", note
}

// parseCrash extracts the message and the innermost bng frame from a Go crash dump.
func parseCrash(stderr string) (msg, site, owner string) {
	lines := strings.Split(stderr, "\n")
	start := -1
	for i, l := range lines {
		if strings.HasPrefix(l, "panic: ") || strings.HasPrefix(l, "fatal error: ") {
			start = i
			msg = strings.TrimSpace(l)
			break
		}
	}
	if start < 0 {
		return "no Go crash banner on stderr", "", "unknown"
	}
	// the crashing goroutine is the first one listed after the banner
	g := -1
	for i := start; i < len(lines); i++ {
		if strings.HasPrefix(lines[i], "goroutine ") {
			g = i
			break
		}
	}
	if g < 0 {
		return msg, "", "unknown"
	}
	var block []string
	for i := g + 1; i < len(lines) && strings.TrimSpace(lines[i]) != ""; i++ {
		block = append(block, lines[i])
	}
	site, owner = siteOf(block)
	return msg, site, owner
}

// hangSite looks through the all-goroutine dump the child's watchdog wrote for a goroutine that
// is executing (running/runnable) or blocked inside bng code and names its innermost bng frame.
func hangSite(stderr string) string {
	i := strings.Index(stderr, "C09-HANG")
	if i < 0 {
		return "unknown"
	}
	blocks := strings.Split(stderr[i:], "\n\n")
	best := ""
	for pass := 0; pass < 2 && best == ""; pass++ {
		for _, b := range blocks {
			lines := strings.Split(strings.TrimLeft(b, "\n"), "\n")
			if len(lines) < 3 || !strings.HasPrefix(lines[0], "goroutine ") {
				if len(lines) > 1 && strings.HasPrefix(lines[1], "goroutine ") {
					lines = lines[1:]
				} else {
					continue
				}
			}
			busy := strings.Contains(lines[0], "[running") || strings.Contains(lines[0], "[runnable")
			if pass == 0 && !busy {
				continue
			}
			// innermost frame that is not runtime/stdlib decides: a goroutine parked in harness code is not a hang of bng
			site, owner := siteOf(lines[1:])
			if owner == "bng" {
				best = site
				break
			}
		}
	}
	if best == "" {
		return "unknown"
	}
	return best
}

const bngPrefix = "github.com/codelaboratoryltd/bng/"

// siteOf finds the innermost frame that is not runtime/stdlib and says whose it is.
func siteOf(stack []string) (site, owner string) {
	third := ""
	for i := 0; i+1 < len(stack); i++ {
		if strings.HasPrefix(stack[i], "\t") || !strings.HasPrefix(stack[i+1], "\t") {
			continue
		}
		fn := strings.TrimSpace(stack[i])
		loc := strings.TrimSpace(stack[i+1])
		if j := strings.LastIndex(fn, "("); j > 0 {
			fn = fn[:j]
		}
		file := loc
		if j := strings.LastIndex(file, ":"); j > 0 {
			file = file[:j]
		}
		switch {
		case strings.HasPrefix(fn, "created by "):
			continue
		case strings.HasPrefix(fn, bngPrefix):
			f := strings.TrimPrefix(fn, bngPrefix)
			if j := strings.LastIndex(f, "/"); j >= 0 {
				f = f[j+1:]
			}
			if j := strings.Index(f, "."); j >= 0 {
				f = f[j+1:] // drop the package name, keep (*T).method
			}
			if j := strings.Index(file, "/pkg/"); j >= 0 {
				file = file[j+1:]
			} else if j := strings.Index(file, "/cmd/"); j >= 0 {
				file = file[j+1:]
			}
			return file + ":" + f, "bng"
		case strings.HasPrefix(fn, "verif/harness/"):
			if third != "" {
				return third, "thirdparty"
			}
			return filepath.Base(file) + ":" + fn, "harness"
		case strings.HasPrefix(fn, "github.com/") || strings.HasPrefix(fn, "layeh.com/") || strings.HasPrefix(fn, "go.uber.org/") || strings.HasPrefix(fn, "golang.org/"):
			if third == "" {
				third = filepath.Base(file) + ":" + fn
			}
		}
	}
	if third != "" {
		return third, "thirdparty"
	}
	return "", "unknown"
}
