package c09

import (
	"bytes"
	"context"
	"encoding/binary"
	"fmt"
	"math/rand/v2"
	"net"
	"runtime"
	"sort"
	"sync"
	"time"

	"go.uber.org/zap"

	"github.com/codelaboratoryltd/bng/pkg/pppoe"
)

// ---------------------------------------------------------------------------------------------
// generic runner for "call f(input)" entry points

type fnRunner struct {
	seeds [][]byte
	keep  int
	sys   [][]byte
	dyn   func(rng *rand.Rand) []byte           // optional: a well-formed sample fitting the current state
	fix   func(b []byte, rng *rand.Rand) []byte // optional: post-mutation adjustment (ids, authenticators)
	feed  func(in []byte) outcome
	scale func(n int) []byte
	close func()
	fresh bool // every Feed sets the entry point up afresh: nothing to repair after a panic
}

var sysCache = map[string][][]byte{}

// AfterPanic reports whether the runner can go on after a recovered panic without being re-opened.
func (r *fnRunner) AfterPanic() bool { return r.fresh }

func (r *fnRunner) initSys(name string) {
	if c, ok := sysCache[name]; ok {
		r.sys = c
		return
	}
	defer func() { sysCache[name] = r.sys }()
	for _, s := range r.seeds {
		r.sys = append(r.sys, systematic(s, r.keep)...)
	}
	// fixed shuffle so that any prefix of the list is a fair sample of it
	rng := rand.New(rand.NewPCG(0xc09, h64(name)))
	rng.Shuffle(len(r.sys), func(i, j int) { r.sys[i], r.sys[j] = r.sys[j], r.sys[i] })
}

func (r *fnRunner) pick(rng *rand.Rand) []byte {
	if r.dyn != nil && rng.IntN(2) == 0 {
		if s := r.dyn(rng); s != nil {
			return s
		}
	}
	return r.seeds[rng.IntN(len(r.seeds))]
}

func (r *fnRunner) Next(i int, rng *rand.Rand) []byte {
	if i < len(r.sys) {
		b := append([]byte(nil), r.sys[i]...)
		if r.fix != nil && rng.IntN(2) == 0 {
			b = r.fix(b, rng)
		}
		return b
	}
	var b []byte
	switch x := rng.IntN(100); {
	case x < 4: // unmutated: lets stateful handlers make progress
		b = append([]byte(nil), r.pick(rng)...)
	case x < 8: // pure random
		n := rng.IntN(64)
		if rng.IntN(4) == 0 {
			n = rng.IntN(maxInput + 1)
		}
		b = append(append([]byte(nil), r.seeds[0][:min(r.keep, len(r.seeds[0]))]...), randBytes(rng, n)...)
	default:
		b = mutate(rng, r.pick(rng), r.keep, r.pick(rng))
	}
	if r.fix != nil && rng.IntN(10) < 7 {
		b = r.fix(b, rng)
	}
	return b
}

func (r *fnRunner) Feed(in []byte) outcome { return r.feed(in) }
func (r *fnRunner) Close() {
	if r.close != nil {
		r.close()
	}
}
func (r *fnRunner) ScaleInput(n int) []byte {
	if r.scale == nil {
		return nil
	}
	return r.scale(n)
}

func errClass(err error) string {
	if err != nil {
		return "error"
	}
	return "ok"
}

// repeatTo repeats unit after head until the total is about n bytes.
func repeatTo(head, unit []byte, n int) []byte {
	b := append([]byte(nil), head...)
	for len(b)+len(unit) <= n {
		b = append(b, unit...)
	}
	return b
}

// ---------------------------------------------------------------------------------------------
// PPP samples built with the repo's serialisers

func lcpPkt(code, id uint8, data []byte) []byte {
	return (&pppoe.LCPPacket{Code: code, Identifier: id, Data: data}).Serialize()
}
func opts(o ...pppoe.LCPOption) []byte { return pppoe.SerializeLCPOptions(o) }
func be16(v uint16) []byte             { b := make([]byte, 2); binary.BigEndian.PutUint16(b, v); return b }
func be32(v uint32) []byte             { b := make([]byte, 4); binary.BigEndian.PutUint32(b, v); return b }
func be64(v uint64) []byte             { b := make([]byte, 8); binary.BigEndian.PutUint64(b, v); return b }

const localMagic = 0x1234abcd
const localIfID = 0x0200000000000001

func lcpGoodReq(id uint8) []byte {
	return lcpPkt(pppoe.LCPCodeConfigRequest, id, opts(pppoe.LCPOption{Type: pppoe.LCPOptMRU, Data: be16(1492)}, pppoe.LCPOption{Type: pppoe.LCPOptMagicNumber, Data: be32(0x0badcafe)}))
}

func lcpSamples() [][]byte {
	mru := pppoe.LCPOption{Type: pppoe.LCPOptMRU, Data: be16(1492)}
	magic := pppoe.LCPOption{Type: pppoe.LCPOptMagicNumber, Data: be32(0x0badcafe)}
	auth := pppoe.LCPOption{Type: pppoe.LCPOptAuthProto, Data: []byte{0xc2, 0x23, 5}}
	return [][]byte{
		lcpGoodReq(1),
		lcpPkt(pppoe.LCPCodeConfigRequest, 2, opts(mru, magic, auth, pppoe.LCPOption{Type: pppoe.LCPOptPFC}, pppoe.LCPOption{Type: pppoe.LCPOptACFC})),
		lcpPkt(pppoe.LCPCodeConfigRequest, 3, opts(pppoe.LCPOption{Type: pppoe.LCPOptMRU, Data: be16(32)}, pppoe.LCPOption{Type: pppoe.LCPOptMagicNumber, Data: be32(0)})),
		lcpPkt(pppoe.LCPCodeConfigRequest, 4, opts(pppoe.LCPOption{Type: pppoe.LCPOptMagicNumber, Data: be32(localMagic)})),
		lcpPkt(pppoe.LCPCodeConfigAck, 1, opts(mru, pppoe.LCPOption{Type: pppoe.LCPOptMagicNumber, Data: be32(localMagic)}, pppoe.LCPOption{Type: pppoe.LCPOptAuthProto, Data: []byte{0xc0, 0x23}})),
		lcpPkt(pppoe.LCPCodeConfigNak, 1, opts(pppoe.LCPOption{Type: pppoe.LCPOptMRU, Data: be16(1400)}, auth, magic)),
		lcpPkt(pppoe.LCPCodeConfigReject, 1, opts(pppoe.LCPOption{Type: pppoe.LCPOptAuthProto, Data: []byte{0xc0, 0x23}}, pppoe.LCPOption{Type: pppoe.LCPOptPFC})),
		lcpPkt(pppoe.LCPCodeTermRequest, 9, []byte("User request")),
		lcpPkt(pppoe.LCPCodeTermAck, 9, nil),
		lcpPkt(pppoe.LCPCodeCodeReject, 10, lcpPkt(pppoe.LCPCodeConfigRequest, 1, opts(mru))),
		lcpPkt(pppoe.LCPCodeProtoReject, 11, append(be16(pppoe.ProtocolLCP), 1, 2, 3)),
		lcpPkt(pppoe.LCPCodeProtoReject, 11, append(be16(pppoe.ProtocolIPv6CP), 1, 2, 3)),
		lcpPkt(pppoe.LCPCodeEchoRequest, 12, append(be32(0x0badcafe), []byte("ping")...)),
		lcpPkt(pppoe.LCPCodeEchoRequest, 13, be32(0x0badcafe)),
		lcpPkt(pppoe.LCPCodeEchoReply, 14, be32(0x0badcafe)),
		lcpPkt(pppoe.LCPCodeDiscardReq, 15, be32(0x0badcafe)),
		lcpPkt(0x42, 16, []byte{1, 2, 3, 4}),
	}
}

func ipcpGoodReq(id uint8) []byte {
	return lcpPkt(pppoe.LCPCodeConfigRequest, id, opts(pppoe.LCPOption{Type: pppoe.IPCPOptIPAddress, Data: []byte{10, 0, 0, 2}}))
}

func ipcpSamples() [][]byte {
	ip := func(a ...byte) pppoe.LCPOption { return pppoe.LCPOption{Type: pppoe.IPCPOptIPAddress, Data: a} }
	return [][]byte{
		ipcpGoodReq(1),
		lcpPkt(pppoe.LCPCodeConfigRequest, 2, opts(ip(0, 0, 0, 0), pppoe.LCPOption{Type: pppoe.IPCPOptPrimaryDNS, Data: []byte{0, 0, 0, 0}}, pppoe.LCPOption{Type: pppoe.IPCPOptSecondaryDNS, Data: []byte{0, 0, 0, 0}})),
		lcpPkt(pppoe.LCPCodeConfigRequest, 3, opts(ip(192, 168, 1, 77), pppoe.LCPOption{Type: pppoe.IPCPOptPrimaryDNS, Data: []byte{9, 9, 9, 9}})),
		lcpPkt(pppoe.LCPCodeConfigRequest, 4, opts(pppoe.LCPOption{Type: pppoe.IPCPOptIPCompression, Data: []byte{0, 0x2d, 15, 0}}, pppoe.LCPOption{Type: pppoe.IPCPOptIPAddresses, Data: []byte{1, 2, 3, 4, 5, 6, 7, 8}})),
		lcpPkt(pppoe.LCPCodeConfigAck, 1, opts(ip(10, 0, 0, 1))),
		lcpPkt(pppoe.LCPCodeConfigNak, 1, opts(ip(10, 0, 0, 9))),
		lcpPkt(pppoe.LCPCodeConfigReject, 1, opts(ip(10, 0, 0, 1))),
		lcpPkt(pppoe.LCPCodeTermRequest, 9, []byte("bye")),
		lcpPkt(pppoe.LCPCodeTermAck, 9, nil),
		lcpPkt(pppoe.LCPCodeCodeReject, 10, []byte{1, 2, 0, 4}),
	}
}

func ipv6cpGoodReq(id uint8) []byte {
	return lcpPkt(pppoe.LCPCodeConfigRequest, id, opts(pppoe.LCPOption{Type: pppoe.IPV6CPOptInterfaceID, Data: be64(0x02aabbfffeccddee)}))
}

func ipv6cpSamples() [][]byte {
	id := func(v uint64) pppoe.LCPOption {
		return pppoe.LCPOption{Type: pppoe.IPV6CPOptInterfaceID, Data: be64(v)}
	}
	return [][]byte{
		ipv6cpGoodReq(1),
		lcpPkt(pppoe.LCPCodeConfigRequest, 2, opts(id(0))),
		lcpPkt(pppoe.LCPCodeConfigRequest, 3, opts(id(localIfID))),
		lcpPkt(pppoe.LCPCodeConfigRequest, 4, opts(id(5), pppoe.LCPOption{Type: 2, Data: []byte{0, 0x4f}})),
		lcpPkt(pppoe.LCPCodeConfigAck, 1, opts(id(localIfID))),
		lcpPkt(pppoe.LCPCodeConfigNak, 1, opts(id(0x0200000000000777))),
		lcpPkt(pppoe.LCPCodeConfigReject, 1, opts(id(localIfID))),
		lcpPkt(pppoe.LCPCodeTermRequest, 9, []byte("bye")),
		lcpPkt(pppoe.LCPCodeTermAck, 9, nil),
	}
}

// ---------------------------------------------------------------------------------------------
// the three RFC 1661 automata, each in each of its ten states

var fsmStates = []string{"Initial", "Starting", "Closed", "Stopped", "Closing", "Stopping", "Req-Sent", "Ack-Rcvd", "Ack-Sent", "Opened"}

type sendRec struct {
	mu        sync.Mutex
	n         int
	lastReqID uint8
	lastReq   []byte
	haveReq   bool
	last      []byte // the last packet handed to the send callback
	maxLen    int
}

func (s *sendRec) send(proto uint16, data []byte) {
	s.mu.Lock()
	s.n++
	s.last = append(s.last[:0], data...)
	if len(data) > s.maxLen {
		s.maxLen = len(data)
	}
	if len(data) >= 4 && data[0] == pppoe.LCPCodeConfigRequest {
		s.lastReqID = data[1]
		s.lastReq = append([]byte(nil), data[4:]...)
		s.haveReq = true
	}
	s.mu.Unlock()
}

type fsm struct {
	up, down, open, closeFn func()
	recv                    func([]byte) error
	state                   func() string
}

func newFSM(proto string, rec *sendRec) (*fsm, error) {
	lg := zap.NewNop()
	switch proto {
	case "lcp":
		cfg := pppoe.DefaultLCPConfig()
		cfg.MagicNumber = localMagic
		cfg.RestartTimer = time.Hour
		m, err := pppoe.NewLCPStateMachine(cfg, rec.send, lg)
		if err != nil {
			return nil, err
		}
		return &fsm{m.Up, m.Down, m.Open, m.Close, m.ReceivePacket, func() string { return m.GetState().String() }}, nil
	case "ipcp":
		cfg := pppoe.DefaultIPCPConfig()
		cfg.PeerIP = net.IPv4(10, 0, 0, 2)
		cfg.PrimaryDNS = net.IPv4(8, 8, 8, 8)
		cfg.SecondaryDNS = net.IPv4(8, 8, 4, 4)
		cfg.RestartTimer = time.Hour
		m := pppoe.NewIPCPStateMachine(cfg, "verif-session", rec.send, lg)
		return &fsm{m.Up, m.Down, m.Open, m.Close, m.ReceivePacket, func() string { return m.GetState().String() }}, nil
	default:
		cfg := pppoe.IPV6CPConfig{LocalInterfaceID: localIfID, MaxRetransmit: 10, RestartTimer: time.Hour}
		m, err := pppoe.NewIPV6CPStateMachine(cfg, rec.send, lg)
		if err != nil {
			return nil, err
		}
		return &fsm{m.Up, m.Down, m.Open, m.Close, m.ReceivePacket, func() string { return m.GetState().String() }}, nil
	}
}

func driveFSM(m *fsm, rec *sendRec, state string, goodReq func(uint8) []byte) error {
	ack := func() []byte { return lcpPkt(pppoe.LCPCodeConfigAck, rec.lastReqID, rec.lastReq) }
	term := lcpPkt(pppoe.LCPCodeTermRequest, 77, nil)
	switch state {
	case "Initial":
	case "Starting":
		m.open()
	case "Closed":
		m.up()
	case "Req-Sent":
		m.up()
		m.open()
	case "Stopped":
		m.up()
		m.open()
		m.recv(term)
	case "Closing":
		m.up()
		m.open()
		m.closeFn()
	case "Ack-Rcvd":
		m.up()
		m.open()
		m.recv(ack())
	case "Ack-Sent":
		m.up()
		m.open()
		m.recv(goodReq(50))
	case "Opened", "Stopping":
		m.up()
		m.open()
		m.recv(goodReq(50))
		m.recv(ack())
		if state == "Stopping" {
			m.recv(term)
		}
	}
	if got := m.state(); got != state {
		return fmt.Errorf("could not drive automaton to %s (got %s)", state, got)
	}
	return nil
}

func fsmEntry(name, proto string, samples func() [][]byte, goodReq func(uint8) []byte, unit []byte) *entry {
	return &entry{
		name: name, states: fsmStates, quick: 40000, thorough: 200000, chunk: 4000, cost: 3, scale: true,
		open: func(state string, ev *env) (runner, error) {
			// probe once that the state is reachable
			{
				rec := &sendRec{}
				m, err := newFSM(proto, rec)
				if err != nil {
					return nil, err
				}
				if err := driveFSM(m, rec, state, goodReq); err != nil {
					return nil, err
				}
				m.down()
			}
			var lastID uint8
			r := &fnRunner{seeds: samples(), fresh: true}
			r.initSys(name)
			r.fix = func(b []byte, rng *rand.Rand) []byte {
				if len(b) >= 2 {
					b[1] = lastID
				}
				return b
			}
			r.feed = func(in []byte) outcome {
				// a fresh automaton per input, driven to the state by well-formed events
				rec := &sendRec{}
				m, _ := newFSM(proto, rec)
				driveFSM(m, rec, state, goodReq)
				lastID = rec.lastReqID
				before, sent := m.state(), rec.n
				err := m.recv(exact(in))
				after := m.state()
				m.down() // stops the restart timer
				o := outcome{class: errClass(err), nontriv: err == nil}
				code := "short"
				if len(in) >= 1 {
					code = fmt.Sprint(in[0])
					if in[0] > 12 {
						code = "unknown"
					}
				}
				replied := rec.n > sent
				if err == nil {
					o.dist = map[string]string{"fsm_transitions": fmt.Sprintf("%s:%s+code%s->%s/reply=%v", proto, before, code, after, replied)}
				}
				if replied {
					o.class += "+reply"
				}
				return o
			}
			r.scale = func(n int) []byte {
				body := repeatTo(nil, unit, n-4)
				return lcpPkt(pppoe.LCPCodeConfigRequest, 1, body)
			}
			return r, nil
		},
	}
}

// ---------------------------------------------------------------------------------------------
// PAP / CHAP authenticator

func papReq(id uint8, user, pass string) []byte {
	b := []byte{pppoe.PAPCodeAuthRequest, id, 0, 0, byte(len(user))}
	b = append(b, user...)
	b = append(b, byte(len(pass)))
	b = append(b, pass...)
	binary.BigEndian.PutUint16(b[2:4], uint16(len(b)))
	return b
}

func chapResp(id uint8, value []byte, name string) []byte {
	b := []byte{pppoe.CHAPCodeResponse, id, 0, 0, byte(len(value))}
	b = append(b, value...)
	b = append(b, name...)
	binary.BigEndian.PutUint16(b[2:4], uint16(len(b)))
	return b
}

func authEntry() *entry {
	return &entry{
		name: "pppoe.Authenticator.ReceivePacket", states: []string{"pap-pending", "pap-done", "chap-pending", "chap-done"},
		quick: 24000, thorough: 120000, chunk: 6000, cost: 2, scale: true,
		open: func(state string, ev *env) (runner, error) {
			chap := state == "chap-pending" || state == "chap-done"
			proto := uint16(pppoe.ProtocolPAP)
			var seeds [][]byte
			if chap {
				proto = pppoe.ProtocolCHAP
				seeds = [][]byte{
					chapResp(1, bytes.Repeat([]byte{0xab}, 16), "alice"),
					chapResp(1, nil, ""),
					chapResp(2, bytes.Repeat([]byte{1}, 16), "bob@example.net"),
					{pppoe.CHAPCodeChallenge, 1, 0, 4},
					{pppoe.CHAPCodeSuccess, 1, 0, 6, 'o', 'k'},
				}
			} else {
				seeds = [][]byte{
					papReq(1, "alice", "secret"),
					papReq(2, "", ""),
					papReq(3, "bob@example.net", string(bytes.Repeat([]byte{'x'}, 40))),
					{pppoe.PAPCodeAuthAck, 1, 0, 5, 0},
					{pppoe.PAPCodeAuthNak, 1, 0, 5, 0},
				}
			}
			r := &fnRunner{seeds: seeds, fresh: true}
			r.initSys("auth-" + state)
			r.fix = func(b []byte, rng *rand.Rand) []byte {
				if chap && len(b) >= 2 {
					b[1] = 1 // the identifier of the outstanding challenge
				}
				return b
			}
			r.feed = func(in []byte) outcome {
				n := 0
				cfg := pppoe.DefaultAuthConfig()
				cfg.Protocol = proto
				a := pppoe.NewAuthenticator(cfg, nil, func(uint16, []byte) { n++ }, zap.NewNop())
				a.Start()
				if state == "pap-done" {
					a.ReceivePacket(proto, papReq(1, "alice", "secret"))
				}
				if state == "chap-done" {
					a.ReceivePacket(proto, chapResp(1, bytes.Repeat([]byte{0xab}, 16), "alice"))
				}
				before, sent := a.GetState().String(), n
				err := a.ReceivePacket(proto, exact(in))
				o := outcome{class: errClass(err), nontriv: err == nil && n > sent}
				if n > sent {
					o.class += "+reply"
				}
				o.dist = map[string]string{"auth_transitions": fmt.Sprintf("%s:%s->%s/%s", state, before, a.GetState().String(), o.class)}
				return o
			}
			r.scale = func(n int) []byte {
				if chap {
					return chapResp(1, bytes.Repeat([]byte{7}, 255), string(bytes.Repeat([]byte{'n'}, n-260)))
				}
				// PAP lengths are one octet each: the rest is trailing data inside the PAP length
				b := papReq(1, string(bytes.Repeat([]byte{'u'}, 200)), string(bytes.Repeat([]byte{'p'}, 200)))
				b = append(b, bytes.Repeat([]byte{0}, n-len(b))...)
				binary.BigEndian.PutUint16(b[2:4], uint16(len(b)))
				return b
			}
			return r, nil
		},
	}
}

// ---------------------------------------------------------------------------------------------
// keep-alive: Echo-Reply delivered the way a session handler would (parse LCP, parse echo, notify)

func keepaliveEntry() *entry {
	return &entry{
		name: "pppoe.SessionKeepAlive.OnEchoReply", states: []string{"echo-pending", "idle"},
		quick: 12000, thorough: 60000, chunk: 6000, cost: 3,
		open: func(state string, ev *env) (runner, error) {
			mac := net.HardwareAddr{2, 0, 0, 0, 0, 1}
			mk := func() (*pppoe.SessionKeepAlive, *sendRec, error) {
				rec := &sendRec{}
				m, err := pppoe.NewLCPStateMachine(func() pppoe.LCPConfig {
					c := pppoe.DefaultLCPConfig()
					c.MagicNumber = localMagic
					c.RestartTimer = time.Hour
					return c
				}(), rec.send, zap.NewNop())
				if err != nil {
					return nil, nil, err
				}
				m.Up()
				m.Open()
				m.ReceivePacket(lcpGoodReq(50))
				m.ReceivePacket(lcpPkt(pppoe.LCPCodeConfigAck, rec.lastReqID, rec.lastReq))
				if !m.IsOpened() {
					return nil, nil, fmt.Errorf("LCP not opened")
				}
				sess, err := pppoe.NewSession(1, mac, mac)
				if err != nil {
					return nil, nil, err
				}
				ka := pppoe.NewSessionKeepAlive(sess, m, pppoe.KeepAliveConfig{Enabled: true, Interval: time.Hour, Timeout: time.Hour, MaxFailures: 3, IdleThreshold: 0}, zap.NewNop())
				if state == "echo-pending" {
					ka.VerifC09Check()
					if p, _ := ka.VerifC09Pending(); !p {
						return nil, nil, fmt.Errorf("no echo outstanding after check")
					}
				}
				return ka, rec, nil
			}
			if _, _, err := mk(); err != nil {
				return nil, err
			}
			var pendID uint8
			r := &fnRunner{fresh: true, seeds: [][]byte{
				lcpPkt(pppoe.LCPCodeEchoReply, 1, be32(0x0badcafe)),
				lcpPkt(pppoe.LCPCodeEchoReply, 1, append(be32(0x0badcafe), []byte("payload")...)),
				lcpPkt(pppoe.LCPCodeEchoReply, 1, []byte{1, 2}),
				lcpPkt(pppoe.LCPCodeEchoReply, 1, nil),
			}}
			r.initSys("ka")
			r.fix = func(b []byte, rng *rand.Rand) []byte {
				if len(b) >= 2 {
					b[1] = pendID
				}
				return b
			}
			r.feed = func(in []byte) outcome {
				ka, _, _ := mk()
				_, pendID = ka.VerifC09Pending()
				pkt, err := pppoe.ParseLCPPacket(exact(in))
				if err != nil {
					return outcome{class: "lcp-parse-error"}
				}
				if pkt.Code != pppoe.LCPCodeEchoReply {
					return outcome{class: "not-echo-reply"}
				}
				magic, payload, perr := pppoe.ParseEchoPacket(pkt.Data)
				_, _ = magic, payload
				pb, _ := ka.VerifC09Pending()
				ka.OnEchoReply(pkt.Identifier, pkt.Data)
				pa, _ := ka.VerifC09Pending()
				o := outcome{class: errClass(perr), nontriv: true}
				if pb && !pa {
					o.class = "echo-matched"
				}
				o.dist = map[string]string{"keepalive": fmt.Sprintf("%s/%s/datalen=%d", state, o.class, min(len(pkt.Data), 5))}
				return o
			}
			return r, nil
		},
	}
}

// ---------------------------------------------------------------------------------------------
// the PPPoE server's real receive loop on an in-memory socket

var srvMAC = net.HardwareAddr{0x02, 0xbb, 0, 0, 0, 0x01}
var bcastMAC = net.HardwareAddr{0xff, 0xff, 0xff, 0xff, 0xff, 0xff}
var canary = []byte{0xCA, 0xFE, 0xBA, 0xBE}

func ethFrame(dst, src net.HardwareAddr, et uint16, payload []byte) []byte {
	return pppoe.BuildEthernetFrame(dst, src, et, payload)
}

func discFrame(src net.HardwareAddr, code uint8, sid uint16, tags []pppoe.Tag) []byte {
	td := pppoe.SerializeTags(tags)
	h := (&pppoe.PPPoEHeader{VerType: 0x11, Code: code, SessionID: sid, Length: uint16(len(td))}).Serialize()
	dst := srvMAC
	if code == pppoe.CodePADI {
		dst = bcastMAC
	}
	return ethFrame(dst, src, pppoe.EtherTypePPPoEDiscovery, append(h, td...))
}

func sessFrame(src net.HardwareAddr, sid uint16, proto uint16, ppp []byte) []byte {
	pl := append(be16(proto), ppp...)
	h := (&pppoe.PPPoEHeader{VerType: 0x11, Code: pppoe.CodeSession, SessionID: sid, Length: uint16(len(pl))}).Serialize()
	return ethFrame(srvMAC, src, pppoe.EtherTypePPPoESession, append(h, pl...))
}

type pppoeLoop struct {
	ev      *env
	srv     *pppoe.Server
	in      chan []byte
	idle    chan struct{}
	cancel  context.CancelFunc
	mu      sync.Mutex
	sent    [][]byte
	nextM   int
	live    map[string][]uint16 // state name -> session ids (refreshed from the server)
	sys     [][]byte
	fed     int
	full    bool
	crashed chan *feedPanic
	dead    *feedPanic
	topup   int
}

func (l *pppoeLoop) clientMAC() net.HardwareAddr {
	l.nextM++
	return net.HardwareAddr{0x02, 0xcc, 0, 0, byte(l.nextM >> 8), byte(l.nextM)}
}

func openPPPoELoop(state string, ev *env) (*pppoeLoop, error) {
	l, err := newPPPoELoop(ev, pppoeDefaultCfg())
	if err != nil {
		return nil, err
	}
	if err := l.prime(); err != nil {
		return nil, err
	}
	if state == "session-table-full" {
		if err := l.fill(); err != nil {
			return nil, err
		}
		time.Sleep(200 * time.Millisecond) // let the LCP negotiation goroutines drain
	}
	if c, ok := sysCache["pppoe-loop"]; ok {
		l.sys = c
		return l, nil
	}
	seeds := l.samples(rand.New(rand.NewPCG(1, 2)))
	for _, s := range seeds {
		l.sys = append(l.sys, systematic(s, 14)...)
	}
	rng := rand.New(rand.NewPCG(0xc09, 77))
	rng.Shuffle(len(l.sys), func(i, j int) { l.sys[i], l.sys[j] = l.sys[j], l.sys[i] })
	sysCache["pppoe-loop"] = l.sys
	return l, nil
}

func pppoeDefaultCfg() pppoe.ServerConfig {
	return pppoe.ServerConfig{Interface: "verif0", ACName: "verif-ac", ServiceName: "internet", ServerIP: "10.10.0.1", ClientPool: "10.10.0.0/24", PoolGateway: "10.10.0.1", PrimaryDNS: "8.8.8.8", SecondaryDNS: "8.8.4.4"}
}

// newPPPoELoop builds a server with the given configuration on an in-memory socket and starts
// its real receive loop; no session exists yet.
func newPPPoELoop(ev *env, cfg pppoe.ServerConfig) (*pppoeLoop, error) {
	l := &pppoeLoop{ev: ev, in: make(chan []byte), idle: make(chan struct{}, 1), live: map[string][]uint16{}, crashed: make(chan *feedPanic, 1)}
	sock := &pppoe.VerifC09Socket{
		Recv: func(buf []byte) (int, error) {
			l.idle <- struct{}{} // the previous frame has been handled completely
			f := <-l.in
			if f == nil {
				return 0, fmt.Errorf("closed")
			}
			n := copy(buf, f)
			// What lies in the buffer beyond the n received bytes is not part of the frame. Fill it
			// with a recognisable pattern (a run of Host-Uniq tags for discovery frames, an LCP
			// Configure-Request carrying a magic number for session frames): a handler that
			// stays inside its input can never emit these bytes.
			if !bytes.Contains(f, canary) {
				pat := []byte{0x01, 0x03, 0x00, 0x04, 0xCA, 0xFE, 0xBA, 0xBE}
				if n >= 14 && binary.BigEndian.Uint16(buf[12:14]) == pppoe.EtherTypePPPoESession {
					pat = []byte{0x01, 0x7f, 0x00, 0x0a, 0x05, 0x06, 0xCA, 0xFE, 0xBA, 0xBE}
				}
				for i := n; i < len(buf); i++ {
					buf[i] = pat[(i-n)%len(pat)]
				}
			}
			return n, nil
		},
		Send: func(et uint16, dst net.HardwareAddr, frame []byte) error {
			l.mu.Lock()
			l.sent = append(l.sent, append([]byte(nil), frame...))
			l.mu.Unlock()
			return nil
		},
	}
	srv, err := pppoe.VerifC09NewServer(cfg, zap.NewNop(), &net.Interface{Index: 9, Name: "verif0", HardwareAddr: srvMAC, MTU: 1500}, sock)
	if err != nil {
		return nil, err
	}
	l.srv = srv
	ctx, cancel := context.WithCancel(context.Background())
	l.cancel = cancel
	go func() { // the real receive loop; in production a panic in it is process-fatal
		defer loopGuard(l.crashed, "pppoe.Server.receiveLoop")
		srv.VerifC09ReceiveLoop(ctx)
	}()
	select {
	case <-l.idle:
	case <-time.After(5 * time.Second):
		return nil, fmt.Errorf("receive loop did not start")
	}
	return l, nil
}

// push hands one frame to the loop and waits until the loop asks for the next one and the
// goroutines the handler started (LCP negotiation) have finished.
func (l *pppoeLoop) push(f []byte) [][]byte {
	l.mu.Lock()
	l.sent = l.sent[:0]
	l.mu.Unlock()
	if f == nil {
		f = []byte{}
	}
	if l.dead != nil {
		return nil
	}
	base := runtime.NumGoroutine()
	l.in <- f
	select {
	case <-l.idle:
	case p := <-l.crashed:
		l.dead = p
		return nil
	}
	settle(base)
	l.mu.Lock()
	out := append([][]byte(nil), l.sent...)
	l.mu.Unlock()
	return out
}

// auxFast feeds a well-formed frame without waiting for handler goroutines to finish.
func (l *pppoeLoop) auxFast(f []byte) {
	l.ev.Aux(f)
	l.mu.Lock()
	l.sent = l.sent[:0]
	l.mu.Unlock()
	if l.dead != nil {
		return
	}
	l.in <- f
	select {
	case <-l.idle:
	case p := <-l.crashed:
		l.dead = p
	}
}

// aux feeds a well-formed frame (journalled as auxiliary input).
func (l *pppoeLoop) aux(f []byte) [][]byte {
	l.ev.Aux(f)
	return l.push(f)
}

func (l *pppoeLoop) refresh() {
	l.live = map[string][]uint16{}
	st := l.srv.VerifC09SessionStates()
	ids := make([]int, 0, len(st))
	for id := range st {
		ids = append(ids, int(id))
	}
	sort.Ints(ids)
	for _, id := range ids {
		l.live[st[uint16(id)]] = append(l.live[st[uint16(id)]], uint16(id))
	}
}

// newSession runs a well-formed discovery and returns the session id from the PADS.
func (l *pppoeLoop) newSession(mac net.HardwareAddr) (uint16, error) {
	out := l.aux(discFrame(mac, pppoe.CodePADI, 0, []pppoe.Tag{{Type: pppoe.TagServiceName}, {Type: pppoe.TagHostUniq, Value: []byte{1, 2, 3, 4}}}))
	var cookie []byte
	for _, f := range out {
		if len(f) >= 20 && f[15] == pppoe.CodePADO {
			tags, _ := pppoe.ParseTags(f[20:])
			if c := pppoe.FindTag(tags, pppoe.TagACCookie); c != nil {
				cookie = c.Value
			}
		}
	}
	if cookie == nil {
		return 0, fmt.Errorf("no PADO for a well-formed PADI")
	}
	out = l.aux(discFrame(mac, pppoe.CodePADR, 0, []pppoe.Tag{{Type: pppoe.TagServiceName, Value: []byte("internet")}, {Type: pppoe.TagACCookie, Value: cookie}, {Type: pppoe.TagHostUniq, Value: []byte{1, 2, 3, 4}}}))
	for _, f := range out {
		if len(f) >= 20 && f[15] == pppoe.CodePADS {
			return binary.BigEndian.Uint16(f[16:18]), nil
		}
	}
	return 0, fmt.Errorf("no PADS for a well-formed PADR")
}

// prime makes sure there are sessions in each state that well-formed frames alone can reach
// (LCP negotiation, authentication, IPCP negotiation, established).
func (l *pppoeLoop) prime() error {
	l.refresh()
	total := 0
	for _, ids := range l.live {
		total += len(ids)
	}
	if total >= 6 || l.full {
		return nil
	}
	for depth := 0; depth < 4; depth++ {
		mac := l.clientMAC()
		sid, err := l.newSession(mac)
		if err != nil {
			return err
		}
		if depth >= 1 { // LCP Configure-Ack -> authentication phase
			l.aux(sessFrame(mac, sid, pppoe.ProtocolLCP, lcpPkt(pppoe.LCPCodeConfigAck, 1, nil)))
		}
		if depth >= 2 { // PAP -> IPCP negotiation
			l.aux(sessFrame(mac, sid, pppoe.ProtocolPAP, papReq(1, "alice", "secret")))
		}
		if depth >= 3 { // IPCP Configure-Ack -> established
			l.aux(sessFrame(mac, sid, pppoe.ProtocolIPCP, lcpPkt(pppoe.LCPCodeConfigAck, 1, opts(pppoe.LCPOption{Type: pppoe.IPCPOptIPAddress, Data: []byte{10, 10, 0, 1}}))))
		}
	}
	l.refresh()
	return nil
}

// fill creates sessions with well-formed PADRs until the 16-bit session id space is used up.
func (l *pppoeLoop) fill() error {
	cookie := bytes.Repeat([]byte{0x5a}, 16)
	for i := 0; i < 70000; i++ {
		if i%4096 == 0 && l.srv.GetSessionCount() >= 65535 {
			break
		}
		mac := net.HardwareAddr{0x02, 0xee, 0, byte(i >> 16), byte(i >> 8), byte(i)}
		l.auxFast(discFrame(mac, pppoe.CodePADR, 0, []pppoe.Tag{{Type: pppoe.TagServiceName, Value: []byte("internet")}, {Type: pppoe.TagACCookie, Value: cookie}}))
		if i >= 65530 && l.srv.GetSessionCount() >= 65535 {
			break
		}
	}
	if n := l.srv.GetSessionCount(); n < 65535 {
		return fmt.Errorf("session table holds %d sessions after the fill", n)
	}
	l.full = true
	l.refresh()
	return nil
}

func (l *pppoeLoop) anySession(rng *rand.Rand) uint16 {
	var all []uint16
	keys := make([]string, 0, len(l.live))
	for k := range l.live {
		keys = append(keys, k)
	}
	sort.Strings(keys)
	if len(keys) > 0 && rng.IntN(2) == 0 { // pick a state first, then a session in it
		ids := l.live[keys[rng.IntN(len(keys))]]
		return ids[rng.IntN(len(ids))]
	}
	for _, k := range keys {
		all = append(all, l.live[k]...)
	}
	if len(all) == 0 {
		return uint16(1 + rng.IntN(4))
	}
	return all[rng.IntN(len(all))]
}

func (l *pppoeLoop) samples(rng *rand.Rand) [][]byte {
	mac := net.HardwareAddr{0x02, 0xdd, 0, 0, 0, byte(1 + rng.IntN(8))}
	sid := l.anySession(rng)
	cookie := bytes.Repeat([]byte{0x5a}, 16)
	return [][]byte{
		discFrame(mac, pppoe.CodePADI, 0, []pppoe.Tag{{Type: pppoe.TagServiceName}, {Type: pppoe.TagHostUniq, Value: []byte{9, 8, 7, 6}}}),
		discFrame(mac, pppoe.CodePADI, 0, []pppoe.Tag{{Type: pppoe.TagServiceName, Value: []byte("internet")}, {Type: pppoe.TagVendorSpecific, Value: []byte{0, 0, 0x0d, 0xe9, 1, 4, 'p', 'o', 'r', 't'}}, {Type: pppoe.TagEndOfList}}),
		discFrame(mac, pppoe.CodePADR, 0, []pppoe.Tag{{Type: pppoe.TagServiceName, Value: []byte("internet")}, {Type: pppoe.TagACCookie, Value: cookie}, {Type: pppoe.TagHostUniq, Value: []byte{9, 8, 7, 6}}, {Type: pppoe.TagRelaySessionID, Value: []byte{1, 2, 3}}}),
		discFrame(mac, pppoe.CodePADT, sid, []pppoe.Tag{{Type: pppoe.TagGenericErr, Value: []byte("bye")}}),
		discFrame(mac, pppoe.CodePADT, sid, nil),
		sessFrame(mac, sid, pppoe.ProtocolLCP, lcpGoodReq(1)),
		sessFrame(mac, sid, pppoe.ProtocolLCP, lcpPkt(pppoe.LCPCodeConfigAck, 1, nil)),
		sessFrame(mac, sid, pppoe.ProtocolLCP, lcpPkt(pppoe.LCPCodeConfigNak, 1, opts(pppoe.LCPOption{Type: pppoe.LCPOptMRU, Data: be16(1400)}))),
		sessFrame(mac, sid, pppoe.ProtocolLCP, lcpPkt(pppoe.LCPCodeEchoRequest, 7, append(be32(1), []byte("ping")...))),
		sessFrame(mac, sid, pppoe.ProtocolLCP, lcpPkt(pppoe.LCPCodeTermRequest, 8, []byte("bye"))),
		sessFrame(mac, sid, pppoe.ProtocolPAP, papReq(1, "alice", "secret")),
		sessFrame(mac, sid, pppoe.ProtocolPAP, papReq(2, "", "")),
		sessFrame(mac, sid, pppoe.ProtocolIPCP, lcpPkt(pppoe.LCPCodeConfigRequest, 1, opts(pppoe.LCPOption{Type: pppoe.IPCPOptIPAddress, Data: []byte{0, 0, 0, 0}}, pppoe.LCPOption{Type: pppoe.IPCPOptPrimaryDNS, Data: []byte{0, 0, 0, 0}}, pppoe.LCPOption{Type: pppoe.IPCPOptSecondaryDNS, Data: []byte{0, 0, 0, 0}}))),
		sessFrame(mac, sid, pppoe.ProtocolIPCP, lcpPkt(pppoe.LCPCodeConfigAck, 1, opts(pppoe.LCPOption{Type: pppoe.IPCPOptIPAddress, Data: []byte{10, 10, 0, 1}}))),
		sessFrame(mac, sid, pppoe.ProtocolIP, []byte{0x45, 0, 0, 20, 0, 0, 0, 0, 64, 17, 0, 0, 10, 10, 0, 2, 8, 8, 8, 8}),
		sessFrame(mac, sid, pppoe.ProtocolIPv6CP, ipv6cpGoodReq(1)),
	}
}

func (l *pppoeLoop) Next(i int, rng *rand.Rand) []byte {
	var b []byte
	if i < len(l.sys) {
		b = append([]byte(nil), l.sys[i]...)
	} else {
		ss := l.samples(rng)
		s := ss[rng.IntN(len(ss))]
		switch x := rng.IntN(100); {
		case x < 4:
			b = append([]byte(nil), s...)
		case x < 8:
			b = append(append([]byte(nil), s[:14]...), randBytes(rng, rng.IntN(80))...)
		case x < 12:
			b = mutate(rng, s, 0, ss[rng.IntN(len(ss))]) // the Ethernet header is fair game too
		default:
			b = mutate(rng, s, 14, ss[rng.IntN(len(ss))])
		}
	}
	// most session frames should address a live session, from the station that owns it
	if len(b) >= 18 && rng.IntN(10) < 7 {
		sid := l.anySession(rng)
		binary.BigEndian.PutUint16(b[16:18], sid)
		if mac := l.srv.VerifC09SessionMAC(sid); len(mac) == 6 && rng.IntN(10) < 9 {
			copy(b[6:12], mac)
		}
	}
	if len(b) > 1522 {
		b = b[:1522]
	}
	return b
}

func (l *pppoeLoop) Feed(in []byte) outcome {
	l.fed++
	if l.fed%48 == 0 {
		if err := l.prime(); err != nil {
			l.ev.Note("listener-alive", "no-answer-to-well-formed-discovery", "the receive loop no longer completes a well-formed PADI/PADR exchange: "+err.Error(), in, "")
		}
	}
	if l.dead != nil { // a well-formed priming frame took the loop down
		return outcome{pan: l.dead}
	}
	var sid uint16
	if len(in) >= 18 {
		sid = binary.BigEndian.Uint16(in[16:18])
	}
	n0, st0 := l.srv.GetSessionCount(), l.srv.VerifC09SessionState(sid)
	out := l.push(in)
	if l.dead != nil {
		return outcome{pan: l.dead}
	}
	n1, st1 := l.srv.GetSessionCount(), l.srv.VerifC09SessionState(sid)
	o := outcome{class: "dropped"}
	if len(out) > 0 {
		o.class = "replied"
		o.nontriv = true
	}
	if n0 != n1 || st0 != st1 {
		o.nontriv = true
		o.class += "+state"
		if l.full {
			// keep the table full with well-formed PADRs
			for i := 0; l.srv.GetSessionCount() < 65535 && i < 64 && l.dead == nil; i++ {
				l.topup++
				mac := net.HardwareAddr{0x02, 0xef, 0, byte(l.topup >> 16), byte(l.topup >> 8), byte(l.topup)}
				l.auxFast(discFrame(mac, pppoe.CodePADR, 0, []pppoe.Tag{{Type: pppoe.TagServiceName, Value: []byte("internet")}, {Type: pppoe.TagACCookie, Value: bytes.Repeat([]byte{0x5a}, 16)}}))
			}
		} else {
			l.refresh()
		}
	}
	kind := "short"
	if len(in) >= 20 {
		et := binary.BigEndian.Uint16(in[12:14])
		st := st0
		if st == "" {
			st = "no-session"
		}
		if l.full {
			st += "/table-full"
		}
		switch et {
		case pppoe.EtherTypePPPoEDiscovery:
			kind = fmt.Sprintf("disc/code%02x/%s", in[15], st)
		case pppoe.EtherTypePPPoESession:
			proto := uint16(0)
			if len(in) >= 22 {
				proto = binary.BigEndian.Uint16(in[20:22])
			}
			code := -1
			if len(in) >= 23 && in[22] < 16 {
				code = int(in[22])
			}
			kind = fmt.Sprintf("sess/proto%04x/code%d/%s", proto, code, st)
		default:
			kind = "other-ethertype"
		}
	}
	o.dist = map[string]string{"pppoe_frame_kind_x_session_state_x_outcome": kind + "/" + o.class}
	// frames emitted by the server must not contain bytes from beyond the received frame
	if !bytes.Contains(in, canary) {
		for _, f := range out {
			if bytes.Contains(f, canary) {
				which := "discovery"
				if len(in) >= 14 && binary.BigEndian.Uint16(in[12:14]) == pppoe.EtherTypePPPoESession {
					which = "session"
				}
				l.ev.Note("in-bounds", "reply-echoes-bytes-beyond-received-frame/"+which,
					fmt.Sprintf("the server's reply to a %d-byte frame contains the marker the socket placed *after* the received bytes in the receive buffer: the handler sliced its payload by the PPPoE length field beyond the received frame", len(in)), in, fmt.Sprintf("reply=%x", f))
				break
			}
		}
	}
	return o
}

func (l *pppoeLoop) Close() {
	l.cancel()
	if l.dead != nil {
		return
	}
	select {
	case l.in <- nil:
	case <-time.After(time.Second):
	}
}

func (l *pppoeLoop) ScaleInput(n int) []byte {
	if n > 1500 {
		n = 1500
	}
	mac := net.HardwareAddr{0x02, 0xdd, 0, 0, 0, 1}
	var tags []pppoe.Tag
	for sz := 14 + 6; sz+6 <= n; sz += 6 {
		tags = append(tags, pppoe.Tag{Type: pppoe.TagVendorSpecific, Value: []byte{1, 2}})
	}
	return discFrame(mac, pppoe.CodePADI, 0, tags)
}

func pppoeLoopEntry() *entry {
	return &entry{
		name: "pppoe.Server.receiveLoop", states: []string{"sessions-in-every-phase", "session-table-full"}, quick: 24000, thorough: 120000, chunk: 1500, cost: 12, scale: true, scaleIn: []string{"sessions-in-every-phase"},
		quota: func(state string, thorough bool) int {
			if state == "session-table-full" {
				// filling the table costs 65 535 well-formed exchanges per child (15-25 s under the race
				// detector), and every hang found another 10 s watchdog period: thorough tier only
				if thorough {
					return 400
				}
				return 0
			}
			if thorough {
				return 120000
			}
			return 24000
		},
		open: func(state string, ev *env) (runner, error) { return openPPPoELoop(state, ev) },
	}
}

// ---------------------------------------------------------------------------------------------
// stateless PPPoE parsers

func parserEntry(name string, seeds [][]byte, call func(in []byte) (bool, error), scaleFn func(n int) []byte) *entry {
	return &entry{
		name: name, quick: 20000, thorough: 100000, chunk: 10000, cost: 1, scale: scaleFn != nil,
		open: func(state string, ev *env) (runner, error) {
			r := &fnRunner{seeds: seeds, scale: scaleFn, fresh: true}
			r.initSys(name)
			r.feed = func(in []byte) outcome {
				nonEmpty, err := call(exact(in))
				return outcome{class: errClass(err), nontriv: err == nil && nonEmpty}
			}
			return r, nil
		},
	}
}

func pppoeParserEntries() []*entry {
	tags := pppoe.SerializeTags([]pppoe.Tag{{Type: pppoe.TagServiceName, Value: []byte("internet")}, {Type: pppoe.TagHostUniq, Value: []byte{1, 2, 3, 4}}, {Type: pppoe.TagACCookie, Value: bytes.Repeat([]byte{7}, 16)}, {Type: pppoe.TagEndOfList}})
	hdr := func(code uint8, sid uint16, pl []byte) []byte {
		return append((&pppoe.PPPoEHeader{VerType: 0x11, Code: code, SessionID: sid, Length: uint16(len(pl))}).Serialize(), pl...)
	}
	padt := pppoe.SerializePADT(0x1234, pppoe.BuildPADTErrorTags(pppoe.TagGenericErr, "session closed"))
	lopts := opts(pppoe.LCPOption{Type: pppoe.LCPOptMRU, Data: be16(1492)}, pppoe.LCPOption{Type: pppoe.LCPOptMagicNumber, Data: be32(7)}, pppoe.LCPOption{Type: pppoe.LCPOptPFC})
	return []*entry{
		parserEntry("pppoe.ParsePPPoEHeader", [][]byte{hdr(pppoe.CodePADI, 0, tags), hdr(pppoe.CodeSession, 7, []byte{0xc0, 0x21, 1, 1, 0, 4})},
			func(in []byte) (bool, error) { h, err := pppoe.ParsePPPoEHeader(in); return h != nil, err }, nil),
		parserEntry("pppoe.ParseTags", [][]byte{tags, pppoe.SerializeTags([]pppoe.Tag{{Type: pppoe.TagVendorSpecific, Value: bytes.Repeat([]byte{1}, 40)}})},
			func(in []byte) (bool, error) { t, err := pppoe.ParseTags(in); return len(t) > 0, err },
			func(n int) []byte { return repeatTo(nil, []byte{0x01, 0x05, 0, 2, 9, 9}, n) }),
		parserEntry("pppoe.ParseLCPPacket", lcpSamples(),
			func(in []byte) (bool, error) { p, err := pppoe.ParseLCPPacket(in); return p != nil, err }, nil),
		parserEntry("pppoe.ParseLCPOptions", [][]byte{lopts, opts(pppoe.LCPOption{Type: 3, Data: []byte{0xc2, 0x23, 5}}), {}},
			func(in []byte) (bool, error) { o, err := pppoe.ParseLCPOptions(in); return len(o) > 0, err },
			func(n int) []byte { return repeatTo(nil, []byte{7, 2}, n) }),
		parserEntry("pppoe.ParsePADT", [][]byte{padt, pppoe.SerializePADT(1, nil), hdr(pppoe.CodePADT, 9, tags), hdr(pppoe.CodePADI, 0, tags)},
			func(in []byte) (bool, error) { sid, t, err := pppoe.ParsePADT(in); return sid != 0 || len(t) > 0, err },
			func(n int) []byte {
				body := repeatTo(nil, []byte{0x02, 0x03, 0, 2, 'x', 'y'}, n-6)
				return hdr(pppoe.CodePADT, 5, body)
			}),
		parserEntry("pppoe.ParseEchoPacket", [][]byte{be32(7), append(be32(7), []byte("data")...), {1, 2}},
			func(in []byte) (bool, error) {
				m, p, err := pppoe.ParseEchoPacket(in)
				return m != 0 || len(p) > 0, err
			}, nil),
	}
}
