package c09

import (
	"encoding/binary"
	"math/rand/v2"
)

// Generic seeded mutational generator (DESIGN §3-E8): valid samples built by the repo's own
// serialisers, then bit flips, length-field tampering, truncation, duplication, random bytes.

const maxInput = 2048

var interesting8 = []byte{0, 1, 2, 3, 4, 5, 6, 7, 8, 0x10, 0x13, 0x14, 0x7f, 0x80, 0xfe, 0xff}

func interesting16(rng *rand.Rand, n int) uint16 {
	switch rng.IntN(14) {
	case 0:
		return 0
	case 1:
		return 1
	case 2:
		return uint16(rng.IntN(8))
	case 3:
		return uint16(n)
	case 4:
		return uint16(n - 1)
	case 5:
		return uint16(n + 1)
	case 6:
		return 0xffff
	case 7:
		return 0xfffe
	case 8:
		return 0x8000
	case 9:
		return uint16(rng.IntN(n + 16))
	case 10:
		return uint16(n - rng.IntN(24))
	case 11:
		return uint16(n + rng.IntN(24))
	case 12:
		return uint16(19 + rng.IntN(3))
	default:
		return uint16(rng.Uint32())
	}
}

// pos picks an offset biased towards the header (first 8 bytes from `from`).
func pos(rng *rand.Rand, from, n int) int {
	if n <= from {
		return from
	}
	if rng.IntN(2) == 0 {
		w := n - from
		if w > 8 {
			w = 8
		}
		return from + rng.IntN(w)
	}
	return from + rng.IntN(n-from)
}

func randBytes(rng *rand.Rand, n int) []byte {
	b := make([]byte, n)
	for i := range b {
		b[i] = byte(rng.Uint32())
	}
	return b
}

// mutate returns a mutated copy of seed; bytes before `keep` are left alone (frame headers).
func mutate(rng *rand.Rand, seed []byte, keep int, other []byte) []byte {
	b := append([]byte(nil), seed...)
	if keep > len(b) {
		keep = len(b)
	}
	rounds := 1 + rng.IntN(3)
	for r := 0; r < rounds; r++ {
		n := len(b)
		switch rng.IntN(15) {
		case 0: // bit flip
			if n > keep {
				p := pos(rng, keep, n)
				b[p] ^= 1 << rng.IntN(8)
			}
		case 1: // interesting byte
			if n > keep {
				b[pos(rng, keep, n)] = interesting8[rng.IntN(len(interesting8))]
			}
		case 2, 3: // 16-bit big-endian length-like field
			if n >= keep+2 {
				p := pos(rng, keep, n-1)
				binary.BigEndian.PutUint16(b[p:], interesting16(rng, n-p))
			}
		case 4: // 8-bit length-like field relative to the remainder
			if n > keep {
				p := pos(rng, keep, n)
				rem := n - p
				v := []int{0, 1, 2, rem - 1, rem, rem + 1, rem - 2, 255}[rng.IntN(8)]
				b[p] = byte(v)
			}
		case 5: // truncate
			if n > keep {
				b = b[:keep+rng.IntN(n-keep+1)]
			}
		case 6: // truncate near the end
			if n > keep {
				c := 1 + rng.IntN(4)
				if n-c >= keep {
					b = b[:n-c]
				}
			}
		case 7: // extend with random bytes
			b = append(b, randBytes(rng, 1+rng.IntN(32))...)
		case 8: // duplicate a chunk
			if n > keep+1 {
				s := keep + rng.IntN(n-keep)
				e := s + 1 + rng.IntN(n-s)
				chunk := append([]byte(nil), b[s:e]...)
				times := 1 + rng.IntN(4)
				var ins []byte
				for i := 0; i < times; i++ {
					ins = append(ins, chunk...)
				}
				b = append(b[:e:e], append(ins, b[e:]...)...)
			}
		case 9: // insert random bytes
			p := keep
			if n > keep {
				p = keep + rng.IntN(n-keep+1)
			}
			b = append(b[:p:p], append(randBytes(rng, 1+rng.IntN(8)), b[p:]...)...)
		case 10: // delete a chunk
			if n > keep+1 {
				s := keep + rng.IntN(n-keep)
				e := s + 1 + rng.IntN(n-s)
				b = append(b[:s:s], b[e:]...)
			}
		case 11: // overwrite a run with one byte
			if n > keep {
				s := keep + rng.IntN(n-keep)
				e := s + 1 + rng.IntN(n-s)
				v := interesting8[rng.IntN(len(interesting8))]
				for i := s; i < e; i++ {
					b[i] = v
				}
			}
		case 12: // splice with another sample
			if len(other) > keep && n > keep {
				p := keep + rng.IntN(n-keep)
				q := keep + rng.IntN(len(other)-keep)
				b = append(b[:p:p], other[q:]...)
			}
		case 13: // grow towards the 2 KiB bound by repeating the tail
			if n > keep {
				tail := append([]byte(nil), b[keep+rng.IntN(n-keep):]...)
				for len(b)+len(tail) <= maxInput && rng.IntN(6) != 0 {
					b = append(b, tail...)
				}
			}
		case 14: // random payload
			b = append(b[:keep:keep], randBytes(rng, rng.IntN(64))...)
		}
	}
	if len(b) > maxInput {
		b = b[:maxInput]
	}
	return b
}

// systematic enumerates small-scope mutants of one sample: truncation at every byte and
// every interesting value in each of the first 12 bytes after keep (8- and 16-bit).
func systematic(seed []byte, keep int) [][]byte {
	var out [][]byte
	for n := keep; n < len(seed); n++ {
		out = append(out, append([]byte(nil), seed[:n]...))
	}
	lim := len(seed)
	if lim > keep+12 {
		lim = keep + 12
	}
	for p := keep; p < lim; p++ {
		for _, v := range interesting8 {
			m := append([]byte(nil), seed...)
			m[p] = v
			out = append(out, m)
		}
		if p+1 < len(seed) {
			rem := len(seed) - p
			for _, v := range []int{0, 1, 2, 3, 4, 5, rem - 2, rem - 1, rem, rem + 1, rem + 2, 0x7fff, 0x8000, 0xfffe, 0xffff, 19, 20} {
				m := append([]byte(nil), seed...)
				binary.BigEndian.PutUint16(m[p:], uint16(v))
				out = append(out, m)
			}
		}
	}
	return out
}
