package c06

import (
	"bytes"
	"encoding/binary"
	"fmt"
	"hash/fnv"
	"net"
	"os"
	"reflect"
	"regexp"
	"sort"
	"strings"
	"testing"
	"time"

	"github.com/cilium/ebpf"
	"github.com/cilium/ebpf/btf"
	"go.uber.org/zap"

	"github.com/codelaboratoryltd/bng/pkg/antispoof"
	"github.com/codelaboratoryltd/bng/pkg/dhcp"
	bngebpf "github.com/codelaboratoryltd/bng/pkg/ebpf"
	"github.com/codelaboratoryltd/bng/pkg/nat"
	"github.com/codelaboratoryltd/bng/pkg/qos"

	"verif/harness/internal/cplane"
	"verif/harness/internal/vk"
)

var run *vk.Run

func TestMain(m *testing.M) {
	run = vk.Start("C06", "other")
	run.Rule("every (Go type, C declaration) pair used as a map key/value or event record: the Go wire layout (encoding/binary rules, as cilium/ebpf marshals) is compared member by member with the BTF of the compiled working-tree object; sentinel values are written through the real control-plane APIs into kernel maps of the loaded object and located in the raw bytes at the BTF offsets in the byte order the program consumes; derived keys are compared between the Go functions and the key bytes the natively executed program passes to bpf_map_lookup_elem; values laid out as the C side writes them are read back through the Go getters. non-trivial = distinct (map, member) pair or derived-key input judged")
	run.Assume("pkg/walledgarden mirrors structs for which no C program exists under bpf/: nothing to compare against, not claimed; 64-bit FNV-1a collisions cannot be generated")
	run.Extra("explanation", "executed differential layout check: BTF of the compiled object vs reflect/encoding-binary layout of the Go mirror types, sentinel round trips through real kernel maps, and derived-key comparison against the natively executed programs' lookup keys")
	code := m.Run()
	ec := run.Finish()
	if code != 0 && ec == 0 {
		ec = 2
	}
	os.Exit(ec)
}

// ---------------------------------------------------------------- flattening

type leaf struct {
	name string // dotted path, normalised
	off  int
	size int
	pad  bool
}

func norm(s string) string {
	s = strings.ToLower(strings.ReplaceAll(s, "_", ""))
	return s
}

func goLeaves(t reflect.Type, prefix string, off int, out *[]leaf) int {
	switch t.Kind() {
	case reflect.Struct:
		for i := 0; i < t.NumField(); i++ {
			f := t.Field(i)
			name := f.Name
			if name == "_" {
				n := binary.Size(reflect.New(f.Type).Elem().Interface())
				*out = append(*out, leaf{name: prefix + "_", off: off, size: n, pad: true})
				off += n
				continue
			}
			off = goLeaves(f.Type, prefix+norm(name)+".", off, out)
		}
		return off
	case reflect.Array:
		if t.Elem().Kind() == reflect.Uint8 {
			*out = append(*out, leaf{name: strings.TrimSuffix(prefix, "."), off: off, size: t.Len()})
			return off + t.Len()
		}
		for i := 0; i < t.Len(); i++ {
			off = goLeaves(t.Elem(), fmt.Sprintf("%s%d.", prefix, i), off, out)
		}
		return off
	default:
		n := int(t.Size())
		*out = append(*out, leaf{name: strings.TrimSuffix(prefix, "."), off: off, size: n})
		return off + n
	}
}

func btfLeaves(t btf.Type, prefix string, off int, out *[]leaf) {
	t = btf.UnderlyingType(t)
	switch v := t.(type) {
	case *btf.Struct:
		for _, m := range v.Members {
			name := m.Name
			isPad := strings.HasPrefix(name, "_pad") || name == "_" || strings.HasPrefix(name, "pad")
			if isPad {
				sz, _ := btf.Sizeof(m.Type)
				*out = append(*out, leaf{name: prefix + "_", off: off + int(m.Offset.Bytes()), size: sz, pad: true})
				continue
			}
			if name == "" { // anonymous struct/union member: inline
				btfLeaves(m.Type, prefix, off+int(m.Offset.Bytes()), out)
				continue
			}
			btfLeaves(m.Type, prefix+norm(name)+".", off+int(m.Offset.Bytes()), out)
		}
	case *btf.Union:
		sz, _ := btf.Sizeof(v)
		*out = append(*out, leaf{name: strings.TrimSuffix(prefix, "."), off: off, size: sz})
	case *btf.Array:
		esz, _ := btf.Sizeof(v.Type)
		if esz == 1 {
			*out = append(*out, leaf{name: strings.TrimSuffix(prefix, "."), off: off, size: int(v.Nelems)})
			return
		}
		for i := 0; i < int(v.Nelems); i++ {
			btfLeaves(v.Type, fmt.Sprintf("%s%d.", prefix, i), off+i*esz, out)
		}
	default:
		sz, _ := btf.Sizeof(t)
		*out = append(*out, leaf{name: strings.TrimSuffix(prefix, "."), off: off, size: sz})
	}
}

// renames: Go-normalised name -> C-normalised name, for the handful of deliberately different spellings.
var renames = map[string]string{
	"vlanpackets": "vlanpackets", "serverip": "serverip",
}

type pair struct {
	obj    string // program file
	cName  string // map name, or "record:<struct>" for event records
	goKey  any
	goVal  any
	record bool // event record: trailing C padding is tolerated
}

func pairs() []pair {
	type lpm struct {
		Prefixlen uint32
		IP        uint32
	}
	return []pair{
		{"dhcp_fastpath", "subscriber_pools", uint64(0), bngebpf.PoolAssignment{}, false},
		{"dhcp_fastpath", "vlan_subscriber_pools", bngebpf.VLANKey{}, bngebpf.PoolAssignment{}, false},
		{"dhcp_fastpath", "ip_pools", uint32(0), bngebpf.IPPool{}, false},
		{"dhcp_fastpath", "server_config", uint32(0), bngebpf.ServerConfig{}, false},
		{"dhcp_fastpath", "stats_map", uint32(0), bngebpf.DHCPStats{}, false},
		{"dhcp_fastpath", "circuit_id_map", uint64(0), uint64(0), false},
		{"dhcp_fastpath", "circuit_id_subscribers", bngebpf.CircuitIDKey{}, bngebpf.PoolAssignment{}, false},
		{"qos_ratelimit", "qos_egress", uint32(0), qos.TokenBucket{}, false},
		{"qos_ratelimit", "qos_ingress", uint32(0), qos.TokenBucket{}, false},
		{"qos_ratelimit", "qos_stats_map", uint32(0), qos.QoSStats{}, false},
		{"antispoof", "subscriber_bindings", uint64(0), antispoof.SubscriberBinding{}, false},
		{"antispoof", "antispoof_config", uint32(0), antispoof.Config{}, false},
		{"antispoof", "antispoof_stats", uint32(0), antispoof.Stats{}, false},
		{"antispoof", "allowed_ranges_v4", lpm{}, uint8(0), false},
		{"antispoof", "record:spoof_event", nil, antispoof.SpoofEvent{}, true},
		{"nat44", "subscriber_nat", uint32(0), nat.SubscriberNAT{}, false},
		{"nat44", "nat_config_map", uint32(0), nat.NATConfig{}, false},
		{"nat44", "nat_stats_map", uint32(0), nat.NATStats{}, false},
		{"nat44", "eim_table", nat.EIMKey{}, nat.EIMMapping{}, false},
		{"nat44", "nat_sessions", nil, nat.NATSession{}, false},
		{"nat44", "alg_ports", nil, nat.ALGConfig{}, false},
		{"nat44", "hairpin_ips", uint32(0), nil, false},
		{"nat44", "record:nat_log_entry", nil, nat.BPFLogEntry{}, true},
	}
}

func findStruct(spec *ebpf.CollectionSpec, name string) btf.Type {
	var out btf.Type
	if spec.Types == nil {
		return nil
	}
	var st *btf.Struct
	if err := spec.Types.TypeByName(name, &st); err == nil {
		out = st
	}
	return out
}

func compare(component string, side string, goT reflect.Type, cT btf.Type, record bool, mapSize int) {
	var gl, cl []leaf
	goSize := goLeaves(goT, "", 0, &gl)
	btfLeaves(cT, "", 0, &cl)
	cSize, _ := btf.Sizeof(cT)
	run.Eval()
	run.Count("type_pairs_compared", 1)
	wit := func() any {
		f := func(ls []leaf) []string {
			var o []string
			for _, l := range ls {
				o = append(o, fmt.Sprintf("%s@%d+%d", l.name, l.off, l.size))
			}
			return o
		}
		return map[string]any{"go_type": goT.String(), "go_wire_layout": f(gl), "go_wire_size": goSize, "c_layout_from_btf": f(cl), "c_size": cSize}
	}
	if mapSize > 0 && goSize != mapSize {
		run.Violation(component, side+"-size", "go-wire-size-differs-from-map-"+side+"-size", fmt.Sprintf("%s: Go %s marshals to %d bytes, the map's %s size is %d (every Put/Lookup with this type fails)", component, goT, goSize, side, mapSize), wit())
	} else if !record && goSize != cSize {
		run.Violation(component, side+"-size", "go-wire-size-differs-from-c-struct", fmt.Sprintf("%s: Go %s marshals to %d bytes, C struct is %d", component, goT, goSize, cSize), wit())
	} else if record && goSize > cSize {
		run.Violation(component, side+"-size", "go-record-longer-than-c-record", fmt.Sprintf("%s: Go %s reads %d bytes, C record is %d", component, goT, goSize, cSize), wit())
	}
	if goT.Kind() != reflect.Struct {
		// scalar / byte-array key or value (e.g. CircuitIDKey [32]byte vs struct {data[32]}): size is the whole contract
		return
	}
	cm := map[string]leaf{}
	for _, l := range cl {
		if !l.pad {
			cm[l.name] = l
		}
	}
	seen := map[string]bool{}
	for _, g := range gl {
		if g.pad {
			continue
		}
		name := g.name
		if r, ok := renames[name]; ok {
			name = r
		}
		c, ok := cm[name]
		run.Nontrivial(component + "|" + side + "|" + g.name)
		run.Count("members_compared", 1)
		if !ok {
			run.Violation(component, side+"-members", "go-field-without-c-member:"+g.name, fmt.Sprintf("%s: Go field %s has no C member of that name", component, g.name), wit())
			continue
		}
		seen[name] = true
		if c.off != g.off {
			run.Violation(component, side+"-members", "field-offset-mismatch:"+g.name, fmt.Sprintf("%s: field %s is written by Go at offset %d, read by C at offset %d", component, g.name, g.off, c.off), wit())
		} else if c.size != g.size {
			run.Violation(component, side+"-members", "field-width-mismatch:"+g.name, fmt.Sprintf("%s: field %s is %d bytes in Go, %d bytes in C", component, g.name, g.size, c.size), wit())
		}
	}
	for n := range cm {
		if !seen[n] {
			run.Violation(component, side+"-members", "c-member-without-go-field:"+n, fmt.Sprintf("%s: C member %s has no Go field", component, n), wit())
		}
	}
}

// compareRecord judges an event record (perf/ringbuf) whose C struct is not part of the object's BTF:
// offsets and sizes come from the natively compiled translation unit (offsetof/sizeof).
func compareRecord(t *testing.T, obj, st string, goT reflect.Type) {
	r, err := cplane.Start(obj, "")
	if err != nil {
		t.Fatal(err)
	}
	defer r.Close()
	lay, err := r.Layout()
	if err != nil {
		t.Fatal(err)
	}
	cm := map[string]cplane.Member{}
	csize := -1
	for _, m := range lay {
		if m.Struct != st {
			continue
		}
		if m.Member == "" {
			csize = m.Size
		} else if !strings.HasPrefix(m.Member, "_pad") {
			cm[norm(m.Member)] = m
		}
	}
	component := obj + "/record:" + st
	if csize < 0 {
		run.Inconclusive(component, "C record struct not found in the native layout table")
		return
	}
	var gl []leaf
	gsize := goLeaves(goT, "", 0, &gl)
	run.Eval()
	run.Count("type_pairs_compared", 1)
	wit := map[string]any{"go_type": goT.String(), "go_size": gsize, "c_size": csize, "c_members": fmt.Sprint(cm)}
	if gsize > csize {
		run.Violation(component, "value-size", "go-record-longer-than-c-record", fmt.Sprintf("Go %s reads %d bytes, the C record is %d", goT, gsize, csize), wit)
	}
	seen := map[string]bool{}
	for _, g := range gl {
		if g.pad {
			continue
		}
		run.Nontrivial(component + "|" + g.name)
		run.Count("members_compared", 1)
		c, ok := cm[g.name]
		if !ok {
			run.Violation(component, "value-members", "go-field-without-c-member:"+g.name, fmt.Sprintf("%s: Go field %s has no C member", component, g.name), wit)
			continue
		}
		seen[g.name] = true
		if c.Off != g.off {
			run.Violation(component, "value-members", "field-offset-mismatch:"+g.name, fmt.Sprintf("%s: field %s decoded by Go at offset %d, written by C at offset %d", component, g.name, g.off, c.Off), wit)
		} else if c.Size != g.size {
			run.Violation(component, "value-members", "field-width-mismatch:"+g.name, fmt.Sprintf("%s: field %s is %d bytes in Go, %d in C", component, g.name, g.size, c.Size), wit)
		}
	}
	for n := range cm {
		if !seen[n] {
			run.Violation(component, "value-members", "c-member-without-go-field:"+n, fmt.Sprintf("%s: C member %s has no Go field", component, n), wit)
		}
	}
}

var specs = map[string]*ebpf.CollectionSpec{}

func spec(t *testing.T, obj string) *ebpf.CollectionSpec {
	if s, ok := specs[obj]; ok {
		return s
	}
	s, err := ebpf.LoadCollectionSpec(cplane.OutDir() + "/bpf/" + obj + ".o")
	if err != nil {
		t.Fatalf("spec %s: %v", obj, err)
	}
	specs[obj] = s
	return s
}

func TestStaticLayout(t *testing.T) {
	covered := map[string]bool{}
	for _, p := range pairs() {
		sp := spec(t, p.obj)
		if strings.HasPrefix(p.cName, "record:") {
			compareRecord(t, p.obj, strings.TrimPrefix(p.cName, "record:"), reflect.TypeOf(p.goVal))
			continue
		}
		ms := sp.Maps[p.cName]
		covered[p.cName] = true
		if ms == nil {
			run.Violation(p.obj+"/"+p.cName, "map-exists", "map-missing-in-object", "the Go control plane uses map "+p.cName+" which the object does not declare", nil)
			continue
		}
		run.Distinct("maps", p.obj+"/"+p.cName)
		if p.goKey != nil && ms.Key != nil {
			compare(p.obj+"/"+p.cName, "key", reflect.TypeOf(p.goKey), ms.Key, false, int(ms.KeySize))
		}
		if p.goVal != nil && ms.Value != nil {
			compare(p.obj+"/"+p.cName, "value", reflect.TypeOf(p.goVal), ms.Value, false, int(ms.ValueSize))
		}
	}
	// every map the Go control plane fetches from a collection must be covered by the table above
	repo := os.Getenv("VERIF_REPO")
	if repo == "" {
		repo = "/repo"
	}
	re := regexp.MustCompile(`Maps\["([a-z0-9_]+)"\]`)
	for _, dir := range []string{"pkg/ebpf", "pkg/nat", "pkg/qos", "pkg/antispoof"} {
		ents, _ := os.ReadDir(repo + "/" + dir)
		for _, e := range ents {
			if !strings.HasSuffix(e.Name(), ".go") || strings.HasSuffix(e.Name(), "_test.go") || strings.HasPrefix(e.Name(), "verif_") {
				continue
			}
			b, _ := os.ReadFile(repo + "/" + dir + "/" + e.Name())
			for _, m := range re.FindAllStringSubmatch(string(b), -1) {
				run.Distinct("maps_used_by_go", m[1])
				if !covered[m[1]] && m[1] != "nat_reverse" && m[1] != "nat_pool" && m[1] != "nat_log_rb" && m[1] != "spoof_events" {
					run.Inconclusive("coverage", "Go uses map "+m[1]+" which the layout table does not cover")
				}
			}
		}
	}
}

// ---------------------------------------------------------------- dynamic: sentinels through the real control plane into kernel maps

func rawValue(m *ebpf.Map, key any) ([]byte, error) {
	v := make([]byte, m.ValueSize())
	err := m.Lookup(key, &v)
	return v, err
}

func cOffset(t btf.Type, member string) (int, int, bool) {
	var ls []leaf
	btfLeaves(t, "", 0, &ls)
	for _, l := range ls {
		if l.name == norm(member) || strings.HasSuffix(l.name, "."+norm(member)) {
			return l.off, l.size, true
		}
	}
	return 0, 0, false
}

func expectAt(component, rule string, raw []byte, t btf.Type, member string, want []byte, what string, witness any) {
	off, size, ok := cOffset(t, member)
	run.Eval()
	run.Nontrivial(component + "|sentinel|" + member)
	run.Count("sentinels_checked", 1)
	if !ok {
		run.Violation(component, rule, "c-member-missing:"+member, fmt.Sprintf("%s: C declaration has no member %s", component, member), witness)
		return
	}
	if off+size > len(raw) || size != len(want) {
		run.Violation(component, rule, "sentinel-width:"+member, fmt.Sprintf("%s: member %s is %d bytes at offset %d of a %d-byte value, sentinel is %d bytes", component, member, size, off, len(raw), len(want)), witness)
		return
	}
	if !bytes.Equal(raw[off:off+size], want) {
		class := "sentinel-not-at-c-offset:" + member
		rev := append([]byte(nil), want...)
		for i, j := 0, len(rev)-1; i < j; i, j = i+1, j-1 {
			rev[i], rev[j] = rev[j], rev[i]
		}
		if bytes.Equal(raw[off:off+size], rev) {
			class = "byte-order-reversed:" + member
		}
		run.Violation(component, rule, class, fmt.Sprintf("%s: member %s (%s): the program reads bytes %x at offset %d, the control plane wrote %x there", component, member, what, want, off, raw[off:off+size]), witness)
	}
}

func le(v any) []byte {
	b := new(bytes.Buffer)
	binary.Write(b, binary.LittleEndian, v)
	return b.Bytes()
}

func TestSentinelsThroughControlPlane(t *testing.T) {
	// ---- dhcp fast path: Loader + PoolManager-style writes
	k, err := cplane.LoadKernel("dhcp_fastpath")
	if err != nil {
		run.Violation("bpf/dhcp_fastpath.c", "program-loads", "verifier-or-load-error", err.Error(), nil)
	} else {
		defer k.Close()
		ld, _ := bngebpf.NewLoader("lo", zap.NewNop())
		ld.VerifSetMaps(k.Coll.Maps)
		ip := net.IPv4(10, 20, 30, 40)
		mac := net.HardwareAddr{0x02, 0x11, 0x22, 0x33, 0x44, 0x55}
		pa := &bngebpf.PoolAssignment{PoolID: 0x11223344, AllocatedIP: bngebpf.IPToMapUint32(ip), VlanID: 0x0a0b0c0d, ClientClass: 0x5a, LeaseExpiry: 0x0102030405060708, Flags: 0x7e}
		w := map[string]any{"api": "Loader.AddSubscriber(MACToUint64(mac), &PoolAssignment{AllocatedIP: IPToMapUint32(10.20.30.40), …}) as dhcp.Server does on every ACK"}
		if err := ld.AddSubscriber(bngebpf.MACToUint64(mac), pa); err != nil {
			run.Violation("ebpf.Loader.AddSubscriber", "put-succeeds", "put-failed", err.Error(), w)
		} else {
			key := bngebpf.MACToUint64(mac)
			raw, err := rawValue(k.Coll.Maps["subscriber_pools"], &key)
			if err != nil {
				t.Fatal(err)
			}
			vt := k.Spec.Maps["subscriber_pools"].Value
			expectAt("ebpf.Loader.AddSubscriber", "value-bytes", raw, vt, "pool_id", le(uint32(0x11223344)), "host order", w)
			expectAt("ebpf.Loader.AddSubscriber", "value-bytes", raw, vt, "allocated_ip", []byte(ip.To4()), "copied to yiaddr, i.e. network order", w)
			expectAt("ebpf.Loader.AddSubscriber", "value-bytes", raw, vt, "client_class", []byte{0x5a}, "", w)
			expectAt("ebpf.Loader.AddSubscriber", "value-bytes", raw, vt, "lease_expiry", le(uint64(0x0102030405060708)), "host order", w)
			expectAt("ebpf.Loader.AddSubscriber", "value-bytes", raw, vt, "flags", []byte{0x7e}, "", w)
			expectAt("ebpf.Loader.AddSubscriber", "value-bytes", raw, vt, "vlan_id", le(uint32(0x0a0b0c0d)), "host order", w)
		}
		// the pool entry is written by the real dhcp.PoolManager.AddPool through the loader
		w2 := map[string]any{"api": "dhcp.NewPoolManager(loader).AddPool(dhcp.NewPool{ID:7, Network:10.20.0.0/16, Gateway:10.20.0.1, DNS:[8.8.4.4 4.3.2.1], LeaseTime:86400s})"}
		dp, perr := dhcp.NewPool(dhcp.PoolConfig{ID: 7, Name: "p", Network: "10.20.0.0/16", Gateway: "10.20.0.1", DNSServers: []string{"8.8.4.4", "4.3.2.1"}, LeaseTime: 86400 * time.Second})
		if perr != nil {
			t.Fatal(perr)
		}
		if err := dhcp.NewPoolManager(ld, nil).AddPool(dp); err != nil {
			run.Violation("ebpf.Loader.AddPool", "put-succeeds", "put-failed", err.Error(), w2)
		} else {
			key := uint32(7)
			raw, _ := rawValue(k.Coll.Maps["ip_pools"], &key)
			vt := k.Spec.Maps["ip_pools"].Value
			expectAt("ebpf.Loader.AddPool", "value-bytes", raw, vt, "gateway", []byte{10, 20, 0, 1}, "copied to option 3, network order", w2)
			expectAt("ebpf.Loader.AddPool", "value-bytes", raw, vt, "dns_primary", []byte{8, 8, 4, 4}, "copied to option 6, network order", w2)
			expectAt("ebpf.Loader.AddPool", "value-bytes", raw, vt, "dns_secondary", []byte{4, 3, 2, 1}, "copied to option 6, network order", w2)
			expectAt("ebpf.Loader.AddPool", "value-bytes", raw, vt, "prefix_len", []byte{16}, "", w2)
			expectAt("ebpf.Loader.AddPool", "value-bytes", raw, vt, "lease_time", le(uint32(0x00015180)), "host order (program applies htonl)", w2)
		}
		w3 := map[string]any{"api": "Loader.SetServerConfig(mac, 10.20.0.1, 3)"}
		if err := ld.SetServerConfig(mac, net.IPv4(10, 20, 0, 1), 3); err != nil {
			run.Violation("ebpf.Loader.SetServerConfig", "put-succeeds", "put-failed", err.Error(), w3)
		} else {
			key := uint32(0)
			raw, _ := rawValue(k.Coll.Maps["server_config"], &key)
			vt := k.Spec.Maps["server_config"].Value
			expectAt("ebpf.Loader.SetServerConfig", "value-bytes", raw, vt, "server_mac", []byte(mac), "", w3)
			expectAt("ebpf.Loader.SetServerConfig", "value-bytes", raw, vt, "server_ip", []byte{10, 20, 0, 1}, "copied to option 54 / ip saddr, network order", w3)
		}
		// read-back direction: values laid out as the C side writes them, read through the Go getter
		st := k.Coll.Maps["stats_map"]
		sraw := make([]byte, st.ValueSize())
		names := []string{"total_requests", "fastpath_hits", "fastpath_misses", "errors", "cache_expired", "option82_present", "option82_absent", "broadcast_replies", "unicast_replies", "vlan_packets"}
		for i, n := range names {
			off, _, ok := cOffset(k.Spec.Maps["stats_map"].Value, n)
			if ok {
				binary.LittleEndian.PutUint64(sraw[off:], uint64(1000+i))
			}
		}
		zero := uint32(0)
		if err := st.Put(&zero, &sraw); err == nil {
			got, err := ld.GetStats()
			run.Eval()
			if err != nil {
				run.Violation("ebpf.Loader.GetStats", "read-back", "getter-fails", err.Error(), nil)
			} else {
				gv := reflect.ValueOf(*got)
				for i, n := range names {
					f := gv.FieldByNameFunc(func(s string) bool { return norm(s) == norm(n) })
					run.Nontrivial("readback|dhcp_stats|" + n)
					if !f.IsValid() || f.Uint() != uint64(1000+i) {
						run.Violation("ebpf.Loader.GetStats", "read-back", "field-decoded-wrong:"+n, fmt.Sprintf("C member %s=%d is decoded by Go as %v", n, 1000+i, f), fmt.Sprintf("%+v", *got))
					}
				}
			}
		}
	}

	// ---- qos
	kq, err := cplane.LoadKernel("qos_ratelimit")
	if err == nil {
		defer kq.Close()
		mgr, _ := qos.NewManager(qos.ManagerConfig{Interface: "lo"}, nil, zap.NewNop())
		mgr.VerifSetMaps(kq.Coll.Maps["qos_egress"], kq.Coll.Maps["qos_ingress"], kq.Coll.Maps["qos_stats_map"])
		ip := net.IPv4(10, 20, 30, 40)
		w := map[string]any{"api": "qos.Manager.SetSubscriberQoS{IP:10.20.30.40, DownloadBPS:0x1122334455, UploadBPS:0x66778899aa, BurstBytes:0x00abcdef, Priority:5}"}
		if err := mgr.SetSubscriberQoS(&qos.SubscriberQoS{IP: ip, DownloadBPS: 0x1122334455, UploadBPS: 0x66778899aa, BurstBytes: 0x00abcdef, Priority: 5}); err != nil {
			run.Violation("qos.Manager.SetSubscriberQoS", "put-succeeds", "put-failed", err.Error(), w)
		} else {
			for _, mn := range []string{"qos_egress", "qos_ingress"} {
				m := kq.Coll.Maps[mn]
				key := []byte(ip.To4()) // what the program looks up: ip->daddr / ip->saddr as they sit in memory
				raw := make([]byte, m.ValueSize())
				run.Eval()
				run.Nontrivial("key|" + mn)
				if err := m.Lookup(&key, &raw); err != nil {
					run.Violation("qos.Manager.SetSubscriberQoS", "key-bytes", "byte-order-reversed:key", fmt.Sprintf("%s has no entry under the key bytes %x the program derives from the packet for 10.20.30.40", mn, key), w)
					continue
				}
				vt := kq.Spec.Maps[mn].Value
				rate := uint64(0x1122334455)
				if mn == "qos_ingress" {
					rate = 0x66778899aa
				}
				expectAt("qos.Manager.SetSubscriberQoS/"+mn, "value-bytes", raw, vt, "rate_bps", le(rate), "host order", w)
				expectAt("qos.Manager.SetSubscriberQoS/"+mn, "value-bytes", raw, vt, "burst_bytes", le(uint32(0x00abcdef)), "host order", w)
				expectAt("qos.Manager.SetSubscriberQoS/"+mn, "value-bytes", raw, vt, "tokens", le(uint64(0x00abcdef)), "starts full", w)
				if mn == "qos_egress" {
					expectAt("qos.Manager.SetSubscriberQoS/"+mn, "value-bytes", raw, vt, "priority", []byte{5}, "", w)
				}
			}
		}
		run.Eval()
		if _, err := mgr.GetStats(); err != nil {
			run.Violation("qos.Manager.GetStats", "read-back", "getter-fails", "GetStats on the object's qos_stats_map: "+err.Error(), nil)
		}
	} else {
		run.Violation("bpf/qos_ratelimit.c", "program-loads", "verifier-or-load-error", err.Error(), nil)
	}

	// ---- antispoof
	ka, err := cplane.LoadKernel("antispoof")
	if err == nil {
		defer ka.Close()
		mgr, _ := antispoof.NewManager(antispoof.ManagerConfig{Interface: "lo"}, zap.NewNop())
		mgr.VerifSetMaps(ka.Coll.Maps["subscriber_bindings"], ka.Coll.Maps["antispoof_config"], ka.Coll.Maps["antispoof_stats"], ka.Coll.Maps["allowed_ranges_v4"])
		mac := net.HardwareAddr{0x02, 0x11, 0x22, 0x33, 0x44, 0x55}
		ip6 := net.ParseIP("2001:db8:1:2:3:4:5:6")
		w := map[string]any{"api": "antispoof.Manager.AddBinding(mac,10.20.30.40); AddBindingV6(mac, 2001:db8:1:2:3:4:5:6)"}
		e1 := mgr.AddBinding(mac, net.IPv4(10, 20, 30, 40))
		e2 := mgr.AddBindingV6(mac, ip6)
		if e1 != nil || e2 != nil {
			run.Violation("antispoof.Manager.AddBinding", "put-succeeds", "put-failed", fmt.Sprint(e1, e2), w)
		} else {
			// the key the program derives: mac_to_u64(eth->h_source), a host-order integer
			var kk uint64
			for _, b := range mac {
				kk = kk<<8 | uint64(b)
			}
			raw, err := rawValue(ka.Coll.Maps["subscriber_bindings"], &kk)
			run.Eval()
			if err != nil {
				run.Violation("antispoof.Manager.AddBinding", "key-bytes", "mac-key-differs", "no entry under the program's mac_to_u64 key", w)
			} else {
				vt := ka.Spec.Maps["subscriber_bindings"].Value
				expectAt("antispoof.Manager.AddBinding", "value-bytes", raw, vt, "ipv4_addr", []byte{10, 20, 30, 40}, "compared with ip->saddr, network order", w)
				expectAt("antispoof.Manager.AddBinding", "value-bytes", raw, vt, "ipv6_addr", []byte(ip6.To16()), "", w)
				expectAt("antispoof.Manager.AddBinding", "value-bytes", raw, vt, "ipv4_valid", []byte{1}, "", w)
				expectAt("antispoof.Manager.AddBinding", "value-bytes", raw, vt, "ipv6_valid", []byte{1}, "", w)
			}
		}
		// allowed ranges: the LPM key the program builds is {prefixlen (host order), ip->saddr (network order)}; the
		// control plane must write the network address under exactly those bytes, for every prefix length
		for _, cidr := range []string{"172.16.0.0/12", "100.64.0.0/10", "10.1.2.3/32", "192.168.0.0/17", "10.20.0.0/16", "203.0.113.64/27", "128.0.0.0/1", "10.200.77.0/23"} {
			_, n, _ := net.ParseCIDR(cidr)
			wr := map[string]any{"api": "antispoof.Manager.AddAllowedRange(" + cidr + ")"}
			if err := mgr.AddAllowedRange(n); err != nil {
				run.Violation("antispoof.Manager.AddAllowedRange", "put-succeeds", "put-failed", err.Error(), wr)
				continue
			}
			ones, _ := n.Mask.Size()
			want := append(le(uint32(ones)), []byte(n.IP.To4())...)
			var val []byte
			run.Eval()
			run.Count("allowed_range_keys_compared", 1)
			run.Nontrivial("lpmkey|" + cidr)
			if err := ka.Coll.Maps["allowed_ranges_v4"].Lookup(want, &val); err != nil {
				var have []string
				kb := make([]byte, 8)
				vb := make([]byte, ka.Coll.Maps["allowed_ranges_v4"].ValueSize())
				it := ka.Coll.Maps["allowed_ranges_v4"].Iterate()
				for it.Next(&kb, &vb) {
					have = append(have, fmt.Sprintf("%x", kb))
				}
				cls := "prefix-length-multiple-of-8"
				if ones%8 != 0 {
					cls = "prefix-length-not-multiple-of-8"
				}
				run.Violation("antispoof.Manager.AddAllowedRange", "key-bytes", "lpm-key-differs/"+cls, fmt.Sprintf("%s: no entry under the key the program's trie lookup matches (%x = prefixlen %d + network address in wire order); the map holds %v", cidr, want, ones, have), wr)
			}
		}
		run.Eval()
		if _, err := mgr.GetStats(); err != nil {
			run.Violation("antispoof.Manager.GetStats", "read-back", "getter-fails", "GetStats on the object's antispoof_stats: "+err.Error(), nil)
		}
	} else {
		run.Violation("bpf/antispoof.c", "program-loads", "verifier-or-load-error", err.Error(), nil)
	}

	// ---- nat
	kn, err := cplane.LoadKernel("nat44")
	if err == nil {
		defer kn.Close()
		mgr, err := nat.NewManager(nat.ManagerConfig{Interface: "lo", PortsPerSubscriber: 1024, PortRangeStart: 1024, PortRangeEnd: 65535}, zap.NewNop())
		if err != nil {
			t.Fatal(err)
		}
		mgr.VerifSetMaps(kn.Coll.Maps)
		w := map[string]any{"api": "nat.Manager.AddPublicIP(203.0.113.9); AllocateNAT(10.20.30.40)"}
		if err := mgr.AddPublicIP(net.IPv4(203, 0, 113, 9)); err != nil {
			run.Violation("nat.Manager.AddPublicIP", "put-succeeds", "put-failed", err.Error(), w)
		}
		if _, err := mgr.AllocateNAT(net.IPv4(10, 20, 30, 40)); err != nil {
			run.Eval()
			run.Violation("nat.Manager.AllocateNAT", "put-succeeds", "put-failed", err.Error(), w)
		} else {
			m := kn.Coll.Maps["subscriber_nat"]
			key := []byte{10, 20, 30, 40} // the program looks up ip->saddr as it sits in memory
			raw := make([]byte, m.ValueSize())
			run.Eval()
			run.Nontrivial("key|subscriber_nat")
			if err := m.Lookup(&key, &raw); err != nil {
				run.Violation("nat.Manager.AllocateNAT", "key-bytes", "byte-order-reversed:key", fmt.Sprintf("subscriber_nat has no entry under the key bytes %x the program derives from the packet for 10.20.30.40", key), w)
				// decoupling: find the entry under whatever key was written
				it := m.Iterate()
				k2 := make([]byte, 4)
				for it.Next(&k2, &raw) {
					break
				}
			}
			vt := kn.Spec.Maps["subscriber_nat"].Value
			expectAt("nat.Manager.AllocateNAT", "value-bytes", raw, vt, "public_ip", []byte{203, 0, 113, 9}, "written to ip->saddr, network order", w)
			expectAt("nat.Manager.AllocateNAT", "value-bytes", raw, vt, "port_start", le(uint16(1024)), "host order", w)
			expectAt("nat.Manager.AllocateNAT", "value-bytes", raw, vt, "port_end", le(uint16(2047)), "host order", w)
			expectAt("nat.Manager.AllocateNAT", "value-bytes", raw, vt, "next_port", le(uint32(1024)), "host order", w)
		}
		run.Eval()
		if _, err := mgr.GetStats(); err != nil {
			run.Violation("nat.Manager.GetStats", "read-back", "getter-fails", "GetStats on the object's nat_stats_map: "+err.Error(), nil)
		}
	} else {
		run.Violation("bpf/nat44.c", "program-loads", "verifier-or-load-error", err.Error(), nil)
	}
}

// ---------------------------------------------------------------- derived keys against the executed programs

func dhcpDiscover(chaddr []byte, hlen int, vlans [][2]uint16, opt82cid []byte) []byte {
	return dhcpDiscoverOpts(chaddr, hlen, vlans, opt82cid, nil, nil)
}

// dhcpDiscoverOpts: pre = options placed between the message type and Option 82 (moves Option 82 to another
// of the offsets the program inspects); subAfter = further Option 82 sub-options following the circuit-id
// (remote-id etc., as real relays send them).
func dhcpDiscoverOpts(chaddr []byte, hlen int, vlans [][2]uint16, opt82cid, pre, subAfter []byte) []byte {
	bootp := make([]byte, 240)
	bootp[0] = 1
	bootp[1] = 1
	bootp[2] = byte(hlen)
	binary.BigEndian.PutUint32(bootp[4:], 0x12345678)
	copy(bootp[28:44], chaddr)
	binary.BigEndian.PutUint32(bootp[236:], 0x63825363)
	opts := []byte{53, 1, 1}
	opts = append(opts, pre...)
	if opt82cid != nil {
		sub := append([]byte{1, byte(len(opt82cid))}, opt82cid...)
		sub = append(sub, subAfter...)
		opts = append(opts, 82, byte(len(sub)))
		opts = append(opts, sub...)
	}
	opts = append(opts, 255)
	for len(opts) < 64 {
		opts = append(opts, 0)
	}
	payload := append(bootp, opts...)
	src := net.HardwareAddr(chaddr[:6])
	return cplane.Eth(net.HardwareAddr{0xff, 0xff, 0xff, 0xff, 0xff, 0xff}, src, 0x0800, vlans, cplane.IPv4(net.IPv4zero, net.IPv4bcast, 17, 5, cplane.UDP(68, 67, payload)))
}

func TestDerivedKeys(t *testing.T) {
	nat_, err := cplane.Start("dhcp_fastpath", os.Getenv("VERIF_BUILD")+"/C06.journal")
	if err != nil {
		t.Fatal(err)
	}
	defer nat_.Close()
	n := run.Pick(2500, 20000)
	rng := run.Rand("keys")
	lookups := func(res *cplane.Result, m string) [][]byte {
		var o [][]byte
		for _, a := range res.Log {
			if a.Map == m && a.Op == 'l' {
				o = append(o, a.Key)
			}
		}
		return o
	}
	for i := 0; i < n; i++ {
		// --- MAC -> u64, hardware address lengths 6..16 as the DHCP library hands them to the server
		hlen := 6
		if i%3 == 0 {
			hlen = 6 + rng.IntN(11)
		}
		ch := make([]byte, 16)
		for j := range ch {
			ch[j] = byte(rng.IntN(256))
		}
		frame := dhcpDiscover(ch, hlen, nil, nil)
		res, err := nat_.Run("dhcp_fastpath_prog", frame, cplane.RunOpt{})
		if err != nil {
			run.Violation("bpf/dhcp_fastpath.c", "memory-safety", "sanitizer-or-guard-fault", err.Error(), fmt.Sprintf("%x", frame))
			return
		}
		run.Eval()
		ks := lookups(res, "subscriber_pools")
		if len(ks) > 0 {
			goKey := le(bngebpf.MACToUint64(net.HardwareAddr(ch[:hlen])))
			run.Nontrivial(fmt.Sprintf("mackey|%d|%x", hlen, ch[:hlen]))
			run.Count("mac_keys_compared", 1)
			if !bytes.Equal(ks[0], goKey) {
				run.Violation("ebpf.MACToUint64", "derived-key-mac", fmt.Sprintf("hlen-%s", hl(hlen)), fmt.Sprintf("client hardware address %x (hlen %d): program looks up key %x, MACToUint64 gives %x", ch[:hlen], hlen, ks[0], goKey), fmt.Sprintf("%x", frame))
			}
		}
		// --- VLAN pair
		st, ct := uint16(1+rng.IntN(4094)), uint16(1+rng.IntN(4094))
		pcp := uint16(rng.IntN(8)) << 13
		outer := []uint16{0x88a8, 0x8100}[rng.IntN(2)]
		frame = dhcpDiscover(ch, 6, [][2]uint16{{outer, st | pcp}, {0x8100, ct | pcp}}, nil)
		res, err = nat_.Run("dhcp_fastpath_prog", frame, cplane.RunOpt{})
		if err != nil {
			run.Violation("bpf/dhcp_fastpath.c", "memory-safety", "sanitizer-or-guard-fault", err.Error(), fmt.Sprintf("%x", frame))
			return
		}
		if ks := lookups(res, "vlan_subscriber_pools"); len(ks) > 0 {
			goKey := le(bngebpf.VLANKey{STag: st, CTag: ct})
			run.Nontrivial(fmt.Sprintf("vlankey|%d|%d", st, ct))
			run.Count("vlan_keys_compared", 1)
			if !bytes.Equal(ks[0], goKey) {
				run.Violation("ebpf.VLANKey", "derived-key-vlan", "vlan-pair-key-differs", fmt.Sprintf("S-tag %d C-tag %d (pcp bits set): program looks up %x, Go key is %x", st, ct, ks[0], goKey), fmt.Sprintf("%x", frame))
			}
		}
		// --- circuit-id fixed key
		cl := 1 + rng.IntN(40)
		cid := make([]byte, cl)
		for j := range cid {
			cid[j] = byte(rng.IntN(256))
		}
		if i%5 == 0 {
			cid[rng.IntN(cl)] = 0
		}
		// Option 82 at each offset the program inspects (3, or 12..19 behind a client-id option), alone or
		// followed by further sub-options (remote-id, …) as relays send them
		var pre, subAfter []byte
		pos := 3
		if i%2 == 1 {
			pos = 12 + rng.IntN(8)
			pre = append([]byte{61, byte(pos - 5)}, make([]byte, pos-5)...)
			for j := 2; j < len(pre); j++ {
				pre[j] = byte(1 + rng.IntN(255))
			}
		}
		if rng.IntN(2) == 0 {
			for k := 1 + rng.IntN(2); k > 0; k-- {
				l := 1 + rng.IntN(10)
				so := []byte{[]byte{2, 9, 5, 6}[rng.IntN(4)], byte(l)}
				for j := 0; j < l; j++ {
					so = append(so, byte(1+rng.IntN(255)))
				}
				subAfter = append(subAfter, so...)
			}
		}
		frame = dhcpDiscoverOpts(ch, 6, nil, cid, pre, subAfter)
		run.Count(fmt.Sprintf("circuit_id_opt82_at_offset_%d", pos), 1)
		if len(subAfter) > 0 {
			run.Count("circuit_id_with_following_suboptions", 1)
		}
		res, err = nat_.Run("dhcp_fastpath_prog", frame, cplane.RunOpt{})
		if err != nil {
			run.Violation("bpf/dhcp_fastpath.c", "memory-safety", "sanitizer-or-guard-fault", err.Error(), fmt.Sprintf("%x", frame))
			return
		}
		if ks := lookups(res, "circuit_id_subscribers"); len(ks) > 0 {
			gk := bngebpf.MakeCircuitIDKey(cid)
			run.Nontrivial(fmt.Sprintf("cidkey|%x", cid))
			run.Count("circuit_id_keys_compared", 1)
			run.Count(fmt.Sprintf("circuit_id_keys_compared_offset_%d", pos), 1)
			if !bytes.Equal(ks[0], gk[:]) {
				cls := "short-id"
				if cl > 32 {
					cls = "id-longer-than-32"
				}
				if pos != 3 {
					cls += "_option82-behind-other-options"
				}
				if len(subAfter) > 0 {
					cls += "_followed-by-suboptions"
				}
				run.Violation("ebpf.MakeCircuitIDKey", "derived-key-circuit-id", cls, fmt.Sprintf("circuit-id %x (len %d): program looks up %x, MakeCircuitIDKey gives %x", cid, cl, ks[0], gk[:]), fmt.Sprintf("%x", frame))
			}
		} else if cl <= 32 {
			run.Count("circuit_id_not_looked_up", 1)
		}
		// --- FNV-1a hash vs the reference implementation
		h := fnv.New64a()
		h.Write(cid)
		run.Eval()
		run.Count("fnv_compared", 1)
		if got := bngebpf.HashCircuitID(cid); got != h.Sum64() {
			run.Violation("ebpf.HashCircuitID", "derived-key-hash", "differs-from-fnv1a-64", fmt.Sprintf("HashCircuitID(%x)=%#x, FNV-1a 64 is %#x", cid, got, h.Sum64()), nil)
		}
	}
	run.Sample(map[string]any{"kind": "derived keys", "inputs_per_kind": n})
}

func hl(h int) string {
	if h == 6 {
		return "6"
	}
	return "longer-than-6"
}

var _ = sort.Strings
var _ = time.Now

// TestKeysEndToEnd: every keyed cache entry is written through the real control-plane call and then looked for
// by the real program on a frame that should hit it: the lookup log must show a hit. This judges the writer's key
// bytes (whatever helper or packing it uses), not only the key type it is declared with.
func TestKeysEndToEnd(t *testing.T) {
	k, err := cplane.LoadKernel("dhcp_fastpath")
	if err != nil {
		return // reported by TestSentinelsThroughControlPlane
	}
	defer k.Close()
	nat_, err := cplane.Start("dhcp_fastpath", os.Getenv("VERIF_BUILD")+"/C06.e2e.journal")
	if err != nil {
		t.Fatal(err)
	}
	defer nat_.Close()
	rng := run.Rand("e2e")
	n := run.Pick(600, 3000)
	hit := func(res *cplane.Result, m string) (looked, found bool, key []byte) {
		for _, a := range res.Log {
			if a.Map == m && a.Op == 'l' {
				looked = true
				key = a.Key
				if a.Hit {
					found = true
				}
			}
		}
		return
	}
	var ld *bngebpf.Loader
	for i := 0; i < n; i++ {
		for _, m := range k.Coll.Maps {
			if m.Type() == ebpf.Hash {
				var keys [][]byte
				kb := make([]byte, m.KeySize())
				vb := make([]byte, m.ValueSize())
				it := m.Iterate()
				for it.Next(&kb, &vb) {
					keys = append(keys, append([]byte(nil), kb...))
				}
				for _, kk := range keys {
					m.Delete(kk)
				}
			}
		}
		// one long-lived loader, as in the running gateway: whatever it did for earlier subscribers (keys of other
		// lengths, other tags, other hardware addresses, added, looked up and removed again) must not leak into
		// the key it derives now. Every eighth entry is written by a fresh loader (first-call behaviour).
		if ld == nil || i%8 == 7 {
			ld, _ = bngebpf.NewLoader("lo", zap.NewNop())
			ld.VerifSetMaps(k.Coll.Maps)
		}
		pa := &bngebpf.PoolAssignment{PoolID: 1, AllocatedIP: bngebpf.IPToMapUint32(net.IPv4(10, 20, 30, 40)), LeaseExpiry: ^uint64(0) >> 1}
		for h := rng.IntN(3); h > 0; h-- {
			// history on the same loader: an unrelated subscriber comes and goes
			ocid := make([]byte, 1+rng.IntN(40))
			for j := range ocid {
				ocid[j] = byte(1 + rng.IntN(255))
			}
			ost, oct := uint16(1+rng.IntN(4094)), uint16(1+rng.IntN(4094))
			omac := uint64(rng.Uint32())<<16 | uint64(rng.IntN(65536))
			switch rng.IntN(3) {
			case 0:
				ld.AddCircuitIDSubscriber(ocid, pa)
				ld.GetCircuitIDSubscriber(ocid)
				ld.RemoveCircuitIDSubscriber(ocid)
			case 1:
				ld.AddVLANSubscriber(ost, oct, pa)
				ld.GetVLANSubscriber(ost, oct)
				ld.RemoveVLANSubscriber(ost, oct)
			default:
				ld.AddSubscriber(omac, pa)
				ld.GetSubscriber(omac)
				ld.RemoveSubscriber(omac)
			}
			run.Count("e2e_history_calls_before_the_judged_entry", 1)
		}
		for name, m := range k.Coll.Maps {
			if m.Type() != ebpf.Hash || (name != "subscriber_pools" && name != "vlan_subscriber_pools" && name != "circuit_id_subscribers") {
				continue
			}
			kb := make([]byte, m.KeySize())
			vb := make([]byte, m.ValueSize())
			if it := m.Iterate(); it.Next(&kb, &vb) {
				run.Violation("ebpf.Loader", "removed-entry-is-gone", "entry-left-after-add-and-remove/history", fmt.Sprintf("after adding and removing unrelated subscribers through the loader, %s still holds key %x", name, kb), nil)
				return
			}
		}
		mac := net.HardwareAddr{0x02, byte(rng.IntN(256)), byte(rng.IntN(256)), byte(rng.IntN(256)), byte(rng.IntN(256)), byte(rng.IntN(256))}
		stranger := make([]byte, 16)
		copy(stranger, net.HardwareAddr{0x06, 9, 9, byte(rng.IntN(256)), byte(rng.IntN(256)), byte(i)})
		st, ct := uint16(1+rng.IntN(4094)), uint16(1+rng.IntN(4094))
		cl := 1 + rng.IntN(32)
		cid := make([]byte, cl)
		for j := range cid {
			cid[j] = byte(1 + rng.IntN(255))
		}
		var frame []byte
		var mapName, api, cls string
		switch i % 3 {
		case 0:
			ld.AddVLANSubscriber(st, ct, pa)
			frame = dhcpDiscover(stranger, 6, [][2]uint16{{[]uint16{0x88a8, 0x8100}[rng.IntN(2)], st}, {0x8100, ct}}, nil)
			mapName, api, cls = "vlan_subscriber_pools", fmt.Sprintf("Loader.AddVLANSubscriber(%d,%d)", st, ct), "vlan-pair"
		case 1:
			ld.AddCircuitIDSubscriber(cid, pa)
			frame = dhcpDiscoverOpts(stranger, 6, nil, cid, nil, []byte{2, 3, 'r', 'i', 'd'})
			mapName, api, cls = "circuit_id_subscribers", fmt.Sprintf("Loader.AddCircuitIDSubscriber(%x)", cid), "circuit-id"
		default:
			ld.AddSubscriber(bngebpf.MACToUint64(mac), pa)
			ch := make([]byte, 16)
			copy(ch, mac)
			frame = dhcpDiscover(ch, 6, nil, nil)
			mapName, api, cls = "subscriber_pools", fmt.Sprintf("Loader.AddSubscriber(MACToUint64(%v))", mac), "mac"
		}
		nat_.Reset()
		var written []string
		for name, m := range k.Coll.Maps {
			mi, ok := nat_.Map(name)
			if !ok || mi.KeySize == 0 || m.Type() != ebpf.Hash {
				continue
			}
			kb := make([]byte, m.KeySize())
			vb := make([]byte, m.ValueSize())
			it := m.Iterate()
			for it.Next(&kb, &vb) {
				nat_.Write(name, kb, vb, 0)
				if name == mapName {
					written = append(written, fmt.Sprintf("%x", kb))
				}
			}
		}
		res, err := nat_.Run("dhcp_fastpath_prog", frame, cplane.RunOpt{})
		if err != nil {
			run.Violation("bpf/dhcp_fastpath.c", "memory-safety", "sanitizer-or-guard-fault", err.Error(), fmt.Sprintf("%x", frame))
			return
		}
		run.Eval()
		looked, found, key := hit(res, mapName)
		if !looked {
			run.Count("e2e_key_not_looked_up_"+cls, 1)
			continue
		}
		run.Count("e2e_keys_judged_"+cls, 1)
		run.Nontrivial(fmt.Sprintf("e2e|%s|%d", cls, i))
		if !found {
			run.Violation("ebpf.Loader", "written-entry-is-found-by-the-program", "entry-written-by-control-plane-not-found/"+cls, fmt.Sprintf("%s wrote key(s) %v into %s; the program, on the frame of that subscriber, looks up %x and finds nothing", api, written, mapName, key), fmt.Sprintf("%x", frame))
		}
		// the control plane reads the entry back and removes it under the key it derives for the same identity
		var gerr, rerr error
		switch i % 3 {
		case 0:
			_, gerr = ld.GetVLANSubscriber(st, ct)
			rerr = ld.RemoveVLANSubscriber(st, ct)
		case 1:
			_, gerr = ld.GetCircuitIDSubscriber(cid)
			rerr = ld.RemoveCircuitIDSubscriber(cid)
		default:
			_, gerr = ld.GetSubscriber(bngebpf.MACToUint64(mac))
			rerr = ld.RemoveSubscriber(bngebpf.MACToUint64(mac))
		}
		if gerr != nil && found {
			run.Violation("ebpf.Loader", "written-entry-is-read-back", "get-misses-entry-the-program-finds/"+cls, fmt.Sprintf("%s: the program finds the entry, the loader's Get for the same identity fails: %v", api, gerr), nil)
		}
		left := 0
		if m := k.Coll.Maps[mapName]; m != nil {
			kb := make([]byte, m.KeySize())
			vb := make([]byte, m.ValueSize())
			for it := m.Iterate(); it.Next(&kb, &vb); {
				left++
			}
		}
		run.Count("e2e_removals_judged_"+cls, 1)
		if left != 0 {
			run.Violation("ebpf.Loader", "removed-entry-is-gone", "entry-left-after-remove/"+cls, fmt.Sprintf("%s then the matching Remove (err=%v): %s still holds %d entr(y/ies), written keys were %v", api, rerr, mapName, left, written), nil)
		}
	}
	run.Floor("e2e_keys_judged_vlan-pair", 20)
	run.Floor("e2e_keys_judged_circuit-id", 20)
	run.Floor("e2e_keys_judged_mac", 20)
}
