package c06

// The MAC-derived key of subscriber_bindings end to end: the binding is written by the real antispoof.Manager into
// the kernel map of the loaded working-tree object, copied into the natively compiled antispoof.c and looked for by
// the executed program on a frame whose source hardware address is that subscriber's - for hardware addresses of
// every bit pattern (high bits in every octet, all-ones octets, locally administered and multicast bits), because
// a key derivation that widens an octet too late only shows on some of them.

import (
	"fmt"
	"net"
	"os"
	"testing"

	"github.com/cilium/ebpf"
	"github.com/codelaboratoryltd/bng/pkg/antispoof"
	"go.uber.org/zap"

	"verif/harness/internal/cplane"
)

func TestAntispoofKeysEndToEnd(t *testing.T) {
	k, err := cplane.LoadKernel("antispoof")
	if err != nil {
		return // reported by TestSentinelsThroughControlPlane
	}
	defer k.Close()
	nat_, err := cplane.Start("antispoof", os.Getenv("VERIF_BUILD")+"/C06.as-e2e.journal")
	if err != nil {
		t.Fatal(err)
	}
	defer nat_.Close()
	mgr, _ := antispoof.NewManager(antispoof.ManagerConfig{Interface: "lo"}, zap.NewNop())
	mgr.VerifSetMaps(k.Coll.Maps["subscriber_bindings"], k.Coll.Maps["antispoof_config"], k.Coll.Maps["antispoof_stats"], k.Coll.Maps["allowed_ranges_v4"])
	rng := run.Rand("as-e2e")
	n := run.Pick(400, 4000)
	patterns := [][]byte{{0x80, 0, 0, 0, 0, 0}, {0, 0x80, 0, 0, 0, 0}, {0, 0, 0x80, 0, 0, 0}, {0, 0, 0, 0x80, 0, 0}, {0, 0, 0, 0, 0x80, 0}, {0, 0, 0, 0, 0, 0x80},
		{0xff, 0xff, 0xff, 0xff, 0xff, 0xfe}, {0, 0, 0, 0, 0, 1}, {0x7f, 0xff, 0xff, 0xff, 0xff, 0xff}}
	for i := 0; i < n; i++ {
		mac := make(net.HardwareAddr, 6)
		if i < len(patterns)*6 {
			copy(mac, patterns[i%len(patterns)])
			mac[(i/len(patterns))%6] |= byte(1 + rng.IntN(255))
		} else {
			for j := range mac {
				mac[j] = byte(rng.IntN(256))
			}
		}
		ip := net.IPv4(10, byte(rng.IntN(256)), byte(rng.IntN(256)), byte(1+rng.IntN(254))).To4()
		v6 := i%3 == 1
		var aerr error
		if v6 {
			aerr = mgr.AddBindingV6(mac, net.ParseIP(fmt.Sprintf("2001:db8::%x", 1+rng.IntN(65000))))
		} else {
			aerr = mgr.AddBinding(mac, ip)
		}
		if aerr != nil {
			run.Violation("antispoof.Manager.AddBinding", "put-succeeds", "put-failed", aerr.Error(), mac.String())
			return
		}
		nat_.Reset()
		for name, m := range k.Coll.Maps {
			mi, ok := nat_.Map(name)
			if !ok || mi.KeySize == 0 || m.Type() != ebpf.Hash {
				continue
			}
			kb := make([]byte, m.KeySize())
			vb := make([]byte, m.ValueSize())
			for it := m.Iterate(); it.Next(&kb, &vb); {
				nat_.Write(name, kb, vb, 0)
			}
		}
		frame := cplane.Eth(net.HardwareAddr{2, 0, 0, 0, 0, 9}, mac, 0x0800, nil, cplane.IPv4(ip, net.IPv4(198, 51, 100, 7), 17, 5, cplane.UDP(1000, 2000, make([]byte, 8))))
		res, err := nat_.Run("antispoof_ingress", frame, cplane.RunOpt{})
		if err != nil {
			run.Violation("bpf/antispoof.c", "memory-safety", "sanitizer-or-guard-fault", err.Error(), fmt.Sprintf("%x", frame))
			return
		}
		run.Eval()
		looked, found := false, false
		var key []byte
		for _, a := range res.Log {
			if a.Map == "subscriber_bindings" && a.Op == 'l' {
				looked, key = true, a.Key
				found = found || a.Hit
			}
		}
		if !looked {
			run.Count("as_e2e_key_not_looked_up", 1)
		} else {
			run.Count("as_e2e_keys_judged", 1)
			run.Nontrivial(fmt.Sprintf("as-e2e|%d", i))
			if !found {
				cls := "random-address"
				for j, b := range mac {
					if b >= 0x80 {
						cls = fmt.Sprintf("high-bit-in-octet-%d", j)
						break
					}
				}
				run.Violation("antispoof.Manager.AddBinding+bpf/antispoof.c", "written-entry-is-found-by-the-program", "binding-written-by-control-plane-not-found/"+cls,
					fmt.Sprintf("AddBinding(%v) wrote the binding; the program, on a frame from %v, looks up key %x in subscriber_bindings and finds nothing", mac, mac, key), fmt.Sprintf("%x", frame))
			}
		}
		if err := mgr.RemoveBinding(mac); err != nil {
			run.Count("as_e2e_remove_errors", 1)
		}
		m := k.Coll.Maps["subscriber_bindings"]
		kb := make([]byte, m.KeySize())
		vb := make([]byte, m.ValueSize())
		if it := m.Iterate(); it.Next(&kb, &vb) {
			run.Violation("antispoof.Manager.RemoveBinding", "removed-entry-is-gone", "binding-left-after-remove/"+map[bool]string{true: "v6-only", false: "v4"}[v6],
				fmt.Sprintf("binding of %v added and removed through the manager: subscriber_bindings still holds key %x", mac, kb), nil)
			m.Delete(kb)
		}
	}
	run.Floor("as_e2e_keys_judged", 100)
}
