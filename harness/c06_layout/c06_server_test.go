package c06

import (
	"fmt"
	"net"
	"sync"
	"testing"
	"testing/synctest"
	"time"

	"github.com/cilium/ebpf"
	"github.com/insomniacslk/dhcp/dhcpv4"
	"go.uber.org/zap"

	"github.com/codelaboratoryltd/bng/pkg/dhcp"
	bngebpf "github.com/codelaboratoryltd/bng/pkg/ebpf"

	"verif/harness/internal/cplane"
)

type capConn struct {
	mu   sync.Mutex
	sent [][]byte
}

func (c *capConn) ReadFrom(p []byte) (int, net.Addr, error) { select {} }
func (c *capConn) WriteTo(p []byte, a net.Addr) (int, error) {
	c.mu.Lock()
	c.sent = append(c.sent, append([]byte(nil), p...))
	c.mu.Unlock()
	return len(p), nil
}
func (c *capConn) Close() error                       { return nil }
func (c *capConn) LocalAddr() net.Addr                { return &net.UDPAddr{IP: net.IPv4zero, Port: 67} }
func (c *capConn) SetDeadline(t time.Time) error      { return nil }
func (c *capConn) SetReadDeadline(t time.Time) error  { return nil }
func (c *capConn) SetWriteDeadline(t time.Time) error { return nil }
func (c *capConn) take() *dhcpv4.DHCPv4 {
	c.mu.Lock()
	defer c.mu.Unlock()
	if len(c.sent) == 0 {
		return nil
	}
	b := c.sent[len(c.sent)-1]
	c.sent = nil
	m, _ := dhcpv4.FromBytes(b)
	return m
}

// TestSentinelsThroughServer: the cache values the real dhcp.Server writes on an ACK - every copy of them: the
// MAC-keyed entry and the circuit-id-keyed one are built by different code - carry the leased address in the
// byte order the program copies into yiaddr.
func TestSentinelsThroughServer(t *testing.T) {
	k, err := cplane.LoadKernel("dhcp_fastpath")
	if err != nil {
		return
	}
	defer k.Close()
	rng := run.Rand("server-sentinel")
	for round := 0; round < run.Pick(12, 200); round++ {
		synctest.Test(t, func(t *testing.T) {
			for _, m := range k.Coll.Maps {
				if m.Type() == ebpf.Hash {
					var keys [][]byte
					kb := make([]byte, m.KeySize())
					vb := make([]byte, m.ValueSize())
					it := m.Iterate()
					for it.Next(&kb, &vb) {
						keys = append(keys, append([]byte(nil), kb...))
					}
					for _, kk := range keys {
						m.Delete(kk)
					}
				}
			}
			ld, _ := bngebpf.NewLoader("lo", zap.NewNop())
			ld.VerifSetMaps(k.Coll.Maps)
			pm := dhcp.NewPoolManager(ld, nil)
			netw := fmt.Sprintf("10.%d.%d.0/24", 1+rng.IntN(200), rng.IntN(250))
			gw := netw[:len(netw)-4] + "1"
			dp, err := dhcp.NewPool(dhcp.PoolConfig{ID: 1, Name: "p", Network: netw, Gateway: gw, DNSServers: []string{"8.8.8.8"}, LeaseTime: time.Hour})
			if err != nil {
				t.Fatal(err)
			}
			pm.AddPool(dp)
			srv, err := dhcp.NewServer(dhcp.ServerConfig{Interface: "lo", ServerIP: net.ParseIP(gw)}, ld, pm, zap.NewNop())
			if err != nil {
				t.Fatal(err)
			}
			conn := &capConn{}
			peer := &net.UDPAddr{IP: net.IPv4bcast, Port: 68}
			mac := net.HardwareAddr{0x02, 0x31, byte(rng.IntN(256)), byte(rng.IntN(256)), byte(rng.IntN(256)), byte(round)}
			cid := make([]byte, 1+rng.IntN(32))
			for i := range cid {
				cid[i] = byte('a' + rng.IntN(26))
			}
			mk := func(mt dhcpv4.MessageType, req net.IP) *dhcpv4.DHCPv4 {
				mods := []dhcpv4.Modifier{dhcpv4.WithMessageType(mt), dhcpv4.WithHwAddr(mac), dhcpv4.WithGatewayIP(net.IPv4(10, 250, 0, 1)),
					dhcpv4.WithOption(dhcpv4.OptRelayAgentInfo(dhcpv4.OptGeneric(dhcpv4.GenericOptionCode(1), cid), dhcpv4.OptGeneric(dhcpv4.GenericOptionCode(2), []byte("rid"))))}
				if req != nil {
					mods = append(mods, dhcpv4.WithOption(dhcpv4.OptRequestedIPAddress(req)))
				}
				m, _ := dhcpv4.New(mods...)
				return m
			}
			send := func(m *dhcpv4.DHCPv4) *dhcpv4.DHCPv4 {
				srv.VerifHandle(conn, peer, m)
				synctest.Wait()
				return conn.take()
			}
			off := send(mk(dhcpv4.MessageTypeDiscover, nil))
			if off == nil {
				t.Fatal("no offer")
			}
			ack := send(mk(dhcpv4.MessageTypeRequest, off.YourIPAddr))
			if ack == nil || ack.MessageType() != dhcpv4.MessageTypeAck {
				t.Fatal("no ack")
			}
			ip := ack.YourIPAddr.To4()
			w := map[string]any{"api": fmt.Sprintf("dhcp.Server: DISCOVER+REQUEST of %s behind circuit-id %q -> ACK %v", mac, cid, ip)}
			run.Eval()
			run.Nontrivial(fmt.Sprintf("server-sentinel|%d", round))
			mk64 := bngebpf.MACToUint64(mac)
			if raw, err := rawValue(k.Coll.Maps["subscriber_pools"], &mk64); err != nil {
				run.Violation("dhcp.Server.handleRequest", "key-bytes", "mac-entry-missing-after-ack", "no subscriber_pools entry under MACToUint64(mac) after the ACK", w)
			} else {
				run.Count("server_written_values_compared", 1)
				expectAt("dhcp.Server.handleRequest", "value-bytes", raw, k.Spec.Maps["subscriber_pools"].Value, "allocated_ip", []byte(ip), "MAC-keyed entry; copied to yiaddr, network order", w)
			}
			ck := bngebpf.MakeCircuitIDKey(cid)
			if raw, err := rawValue(k.Coll.Maps["circuit_id_subscribers"], &ck); err != nil {
				run.Violation("dhcp.Server.handleRequest", "key-bytes", "circuit-id-entry-missing-after-ack", "no circuit_id_subscribers entry under MakeCircuitIDKey(circuit-id) after the ACK", w)
			} else {
				run.Count("server_written_values_compared", 1)
				expectAt("dhcp.Server.handleRequest", "value-bytes", raw, k.Spec.Maps["circuit_id_subscribers"].Value, "allocated_ip", []byte(ip), "circuit-id-keyed entry; copied to yiaddr, network order", w)
			}
		})
	}
	run.Floor("server_written_values_compared", 20)
}
