package c06

import (
	"fmt"
	"net"
	"sync"
	"testing"
	"testing/synctest"
	"time"

	"github.com/cilium/ebpf"
	"github.com/insomniacslk/dhcp/dhcpv4"
	"go.uber.org/zap"

	"github.com/codelaboratoryltd/bng/pkg/dhcp"
	bngebpf "github.com/codelaboratoryltd/bng/pkg/ebpf"
	"github.com/codelaboratoryltd/bng/pkg/nat"

	"verif/harness/internal/cplane"
)

type capConn struct {
	mu   sync.Mutex
	sent [][]byte
}

func (c *capConn) ReadFrom(p []byte) (int, net.Addr, error) { select {} }
func (c *capConn) WriteTo(p []byte, a net.Addr) (int, error) {
	c.mu.Lock()
	c.sent = append(c.sent, append([]byte(nil), p...))
	c.mu.Unlock()
	return len(p), nil
}
func (c *capConn) Close() error                       { return nil }
func (c *capConn) LocalAddr() net.Addr                { return &net.UDPAddr{IP: net.IPv4zero, Port: 67} }
func (c *capConn) SetDeadline(t time.Time) error      { return nil }
func (c *capConn) SetReadDeadline(t time.Time) error  { return nil }
func (c *capConn) SetWriteDeadline(t time.Time) error { return nil }
func (c *capConn) take() *dhcpv4.DHCPv4 {
	c.mu.Lock()
	defer c.mu.Unlock()
	if len(c.sent) == 0 {
		return nil
	}
	b := c.sent[len(c.sent)-1]
	c.sent = nil
	m, _ := dhcpv4.FromBytes(b)
	return m
}

// TestSentinelsThroughServer: the cache values the real dhcp.Server writes on an ACK - every copy of them: the
// MAC-keyed entry and the circuit-id-keyed one are built by different code - carry the leased address in the
// byte order the program copies into yiaddr.
func TestSentinelsThroughServer(t *testing.T) {
	k, err := cplane.LoadKernel("dhcp_fastpath")
	if err != nil {
		return
	}
	defer k.Close()
	rng := run.Rand("server-sentinel")
	for round := 0; round < run.Pick(40, 200); round++ {
		synctest.Test(t, func(t *testing.T) {
			for _, m := range k.Coll.Maps {
				if m.Type() == ebpf.Hash {
					var keys [][]byte
					kb := make([]byte, m.KeySize())
					vb := make([]byte, m.ValueSize())
					it := m.Iterate()
					for it.Next(&kb, &vb) {
						keys = append(keys, append([]byte(nil), kb...))
					}
					for _, kk := range keys {
						m.Delete(kk)
					}
				}
			}
			ld, _ := bngebpf.NewLoader("lo", zap.NewNop())
			ld.VerifSetMaps(k.Coll.Maps)
			pm := dhcp.NewPoolManager(ld, nil)
			netw := fmt.Sprintf("10.%d.%d.0/24", 1+rng.IntN(200), rng.IntN(250))
			gw := netw[:len(netw)-4] + "1"
			dp, err := dhcp.NewPool(dhcp.PoolConfig{ID: 1, Name: "p", Network: netw, Gateway: gw, DNSServers: []string{"8.8.8.8"}, LeaseTime: time.Hour})
			if err != nil {
				t.Fatal(err)
			}
			pm.AddPool(dp)
			srv, err := dhcp.NewServer(dhcp.ServerConfig{Interface: "lo", ServerIP: net.ParseIP(gw)}, ld, pm, zap.NewNop())
			if err != nil {
				t.Fatal(err)
			}
			conn := &capConn{}
			peer := &net.UDPAddr{IP: net.IPv4bcast, Port: 68}
			mac := net.HardwareAddr{0x02, 0x31, byte(rng.IntN(256)), byte(rng.IntN(256)), byte(rng.IntN(256)), byte(round)}
			cid := make([]byte, 1+rng.IntN(32))
			for i := range cid {
				cid[i] = byte('a' + rng.IntN(26))
			}
			mk := func(mt dhcpv4.MessageType, req net.IP) *dhcpv4.DHCPv4 {
				mods := []dhcpv4.Modifier{dhcpv4.WithMessageType(mt), dhcpv4.WithHwAddr(mac), dhcpv4.WithGatewayIP(net.IPv4(10, 250, 0, 1)),
					dhcpv4.WithOption(dhcpv4.OptRelayAgentInfo(dhcpv4.OptGeneric(dhcpv4.GenericOptionCode(1), cid), dhcpv4.OptGeneric(dhcpv4.GenericOptionCode(2), []byte("rid"))))}
				if req != nil {
					mods = append(mods, dhcpv4.WithOption(dhcpv4.OptRequestedIPAddress(req)))
				}
				m, _ := dhcpv4.New(mods...)
				return m
			}
			send := func(m *dhcpv4.DHCPv4) *dhcpv4.DHCPv4 {
				srv.VerifHandle(conn, peer, m)
				synctest.Wait()
				return conn.take()
			}
			off := send(mk(dhcpv4.MessageTypeDiscover, nil))
			if off == nil {
				t.Fatal("no offer")
			}
			ack := send(mk(dhcpv4.MessageTypeRequest, off.YourIPAddr))
			if ack == nil || ack.MessageType() != dhcpv4.MessageTypeAck {
				t.Fatal("no ack")
			}
			ip := ack.YourIPAddr.To4()
			w := map[string]any{"api": fmt.Sprintf("dhcp.Server: DISCOVER+REQUEST of %s behind circuit-id %q -> ACK %v", mac, cid, ip)}
			run.Eval()
			run.Nontrivial(fmt.Sprintf("server-sentinel|%d", round))
			mk64 := bngebpf.MACToUint64(mac)
			if raw, err := rawValue(k.Coll.Maps["subscriber_pools"], &mk64); err != nil {
				run.Violation("dhcp.Server.handleRequest", "key-bytes", "mac-entry-missing-after-ack", "no subscriber_pools entry under MACToUint64(mac) after the ACK", w)
			} else {
				run.Count("server_written_values_compared", 1)
				expectAt("dhcp.Server.handleRequest", "value-bytes", raw, k.Spec.Maps["subscriber_pools"].Value, "allocated_ip", []byte(ip), "MAC-keyed entry; copied to yiaddr, network order", w)
			}
			ck := bngebpf.MakeCircuitIDKey(cid)
			if raw, err := rawValue(k.Coll.Maps["circuit_id_subscribers"], &ck); err != nil {
				run.Violation("dhcp.Server.handleRequest", "key-bytes", "circuit-id-entry-missing-after-ack", "no circuit_id_subscribers entry under MakeCircuitIDKey(circuit-id) after the ACK", w)
			} else {
				run.Count("server_written_values_compared", 1)
				expectAt("dhcp.Server.handleRequest", "value-bytes", raw, k.Spec.Maps["circuit_id_subscribers"].Value, "allocated_ip", []byte(ip), "circuit-id-keyed entry; copied to yiaddr, network order", w)
			}
		})
	}
	run.Floor("server_written_values_compared", 20)
}

// TestALGKeysEndToEnd: ALG triggers written by nat.Manager.ConfigureALG must be found by nat44_egress for a
// subscriber's packet to that port and protocol (TCP and UDP derive the key in separate branches of the program).
func TestALGKeysEndToEnd(t *testing.T) {
	kn, err := cplane.LoadKernel("nat44")
	if err != nil {
		return
	}
	defer kn.Close()
	nn, err := cplane.Start("nat44", "")
	if err != nil {
		t.Fatal(err)
	}
	defer nn.Close()
	mgr, err := nat.NewManager(nat.ManagerConfig{Interface: "lo", PortsPerSubscriber: 1024, PortRangeStart: 1024, PortRangeEnd: 65535}, zap.NewNop())
	if err != nil {
		t.Fatal(err)
	}
	mgr.VerifSetMaps(kn.Coll.Maps)
	pub, sub, far := net.IPv4(203, 0, 113, 9).To4(), net.IPv4(10, 20, 30, 40).To4(), net.IPv4(198, 51, 100, 7).To4()
	mgr.AddPublicIP(pub)
	mgr.AllocateNAT(sub)
	cfg := nat.NATConfig{Flags: nat.NATFlagALGFTP | nat.NATFlagALGSIP, PortRangeStart: 1024, PortRangeEnd: 65535, DefaultPortsPerSub: 1024}
	var zero uint32
	if err := kn.Coll.Maps["nat_config_map"].Put(&zero, &cfg); err != nil {
		t.Fatal(err)
	}
	type trig struct {
		port  uint16
		proto uint8
	}
	trigs := []trig{{21, 6}, {5060, 6}, {5060, 17}, {2000, 17}, {554, 6}, {0x1234, 17}, {0x3412, 6}}
	for _, tr := range trigs {
		if err := mgr.ConfigureALG(tr.port, tr.proto, 1, true); err != nil {
			run.Violation("nat.Manager.ConfigureALG", "put-succeeds", "put-failed", err.Error(), nil)
			return
		}
	}
	nn.Reset()
	for name, m := range kn.Coll.Maps {
		mi, ok := nn.Map(name)
		if !ok || mi.KeySize == 0 || (m.Type() != ebpf.Hash && m.Type() != ebpf.Array && m.Type() != ebpf.LRUHash) {
			continue
		}
		kb := make([]byte, m.KeySize())
		vb := make([]byte, m.ValueSize())
		it := m.Iterate()
		for it.Next(&kb, &vb) {
			nn.Write(name, kb, vb, 0)
		}
	}
	// the NAT manager writes IPv4 keys byte-reversed (known finding): install the subscriber entry under the
	// wire-order key as well so that the program reaches the ALG branch
	if ents, _ := nn.List("subscriber_nat"); len(ents) > 0 {
		v := append([]byte(nil), ents[0][1]...)
		nn.Write("subscriber_nat", []byte(sub), v, 0)
	}
	for _, tr := range trigs {
		var l4 []byte
		if tr.proto == 17 {
			l4 = cplane.UDP(40000, tr.port, []byte("payload"))
		} else {
			l4 = make([]byte, 20)
			l4[0], l4[1] = 0x9c, 0x40
			l4[2], l4[3] = byte(tr.port>>8), byte(tr.port)
			l4[12], l4[13] = 0x50, 0x02
		}
		frame := cplane.Eth(net.HardwareAddr{2, 0, 0, 0, 0, 0xfe}, net.HardwareAddr{2, 0xaa, 0xbb, 0xcc, 0xdd, 1}, 0x0800, nil, cplane.IPv4(sub, far, tr.proto, 5, l4))
		res, err := nn.Run("nat44_egress", frame, cplane.RunOpt{})
		if err != nil {
			run.Violation("bpf/nat44.c", "memory-safety", "sanitizer-or-guard-fault", err.Error(), fmt.Sprintf("%x", frame))
			return
		}
		run.Eval()
		looked, found := false, false
		var key []byte
		for _, a := range res.Log {
			if a.Map == "alg_ports" && a.Op == 'l' {
				looked, key = true, a.Key
				found = found || a.Hit
			}
		}
		if !looked {
			run.Count("alg_key_not_looked_up", 1)
			continue
		}
		run.Count("alg_keys_judged", 1)
		run.Nontrivial(fmt.Sprintf("algkey|%d|%d", tr.port, tr.proto))
		if !found {
			pn := map[uint8]string{6: "tcp", 17: "udp"}[tr.proto]
			run.Violation("nat.Manager.ConfigureALG", "written-entry-is-found-by-the-program", "alg-trigger-not-found/"+pn, fmt.Sprintf("ConfigureALG(%d, %s) wrote the trigger; nat44_egress, on the subscriber's %s packet to port %d, looks up %x and finds nothing", tr.port, pn, pn, tr.port, key), fmt.Sprintf("%x", frame))
		}
	}
	run.Floor("alg_keys_judged", 5)
}
