package c15

// Overlap workload: datagrams that arrive while a session-changing handler is still running.
//
// The listener process installs session-changing callbacks that the monitor can hold (child_test.go, gate): the
// CoA/Disconnect handlers themselves ("direct" listeners) or the policy updater / session terminator called by the
// real CoAProcessor ("processor" listeners). An episode sends an authentic request X1, waits until the listener
// process reports that X1's callback has been entered and is held, sends X2 (junk, a request with a bad
// authenticator, a replay of X1, the same request under another identifier, a request for another session), then
// releases, sends a probe and lets the listener settle (probe answered, every expected reply in, listener process
// quiescent - all bounded). Bursts send N requests back to back to callbacks that are slow or held.
//
// Nothing is assumed about how the listener schedules its work: on a one-at-a-time listener X2 waits in the socket
// queue, on a listener that reads on while handlers run it is consumed at once; both are observed (and counted), and
// every clause is judged on what came back: each datagram that comes back is attributed, by its identifier, to a
// datagram of the episode and judged against THAT datagram by the oracle of oracle_test.go (identifier echoed,
// Response Authenticator over that request's authenticator, code consistent with the handler's verdict, at most one
// reply per copy sent); handler events are attributed by the token / session they carry; the session table kept by
// the callbacks must change only for sessions named by authentic datagrams, no more often than those were sent.

import (
	"bytes"
	"encoding/binary"
	"encoding/hex"
	"fmt"
	"math/rand/v2"
	"runtime"
	"strconv"
	"sync"
	"sync/atomic"
	"testing"
	"time"

	"net"
)

type odg struct {
	role string // X1 | X2 | b<i> (burst position)
	kind string // request | junk | bad-auth | replay | other-id | other-session
	d    []byte
	auth bool
	tok  string // hex of the User-Name value ("" for junk)
	sid  string // hex of the Acct-Session-Id value
}

func (g *odg) brief() map[string]any {
	return map[string]any{"role": g.role, "kind": g.kind, "authentic": g.auth, "datagram_hex": capHex(g.d)}
}

const (
	enterWait = 4 * time.Second // bounded wait for "callback entered" (an episode whose request is not seen entering is judged as it is, not waited for)
)

// ovReq builds an authentic request that names session live-<sess> and carries a unique token.
func ovReq(r *rand.Rand, code, id byte, tok []byte, sess int, secret []byte) []byte {
	reg := attrTLV(1, tok)
	reg = append(reg, attrTLV(44, []byte("live-"+strconv.Itoa(sess)))...)
	if code == 43 {
		reg = append(reg, attrTLV(11, [][]byte{[]byte("gold"), []byte("silver"), []byte("residential-100")}[r.IntN(3)])...)
	}
	if r.IntN(3) == 0 {
		reg = append(reg, attrTLV(27, u32(uint32(60+r.IntN(86000))))...)
	}
	if r.IntN(4) == 0 {
		reg = append(reg, attrTLV(4, randBytes(r, 4))...)
	}
	return build(code, id, reg, secret)
}

func sidHexOf(sess int) string { return hex.EncodeToString([]byte("live-" + strconv.Itoa(sess))) }

func ovJunk(r *rand.Rand, id byte) []byte {
	var x []byte
	switch r.IntN(6) {
	case 0:
		x = randBytes(r, 1+r.IntN(19)) // shorter than a header
	case 1:
		x = randBytes(r, 20+r.IntN(200))
	case 2: // plausible header, consistent length, random rest
		x = randBytes(r, 20+r.IntN(200))
		x[0] = []byte{40, 43}[r.IntN(2)]
		binary.BigEndian.PutUint16(x[2:4], uint16(len(x)))
	case 3: // header only, all zero authenticator
		x = make([]byte, 20)
		x[0], x[1] = []byte{40, 43}[r.IntN(2)], id
		binary.BigEndian.PutUint16(x[2:4], 20)
	case 4: // length field beyond the datagram
		x = randBytes(r, 20+r.IntN(60))
		x[0] = 43
		binary.BigEndian.PutUint16(x[2:4], uint16(len(x)+1+r.IntN(50)))
	default:
		x = bytes.Repeat([]byte{0xff}, 20+r.IntN(40))
	}
	return x
}

type ovWorker struct {
	*worker
	lis     int
	epN     int
	prevTab map[string][2]int
}

var ovTokN, ovAbandoned atomic.Int64

func (w *ovWorker) token(r *rand.Rand) []byte {
	return []byte(fmt.Sprintf("VERIF-C15-OV-%d-%016x", ovTokN.Add(1), r.Uint64()))
}

// enterPred: the listener process reports a held callback for the request carrying tok / naming sid.
func enterPred(tok, sid string, nth int) func(*event) bool {
	seen := 0
	return func(e *event) bool {
		if e.K != "enter" || !((tok != "" && e.User == tok) || (e.User == "" && e.SID == sid)) {
			return false
		}
		seen++
		return seen >= nth
	}
}

func (w *ovWorker) heldSeqs() []int {
	var out []int
	for _, e := range w.srv.pending {
		if e.K == "enter" {
			out = append(out, e.Seq)
		}
	}
	return out
}

func (w *ovWorker) ensure() bool {
	if w.srv == nil || w.srv.dead {
		if !w.respawn() {
			return false
		}
		w.prevTab = map[string][2]int{}
	}
	return true
}

type episode struct {
	name     string
	kind     string // kind of the second datagram relative to the request, or burst-slow / burst-held
	order    string // request-first | other-first
	release  string // all-at-once | first-in-first-out | last-in-first-out
	dgs      []*odg
	held1    bool   // the first datagram's callback was reported held before the second was sent
	second   string // what became of the second datagram while the first was held: queued | consumed | unclassified | n/a
	heldBoth bool
}

func (ep *episode) ctx() map[string]any {
	var ds []map[string]any
	for _, g := range ep.dgs {
		ds = append(ds, g.brief())
	}
	return map[string]any{"episode": ep.name, "kind": ep.kind, "order": ep.order, "release": ep.release, "datagrams_in_send_order": ds,
		"first_callback_held_when_second_sent": ep.held1, "second_datagram_while_first_held": ep.second, "both_callbacks_held": ep.heldBoth}
}

// settle sends the probe, waits (bounded) until every expected reply and the probe's reply are in, lets the listener
// process report quiescence, and judges. It returns false when the episode could not be settled (inconclusive).
func (w *ovWorker) settle(ep *episode, early [][]byte) bool {
	s := w.srv
	avoid := map[byte]bool{}
	for _, g := range ep.dgs {
		if len(g.d) >= 2 {
			avoid[g.d[1]] = true
		}
	}
	f := w.newFence(avoid)
	if _, err := w.sock.WriteToUDP(f.d, s.addr); err != nil {
		run.Inconclusive(ep.name, "send-error: "+err.Error())
		s.take()
		return false
	}
	w.count("fence_probes_sent", 1)
	want := map[byte]bool{f.d[1]: true}
	for _, g := range ep.dgs {
		if g.auth {
			want[g.d[1]] = true
		}
	}
	resps := append([][]byte(nil), early...)
	for _, p := range resps {
		if len(p) >= 2 {
			delete(want, p[1])
		}
	}
	last := time.Now()
	begun := last
	for len(want) > 0 && time.Since(begun) < batchWait {
		p, ok := w.recv(20 * time.Millisecond)
		if ok {
			last = time.Now()
			resps = append(resps, p)
			if len(p) >= 2 {
				delete(want, p[1])
			}
			continue
		}
		if s.poll() || time.Since(last) > fenceWait {
			break
		}
	}
	if s.poll() {
		// the listener process died during an episode made of authentic requests and droppable datagrams
		run.Violation(compLoop, "dropped-without-effect", "listener-crash/overlap-"+ep.kind,
			"the listener process died during an overlap episode: "+firstLine(tail(s.stderr.String(), 1500)),
			map[string]any{"secret_hex": hx(w.secret), "handler_mode": w.mode, "episode": ep.ctx(), "listener_stderr": tail(s.stderr.String(), 1500)})
		w.count("listener_deaths_observed", 1)
		return false
	}
	q, ok := s.settled()
	if !ok || q == nil || !q.Quiescent {
		why := "listener process gone"
		if ok && q != nil {
			why = fmt.Sprintf("listener not quiescent within the bounded wait: rxq=%d loop=%q readers=%d busy=%d handlers_in_flight=%d", q.RxQ, q.Loop, q.Readers, q.Busy, q.Inflight)
		}
		run.Inconclusive(ep.name, why)
		w.count("episodes_not_settled", 1)
		if !s.dead {
			s.kill()
		}
		return false
	}
	resps = append(resps, w.drain()...)
	evs := s.take()
	tr, ok := s.ask("T")
	if !ok {
		run.Inconclusive(ep.name, "listener process gone before the session table was read")
		return false
	}
	w.judgeEpisode(ep, f, resps, evs, tr.Tab)
	return true
}

type ogroup struct {
	g    *odg
	mult int
	o    *outcome
}

func (w *ovWorker) judgeEpisode(ep *episode, f *fence, resps [][]byte, evs []event, tab map[string][2]int) {
	ctx := ep.ctx()
	// byte-identical datagrams (replays) form one group: each copy may be acted on
	var groups []*ogroup
	for _, g := range ep.dgs {
		var hit *ogroup
		for _, og := range groups {
			if bytes.Equal(og.g.d, g.d) {
				hit = og
			}
		}
		if hit != nil {
			hit.mult++
			continue
		}
		groups = append(groups, &ogroup{g: g, mult: 1, o: &outcome{settled: "fence"}})
	}
	fo := &outcome{settled: "fence"}
	var strayResp [][]byte
	var strayEv []event

	// datagrams that came back: attributed by identifier (an authentic datagram of the episode first)
	for _, p := range resps {
		if len(p) >= 20 && f.isReply(p) {
			fo.resps = append(fo.resps, p)
			continue
		}
		var hit *ogroup
		if len(p) >= 2 {
			for _, og := range groups {
				if len(og.g.d) >= 2 && og.g.d[1] == p[1] && (hit == nil || (og.g.auth && !hit.g.auth)) {
					hit = og
				}
			}
		}
		if hit == nil {
			strayResp = append(strayResp, p)
			continue
		}
		hit.o.resps = append(hit.o.resps, p)
	}
	// handler events: by token (handlers) / session (session changes); two datagrams carrying the same token
	// (the same request under two identifiers) share their events evenly
	pick := func(match func(*ogroup) bool, n func(*ogroup) int) *ogroup {
		var hit *ogroup
		for _, og := range groups {
			if !match(og) {
				continue
			}
			if hit == nil || n(og)*hit.mult < n(hit)*og.mult {
				hit = og
			}
		}
		return hit
	}
	nH := func(og *ogroup) int {
		c := 0
		for _, e := range og.o.evs {
			if e.K == "coa" || e.K == "disc" {
				c++
			}
		}
		return c
	}
	nC := func(og *ogroup) int { return len(og.o.evs) - nH(og) }
	for _, e := range evs {
		switch e.K {
		case "enter":
			continue
		case "coa", "disc":
			if e.User == f.token {
				fo.evs = append(fo.evs, e)
				continue
			}
			if og := pick(func(og *ogroup) bool { return og.g.tok != "" && og.g.tok == e.User }, nH); og != nil {
				og.o.evs = append(og.o.evs, e)
				continue
			}
			strayEv = append(strayEv, e)
		default:
			if og := pick(func(og *ogroup) bool { return og.g.sid != "" && og.g.sid == e.SID }, nC); og != nil {
				og.o.evs = append(og.o.evs, e)
				continue
			}
			strayEv = append(strayEv, e)
		}
	}

	// Twins: authentic datagrams that differ in the identifier only show their handlers the very same request, so which
	// handler event (and verdict) belongs to which cannot be observed. Their reply codes are judged jointly: the codes
	// that came back must be the codes the verdicts call for, as multisets.
	twin := map[*ogroup]bool{}
	for i, a := range groups {
		for _, b := range groups[i+1:] {
			if a.g.auth && b.g.auth && a.g.tok != "" && a.g.tok == b.g.tok {
				twin[a], twin[b] = true, true
			}
		}
	}
	if len(twin) > 0 {
		var wantC, gotC [256]int
		nv, nr := 0, 0
		for og := range twin {
			for _, e := range og.o.evs {
				if e.K != "coa" && e.K != "disc" {
					continue
				}
				c := byte(42)
				switch {
				case og.g.d[0] == 43 && e.OK:
					c = 44
				case og.g.d[0] == 43:
					c = 45
				case e.OK:
					c = 41
				}
				wantC[c]++
				nv++
			}
			for _, p := range og.o.resps {
				if len(p) >= 1 {
					gotC[p[0]]++
					nr++
				}
			}
		}
		if nv == nr && wantC != gotC {
			run.Violation(compResp, "response/code-consistent", "twin-requests/codes-differ-from-verdicts",
				"the reply codes for one request sent under two identifiers are not the codes the handlers' verdicts call for",
				map[string]any{"secret_hex": hx(w.secret), "handler_mode": w.mode, "episode": ctx})
		}
	}
	overlap := ep.held1 || ep.kind == "burst-slow" || ep.kind == "burst-held"
	for _, og := range groups {
		tc := &tcase{fam: "overlap-" + og.g.kind, d: og.g.d, mult: og.mult, ctx: ctx, noCodeCheck: twin[og]}
		clean := judge(tc, w.secret, w.mode, og.o)
		run.Eval()
		run.Nontrivial(hx(w.secret) + "|" + hx(og.g.d))
		w.count("overlap_datagrams_judged_"+og.g.kind, 1)
		h := nH(og)
		if og.g.auth && og.mult > 1 {
			w.count("replayed_requests", 1)
			if h > 1 {
				w.count("replayed_requests_acted_on_again_observed_not_judged", 1)
			}
			if h > len(og.o.resps) {
				clean = false
				run.Violation(compLoop, "if-authentic/response-once", "copy-acted-on-but-not-answered",
					fmt.Sprintf("an authentic request sent %d times reached a handler %d times but only %d ACK/NAK came back", og.mult, h, len(og.o.resps)),
					map[string]any{"secret_hex": hx(w.secret), "handler_mode": w.mode, "episode": ctx, "datagram_hex": capHex(og.g.d), "events": og.o.evs})
			}
		}
		if !og.g.auth && clean {
			w.count("overlap_inauthentic_silent", 1)
		}
		if og.g.auth {
			for _, p := range og.o.resps {
				if ok, _ := refResponseOK(p, og.g.d[4:20], w.secret); ok && p[1] == og.g.d[1] {
					w.count("responses_verified", 1)
					if overlap {
						w.count("responses_verified_after_overlap", 1)
					}
					switch {
					case ep.held1:
						w.count("responses_verified_after_overlap_held", 1)
					case overlap:
						w.count("responses_verified_after_overlap_burst", 1)
					}
				}
			}
			if clean && h >= 1 && len(og.o.resps) >= 1 {
				w.count("authentic_requests_acted_on", 1)
				if overlap {
					w.count("authentic_requests_acted_on_in_overlap", 1)
				}
			}
		}
	}
	// the probe is an authentic request like any other
	ftc := &tcase{fam: "fence-probe", d: f.d, base: f.d, ctx: ctx}
	if judge(ftc, w.secret, w.mode, fo) && len(fo.resps) == 1 {
		w.count("fence_probes_answered_and_verified", 1)
	}
	w.count("fence_probes_judged", 1)

	for _, p := range strayResp {
		// does it at least verify against some datagram of the episode?
		cls := "identifier-of-no-datagram-of-the-episode"
		run.Violation(compResp, "response/identifier-echoed", cls,
			"a datagram came back whose identifier is that of no datagram sent in the episode (nor of its probe)",
			map[string]any{"secret_hex": hx(w.secret), "handler_mode": w.mode, "episode": ctx, "datagram_back_hex": capHex(p)})
	}
	for _, e := range strayEv {
		rule, cls := "only-if-authentic/handler", "handler-event-for-no-datagram-of-the-episode"
		if e.K == "term" || e.K == "policy" {
			rule, cls = "only-if-authentic/session-change", "session-change-named-by-no-datagram-of-the-episode"
		}
		run.Violation(compLoop, rule, cls,
			fmt.Sprintf("the listener process reported a %s event that no datagram of the episode accounts for (session %q)", e.K, unhex(e.SID)),
			map[string]any{"secret_hex": hx(w.secret), "handler_mode": w.mode, "episode": ctx, "event": e})
	}

	// session table: change since the previous episode, per session
	hi := map[string]int{}
	for _, og := range groups {
		if og.g.auth && og.g.sid != "" {
			hi[og.g.sid] += og.mult
		}
	}
	changed := 0
	for sid, now := range tab {
		was := w.prevTab[sid]
		delta := now[0] - was[0] + now[1] - was[1]
		if delta == 0 {
			continue
		}
		changed++
		if delta > hi[sid] {
			cls := "session-changed-more-often-than-authentic-requests-name-it"
			if hi[sid] == 0 {
				cls = "session-changed-without-authentic-request"
			}
			run.Violation(compLoop, "only-if-authentic/session-change", cls,
				fmt.Sprintf("session %q was handed to a session-changing callback %d time(s) during the episode; authentic datagrams naming it were sent %d time(s)", unhex(sid), delta, hi[sid]),
				map[string]any{"secret_hex": hx(w.secret), "handler_mode": w.mode, "episode": ctx, "session": unhex(sid), "table_before": was, "table_after": now})
		}
	}
	w.count("session_table_reads", 1)
	w.count("sessions_changed_in_table", changed)
	w.prevTab = tab
	run.Distinct("overlap_episode_shapes", ep.kind+"|"+ep.order+"|"+ep.release+"|"+ep.second+"|"+w.mode)
}

var ovSample sync.Map

// pairEpisode: X1, then X2 while X1's callback is held (if X1 is authentic), then release.
func (w *ovWorker) pairEpisode(r *rand.Rand, kind, order, release string) {
	if !w.ensure() {
		return
	}
	s := w.srv
	w.epN++
	ep := &episode{name: fmt.Sprintf("overlap listener=%d episode=%d %s/%s/%s", w.lis, w.epN, kind, order, release), kind: kind, order: order, release: release, second: "n/a"}
	ids := r.Perm(256)
	sessA, sessB := r.IntN(1000), r.IntN(1000)
	for sessB == sessA {
		sessB = r.IntN(1000)
	}
	codeA := []byte{40, 43}[r.IntN(2)]
	tokA := w.token(r)
	A := &odg{role: "request", kind: "request", auth: true, tok: hex.EncodeToString(tokA), sid: sidHexOf(sessA)}
	A.d = ovReq(r, codeA, byte(ids[0]), tokA, sessA, w.secret)
	B := &odg{kind: kind}
	switch kind {
	case "junk":
		B.d = ovJunk(r, byte(ids[r.IntN(2)]))
	case "bad-auth":
		tokB := w.token(r)
		B.tok, B.sid = hex.EncodeToString(tokB), sidHexOf(sessB)
		id := byte(ids[r.IntN(2)]) // the request's identifier, or another
		B.d = ovReq(r, []byte{40, 43}[r.IntN(2)], id, tokB, sessB, w.secret)
		switch r.IntN(4) {
		case 0:
			B.d[4+r.IntN(16)] ^= 1 << r.IntN(8)
		case 1:
			copy(B.d[4:20], make([]byte, 16))
		case 2:
			refSign(B.d, len(B.d), append(clone(w.secret), 'x'))
		default:
			copy(B.d[4:20], A.d[4:20]) // the held request's authenticator on another request
		}
	case "replay":
		B.d, B.auth, B.tok, B.sid = clone(A.d), true, A.tok, A.sid
	case "other-id":
		// the same request again under another identifier: every attribute equal, hence another authenticator
		B.d = clone(A.d)
		B.d[1] = byte(ids[1])
		refSign(B.d, len(B.d), w.secret)
		B.auth, B.tok, B.sid = true, A.tok, A.sid
	case "other-session":
		tokB := w.token(r)
		B.auth, B.tok, B.sid = true, hex.EncodeToString(tokB), sidHexOf(sessB)
		B.d = ovReq(r, []byte{40, 43}[r.IntN(2)], byte(ids[1]), tokB, sessB, w.secret)
	}
	if a, _ := refAuthentic(B.d, w.secret); a != B.auth {
		return // a corruption that happens to verify (cannot, short of an MD5 collision)
	}
	seq := []*odg{A, B}
	if order == "other-first" {
		seq = []*odg{B, A}
	}
	seq[0].role, seq[1].role = "X1", "X2"
	ep.dgs = seq

	if _, ok := s.ask("C"); !ok {
		run.Inconclusive(ep.name, "listener process gone")
		return
	}
	send := func(g *odg) bool {
		if _, err := w.sock.WriteToUDP(g.d, s.addr); err != nil {
			run.Inconclusive(ep.name, "send-error: "+err.Error())
			s.ask("O")
			return false
		}
		w.count("datagrams_sent", 1)
		return true
	}
	if !send(seq[0]) {
		return
	}
	if seq[0].auth {
		ep.held1 = s.waitFor(enterPred(seq[0].tok, seq[0].sid, 1), enterWait)
		if !ep.held1 {
			w.count("episodes_first_callback_not_seen_entering", 1)
		}
	}
	if !send(seq[1]) {
		return
	}
	if ep.held1 {
		ep.second = "unclassified"
		if q, ok := s.ask("W"); ok && q.Q != nil {
			switch {
			case q.Q.Queued:
				ep.second = "queued"
			case q.Q.Consumed:
				ep.second = "consumed"
			}
		}
		if seq[1].auth && ep.second != "queued" {
			nth := 1
			if seq[1].tok == seq[0].tok {
				nth = 2
			}
			ep.heldBoth = s.waitFor(enterPred(seq[1].tok, seq[1].sid, nth), 300*time.Millisecond)
		}
	} else if seq[1].auth {
		// inauthentic first: the request is the one that is held
		s.waitFor(enterPred(seq[1].tok, seq[1].sid, 1), enterWait)
	}
	// release
	var early [][]byte
	if held := w.heldSeqs(); len(held) >= 2 && release != "all-at-once" {
		first := held[0]
		if release == "last-in-first-out" {
			first = held[len(held)-1]
		}
		s.ask("R " + strconv.Itoa(first))
		// let that one finish (its reply comes back) before the rest is released; bounded, and not required
		if p, ok := w.recv(300 * time.Millisecond); ok {
			early = append(early, p)
		}
	}
	if _, ok := s.ask("O"); !ok {
		run.Inconclusive(ep.name, "listener process gone")
		return
	}
	if !w.settle(ep, early) {
		return
	}
	// what was observed
	switch {
	case ep.held1:
		w.count("overlap_episodes", 1)
		w.count("overlap_episodes_kind_"+kind, 1)
		w.count("overlap_second_datagram_"+ep.second+"_while_first_callback_held", 1)
		if ep.heldBoth {
			w.count("overlap_episodes_both_callbacks_held_at_once", 1)
		}
		if order == "other-first" {
			w.count("overlap_episodes_request_sent_second", 1)
		}
	default:
		w.count("sequence_episodes_inauthentic_first_kind_"+kind, 1)
	}
	if _, seen := ovSample.LoadOrStore(kind+order, true); !seen && order == "request-first" && kind == "junk" {
		run.Sample(ep.ctx())
	}
}

// burstEpisode: n authentic requests (distinct identifiers, tokens, sessions) back to back, droppable datagrams and
// one replay interleaved, to callbacks that are slow (each takes some milliseconds) or held until the whole burst is out.
func (w *ovWorker) burstEpisode(r *rand.Rand, variant string) {
	if !w.ensure() {
		return
	}
	s := w.srv
	w.epN++
	n := 4 + r.IntN(21)
	ep := &episode{name: fmt.Sprintf("overlap listener=%d episode=%d %s n=%d", w.lis, w.epN, variant, n), kind: variant, order: "burst", release: "all-at-once", second: "n/a"}
	ids := r.Perm(256)
	sess := r.Perm(1000)
	var reqs []*odg
	for i := 0; i < n; i++ {
		tok := w.token(r)
		g := &odg{role: fmt.Sprintf("b%02d", len(ep.dgs)), kind: "request", auth: true, tok: hex.EncodeToString(tok), sid: sidHexOf(sess[i])}
		g.d = ovReq(r, []byte{40, 43}[r.IntN(2)], byte(ids[i]), tok, sess[i], w.secret)
		ep.dgs = append(ep.dgs, g)
		reqs = append(reqs, g)
		switch x := r.IntN(10); {
		case x < 2:
			ep.dgs = append(ep.dgs, &odg{role: fmt.Sprintf("b%02d", len(ep.dgs)), kind: "junk", d: ovJunk(r, byte(ids[r.IntN(n)]))})
		case x == 2:
			tokB := w.token(r)
			b := &odg{role: fmt.Sprintf("b%02d", len(ep.dgs)), kind: "bad-auth", tok: hex.EncodeToString(tokB), sid: sidHexOf(sess[n+i])}
			b.d = ovReq(r, []byte{40, 43}[r.IntN(2)], byte(ids[r.IntN(n)]), tokB, sess[n+i], w.secret)
			b.d[4+r.IntN(16)] ^= 1 << r.IntN(8)
			if a, _ := refAuthentic(b.d, w.secret); !a {
				ep.dgs = append(ep.dgs, b)
			}
		case x == 3 && len(reqs) > 1:
			o := reqs[r.IntN(len(reqs)-1)]
			already := 0
			for _, g := range ep.dgs {
				if bytes.Equal(g.d, o.d) {
					already++
				}
			}
			if already == 1 {
				ep.dgs = append(ep.dgs, &odg{role: fmt.Sprintf("b%02d", len(ep.dgs)), kind: "replay", auth: true, d: clone(o.d), tok: o.tok, sid: o.sid})
			}
		}
	}
	slowMs := 0
	if variant == "burst-slow" {
		slowMs = 1 + r.IntN(3)
		if _, ok := s.ask("D " + strconv.Itoa(slowMs)); !ok {
			run.Inconclusive(ep.name, "listener process gone")
			return
		}
	} else if _, ok := s.ask("C"); !ok {
		run.Inconclusive(ep.name, "listener process gone")
		return
	}
	for _, g := range ep.dgs {
		if _, err := w.sock.WriteToUDP(g.d, s.addr); err != nil {
			run.Inconclusive(ep.name, "send-error: "+err.Error())
			s.ask("O")
			s.ask("D 0")
			return
		}
	}
	w.count("datagrams_sent", len(ep.dgs))
	if variant == "burst-held" {
		ep.held1 = s.waitFor(enterPred(reqs[0].tok, reqs[0].sid, 1), enterWait)
		if ep.held1 {
			ep.second = "unclassified"
			if q, ok := s.ask("W"); ok && q.Q != nil {
				switch {
				case q.Q.Queued:
					ep.second = "queued"
				case q.Q.Consumed:
					ep.second = "consumed"
				}
				if q.Q.Blocked >= 2 {
					ep.heldBoth = true
				}
			}
		}
		if _, ok := s.ask("O"); !ok {
			run.Inconclusive(ep.name, "listener process gone")
			return
		}
	}
	ok := w.settle(ep, nil)
	if slowMs > 0 && !s.dead {
		s.ask("D 0")
	}
	if !ok {
		return
	}
	w.count("burst_episodes", 1)
	w.count("burst_episodes_"+variant, 1)
	w.count("burst_requests", len(reqs))
	w.count("burst_datagrams", len(ep.dgs))
	if variant == "burst-held" {
		w.count("burst_rest_"+ep.second+"_while_first_callback_held", 1)
	}
	run.Distinct("burst_sizes", strconv.Itoa(n))
	if _, seen := ovSample.LoadOrStore(variant, true); !seen && variant == "burst-slow" {
		c := ep.ctx()
		if ds, _ := c["datagrams_in_send_order"].([]map[string]any); len(ds) > 6 {
			c["datagrams_in_send_order"] = ds[:6]
			c["datagrams_not_shown"] = len(ds) - 6
		}
		run.Sample(c)
	}
}

var ovKinds = []string{"junk", "bad-auth", "replay", "other-id", "other-session"}

func TestOverlapWhileHandlerRuns(t *testing.T) {
	nlis := run.Pick(16, 160)
	rounds := run.Pick(2, 3)
	nw := runtime.NumCPU() / 2
	if nw > 8 {
		nw = 8
	}
	if nw < 2 {
		nw = 2
	}
	var next atomic.Int64
	var wg sync.WaitGroup
	for wi := 0; wi < nw; wi++ {
		wg.Add(1)
		go func(wi int) {
			defer wg.Done()
			sock, err := net.ListenUDP("udp4", &net.UDPAddr{IP: net.IPv4(127, 0, 0, 1)})
			if err != nil {
				t.Errorf("sender socket: %v", err)
				return
			}
			defer sock.Close()
			sock.SetReadBuffer(1 << 20)
			w := &ovWorker{worker: &worker{id: wi, sock: sock, buf: make([]byte, 1<<16), t: t, local: map[string]int{}}}
			defer func() {
				if w.srv != nil && !w.srv.dead {
					w.srv.kill()
				}
				w.flush()
			}()
			for {
				li := int(next.Add(1)) - 1
				if li >= nlis || abortAll.Load() {
					return
				}
				r := run.SubRand("overlap", li)
				w.rng = run.SubRand("overlap-fence", li)
				w.secret = genSecret(r)
				w.mode = []string{"direct", "processor"}[li%2]
				w.vseed = uint64(run.Seed)<<32 ^ 0x0f0f0000 ^ uint64(li)<<8
				w.lis, w.epN = li, 0
				if !w.respawn() {
					return
				}
				w.prevTab = map[string][2]int{}
				w.count("overlap_listeners_mode_"+w.mode, 1)
				run.Distinct("secrets", hx(w.secret))
				type plan struct{ kind, order, release string }
				var plans []plan
				for round := 0; round < rounds; round++ {
					for _, k := range ovKinds {
						for _, o := range []string{"request-first", "other-first"} {
							rel := []string{"all-at-once", "first-in-first-out", "last-in-first-out"}[(round+len(plans))%3]
							plans = append(plans, plan{k, o, rel})
						}
					}
					plans = append(plans, plan{"burst-slow", "", ""}, plan{"burst-held", "", ""}, plan{"burst-slow", "", ""})
				}
				r.Shuffle(len(plans), func(i, j int) { plans[i], plans[j] = plans[j], plans[i] })
				unsettled := 0
				for _, p := range plans {
					if abortAll.Load() || unsettled >= 3 {
						break
					}
					before := w.local["episodes_not_settled"]
					if p.order == "" {
						w.burstEpisode(r, p.kind)
					} else {
						w.pairEpisode(r, p.kind, p.order, p.release)
					}
					if w.local["episodes_not_settled"] > before {
						unsettled++ // each costs a full bounded wait: after three the listener's remaining episodes are dropped
					}
				}
				if unsettled >= 3 {
					w.count("overlap_listeners_abandoned_not_settling", 1)
					if ovAbandoned.Add(1) >= 6 {
						abortAll.Store(true)
						run.Inconclusive("overlap workload", "stopped early: six listeners did not settle within the bounded waits three times each (every such episode is reported)")
					}
				}
				w.flush()
			}
		}(wi)
	}
	wg.Wait()
	run.Count("listener_processes_spawned_total", int(atomic.LoadInt64(&spawned)))
}
