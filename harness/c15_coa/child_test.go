package c15

// The listener process: the real radius.CoAServer, started through its real Start()
// on 127.0.0.1:0, with harness handlers that report every invocation on stdout.
// It is this same test binary re-executed with VERIF_C15_CHILD set, so that a panic in
// the listener goroutine (which nothing in bng recovers) is observed as a process death
// attributable to one datagram instead of taking the monitor down.

import (
	"bufio"
	"context"
	"encoding/hex"
	"encoding/json"
	"errors"
	"fmt"
	"math/rand/v2"
	"net"
	"os"
	"runtime"
	"strconv"
	"strings"
	"sync"
	"sync/atomic"
	"time"

	"go.uber.org/zap"

	"github.com/codelaboratoryltd/bng/pkg/radius"
)

// The harness's own session table for "processor" mode (a pure function, shared by the
// listener process and the oracle): sessions live-0 … live-999.
func sessN(id string) (int, bool) {
	if !strings.HasPrefix(id, "live-") {
		return 0, false
	}
	n, err := strconv.Atoi(id[5:])
	if err != nil || n < 0 || n >= 1000 || strconv.Itoa(n) != id[5:] {
		return 0, false
	}
	return n, true
}
func sessIP(n int) []byte  { return []byte{10, 9, byte(n / 250), byte(n%250 + 1)} }
func sessMAC(n int) string { return fmt.Sprintf("02:00:00:00:%02x:%02x", n>>8, n&0xff) }
func sessByIP(ip net.IP) int {
	v4 := ip.To4()
	if v4 == nil || v4[0] != 10 || v4[1] != 9 || v4[3] == 0 || v4[3] > 250 {
		return -1
	}
	n := int(v4[2])*250 + int(v4[3]) - 1
	if n >= 1000 {
		return -1
	}
	return n
}
func sessByMAC(m string) int {
	var hi, lo int
	if _, err := fmt.Sscanf(m, "02:00:00:00:%02x:%02x", &hi, &lo); err != nil || len(m) != 17 {
		return -1
	}
	n := hi<<8 | lo
	if n >= 1000 || sessMAC(n) != m {
		return -1
	}
	return n
}

func childMain() {
	mode := os.Getenv("VERIF_C15_CHILD")
	secret, _ := hex.DecodeString(os.Getenv("VERIF_C15_SECRET"))
	vseed, _ := strconv.ParseUint(os.Getenv("VERIF_C15_VSEED"), 10, 64)
	rng := rand.New(rand.NewPCG(vseed, 0xc15))

	var outMu sync.Mutex
	emit := func(e event) {
		b, _ := json.Marshal(e)
		b = append(b, '\n')
		outMu.Lock()
		os.Stdout.Write(b)
		outMu.Unlock()
	}

	// gate: lets the monitor hold session-changing callbacks (overlap workload). Open with no delay by default, in
	// which case pass() returns at once. tab is the harness-owned session table: how many times each session was
	// handed to a session-changing callback (policy update / termination).
	g := &gate{blocked: map[int]chan struct{}{}, emit: emit, tab: map[string]*[2]int{}}
	var rngMu sync.Mutex

	srv, err := radius.NewCoAServer(radius.CoAServerConfig{Address: "127.0.0.1:0", Secret: string(secret)}, zap.NewNop())
	if err != nil {
		fmt.Fprintln(os.Stderr, "c15 child: NewCoAServer:", err)
		os.Exit(4)
	}

	var coaInner radius.CoAHandler
	var discInner radius.DisconnectHandler
	if mode == "processor" {
		// the real CoAProcessor (pkg/radius/coa_handler.go) as the session-changing handler,
		// wired to the harness session table; every session change is reported.
		p := radius.NewCoAProcessor(zap.NewNop())
		info := func(n int) *radius.SessionInfo {
			hw, _ := net.ParseMAC(sessMAC(n))
			return &radius.SessionInfo{SessionID: "live-" + strconv.Itoa(n), Username: "u" + strconv.Itoa(n), MAC: hw, FramedIP: net.IP(sessIP(n)), State: "active", DownloadRateBPS: 1e6, UploadRateBPS: 1e6}
		}
		p.SetSessionLookup(func(id string) (*radius.SessionInfo, bool) {
			if n, ok := sessN(id); ok {
				return info(n), true
			}
			return nil, false
		})
		p.SetSessionLookupByIP(func(ip net.IP) (*radius.SessionInfo, bool) {
			if n := sessByIP(ip); n >= 0 {
				return info(n), true
			}
			return nil, false
		})
		p.SetSessionLookupByMAC(func(m string) (*radius.SessionInfo, bool) {
			if n := sessByMAC(m); n >= 0 {
				return info(n), true
			}
			return nil, false
		})
		p.SetSessionTerminator(func(ctx context.Context, id string, reason uint32) error {
			g.pass("term", hex.EncodeToString([]byte(id)), "")
			g.apply(hex.EncodeToString([]byte(id)), 1)
			emit(event{K: "term", SID: hex.EncodeToString([]byte(id))})
			if n, _ := sessN(id); n%7 == 3 {
				return errors.New("session busy")
			}
			return nil
		})
		p.SetSessionPolicyUpdater(func(ctx context.Context, id string, u *radius.PolicyUpdate) error {
			kp.addPolicy(id, u) // retention workload: the update object is kept beyond the callback's return (no-op unless enabled)
			g.pass("policy", hex.EncodeToString([]byte(id)), "")
			g.apply(hex.EncodeToString([]byte(id)), 0)
			emit(event{K: "policy", SID: hex.EncodeToString([]byte(id))})
			if n, _ := sessN(id); n%5 == 4 {
				return errors.New("policy store unavailable")
			}
			return nil
		})
		p.SetAuditLogger(radius.NewDefaultAuditLogger(zap.NewNop()))
		coaInner, discInner = p.HandleCoA, p.HandleDisconnect
	} else {
		causes := []uint32{0, 0, 201, 401, 402, 403, 404, 501, 503, 504, 506, 0xFFFFFFFF}
		verdict := func() (bool, uint32, string) {
			rngMu.Lock() // handlers may run concurrently on a listener that dispatches them on goroutines
			defer rngMu.Unlock()
			ok := rng.IntN(2) == 0
			ec := causes[rng.IntN(len(causes))]
			msg := make([]byte, 0)
			if rng.IntN(3) > 0 {
				msg = make([]byte, 1+rng.IntN(80))
				for i := range msg {
					if rng.IntN(4) == 0 {
						msg[i] = byte(rng.IntN(256))
					} else {
						msg[i] = byte(32 + rng.IntN(95))
					}
				}
			}
			return ok, ec, string(msg)
		}
		coaInner = func(ctx context.Context, req *radius.CoARequest) *radius.CoAResponse {
			g.pass("coa", hex.EncodeToString([]byte(req.SessionID)), hex.EncodeToString([]byte(req.Username)))
			if req.SessionID != "" {
				g.apply(hex.EncodeToString([]byte(req.SessionID)), 0)
			}
			ok, ec, msg := verdict()
			return &radius.CoAResponse{Success: ok, ErrorCause: ec, Message: msg}
		}
		discInner = func(ctx context.Context, req *radius.DisconnectRequest) *radius.DisconnectResponse {
			g.pass("disc", hex.EncodeToString([]byte(req.SessionID)), hex.EncodeToString([]byte(req.Username)))
			if req.SessionID != "" {
				g.apply(hex.EncodeToString([]byte(req.SessionID)), 1)
			}
			ok, ec, msg := verdict()
			return &radius.DisconnectResponse{Success: ok, ErrorCause: ec, Message: msg}
		}
	}
	hs := func(s string) string { return hex.EncodeToString([]byte(s)) }
	srv.SetCoAHandler(func(ctx context.Context, req *radius.CoARequest) *radius.CoAResponse {
		inflight.Add(1)
		defer inflight.Add(-1)
		kp.addCoA(req) // retention workload: pointer kept + deep copy taken at hand-over (no-op unless enabled)
		resp := coaInner(ctx, req)
		e := event{K: "coa", SID: hs(req.SessionID), User: hs(req.Username), CS: hs(req.CallingStation), FIP: hex.EncodeToString(req.FramedIP), NAS: hex.EncodeToString(req.NASIPAddress),
			Filter: hs(req.FilterID), STO: req.SessionTimeout, ITO: req.IdleTimeout, OK: resp.Success, EC: resp.ErrorCause, Msg: hs(resp.Message)}
		for _, a := range req.Attributes {
			e.Attrs = append(e.Attrs, evAttr{T: int(a.Type), V: hex.EncodeToString(a.Value)})
		}
		emit(e)
		return resp
	})
	srv.SetDisconnectHandler(func(ctx context.Context, req *radius.DisconnectRequest) *radius.DisconnectResponse {
		inflight.Add(1)
		defer inflight.Add(-1)
		kp.addDisc(req)
		resp := discInner(ctx, req)
		emit(event{K: "disc", SID: hs(req.SessionID), User: hs(req.Username), CS: hs(req.CallingStation), FIP: hex.EncodeToString(req.FramedIP), NAS: hex.EncodeToString(req.NASIPAddress),
			OK: resp.Success, EC: resp.ErrorCause, Msg: hs(resp.Message)})
		return resp
	})

	if err := srv.Start(context.Background()); err != nil {
		fmt.Fprintln(os.Stderr, "c15 child: Start:", err)
		os.Exit(4)
	}
	ua, _ := srv.VerifC15Addr().(*net.UDPAddr)
	if ua == nil {
		fmt.Fprintln(os.Stderr, "c15 child: no listener address")
		os.Exit(4)
	}
	emit(event{Reply: "READY " + strconv.Itoa(ua.Port)})

	in := bufio.NewScanner(os.Stdin)
	for in.Scan() {
		c := in.Text()
		switch {
		case c == "E": // everything emitted so far precedes this reply on the pipe
			emit(event{Reply: "E"})
		case c == "Q" || c == "S": // reply once the listener is quiescent (see waitQuiescent), or after a bounded wait
			q := waitQuiescent(ua.Port, 3*time.Second)
			emit(event{Reply: c, Q: &q})
		case c == "W": // has the datagram just sent been consumed, or is it waiting behind a held handler?
			q := waitConsumed(ua.Port, 400*time.Millisecond)
			q.Blocked = g.nblocked()
			emit(event{Reply: c, Q: &q})
		case c == "C": // hold session-changing callbacks from now on
			g.setClosed(true)
			emit(event{Reply: c})
		case c == "O": // release every held callback and stop holding
			g.setClosed(false)
			emit(event{Reply: c})
		case strings.HasPrefix(c, "R "): // release one held callback
			n, _ := strconv.Atoi(c[2:])
			g.release(n)
			emit(event{Reply: c})
		case strings.HasPrefix(c, "D "): // session-changing callbacks take this many milliseconds
			n, _ := strconv.Atoi(c[2:])
			g.setDelay(time.Duration(n) * time.Millisecond)
			emit(event{Reply: c})
		case c == "T": // the session table
			emit(event{Reply: c, Tab: g.table()})
		case c == "K" || c == "V" || c == "A" || c == "F": // retention workload (retain_test.go): keep / verify / apply deferred / forget
			emit(kp.command(c))
		case c == "X":
			os.Exit(0)
		}
	}
	os.Exit(0) // parent went away
}

// inflight: harness handlers entered and not yet returned (whatever goroutine the listener runs them on).
var inflight atomic.Int64

// gate holds session-changing callbacks until the monitor releases them.
type gate struct {
	mu      sync.Mutex
	closed  bool
	delay   time.Duration
	seq     int
	blocked map[int]chan struct{}
	tab     map[string]*[2]int
	emit    func(event)
}

func (g *gate) pass(k, sidHex, userHex string) {
	g.mu.Lock()
	d := g.delay
	if !g.closed {
		g.mu.Unlock()
		if d > 0 {
			time.Sleep(d)
		}
		return
	}
	g.seq++
	n := g.seq
	ch := make(chan struct{})
	g.blocked[n] = ch
	g.mu.Unlock()
	g.emit(event{K: "enter", Cb: k, SID: sidHex, User: userHex, Seq: n})
	<-ch
}

func (g *gate) apply(sidHex string, what int) {
	g.mu.Lock()
	c := g.tab[sidHex]
	if c == nil {
		c = &[2]int{}
		g.tab[sidHex] = c
	}
	c[what]++
	g.mu.Unlock()
}

func (g *gate) table() map[string][2]int {
	g.mu.Lock()
	defer g.mu.Unlock()
	out := make(map[string][2]int, len(g.tab))
	for k, v := range g.tab {
		out[k] = *v
	}
	return out
}

func (g *gate) setClosed(c bool) {
	g.mu.Lock()
	g.closed = c
	if !c {
		for n, ch := range g.blocked {
			close(ch)
			delete(g.blocked, n)
		}
	}
	g.mu.Unlock()
}

func (g *gate) setDelay(d time.Duration) { g.mu.Lock(); g.delay = d; g.mu.Unlock() }

func (g *gate) release(n int) {
	g.mu.Lock()
	if ch, ok := g.blocked[n]; ok {
		close(ch)
		delete(g.blocked, n)
	}
	g.mu.Unlock()
}

func (g *gate) nblocked() int { g.mu.Lock(); defer g.mu.Unlock(); return len(g.blocked) }

// waitQuiescent replies once nothing is left to happen in the listener, whatever its threading: the socket queue
// is empty, no harness handler is in flight, a goroutine of package radius is parked in its socket read and no other
// goroutine of package radius is running, runnable, sleeping or waiting for a lock (goroutines parked on a channel,
// i.e. idle workers, are allowed) - observed on two consecutive polls. After max the last observation is returned with
// Quiescent=false.
func waitQuiescent(port int, max time.Duration) quiesce {
	deadline := time.Now().Add(max)
	streak := 0
	var q quiesce
	for {
		q.RxQ = udpRxQueue(port)
		q.Loop, q.Readers, q.Busy = radiusGoroutines()
		q.Inflight = int(inflight.Load())
		q.Polls++
		q.Quiescent = q.RxQ == 0 && q.Inflight == 0 && q.Busy == 0 && q.Readers >= 1
		if q.Quiescent {
			streak++
			if streak >= 2 {
				return q
			}
		} else {
			streak = 0
		}
		if time.Now().After(deadline) {
			q.Quiescent = false
			return q
		}
		time.Sleep(time.Millisecond)
	}
}

// waitConsumed classifies what became of the datagram the monitor has just sent while a handler is held:
// Consumed - the socket queue is empty and a reader is parked in its read again (a listener that reads on while a
// handler runs); Queued - the datagram sits in the socket queue and every goroutine of package radius is parked (a
// listener that handles one datagram at a time). It is used to label overlap episodes, never to judge them.
func waitConsumed(port int, max time.Duration) quiesce {
	deadline := time.Now().Add(max)
	cs, qs := 0, 0
	var q quiesce
	for {
		q.RxQ = udpRxQueue(port)
		q.Loop, q.Readers, q.Busy = radiusGoroutines()
		q.Inflight = int(inflight.Load())
		switch {
		case q.RxQ == 0 && q.Busy == 0 && q.Readers >= 1:
			cs, qs = cs+1, 0
		case q.RxQ > 0 && q.Busy == 0 && q.Readers == 0:
			cs, qs = 0, qs+1
		default:
			cs, qs = 0, 0
		}
		if cs >= 2 {
			q.Consumed = true
			return q
		}
		if qs >= 2 {
			q.Queued = true
			return q
		}
		if time.Now().After(deadline) {
			return q
		}
		time.Sleep(time.Millisecond)
	}
}

// udpRxQueue reads the receive-queue size of the UDP socket bound to 127.0.0.1:port from /proc/net/udp (-1: not found).
func udpRxQueue(port int) int {
	b, err := os.ReadFile("/proc/net/udp")
	if err != nil {
		return -1
	}
	want := fmt.Sprintf("0100007F:%04X", port)
	for _, l := range strings.Split(string(b), "\n") {
		f := strings.Fields(l)
		if len(f) < 5 || f[1] != want {
			continue
		}
		if i := strings.IndexByte(f[4], ':'); i >= 0 {
			n, err := strconv.ParseInt(f[4][i+1:], 16, 64)
			if err == nil {
				return int(n)
			}
		}
	}
	return -1
}

var stackBuf = make([]byte, 1<<20)

// radiusGoroutines looks at every goroutine with a frame of bng's package radius on its stack: loop is the scheduler
// state of the one running (*CoAServer).receiveLoop ("absent" if there is none), readers the number parked in "IO wait"
// (a socket read), busy the number that are neither parked in a read nor parked on a channel.
func radiusGoroutines() (loop string, readers, busy int) {
	buf := stackBuf[:runtime.Stack(stackBuf, true)]
	loop = "absent"
	for _, blk := range strings.Split(string(buf), "\n\n") {
		if k := strings.Index(blk, "\ncreated by "); k >= 0 {
			blk = blk[:k] // frames only: where the goroutine is, not who started it
		}
		if !strings.Contains(blk, "bng/pkg/radius.") {
			continue
		}
		st := ""
		if i, j := strings.IndexByte(blk, '['), strings.IndexByte(blk, ']'); i >= 0 && j > i {
			st = blk[i+1 : j]
		}
		if k := strings.IndexByte(st, ','); k >= 0 {
			st = st[:k]
		}
		if strings.Contains(blk, "(*CoAServer).receiveLoop") {
			loop = st
		}
		switch st {
		case "IO wait":
			readers++
		case "chan receive", "select", "chan send":
		default:
			busy++
		}
	}
	return
}
