package c15

// The listener process: the real radius.CoAServer, started through its real Start()
// on 127.0.0.1:0, with harness handlers that report every invocation on stdout.
// It is this same test binary re-executed with VERIF_C15_CHILD set, so that a panic in
// the listener goroutine (which nothing in bng recovers) is observed as a process death
// attributable to one datagram instead of taking the monitor down.

import (
	"bufio"
	"context"
	"encoding/hex"
	"encoding/json"
	"errors"
	"fmt"
	"math/rand/v2"
	"net"
	"os"
	"runtime"
	"strconv"
	"strings"
	"sync"
	"time"

	"go.uber.org/zap"

	"github.com/codelaboratoryltd/bng/pkg/radius"
)

// The harness's own session table for "processor" mode (a pure function, shared by the
// listener process and the oracle): sessions live-0 … live-999.
func sessN(id string) (int, bool) {
	if !strings.HasPrefix(id, "live-") {
		return 0, false
	}
	n, err := strconv.Atoi(id[5:])
	if err != nil || n < 0 || n >= 1000 || strconv.Itoa(n) != id[5:] {
		return 0, false
	}
	return n, true
}
func sessIP(n int) []byte  { return []byte{10, 9, byte(n / 250), byte(n%250 + 1)} }
func sessMAC(n int) string { return fmt.Sprintf("02:00:00:00:%02x:%02x", n>>8, n&0xff) }
func sessByIP(ip net.IP) int {
	v4 := ip.To4()
	if v4 == nil || v4[0] != 10 || v4[1] != 9 || v4[3] == 0 || v4[3] > 250 {
		return -1
	}
	n := int(v4[2])*250 + int(v4[3]) - 1
	if n >= 1000 {
		return -1
	}
	return n
}
func sessByMAC(m string) int {
	var hi, lo int
	if _, err := fmt.Sscanf(m, "02:00:00:00:%02x:%02x", &hi, &lo); err != nil || len(m) != 17 {
		return -1
	}
	n := hi<<8 | lo
	if n >= 1000 || sessMAC(n) != m {
		return -1
	}
	return n
}

func childMain() {
	mode := os.Getenv("VERIF_C15_CHILD")
	secret, _ := hex.DecodeString(os.Getenv("VERIF_C15_SECRET"))
	vseed, _ := strconv.ParseUint(os.Getenv("VERIF_C15_VSEED"), 10, 64)
	rng := rand.New(rand.NewPCG(vseed, 0xc15))

	var outMu sync.Mutex
	emit := func(e event) {
		b, _ := json.Marshal(e)
		b = append(b, '\n')
		outMu.Lock()
		os.Stdout.Write(b)
		outMu.Unlock()
	}

	srv, err := radius.NewCoAServer(radius.CoAServerConfig{Address: "127.0.0.1:0", Secret: string(secret)}, zap.NewNop())
	if err != nil {
		fmt.Fprintln(os.Stderr, "c15 child: NewCoAServer:", err)
		os.Exit(4)
	}

	var coaInner radius.CoAHandler
	var discInner radius.DisconnectHandler
	if mode == "processor" {
		// the real CoAProcessor (pkg/radius/coa_handler.go) as the session-changing handler,
		// wired to the harness session table; every session change is reported.
		p := radius.NewCoAProcessor(zap.NewNop())
		info := func(n int) *radius.SessionInfo {
			hw, _ := net.ParseMAC(sessMAC(n))
			return &radius.SessionInfo{SessionID: "live-" + strconv.Itoa(n), Username: "u" + strconv.Itoa(n), MAC: hw, FramedIP: net.IP(sessIP(n)), State: "active", DownloadRateBPS: 1e6, UploadRateBPS: 1e6}
		}
		p.SetSessionLookup(func(id string) (*radius.SessionInfo, bool) {
			if n, ok := sessN(id); ok {
				return info(n), true
			}
			return nil, false
		})
		p.SetSessionLookupByIP(func(ip net.IP) (*radius.SessionInfo, bool) {
			if n := sessByIP(ip); n >= 0 {
				return info(n), true
			}
			return nil, false
		})
		p.SetSessionLookupByMAC(func(m string) (*radius.SessionInfo, bool) {
			if n := sessByMAC(m); n >= 0 {
				return info(n), true
			}
			return nil, false
		})
		p.SetSessionTerminator(func(ctx context.Context, id string, reason uint32) error {
			emit(event{K: "term", SID: hex.EncodeToString([]byte(id))})
			if n, _ := sessN(id); n%7 == 3 {
				return errors.New("session busy")
			}
			return nil
		})
		p.SetSessionPolicyUpdater(func(ctx context.Context, id string, u *radius.PolicyUpdate) error {
			emit(event{K: "policy", SID: hex.EncodeToString([]byte(id))})
			if n, _ := sessN(id); n%5 == 4 {
				return errors.New("policy store unavailable")
			}
			return nil
		})
		p.SetAuditLogger(radius.NewDefaultAuditLogger(zap.NewNop()))
		coaInner, discInner = p.HandleCoA, p.HandleDisconnect
	} else {
		causes := []uint32{0, 0, 201, 401, 402, 403, 404, 501, 503, 504, 506, 0xFFFFFFFF}
		verdict := func() (bool, uint32, string) {
			ok := rng.IntN(2) == 0
			ec := causes[rng.IntN(len(causes))]
			msg := make([]byte, 0)
			if rng.IntN(3) > 0 {
				msg = make([]byte, 1+rng.IntN(80))
				for i := range msg {
					if rng.IntN(4) == 0 {
						msg[i] = byte(rng.IntN(256))
					} else {
						msg[i] = byte(32 + rng.IntN(95))
					}
				}
			}
			return ok, ec, string(msg)
		}
		coaInner = func(ctx context.Context, req *radius.CoARequest) *radius.CoAResponse {
			ok, ec, msg := verdict()
			return &radius.CoAResponse{Success: ok, ErrorCause: ec, Message: msg}
		}
		discInner = func(ctx context.Context, req *radius.DisconnectRequest) *radius.DisconnectResponse {
			ok, ec, msg := verdict()
			return &radius.DisconnectResponse{Success: ok, ErrorCause: ec, Message: msg}
		}
	}
	hs := func(s string) string { return hex.EncodeToString([]byte(s)) }
	srv.SetCoAHandler(func(ctx context.Context, req *radius.CoARequest) *radius.CoAResponse {
		resp := coaInner(ctx, req)
		e := event{K: "coa", SID: hs(req.SessionID), User: hs(req.Username), CS: hs(req.CallingStation), FIP: hex.EncodeToString(req.FramedIP), NAS: hex.EncodeToString(req.NASIPAddress),
			Filter: hs(req.FilterID), STO: req.SessionTimeout, ITO: req.IdleTimeout, OK: resp.Success, EC: resp.ErrorCause, Msg: hs(resp.Message)}
		for _, a := range req.Attributes {
			e.Attrs = append(e.Attrs, evAttr{T: int(a.Type), V: hex.EncodeToString(a.Value)})
		}
		emit(e)
		return resp
	})
	srv.SetDisconnectHandler(func(ctx context.Context, req *radius.DisconnectRequest) *radius.DisconnectResponse {
		resp := discInner(ctx, req)
		emit(event{K: "disc", SID: hs(req.SessionID), User: hs(req.Username), CS: hs(req.CallingStation), FIP: hex.EncodeToString(req.FramedIP), NAS: hex.EncodeToString(req.NASIPAddress),
			OK: resp.Success, EC: resp.ErrorCause, Msg: hs(resp.Message)})
		return resp
	})

	if err := srv.Start(context.Background()); err != nil {
		fmt.Fprintln(os.Stderr, "c15 child: Start:", err)
		os.Exit(4)
	}
	ua, _ := srv.VerifC15Addr().(*net.UDPAddr)
	if ua == nil {
		fmt.Fprintln(os.Stderr, "c15 child: no listener address")
		os.Exit(4)
	}
	emit(event{Reply: "READY " + strconv.Itoa(ua.Port)})

	in := bufio.NewScanner(os.Stdin)
	for in.Scan() {
		switch in.Text() {
		case "E": // everything emitted so far precedes this reply on the pipe
			emit(event{Reply: "E"})
		case "Q": // reply once the listener is quiescent: socket queue empty and receiveLoop parked in its read
			q := waitQuiescent(ua.Port, 3*time.Second)
			emit(event{Reply: "Q", Q: &q})
		case "X":
			os.Exit(0)
		}
	}
	os.Exit(0) // parent went away
}

func waitQuiescent(port int, max time.Duration) quiesce {
	deadline := time.Now().Add(max)
	streak := 0
	var q quiesce
	for {
		q.RxQ = udpRxQueue(port)
		q.Loop = loopState()
		q.Quiescent = q.RxQ == 0 && strings.HasPrefix(q.Loop, "IO wait")
		if q.Quiescent {
			streak++
			if streak >= 3 {
				return q
			}
		} else {
			streak = 0
		}
		if time.Now().After(deadline) {
			q.Quiescent = false
			return q
		}
		time.Sleep(2 * time.Millisecond)
	}
}

// udpRxQueue reads the receive-queue size of the UDP socket bound to 127.0.0.1:port from /proc/net/udp (-1: not found).
func udpRxQueue(port int) int {
	b, err := os.ReadFile("/proc/net/udp")
	if err != nil {
		return -1
	}
	want := fmt.Sprintf("0100007F:%04X", port)
	for _, l := range strings.Split(string(b), "\n") {
		f := strings.Fields(l)
		if len(f) < 5 || f[1] != want {
			continue
		}
		if i := strings.IndexByte(f[4], ':'); i >= 0 {
			n, err := strconv.ParseInt(f[4][i+1:], 16, 64)
			if err == nil {
				return int(n)
			}
		}
	}
	return -1
}

// loopState returns the scheduler state of the goroutine running (*CoAServer).receiveLoop ("IO wait" when parked in ReadFromUDP).
func loopState() string {
	buf := make([]byte, 1<<20)
	buf = buf[:runtime.Stack(buf, true)]
	for _, blk := range strings.Split(string(buf), "\n\n") {
		if !strings.Contains(blk, "(*CoAServer).receiveLoop") {
			continue
		}
		i, j := strings.IndexByte(blk, '['), strings.IndexByte(blk, ']')
		if i >= 0 && j > i {
			return blk[i+1 : j]
		}
	}
	return "absent"
}
