package c15

// C15 — CoA/Disconnect requests are acted on only if authentic.
//
// The real radius.CoAServer listens on loopback UDP in a child process (child_test.go); this
// process sends it datagrams, observes (a) every handler invocation / session change reported
// by the harness-installed handlers and (b) every datagram that comes back on the sender
// socket, and judges both against the independent RFC 5176 oracle of oracle_test.go.
//
// Settling: after each datagram d an authentic probe request ("fence") is sent from the same
// socket. On a listener that handles one datagram at a time, loopback UDP being FIFO, everything
// d caused has happened once the fence's reply has arrived. Nothing here relies on that being
// the listener's threading: after the probes' replies the listener process is asked over the
// control pipe to report quiescence (socket queue empty, no harness handler in flight, a reader
// parked in its socket read and no other goroutine of package radius active - child_test.go),
// and only then are the datagrams that came back and the handler events collected. Probe replies
// are matched by identifier, in whatever order they arrive. Every wait is bounded: a case ends
// held, violated or inconclusive on its own, and a listener that does not settle is replaced.

import (
	"bufio"
	"bytes"
	"encoding/hex"
	"encoding/json"
	"fmt"
	"io"
	"net"
	"os"
	"os/exec"
	"runtime"
	"strconv"
	"strings"
	"sync"
	"sync/atomic"
	"syscall"
	"testing"
	"time"

	"math/rand/v2"

	"verif/harness/internal/vk"
)

var run *vk.Run

func TestMain(m *testing.M) {
	if os.Getenv("VERIF_C15_CHILD") != "" {
		childMain()
		return
	}
	run = vk.Start("C15", "exploration")
	run.Rule("for each of N seeded authentic CoA/Disconnect requests (both codes, 0-12 attributes, own secret of 1-64 octets incl. non-ASCII/NUL and leading/trailing white space, own listener process; every third listener runs the real CoAProcessor of coa_handler.go as its handler): the request itself; every single-bit flip of its first 64 octets; every single-octet substitution beyond; the length field set to every value 0..len+4 and far values; truncation at every octet; datagrams shorter than 20 octets with a consistent length field; length field shortened and re-signed (authentic prefix + unauthenticated tail); padding beyond L incl. forged attributes and >4096 octets; the request signed with 13+ other secrets (prefixes, extensions, one-bit neighbours, empty); classic wrong authenticators; authentic packets with 16 other codes; authentic requests with broken attribute regions; 40 random datagrams. Every datagram goes over loopback UDP to the real listener started by CoAServer.Start. non-trivial = distinct (secret, datagram) that passes the size checks (len >= 20 and 20 <= L <= len), so that whether it is acted on is decided by the MD5 comparison or later" + ". ALSO " +
		"overlap workload (overlap_test.go), per listener process (direct handlers / real CoAProcessor alternating, own secret): episodes X1, X2 where X1 is an authentic request whose session-changing callback (handler, or the processor's policy updater / terminator) is held by the monitor until released and X2 - sent only after the listener process reported X1's callback entered - is each of: junk, a request with a bad authenticator (same or other identifier), a byte-identical replay of X1, the same request under another identifier, an authentic request for another session; both orders; release all at once / first-in-first-out / last-in-first-out; plus bursts of 4-24 back-to-back authentic requests (distinct identifier, token, session) with junk, bad-authenticator requests and one replay interleaved, to callbacks that take 1-3 ms each or are held until the burst is out. An episode counts as an overlap only if the first callback was observed held when the second datagram was sent; what became of the second datagram meanwhile (waiting in the socket queue / consumed) is observed, not assumed" + ". ALSO " +
		"retention workload (retain_test.go), per listener process (direct handlers / real CoAProcessor, own secret), episodes: 1-3 authentic requests (session named by Acct-Session-Id, Framed-IP only, Calling-Station-Id only, unknown id + Framed-IP, or all three; NAS-IP, Filter-Id, time-outs, Class, vendor-specific, a long Reply-Message; attributes in random order) are accepted by handlers that KEEP the request object (pointer + deep copy taken at hand-over; processor listeners also keep the *PolicyUpdate given to the policy updater); then 9-12 later datagrams, every kind at least once per episode: inauthentic request with the layout of a kept request naming another subscriber, other inauthentic request, truncated request (also a prefix of the kept one), junk, authentic request for another session, 4096 octets of a recognisable pattern, 4096-octet plausible request with a wrong authenticator, more than 4096 octets, authentic 4096-octet request. Each datagram is sent alone, judged by the ordinary clauses once the listener process reported quiescence, and then EVERY kept object is compared field by field with its copy; on direct listeners the kept requests are finally applied through the real CoAProcessor (deferred application) and the session changes judged. A comparison counts only if the listener process reported the object among those it keeps")
	run.Assume("a datagram for which sendto(2) on loopback has returned is in the listener's socket queue; the listener may handle datagrams in any order and on any goroutine: a case is collected only after its probe was answered and the listener process reported quiescence (socket queue empty, no harness handler in flight, a reader of package radius parked in its socket read, no other goroutine of package radius active), all within bounded waits - otherwise the case is inconclusive")
	run.Assume("a byte-identical copy of an authentic request is itself an authentic datagram: acting on it again and answering it again is accepted, as is suppressing it (between 1 and k handler calls and replies for k copies, each reply verifying against the request); copies are sent only by the overlap workload")
	run.Assume("octets beyond the RADIUS length field are padding (RFC 2865 s.3); authentic packets with other codes / unparsable attributes may be dropped or NAKed but must not reach a handler; zero-length attribute values and a single stray trailing octet are accepted either way; authentic packets with L > 4096 are not required to be acted on")
	run.Assume("a handler may keep the request object it is given beyond its own return (bng documents no lifetime limit and its own CoAProcessor hands the object to an audit logger): a later datagram of any kind changing such an object is an effect of that datagram; identifier and Request Authenticator are not part of bng's request objects and are judged on the replies only")
	run.Assume("the mutation workload never sends an exact duplicate of an authentic request to one listener process (a duplicate-suppressing listener would be correct)")
	run.Floor("authentic_requests_acted_on", 100)
	run.Floor("inauthentic_reaching_md5_comparison_silent", 5000)
	run.Floor("responses_verified", 100)
	for _, k := range ovKinds {
		run.Floor("overlap_episodes_kind_"+k, 20)
	}
	run.Floor("overlap_episodes", 200)
	run.Floor("burst_episodes", 60)
	run.Floor("responses_verified_after_overlap", 800)
	run.Floor("responses_verified_after_overlap_held", 300)
	run.Floor("responses_verified_after_overlap_burst", 500)
	// retention workload (retain_test.go)
	run.Floor("retention_episodes", 80)
	run.Floor("requests_retained", 300)
	run.Floor("retained_objects_compared", 3000)
	for _, k := range rtLaterKinds {
		run.Floor("later_datagrams_kind_"+k, 60)
		run.Floor("retained_objects_compared_after_later_"+k, 200)
	}
	run.Floor("later_datagrams_filling_the_receive_buffer", 250)
	run.Floor("deferred_applications_judged", 150)
	run.Floor("deferred_changes_applied_session_found_by_address", 60)
	run.Floor("policy_update_objects_retained", 20)
	code := m.Run()
	ec := run.Finish()
	if code != 0 && ec == 0 {
		ec = 2
	}
	os.Exit(ec)
}

// ---------------------------------------------------------------- listener process

type srvProc struct {
	cmd     *exec.Cmd
	in      io.WriteCloser
	lines   chan event // closed when the process' stdout reaches EOF (process gone)
	stderr  *bytes.Buffer
	addr    *net.UDPAddr
	pending []event
	dead    bool
}

var spawned int64

func spawn(mode string, secret []byte, vseed uint64) (*srvProc, error) {
	cmd := exec.Command(os.Args[0])
	cmd.Env = append(os.Environ(), "VERIF_C15_CHILD="+mode, "VERIF_C15_SECRET="+hex.EncodeToString(secret), "VERIF_C15_VSEED="+strconv.FormatUint(vseed, 10), "GOMAXPROCS=2", "GOTRACEBACK=all")
	in, err := cmd.StdinPipe()
	if err != nil {
		return nil, err
	}
	out, err := cmd.StdoutPipe()
	if err != nil {
		return nil, err
	}
	s := &srvProc{cmd: cmd, in: in, lines: make(chan event, 4096), stderr: &bytes.Buffer{}}
	cmd.Stderr = s.stderr
	if err := cmd.Start(); err != nil {
		return nil, err
	}
	atomic.AddInt64(&spawned, 1)
	go func() {
		sc := bufio.NewScanner(out)
		sc.Buffer(make([]byte, 1<<16), 1<<24)
		for sc.Scan() {
			var e event
			if json.Unmarshal(sc.Bytes(), &e) == nil {
				s.lines <- e
			}
		}
		close(s.lines)
	}()
	select {
	case e, ok := <-s.lines:
		if !ok || !strings.HasPrefix(e.Reply, "READY ") {
			s.kill()
			return nil, fmt.Errorf("listener process did not become ready: %s", s.stderr.String())
		}
		port, _ := strconv.Atoi(strings.TrimPrefix(e.Reply, "READY "))
		s.addr = &net.UDPAddr{IP: net.IPv4(127, 0, 0, 1), Port: port}
	case <-time.After(30 * time.Second):
		s.kill()
		return nil, fmt.Errorf("listener process start timed out")
	}
	return s, nil
}

func (s *srvProc) kill() {
	if s.cmd.Process != nil {
		s.cmd.Process.Kill()
	}
	s.in.Close()
	for range s.lines {
	}
	s.cmd.Wait()
	s.dead = true
}

// poll moves whatever the process has reported so far into pending; it reports whether the process is gone.
func (s *srvProc) poll() bool {
	for !s.dead {
		select {
		case e, ok := <-s.lines:
			if !ok {
				s.dead = true
				s.cmd.Wait()
				break
			}
			s.pending = append(s.pending, e)
		default:
			return s.dead
		}
	}
	return s.dead
}

// ask sends a control command and waits for its reply (or the process' death); events reported before the reply are kept in pending.
func (s *srvProc) ask(c string) (*event, bool) {
	if s.dead {
		return nil, false
	}
	if _, err := io.WriteString(s.in, c+"\n"); err != nil {
		// fall through: the reader will see EOF
	}
	to := time.NewTimer(askWait)
	defer to.Stop()
	for {
		select {
		case e, ok := <-s.lines:
			if !ok {
				s.dead = true
				s.cmd.Wait()
				return nil, false
			}
			if e.Reply == c {
				return &e, true
			}
			s.pending = append(s.pending, e)
		case <-to.C:
			// a listener process that does not answer its control pipe is of no further use
			s.kill()
			return nil, false
		}
	}
}

const askWait = 20 * time.Second

// settled asks the listener process to report quiescence (child_test.go waitQuiescent: up to 3 s each time); on a machine
// this loaded a second bounded wait is granted before the case is given up as not settled. ok=false: the process is gone.
func (s *srvProc) settled() (q *quiesce, ok bool) {
	for i := 0; i < 2; i++ {
		r, alive := s.ask("S")
		if !alive {
			return nil, false
		}
		q = r.Q
		if q != nil && q.Quiescent {
			break
		}
	}
	return q, true
}

// waitFor waits (bounded) until the listener process has reported an event satisfying pred; everything read stays in pending.
func (s *srvProc) waitFor(pred func(*event) bool, d time.Duration) bool {
	for i := range s.pending {
		if pred(&s.pending[i]) {
			return true
		}
	}
	if s.dead {
		return false
	}
	to := time.NewTimer(d)
	defer to.Stop()
	for {
		select {
		case e, ok := <-s.lines:
			if !ok {
				s.dead = true
				s.cmd.Wait()
				return false
			}
			s.pending = append(s.pending, e)
			if pred(&e) {
				return true
			}
		case <-to.C:
			return false
		}
	}
}

func (s *srvProc) take() []event {
	var out []event
	for _, e := range s.pending {
		if e.Reply == "" {
			out = append(out, e)
		}
	}
	s.pending = nil
	return out
}

// ---------------------------------------------------------------- worker

type worker struct {
	id       int
	sock     *net.UDPConn
	buf      []byte
	rng      *rand.Rand // fence tokens only
	srv      *srvProc
	mode     string
	secret   []byte
	vseed    uint64
	fenceN   int
	fenceID  byte
	fenceSeq [256]int
	t        *testing.T
	local    map[string]int // counters flushed per base
	crashed  map[string]int // input class -> confirmed listener deaths for the current base request
	deaf     int            // exchanges of the current base request in which the probe went unanswered
	stopped  bool
}

var (
	abortAll   atomic.Bool
	deafEvents atomic.Int64
)

func (w *worker) count(k string, n int) { w.local[k] += n }

func (w *worker) flush() {
	for k, n := range w.local {
		run.Count(k, n)
	}
	w.local = map[string]int{}
}

func (w *worker) respawn() bool {
	if w.srv != nil && !w.srv.dead {
		w.srv.kill()
	}
	w.vseed++
	s, err := spawn(w.mode, w.secret, w.vseed)
	if err != nil {
		run.Inconclusive("spawn", err.Error())
		w.srv = nil
		return false
	}
	w.srv = s
	w.drain()
	return true
}

func (w *worker) recv(d time.Duration) ([]byte, bool) {
	w.sock.SetReadDeadline(time.Now().Add(d))
	n, _, err := w.sock.ReadFromUDP(w.buf)
	if err != nil {
		return nil, false
	}
	return clone(w.buf[:n]), true
}

// drain returns every datagram already queued on the sender socket, without waiting.
func (w *worker) drain() [][]byte {
	var out [][]byte
	rc, err := w.sock.SyscallConn()
	if err != nil {
		return nil
	}
	w.sock.SetReadDeadline(time.Time{}) // an expired deadline would make RawConn.Read fail before trying
	for {
		var n int
		rerr := error(syscall.EAGAIN)
		if err := rc.Read(func(fd uintptr) bool {
			n, _, rerr = syscall.Recvfrom(int(fd), w.buf, syscall.MSG_DONTWAIT)
			return true
		}); err != nil || rerr != nil {
			return out
		}
		out = append(out, clone(w.buf[:n]))
	}
}

type fence struct {
	d     []byte
	token string // hex of the User-Name value
}

// newFence builds the next probe. Probe identifiers roll through 0..255 (skipping the identifiers in avoid), so a probe
// never shares its identifier with any of the previous ~200 probes: a late or duplicated reply to an earlier probe
// cannot be mistaken for the reply to the current one.
func (w *worker) newFence(avoid map[byte]bool) *fence {
	w.fenceN++
	tok := []byte(fmt.Sprintf("VERIF-C15-FENCE-%d-%016x", w.fenceN, w.rng.Uint64()))
	w.fenceID++
	for avoid[w.fenceID] {
		w.fenceID++
	}
	id := w.fenceID
	w.fenceSeq[id] = w.fenceN
	code := byte(43)
	if w.fenceN%2 == 0 {
		code = 40
	}
	return &fence{d: build(code, id, attrTLV(1, tok), w.secret), token: hex.EncodeToString(tok)}
}

// strayProbeReply: p answers one of the last 64 probes other than cur (only a listener that answers a request more
// than once, or late, produces such a datagram).
func (w *worker) strayProbeReply(p []byte, cur *fence) bool {
	if len(p) < 20 || !(p[0] == 41 || p[0] == 42 || p[0] == 44 || p[0] == 45) || (cur != nil && p[1] == cur.d[1]) {
		return false
	}
	seq := w.fenceSeq[p[1]]
	return seq > 0 && w.fenceN-seq < 64
}

func (w *worker) reportStray(p []byte) {
	run.Violation(compLoop, "if-authentic/response-once", "several-responses/extra-reply-to-probe",
		"a datagram carrying the identifier of an earlier probe request arrived after that probe had been answered (a request answered more than once, or late)",
		map[string]any{"secret_hex": hx(w.secret), "stray_datagram_hex": capHex(p), "handler_mode": w.mode})
}

func (f *fence) isReply(p []byte) bool {
	return len(p) >= 20 && p[1] == f.d[1] && (p[0] == 41 || p[0] == 42 || p[0] == 44 || p[0] == 45)
}

func splitFence(evs []event, tok string) (mine, fenceEvs []event) {
	for _, e := range evs {
		if e.User == tok {
			fenceEvs = append(fenceEvs, e)
		} else {
			mine = append(mine, e)
		}
	}
	return
}

const fenceWait = 1500 * time.Millisecond

// exchange sends d followed by a fence and returns what d caused, plus what the fence caused.
func (w *worker) exchange(d []byte, withFence bool) (o *outcome, fo *outcome, f *fence) {
	s := w.srv
	o = &outcome{}
	if _, err := w.sock.WriteToUDP(d, s.addr); err != nil {
		o.settled = "send-error: " + err.Error()
		return o, nil, nil
	}
	w.count("datagrams_sent", 1)
	avoid := map[byte]bool{}
	if len(d) >= 2 {
		avoid[d[1]] = true
	}
	if withFence {
		f = w.newFence(avoid)
		fo = &outcome{}
		w.sock.WriteToUDP(f.d, s.addr)
		w.count("fence_probes_sent", 1)
	}
	start := time.Now()
	answered := false
	var got [][]byte
wait:
	for withFence {
		p, ok := w.recv(20 * time.Millisecond)
		switch {
		case ok && f.isReply(p):
			fo.resps = append(fo.resps, p)
			answered = true
			break wait
		case ok && w.strayProbeReply(p, f) && !(len(d) >= 2 && p[1] == d[1]):
			w.reportStray(p)
		case ok:
			got = append(got, p)
		case s.poll():
			break wait
		case time.Since(start) > fenceWait:
			break wait
		}
	}
	var q *quiesce
	if !s.poll() {
		// whatever the listener's threading: nothing is collected before the listener process reports quiescence
		// (bounded; see waitQuiescent). With the probe answered by a one-at-a-time listener this returns at once.
		q, _ = s.settled()
	}
	late := w.drain()
	if answered {
		// anything after the fence's reply is out of order for a sequential listener; keep it with d so it is judged
		if len(late) > 0 {
			w.count("datagrams_after_fence_reply", len(late))
		}
		for _, p := range late {
			if (f.isReply(p) || w.strayProbeReply(p, f)) && !(len(d) >= 2 && p[1] == d[1]) {
				w.reportStray(p) // a second reply to this probe, or to an earlier one
				continue
			}
			got = append(got, p)
		}
	} else {
		for _, p := range late {
			if withFence && !answered && f.isReply(p) && len(fo.resps) == 0 {
				fo.resps = append(fo.resps, p)
				answered = true
				continue
			}
			got = append(got, p)
		}
	}
	dead := s.poll()
	evs := s.take()
	var fevs []event
	if withFence {
		evs, fevs = splitFence(evs, f.token)
		fo.evs = fevs
	}
	o.evs, o.resps = evs, got
	switch {
	case answered && q != nil && q.Quiescent:
		o.settled, fo.settled = "fence", "fence"
		w.count("settled_by_fence_reply", 1)
	case dead:
		o.settled = "crash"
		o.crashMsg = tail(s.stderr.String(), 1500)
		if fo != nil {
			fo.settled = "crash"
		}
	case q != nil && q.Quiescent:
		o.settled = "quiescent"
		w.count("settled_by_quiescence", 1)
		if withFence {
			fo.settled = "quiescent"
			// the fence was consumed but its reply was not recognised: if its handler ran, the last datagram that came back is its reply
			if len(fevs) >= 1 && len(o.resps) >= 1 {
				fo.resps = append(fo.resps, o.resps[len(o.resps)-1])
				o.resps = o.resps[:len(o.resps)-1]
			}
		}
	default:
		st := "no quiescence report"
		if q != nil {
			st = fmt.Sprintf("probe answered=%v but listener not quiescent within the bounded wait: rxq=%d loop=%q readers=%d busy=%d handlers_in_flight=%d", answered, q.RxQ, q.Loop, q.Readers, q.Busy, q.Inflight)
		}
		o.settled = "unsettled: " + st
	}
	return o, fo, f
}

func tail(s string, n int) string {
	// keep the head: the panic line and the first frames
	if len(s) > n {
		return s[:n]
	}
	return s
}

var sampleFam sync.Map
var sampleFams = map[string]bool{"base": true, "bitflip": true, "prefix-resigned": true} // the other two written-out samples are overlap episodes

// runCase sends one case, settles it, handles listener death, and judges.
func (w *worker) runCase(tc *tcase) {
	if w.srv == nil || w.srv.dead {
		if !w.respawn() {
			w.stopped = true
			return
		}
	}
	if w.skipAfterCrash(tc) {
		return
	}
	o, fo, f := w.exchange(tc.d, true)
	if o.settled == "crash" {
		// attribute the death: a fresh listener gets d alone (no fence)
		w.count("listener_deaths_observed", 1)
		first := o
		if !w.respawn() {
			w.stopped = true
			return
		}
		o2, _, _ := w.exchange(tc.d, false)
		switch o2.settled {
		case "crash":
			w.count("listener_crashes_confirmed", 1)
			w.crashed[crashKey(tc.d, w.secret)]++
			o = first // judge what was observed on the first attempt; the second only attributes the death to d
			fo = nil
			w.respawn()
		case "quiescent":
			run.Inconclusive(tc.String(), "listener died after datagram+probe but survived the datagram alone: "+firstLine(first.crashMsg))
			return
		default:
			run.Inconclusive(tc.String(), "crash confirmation did not settle: "+o2.settled)
			w.respawn()
			return
		}
	}
	if strings.HasPrefix(o.settled, "unsettled") || strings.HasPrefix(o.settled, "send-error") {
		run.Inconclusive(tc.String(), o.settled)
		w.respawn()
		return
	}
	if o.settled == "quiescent" {
		// an authentic probe went unanswered although the listener is alive and idle: each such exchange costs the
		// full fence wait, so this base request is abandoned after three of them and the run after eight such bases
		w.count("exchanges_settled_by_quiescence_probe_unanswered", 1)
		if w.deaf++; w.deaf >= 3 && !w.stopped {
			w.stopped = true
			w.count("base_requests_abandoned_probe_unanswered", 1)
			if deafEvents.Add(1) >= 8 {
				abortAll.Store(true)
			}
		}
	}

	w.account(tc, o, fo, f)
}

// account judges one settled case (and its fence probe) and records what was observed.
func (w *worker) account(tc *tcase, o, fo *outcome, f *fence) {
	clean := judge(tc, w.secret, w.mode, o)
	run.Eval()
	cls := inputClass(tc.d, w.secret)
	w.count("class_"+cls, 1)
	w.count("family_"+tc.fam, 1)
	run.Distinct("class_family_pairs", cls+"|"+tc.fam)
	auth, L := refAuthentic(tc.d, w.secret)
	if len(tc.d) >= 20 && L >= 20 && L <= len(tc.d) {
		run.Nontrivial(hx(w.secret) + "|" + hx(tc.d))
		w.count("reached_md5_comparison", 1)
		if !auth && clean {
			w.count("inauthentic_reaching_md5_comparison_silent", 1)
		}
	}
	if !auth && clean {
		w.count("inauthentic_silent", 1)
	}
	nh := 0
	for _, e := range o.evs {
		switch e.K {
		case "coa":
			w.count("handler_calls_coa", 1)
			nh++
		case "disc":
			w.count("handler_calls_disconnect", 1)
			nh++
		case "term":
			w.count("session_terminations", 1)
		case "policy":
			w.count("session_policy_updates", 1)
		}
	}
	if auth && nh == 1 && len(o.resps) == 1 && clean {
		w.count("authentic_requests_acted_on", 1)
		if L < len(tc.d) {
			w.count("authentic_with_padding_acted_on", 1)
		}
	}
	for _, r := range o.resps {
		if len(r) > 0 {
			w.count(fmt.Sprintf("responses_code_%d", r[0]), 1)
		}
		if ok, _ := refResponseOK(r, safeRA(tc.d), w.secret); ok {
			w.count("responses_verified", 1)
		}
	}
	if _, seen := sampleFam.LoadOrStore(tc.fam, true); !seen && sampleFams[tc.fam] {
		rs := []string{}
		for _, r := range o.resps {
			rs = append(rs, capHex(r))
		}
		run.Sample(map[string]any{"family": tc.fam, "handler_mode": w.mode, "secret_hex": hx(w.secret), "datagram_hex": capHex(tc.d), "input_class": cls,
			"observed_handler_events": o.evs, "observed_responses_hex": rs, "settled_by": o.settled})
	}

	// ---- judge the fence: it is an authentic request like any other
	if fo != nil && f != nil && (fo.settled == "fence" || fo.settled == "quiescent") {
		ftc := &tcase{fam: "fence-probe", d: f.d, base: f.d}
		fclean := judge(ftc, w.secret, w.mode, fo)
		w.count("fence_probes_judged", 1)
		if fclean && len(fo.resps) == 1 {
			w.count("fence_probes_answered_and_verified", 1)
		}
	}
}

const batchSize = 16

// batchWait / fenceWait bound the collection of one batch / episode absolutely / since the last datagram that came back.
const batchWait = 12 * time.Second

// crashKey: input class, with length fields beyond the listener's 4096-octet buffer kept apart from the rest.
func crashKey(d, secret []byte) string {
	c := inputClass(d, secret)
	if len(d) >= 4 && int(d[2])<<8|int(d[3]) > 4096 {
		c += "/L>4096"
	}
	return c
}

func (w *worker) skipAfterCrash(tc *tcase) bool {
	if c := crashKey(tc.d, w.secret); w.crashed[c] >= run.Pick(2, 1) {
		// Spawning a process costs ~0.2 s here. Once datagrams of this input class have been confirmed to kill this
		// base request's listener, nothing else can be observed for the class (the death precedes every other
		// effect), so the remaining ones are counted, not sent. With the defect repaired nothing is skipped.
		w.count("not_sent_after_confirmed_crash_class_"+c, 1)
		return true
	}
	return false
}

// runBatch pipelines up to batchSize cases: d1 F1 d2 F2 … are sent back to back. On a listener that handles one
// datagram at a time (loopback is FIFO) the replies and the handler events come back in the same order, delimited by
// the fences' replies / handler events, and each case is attributed what lies between two fences. A listener that
// answers the probes in another order is not thereby wrong: a batch without any authentic case in which nothing but
// the probes' effects was observed is still judged (every case silent); any other batch (a fence unanswered, the
// listener gone or not quiescent, a datagram after quiescence, probes out of order around an authentic case or an
// unexpected effect) goes to the one-at-a-time path on a fresh listener, which settles each case on its own.
func (w *worker) runBatch(all []*tcase) {
	var cs []*tcase
	for _, tc := range all {
		if !w.skipAfterCrash(tc) {
			cs = append(cs, tc)
		}
	}
	if len(cs) == 0 || w.stopped {
		return
	}
	if w.srv == nil || w.srv.dead {
		if !w.respawn() {
			w.stopped = true
			return
		}
	}
	s := w.srv
	fences := make([]*fence, len(cs))
	tokIdx := map[string]int{}
	avoid := map[byte]bool{}
	for _, tc := range cs {
		if len(tc.d) >= 2 {
			avoid[tc.d[1]] = true
		}
	}
	for i := range cs {
		fences[i] = w.newFence(avoid)
		tokIdx[fences[i].token] = i
	}
	sendOK := true
	for i, tc := range cs {
		if _, err := w.sock.WriteToUDP(tc.d, s.addr); err != nil {
			sendOK = false
			break
		}
		if _, err := w.sock.WriteToUDP(fences[i].d, s.addr); err != nil {
			sendOK = false
			break
		}
	}
	outs := make([]*outcome, len(cs))
	fouts := make([]*outcome, len(cs))
	fidx := map[byte]int{}
	for i := range cs {
		outs[i], fouts[i] = &outcome{settled: "fence"}, &outcome{settled: "fence"}
		fidx[fences[i].d[1]] = i
	}
	// Probe replies are matched by identifier, in whatever order they come. cur = number of leading probes answered;
	// a datagram that is not a probe reply is attributed by position (to case cur), which is meaningful only as long as
	// the replies keep the order of the requests (inOrder).
	cur, answeredN, others := 0, 0, 0
	inOrder := true
	last := time.Now()
	begun := last
	for sendOK && answeredN < len(cs) && time.Since(begun) < batchWait {
		p, ok := w.recv(20 * time.Millisecond)
		if ok {
			last = time.Now()
			i, isF := -1, false
			if len(p) >= 20 {
				i, isF = fidx[p[1]]
			}
			switch {
			case isF && fences[i].isReply(p):
				if len(fouts[i].resps) == 0 {
					answeredN++
				}
				fouts[i].resps = append(fouts[i].resps, p) // a second reply to one probe is judged with the probe (several-responses)
				if i != cur {
					inOrder = false
				}
				for cur < len(cs) && len(fouts[cur].resps) > 0 {
					cur++
				}
			case len(p) >= 20 && w.strayProbeReply(p, nil) && !batchHasID(cs, p[1]):
				w.reportStray(p) // answers a probe of an earlier, settled batch
			default:
				k := cur
				if k >= len(cs) {
					k = len(cs) - 1
				}
				outs[k].resps = append(outs[k].resps, p)
				others++
			}
			continue
		}
		if s.poll() || time.Since(last) > fenceWait {
			break
		}
	}
	good := sendOK && answeredN == len(cs)
	why := "probe-unanswered-or-listener-gone"
	if good {
		// every probe answered; now let the listener process report quiescence before anything is concluded
		q, ok := s.settled()
		good = ok && q != nil && q.Quiescent
		if !good {
			why = "listener-not-quiescent-within-bounded-wait"
		}
	}
	if good {
		if late := w.drain(); len(late) > 0 {
			good = false
			why = "datagram-after-quiescence"
		}
	}
	if good {
		ei := 0 // number of leading probes whose handler event has been seen
		for _, e := range s.take() {
			if idx, isFence := tokIdx[e.User]; isFence {
				if (e.K == "coa" || e.K == "disc") && len(fouts[idx].evs) == 0 {
					fouts[idx].evs = append(fouts[idx].evs, e)
					if idx != ei {
						inOrder = false
					}
					for ei < len(cs) && len(fouts[ei].evs) > 0 {
						ei++
					}
					continue
				}
				good = false
				why = "probe-event-twice-or-of-wrong-kind"
				break
			}
			if ei >= len(cs) {
				good = false
				why = "event-after-last-probe"
				break
			}
			outs[ei].evs = append(outs[ei].evs, e)
			others++
		}
		if good && ei != len(cs) {
			good = false
			why = "probe-event-missing"
		}
	}
	if good && !inOrder {
		// The listener answered the probes out of order: it handles datagrams concurrently, and position attributes
		// nothing. If no case of the batch is authentic and nothing but the probes' replies and handler events was
		// observed, every case was dropped without effect and is judged so; otherwise each case is settled on its own.
		w.count("batches_probes_answered_out_of_order", 1)
		good = others == 0
		for _, tc := range cs {
			if a, _ := refAuthentic(tc.d, w.secret); a {
				good = false
			}
		}
		if good {
			w.count("batches_settled_without_order", 1)
		} else {
			why = "out-of-order-around-authentic-case-or-extra-effect"
		}
	}
	if good {
		w.count("datagrams_sent", len(cs))
		w.count("fence_probes_sent", len(cs))
		w.count("settled_by_fence_reply", len(cs))
		w.count("batches_pipelined", 1)
		for i, tc := range cs {
			w.account(tc, outs[i], fouts[i], fences[i])
		}
		return
	}
	w.count("batches_rerun_one_at_a_time", 1)
	w.count("batches_rerun_because_"+why, 1)
	if !w.respawn() {
		w.stopped = true
		return
	}
	for _, tc := range cs {
		if w.stopped || abortAll.Load() {
			return
		}
		w.runCase(tc)
	}
}

func batchHasID(cs []*tcase, id byte) bool {
	for _, tc := range cs {
		if len(tc.d) >= 2 && tc.d[1] == id {
			return true
		}
	}
	return false
}

func safeRA(d []byte) []byte {
	if len(d) >= 20 {
		return d[4:20]
	}
	return make([]byte, 16)
}

// ---------------------------------------------------------------- the test

func TestMutationsOfSignedRequests(t *testing.T) {
	nbase := run.Pick(50, 1200)
	nw := runtime.NumCPU() / 2
	if nw > 8 {
		nw = 8
	}
	if nw < 2 {
		nw = 2
	}
	var next atomic.Int64
	var wg sync.WaitGroup
	for wi := 0; wi < nw; wi++ {
		wg.Add(1)
		go func(wi int) {
			defer wg.Done()
			sock, err := net.ListenUDP("udp4", &net.UDPAddr{IP: net.IPv4(127, 0, 0, 1)})
			if err != nil {
				t.Errorf("sender socket: %v", err)
				return
			}
			defer sock.Close()
			sock.SetReadBuffer(1 << 20)
			w := &worker{id: wi, sock: sock, buf: make([]byte, 1<<16), t: t, local: map[string]int{}}
			defer func() {
				if w.srv != nil && !w.srv.dead {
					w.srv.kill()
				}
				w.flush()
			}()
			for {
				bi := int(next.Add(1)) - 1
				if bi >= nbase || abortAll.Load() {
					return
				}
				r := run.SubRand("base", bi)
				w.rng = run.SubRand("fence", bi)
				w.secret = genSecret(r)
				w.mode = "direct"
				if bi%3 == 2 {
					w.mode = "processor"
				}
				w.vseed = uint64(run.Seed)<<32 ^ uint64(bi)<<8
				b := genBase(r, w.secret)
				if !w.respawn() {
					return
				}
				run.Distinct("secrets", hx(w.secret))
				run.Distinct("secret_lengths", strconv.Itoa(len(w.secret)))
				run.Distinct("base_requests", hx(b.d))
				run.Distinct("attribute_counts", strconv.Itoa(b.nattr))
				run.Distinct("base_lengths", strconv.Itoa(len(b.d)))
				w.count("base_requests_code_"+strconv.Itoa(int(b.d[0])), 1)
				w.count("listeners_mode_"+w.mode, 1)
				w.stopped = false
				w.crashed = map[string]int{}
				w.deaf = 0
				var batch []*tcase
				casesFor(r, b, w.secret, run.Thorough(), func(tc *tcase) {
					if w.stopped || abortAll.Load() {
						return
					}
					batch = append(batch, tc)
					if len(batch) == batchSize {
						w.runBatch(batch)
						batch = batch[:0]
					}
				})
				if !abortAll.Load() {
					w.runBatch(batch)
				}
				w.flush()
			}
		}(wi)
	}
	wg.Wait()
	run.Count("listener_processes_spawned", int(atomic.LoadInt64(&spawned)))
	if abortAll.Load() {
		run.Inconclusive("workload", "stopped early: the listeners of eight base requests left authentic probe requests unanswered (each such exchange is reported; continuing would only repeat it)")
	}
	run.Extra("workers", nw)
	run.Extra("base_requests_planned", nbase)
}
