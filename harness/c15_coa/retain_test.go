package c15

// Retention workload: "all other datagrams are dropped without effect" includes the effect on requests that were
// already accepted.
//
// A handler is free to keep the request object it was given (queue it for a worker, apply it later, audit-log it
// later). The harness handlers of the listener process do so on request: at hand-over they keep the pointer AND take
// a deep copy (every string and every octet string copied into fresh memory). The monitor then sends later datagrams
// of every kind - inauthentic requests shaped like the retained one but naming another subscriber, other inauthentic
// requests, truncated ones, junk, authentic requests for other sessions, datagrams that fill the listener's whole
// receive buffer (and more) with a recognisable pattern - and after EACH of them, once the listener process reported
// quiescence, has every retained object compared field by field with its copy (attributes, Framed-IP, NAS-IP, session
// ids, user name, calling station, filter, pool, timeouts, rates). A difference is an effect of a later datagram on a
// request that was authenticated earlier. (Identifier and Request Authenticator are not part of bng's request objects;
// they are judged on the replies, as before.)
//
// Deferred application: on "direct" listeners the retained requests are finally handed to the real CoAProcessor of
// coa_handler.go (session lookups, policy updater and terminator wired to the harness session table) - i.e. the
// session-changing calls are applied after the later datagrams arrived. The change applied must be the one the
// authentic request named: (a) the session handed to the updater / terminator must be identified by an attribute of
// the authenticated region of the datagram the request came from, filter and time-outs must be attribute values of that
// region; (b) it must equal what the same processor does with the deep copy taken at hand-over. On "processor"
// listeners (the processor runs inside the handler) the *PolicyUpdate given to the policy updater is retained and
// compared the same way.

import (
	"bytes"
	"context"
	"encoding/binary"
	"encoding/hex"
	"encoding/json"
	"errors"
	"fmt"
	"math/rand/v2"
	"net"
	"runtime"
	"strconv"
	"strings"
	"sync"
	"sync/atomic"
	"testing"
	"time"

	"go.uber.org/zap"

	"github.com/codelaboratoryltd/bng/pkg/radius"
)

// ---------------------------------------------------------------- shared types (control pipe)

// reqSnap is a deep copy of everything a request object shows (all octet strings as hex in fresh memory).
type reqSnap struct {
	SID    string   `json:"sid,omitempty"`
	Acct   string   `json:"acct,omitempty"`
	User   string   `json:"user,omitempty"`
	CS     string   `json:"cs,omitempty"`
	FIP    string   `json:"fip,omitempty"`
	NAS    string   `json:"nas,omitempty"`
	Filter string   `json:"filter,omitempty"`
	Pool   string   `json:"pool,omitempty"`
	STO    uint64   `json:"sto,omitempty"`
	ITO    uint64   `json:"ito,omitempty"`
	QD     uint64   `json:"qd,omitempty"`
	QU     uint64   `json:"qu,omitempty"`
	NAttr  int      `json:"nattr"`
	Attrs  []evAttr `json:"attrs,omitempty"`
}

type retRep struct {
	Seq  int      `json:"seq"`
	K    string   `json:"k"` // coa | disc | policy-update
	User string   `json:"user,omitempty"`
	Diff []string `json:"diff,omitempty"` // names of the fields in which the retained object differs from its copy
	Was  *reqSnap `json:"was,omitempty"`  // only with Diff
	Now  *reqSnap `json:"now,omitempty"`
}

type chg struct {
	K      string `json:"k"` // policy | term
	SID    string `json:"sid"`
	Filter string `json:"filter,omitempty"`
	STO    uint64 `json:"sto,omitempty"` // seconds
	ITO    uint64 `json:"ito,omitempty"`
	DL     uint64 `json:"dl,omitempty"`
	UL     uint64 `json:"ul,omitempty"`
}

type appRep struct {
	Seq    int    `json:"seq"`
	K      string `json:"k"`
	User   string `json:"user,omitempty"`
	Got    []chg  `json:"got,omitempty"`  // session changes when the processor is given the retained object
	Want   []chg  `json:"want,omitempty"` // session changes when it is given the deep copy taken at hand-over
	GotOK  bool   `json:"got_ok"`
	WantOK bool   `json:"want_ok"`
}

func diffSnap(a, b *reqSnap) []string {
	var d []string
	f := func(name string, x, y any) {
		if x != y {
			d = append(d, name)
		}
	}
	f("session-id", a.SID, b.SID)
	f("acct-session-id", a.Acct, b.Acct)
	f("user-name", a.User, b.User)
	f("calling-station", a.CS, b.CS)
	f("framed-ip", a.FIP, b.FIP)
	f("nas-ip", a.NAS, b.NAS)
	f("filter-id", a.Filter, b.Filter)
	f("framed-pool", a.Pool, b.Pool)
	f("session-timeout", a.STO, b.STO)
	f("idle-timeout", a.ITO, b.ITO)
	f("rate-down", a.QD, b.QD)
	f("rate-up", a.QU, b.QU)
	f("attribute-count", a.NAttr, b.NAttr)
	n := min(len(a.Attrs), len(b.Attrs))
	for i := 0; i < n; i++ {
		if a.Attrs[i] != b.Attrs[i] {
			d = append(d, "raw-attributes")
			break
		}
	}
	return d
}

// ---------------------------------------------------------------- listener process side

func hs(s string) string { return hex.EncodeToString([]byte(s)) }

func snapCoA(r *radius.CoARequest) *reqSnap {
	s := &reqSnap{SID: hs(r.SessionID), User: hs(r.Username), CS: hs(r.CallingStation), FIP: hex.EncodeToString(r.FramedIP), NAS: hex.EncodeToString(r.NASIPAddress),
		Filter: hs(r.FilterID), Pool: hs(r.FramedPool), STO: uint64(r.SessionTimeout), ITO: uint64(r.IdleTimeout), QD: uint64(r.QoSDownload), QU: uint64(r.QoSUpload), NAttr: len(r.Attributes)}
	for _, a := range r.Attributes {
		s.Attrs = append(s.Attrs, evAttr{T: int(a.Type), V: hex.EncodeToString(a.Value)})
	}
	return s
}

func snapDisc(r *radius.DisconnectRequest) *reqSnap {
	return &reqSnap{SID: hs(r.SessionID), Acct: hs(r.AcctSessionID), User: hs(r.Username), CS: hs(r.CallingStation), FIP: hex.EncodeToString(r.FramedIP), NAS: hex.EncodeToString(r.NASIPAddress)}
}

func unhexB(s string) []byte { b, _ := hex.DecodeString(s); return b }

func ipOrNil(h string) net.IP {
	if h == "" {
		return nil
	}
	return net.IP(unhexB(h))
}

// coaFromSnap / discFromSnap rebuild a request object from the deep copy (fresh memory throughout).
func coaFromSnap(s *reqSnap) *radius.CoARequest {
	r := &radius.CoARequest{SessionID: unhex(s.SID), Username: unhex(s.User), CallingStation: unhex(s.CS), FramedIP: ipOrNil(s.FIP), NASIPAddress: ipOrNil(s.NAS),
		FilterID: unhex(s.Filter), FramedPool: unhex(s.Pool), SessionTimeout: uint32(s.STO), IdleTimeout: uint32(s.ITO), QoSDownload: uint32(s.QD), QoSUpload: uint32(s.QU)}
	for _, a := range s.Attrs {
		r.Attributes = append(r.Attributes, radius.Attribute{Type: uint8(a.T), Value: unhexB(a.V)})
	}
	return r
}

func discFromSnap(s *reqSnap) *radius.DisconnectRequest {
	return &radius.DisconnectRequest{SessionID: unhex(s.SID), AcctSessionID: unhex(s.Acct), Username: unhex(s.User), CallingStation: unhex(s.CS), FramedIP: ipOrNil(s.FIP), NASIPAddress: ipOrNil(s.NAS)}
}

type kept struct {
	seq   int
	k     string
	now   func() *reqSnap // reads through the retained pointer
	orig  *reqSnap        // deep copy taken at hand-over
	base  *reqSnap        // what the object was at the last comparison (so that each later datagram is judged on its own)
	coa   *radius.CoARequest
	disc  *radius.DisconnectRequest
	apply bool
}

type keeper struct {
	mu    sync.Mutex
	on    bool
	seq   int
	items []*kept
	proc  *radius.CoAProcessor
	cur   *[]chg
}

var kp = &keeper{}

func (k *keeper) add(it *kept) {
	k.mu.Lock()
	defer k.mu.Unlock()
	if !k.on {
		return
	}
	k.seq++
	it.seq = k.seq
	it.orig = it.now()
	it.base = it.orig
	k.items = append(k.items, it)
}

func (k *keeper) addCoA(r *radius.CoARequest) {
	k.add(&kept{k: "coa", coa: r, now: func() *reqSnap { return snapCoA(r) }})
}

func (k *keeper) addDisc(r *radius.DisconnectRequest) {
	k.add(&kept{k: "disc", disc: r, now: func() *reqSnap { return snapDisc(r) }})
}

func (k *keeper) addPolicy(id string, u *radius.PolicyUpdate) {
	k.add(&kept{k: "policy-update", now: func() *reqSnap {
		return &reqSnap{SID: hs(id), Filter: hs(u.FilterID), STO: uint64(u.SessionTimeout / time.Second), ITO: uint64(u.IdleTimeout / time.Second), QD: u.DownloadRateBPS, QU: u.UploadRateBPS}
	}})
}

func wireLookups(p *radius.CoAProcessor) {
	info := func(n int) *radius.SessionInfo {
		hw, _ := net.ParseMAC(sessMAC(n))
		return &radius.SessionInfo{SessionID: "live-" + strconv.Itoa(n), Username: "u" + strconv.Itoa(n), MAC: hw, FramedIP: net.IP(sessIP(n)), State: "active", DownloadRateBPS: 1e6, UploadRateBPS: 1e6}
	}
	p.SetSessionLookup(func(id string) (*radius.SessionInfo, bool) {
		if n, ok := sessN(id); ok {
			return info(n), true
		}
		return nil, false
	})
	p.SetSessionLookupByIP(func(ip net.IP) (*radius.SessionInfo, bool) {
		if n := sessByIP(ip); n >= 0 {
			return info(n), true
		}
		return nil, false
	})
	p.SetSessionLookupByMAC(func(m string) (*radius.SessionInfo, bool) {
		if n := sessByMAC(m); n >= 0 {
			return info(n), true
		}
		return nil, false
	})
}

// deferredProc: the real CoAProcessor whose policy updater / terminator record the change they are asked to apply.
func (k *keeper) deferredProc() *radius.CoAProcessor {
	if k.proc != nil {
		return k.proc
	}
	p := radius.NewCoAProcessor(zap.NewNop())
	wireLookups(p)
	p.SetSessionTerminator(func(ctx context.Context, id string, reason uint32) error {
		*k.cur = append(*k.cur, chg{K: "term", SID: hs(id)})
		if n, _ := sessN(id); n%7 == 3 {
			return errors.New("session busy")
		}
		return nil
	})
	p.SetSessionPolicyUpdater(func(ctx context.Context, id string, u *radius.PolicyUpdate) error {
		*k.cur = append(*k.cur, chg{K: "policy", SID: hs(id), Filter: hs(u.FilterID), STO: uint64(u.SessionTimeout / time.Second), ITO: uint64(u.IdleTimeout / time.Second), DL: u.DownloadRateBPS, UL: u.UploadRateBPS})
		if n, _ := sessN(id); n%5 == 4 {
			return errors.New("policy store unavailable")
		}
		return nil
	})
	p.SetAuditLogger(radius.NewDefaultAuditLogger(zap.NewNop()))
	k.proc = p
	return p
}

func (k *keeper) command(c string) event {
	k.mu.Lock()
	defer k.mu.Unlock()
	e := event{Reply: c}
	switch c {
	case "K":
		k.on = true
	case "F":
		k.items = nil
	case "V":
		for _, it := range k.items {
			now := it.now()
			r := retRep{Seq: it.seq, K: it.k, User: it.orig.User}
			if d := diffSnap(it.base, now); len(d) > 0 {
				r.Diff, r.Was, r.Now = d, it.base, now
				it.base = now
			}
			e.Ret = append(e.Ret, r)
		}
	case "A":
		p := k.deferredProc()
		for _, it := range k.items {
			if it.apply || it.k == "policy-update" || strings.HasPrefix(unhex(it.orig.User), "VERIF-C15-FENCE-") {
				continue
			}
			it.apply = true
			r := appRep{Seq: it.seq, K: it.k, User: it.orig.User}
			ctx := context.Background()
			var got, want []chg
			if it.k == "coa" {
				k.cur = &got
				r.GotOK = p.HandleCoA(ctx, it.coa).Success
				k.cur = &want
				r.WantOK = p.HandleCoA(ctx, coaFromSnap(it.orig)).Success
			} else {
				k.cur = &got
				r.GotOK = p.HandleDisconnect(ctx, it.disc).Success
				k.cur = &want
				r.WantOK = p.HandleDisconnect(ctx, discFromSnap(it.orig)).Success
			}
			r.Got, r.Want = got, want
			e.App = append(e.App, r)
		}
	}
	return e
}

// ---------------------------------------------------------------- monitor side

type rtPlan struct {
	d       []byte
	tok     string // hex of the User-Name value
	attrs   []refAttr
	namedBy string
	kind    string // retained | authentic-other-session | maximal-authentic
}

var rtTokN atomic.Int64

func rtToken(r *rand.Rand) []byte {
	return []byte(fmt.Sprintf("VERIF-C15-RT-%d-%016x", rtTokN.Add(1), r.Uint64()))
}

var rtPattern = []byte("C15-PATTERN-")

func patternBytes(n, rot int) []byte {
	b := make([]byte, n)
	for i := range b {
		b[i] = rtPattern[(i+rot)%len(rtPattern)]
	}
	return b
}

// rtRegion: attribute region of a request carrying token tok that names session sess in one of several ways, the
// attributes in random order (so that Framed-IP, NAS-IP and the session id land at many offsets of the datagram).
func rtRegion(r *rand.Rand, code byte, tok []byte, sess int) (region []byte, namedBy string) {
	items := [][]byte{attrTLV(1, tok)}
	other := (sess + 1 + r.IntN(998)) % 1000
	switch r.IntN(6) {
	case 0:
		namedBy = "session-id"
		items = append(items, attrTLV(44, []byte("live-"+strconv.Itoa(sess))))
	case 1, 2:
		namedBy = "framed-ip"
		items = append(items, attrTLV(8, sessIP(sess)))
	case 3:
		namedBy = "calling-station"
		items = append(items, attrTLV(31, []byte(sessMAC(sess))))
	case 4:
		namedBy = "framed-ip/unknown-session-id"
		items = append(items, attrTLV(44, []byte("gone-"+strconv.Itoa(other))), attrTLV(8, sessIP(sess)))
	default:
		namedBy = "session-id+framed-ip+calling-station"
		items = append(items, attrTLV(44, []byte("live-"+strconv.Itoa(sess))), attrTLV(8, sessIP(sess)), attrTLV(31, []byte(sessMAC(sess))))
	}
	if r.IntN(4) > 0 {
		items = append(items, attrTLV(4, randBytes(r, 4)))
	}
	if code == 43 {
		n0 := len(items)
		if r.IntN(5) > 0 {
			items = append(items, attrTLV(11, [][]byte{[]byte("gold"), []byte("silver"), []byte("residential-100"), randPrintable(r, 1+r.IntN(16))}[r.IntN(4)]))
		}
		if r.IntN(5) < 2 {
			items = append(items, attrTLV(27, u32(uint32(60+r.IntN(86000)))))
		}
		if r.IntN(10) < 3 {
			items = append(items, attrTLV(28, u32(uint32(30+r.IntN(3000)))))
		}
		if len(items) == n0 {
			items = append(items, attrTLV(11, []byte("bronze")))
		}
	}
	if r.IntN(5) < 2 {
		items = append(items, attrTLV(25, randBytes(r, 1+r.IntN(40))))
	}
	if r.IntN(4) == 0 {
		sub := attrTLV(byte(1+r.IntN(20)), randBytes(r, 1+r.IntN(12)))
		items = append(items, attrTLV(26, append(u32(uint32(r.IntN(70000))), sub...)))
	}
	if r.IntN(2) == 0 { // a long attribute: whatever follows it lies far into the datagram
		items = append(items, attrTLV(18, randPrintable(r, 60+r.IntN(194))))
	}
	r.Shuffle(len(items), func(i, j int) { items[i], items[j] = items[j], items[i] })
	for _, it := range items {
		region = append(region, it...)
	}
	return
}

func rtRequest(r *rand.Rand, id byte, sess int, secret []byte, kind string) *rtPlan {
	code := []byte{40, 43}[r.IntN(2)]
	tok := rtToken(r)
	reg, by := rtRegion(r, code, tok, sess)
	p := &rtPlan{d: build(code, id, reg, secret), tok: hex.EncodeToString(tok), namedBy: by, kind: kind}
	p.attrs, _ = refParseAttrs(reg)
	return p
}

// rtRetarget: a datagram with the layout of the retained request p (same attribute types and lengths at the same
// offsets) whose values name another subscriber, NOT signed under the listener's secret.
func rtRetarget(r *rand.Rand, p *rtPlan, secret []byte) []byte {
	other := r.IntN(1000)
	var reg []byte
	for _, a := range p.attrs {
		v := clone(a.V)
		switch a.T {
		case 8:
			v = sessIP(other)
		case 4:
			v = randBytes(r, 4)
		case 31:
			if len(v) == 17 {
				v = []byte(sessMAC(other))
			}
		case 44:
			s := []byte("live-" + strconv.Itoa(other))
			for len(s) < len(v) {
				s = append(s, ' ')
			}
			v = s[:len(v)]
		case 11, 25, 18:
			v = randPrintable(r, len(v))
		case 27, 28:
			v = u32(uint32(1 + r.IntN(86400)))
		case 1:
			if r.IntN(2) == 0 {
				v = randPrintable(r, len(v))
			}
		}
		reg = append(reg, attrTLV(a.T, v)...)
	}
	id := p.d[1]
	if r.IntN(2) == 0 {
		id = byte(r.IntN(256))
	}
	var d []byte
	switch r.IntN(3) {
	case 0:
		d = build(p.d[0], id, reg, append(clone(secret), 'x'))
	case 1:
		d = build(p.d[0], id, reg, secret)
		d[4+r.IntN(16)] ^= 1 << r.IntN(8)
	default: // the retained request's own authenticator on other content
		d = build(p.d[0], id, reg, secret)
		copy(d[4:20], p.d[4:20])
	}
	return d
}

// rtMaximal builds datagrams that fill the listener's whole 4096-octet receive buffer (or more than that).
func rtMaximal(r *rand.Rand, variant string, secret []byte) []byte {
	switch variant {
	case "maximal-pattern":
		return patternBytes(4096, r.IntN(len(rtPattern)))
	case "oversize-pattern":
		d := patternBytes(4097+r.IntN(3000), r.IntN(len(rtPattern)))
		if r.IntN(2) == 0 { // plausible header, length field = the buffer size, authenticator wrong
			d[0], d[1] = []byte{40, 43}[r.IntN(2)], byte(r.IntN(256))
			binary.BigEndian.PutUint16(d[2:4], 4096)
		}
		return d
	}
	// maximal-plausible / maximal-authentic: L = 4096, a region of well-formed attributes
	var reg []byte
	tok := rtToken(r)
	sess := r.IntN(1000)
	reg = append(reg, attrTLV(1, tok)...)
	for len(reg) < 4076-600 {
		switch r.IntN(4) {
		case 0:
			reg = append(reg, attrTLV(8, sessIP(r.IntN(1000)))...)
		case 1:
			reg = append(reg, attrTLV(4, []byte{0xC1, 0x5C, 0x15, byte(r.IntN(256))})...)
		case 2:
			reg = append(reg, attrTLV(44, []byte("live-"+strconv.Itoa(sess)))...)
		default:
			reg = append(reg, attrTLV(25, patternBytes(1+r.IntN(253), r.IntN(12)))...)
		}
	}
	for rem := 4076 - len(reg); rem > 0; rem = 4076 - len(reg) {
		l := min(rem, 255)
		if rem-l > 0 && rem-l < 3 {
			l -= 3
		}
		reg = append(reg, attrTLV(25, patternBytes(l-2, r.IntN(12)))...)
	}
	d := build([]byte{40, 43}[r.IntN(2)], byte(r.IntN(256)), reg, secret)
	if variant == "maximal-plausible" {
		copy(d[4:20], randBytes(r, 16))
	}
	return d
}

var rtLaterKinds = []string{"inauthentic-retarget", "inauthentic-other", "truncated", "junk", "authentic-other-session", "maximal-pattern", "maximal-plausible", "oversize-pattern", "maximal-authentic"}

type rtWorker struct {
	*worker
	lis, epN int
	kOn      bool
	plans    map[string]*rtPlan // token -> authentic request sent in the current episode
}

func (w *rtWorker) ensure() bool {
	if w.srv == nil || w.srv.dead {
		if !w.respawn() {
			return false
		}
		w.kOn = false
	}
	if !w.kOn {
		if _, ok := w.srv.ask("K"); !ok {
			return false
		}
		w.kOn = true
	}
	return true
}

type rtLater struct {
	kind string
	d    []byte
	auth bool
}

// step sends one datagram without a probe, lets the listener process report quiescence, judges the datagram with the
// oracle of oracle_test.go and has every retained object compared. ok=false: the episode cannot go on.
func (w *rtWorker) step(epName string, fam string, d []byte, later *rtLater, first *rtPlan) bool {
	o, _, _ := w.exchange(d, false)
	tc := &tcase{fam: fam, d: d}
	switch {
	case o.settled == "crash":
		judge(tc, w.secret, w.mode, o)
		run.Eval()
		w.count("listener_deaths_observed", 1)
		w.srv = nil
		return false
	case o.settled != "quiescent":
		run.Inconclusive(epName, fam+": "+o.settled)
		w.count("retention_episodes_not_settled", 1)
		if w.srv != nil && !w.srv.dead {
			w.srv.kill()
		}
		w.srv = nil
		return false
	}
	w.account(tc, o, nil, nil)
	v, ok := w.srv.ask("V")
	if !ok {
		run.Inconclusive(epName, "listener process gone before the retained requests were compared")
		w.srv = nil
		return false
	}
	w.count("retention_comparison_rounds", 1)
	for _, rr := range v.Ret {
		w.count("retained_objects_compared", 1)
		w.count("retained_objects_compared_kind_"+rr.K, 1)
		if later != nil {
			w.count("retained_objects_compared_after_later_"+later.kind, 1)
		}
		if len(rr.Diff) == 0 {
			continue
		}
		lk, auth, lhex := "the-request-itself", true, capHex(d)
		if later != nil {
			lk, auth = later.kind, later.auth
		}
		cls := "retained-request-changed-after-later-inauthentic-datagram"
		if auth {
			cls = "retained-request-changed-after-later-authentic-datagram"
		}
		wit := map[string]any{"secret_hex": hx(w.secret), "handler_mode": w.mode, "episode": epName, "retained_object": rr.K, "retained_seq": rr.Seq,
			"fields_changed": rr.Diff, "object_at_previous_comparison": rr.Was, "object_now": rr.Now, "later_datagram_kind": lk, "later_datagram_hex": lhex, "later_datagram_len": len(d)}
		if p := w.plans[rr.User]; p != nil {
			wit["retained_request_datagram_hex"] = capHex(p.d)
		}
		run.Violation(compLoop, "dropped-without-effect/accepted-request-unchanged", cls,
			fmt.Sprintf("a request object (%s) that was authenticated and handed to a handler which kept it differs from the deep copy taken at hand-over after a later datagram (%s, %d octets) was received: fields %s", rr.K, lk, len(d), strings.Join(rr.Diff, ",")),
			wit)
	}
	return true
}

var rtSample sync.Once

func (w *rtWorker) episode(r *rand.Rand) {
	if !w.ensure() {
		return
	}
	w.epN++
	name := fmt.Sprintf("retention listener=%d episode=%d mode=%s", w.lis, w.epN, w.mode)
	if _, ok := w.srv.ask("F"); !ok {
		return
	}
	w.plans = map[string]*rtPlan{}
	ids := r.Perm(256)
	nid := 0
	nextID := func() byte { nid++; return byte(ids[nid%256]) }
	sess := r.Perm(1000)
	ns := 0
	nextSess := func() int { ns++; return sess[ns%1000] }

	// the requests that are accepted first
	k := 1 + r.IntN(3)
	var firsts []*rtPlan
	for i := 0; i < k; i++ {
		p := rtRequest(r, nextID(), nextSess(), w.secret, "retained")
		w.plans[p.tok] = p
		firsts = append(firsts, p)
		var later *rtLater
		if i > 0 {
			later = &rtLater{kind: "authentic-other-session", d: p.d, auth: true}
		}
		if !w.step(name, "retention-request", p.d, later, nil) {
			return
		}
		run.Distinct("retained_request_named_by", p.namedBy)
		run.Distinct("retained_request_lengths", strconv.Itoa(len(p.d)))
	}
	// later datagrams of every kind, each followed by a comparison
	kinds := append([]string(nil), rtLaterKinds...)
	for i, n := 0, r.IntN(4); i < n; i++ {
		kinds = append(kinds, rtLaterKinds[r.IntN(len(rtLaterKinds))])
	}
	r.Shuffle(len(kinds), func(i, j int) { kinds[i], kinds[j] = kinds[j], kinds[i] })
	var laters []map[string]any
	for _, kind := range kinds {
		l := &rtLater{kind: kind}
		switch kind {
		case "inauthentic-retarget":
			l.d = rtRetarget(r, firsts[r.IntN(len(firsts))], w.secret)
		case "inauthentic-other":
			p := rtRequest(r, nextID(), r.IntN(1000), w.secret, "")
			l.d = p.d
			switch r.IntN(3) {
			case 0:
				l.d[4+r.IntN(16)] ^= 1 << r.IntN(8)
			case 1:
				refSign(l.d, len(l.d), randBytes(r, 1+r.IntN(20)))
			default:
				l.d[20+r.IntN(len(l.d)-20)] ^= byte(1 + r.IntN(255))
			}
		case "truncated":
			var full []byte
			if r.IntN(2) == 0 {
				full = clone(firsts[r.IntN(len(firsts))].d) // a prefix of the retained request itself
			} else {
				full = rtRequest(r, nextID(), r.IntN(1000), w.secret, "").d
			}
			l.d = full[:1+r.IntN(len(full)-1)]
		case "junk":
			if r.IntN(2) == 0 {
				l.d = ovJunk(r, nextID())
			} else {
				l.d = randBytes(r, 1+r.IntN(600))
			}
		case "authentic-other-session":
			p := rtRequest(r, nextID(), nextSess(), w.secret, kind)
			w.plans[p.tok] = p
			l.d, l.auth = p.d, true
		case "maximal-authentic":
			l.d, l.auth = rtMaximal(r, kind, w.secret), true
			p := &rtPlan{d: l.d, kind: kind, namedBy: "session-id"}
			p.attrs, _ = refParseAttrs(l.d[20:])
			p.tok = hx(p.attrs[0].V)
			w.plans[p.tok] = p
		default:
			l.d = rtMaximal(r, kind, w.secret)
		}
		if a, _ := refAuthentic(l.d, w.secret); a != l.auth {
			continue // cannot happen short of an MD5 collision
		}
		if !w.step(name, "retention-later-"+kind, l.d, l, firsts[0]) {
			return
		}
		w.count("later_datagrams_kind_"+kind, 1)
		if l.auth {
			w.count("later_datagrams_authentic", 1)
		} else {
			w.count("later_datagrams_inauthentic", 1)
		}
		if len(l.d) >= 4096 {
			w.count("later_datagrams_filling_the_receive_buffer", 1)
		}
		laters = append(laters, map[string]any{"kind": kind, "len": len(l.d), "authentic": l.auth})
	}
	// every authentic request of the episode must have been handed over and kept
	v, ok := w.srv.ask("V")
	if !ok {
		return
	}
	seen := map[string]bool{}
	for _, rr := range v.Ret {
		if rr.K != "policy-update" {
			seen[rr.User] = true
		}
		if rr.K == "policy-update" {
			w.count("policy_update_objects_retained", 1)
		}
	}
	for tok, p := range w.plans {
		if seen[tok] {
			w.count("requests_retained", 1)
			w.count("requests_retained_"+p.kind, 1)
		} else {
			run.Inconclusive(name, "an authentic request of the episode is not among the retained objects (judged separately by the if-authentic clauses)")
		}
	}
	// deferred application through the real CoAProcessor, after all the later datagrams
	if w.mode == "direct" {
		a, ok := w.srv.ask("A")
		if !ok {
			run.Inconclusive(name, "listener process gone before the deferred application")
			w.srv = nil
			return
		}
		for _, ar := range a.App {
			w.judgeApplied(name, ar)
		}
		// the end of the episode: once more, after the processor has read the retained objects
		if !w.finalCompare(name) {
			return
		}
	}
	w.count("retention_episodes", 1)
	w.count("retention_episodes_mode_"+w.mode, 1)
	run.Distinct("retention_episode_shapes", fmt.Sprintf("%s|k=%d|later=%d", w.mode, k, len(kinds)))
	rtSample.Do(func() {
		run.Sample(map[string]any{"episode": name, "secret_hex": hx(w.secret), "first_request_hex": capHex(firsts[0].d), "first_request_session_named_by": firsts[0].namedBy,
			"requests_accepted_first": k, "later_datagrams_in_order": laters, "retained_objects_at_end": len(v.Ret)})
	})
}

func (w *rtWorker) finalCompare(name string) bool {
	v, ok := w.srv.ask("V")
	if !ok {
		w.srv = nil
		return false
	}
	for _, rr := range v.Ret {
		w.count("retained_objects_compared", 1)
		w.count("retained_objects_compared_after_deferred_application", 1)
		if len(rr.Diff) > 0 {
			run.Violation("radius.CoAProcessor", "request-unchanged-by-processing", "retained-request-changed-by-deferred-application",
				"a retained request object differs from its copy after the CoAProcessor was given it: fields "+strings.Join(rr.Diff, ","),
				map[string]any{"secret_hex": hx(w.secret), "episode": name, "fields_changed": rr.Diff, "was": rr.Was, "now": rr.Now})
		}
	}
	return true
}

// judgeApplied: the change applied after the later datagrams must be the one the authentic request named.
func (w *rtWorker) judgeApplied(name string, ar appRep) {
	p := w.plans[ar.User]
	if p == nil {
		run.Inconclusive(name, "deferred application reported for a request the episode did not send")
		return
	}
	run.Eval()
	w.count("deferred_applications_judged", 1)
	w.count("deferred_applications_request_named_by_"+p.namedBy, 1)
	wit := func() map[string]any {
		return map[string]any{"secret_hex": hx(w.secret), "episode": name, "request_datagram_hex": capHex(p.d), "session_named_by": p.namedBy,
			"changes_applied_from_retained_object": ar.Got, "changes_applied_from_copy_taken_at_hand_over": ar.Want}
	}
	has := func(t byte, v []byte) bool {
		for _, a := range p.attrs {
			if a.T == t && bytes.Equal(a.V, v) {
				return true
			}
		}
		return false
	}
	for _, c := range ar.Got {
		w.count("deferred_changes_applied", 1)
		w.count("deferred_changes_applied_"+c.K, 1)
		if strings.HasPrefix(p.namedBy, "framed-ip") || p.namedBy == "calling-station" {
			w.count("deferred_changes_applied_session_found_by_address", 1)
		}
		if !sessionIdentified(c.SID, p.attrs) {
			run.Violation(compLoop, "acts-on-authenticated-attributes-only", "deferred-session-change-not-identified-by-authenticated-attributes",
				fmt.Sprintf("session %q was changed (%s) when the retained request was applied after later datagrams, but no attribute inside the authenticated region of that request identifies it", unhex(c.SID), c.K), wit())
		}
		if c.K == "policy" {
			if c.Filter != "" && !has(11, unhexB(c.Filter)) {
				run.Violation(compLoop, "acts-on-authenticated-attributes-only", "deferred-policy-filter-not-in-authenticated-region",
					fmt.Sprintf("filter %q applied to session %q is no Filter-Id of the authenticated request", unhex(c.Filter), unhex(c.SID)), wit())
			}
			if c.STO != 0 && !has(27, u32(uint32(c.STO))) {
				run.Violation(compLoop, "acts-on-authenticated-attributes-only", "deferred-policy-timeout-not-in-authenticated-region",
					fmt.Sprintf("session time-out %d applied to session %q is no Session-Timeout of the authenticated request", c.STO, unhex(c.SID)), wit())
			}
			if c.ITO != 0 && !has(28, u32(uint32(c.ITO))) {
				run.Violation(compLoop, "acts-on-authenticated-attributes-only", "deferred-policy-timeout-not-in-authenticated-region",
					fmt.Sprintf("idle time-out %d applied to session %q is no Idle-Timeout of the authenticated request", c.ITO, unhex(c.SID)), wit())
			}
		}
	}
	g, _ := json.Marshal(ar.Got)
	wn, _ := json.Marshal(ar.Want)
	if !bytes.Equal(g, wn) || ar.GotOK != ar.WantOK {
		cls := "deferred-change-differs-from-request-as-handed-over"
		switch {
		case len(ar.Got) == 0 && len(ar.Want) > 0:
			cls = "deferred-change-lost"
		case len(ar.Got) > 0 && len(ar.Want) == 0:
			cls = "deferred-change-appeared"
		}
		run.Violation(compLoop, "dropped-without-effect/deferred-application", cls,
			"applying the retained request after later datagrams arrived gives another result than applying the deep copy taken when the request was handed over", wit())
	} else if len(ar.Got) > 0 {
		w.count("deferred_changes_equal_to_request_as_handed_over", 1)
	}
}

func TestRetainedRequests(t *testing.T) {
	nlis := run.Pick(24, 240)
	neps := run.Pick(5, 6)
	nw := runtime.NumCPU() / 2
	if nw > 8 {
		nw = 8
	}
	if nw < 2 {
		nw = 2
	}
	var next atomic.Int64
	var wg sync.WaitGroup
	for wi := 0; wi < nw; wi++ {
		wg.Add(1)
		go func(wi int) {
			defer wg.Done()
			sock, err := net.ListenUDP("udp4", &net.UDPAddr{IP: net.IPv4(127, 0, 0, 1)})
			if err != nil {
				t.Errorf("sender socket: %v", err)
				return
			}
			defer sock.Close()
			sock.SetReadBuffer(1 << 20)
			w := &rtWorker{worker: &worker{id: wi, sock: sock, buf: make([]byte, 1<<16), t: t, local: map[string]int{}}}
			defer func() {
				if w.srv != nil && !w.srv.dead {
					w.srv.kill()
				}
				w.flush()
			}()
			for {
				li := int(next.Add(1)) - 1
				if li >= nlis || abortAll.Load() {
					return
				}
				r := run.SubRand("retention", li)
				w.rng = run.SubRand("retention-fence", li)
				w.secret = genSecret(r)
				w.mode = []string{"direct", "processor", "direct"}[li%3]
				w.vseed = uint64(run.Seed)<<32 ^ 0x0e0e0000 ^ uint64(li)<<8
				w.lis, w.epN = li, 0
				if w.srv != nil && !w.srv.dead {
					w.srv.kill()
				}
				w.srv = nil
				w.count("retention_listeners_mode_"+w.mode, 1)
				bad := 0
				for e := 0; e < neps && bad < 2 && !abortAll.Load(); e++ {
					before := w.local["retention_episodes"]
					w.episode(r)
					if w.local["retention_episodes"] == before {
						bad++
					}
				}
				w.flush()
			}
		}(wi)
	}
	wg.Wait()
}
