package c15

// Independent RFC 5176 / RFC 2865 oracle. Nothing in this file calls into bng.

import (
	"bytes"
	"crypto/md5"
	"encoding/hex"
	"fmt"
	"sort"
	"strings"
)

const (
	compLoop = "radius.CoAServer.receiveLoop"
	compResp = "radius.CoAServer.sendResponse"
)

// refAuthentic is the property's definition of "a complete RADIUS packet whose
// Request Authenticator verifies under the shared secret":
// len(d) >= 20, 20 <= L <= len(d), MD5(d[0:4] | 0^16 | d[20:L] | secret) == d[4:20].
// Octets beyond L are padding (RFC 2865 section 3) and are ignored.
func refAuthentic(d, secret []byte) (bool, int) {
	if len(d) < 20 {
		return false, -1
	}
	L := int(d[2])<<8 | int(d[3])
	if L < 20 || L > len(d) {
		return false, L
	}
	h := md5.New()
	h.Write(d[0:4])
	h.Write(make([]byte, 16))
	h.Write(d[20:L])
	h.Write(secret)
	return bytes.Equal(h.Sum(nil), d[4:20]), L
}

// refSign writes the RFC 5176 Request Authenticator of d[:L] into d[4:20].
func refSign(d []byte, L int, secret []byte) {
	h := md5.New()
	h.Write(d[0:4])
	h.Write(make([]byte, 16))
	h.Write(d[20:L])
	h.Write(secret)
	copy(d[4:20], h.Sum(nil))
}

// refResponseOK: 20 <= Lr <= len(r) and MD5(r[0:4] | RequestAuth | r[20:Lr] | secret) == r[4:20].
func refResponseOK(r, reqAuth, secret []byte) (bool, string) {
	if len(r) < 20 {
		return false, "response-shorter-than-20"
	}
	L := int(r[2])<<8 | int(r[3])
	if L < 20 || L > len(r) {
		return false, "response-length-field-invalid"
	}
	h := md5.New()
	h.Write(r[0:4])
	h.Write(reqAuth)
	h.Write(r[20:L])
	h.Write(secret)
	if !bytes.Equal(h.Sum(nil), r[4:20]) {
		return false, "response-authenticator-mismatch"
	}
	return true, ""
}

type refAttr struct {
	T byte
	V []byte
}

const (
	attrsMalformed = -1 // an attribute with length < 2 or running past the region
	attrsGrey      = 0  // parsable, but with a zero-length value or one stray trailing octet: either treatment accepted
	attrsStrict    = 1  // every attribute has length >= 3 and the region is consumed exactly
)

// refParseAttrs parses the attribute region d[20:L] per RFC 2865 section 5.
func refParseAttrs(b []byte) ([]refAttr, int) {
	var out []refAttr
	st := attrsStrict
	i := 0
	for i < len(b) {
		if len(b)-i < 2 {
			if st == attrsStrict {
				st = attrsGrey
			}
			break
		}
		l := int(b[i+1])
		if l < 2 || i+l > len(b) {
			return out, attrsMalformed
		}
		if l == 2 {
			st = attrsGrey
		}
		out = append(out, refAttr{T: b[i], V: append([]byte(nil), b[i+2:i+l]...)})
		i += l
	}
	return out, st
}

// inputClass is the normalised class of a datagram under a secret, computed from the bytes only.
func inputClass(d, secret []byte) string {
	ok, L := refAuthentic(d, secret)
	switch {
	case len(d) < 20:
		return "short-datagram"
	case L < 20:
		return "length-field-below-20"
	case L > len(d):
		return "length-field-beyond-datagram"
	case !ok:
		return "bad-authenticator"
	}
	c := "authentic"
	if L > 4096 {
		return "authentic-oversize"
	}
	if d[0] != 40 && d[0] != 43 {
		c = "authentic-other-code"
	} else {
		_, st := refParseAttrs(d[20:L])
		switch st {
		case attrsMalformed:
			c = "authentic-malformed-attributes"
		case attrsGrey:
			c = "authentic-grey-attributes"
		default:
			c = "authentic-request"
		}
	}
	if L < len(d) {
		c += "+padding"
	}
	return c
}

// diffRegion names the part of the packet in which d first differs from the authentic base it was derived from.
func diffRegion(tc *tcase, secret []byte) string {
	if tc.signedWith != nil && !bytes.Equal(tc.signedWith, secret) {
		if ok, _ := refAuthentic(tc.d, tc.signedWith); ok {
			return "signed-with-other-secret"
		}
	}
	if tc.base == nil {
		return "no-base"
	}
	n := len(tc.d)
	if len(tc.base) < n {
		n = len(tc.base)
	}
	for i := 0; i < n; i++ {
		if tc.d[i] != tc.base[i] {
			switch {
			case i == 0:
				return "code"
			case i == 1:
				return "identifier"
			case i < 4:
				return "length"
			case i < 20:
				return "authenticator"
			default:
				return "attributes"
			}
		}
	}
	if len(tc.d) < len(tc.base) {
		return "truncated"
	}
	if len(tc.d) > len(tc.base) {
		return "extended"
	}
	return "identical"
}

func hx(b []byte) string { return hex.EncodeToString(b) }

func capHex(b []byte) string {
	if len(b) <= 400 {
		return hx(b)
	}
	return hx(b[:400]) + fmt.Sprintf("...(%d bytes)", len(b))
}

// event is one observation made by a harness-installed handler or session callback in the listener process.
type event struct {
	K      string            `json:"k"` // coa | disc | term | policy
	SID    string            `json:"sid,omitempty"`
	User   string            `json:"user,omitempty"`
	CS     string            `json:"cs,omitempty"`
	FIP    string            `json:"fip,omitempty"`
	NAS    string            `json:"nas,omitempty"`
	Filter string            `json:"filter,omitempty"`
	STO    uint32            `json:"sto,omitempty"`
	ITO    uint32            `json:"ito,omitempty"`
	Attrs  []evAttr          `json:"attrs,omitempty"`
	OK     bool              `json:"ok"`
	EC     uint32            `json:"ec,omitempty"`
	Msg    string            `json:"msg,omitempty"`
	Reply  string            `json:"r,omitempty"` // control replies share the line format
	Q      *quiesce          `json:"q,omitempty"`
	Cb     string            `json:"cb,omitempty"`  // k == "enter": which session-changing callback is being held (coa | disc | policy | term)
	Seq    int               `json:"seq,omitempty"` // k == "enter": handle for releasing it
	Tab    map[string][2]int `json:"tab,omitempty"` // reply to T: session (hex) -> {policy changes, terminations} applied so far
	Ret    []retRep          `json:"ret,omitempty"` // reply to V: every retained request object compared with its deep copy (retain_test.go)
	App    []appRep          `json:"app,omitempty"` // reply to A: deferred applications of retained requests through the real CoAProcessor
}

type evAttr struct {
	T int    `json:"t"`
	V string `json:"v"`
}

type quiesce struct {
	Quiescent bool   `json:"quiescent"`
	RxQ       int    `json:"rxq"`
	Loop      string `json:"loop"`
	Readers   int    `json:"readers"`  // goroutines of package radius parked in a socket read
	Busy      int    `json:"busy"`     // goroutines of package radius neither parked in a read nor on a channel
	Inflight  int    `json:"inflight"` // harness handlers entered and not returned
	Polls     int    `json:"polls,omitempty"`
	Blocked   int    `json:"blocked,omitempty"`
	Consumed  bool   `json:"consumed,omitempty"`
	Queued    bool   `json:"queued,omitempty"`
}

type outcome struct {
	evs      []event
	resps    [][]byte
	settled  string // fence | quiescent | crash
	crashMsg string
}

// judge applies every oracle clause to one datagram and what was observed for it.
// It returns true when nothing was violated.
func judge(tc *tcase, secret []byte, mode string, o *outcome) bool {
	d := tc.d
	auth, L := refAuthentic(d, secret)
	cls := inputClass(d, secret)
	var handlers, changes []event
	for _, e := range o.evs {
		switch e.K {
		case "coa", "disc":
			handlers = append(handlers, e)
		case "term", "policy":
			changes = append(changes, e)
		}
	}
	clean := true
	mult := tc.mult // how many times this very datagram was sent (overlap workload: replays); each copy may be acted on
	if mult < 1 {
		mult = 1
	}
	wit := func() map[string]any {
		rs := make([]string, len(o.resps))
		for i, r := range o.resps {
			rs[i] = capHex(r)
		}
		w := map[string]any{
			"secret_hex": hx(secret), "datagram_hex": capHex(d), "datagram_len": len(d), "length_field": L,
			"family": tc.fam, "input_class": cls, "handler_mode": mode, "events": o.evs, "responses_hex": rs,
			"settled_by": o.settled,
		}
		if tc.base != nil {
			w["derived_from_authentic_hex"] = capHex(tc.base)
		}
		if tc.signedWith != nil {
			w["signed_with_secret_hex"] = hx(tc.signedWith)
		}
		if o.crashMsg != "" {
			w["listener_stderr"] = o.crashMsg
		}
		if tc.ctx != nil {
			w["episode"] = tc.ctx
		}
		if mult > 1 {
			w["times_sent"] = mult
		}
		return w
	}
	v := func(comp, rule, class, desc string) {
		clean = false
		run.Violation(comp, rule, class, desc, wit())
	}

	if o.settled == "crash" {
		if auth {
			v(compLoop, "if-authentic/response-once", "listener-crash/"+cls,
				"the listener process died while handling an authentic request: "+firstLine(o.crashMsg))
		} else {
			v(compLoop, "dropped-without-effect", "listener-crash/"+cls,
				"a datagram that is not an authentic request killed the listener process (it must be dropped without effect): "+firstLine(o.crashMsg))
		}
	}

	if !auth {
		reg := diffRegion(tc, secret)
		c := cls
		if cls == "bad-authenticator" {
			c += "/" + reg
		}
		if len(handlers) > 0 {
			v(compLoop, "only-if-authentic/handler", c, fmt.Sprintf("%d handler invocation(s) for a datagram that is not authentic (%s, family %s)", len(handlers), cls, tc.fam))
		}
		if len(changes) > 0 {
			v(compLoop, "only-if-authentic/session-change", c, fmt.Sprintf("%d session change(s) for a datagram that is not authentic (%s)", len(changes), cls))
		}
		if len(o.resps) > 0 {
			v(compLoop, "only-if-authentic/response", c, fmt.Sprintf("%d datagram(s) sent back for a datagram that is not authentic (%s, family %s)", len(o.resps), cls, tc.fam))
		}
		return clean
	}

	// authentic from here on
	attrs, st := refParseAttrs(d[20:L])
	pad := ""
	if L < len(d) {
		pad = "+padding"
	}
	isReq := d[0] == 40 || d[0] == 43
	switch {
	case L > 4096:
		// beyond the RFC 2865 maximum packet length: nothing is required of the listener
	case !isReq:
		if len(handlers) > 0 {
			v(compLoop, "authentic-other-code/no-handler", fmt.Sprintf("handler-called-for-code-%d", d[0]), "handler invoked for an authentic packet that is neither CoA-Request nor Disconnect-Request")
		}
		if len(changes) > 0 {
			v(compLoop, "authentic-other-code/no-handler", "session-change", "session change for an authentic packet that is neither CoA-Request nor Disconnect-Request")
		}
	case st == attrsMalformed:
		if len(handlers) > 0 || len(changes) > 0 {
			v(compLoop, "authentic-malformed-attributes/no-handler", "handler-called"+pad, "handler invoked for an authentic request whose attribute region d[20:L] does not parse (attribute length < 2 or past L)")
		}
	case st == attrsStrict && o.settled != "crash":
		if len(handlers) == 0 {
			v(compLoop, "if-authentic/handler-once", "zero-calls"+pad, fmt.Sprintf("no handler invocation for an authentic, well-formed request (code %d, %d attributes, family %s)", d[0], len(attrs), tc.fam))
		}
		if len(o.resps) == 0 {
			v(compLoop, "if-authentic/response-once", "zero-responses"+pad, fmt.Sprintf("no ACK/NAK for an authentic, well-formed request (code %d, %d attributes, family %s)", d[0], len(attrs), tc.fam))
		}
	}
	if len(handlers) > mult {
		v(compLoop, "if-authentic/handler-once", "several-calls"+pad, fmt.Sprintf("%d handler invocations for an authentic request sent %d time(s)", len(handlers), mult))
	}
	if isReq && L <= 4096 && len(handlers) >= 1 {
		if len(o.resps) == 0 && st != attrsStrict && o.settled != "crash" {
			v(compLoop, "if-authentic/response-once", "handler-called-but-zero-responses"+pad, "a handler was invoked but no ACK/NAK was sent")
		}
		if len(o.resps) > mult {
			v(compLoop, "if-authentic/response-once", "several-responses"+pad, fmt.Sprintf("%d datagrams sent back for an authentic request sent %d time(s)", len(o.resps), mult))
		}
	}
	// the handler that ran must be the one for the request's code, and must have been shown authenticated content only
	for _, h := range handlers {
		if !isReq {
			break
		}
		want := "coa"
		if d[0] == 40 {
			want = "disc"
		}
		if h.K != want {
			v(compLoop, "if-authentic/handler-kind", fmt.Sprintf("code-%d-ran-%s-handler", d[0], h.K), "the handler invoked does not match the request code")
		}
		if bad := unauthenticatedContent(h, attrs, st); bad != "" {
			v(compLoop, "acts-on-authenticated-attributes-only", bad+pad, "the handler was shown content that is not in the authenticated region d[20:L]")
		}
	}
	for _, c := range changes {
		if !sessionIdentified(c.SID, attrs) {
			v(compLoop, "acts-on-authenticated-attributes-only", "session-change-not-identified-by-authenticated-attributes"+pad,
				fmt.Sprintf("session %q was changed (%s) but no attribute inside d[20:L] identifies it", unhex(c.SID), c.K))
		}
	}
	// responses
	for _, r := range o.resps {
		ok, why := refResponseOK(r, d[4:20], secret)
		if !ok {
			v(compResp, "response/authenticator-verifies", why, "the Response Authenticator does not verify against the request (MD5(code|id|len|RequestAuth|attrs|secret))")
		}
		if len(r) >= 2 && r[1] != d[1] {
			v(compResp, "response/identifier-echoed", "identifier-differs", fmt.Sprintf("response identifier %d, request identifier %d", r[1], d[1]))
		}
		if len(r) >= 1 && isReq && len(handlers) == 1 && !tc.noCodeCheck {
			var want byte
			switch {
			case d[0] == 43 && handlers[0].OK:
				want = 44
			case d[0] == 43:
				want = 45
			case handlers[0].OK:
				want = 41
			default:
				want = 42
			}
			if r[0] != want {
				v(compResp, "response/code-consistent", fmt.Sprintf("request-%d-verdict-%v-answered-%d", d[0], handlers[0].OK, r[0]), "the response code does not match the request code and the handler's verdict")
			}
		}
	}
	return clean
}

// unauthenticatedContent returns a class name when handler h was shown something that
// the authenticated attribute region does not contain.
func unauthenticatedContent(h event, attrs []refAttr, st int) string {
	has := func(t byte, vhex string) bool {
		for _, a := range attrs {
			if a.T == t && hx(a.V) == vhex {
				return true
			}
		}
		return false
	}
	if h.K == "coa" {
		if st == attrsStrict {
			if len(h.Attrs) != len(attrs) {
				return "handler-attributes-differ-from-authenticated-region"
			}
			for i, a := range attrs {
				if h.Attrs[i].T != int(a.T) || h.Attrs[i].V != hx(a.V) {
					return "handler-attributes-differ-from-authenticated-region"
				}
			}
		} else {
			for _, a := range h.Attrs {
				if a.T < 0 || a.T > 255 || !has(byte(a.T), a.V) {
					return "handler-attributes-differ-from-authenticated-region"
				}
			}
		}
	}
	chk := []struct {
		t byte
		v string
	}{{44, h.SID}, {1, h.User}, {31, h.CS}, {8, h.FIP}, {4, h.NAS}, {11, h.Filter}}
	for _, c := range chk {
		if c.v != "" && !has(c.t, c.v) {
			return fmt.Sprintf("handler-field-from-attribute-%d-not-in-authenticated-region", c.t)
		}
	}
	return ""
}

func unhex(s string) string { b, _ := hex.DecodeString(s); return string(b) }

// sessionIdentified: the session the processor changed must be named by an attribute inside the authenticated region.
func sessionIdentified(sidHex string, attrs []refAttr) bool {
	sid := unhex(sidHex)
	n, ok := sessN(sid)
	for _, a := range attrs {
		switch a.T {
		case 44:
			if string(a.V) == sid {
				return true
			}
		case 8:
			if ok && bytes.Equal(a.V, sessIP(n)) {
				return true
			}
		case 31:
			if ok && string(a.V) == sessMAC(n) {
				return true
			}
		}
	}
	return false
}

func firstLine(s string) string {
	for _, l := range strings.Split(s, "\n") {
		if strings.HasPrefix(l, "panic:") || strings.HasPrefix(l, "fatal error:") {
			return l
		}
	}
	if i := strings.IndexByte(s, '\n'); i >= 0 {
		return s[:i]
	}
	return s
}

func sortedKeys(m map[string]int) []string {
	k := make([]string, 0, len(m))
	for s := range m {
		k = append(k, s)
	}
	sort.Strings(k)
	return k
}
