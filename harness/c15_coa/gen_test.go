package c15

// Workload generation: authentic CoA/Disconnect requests and every mutation family of DESIGN C15.

import (
	"encoding/binary"
	"fmt"
	"math/rand/v2"
	"strconv"
)

type tcase struct {
	fam         string // generator family (evidence / description only)
	d           []byte
	base        []byte // authentic datagram this one was derived from (nil: none)
	signedWith  []byte // secret used for signing when it is not the listener's
	mult        int    // overlap workload: how many times this very datagram was sent to the listener (0 = once)
	noCodeCheck bool   // overlap workload: the handler event cannot be told apart from that of a twin datagram; codes are judged jointly
	ctx         any    // overlap workload: the episode this datagram was part of (goes into witnesses)
}

func clone(b []byte) []byte { return append([]byte(nil), b...) }

func randBytes(r *rand.Rand, n int) []byte {
	b := make([]byte, n)
	for i := range b {
		b[i] = byte(r.IntN(256))
	}
	return b
}

func randPrintable(r *rand.Rand, n int) []byte {
	b := make([]byte, n)
	for i := range b {
		b[i] = byte(33 + r.IntN(94))
	}
	return b
}

// genSecret: length 1–64, half printable ASCII, half arbitrary octets (NUL and >= 0x80 included).
func genSecret(r *rand.Rand) []byte {
	var n int
	switch x := r.IntN(10); {
	case x == 0:
		n = 1
	case x == 1:
		n = 64
	case x == 2:
		n = 16
	case x == 3:
		n = 32 + r.IntN(32)
	default:
		n = 2 + r.IntN(30)
	}
	var b []byte
	if r.IntN(2) == 0 {
		b = randPrintable(r, n)
	} else {
		b = randBytes(r, n)
		if n > 2 && r.IntN(3) == 0 {
			b[r.IntN(n)] = 0
		}
	}
	// secrets that begin or end with white space / NUL / newline (a listener that normalises its secret is wrong)
	if n >= 2 && r.IntN(5) == 0 {
		ws := []byte{' ', '\t', '\n', '\r', 0}
		if r.IntN(2) == 0 {
			b[0] = ws[r.IntN(len(ws))]
		} else {
			b[n-1] = ws[r.IntN(len(ws))]
		}
	}
	return b
}

func attrTLV(t byte, v []byte) []byte {
	return append([]byte{t, byte(2 + len(v))}, v...)
}

func u32(v uint32) []byte { b := make([]byte, 4); binary.BigEndian.PutUint32(b, v); return b }

// genAttrs: 0–12 strictly well-formed attributes (every value 1–253 octets).
func genAttrs(r *rand.Rand) (region []byte, bounds []int, count int) {
	if r.IntN(12) != 0 {
		count = 1 + r.IntN(12)
	}
	bounds = []int{20}
	for i := 0; i < count; i++ {
		var t byte
		var v []byte
		sess := r.IntN(1000)
		switch r.IntN(14) {
		case 0:
			t, v = 1, randPrintable(r, 1+r.IntN(20))
			if r.IntN(4) == 0 {
				v = randBytes(r, 1+r.IntN(30))
			}
		case 1, 2:
			t = 44
			switch r.IntN(4) {
			case 0:
				v = []byte("gone-" + strconv.Itoa(sess))
			case 1:
				v = randPrintable(r, 1+r.IntN(24))
			default:
				v = []byte("live-" + strconv.Itoa(sess))
			}
		case 3:
			t, v = 8, sessIP(sess)
			if r.IntN(3) == 0 {
				v = randBytes(r, 4)
			}
		case 4:
			t, v = 31, []byte(sessMAC(sess))
			if r.IntN(3) == 0 {
				v = randPrintable(r, 17)
			}
		case 5:
			t, v = 4, randBytes(r, 4)
		case 6:
			t, v = 11, [][]byte{[]byte("gold"), []byte("silver"), []byte("residential-100"), randPrintable(r, 1+r.IntN(16))}[r.IntN(4)]
		case 7:
			t, v = 27, u32(uint32(r.IntN(86400)))
		case 8:
			t, v = 28, u32(uint32(r.IntN(3600)))
		case 9:
			t, v = 25, randBytes(r, 1+r.IntN(40))
		case 10:
			sub := attrTLV(byte(1+r.IntN(20)), randBytes(r, 1+r.IntN(12)))
			t, v = 26, append(u32(uint32(r.IntN(70000))), sub...)
		case 11:
			t, v = 80, randBytes(r, 16)
		case 12:
			t, v = 55, u32(r.Uint32())
		default:
			t, v = byte(1+r.IntN(255)), randBytes(r, 1+r.IntN(30))
		}
		if r.IntN(40) == 0 {
			v = randBytes(r, 253)
		}
		region = append(region, attrTLV(t, v)...)
		bounds = append(bounds, 20+len(region))
	}
	return
}

// build assembles and signs code|id|len|auth|region under secret.
func build(code, id byte, region, secret []byte) []byte {
	d := make([]byte, 20+len(region))
	d[0], d[1] = code, id
	binary.BigEndian.PutUint16(d[2:4], uint16(len(d)))
	copy(d[20:], region)
	refSign(d, len(d), secret)
	return d
}

type baseReq struct {
	d      []byte
	region []byte
	bounds []int // attribute boundaries (offsets into d), first = 20, last = len(d)
	nattr  int
}

func genBase(r *rand.Rand, secret []byte) *baseReq {
	region, bounds, n := genAttrs(r)
	code := byte(43)
	if r.IntN(2) == 0 {
		code = 40
	}
	return &baseReq{d: build(code, byte(r.IntN(256)), region, secret), region: region, bounds: bounds, nattr: n}
}

func forgedAttrs(r *rand.Rand) []byte {
	s := r.IntN(1000)
	out := attrTLV(44, []byte("live-"+strconv.Itoa(s)))
	out = append(out, attrTLV(11, []byte("gold"))...)
	out = append(out, attrTLV(8, sessIP(s))...)
	return out
}

// otherSecrets: near misses of the listener's secret, and unrelated ones.
func otherSecrets(r *rand.Rand, s []byte) [][]byte {
	out := [][]byte{
		{},
		append(clone(s), 0),
		append(clone(s), s[len(s)-1]),
		append(clone(s), ' '),
		append([]byte{s[0]}, s...),
		randBytes(r, len(s)),
		genSecret(r),
	}
	if len(s) > 1 {
		out = append(out, clone(s[:len(s)-1]), clone(s[1:]))
		rev := clone(s)
		for i, j := 0, len(rev)-1; i < j; i, j = i+1, j-1 {
			rev[i], rev[j] = rev[j], rev[i]
		}
		out = append(out, rev)
	}
	for _, k := range []int{8, 16, 32, len(s) / 2} {
		if k >= 1 && k < len(s) {
			out = append(out, clone(s[:k]))
		}
	}
	for _, bit := range []int{0, 5, 7} {
		f := clone(s)
		f[r.IntN(len(f))] ^= 1 << bit
		out = append(out, f)
	}
	return out
}

// casesFor yields every case derived from one authentic base request.
// fresh() returns an identifier not used by an authentic datagram of this base before, so that no
// two authentic datagrams sent to one listener are byte-identical in (id, authenticator).
func casesFor(r *rand.Rand, b *baseReq, secret []byte, thorough bool, yield func(*tcase)) {
	d := b.d
	n := len(d)
	usedID := map[byte]bool{d[1]: true}
	fresh := func() byte {
		for {
			id := byte(r.IntN(256))
			if !usedID[id] || len(usedID) >= 256 {
				usedID[id] = true
				return id
			}
		}
	}
	resigned := func(code byte, region []byte, L int, tail []byte) []byte {
		// header + region, length field L, signed over [0:L], then unauthenticated tail
		x := make([]byte, 20+len(region))
		x[0], x[1] = code, fresh()
		binary.BigEndian.PutUint16(x[2:4], uint16(L))
		copy(x[20:], region)
		if L >= 20 && L <= len(x) {
			refSign(x, L, secret)
		}
		return append(x, tail...)
	}

	yield(&tcase{fam: "base", d: clone(d), base: d})

	// every single-bit flip of the first 64 octets
	lim := n
	if lim > 64 {
		lim = 64
	}
	for i := 0; i < lim*8; i++ {
		x := clone(d)
		x[i/8] ^= 1 << (i % 8)
		yield(&tcase{fam: "bitflip", d: x, base: d})
	}
	// every single-octet substitution beyond
	for p := 64; p < n; p++ {
		x := clone(d)
		x[p] ^= byte(1 + r.IntN(255))
		yield(&tcase{fam: "bytesub", d: x, base: d})
	}
	// length field set to every value 0 … len+4 (not re-signed), and a few far values
	for v := 0; v <= n+4; v++ {
		if v == n {
			continue // identical to the base: an exact duplicate, not a mutation
		}
		x := clone(d)
		binary.BigEndian.PutUint16(x[2:4], uint16(v))
		yield(&tcase{fam: "lenfield", d: x, base: d})
	}
	for _, v := range []int{n + 256, 4096, 4097, 0x8000, 0xFFFF} {
		x := clone(d)
		binary.BigEndian.PutUint16(x[2:4], uint16(v))
		yield(&tcase{fam: "lenfield", d: x, base: d})
	}
	// truncation at every octet
	for k := 0; k < n; k++ {
		yield(&tcase{fam: "trunc", d: clone(d[:k]), base: d})
	}
	// length field shortened AND re-signed: an authentic prefix followed by the rest as unauthenticated octets
	// (well-formed at attribute boundaries: must be acted on, on the prefix only; malformed elsewhere)
	cut := map[int]bool{}
	for _, bd := range b.bounds {
		if bd < n {
			cut[bd] = true
		}
	}
	if n <= 140 || thorough {
		for v := 20; v < n; v++ {
			cut[v] = true
		}
	} else {
		for i := 0; i < 40; i++ {
			cut[20+r.IntN(n-20)] = true
		}
	}
	for v := 20; v < n; v++ {
		if cut[v] {
			yield(&tcase{fam: "prefix-resigned", d: resigned(d[0], b.region, v, nil), base: d})
		}
	}
	// length field below 20, "signed" the way the listener would compute it if it did not check
	for _, v := range []int{0, 4, 19} {
		x := resigned(d[0], b.region, n, nil)
		binary.BigEndian.PutUint16(x[2:4], uint16(v))
		refSign(x, 20, secret) // MD5(header | 0^16 | secret): what a clipping listener would compute
		yield(&tcase{fam: "lenfield", d: x, base: d})
	}
	// fewer than 20 octets whose length field is consistent with what arrived (L <= len < 20)
	for _, k := range []int{4, 5, 12, 19} {
		for _, v := range []int{0, 4, k} {
			x := clone(d[:k])
			binary.BigEndian.PutUint16(x[2:4], uint16(v))
			yield(&tcase{fam: "short-lenfield", d: x, base: d})
		}
	}
	// authentic request + padding beyond L (RFC 2865: ignored): must be acted on exactly like the request
	tails := [][]byte{{0}, randBytes(r, 3), forgedAttrs(r), randBytes(r, 300), make([]byte, 4096-n), randBytes(r, 4097-n), randBytes(r, 5000-n)}
	for _, t := range tails {
		yield(&tcase{fam: "padded", d: resigned(d[0], b.region, n, t), base: d})
	}
	// same request signed with another secret
	for _, s2 := range otherSecrets(r, secret) {
		x := clone(d)
		x[1] = byte(r.IntN(256))
		refSign(x, n, s2)
		yield(&tcase{fam: "other-secret", d: x, base: d, signedWith: s2})
	}
	// classic wrong authenticators
	for k := 0; k < 5; k++ {
		x := clone(d)
		switch k {
		case 0:
			copy(x[4:20], make([]byte, 16)) // left zero
		case 1:
			refSign(x, n, nil) // no secret
		case 2:
			copy(x[4:20], randBytes(r, 16))
		case 3: // halves swapped
			copy(x[4:12], d[12:20])
			copy(x[12:20], d[4:12])
		case 4: // secret first
			y := clone(d)
			refSign(y, n, nil)
			copy(x[4:20], y[4:20])
			x[19] ^= 0x80
		}
		yield(&tcase{fam: "wrong-authenticator", d: x, base: d})
	}
	// authentic packets that are not CoA/Disconnect requests
	for _, c := range []byte{0, 1, 2, 3, 4, 5, 11, 12, 13, 39, 41, 42, 44, 45, 46, 255} {
		yield(&tcase{fam: "other-code", d: resigned(c, b.region, n, nil), base: d})
	}
	// authentic requests with a broken attribute region
	broken := [][]byte{
		append(clone(b.region), 1, 0),                                          // attribute length 0
		append(clone(b.region), 1, 1),                                          // attribute length 1
		append(clone(b.region), 44, 9, 'l', 'i', 'v', 'e'),                     // runs past L
		append(clone(b.region), 44, 255, 'x'),                                  // runs far past L
		append([]byte{11, 1}, b.region...),                                     // first attribute broken
		append(clone(b.region), 7),                                             // grey: one stray octet
		append(clone(b.region), 44, 2),                                         // grey: zero-length value
		append(attrTLV(1, []byte("u")), append([]byte{25, 2}, b.region...)...), // grey
	}
	for _, reg := range broken {
		if 20+len(reg) > 4096 {
			continue
		}
		yield(&tcase{fam: "broken-attributes", d: resigned(d[0], reg, 20+len(reg), nil), base: d})
	}
	// random datagrams
	nr := 40
	for i := 0; i < nr; i++ {
		var x []byte
		switch i % 5 {
		case 0:
			x = randBytes(r, r.IntN(64))
		case 1:
			x = randBytes(r, 20+r.IntN(280))
		case 2: // plausible header, random rest
			x = randBytes(r, 20+r.IntN(200))
			x[0] = []byte{40, 43}[r.IntN(2)]
			binary.BigEndian.PutUint16(x[2:4], uint16(len(x)))
		case 3: // plausible header, length field anywhere inside
			x = randBytes(r, 20+r.IntN(200))
			x[0] = []byte{40, 43}[r.IntN(2)]
			binary.BigEndian.PutUint16(x[2:4], uint16(r.IntN(len(x)+1)))
		case 4: // well-formed attributes, random authenticator
			reg, _, _ := genAttrs(r)
			x = build([]byte{40, 43}[r.IntN(2)], byte(r.IntN(256)), reg, randBytes(r, 8))
		}
		yield(&tcase{fam: "random", d: x})
	}
}

func (t *tcase) String() string { return fmt.Sprintf("%s len=%d", t.fam, len(t.d)) }
