package c05

import (
	"fmt"
	"os"
	"strings"
	"testing"

	"verif/harness/internal/pools"
)

// TestAdhocShrink (development aid, runs only with VERIF_ADHOC=<impl substring>|<geom substring>|<rule>):
// finds a random walk violating the rule on the named spec and prints a minimal history.
func TestAdhocShrink(t *testing.T) {
	a := os.Getenv("VERIF_ADHOC")
	if a == "" {
		t.Skip()
	}
	f := strings.Split(a, "|")
	specs := append(append(pools.SmallSpecs(), pools.LargeSpecs()...), pools.ScaleSpecs()...)
	for si, s := range specs {
		if !strings.Contains(s.Impl, f[0]) || !strings.Contains(s.Geom, f[1]) {
			continue
		}
		caps := pools.ProbeCaps(s)
		for w := 0; w < 400; w++ {
			rng := run.SubRand(fmt.Sprintf("walk-%d", si), w)
			n := 100 + rng.IntN(300)
			h := pools.RandomHistory(s, caps, rng, n, true)
			drain := s.Usable >= 0 && s.Usable <= 1024
			m := pools.Shrink(s, h, drain, func(prop, rule, class string) bool { return rule == f[2] })
			if m != nil {
				fmt.Printf("ADHOC %s %s walk %d: %v\n", s.Impl, s.Geom, w, m)
				return
			}
		}
	}
}
