package c05

import (
	"fmt"
	"runtime"
	"strings"
	"sync"
	"testing"
	"testing/synctest"

	"verif/harness/internal/pools"
)

// TestScale: fill / mass expiry or mass release / refill / generation wrap / refill on pools of 500–4000 units.
func TestScale(t *testing.T) {
	specs := pools.ScaleSpecs()
	rounds := run.Pick(1, 3)
	var wg sync.WaitGroup
	sem := make(chan struct{}, runtime.NumCPU())
	for si, s := range specs {
		for w := 0; w < rounds; w++ {
			s, si, w := s, si, w
			wg.Add(1)
			sem <- struct{}{}
			go func() {
				defer wg.Done()
				defer func() { <-sem }()
				caps := pools.ProbeCaps(s)
				rng := run.SubRand(fmt.Sprintf("scale-%d", si), w)
				h := pools.ScaleHistory(s, caps, rng)
				r, err := pools.RunHistory(s, h, true, reporter(s))
				if err != nil {
					t.Errorf("new %s: %v", s.Impl, err)
					return
				}
				record(s, r, nil)
				run.Nontrivial(fmt.Sprintf("scale|%s|%s|%d", s.Impl, s.Geom, w))
				run.Count("scale_scenarios", 1)
				run.Count("scale_ops", len(h))
				run.Distinct("impl_geometries", s.Impl+s.Geom)
				if w == 0 && si == 0 {
					hs := r.History()
					run.Sample(map[string]any{"kind": "scale", "impl": s.Impl, "geometry": s.Geom, "ops": len(hs), "expired": r.Obs.Expired, "drained": r.Obs.Drained, "head": strings.Join(hs[:6], " ")})
				}
			}()
		}
	}
	wg.Wait()
	run.Floor("scale_scenarios", int64(len(specs)))
}

// TestTicker: the lease-mode distributed allocator with its own epoch ticker running (virtual time) and a store that
// echoes local writes to the watchers: exhaustive small histories with a store fault position, and random walks.
func TestTicker(t *testing.T) {
	depth := run.Pick(4, 5)
	walks := run.Pick(100, 1500)
	for si, s := range pools.TickerSpecs() {
		rep := reporter(s)
		caps := pools.ProbeCaps(s)
		synctest.Test(t, func(t *testing.T) {
			alpha := pools.Alphabet(caps, 3, true)
			n := pools.Enumerate(alpha, depth, func(h []pools.Op) {
				r, err := pools.RunHistory(s, h, true, rep)
				if err != nil {
					t.Errorf("new %s: %v", s.Impl, err)
					return
				}
				record(s, r, h)
			})
			run.Count("ticker_exhaustive_histories", n)
			for w := 0; w < walks; w++ {
				rng := run.SubRand(fmt.Sprintf("ticker-%d", si), w)
				h := pools.RandomHistory(s, caps, rng, 20+rng.IntN(80), true)
				r, err := pools.RunHistory(s, h, true, rep)
				if err != nil {
					t.Errorf("new %s: %v", s.Impl, err)
					return
				}
				record(s, r, h)
				run.Count("ticker_walks", 1)
				run.Count("ticker_epochs", r.Obs.Ops["epoch"])
			}
		})
		run.Distinct("impl_geometries", s.Impl+s.Geom)
	}
	run.Floor("ticker_epochs", 100)
}

// TestPeerFailover: conservation across an owner outage. A subscriber is served by the ranked fallback while
// its owner is unreachable, the owner comes back, the subscriber asks again and finally releases: afterwards
// nothing may be left allocated anywhere in the cluster (the address the fallback handed out is back in circulation).
func TestPeerFailover(t *testing.T) {
	s := pools.PeerCluster("10.7.8.0/24", 26)
	rounds := run.Pick(60, 1500)
	rng := run.Rand("peer-failover")
	p, err := s.New()
	if err != nil {
		t.Fatal(err)
	}
	h, _ := pools.AsPeerCluster(p)
	nodes := h.Nodes()
	for r := 0; r < rounds; r++ {
		sub := pools.SubName(1000 + r*7)
		owner := h.Owner(sub)
		var others []string
		for _, n := range nodes {
			if n != owner {
				others = append(others, n)
			}
		}
		entry1, entry2, entry3 := others[rng.IntN(2)], nodes[rng.IntN(3)], nodes[rng.IntN(3)]
		var steps []string
		h.SetReachable(owner, false)
		ip1, by1, err := h.AllocateAt(entry1, sub)
		steps = append(steps, fmt.Sprintf("owner %s unreachable; Allocate(%q) at %s -> %s by %s (%v)", owner, sub, entry1, ip1, by1, err))
		h.SetReachable(owner, true)
		again := rng.IntN(3) > 0
		if again {
			ip2, by2, err := h.AllocateAt(entry2, sub)
			steps = append(steps, fmt.Sprintf("owner reachable again; Allocate at %s -> %s by %s (%v)", entry2, ip2, by2, err))
		}
		err = h.ReleaseAt(entry3, sub)
		steps = append(steps, fmt.Sprintf("Release at %s -> %v", entry3, err))
		run.Eval()
		run.Count("peer_failover_rounds", 1)
		run.Nontrivial(fmt.Sprintf("peer-failover|%s|%s|%s|%s|%v", owner, entry1, entry2, entry3, again))
		left := 0
		al := h.Allocated()
		for _, n := range al {
			left += n
		}
		if left != 0 {
			cls := "fallback-entry-left-after-owner-recovery"
			if !again {
				cls += "/released-without-asking-again"
			}
			run.Violation("pool.PeerPool/cluster", "conservation", cls, fmt.Sprintf("after the subscriber released, %d address(es) are still allocated in the cluster %v: nobody holds them and nobody can release them", left, al), map[string]any{"steps": steps})
			// start from a clean cluster again so that every round is judged on its own
			pools.Close(p)
			if p, err = s.New(); err != nil {
				t.Fatal(err)
			}
			h, _ = pools.AsPeerCluster(p)
		}
	}
	run.Floor("peer_failover_rounds", 50)
}
