package c05

import (
	"fmt"
	"os"
	"runtime"
	"strings"
	"sync"
	"testing"

	"verif/harness/internal/pools"
	"verif/harness/internal/vk"
)

var run *vk.Run

func TestMain(m *testing.M) {
	run = vk.Start("C05", "fault_enumeration")
	run.Rule("histories over every pool implementation incl. epoch advances beyond the 2-bit wrap, repeated re-application of a record and a store write failure armed before every operation position; after each history the pool is drained with fresh subscribers and usable = held + obtainable is judged, Stats is compared with the model after every op; non-trivial = distinct history in which an address was released/expired (or a store write failed) and the conservation equation was evaluated by draining")
	run.Assume("usable-unit counts follow each implementation's documentation (network/broadcast/gateway excluded where documented); epoch grace periods 1 and 2 only (a 2-bit generation cannot represent more)")
	code := m.Run()
	ec := run.Finish()
	if code != 0 && ec == 0 {
		ec = 2
	}
	os.Exit(ec)
}

func reporter(s *pools.Spec) pools.Report {
	return func(prop, rule, class, desc string) {
		if prop != "C05" {
			return
		}
		run.Violation(s.Impl, rule, class, desc, map[string]string{"impl": s.Impl, "geometry": s.Geom, "detail": desc})
	}
}

func record(s *pools.Spec, r *pools.Runner, h []pools.Op) {
	run.Eval()
	for k, n := range r.Obs.Ops {
		run.Count("op_"+k, n)
	}
	run.Count("drained_units", r.Obs.Drained)
	run.Count("expired_leases", r.Obs.Expired)
	run.Count("exhaustions", r.Obs.Exhausted)
	run.Distinct("abstract_states", s.Impl+"|"+s.Geom+"|"+r.StateKey())
	if r.Obs.Ops["release"]+r.Obs.Ops["relval"]+r.Obs.Ops["fail"]+r.Obs.Expired > 0 {
		run.Nontrivial(s.Impl + s.Geom + fmt.Sprint(h))
	}
}

func TestExhaustiveWithFaults(t *testing.T) {
	depth := run.Pick(5, 6)
	specs := pools.SmallSpecs()
	var wg sync.WaitGroup
	sem := make(chan struct{}, runtime.NumCPU())
	for _, s := range specs {
		s := s
		wg.Add(1)
		sem <- struct{}{}
		go func() {
			defer wg.Done()
			defer func() { <-sem }()
			caps := pools.ProbeCaps(s)
			alpha := pools.Alphabet(caps, 3, true)
			d := depth
			if len(alpha) > 12 && d > 5 {
				d = 5 // thorough: 6 on the narrow alphabets, 5 on the wide ones (the alphabets grew with the out-of-range and move symbols)
			}
			if !run.Thorough() && len(alpha) > 15 {
				d = 4 // quick tier: wide alphabets one level shallower (thorough goes to 6-7)
			}
			rep := reporter(s)
			sampled := false
			n := pools.Enumerate(alpha, d, func(h []pools.Op) {
				r, err := pools.RunHistory(s, h, true, rep)
				if err != nil {
					t.Errorf("new %s %s: %v", s.Impl, s.Geom, err)
					return
				}
				record(s, r, h)
				if !sampled && r.Obs.Ops["fail"] > 0 && r.Obs.Ops["release"] > 0 {
					sampled = true
					run.Sample(map[string]any{"kind": "exhaustive+fault", "impl": s.Impl, "geometry": s.Geom, "history": r.History()})
				}
			})
			run.Count("exhaustive_histories", n)
			run.Distinct("impl_geometries", s.Impl+s.Geom)
		}()
	}
	wg.Wait()
	run.Extra("exhaustive_depth", depth)
}

// TestEpochWrap drives lease pools through long runs of epoch advances (0..12 between operations).
func TestEpochWrap(t *testing.T) {
	specs := []*pools.Spec{
		pools.Epoch("10.0.0.0/29", 32, 1), pools.Epoch("10.0.0.0/29", 32, 2), pools.Epoch("10.0.1.0/28", 32, 1), pools.Epoch("10.0.0.0/28", 30, 1),
		pools.Distributed("10.0.0.0/29", 32, true, 1), pools.Distributed("10.0.0.0/29", 32, true, 2),
	}
	walks := run.Pick(150, 3000)
	for si, s := range specs {
		rep := reporter(s)
		for w := 0; w < walks; w++ {
			rng := run.SubRand(fmt.Sprintf("wrap-%d", si), w)
			var h []pools.Op
			n := 10 + rng.IntN(40)
			for i := 0; i < n; i++ {
				sub := fmt.Sprintf("s%d", rng.IntN(s.Usable+2))
				switch x := rng.IntN(10); {
				case x < 4:
					h = append(h, pools.Op{K: "alloc", Sub: sub})
				case x < 6:
					h = append(h, pools.Op{K: "release", Sub: sub})
				case x < 8:
					h = append(h, pools.Op{K: "renew", Sub: sub})
				default:
					for k := rng.IntN(13); k > 0; k-- {
						h = append(h, pools.Op{K: "epoch"})
					}
				}
			}
			r, err := pools.RunHistory(s, h, true, rep)
			if err != nil {
				t.Fatal(err)
			}
			record(s, r, h)
			run.Count("epoch_wrap_walks", 1)
			if w == 0 {
				run.Sample(map[string]any{"kind": "epoch-wrap", "impl": s.Impl, "geometry": s.Geom, "history": strings.Join(r.History(), " ")})
			}
		}
	}
}

func TestRandomWalksWithFaults(t *testing.T) {
	walks := run.Pick(30, 400)
	specs := append(pools.SmallSpecs(), pools.LargeSpecs()...)
	var wg sync.WaitGroup
	sem := make(chan struct{}, runtime.NumCPU())
	for si, s := range specs {
		s, si := s, si
		if strings.HasPrefix(s.Impl, "nexus") {
			continue // hash-based allocation has no pool state to leak; its collisions are C01's
		}
		wg.Add(1)
		sem <- struct{}{}
		go func() {
			defer wg.Done()
			defer func() { <-sem }()
			caps := pools.ProbeCaps(s)
			rep := reporter(s)
			for w := 0; w < walks; w++ {
				rng := run.SubRand(fmt.Sprintf("walk-%d", si), w)
				n := 100 + rng.IntN(run.Pick(300, 1500))
				h := pools.RandomHistory(s, caps, rng, n, true)
				r, err := pools.RunHistory(s, h, s.Usable >= 0 && s.Usable <= 1024, rep)
				if err != nil {
					t.Errorf("new %s: %v", s.Impl, err)
					return
				}
				record(s, r, h)
				run.Count("random_walks", 1)
			}
			run.Distinct("impl_geometries", s.Impl+s.Geom)
		}()
	}
	wg.Wait()
}
