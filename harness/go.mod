module verif/harness

go 1.25

require (
	github.com/anishathalye/porcupine v1.3.0
	github.com/cilium/ebpf v0.12.3
	github.com/codelaboratoryltd/bng v0.0.0-00010101000000-000000000000
	github.com/insomniacslk/dhcp v0.0.0-20231206064809-8c70d406f6d2
	go.uber.org/zap v1.27.0
	layeh.com/radius v0.0.0-20231213012653-1006025d24f8
)

require (
	github.com/google/uuid v1.6.0 // indirect
	github.com/josharian/native v1.1.0 // indirect
	github.com/mdlayher/packet v1.1.2 // indirect
	github.com/mdlayher/socket v0.5.0 // indirect
	github.com/pierrec/lz4/v4 v4.1.18 // indirect
	github.com/u-root/uio v0.0.0-20230220225925-ffce2a382923 // indirect
	github.com/vishvananda/netlink v1.3.1 // indirect
	github.com/vishvananda/netns v0.0.5 // indirect
	go.uber.org/multierr v1.11.0 // indirect
	golang.org/x/exp v0.0.0-20250718183923-645b1fa84792 // indirect
	golang.org/x/net v0.48.0 // indirect
	golang.org/x/sync v0.19.0 // indirect
	golang.org/x/sys v0.39.0 // indirect
	golang.org/x/time v0.14.0 // indirect
)

replace github.com/codelaboratoryltd/bng => /repo
