package c17

import (
	"fmt"
	"runtime"
	"sync"
	"testing"

	"github.com/codelaboratoryltd/bng/pkg/pool"
)

// judgeRanked checks the ranked list of node p for subscriber s against the peer set.
func judgeRanked(p *pool.PeerPool, s string, set []string, owner string, tag string, dupsConfigured bool, wit func() map[string]any) {
	r := p.VerifC17Ranked(s)
	if len(r) == 0 || r[0] != owner {
		w := wit()
		w["ranked"] = qs(r)
		w["owner"] = q(owner)
		w["subscriber"] = q(s)
		run.Violation("pool.rendezvousRanked", "ranked-starts-with-owner", "first-ranked-differs-from-owner"+tag, fmt.Sprintf("ranked list %s for subscriber %s does not start with GetOwner()=%s", qs(r), q(s), q(owner)), w)
	}
	n := dedupe(r) // DESIGN 5b: duplicate ids are normalised before comparing
	class := ""
	if !dupsConfigured && len(n) != len(r) {
		class = "repeated-entry"
	}
	for _, x := range n {
		if !contains(set, x) {
			class = "foreign-entry"
		}
	}
	for _, x := range set {
		if !contains(n, x) {
			class = "missing-peer"
		}
	}
	if class != "" {
		w := wit()
		w["ranked"] = qs(r)
		w["peer_set"] = qs(set)
		w["subscriber"] = q(s)
		run.Violation("pool.rendezvousRanked", "ranked-permutation", class+tag, fmt.Sprintf("ranked list %s for subscriber %s is not a permutation of the peer set %s", qs(r), q(s), qs(set)), w)
	}
}

func TestAgreement(t *testing.T) {
	nSubs := run.Pick(1000, 10000)
	sets := peerSets(run.Rand("sets"), run.Pick(120, 300))
	shuffles := run.Pick(50, 200)
	var wg sync.WaitGroup
	sem := make(chan struct{}, runtime.NumCPU())
	for si, set := range sets {
		si, set := si, set
		wg.Add(1)
		sem <- struct{}{}
		go func() {
			defer wg.Done()
			defer func() { <-sem }()
			rng := run.SubRand("agree", si)
			subs := subIDs(rng, nSubs, set)
			key := setKey(set)
			run.Distinct("peer_sets", key)
			run.Count(fmt.Sprintf("peer_sets_size_%d", len(set)), 1)

			// one node per member, each configured in its own order by its own variant
			members := make([]*pool.PeerPool, len(set))
			mvar := make([]string, len(set))
			for i, id := range set {
				mvar[i] = variants[(i+si)%len(variants)]
				members[i] = build(id, shuffled(set, rng), mvar[i], rng)
			}
			ref := ownersOf(members[0], subs)
			spread := distinctCount(ref)
			run.Count("distinct_owners_observed", spread)
			for i, o := range ref {
				if !contains(set, o) {
					run.Violation("pool.PeerPool.GetOwner", "owner-in-peer-set", "owner-not-a-member", fmt.Sprintf("GetOwner(%s)=%s is not in the peer set %s", q(subs[i]), q(o), key), map[string]any{"peer_set": key, "subscriber": q(subs[i]), "owner": q(o)})
					break
				}
			}

			// agreement over configuration orders and construction variants
			var orders [][]string
			if len(set) <= 5 {
				orders = permutations(set)
			} else {
				for i := 0; i < shuffles; i++ {
					orders = append(orders, shuffled(set, rng))
				}
			}
			evals, comps, mism := 0, 0, 0
			for oi, ord := range orders {
				vs := variants
				if len(set) > 4 && !run.Thorough() {
					vs = []string{variants[oi%len(variants)], variants[(oi+3)%len(variants)]}
				}
				for _, v := range vs {
					id := ord[(oi+len(v))%len(ord)]
					p := build(id, ord, v, rng)
					first := true
					for i, s := range subs {
						o := p.GetOwner(s)
						comps++
						if o != ref[i] {
							mism++
							if first {
								first = false
								run.Violation("pool.PeerPool.GetOwner", "agreement", v, fmt.Sprintf("peer set %s: node %s built by %s in order %s says owner(%s)=%s, node %s (%s) says %s", key, q(id), v, qs(ord), q(s), q(o), q(set[0]), mvar[0], q(ref[i])),
									map[string]any{"peer_set": key, "order": qs(ord), "variant": v, "node": q(id), "subscriber": q(s), "owner_here": q(o), "owner_reference_node": q(ref[i]), "membership_here": qs(p.VerifC17PeerNodes())})
							}
						}
					}
					evals++
					run.Distinct("configuration_orders", key+qs(ord))
					if len(set) >= 2 && spread >= 2 {
						run.Nontrivial("agree|" + key + qs(ord) + v + id)
					}
					run.Count("nodes_built_"+v, 1)
				}
			}
			run.Evals(evals)
			run.Count("owner_comparisons", comps)
			run.Count("owner_disagreements", mism)
			run.Count("configuration_orders_judged", len(orders))

			// exactly one local owner, and it is the owner; ranked list on every member node
			localChecks, rankedChecks := 0, 0
			for i, s := range subs {
				var locals []string
				for mi, m := range members {
					o := m.GetOwner(s)
					comps++
					if o != ref[i] {
						run.Violation("pool.PeerPool.GetOwner", "agreement", mvar[mi], fmt.Sprintf("peer set %s: member node %s (%s) says owner(%s)=%s, node %s says %s", key, q(set[mi]), mvar[mi], q(s), q(o), q(set[0]), q(ref[i])),
							map[string]any{"peer_set": key, "node": q(set[mi]), "variant": mvar[mi], "subscriber": q(s), "owner_here": q(o), "owner_reference_node": q(ref[i])})
					}
					if h := m.VerifC17HealthyOwner(s); h != o {
						run.Violation("pool.PeerPool.getHealthyOwner", "healthy-owner-equals-owner", "never-probed/"+mvar[mi], fmt.Sprintf("peer set %s: node %s (%s, no health check has ever failed) routes %s to %s but GetOwner says %s", key, q(set[mi]), mvar[mi], q(s), q(h), q(o)),
							map[string]any{"peer_set": key, "node": q(set[mi]), "variant": mvar[mi], "subscriber": q(s), "healthy_owner": q(h), "owner": q(o)})
					}
					if m.IsLocalOwner(s) {
						locals = append(locals, set[mi])
					}
					localChecks++
				}
				class := ""
				switch {
				case len(locals) == 0:
					class = "no-node-claims-subscriber"
				case len(locals) > 1:
					class = "several-nodes-claim-subscriber"
				case locals[0] != ref[i]:
					class = "claimed-by-non-owner"
				}
				if class != "" {
					run.Violation("pool.PeerPool.IsLocalOwner", "exactly-one-local-owner", class, fmt.Sprintf("peer set %s subscriber %s: IsLocalOwner true on %s, GetOwner=%s", key, q(s), qs(locals), q(ref[i])),
						map[string]any{"peer_set": key, "subscriber": q(s), "local_on": qs(locals), "owner": q(ref[i])})
				}
				if i < run.Pick(300, 2000) {
					for mi, m := range members {
						mi := mi
						judgeRanked(m, s, set, ref[i], "", false, func() map[string]any {
							return map[string]any{"peer_set": key, "node": q(set[mi]), "variant": mvar[mi]}
						})
						rankedChecks++
					}
				}
			}
			run.Count("is_local_owner_calls", localChecks)
			run.Count("ranked_lists_judged", rankedChecks)
			run.Evals(1)
			if len(set) == 3 {
				n := 4
				if len(subs) < n {
					n = len(subs)
				}
				ex := map[string]string{}
				for i := 0; i < n; i++ {
					ex[q(subs[i])] = qs(members[0].VerifC17Ranked(subs[i]))
				}
				sampleOnce("agreement", map[string]any{"peer_set": key, "orders_judged": len(orders), "subscribers": len(subs), "distinct_owners": spread, "ranked_examples": ex})
			}
		}()
	}
	wg.Wait()
}

func TestRemoval(t *testing.T) {
	nSubs := run.Pick(1000, 10000)
	sets := peerSets(run.Rand("rm-sets"), run.Pick(80, 200))
	var wg sync.WaitGroup
	sem := make(chan struct{}, runtime.NumCPU())
	for si, set := range sets {
		if len(set) < 2 {
			continue
		}
		si, set := si, set
		wg.Add(1)
		sem <- struct{}{}
		go func() {
			defer wg.Done()
			defer func() { <-sem }()
			rng := run.SubRand("remove", si)
			subs := subIDs(rng, nSubs, set)
			key := setKey(set)
			for ni, n := range set {
				v := variants[(ni+si)%len(variants)]
				for _, x := range set {
					if x == n {
						continue // a node does not remove itself (its own pool would no longer be in the ring it consults)
					}
					p := build(n, shuffled(set, rng), v, rng)
					before := ownersOf(p, subs)
					p.RemovePeer("not-a-member-" + x)
					p.RemovePeer(x)
					after := ownersOf(p, subs)
					rest := without(set, x)
					fresh := ownersOf(build(n, shuffled(rest, rng), variants[(ni+si+1)%len(variants)], rng), subs)
					moved, ownedByX, others := 0, 0, 0
					wit := func(i int) map[string]any {
						return map[string]any{"peer_set": key, "node": q(n), "variant": v, "removed": q(x), "subscriber": q(subs[i]), "owner_before": q(before[i]), "owner_after": q(after[i]), "owner_on_node_configured_without_it": q(fresh[i])}
					}
					var f1, f2, f3 bool
					for i := range subs {
						if before[i] == x {
							ownedByX++
						} else {
							others++
						}
						if before[i] != after[i] {
							moved++
							if before[i] != x && !f1 {
								f1 = true
								run.Violation("pool.PeerPool.RemovePeer", "minimal-disruption-remove", "subscriber-of-other-peer-moved", fmt.Sprintf("peer set %s node %s: RemovePeer(%s) moved subscriber %s from %s to %s", key, q(n), q(x), q(subs[i]), q(before[i]), q(after[i])), wit(i))
							}
						}
						if (after[i] == x || !contains(rest, after[i])) && !f2 {
							f2 = true
							run.Violation("pool.PeerPool.RemovePeer", "removed-peer-not-owner", "owner-outside-remaining-set", fmt.Sprintf("peer set %s node %s: after RemovePeer(%s) owner(%s)=%s", key, q(n), q(x), q(subs[i]), q(after[i])), wit(i))
						}
						if after[i] != fresh[i] && !f3 {
							f3 = true
							run.Violation("pool.PeerPool.RemovePeer", "agreement-after-removal", "differs-from-node-configured-without-peer", fmt.Sprintf("peer set %s node %s: after RemovePeer(%s) owner(%s)=%s, a node configured with %s says %s", key, q(n), q(x), q(subs[i]), q(after[i]), qs(rest), q(fresh[i])), wit(i))
						}
					}
					for i := 0; i < 50 && i < len(subs); i++ {
						judgeRanked(p, subs[i], rest, after[i], "/after-remove", false, func() map[string]any {
							return map[string]any{"peer_set": key, "node": q(n), "removed": q(x)}
						})
					}
					// re-adding restores the original assignment
					p.AddPeer(x)
					again := ownersOf(p, subs)
					for i := range subs {
						if again[i] != before[i] {
							run.Violation("pool.PeerPool.AddPeer", "agreement", "after-remove-then-readd", fmt.Sprintf("peer set %s node %s: RemovePeer(%s)+AddPeer(%s): owner(%s) was %s, now %s", key, q(n), q(x), q(x), q(subs[i]), q(before[i]), q(again[i])), wit(i))
							break
						}
					}
					run.Eval()
					run.Count("removals_judged", 1)
					run.Count("subscribers_moved_by_removal", moved)
					run.Count("subscribers_owned_by_removed_peer", ownedByX)
					run.Count("owner_comparisons", 4*len(subs))
					if ownedByX > 0 && others > 0 {
						run.Nontrivial("remove|" + key + n + "|" + x)
					}
					if ownedByX > 0 && len(set) >= 3 {
						sampleOnce("removal", map[string]any{"peer_set": key, "node": q(n), "removed": q(x), "subscribers": len(subs), "owned_by_removed": ownedByX, "moved": moved})
					}
				}
				// removal chain down to the node alone: every step judged, the last owner is the node itself
				p := build(n, shuffled(set, rng), v, rng)
				cur := append([]string(nil), set...)
				prev := ownersOf(p, subs)
				for _, x := range shuffled(without(set, n), rng) {
					p.RemovePeer(x)
					cur = without(cur, x)
					now := ownersOf(p, subs)
					for i := range subs {
						if now[i] != prev[i] && prev[i] != x {
							run.Violation("pool.PeerPool.RemovePeer", "minimal-disruption-remove", "subscriber-of-other-peer-moved/chain", fmt.Sprintf("peer set %s node %s: chained RemovePeer(%s) (remaining %s) moved %s from %s to %s", key, q(n), q(x), qs(cur), q(subs[i]), q(prev[i]), q(now[i])),
								map[string]any{"peer_set": key, "node": q(n), "removed": q(x), "remaining": qs(cur), "subscriber": q(subs[i]), "owner_before": q(prev[i]), "owner_after": q(now[i])})
							break
						}
						if !contains(cur, now[i]) {
							run.Violation("pool.PeerPool.RemovePeer", "removed-peer-not-owner", "owner-outside-remaining-set/chain", fmt.Sprintf("peer set %s node %s: after chained RemovePeer(%s) (remaining %s) owner(%s)=%s", key, q(n), q(x), qs(cur), q(subs[i]), q(now[i])),
								map[string]any{"peer_set": key, "node": q(n), "removed": q(x), "remaining": qs(cur), "subscriber": q(subs[i]), "owner_after": q(now[i])})
							break
						}
					}
					prev = now
					run.Count("chain_removals_judged", 1)
					run.Count("owner_comparisons", len(subs))
				}
				run.Eval()
			}
		}()
	}
	wg.Wait()
}

// TestDuplicateIDs: peer lists that name a peer more than once denote the same peer set (DESIGN 5b).
func TestDuplicateIDs(t *testing.T) {
	nSubs := run.Pick(500, 3000)
	bases := [][]string{{"a", "b"}, {"a", "b", "c"}, {"node-0", "node-1", "node-2", "node-3"}, {"bng-0:8081", "bng-1:8081", "bng-2:8081"}, {"", " ", "x"}, {"n0", "n1", "n2", "n3", "n4"}}
	rounds := run.Pick(6, 30)
	for bi, base := range bases {
		key := setKey(base)
		for r := 0; r < rounds; r++ {
			rng := run.SubRand(fmt.Sprintf("dup-%d", bi), r)
			subs := subIDs(rng, nSubs, base)
			clean := build(base[0], base, "config-full", rng)
			ref := ownersOf(clean, subs)
			for _, n := range base {
				// list with 1..3 repeated entries, shuffled; sometimes the node itself is the repeated one
				list := append([]string(nil), base...)
				for k := 1 + rng.IntN(3); k > 0; k-- {
					list = append(list, base[rng.IntN(len(base))])
				}
				list = shuffled(list, rng)
				p := mkPool(n, list, rng.IntN(2)*2, smallNet)
				got := ownersOf(p, subs)
				for i := range subs {
					if got[i] != ref[i] {
						run.Violation("pool.PeerPool.GetOwner", "agreement", "duplicate-ids-in-config", fmt.Sprintf("node %s configured with %s says owner(%s)=%s, a node configured with %s says %s", q(n), qs(list), q(subs[i]), q(got[i]), key, q(ref[i])),
							map[string]any{"node": q(n), "peers": qs(list), "subscriber": q(subs[i]), "owner_here": q(got[i]), "owner_clean_node": q(ref[i])})
						break
					}
				}
				for i := 0; i < 100 && i < len(subs); i++ {
					judgeRanked(p, subs[i], base, got[i], "/duplicate-ids-in-config", true, func() map[string]any {
						return map[string]any{"node": q(n), "peers": qs(list)}
					})
				}
				run.Count("owner_comparisons", len(subs))
				run.Count("duplicate_configs_judged", 1)
				run.Eval()
				// removal of a peer that the list names more than once
				for _, x := range base {
					if x == n {
						continue
					}
					cnt := 0
					for _, y := range list {
						if y == x {
							cnt++
						}
					}
					if cnt < 2 {
						continue
					}
					pp := mkPool(n, list, 0, smallNet)
					before := ownersOf(pp, subs)
					pp.RemovePeer(x)
					after := ownersOf(pp, subs)
					rest := without(base, x)
					fresh := ownersOf(build(n, rest, "config-full", rng), subs)
					ownedByX := 0
					var f1, f2 bool
					for i := range subs {
						if before[i] == x {
							ownedByX++
						}
						w := map[string]any{"node": q(n), "peers": qs(list), "removed": q(x), "subscriber": q(subs[i]), "owner_before": q(before[i]), "owner_after": q(after[i]), "owner_on_node_configured_without_it": q(fresh[i]), "membership_after": qs(pp.VerifC17PeerNodes())}
						if after[i] == x && !f1 {
							f1 = true
							run.Violation("pool.PeerPool.RemovePeer", "removed-peer-not-owner", "duplicate-ids-in-config", fmt.Sprintf("node %s configured with %s: after RemovePeer(%s) owner(%s) is still %s", q(n), qs(list), q(x), q(subs[i]), q(x)), w)
						}
						if after[i] != fresh[i] && !f2 {
							f2 = true
							run.Violation("pool.PeerPool.RemovePeer", "agreement-after-removal", "duplicate-ids-in-config", fmt.Sprintf("node %s configured with %s: after RemovePeer(%s) owner(%s)=%s, a node configured with %s says %s", q(n), qs(list), q(x), q(subs[i]), q(after[i]), qs(rest), q(fresh[i])), w)
						}
						if before[i] != after[i] && before[i] != x {
							run.Violation("pool.PeerPool.RemovePeer", "minimal-disruption-remove", "subscriber-of-other-peer-moved/duplicate-ids-in-config", fmt.Sprintf("node %s configured with %s: RemovePeer(%s) moved %s from %s to %s", q(n), qs(list), q(x), q(subs[i]), q(before[i]), q(after[i])), w)
							break
						}
					}
					run.Count("duplicate_removals_judged", 1)
					run.Count("owner_comparisons", 3*len(subs))
					run.Eval()
					if ownedByX > 0 {
						run.Nontrivial("dup-remove|" + key + qs(list) + n + x)
					}
				}
			}
		}
	}
}
