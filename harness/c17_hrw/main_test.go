// Package c17 monitors property C17: all peers agree on who owns a subscriber.
//
// Oracle clauses (all written from the property statement; the hash itself is
// never re-implemented here):
//
//	agreement                 every independently constructed node returns the same GetOwner(s)
//	owner-in-peer-set         the owner is a member of the configured peer set
//	exactly-one-local-owner   IsLocalOwner(s) is true on exactly one node, the owner
//	ranked-starts-with-owner  ranked(s)[0] == GetOwner(s)
//	ranked-permutation        ranked(s), duplicates normalised, is a permutation of the peer set
//	minimal-disruption-*      removing x / marking x unhealthy moves only subscribers x owned
//	agreement-after-removal   after RemovePeer(x) a node agrees with a node configured without x
//	agreement-under-health    nodes with the same health view compute the same healthy owner
//	fallback-follows-rank     the healthy owner is the first eligible entry of the ranked list
//	served-by-exactly-one-pool / same-node-id-from-every-entry / node-id-equals-owner   (end to end, also while an owner that
//	                          every node still regards as healthy does not answer, and after it is back)
//	same-address-from-every-entry, node-id-names-serving-pool, probe-reaches-intended-node and the serving clauses on
//	                          adversarial node ids and across failure / recovery / removal / join histories (serving_test.go)
//	reported-ring-equals-membership, ranked-agreement and all of the above on every state of membership event histories
//	                          (history_test.go)
package c17

import (
	"fmt"
	"math/rand/v2"
	"net"
	"os"
	"sort"
	"strings"
	"sync"
	"testing"
	"time"

	"github.com/codelaboratoryltd/bng/pkg/pool"

	"verif/harness/internal/vk"
)

var run *vk.Run

func TestMain(m *testing.M) {
	run = vk.Start("C17", "exploration")
	run.Rule("peer sets of size 1-8 from curated and seeded arbitrary strings (empty, blanks, common prefixes, unicode, invalid UTF-8, host:8081 and ip:port forms); every permutation for size<=5 (50/200 seeded shuffles above) x construction variants (full list, self omitted, spare capacity, AddPeer in that order, prefix+AddPeer, repeated AddPeer); 10^3 (thorough 10^4) subscriber ids (MACs, circuit ids, empty, unicode, raw bytes); every single removal from every other node, removal chains and re-adds; all 2^n health vectors for n<=4 (thorough n<=6) set through the real checkPeer against loopback HTTP servers answering 200/500/closed, seeded health walks on sets up to 8 through an in-memory transport; 3-node clusters over loopback HTTP with requests entering at every node, including an episode in which a node does not answer while every node still regards it as healthy; membership event histories judged in every state against a set as reference model: every sequence of AddPeer/RemovePeer events (every name of the universe incl. the node's own id may be added, every other name removed, present or not) up to depth 5 (quick: 4 from the ring {node alone} in all but the first universe; thorough: 6 and 7 from the rings {node alone} and {everybody} in the first universes), and in a second pass to depth 9 (thorough 13) without descending below a reported ring that was already explored to the remaining depth, over universes of 4 names, delivered to each node of the universe from configured starting rings (alone, everybody, one ring in between; thorough all 8), the same with health flips through the real checkPeer in the alphabet over 3 names to depth 4 (thorough 5), and 300 (thorough 2000) seeded clusters of 3-6 nodes plus up to 2 non-node names in which every node gets its own configured ring, its own random history of 6-35 events and a shuffled tail that takes all nodes to one target set and health view, after which nodes with equal reference set and view are compared with each other; serving (every node has its own disjoint subnet, the in-memory transport routes by and records the exact host a request was sent to): id sets that are adversarial as strings (one id a proper prefix of another, ids that differ in a port suffix only, numeric suffixes 1/10/100/1000, long common prefixes; 10 curated sets of 3-5 ids plus 6 (thorough 16) seeded sets built by extension, siblings and truncation) in every permutation of the peer list x 6 construction variants (self omitted, full list, a different rotation on every node, spare capacity, prefix then AddPeer, AddPeer only) and the host-name/host:port deployment form in every order: a static round of 12 (24) subscribers spread over all owners entering at every node, every health probe of every node, then one node (thorough: every node of a 3-set, two of a 4-set) fails (3 probes of every peer by every node), its subscribers are requested at every live node, it recovers, everything is requested again twice (former fallback first / last), a third is released and requested again; serving histories on these and on ordinary id sets: every node of every set joins late (AddPeer of a new owner), is removed and joins again (as it was / restarted), and 400 (3000) seeded sequences of 10-29 failures, recoveries, removals, joins, rounds and releases with common membership and health view on all live nodes. Non-trivial = a distinct (universe, node, starting ring, event history; beyond 5 enumerated events: history shape and final set) with at least one effective membership change that ends with >=2 members and >=2 distinct owners over the sample, a distinct (peer set, order, variant) with >=2 peers whose subscriber sample was spread over >=2 owners, a distinct (set, observer, removed/unhealthy peer) where that peer owned some subscribers and other peers owned others, or a distinct end-to-end subscriber whose request was forwarded over HTTP from at least one entry node, or a distinct (id set, order, variant, script, event sequence) serving history in which a subscriber whose owner changed was requested again while its former server was live")
	run.Assume("nodes are constructed from independent copies of the peer list (NewPeerPool sorts the caller's slice in place)")
	run.Assume("a peer set never contains both H and H:port: getPeerAddr resolves node id H to the listed address H:8081, i.e. the code treats the two as names of one node")
	run.Assume("health views are per node; agreement under a health vector U is judged between nodes outside U that all see exactly U as unhealthy (a node always regards itself as eligible, by the anchored mechanism)")
	run.Assume("event histories: a node never receives RemovePeer of its own id; health probes are delivered only for current members (as the health loop does) and a node's health view is read back through IsPeerHealthy; every node is compared with a node configured with exactly its reference set (so nodes with equal sets are compared with each other through that representative), and in the seeded clusters directly with each other")
	run.Assume("loopback listeners use seeded port numbers (next free port on collision); the in-memory transport replaces only the TCP hop, the real handlers and the real http.Client code run")
	run.Assume("serving histories: membership events reach every member (also one that does not answer its peers at the time); no request enters at a node while it does not answer its peers or is no member; a node that joins is constructed anew (empty pool) unless stated; subscriber ids are valid UTF-8 (a forwarded invalid id reaches the owner under another key: counted elsewhere, not C17's text); what a former fallback keeps in its pool after the subscriber moved back to the recovered owner is counted, not judged")
	run.Floor("serving_requests", 100000)
	run.Floor("serving_rounds_judged", 3000)
	run.Floor("serving_configurations_distinct", 500)
	run.Floor("serving_subscribers_held_by_exactly_the_owner_pool", 20000)
	run.Floor("serving_probes_that_reached_the_intended_address", 20000)
	run.Floor("serving_forwards_to_owner_listed_after_a_name_that_extends_its_name", 5000)
	run.Floor("serving_probes_for_peer_listed_after_a_name_that_extends_its_name", 2000)
	run.Floor("serving_history_rerequests_at_former_server_rerequest-after-peer-recovery", 1000)
	run.Floor("serving_history_rerequests_at_former_server_rerequest-after-peer-added", 100)
	run.Floor("serving_history_rerequests_at_former_server_rerequest-after-peer-restarted-and-added", 100)
	run.Floor("owner_comparisons", 100000)
	run.Floor("health_flips_observed", 50)
	run.Floor("e2e_requests", 100)
	run.Floor("e2e_http_forwards_observed", 30)
	run.Floor("e2e_outage_requests_for_subscribers_of_unreachable_owner", 50)
	run.Floor("histories_with_readd_of_present_peer", 100000)
	run.Floor("histories_with_middle_element_removal", 50000)
	run.Floor("histories_with_readd_of_present_peer_after_non_last_removal", 30000)
	run.Floor("histories_with_remove_then_readd", 30000)
	run.Floor("histories_with_remove_of_absent_peer", 30000)
	run.Floor("history_shape_final_set_pairs_distinct", 30000)
	run.Floor("history_health_flips_observed", 3000)
	run.Floor("history_groups_with_three_or_more_nodes_compared", 20)
	code := m.Run()
	ec := run.Finish()
	if code != 0 && ec == 0 {
		ec = 2
	}
	os.Exit(ec)
}

var sampled sync.Map

// sampleOnce writes out one case per kind, so that the five evidence samples show five different kinds of case.
func sampleOnce(kind string, v map[string]any) {
	if _, dup := sampled.LoadOrStore(kind, true); dup {
		return
	}
	v["kind"] = kind
	run.Sample(v)
}

// ---------------------------------------------------------------- construction of real nodes

const (
	smallNet = "10.77.0.0/29"
	bigNet   = "10.77.0.0/22"
	gw       = "10.77.0.1"
)

func mkPool(nodeID string, peers []string, spare int, network string) *pool.PeerPool {
	var ps []string
	if peers != nil {
		ps = make([]string, len(peers), len(peers)+spare)
		copy(ps, peers)
	}
	p, err := pool.NewPeerPool(pool.PeerPoolConfig{NodeID: nodeID, Peers: ps, Network: network, Gateway: gw, DNSServers: []string{"10.77.0.1"}, LeaseTime: time.Hour})
	if err != nil {
		panic(fmt.Sprintf("NewPeerPool(%q,%q): %v", nodeID, peers, err))
	}
	return p
}

var variants = []string{"config-full", "config-self-omitted", "config-spare-capacity", "addpeer-all", "config-prefix-then-addpeer", "addpeer-repeated"}

// build constructs a node with identity id whose membership is given in order ord by the named variant.
func build(id string, ord []string, variant string, rng *rand.Rand) *pool.PeerPool {
	without := make([]string, 0, len(ord))
	for _, x := range ord {
		if x != id {
			without = append(without, x)
		}
	}
	switch variant {
	case "config-full":
		return mkPool(id, ord, 0, smallNet)
	case "config-self-omitted":
		return mkPool(id, without, 0, smallNet)
	case "config-spare-capacity":
		return mkPool(id, without, 3, smallNet)
	case "addpeer-all":
		p := mkPool(id, nil, 0, smallNet)
		for _, x := range ord {
			p.AddPeer(x)
		}
		return p
	case "config-prefix-then-addpeer":
		j := 0
		if len(ord) > 0 {
			j = rng.IntN(len(ord) + 1)
		}
		p := mkPool(id, ord[:j], 0, smallNet)
		for _, x := range ord[j:] {
			p.AddPeer(x)
		}
		return p
	case "addpeer-repeated":
		p := mkPool(id, nil, 0, smallNet)
		for _, x := range ord {
			p.AddPeer(x)
			p.AddPeer(x)
		}
		for i := len(ord) - 1; i >= 0; i-- {
			p.AddPeer(ord[i])
		}
		return p
	}
	panic(variant)
}

func ownersOf(p *pool.PeerPool, subs []string) []string {
	out := make([]string, len(subs))
	for i, s := range subs {
		out[i] = p.GetOwner(s)
	}
	return out
}

func healthyOwnersOf(p *pool.PeerPool, subs []string) []string {
	out := make([]string, len(subs))
	for i, s := range subs {
		out[i] = p.VerifC17HealthyOwner(s)
	}
	return out
}

func distinctCount(xs []string) int {
	m := map[string]struct{}{}
	for _, x := range xs {
		m[x] = struct{}{}
	}
	return len(m)
}

func q(s string) string { return fmt.Sprintf("%q", s) }

func qs(xs []string) string {
	out := make([]string, len(xs))
	for i, x := range xs {
		out[i] = q(x)
	}
	return "[" + strings.Join(out, " ") + "]"
}

func contains(xs []string, x string) bool {
	for _, y := range xs {
		if x == y {
			return true
		}
	}
	return false
}

func without(xs []string, x string) []string {
	out := make([]string, 0, len(xs))
	for _, y := range xs {
		if y != x {
			out = append(out, y)
		}
	}
	return out
}

func dedupe(xs []string) []string {
	seen := map[string]bool{}
	var out []string
	for _, x := range xs {
		if !seen[x] {
			seen[x] = true
			out = append(out, x)
		}
	}
	return out
}

func sortedCopy(xs []string) []string {
	out := append([]string(nil), xs...)
	sort.Strings(out)
	return out
}

func shuffled(xs []string, rng *rand.Rand) []string {
	out := append([]string(nil), xs...)
	rng.Shuffle(len(out), func(i, j int) { out[i], out[j] = out[j], out[i] })
	return out
}

// permutations returns all permutations of xs (Heap's algorithm).
func permutations(xs []string) [][]string {
	var out [][]string
	a := append([]string(nil), xs...)
	var rec func(k int)
	rec = func(k int) {
		if k <= 1 {
			out = append(out, append([]string(nil), a...))
			return
		}
		for i := 0; i < k; i++ {
			rec(k - 1)
			if k%2 == 0 {
				a[i], a[k-1] = a[k-1], a[i]
			} else {
				a[0], a[k-1] = a[k-1], a[0]
			}
		}
	}
	rec(len(a))
	return out
}

// ---------------------------------------------------------------- generators

func randBytes(rng *rand.Rand, n int) string {
	b := make([]byte, n)
	for i := range b {
		b[i] = byte(rng.IntN(256))
	}
	return string(b)
}

func randRunes(rng *rand.Rand, n int) string {
	pool := []rune("abcXYZ019-_.:/ üñé节点用户λжЩ🙂")
	var b strings.Builder
	for i := 0; i < n; i++ {
		b.WriteRune(pool[rng.IntN(len(pool))])
	}
	return b.String()
}

// subIDs returns n distinct subscriber ids: fixed boundary ids, the peer names themselves, then seeded ids of six shapes.
func subIDs(rng *rand.Rand, n int, extra []string) []string {
	seen := map[string]bool{}
	var out []string
	add := func(s string) {
		if !seen[s] && len(out) < n {
			seen[s] = true
			out = append(out, s)
		}
	}
	for _, s := range []string{"", " ", "0", "sub-1", "sub-2", "aa:bb:cc:dd:ee:ff", "AA:BB:CC:DD:EE:FF", "olt-1/1/1:100", "ünïcödé", "订户-1", "\x00", "a\x00b", "\xff\xfe\xfd", strings.Repeat("x", 300), "subscriber-123"} {
		add(s)
	}
	for _, s := range extra {
		add(s)
	}
	for i := 0; len(out) < n; i++ {
		switch rng.IntN(6) {
		case 0:
			add(fmt.Sprintf("%02x:%02x:%02x:%02x:%02x:%02x", rng.IntN(256), rng.IntN(256), rng.IntN(256), rng.IntN(256), rng.IntN(256), rng.IntN(256)))
		case 1:
			add(fmt.Sprintf("sub-%d", i))
		case 2:
			add(fmt.Sprintf("olt-%d/%d/%d:%d", rng.IntN(8), rng.IntN(16), rng.IntN(64), rng.IntN(4094)))
		case 3:
			add(randBytes(rng, 1+rng.IntN(16)))
		case 4:
			add(fmt.Sprintf("%d", rng.Uint32()))
		case 5:
			add(randRunes(rng, 1+rng.IntN(12)))
		}
	}
	return out
}

var nameFamilies = []func(rng *rand.Rand, i int) string{
	func(_ *rand.Rand, i int) string { return fmt.Sprintf("node-%d", i) },
	func(_ *rand.Rand, i int) string { return fmt.Sprintf("bng-%d", i) },
	func(_ *rand.Rand, i int) string { return fmt.Sprintf("bng-%d:8081", i) },
	func(_ *rand.Rand, i int) string { return fmt.Sprintf("10.0.0.%d:8081", i) },
	func(_ *rand.Rand, i int) string { return fmt.Sprintf("bng-%d.pop1.example.net:8081", i) },
	func(_ *rand.Rand, i int) string { return fmt.Sprintf("n%d", i) },
	func(_ *rand.Rand, i int) string { return fmt.Sprintf("节点-%d", i) },
	func(_ *rand.Rand, i int) string { return fmt.Sprintf("ü%d", i) },
	func(_ *rand.Rand, i int) string {
		if i%2 == 0 {
			return fmt.Sprintf("Node-%d", i/2)
		}
		return fmt.Sprintf("node-%d", i/2)
	},
	func(_ *rand.Rand, i int) string { return strings.Repeat("p", 200) + fmt.Sprint(i) },
	func(_ *rand.Rand, i int) string { return strings.Repeat(" ", i) },
	func(rng *rand.Rand, _ int) string { return randBytes(rng, 1+rng.IntN(10)) },
	func(rng *rand.Rand, _ int) string { return randRunes(rng, 1+rng.IntN(8)) },
	func(_ *rand.Rand, i int) string { return fmt.Sprintf("[fd00::%x]:8081", i) },
}

var curatedSets = [][]string{
	{"a"}, {""}, {"", " "}, {"a", "b"}, {"node-0", "node-1", "node-2"},
	{"bng-0:8081", "bng-1:8081", "bng-2:8081"},
	{"bng-1", "bng-10", "bng-100", "bng-11"},
	{"a", "b", "c", "d", "e"}, {"ü", "üb", "节点-1", "节点-2", "\xff\xfe"},
	{"a", "A", "a ", " a", "a\x00"},
	{"n0", "n1", "n2", "n3", "n4", "n5"}, {"n0", "n1", "n2", "n3", "n4", "n5", "n6"}, {"n0", "n1", "n2", "n3", "n4", "n5", "n6", "n7"},
	{"10.0.0.1:8081", "10.0.0.2:8081", "10.0.0.3:8081", "10.0.0.4:8081", "10.0.0.5:8081", "10.0.0.6:8081", "10.0.0.7:8081", "10.0.0.8:8081"},
}

// peerSets returns the curated sets plus n seeded ones (each a true set, size 1..8).
func peerSets(rng *rand.Rand, n int) [][]string {
	var out [][]string
	for _, s := range curatedSets {
		out = append(out, append([]string(nil), s...))
	}
	for len(out) < len(curatedSets)+n {
		k := 1 + rng.IntN(8)
		var set []string
		mixed := rng.IntN(10) < 3
		fam := rng.IntN(len(nameFamilies))
		for tries := 0; len(set) < k && tries < 100; tries++ {
			f := fam
			if mixed {
				f = rng.IntN(len(nameFamilies))
			}
			name := nameFamilies[f](rng, rng.IntN(24))
			ok := !contains(set, name)
			for _, y := range set {
				if aliases(name, y) {
					ok = false
				}
			}
			if ok {
				set = append(set, name)
			}
		}
		out = append(out, set)
	}
	return out
}

// aliases reports whether a and b are the bare-host and host:port names of one node (getPeerAddr treats such a pair as
// one node), so a peer set never contains both.
func aliases(a, b string) bool {
	if h, _, err := net.SplitHostPort(a); err == nil && h == b {
		return true
	}
	if h, _, err := net.SplitHostPort(b); err == nil && h == a {
		return true
	}
	return false
}

func setKey(set []string) string { return qs(sortedCopy(set)) }
