package c17

import (
	"context"
	"fmt"
	"math/rand/v2"
	"net"
	"testing"
	"time"
	"unicode/utf8"
)

type e2eResp struct {
	Entry  string `json:"entry_node"`
	NodeID string `json:"node_id,omitempty"`
	IP     string `json:"ip,omitempty"`
	Err    string `json:"error,omitempty"`
}

func (c *cluster) forwards() int64 {
	var n int64
	for _, nd := range c.nodes {
		n += nd.allocs.Load()
	}
	return n
}

func (c *cluster) allocated() []int {
	out := make([]int, len(c.nodes))
	for i, nd := range c.nodes {
		out[i] = nd.pool.Stats().Allocated
	}
	return out
}

// request sends one allocation for subscriber s into each entering node and judges the end-to-end clauses.
// U is the set of nodes that are down (and seen as unhealthy by every entering node). prev, if non-empty, is the node that
// served s earlier (then no pool may allocate again and the same node must answer).
func (c *cluster) request(s string, entering []*cnode, U uint32, phase string, prev string) string {
	before := c.allocated()
	fw0 := c.forwards()
	var resps []e2eResp
	for _, e := range entering {
		var mac net.HardwareAddr
		if c.rng.IntN(4) > 0 {
			mac = net.HardwareAddr{2, 0, byte(c.rng.IntN(256)), byte(c.rng.IntN(256)), byte(c.rng.IntN(256)), byte(c.rng.IntN(256))}
		}
		ctx, cancel := context.WithTimeout(context.Background(), 20*time.Second)
		r, err := e.pool.Allocate(ctx, s, mac)
		cancel()
		rr := e2eResp{Entry: e.id}
		if err != nil {
			rr.Err = err.Error()
		} else {
			rr.NodeID, rr.IP = r.NodeID, r.IP
		}
		resps = append(resps, rr)
	}
	after := c.allocated()
	fw := c.forwards() - fw0
	run.Count("e2e_requests", len(entering))
	run.Count("e2e_requests_"+phase, len(entering))
	run.Count("e2e_http_forwards_observed", int(fw))
	run.Eval()
	if fw > 0 {
		run.Nontrivial("e2e|" + c.key() + "|" + phase + "|" + s)
	}
	suffix := "/" + c.form
	wit := func() map[string]any {
		owners := map[string]string{}
		for _, nd := range c.nodes {
			owners[q(nd.id)] = q(nd.pool.GetOwner(s))
		}
		return map[string]any{"cluster": c.key(), "phase": phase, "down": qs(c.names(U)), "subscriber": q(s), "responses": resps, "allocated_before": before, "allocated_after": after, "GetOwner_on_each_node": owners, "served_earlier_by": prev}
	}
	comp := "pool.PeerPool.Allocate"
	nodeIDs := map[string]bool{}
	ips := map[string]bool{}
	first := ""
	for i, r := range resps {
		if r.Err != "" {
			run.Violation(comp, "served-by-exactly-one-pool", "request-failed"+suffix, fmt.Sprintf("%s: request for %s entering at %s failed: %s", phase, q(s), q(r.Entry), r.Err), wit())
			continue
		}
		if first == "" {
			first = r.NodeID
		}
		nodeIDs[r.NodeID] = true
		ips[r.IP] = true
		e := entering[i]
		exp, ranked := expectedOwner(e, s)
		if r.NodeID != exp {
			class := "node-id-differs-from-GetOwner"
			if U != 0 {
				class = "node-id-differs-from-first-healthy-ranked-peer"
			}
			w := wit()
			w["ranked_on_entry_node"] = qs(ranked)
			w["expected"] = q(exp)
			run.Violation(comp, "node-id-equals-owner", class+suffix, fmt.Sprintf("%s: request for %s entering at %s answered by NodeID %s, owner by the entry node's ranking %s is %s", phase, q(s), q(r.Entry), q(r.NodeID), qs(ranked), q(exp)), w)
		}
		if U == 0 {
			for _, nd := range c.nodes {
				if o := nd.pool.GetOwner(s); o != r.NodeID {
					run.Violation(comp, "node-id-equals-owner", "node-id-differs-from-GetOwner"+suffix, fmt.Sprintf("%s: request for %s entering at %s answered by NodeID %s, GetOwner on node %s says %s", phase, q(s), q(r.Entry), q(r.NodeID), q(nd.id), q(o)), wit())
					break
				}
			}
		} else if o := e.pool.GetOwner(s); !contains(c.names(U), o) && r.NodeID != o {
			run.Violation(comp, "minimal-disruption-unhealthy", "request-for-subscriber-of-healthy-owner-served-elsewhere"+suffix, fmt.Sprintf("%s (down %s): request for %s entering at %s answered by %s although its owner %s is healthy", phase, qs(c.names(U)), q(s), q(r.Entry), q(r.NodeID), q(o)), wit())
		}
		if prev != "" && r.NodeID != prev {
			run.Violation(comp, "minimal-disruption-unhealthy", "served-subscriber-of-healthy-owner-moved"+suffix, fmt.Sprintf("%s (down %s): %s was served by %s before, now by %s", phase, qs(c.names(U)), q(s), q(prev), q(r.NodeID)), wit())
		}
	}
	if len(nodeIDs) > 1 {
		run.Violation(comp, "same-node-id-from-every-entry", "different-node-ids"+suffix, fmt.Sprintf("%s: request for %s answered by different nodes depending on the entry node: %+v", phase, q(s), resps), wit())
	}
	var inc []int
	for i := range before {
		if after[i] > before[i] {
			inc = append(inc, i)
			if after[i]-before[i] > 1 {
				// observation only (one pool served it, under two keys): not C17's text
				if utf8.ValidString(s) {
					run.Count("e2e_same_pool_allocated_twice_valid_utf8_id", 1)
				} else {
					run.Count("e2e_same_pool_allocated_twice_invalid_utf8_id", 1)
				}
			}
		}
	}
	if len(ips) > 1 && len(nodeIDs) == 1 { // observation only
		if utf8.ValidString(s) {
			run.Count("e2e_same_node_different_ips_valid_utf8_id", 1)
		} else {
			run.Count("e2e_same_node_different_ips_invalid_utf8_id", 1)
		}
	}
	switch {
	case prev != "":
		if len(inc) > 0 {
			run.Violation(comp, "served-by-exactly-one-pool", "second-pool-allocated-for-served-subscriber"+suffix, fmt.Sprintf("%s (down %s): %s already held an address at %s, pools %v allocated again", phase, qs(c.names(U)), q(s), q(prev), inc), wit())
		}
	case len(inc) == 0:
		if len(nodeIDs) > 0 {
			run.Violation(comp, "served-by-exactly-one-pool", "no-pool-allocated"+suffix, fmt.Sprintf("%s: request for new subscriber %s was answered but no node's Stats().Allocated increased", phase, q(s)), wit())
		}
	case len(inc) > 1:
		run.Violation(comp, "served-by-exactly-one-pool", "several-pools-allocated"+suffix, fmt.Sprintf("%s: request for %s entering at %d nodes made %d nodes allocate (indices %v)", phase, q(s), len(entering), len(inc), inc), wit())
	default:
		if first != "" && c.nodes[inc[0]].self != first {
			run.Violation(comp, "node-id-names-serving-pool", "allocated-at-node-other-than-node-id"+suffix, fmt.Sprintf("%s: request for %s: response names %s, but the pool of %s allocated", phase, q(s), q(first), q(c.nodes[inc[0]].self)), wit())
		}
		run.Count("e2e_subscribers_served_by_exactly_one_pool", 1)
	}
	if len(resps) > 1 && len(nodeIDs) == 1 {
		run.Count("e2e_subscribers_same_node_id_from_every_entry", 1)
	}
	return first
}

// outage: node x stops answering (connections refused, or 500 on every path) and comes back before any node has probed
// it, so every node regards it as healthy throughout. While it is away, a request that enters at another node may fail;
// if it is answered, it is answered by the node the entry node computes as owner, from that node's pool alone. When x is
// back the same subscribers are requested at every node: over the whole episode one pool holds each of them.
func (c *cluster) outage(x *cnode, subs []string) {
	fm := mode500
	if c.rng.IntN(2) == 0 {
		fm = modeClosed
	}
	suffix := "/" + c.form
	comp := "pool.PeerPool.Allocate"
	var live []*cnode
	for _, n := range c.nodes {
		if n != x {
			live = append(live, n)
		}
	}
	c.setMode(x, fm)
	if c.broken {
		return
	}
	servedBy := map[string]string{}
	heldIn := map[string]map[int]bool{}
	for _, s := range subs {
		before := c.allocated()
		var resps []e2eResp
		heldIn[s] = map[int]bool{}
		ofX := false
		for _, e := range shuffledNodes(live, c.rng) {
			exp, ranked := expectedOwner(e, s)
			ctx, cancel := context.WithTimeout(context.Background(), 20*time.Second)
			r, err := e.pool.Allocate(ctx, s, net.HardwareAddr{2, 0, 0, byte(c.rng.IntN(256)), byte(c.rng.IntN(256)), byte(c.rng.IntN(256))})
			cancel()
			rr := e2eResp{Entry: e.id}
			if err != nil {
				rr.Err = err.Error()
			} else {
				rr.NodeID, rr.IP = r.NodeID, r.IP
			}
			resps = append(resps, rr)
			run.Count("e2e_requests", 1)
			run.Count("e2e_requests_owner-unreachable-"+modeName[fm], 1)
			wit := func() map[string]any {
				return map[string]any{"cluster": c.key(), "phase": "owner-unreachable-" + modeName[fm], "unreachable_but_regarded_healthy": q(x.id), "subscriber": q(s), "entry_node": q(e.id), "ranked_on_entry_node": qs(ranked), "owner_by_entry_node": q(exp), "responses_so_far": resps, "allocated_before": before, "allocated_now": c.allocated()}
			}
			if exp == x.self {
				ofX = true
				run.Count("e2e_outage_requests_for_subscribers_of_unreachable_owner", 1)
				if err != nil {
					run.Count("e2e_outage_requests_refused", 1)
				}
			} else if err != nil {
				run.Violation(comp, "served-by-exactly-one-pool", "request-failed-although-owner-reachable"+suffix, fmt.Sprintf("%s does not answer; the request for %s entering at %s, whose owner %s is reachable, failed: %s", q(x.id), q(s), q(e.id), q(exp), rr.Err), wit())
			}
			if err == nil {
				if r.NodeID != exp {
					run.Violation(comp, "node-id-equals-owner", "served-by-other-node-while-owner-unreachable"+suffix, fmt.Sprintf("%s does not answer but every node regards it as healthy: the request for %s entering at %s was answered by NodeID %s, the owner by the entry node's ranking %s is %s", q(x.id), q(s), q(e.id), q(r.NodeID), qs(ranked), q(exp)), wit())
				}
				if servedBy[s] == "" {
					servedBy[s] = r.NodeID
				}
			}
		}
		after := c.allocated()
		for i := range after {
			if after[i] > before[i] {
				heldIn[s][i] = true
			}
		}
		exp0, _ := expectedOwner(live[0], s)
		for i := range heldIn[s] {
			if c.nodes[i].self != exp0 {
				run.Violation(comp, "served-by-exactly-one-pool", "pool-of-non-owner-allocated-while-owner-unreachable"+suffix, fmt.Sprintf("%s does not answer but every node regards it as healthy: the request for %s (owner %s) made the pool of %s allocate", q(x.id), q(s), q(exp0), q(c.nodes[i].self)),
					map[string]any{"cluster": c.key(), "phase": "owner-unreachable-" + modeName[fm], "unreachable_but_regarded_healthy": q(x.id), "subscriber": q(s), "responses": resps, "allocated_before": before, "allocated_after": after})
			}
		}
		run.Eval()
		if ofX {
			run.Nontrivial("e2e-outage|" + c.key() + "|" + x.id + "|" + s)
		}
	}
	c.setMode(x, modeOK)
	if c.broken {
		return
	}
	for _, s := range subs {
		before := c.allocated()
		if servedBy[s] == "" {
			c.request(s, shuffledNodes(c.nodes, c.rng), 0, "after-owner-outage", "")
		} else {
			// served while x was away: every node now names the same node, and no other pool allocates (a pool that already
			// holds the subscriber may allocate once more under the key a forwarded invalid-UTF-8 id turns into: observation
			// only, as in request)
			var resps []e2eResp
			for _, e := range shuffledNodes(c.nodes, c.rng) {
				ctx, cancel := context.WithTimeout(context.Background(), 20*time.Second)
				r, err := e.pool.Allocate(ctx, s, nil)
				cancel()
				rr := e2eResp{Entry: e.id}
				if err != nil {
					rr.Err = err.Error()
				} else {
					rr.NodeID, rr.IP = r.NodeID, r.IP
				}
				resps = append(resps, rr)
				run.Count("e2e_requests", 1)
				run.Count("e2e_requests_after-owner-outage", 1)
				w := map[string]any{"cluster": c.key(), "phase": "after-owner-outage", "was_unreachable": q(x.id), "subscriber": q(s), "served_during_outage_by": q(servedBy[s]), "responses": resps}
				if err != nil {
					run.Violation(comp, "served-by-exactly-one-pool", "request-failed"+suffix, fmt.Sprintf("after-owner-outage: request for %s entering at %s failed: %s", q(s), q(e.id), rr.Err), w)
				} else if r.NodeID != servedBy[s] {
					run.Violation(comp, "same-node-id-from-every-entry", "served-subscriber-answered-by-other-node-after-owner-outage"+suffix, fmt.Sprintf("%s was served by %s while %s did not answer; now the request entering at %s is answered by %s", q(s), q(servedBy[s]), q(x.id), q(e.id), q(r.NodeID)), w)
				}
			}
			run.Eval()
		}
		after := c.allocated()
		for i := range after {
			if after[i] > before[i] {
				if heldIn[s][i] {
					if utf8.ValidString(s) {
						run.Count("e2e_same_pool_allocated_again_after_outage_valid_utf8_id", 1)
					} else {
						run.Count("e2e_same_pool_allocated_again_after_outage_invalid_utf8_id", 1)
					}
				}
				heldIn[s][i] = true
			}
		}
		if len(heldIn[s]) > 1 {
			var pools []string
			for i := range heldIn[s] {
				pools = append(pools, c.nodes[i].self)
			}
			run.Violation(comp, "served-by-exactly-one-pool", "subscriber-held-in-several-pools-after-owner-outage"+suffix, fmt.Sprintf("%s did not answer for a while (no node ever regarded it as unhealthy): over the episode subscriber %s was allocated in the pools of %s", q(x.id), q(s), qs(sortedCopy(pools))),
				map[string]any{"cluster": c.key(), "unreachable_for_a_while": q(x.id), "subscriber": q(s), "pools_that_allocated": qs(sortedCopy(pools))})
		}
	}
	run.Count("e2e_outages", 1)
}

func shuffledNodes(ns []*cnode, rng *rand.Rand) []*cnode {
	out := append([]*cnode(nil), ns...)
	rng.Shuffle(len(out), func(i, j int) { out[i], out[j] = out[j], out[i] })
	return out
}

// scenario: all healthy; each node down in turn (others mark it through checkPeer), then recovered; all but one down.
func e2eScenario(c *cluster, k int, withHealth bool) {
	rng := c.rng
	ids := subIDs(rng, k*(3+2*len(c.nodes)), nil)
	next := 0
	fresh := func(m int) []string {
		if next+m > len(ids) {
			m = len(ids) - next
		}
		out := ids[next : next+m]
		next += m
		return out
	}
	type served struct{ s, node string }
	var hist []served
	if withHealth {
		c.applyVector(0)
		c.judgeVector(0)
	}
	for _, s := range fresh(k) {
		id := c.request(s, shuffledNodes(c.nodes, rng), 0, "all-healthy", "")
		if id != "" {
			hist = append(hist, served{s, id})
		}
	}
	if len(hist) > 0 {
		h := hist[0]
		sampleOnce("end-to-end", map[string]any{"naming_form": c.form, "nodes": qs(c.ids()), "subscriber": q(h.s), "served_by": q(h.node), "entered_at": "every node", "allocated_per_node": c.allocated()})
	}
	if len(c.nodes) >= 2 {
		for n := 0; n < 2 && !c.broken; n++ {
			c.outage(c.nodes[rng.IntN(len(c.nodes))], fresh(k/2))
		}
	}
	if !withHealth || len(c.nodes) < 2 {
		return
	}
	for _, x := range c.nodes {
		if c.broken {
			return
		}
		fm := mode500
		if rng.IntN(2) == 0 {
			fm = modeClosed
		}
		c.setMode(x, fm)
		U := uint32(1) << x.idx
		if !c.applyVector(U) {
			run.Inconclusive("e2e "+c.key()+" down "+x.id, "health view could not be established through checkPeer")
			c.setMode(x, modeOK)
			c.applyVector(0)
			continue
		}
		c.judgeVector(U)
		var live []*cnode
		for _, n := range c.nodes {
			if n != x {
				live = append(live, n)
			}
		}
		for _, s := range fresh(k / 2) {
			c.request(s, shuffledNodes(live, rng), U, "one-down-"+modeName[fm], "")
		}
		re := 0
		for _, h := range hist {
			if h.node != x.self && re < k/2 {
				re++
				c.request(h.s, shuffledNodes(live, rng), U, "one-down-rerequest", h.node)
			}
		}
		c.setMode(x, modeOK)
		if !c.applyVector(0) {
			// x answers 200 again and every other node has probed it up to ten times: the requests below are still judged
			// (nodes that keep excluding a recovered peer split ownership with it)
			run.Count("e2e_recoveries_not_observed_by_all_nodes", 1)
			if c.broken {
				return
			}
		}
		c.judgeVector(0)
		for _, s := range fresh(k / 4) {
			id := c.request(s, shuffledNodes(c.nodes, rng), 0, "recovered", "")
			if id != "" {
				hist = append(hist, served{s, id})
			}
		}
	}
	if len(c.nodes) >= 3 && !c.broken {
		l := c.nodes[rng.IntN(len(c.nodes))]
		var U uint32
		for _, x := range c.nodes {
			if x != l {
				U |= 1 << x.idx
				fm := mode500
				if rng.IntN(2) == 0 {
					fm = modeClosed
				}
				c.setMode(x, fm)
			}
		}
		if c.applyVector(U) {
			c.judgeVector(U)
			for _, s := range fresh(k / 4) {
				c.request(s, []*cnode{l}, U, "all-others-down", "")
			}
		} else {
			run.Inconclusive("e2e "+c.key()+" all-others-down", "health view could not be established through checkPeer")
		}
		for _, x := range c.nodes {
			c.setMode(x, modeOK)
		}
		c.applyVector(0)
	}
	c.judgeTables()
}

// TestEndToEndLoopback: 3-node clusters over real loopback HTTP.
func TestEndToEndLoopback(t *testing.T) {
	clusters := run.Pick(5, 10)
	k := run.Pick(60, 200)
	for ci := 0; ci < clusters; ci++ {
		rng := run.SubRand("e2e-real", ci)
		n := 3
		if run.Thorough() && ci%5 == 3 {
			n = 4
		}
		if run.Thorough() && ci%5 == 4 {
			n = 2
		}
		c, err := newRealCluster(n, rng, bigNet, 200)
		if err != nil {
			run.Inconclusive(fmt.Sprintf("e2e-real-%d", ci), "cannot listen on loopback: "+err.Error())
			continue
		}
		run.Distinct("clusters", c.key())
		run.Count("e2e_loopback_clusters", 1)
		e2eScenario(c, k, true)
		c.close()
	}
}

// TestEndToEndNamingForms: the same scenario through the in-memory transport for the ways a deployment can name its
// nodes: id == peer address (host:port), id == bare host name used as address, and the form of the --peers/--node-id
// documentation (node id = host name, peer list = host:port addresses, the same list on every node).
func TestEndToEndNamingForms(t *testing.T) {
	k := run.Pick(60, 200)
	nSubs := run.Pick(1000, 10000)
	for ci := 0; ci < run.Pick(3, 6); ci++ {
		for _, form := range []string{"id-equals-host-port-address", "id-is-bare-host-address", "node-id-host-vs-peer-host-port"} {
			rng := run.SubRand("e2e-forms-"+form, ci)
			n := 3 + ci%3
			hosts := make([]string, n)
			addrs := make([]string, n)
			for i := range hosts {
				hosts[i] = fmt.Sprintf("bng-%d", i+ci*7)
				addrs[i] = hosts[i] + ":8081"
			}
			var c *cluster
			switch form {
			case "id-equals-host-port-address":
				c = newFakeCluster(form, addrs, func(i int) string { return addrs[i] }, func(int) []string { return shuffled(addrs, rng) }, rng, bigNet, 200, false)
			case "id-is-bare-host-address":
				c = newFakeCluster(form, hosts, func(i int) string { return hosts[i] }, func(int) []string { return shuffled(hosts, rng) }, rng, bigNet, 200, false)
			case "node-id-host-vs-peer-host-port":
				c = newFakeCluster(form, hosts, func(i int) string { return addrs[i] }, func(int) []string { return shuffled(addrs, rng) }, rng, bigNet, 200, false)
			}
			run.Distinct("clusters", c.key())
			// in-process clauses on this naming form
			subs := subIDs(rng, nSubs, hosts)
			ref := ownersOf(c.nodes[0].pool, subs)
			var f1, f2 bool
			for i, s := range subs {
				var locals []string
				for _, nd := range c.nodes {
					if o := nd.pool.GetOwner(s); o != ref[i] && !f1 {
						f1 = true
						run.Violation("pool.NewPeerPool", "agreement", form, fmt.Sprintf("every node has NodeID=<host> and the same peer list %s: node %s (ring %s) says owner(%s)=%s, node %s (ring %s) says %s", qs(addrs), q(nd.id), qs(nd.pool.VerifC17PeerNodes()), q(s), q(o), q(c.nodes[0].id), qs(c.nodes[0].pool.VerifC17PeerNodes()), q(ref[i])),
							map[string]any{"form": form, "node": q(nd.id), "ring_here": qs(nd.pool.VerifC17PeerNodes()), "reference_node": q(c.nodes[0].id), "ring_reference": qs(c.nodes[0].pool.VerifC17PeerNodes()), "subscriber": q(s), "owner_here": q(o), "owner_reference": q(ref[i])})
					}
					if nd.pool.IsLocalOwner(s) {
						locals = append(locals, nd.id)
					}
				}
				if len(locals) != 1 && !f2 {
					f2 = true
					run.Violation("pool.PeerPool.IsLocalOwner", "exactly-one-local-owner", "not-exactly-one/"+form, fmt.Sprintf("subscriber %s: IsLocalOwner true on %s", q(s), qs(locals)), map[string]any{"form": form, "subscriber": q(s), "local_on": qs(locals)})
				}
			}
			run.Count("owner_comparisons", len(subs)*len(c.nodes))
			run.Count("naming_form_clusters_"+form, 1)
			run.Eval()
			e2eScenario(c, k, form != "node-id-host-vs-peer-host-port")
		}
	}
}
