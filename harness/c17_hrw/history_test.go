package c17

// Membership event histories.
//
// Several real PeerPool nodes each receive a sequence of AddPeer / RemovePeer events (re-adds of present peers, removes of
// absent peers, remove-then-re-add, the node's own id) and health flips established through the real checkPeer; a trivial
// reference model (a set of names) knows the membership every node must have after every event. Every state of every
// history is judged against the statement:
//
//	agreement                          nodes whose reference sets are equal compute the same owner (every node is compared with
//	                                   the representative of its set, a node configured with exactly that set)
//	ranked-agreement                   ... and the same ranked fallback list
//	ranked-starts-with-owner / ranked-permutation   the ranked list is a permutation of the reference set, no repetition
//	owner-in-peer-set / removed-peer-not-owner      no owner outside the reference set; a removed peer owns nothing
//	reported-ring-equals-membership    the ring the node reports (VerifC17PeerNodes, Stats().PeerCount) is the reference set
//	minimal-disruption-remove          RemovePeer(x) moves only subscribers x owned, AddPeer(x) moves subscribers only to x,
//	                                   an event that leaves the set unchanged moves nothing
//	minimal-disruption-unhealthy, fallback-follows-rank, healthy-owner-equals-owner, unhealthy-peer-skipped,
//	agreement-under-health             as in the rest of the check, now on rings that were built by event histories

import (
	"context"
	"fmt"
	"math/rand/v2"
	"net/http"
	"runtime"
	"sort"
	"strings"
	"sync"
	"testing"
	"time"

	"github.com/codelaboratoryltd/bng/pkg/pool"
)

// hop is one event delivered to a node.
type hop struct {
	op byte // 'A' AddPeer(x), 'R' RemovePeer(x), 'D' x stops answering and the node's health probes mark it unhealthy, 'U' x answers again and is probed healthy
	x  int  // index into the universe of names
}

func (e hop) render(P []string) string {
	switch e.op {
	case 'A':
		return "AddPeer(" + q(P[e.x]) + ")"
	case 'R':
		return "RemovePeer(" + q(P[e.x]) + ")"
	case 'D':
		return "probe-until-unhealthy(" + q(P[e.x]) + ")"
	}
	return "probe-until-healthy(" + q(P[e.x]) + ")"
}

// features of a history, for the coverage counters
const (
	fReaddPresent uint32 = 1 << iota
	fAddSelf
	fRemoveAbsent
	fRemoveNonLast
	fRemoveMiddle
	fRemoveLast
	fRemoveThenReadd
	fReaddPresentAfterNonLastRemoval
	fHealthFlip
	fEffectiveChange
	fHealthAcrossReadd
)

var featureNames = []struct {
	f    uint32
	name string
}{
	{fReaddPresent, "histories_with_readd_of_present_peer"},
	{fAddSelf, "histories_with_add_of_own_id"},
	{fRemoveAbsent, "histories_with_remove_of_absent_peer"},
	{fRemoveNonLast, "histories_with_removal_of_non_last_peer"},
	{fRemoveMiddle, "histories_with_middle_element_removal"},
	{fRemoveLast, "histories_with_removal_of_last_peer"},
	{fRemoveThenReadd, "histories_with_remove_then_readd"},
	{fReaddPresentAfterNonLastRemoval, "histories_with_readd_of_present_peer_after_non_last_removal"},
	{fHealthFlip, "histories_with_health_flip"},
	{fHealthAcrossReadd, "histories_with_unhealthy_peer_removed_and_readded"},
}

// href is the reference model of one node: a set.
type href struct {
	P         []string
	self      int
	member    []bool
	removed   []bool // removed at least once earlier in this history
	unhealthy []bool // the harness drove the node's view of x to unhealthy (the judged view is read back through IsPeerHealthy)
	downGone  []bool // x was removed while unhealthy
	flags     uint32
	shape     []string
}

func newRef(P []string, self int, init []string) *href {
	r := &href{P: P, self: self, member: make([]bool, len(P)), removed: make([]bool, len(P)), unhealthy: make([]bool, len(P)), downGone: make([]bool, len(P))}
	r.member[self] = true // a node is always a member of its own ring
	for _, x := range init {
		for i, n := range P {
			if n == x {
				r.member[i] = true
			}
		}
	}
	return r
}

func (r *href) set() []string {
	var out []string
	for i, m := range r.member {
		if m {
			out = append(out, r.P[i])
		}
	}
	sort.Strings(out)
	return out
}

// apply updates the model and returns the coarse kind of the event relative to the state it arrived in.
func (r *href) apply(e hop) string {
	switch e.op {
	case 'A':
		switch {
		case e.x == r.self:
			r.flags |= fAddSelf
			r.shape = append(r.shape, "a@")
			return "add-own-id"
		case r.member[e.x]:
			r.flags |= fReaddPresent
			if r.flags&fRemoveNonLast != 0 {
				r.flags |= fReaddPresentAfterNonLastRemoval
			}
			r.shape = append(r.shape, "a=")
			return "add-present"
		}
		r.member[e.x] = true
		r.flags |= fEffectiveChange
		if r.removed[e.x] {
			r.flags |= fRemoveThenReadd
			if r.downGone[e.x] {
				r.flags |= fHealthAcrossReadd
			}
			r.shape = append(r.shape, "a~")
		} else {
			r.shape = append(r.shape, "a+")
		}
		return "add-absent"
	case 'R':
		if !r.member[e.x] {
			r.flags |= fRemoveAbsent
			r.shape = append(r.shape, "r0")
			return "remove-absent"
		}
		s := r.set()
		switch i := sort.SearchStrings(s, r.P[e.x]); {
		case i == len(s)-1:
			r.flags |= fRemoveLast
			r.shape = append(r.shape, "r$")
		case i == 0:
			r.flags |= fRemoveNonLast
			r.shape = append(r.shape, "r^")
		default:
			r.flags |= fRemoveNonLast | fRemoveMiddle
			r.shape = append(r.shape, "r|")
		}
		r.member[e.x] = false
		r.removed[e.x] = true
		r.downGone[e.x] = r.unhealthy[e.x]
		r.flags |= fEffectiveChange
		return "remove-present"
	case 'D':
		r.flags |= fHealthFlip
		r.unhealthy[e.x] = true
		r.shape = append(r.shape, "d")
		return "mark-unhealthy"
	}
	r.flags |= fHealthFlip
	r.unhealthy[e.x] = false
	r.shape = append(r.shape, "u")
	return "mark-healthy"
}

// ---------------------------------------------------------------- representatives: nodes configured with exactly a set

type canonEntry struct {
	owners []string   // over the full key sample
	ranked [][]string // over the first len(ranked) keys
}

type canonTable struct {
	mu   sync.RWMutex
	m    map[string]*canonEntry
	keys []string
	nr   int
}

func newCanon(keys []string, nRanked int) *canonTable {
	return &canonTable{m: map[string]*canonEntry{}, keys: keys, nr: nRanked}
}

// get returns the owners computed by a node that was configured (no events) with exactly the sorted set S.
func (t *canonTable) get(S []string) *canonEntry {
	k := strings.Join(S, "\x00|")
	t.mu.RLock()
	e, ok := t.m[k]
	t.mu.RUnlock()
	if ok {
		return e
	}
	t.mu.Lock()
	defer t.mu.Unlock()
	if e, ok := t.m[k]; ok {
		return e
	}
	p := mkPool(S[0], S, 0, smallNet)
	e = &canonEntry{owners: ownersOf(p, t.keys)}
	for i := 0; i < t.nr && i < len(t.keys); i++ {
		e.ranked = append(e.ranked, p.VerifC17Ranked(t.keys[i]))
	}
	t.m[k] = e
	run.Count("history_representative_nodes_configured", 1)
	return e
}

// ---------------------------------------------------------------- judging one state of one history

type hctx struct {
	P     []string
	ukey  string
	keys  []string // full sample; the first nq keys are judged in every state, all of them at the first sight of a ring
	nq    int
	nrq   int // ranked lists judged in every state
	nh    int // healthy owners judged in every state
	canon *canonTable
	seen  *sync.Map // node|reported ring|health view -> full judgement done
	mode  string
	cnt   *lcount
}

// lcount buffers counters of one worker.
type lcount struct {
	mu   sync.Mutex
	m    map[string]int
	dist map[string]map[string]struct{}
	nt   []string
}

func newLcount() *lcount {
	return &lcount{m: map[string]int{}, dist: map[string]map[string]struct{}{}}
}

func (l *lcount) distinct(set, key string) {
	l.mu.Lock()
	m := l.dist[set]
	if m == nil {
		m = map[string]struct{}{}
		l.dist[set] = m
	}
	m[key] = struct{}{}
	l.mu.Unlock()
}

func (l *lcount) nontrivial(key string) {
	l.mu.Lock()
	l.nt = append(l.nt, key)
	full := len(l.nt) >= 4096
	l.mu.Unlock()
	if full {
		l.flush()
	}
}

// worker returns a copy of the context with its own counter buffer.
func (c *hctx) worker() *hctx {
	cc := *c
	cc.cnt = newLcount()
	return &cc
}

func (l *lcount) add(k string, n int) {
	l.mu.Lock()
	l.m[k] += n
	l.mu.Unlock()
}

func (l *lcount) flush() {
	l.mu.Lock()
	for k, v := range l.m {
		run.Count(k, v)
	}
	l.m = map[string]int{}
	for set, m := range l.dist {
		for k := range m {
			run.Distinct(set, k)
		}
	}
	l.dist = map[string]map[string]struct{}{}
	for _, k := range l.nt {
		run.Nontrivial(k)
	}
	l.nt = nil
	l.mu.Unlock()
}

type hstate struct {
	node        *cnode
	ref         *href
	init        []string
	events      []hop
	kind        string // kind of the last event, "initial-config" for the state before any event
	last        hop
	flipped     bool     // the last event changed the node's observed health view of last.x
	prevOwners  []string // GetOwner over keys[:nq] before the last event
	prevHealthy []string
	broken      map[string]bool // clauses already reported at a prefix of this history
}

func rankedDefect(r []string, set []string) string {
	class := ""
	if len(dedupe(r)) != len(r) {
		class = "repeated-entry"
	}
	for _, x := range r {
		if !contains(set, x) {
			class = "foreign-entry"
		}
	}
	for _, x := range set {
		if !contains(r, x) {
			class = "missing-peer"
		}
	}
	return class
}

func sameList(a, b []string) bool {
	if len(a) != len(b) {
		return false
	}
	for i := range a {
		if a[i] != b[i] {
			return false
		}
	}
	return true
}

// judge judges the node's current state against the reference model and returns its owner vectors over keys[:nq] and the
// set of clauses broken so far on this history (each clause is reported at the shortest prefix that breaks it).
func (c *hctx) judge(st *hstate) (owners, healthy []string, broken map[string]bool) {
	p := st.node.pool
	S := st.ref.set()
	tag := "/event-history/after-" + st.kind
	broken = st.broken
	report := func(rule string, f func()) {
		if st.broken[rule] || broken[rule] {
			return
		}
		nb := make(map[string]bool, len(broken)+1)
		for k := range broken {
			nb[k] = true
		}
		nb[rule] = true
		broken = nb
		f()
	}
	wit := func(extra map[string]any) map[string]any {
		ev := make([]string, len(st.events))
		for i, e := range st.events {
			ev[i] = e.render(c.P)
		}
		w := map[string]any{"universe": qs(c.P), "node": q(c.P[st.ref.self]), "configured_with": qs(st.init), "events": ev, "history_shape": strings.Join(st.ref.shape, " "),
			"reference_membership": qs(S), "ring_reported_by_node": qs(p.VerifC17PeerNodes()), "peer_count_reported_by_node": p.Stats().PeerCount}
		for k, v := range extra {
			w[k] = v
		}
		return w
	}
	comp := "pool.NewPeerPool"
	switch st.last.op {
	case 'A':
		comp = "pool.PeerPool.AddPeer"
	case 'R':
		comp = "pool.PeerPool.RemovePeer"
	case 'D', 'U':
		comp = "pool.PeerPool.checkPeer"
	}

	// (4) the ring the node reports is the reference set
	ring := p.VerifC17PeerNodes()
	if d := rankedDefect(ring, S); d != "" {
		d = map[string]string{"repeated-entry": "member-listed-twice", "foreign-entry": "non-member-listed", "missing-peer": "member-missing"}[d]
		report("reported-ring-equals-membership", func() {
			histViolation(len(st.events), comp, "reported-ring-equals-membership", d+tag, fmt.Sprintf("node %s configured with %s after %d events (%s): the node reports the ring %s, the events leave the set %s", q(c.P[st.ref.self]), qs(st.init), len(st.events), st.last.render(c.P), qs(ring), qs(S)), wit(nil))
		})
	} else if n := p.Stats().PeerCount; n != len(S) {
		report("reported-ring-equals-membership", func() {
			histViolation(len(st.events), comp, "reported-ring-equals-membership", "peer-count-differs"+tag, fmt.Sprintf("node %s: Stats().PeerCount=%d, the events leave the %d-member set %s", q(c.P[st.ref.self]), n, len(S), qs(S)), wit(nil))
		})
	}

	rep := c.canon.get(S)
	keys := c.keys[:c.nq]
	owners = ownersOf(p, keys)
	healthy = healthyOwnersOf(p, keys[:c.nh])
	var unhealthyView []string
	for _, x := range S {
		if x != st.node.self && !p.IsPeerHealthy(x) {
			unhealthyView = append(unhealthyView, x)
		}
	}

	judgeKeys := func(ks []string, own []string, hown []string, nRanked int) {
		for i, s := range ks {
			o := own[i]
			// (1) agreement with the representative of the reference set
			if o != rep.owners[i] {
				report("agreement", func() {
					histViolation(len(st.events), "pool.PeerPool.GetOwner", "agreement", "differs-from-node-configured-with-the-same-set"+tag, fmt.Sprintf("node %s after %d events has the membership %s but says owner(%s)=%s; a node configured with %s says %s", q(c.P[st.ref.self]), len(st.events), qs(S), q(s), q(o), qs(S), q(rep.owners[i])),
						wit(map[string]any{"subscriber": q(s), "owner_here": q(o), "owner_on_node_configured_with_the_set": q(rep.owners[i])}))
				})
			}
			// (3) no owner outside the reference set
			if !contains(S, o) {
				rule, class, cmp := "owner-in-peer-set", "owner-not-a-member"+tag, "pool.PeerPool.GetOwner"
				for xi, n := range c.P {
					if n == o && st.ref.removed[xi] {
						rule, class, cmp = "removed-peer-not-owner", "owner-outside-remaining-set"+tag, "pool.PeerPool.RemovePeer"
					}
				}
				report(rule, func() {
					histViolation(len(st.events), cmp, rule, class, fmt.Sprintf("node %s after %d events has the membership %s but says owner(%s)=%s", q(c.P[st.ref.self]), len(st.events), qs(S), q(s), q(o)), wit(map[string]any{"subscriber": q(s), "owner_here": q(o)}))
				})
			}
			// healthy owner: first eligible entry of the node's ranked list; equal to the owner when the node regards every member as healthy
			var ranked []string
			if i < len(hown) || i < nRanked {
				ranked = p.VerifC17Ranked(s)
			}
			if i < len(hown) {
				h := hown[i]
				exp := st.node.self
				for _, x := range ranked {
					if x == st.node.self || p.IsPeerHealthy(x) {
						exp = x
						break
					}
				}
				if h != exp {
					report("fallback-follows-rank", func() {
						histViolation(len(st.events), "pool.PeerPool.getHealthyOwner", "fallback-follows-rank", "not-first-eligible-in-ranked-list"+tag, fmt.Sprintf("node %s (regards %s as unhealthy) routes %s to %s; the first eligible entry of its ranked list %s is %s", q(c.P[st.ref.self]), qs(unhealthyView), q(s), q(h), qs(ranked), q(exp)),
							wit(map[string]any{"subscriber": q(s), "healthy_owner": q(h), "ranked": qs(ranked), "unhealthy_view": qs(unhealthyView)}))
					})
				}
				if len(unhealthyView) == 0 && h != o {
					report("healthy-owner-equals-owner", func() {
						histViolation(len(st.events), "pool.PeerPool.getHealthyOwner", "healthy-owner-equals-owner", "all-members-healthy"+tag, fmt.Sprintf("node %s regards every member of %s as healthy and routes %s to %s but GetOwner says %s", q(c.P[st.ref.self]), qs(S), q(s), q(h), q(o)),
							wit(map[string]any{"subscriber": q(s), "healthy_owner": q(h), "owner": q(o)}))
					})
				}
				if h != st.node.self && (contains(unhealthyView, h) || !contains(S, h)) {
					rule, class := "unhealthy-peer-skipped", "unhealthy-remote-peer-chosen"+tag
					if !contains(S, h) {
						rule, class = "owner-in-peer-set", "healthy-owner-not-a-member"+tag
					}
					report(rule, func() {
						histViolation(len(st.events), "pool.PeerPool.getHealthyOwner", rule, class, fmt.Sprintf("node %s (membership %s, regards %s as unhealthy) routes %s to %s", q(c.P[st.ref.self]), qs(S), qs(unhealthyView), q(s), q(h)),
							wit(map[string]any{"subscriber": q(s), "healthy_owner": q(h), "unhealthy_view": qs(unhealthyView)}))
					})
				}
			}
			// (2) ranked list
			if i < nRanked {
				r := ranked
				if len(r) == 0 || r[0] != o {
					report("ranked-starts-with-owner", func() {
						histViolation(len(st.events), "pool.rendezvousRanked", "ranked-starts-with-owner", "first-ranked-differs-from-owner"+tag, fmt.Sprintf("ranked list %s for subscriber %s does not start with GetOwner()=%s", qs(r), q(s), q(o)), wit(map[string]any{"subscriber": q(s), "ranked": qs(r), "owner": q(o)}))
					})
				}
				if d := rankedDefect(r, S); d != "" {
					report("ranked-permutation", func() {
						histViolation(len(st.events), "pool.rendezvousRanked", "ranked-permutation", d+tag, fmt.Sprintf("node %s after %d events: ranked list %s for subscriber %s is not a permutation of the membership %s", q(c.P[st.ref.self]), len(st.events), qs(r), q(s), qs(S)), wit(map[string]any{"subscriber": q(s), "ranked": qs(r)}))
					})
				} else if i < len(rep.ranked) && !sameList(r, rep.ranked[i]) {
					report("ranked-agreement", func() {
						histViolation(len(st.events), "pool.rendezvousRanked", "ranked-agreement", "differs-from-node-configured-with-the-same-set"+tag, fmt.Sprintf("node %s after %d events ranks %s for subscriber %s; a node configured with the same set %s ranks %s", q(c.P[st.ref.self]), len(st.events), qs(r), q(s), qs(S), qs(rep.ranked[i])), wit(map[string]any{"subscriber": q(s), "ranked": qs(r), "ranked_on_node_configured_with_the_set": qs(rep.ranked[i])}))
					})
				}
			}
		}
	}
	judgeKeys(keys, owners, healthy, c.nrq)
	c.cnt.add("history_states_judged", 1)
	c.cnt.add("owner_comparisons", len(keys))
	c.cnt.add("history_ranked_lists_judged", c.nrq)
	c.cnt.add("healthy_owner_comparisons", len(healthy))

	// (5) the last event moved only what the statement lets it move
	if st.prevOwners != nil {
		moved, ownedByX := 0, 0
		x := c.P[st.last.x]
		for i, s := range keys {
			b, a := st.prevOwners[i], owners[i]
			if b == x || a == x {
				ownedByX++
			}
			if b == a {
				continue
			}
			moved++
			w := func() map[string]any {
				return wit(map[string]any{"subscriber": q(s), "owner_before_last_event": q(b), "owner_after_last_event": q(a)})
			}
			switch st.kind {
			case "remove-present":
				if b != x {
					report("minimal-disruption-remove", func() {
						histViolation(len(st.events), "pool.PeerPool.RemovePeer", "minimal-disruption-remove", "subscriber-of-other-peer-moved/event-history", fmt.Sprintf("node %s: %s moved subscriber %s from %s to %s", q(c.P[st.ref.self]), st.last.render(c.P), q(s), q(b), q(a)), w())
					})
				}
			case "add-absent":
				if a != x {
					report("minimal-disruption-remove", func() {
						histViolation(len(st.events), "pool.PeerPool.AddPeer", "minimal-disruption-remove", "subscriber-moved-to-other-peer-on-add/event-history", fmt.Sprintf("node %s: %s moved subscriber %s from %s to %s (removing the peer again would have to move it back although the peer does not own it)", q(c.P[st.ref.self]), st.last.render(c.P), q(s), q(b), q(a)), w())
					})
				}
			default: // the membership did not change
				report("minimal-disruption-remove", func() {
					histViolation(len(st.events), comp, "minimal-disruption-remove", "membership-unchanged-owner-changed"+tag, fmt.Sprintf("node %s: %s leaves the membership %s unchanged but moved subscriber %s from %s to %s", q(c.P[st.ref.self]), st.last.render(c.P), qs(S), q(s), q(b), q(a)), w())
				})
			}
		}
		if st.prevHealthy != nil {
			for i, s := range keys[:len(healthy)] {
				b, a := st.prevHealthy[i], healthy[i]
				if b == a {
					continue
				}
				w := func() map[string]any {
					return wit(map[string]any{"subscriber": q(s), "healthy_owner_before_last_event": q(b), "healthy_owner_after_last_event": q(a), "unhealthy_view": qs(unhealthyView)})
				}
				switch st.kind {
				case "mark-unhealthy":
					if b != x {
						report("minimal-disruption-unhealthy", func() {
							histViolation(len(st.events), "pool.PeerPool.getHealthyOwner", "minimal-disruption-unhealthy", "subscriber-of-other-peer-moved/event-history", fmt.Sprintf("node %s: marking %s unhealthy moved subscriber %s from %s to %s", q(c.P[st.ref.self]), q(x), q(s), q(b), q(a)), w())
						})
					}
				case "mark-healthy":
					if a != x {
						report("minimal-disruption-unhealthy", func() {
							histViolation(len(st.events), "pool.PeerPool.getHealthyOwner", "minimal-disruption-unhealthy", "subscriber-moved-to-other-peer-on-recovery/event-history", fmt.Sprintf("node %s: recovery of %s moved subscriber %s from %s to %s", q(c.P[st.ref.self]), q(x), q(s), q(b), q(a)), w())
						})
					}
				}
			}
		}
		c.cnt.add("history_steps_judged_for_minimal_disruption_"+st.kind, 1)
		c.cnt.add("history_subscribers_moved_by_last_event", moved)
		if moved > 0 && moved < len(keys) && ownedByX > 0 {
			c.cnt.add("history_steps_that_moved_some_but_not_all_subscribers", 1)
		}
	}

	// first sight of this (node, reported ring, health view): the whole key sample
	fp := c.P[st.ref.self] + "|" + qs(ring) + "|" + qs(unhealthyView)
	if _, dup := c.seen.LoadOrStore(fp, true); !dup {
		ownAll := ownersOf(p, c.keys)
		hAll := healthyOwnersOf(p, c.keys)
		judgeKeys(c.keys, ownAll, hAll, c.canon.nr)
		for i, s := range c.keys {
			if l := p.IsLocalOwner(s); l != (ownAll[i] == st.node.self) {
				report("exactly-one-local-owner", func() {
					histViolation(len(st.events), "pool.PeerPool.IsLocalOwner", "exactly-one-local-owner", "local-claim-differs-from-owner"+tag, fmt.Sprintf("node %s: IsLocalOwner(%s)=%v, GetOwner=%s", q(st.node.self), q(s), l, q(ownAll[i])), wit(map[string]any{"subscriber": q(s), "owner": q(ownAll[i])}))
				})
			}
		}
		c.cnt.add("history_distinct_rings_judged_on_all_keys", 1)
		c.cnt.add("owner_comparisons", len(c.keys))
		c.cnt.add("history_ranked_lists_judged", c.canon.nr)
		c.cnt.distinct("history_rings", c.ukey+fp)
	}
	return owners, healthy, broken
}

// account records what one complete history covered.
func (c *hctx) account(st *hstate, owners []string) {
	S := st.ref.set()
	c.cnt.add("histories_judged_"+c.mode, 1)
	c.cnt.add(fmt.Sprintf("histories_of_length_%02d", len(st.events)), 1)
	for _, fn := range featureNames {
		if st.ref.flags&fn.f != 0 {
			c.cnt.add(fn.name, 1)
		}
	}
	shape := strings.Join(st.ref.shape, " ")
	c.cnt.distinct("history_shape_final_set_pairs", c.ukey+"|"+shape+"|"+qs(S))
	c.cnt.distinct("history_shapes", shape)
	c.cnt.distinct("history_final_sets", c.ukey+"|"+qs(S))
	c.cnt.distinct("history_node_final_set_pairs", c.ukey+"|"+c.P[st.ref.self]+"|"+qs(S))
	if st.ref.flags&fEffectiveChange != 0 && len(S) >= 2 && distinctCount(owners) >= 2 {
		var b strings.Builder
		if len(st.events) <= 5 || c.mode == "random" {
			for _, e := range st.events {
				b.WriteByte(e.op)
				b.WriteByte(byte('0' + e.x))
			}
		} else { // deeper enumerated histories are distinguished by their shape and final set only
			b.WriteString(shape + "|" + qs(S))
		}
		c.cnt.nontrivial("history|" + c.ukey + "|" + c.P[st.ref.self] + "|" + qs(st.init) + "|" + b.String())
	}
}

// ---------------------------------------------------------------- health flips of one node, without a cluster

// prober gives one node an in-memory network in which every other name of the universe answers /pool/status through the
// real handler of a real PeerPool, or fails, as the harness decides.
type prober struct {
	c     *cluster
	byIdx map[int]*cnode
}

func newProber(P []string, servers []*http.ServeMux, rng *rand.Rand) *prober {
	pr := &prober{c: &cluster{form: "event-history", rng: rng, fake: &fakeNet{nodes: map[string]*cnode{}}}, byIdx: map[int]*cnode{}}
	for i, n := range P {
		if servers[i] == nil {
			continue
		}
		nd := &cnode{idx: i, id: n, addr: n, mux: servers[i]}
		pr.c.fake.nodes[n] = nd
		pr.byIdx[i] = nd
	}
	return pr
}

func (pr *prober) attach(p *pool.PeerPool) {
	cl := &http.Client{Transport: pr.c.fake, Timeout: 5 * time.Second}
	p.VerifC17SetHTTPClients(cl, cl)
}

// deliver applies event e to the real node. For health events it reports whether the node's observed view changed.
func deliver(o *cnode, P []string, e hop, pr *prober, rng *rand.Rand) (flipped bool) {
	switch e.op {
	case 'A':
		o.pool.AddPeer(P[e.x])
	case 'R':
		o.pool.RemovePeer(P[e.x])
	case 'D', 'U':
		x := pr.byIdx[e.x]
		if x == nil {
			return false
		}
		want := e.op == 'U'
		fm := mode500
		if rng != nil && rng.IntN(2) == 0 {
			fm = modeClosed
		}
		if o.pool.IsPeerHealthy(x.id) == want { // one more probe with the same answer
			if !want {
				pr.c.setMode(x, fm)
			}
			ctx, cancel := context.WithTimeout(context.Background(), 30*time.Second)
			o.pool.VerifC17CheckPeer(ctx, x.id)
			cancel()
			pr.c.setMode(x, modeOK)
			run.Count("history_health_probes_confirming_the_view", 1)
			return false
		}
		if !pr.c.mark(o, x, want, fm) {
			run.Count("history_health_flips_not_established", 1)
			return false
		}
		run.Count("history_health_flips_observed", 1)
		return true
	}
	return false
}

// ---------------------------------------------------------------- exhaustive enumeration

type exhaustive struct {
	ctx     *hctx
	depth   int
	health  bool
	servers []*http.ServeMux
	visited map[string]int // pruned pass: reported ring -> largest remaining depth explored below it
}

// alphabet returns the events that can arrive in the reference state r.
func (x *exhaustive) alphabet(r *href) []hop {
	var out []hop
	for i := range r.P {
		out = append(out, hop{'A', i})
	}
	for i := range r.P {
		if i != r.self {
			out = append(out, hop{'R', i})
		}
	}
	if x.health {
		for i := range r.P {
			if i == r.self || !r.member[i] { // the health loop probes members only
				continue
			}
			if r.unhealthy[i] {
				out = append(out, hop{'U', i})
			} else {
				out = append(out, hop{'D', i})
			}
		}
	}
	return out
}

// visit builds a fresh node configured with init, delivers seq, judges the resulting state (the states of all prefixes
// were judged by the callers) and descends.
func (x *exhaustive) visit(self int, init []string, seq []hop, prevOwners, prevHealthy []string, brokenAbove map[string]bool) {
	c := x.ctx
	o := &cnode{idx: self, id: c.P[self], pool: mkPool(c.P[self], init, 0, smallNet)}
	o.self = o.pool.Stats().NodeID
	var pr *prober
	if x.health {
		pr = newProber(c.P, x.servers, nil)
		pr.attach(o.pool)
	}
	ref := newRef(c.P, self, init)
	st := &hstate{node: o, ref: ref, init: init, events: seq, kind: "initial-config", broken: brokenAbove}
	for _, e := range seq {
		st.kind = ref.apply(e)
		st.flipped = deliver(o, c.P, e, pr, nil)
		st.last = e
		c.cnt.add("history_events_delivered_"+st.kind, 1)
	}
	if len(seq) > 0 {
		st.prevOwners = prevOwners
		if st.kind != "mark-unhealthy" && st.kind != "mark-healthy" || st.flipped {
			st.prevHealthy = prevHealthy
		}
	}
	owners, healthy, broken := c.judge(st)
	c.account(st, owners)
	if len(seq) >= x.depth {
		return
	}
	if x.visited != nil {
		fp, rem := strings.Join(o.pool.VerifC17PeerNodes(), "\x00|"), x.depth-len(seq)
		if v, ok := x.visited[fp]; ok && v >= rem {
			c.cnt.add("history_subtrees_not_repeated_below_a_ring_already_explored", 1)
			return
		}
		x.visited[fp] = rem
	}
	for _, e := range x.alphabet(ref) {
		next := make([]hop, len(seq)+1)
		copy(next, seq)
		next[len(seq)] = e
		x.visit(self, init, next, owners, healthy, broken)
	}
}

func subsetsContaining(P []string, self int) [][]string {
	var out [][]string
	for m := 0; m < 1<<len(P); m++ {
		if m&(1<<self) == 0 {
			continue
		}
		var s []string
		for i := range P {
			if m&(1<<i) != 0 {
				s = append(s, P[i])
			}
		}
		out = append(out, s)
	}
	return out
}

func historyUniverses(rng *rand.Rand, n, size int, hostsOnly bool) [][]string {
	fixed := [][]string{{"n0", "n1", "n2", "n3"}, {"bng-1", "bng-10", "bng-100", "bng-11"}, {"bng-b:8081", "bng-a:8081", "bng-d:8081", "bng-c:8081"}, {"Node-1", "node-1", "node-0", "Node-0"}}
	var out [][]string
	for _, f := range fixed {
		if len(out) < n {
			out = append(out, append([]string(nil), f[:min(size, len(f))]...))
		}
	}
	for tries := 0; len(out) < n && tries < 10000; tries++ {
		for _, s := range peerSets(rng, 40)[len(curatedSets):] {
			if len(s) < size || len(out) >= n {
				continue
			}
			s = s[:size]
			if hostsOnly {
				ok := true
				for _, x := range s {
					if _, err := http.NewRequest("GET", "http://"+x+"/pool/status", nil); err != nil || x == "" || strings.ContainsAny(x, " /?#@") {
						ok = false
					}
				}
				if !ok {
					continue
				}
			}
			out = append(out, s)
		}
	}
	return out
}

// launch judges the starting ring of one node and explores every event sequence up to depth d below it, one task per first event.
func launch(c *hctx, self int, cfg []string, d int, health bool, servers []*http.ServeMux, prune bool, sem chan struct{}, wg *sync.WaitGroup) {
	x := &exhaustive{ctx: c, depth: d, health: health, servers: servers}
	o := &cnode{idx: self, id: c.P[self], pool: mkPool(c.P[self], cfg, 0, smallNet)}
	o.self = o.pool.Stats().NodeID
	ref := newRef(c.P, self, cfg)
	st := &hstate{node: o, ref: ref, init: cfg, kind: "initial-config"}
	owners, healthy, broken := c.judge(st)
	c.account(st, owners)
	for _, e := range x.alphabet(ref) {
		e := e
		wg.Add(1)
		sem <- struct{}{}
		go func() {
			defer wg.Done()
			defer func() { <-sem }()
			w := &exhaustive{ctx: c.worker(), depth: d, health: health, servers: servers}
			if prune {
				w.visited = map[string]int{}
			}
			w.visit(self, cfg, []hop{e}, owners, healthy, broken)
			w.ctx.cnt.flush()
		}()
	}
	run.Count("history_starting_rings_"+c.mode, 1)
	run.Count(fmt.Sprintf("history_starting_rings_%s_depth_%02d", c.mode, d), 1)
}

// TestHistoryExhaustive: every sequence of AddPeer/RemovePeer events up to a small depth over a universe of four names,
// delivered to each of the four nodes, from several configured starting rings. Every sequence is delivered to a fresh real
// node and judged. A second pass goes deeper and stops below a state whose reported ring was already explored to at least
// the remaining depth in the same task (a node that was never probed has no other state than its ring).
func TestHistoryExhaustive(t *testing.T) {
	nUni := run.Pick(3, 6)
	nKeys := run.Pick(1000, 10000)
	deepPruned := run.Pick(9, 13)
	unis := historyUniverses(run.Rand("hist-universes"), nUni, 4, false)
	sem := make(chan struct{}, runtime.NumCPU())
	var wg sync.WaitGroup
	for ui, P := range unis {
		rng := run.SubRand("hist-exh", ui)
		keys := subIDs(rng, nKeys, P)
		c := &hctx{P: P, ukey: qs(P), keys: keys, nq: 64, nrq: 8, nh: 8, canon: newCanon(keys, run.Pick(300, 2000)), mode: "exhaustive", cnt: newLcount(), seen: &sync.Map{}}
		light := c.worker() // below depth 5 every state is judged on a smaller sample (a ring never seen before still gets the whole sample)
		light.cnt, light.nq, light.nrq, light.nh = c.cnt, 32, 4, 4
		pruned := c.worker()
		pruned.cnt, pruned.mode = c.cnt, "exhaustive_pruned"
		run.Distinct("history_universes", c.ukey)
		for self := range P {
			inits := subsetsContaining(P, self)
			for ii, init := range inits {
				alone, everybody := len(init) == 1, len(init) == len(P)
				d := 5
				if run.Thorough() {
					switch {
					case ui == 0 && (everybody || alone && self == 0):
						d = 7
					case ui == 0 && self == 0, ui <= 2 && (alone || everybody):
						d = 6
					}
				} else if !alone && !everybody && ii != 1+(ui+self)%(len(inits)-2) || self == 3 && ui > 0 {
					d = 0 // quick: alone, everybody and one ring in between; three of the four nodes in all but the first universe
				} else if alone && ui > 0 {
					d = 4
				}
				cfg := shuffled(init, rng)
				if alone && (ui+self)%2 == 0 {
					cfg = nil // configured with no peers at all
				}
				if d > 5 {
					launch(light, self, cfg, d, false, nil, false, sem, &wg)
				} else if d > 0 {
					launch(c, self, cfg, d, false, nil, false, sem, &wg)
				}
				launch(pruned, self, cfg, deepPruned, false, nil, true, sem, &wg)
			}
		}
		wg.Wait()
		c.cnt.flush()
		run.Evals(1)
	}
	finishHistoryCounters()
}

// TestHistoryExhaustiveHealth: the same enumeration over three names with health flips in the alphabet; a peer is probed
// (through the real checkPeer, over the in-memory transport) only while it is a member, as the health loop does.
func TestHistoryExhaustiveHealth(t *testing.T) {
	depth := run.Pick(4, 5)
	nKeys := run.Pick(600, 3000)
	unis := [][]string{{"bng-0:8081", "bng-1:8081", "bng-2:8081"}, {"n2", "n0", "n1"}}
	if run.Thorough() {
		unis = append(unis, []string{"10.0.0.3:8081", "10.0.0.1:8081", "10.0.0.2:8081"})
	}
	sem := make(chan struct{}, runtime.NumCPU())
	var wg sync.WaitGroup
	for ui, P := range unis {
		rng := run.SubRand("hist-exh-health", ui)
		keys := subIDs(rng, nKeys, P)
		c := &hctx{P: P, ukey: "health" + qs(P), keys: keys, nq: 48, nrq: 6, nh: 48, canon: newCanon(keys, 200), mode: "exhaustive_with_health", cnt: newLcount(), seen: &sync.Map{}}
		run.Distinct("history_universes", c.ukey)
		servers := make([]*http.ServeMux, len(P))
		for i, n := range P {
			servers[i] = http.NewServeMux()
			mkPool(n, P, 0, smallNet).RegisterHandlers(servers[i])
		}
		for self := range P {
			for _, init := range subsetsContaining(P, self) {
				if len(init) == 2 && !run.Thorough() {
					continue
				}
				launch(c, self, shuffled(init, rng), depth, true, servers, false, sem, &wg)
			}
		}
		wg.Wait()
		c.cnt.flush()
		run.Evals(1)
	}
	finishHistoryCounters()
}

// Witnesses of one (component, rule, class) found in histories are buffered and the one with the shortest history is
// reported (the enumeration runs in parallel, so the first one found is not the shortest).
type hviol struct {
	n                       int
	comp, rule, class, desc string
	wit                     any
	count                   int
}

var hviolMu sync.Mutex
var hviols = map[string]*hviol{}

func histViolation(n int, comp, rule, class, desc string, wit map[string]any) {
	hviolMu.Lock()
	defer hviolMu.Unlock()
	k := comp + "|" + rule + "|" + class
	v := hviols[k]
	if v == nil {
		hviols[k] = &hviol{n: n, comp: comp, rule: rule, class: class, desc: desc, wit: wit, count: 1}
		return
	}
	v.count++
	if n < v.n || n == v.n && desc < v.desc {
		v.n, v.desc, v.wit = n, desc, wit
	}
}

func flushHistViolations() {
	hviolMu.Lock()
	defer hviolMu.Unlock()
	for k, v := range hviols {
		for i := 0; i < v.count && i < 1000; i++ {
			run.Violation(v.comp, v.rule, v.class, v.desc, v.wit)
		}
		delete(hviols, k)
	}
}

var historyCountersMu sync.Mutex
var historyCountersLast = map[string]int{}

// finishHistoryCounters turns the distinct sets into counters (floors are stated on counters).
func finishHistoryCounters() {
	flushHistViolations()
	historyCountersMu.Lock()
	defer historyCountersMu.Unlock()
	for set, key := range map[string]string{"history_shape_final_set_pairs": "history_shape_final_set_pairs_distinct", "history_shapes": "history_shapes_distinct", "history_final_sets": "history_final_sets_distinct", "history_rings": "history_rings_distinct"} {
		n := run.DistinctCount(set)
		run.Count(key, n-historyCountersLast[key])
		historyCountersLast[key] = n
	}
}

// ---------------------------------------------------------------- seeded long histories on clusters

// TestHistoryRandom: clusters of 3..6 nodes (plus up to two names that are no nodes). Every node is configured with its own
// random ring, receives its own random history, and then a shuffled tail of exactly the events that take it to a common
// target set and a common health view. Every state is judged as above; at the end the nodes are grouped by reference set
// and observed health view and compared with each other on the whole key sample.
func TestHistoryRandom(t *testing.T) {
	nClusters := run.Pick(300, 2000)
	nKeys := run.Pick(1000, 5000)
	sem := make(chan struct{}, runtime.NumCPU())
	var wg sync.WaitGroup
	for ci := 0; ci < nClusters; ci++ {
		ci := ci
		wg.Add(1)
		sem <- struct{}{}
		go func() {
			defer wg.Done()
			defer func() { <-sem }()
			randomHistoryCluster(ci, nKeys)
		}()
	}
	wg.Wait()
	finishHistoryCounters()
}

func randomHistoryCluster(ci int, nKeys int) {
	rng := run.SubRand("hist-rand", ci)
	nNodes := 3 + rng.IntN(4)
	var nodesNames []string
	if ci%3 == 0 {
		fixed := historyUniverses(rng, 4, 4, false)
		nodesNames = fixed[(ci/3)%len(fixed)]
		if ci%2 == 0 {
			for _, s := range peerSets(rng, 60)[len(curatedSets):] { // arbitrary strings (health probes may be impossible)
				if len(s) >= nNodes {
					nodesNames = s[:nNodes]
					break
				}
			}
		}
	}
	if nodesNames == nil {
		fam := []string{"node-%d", "bng-%d:8081", "10.0.0.%d:8081", "n%d", "bng-%d.pop1.example.net:8081", "[fd00::%x]:8081"}[rng.IntN(6)]
		perm := rng.Perm(24)
		for i := 0; i < nNodes; i++ {
			nodesNames = append(nodesNames, fmt.Sprintf(fam, perm[i]))
		}
	}
	nNodes = len(nodesNames)
	P := append([]string(nil), nodesNames...)
	for k := rng.IntN(3); k > 0; k-- {
		g := fmt.Sprintf("extra-%d:8081", rng.IntN(50))
		ok := !contains(P, g)
		for _, y := range P {
			if aliases(g, y) {
				ok = false
			}
		}
		if ok {
			P = append(P, g)
		}
	}
	keys := subIDs(rng, nKeys, P) // the whole sample is judged across the nodes at the end, the first 250 in every new ring on the way
	c := &hctx{P: P, ukey: fmt.Sprintf("r%d", ci) + qs(P), keys: keys[:250], nq: 64, nrq: 8, nh: 64, canon: newCanon(keys[:250], 100), mode: "random", cnt: newLcount(), seen: &sync.Map{}}
	run.Distinct("history_universes", c.ukey)

	// the nodes, each configured with its own ring, all reachable through one in-memory network
	inits := make([][]string, nNodes)
	cl := newFakeCluster("event-history", nodesNames, func(i int) string { return nodesNames[i] }, func(i int) []string {
		var init []string
		for _, x := range shuffled(P, rng) {
			if rng.IntN(3) > 0 {
				init = append(init, x)
			}
		}
		inits[i] = init
		return init
	}, rng, smallNet, 1, false)
	pr := &prober{c: cl, byIdx: map[int]*cnode{}}
	for i, nd := range cl.nodes {
		pr.byIdx[i] = nd
	}

	// common target: a set of names and a set of unhealthy nodes
	var target []int
	allNodes := rng.IntN(2) == 0 // every node is in the target: all nodes end with the same set
	for len(target) < 2 {
		target = target[:0]
		for i := range P {
			if rng.IntN(4) > 0 || (allNodes && i < nNodes) {
				target = append(target, i)
			}
		}
	}
	inTarget := make([]bool, len(P))
	for _, i := range target {
		inTarget[i] = true
	}
	down := make([]bool, len(P))
	if rng.IntN(3) == 0 {
		for k := 1 + rng.IntN(2); k > 0; k-- {
			down[rng.IntN(nNodes)] = true
		}
	}

	type final struct {
		o    *cnode
		ref  *href
		st   *hstate
		view []string
	}
	finals := make([]*final, nNodes)
	for ni, o := range cl.nodes {
		ref := newRef(P, ni, inits[ni])
		st := &hstate{node: o, ref: ref, init: inits[ni], kind: "initial-config"}
		owners, healthy, broken := c.judge(st)
		step := func(e hop) {
			if (e.op == 'D' || e.op == 'U') && (e.x == ni || e.x >= nNodes || !ref.member[e.x]) {
				return // only members are probed, and only nodes can answer
			}
			st.kind = ref.apply(e)
			st.flipped = deliver(o, P, e, pr, rng)
			if (e.op == 'D' || e.op == 'U') && !st.flipped {
				ref.unhealthy[e.x] = !o.pool.IsPeerHealthy(P[e.x])
			}
			st.last = e
			st.events = append(st.events, e)
			st.prevOwners, st.prevHealthy, st.broken = owners, healthy, broken
			if (e.op == 'D' || e.op == 'U') && !st.flipped {
				st.prevHealthy = nil
			}
			c.cnt.add("history_events_delivered_"+st.kind, 1)
			owners, healthy, broken = c.judge(st)
		}
		// free part
		prev := -1
		for n := 6 + rng.IntN(30); n > 0; n-- {
			x := rng.IntN(len(P))
			if prev >= 0 && rng.IntN(10) < 3 {
				x = prev // the same peer again: re-announce, remove-then-re-add, double remove
			}
			prev = x
			var e hop
			switch r := rng.IntN(100); {
			case r < 40:
				e = hop{'A', x}
			case r < 75:
				if x == ni {
					continue // a node does not remove itself
				}
				e = hop{'R', x}
			case r < 90:
				e = hop{'D', x}
			default:
				e = hop{'U', x}
			}
			step(e)
		}
		// tail: exactly what is needed to reach the target, shuffled, with events that change nothing in between
		var tail []hop
		for i := range P {
			switch {
			case inTarget[i] && !ref.member[i]:
				tail = append(tail, hop{'A', i})
			case !inTarget[i] && ref.member[i] && i != ni:
				tail = append(tail, hop{'R', i})
			case rng.IntN(2) == 0 && inTarget[i]:
				tail = append(tail, hop{'A', i})
			case rng.IntN(2) == 0 && i != ni:
				tail = append(tail, hop{'R', i})
			}
		}
		rng.Shuffle(len(tail), func(i, j int) { tail[i], tail[j] = tail[j], tail[i] })
		for _, e := range tail {
			step(e)
		}
		var hs []hop
		for i := 0; i < nNodes; i++ {
			if i != ni && ref.member[i] {
				if down[i] {
					hs = append(hs, hop{'D', i})
				} else {
					hs = append(hs, hop{'U', i})
				}
			}
		}
		rng.Shuffle(len(hs), func(i, j int) { hs[i], hs[j] = hs[j], hs[i] })
		for _, e := range hs {
			step(e)
		}
		c.account(st, owners)
		f := &final{o: o, ref: ref, st: st}
		for _, x := range ref.set() {
			if x != o.self && !o.pool.IsPeerHealthy(x) {
				f.view = append(f.view, x)
			}
		}
		finals[ni] = f
	}

	// groups of nodes with the same reference set and the same observed health view
	groups := map[string][]*final{}
	var order []string
	for _, f := range finals {
		if contains(f.view, f.o.self) {
			continue
		}
		k := qs(f.ref.set()) + "|" + qs(f.view)
		if _, ok := groups[k]; !ok {
			order = append(order, k)
		}
		groups[k] = append(groups[k], f)
	}
	for _, k := range order {
		g := groups[k]
		S := g[0].ref.set()
		// a node that is itself in the group's unhealthy view sees a different view than the others
		var in []*final
		for _, f := range g {
			if !contains(g[0].view, f.o.self) {
				in = append(in, f)
			}
		}
		if len(in) == 0 {
			continue
		}
		c.cnt.add(fmt.Sprintf("history_groups_of_%d_nodes_with_equal_set_and_view", len(in)), 1)
		if len(in) >= 2 {
			c.cnt.add("history_groups_with_several_nodes_compared", 1)
		}
		if len(in) >= 3 {
			c.cnt.add("history_groups_with_three_or_more_nodes_compared", 1)
		}
		refOwn := ownersOf(in[0].o.pool, keys)
		refH := healthyOwnersOf(in[0].o.pool, keys)
		wit := func(f *final, extra map[string]any) map[string]any {
			w := map[string]any{"universe": qs(P), "reference_membership": qs(S), "unhealthy_view": qs(g[0].view)}
			for _, n := range []*final{in[0], f} {
				ev := make([]string, len(n.st.events))
				for i, e := range n.st.events {
					ev[i] = e.render(P)
				}
				w["node_"+q(n.o.id)] = map[string]any{"configured_with": qs(n.st.init), "events": ev, "ring_reported_by_node": qs(n.o.pool.VerifC17PeerNodes())}
			}
			for k, v := range extra {
				w[k] = v
			}
			return w
		}
		for _, f := range in[1:] {
			own := ownersOf(f.o.pool, keys)
			hown := healthyOwnersOf(f.o.pool, keys)
			var f1, f2, f3 bool
			for i, s := range keys {
				if own[i] != refOwn[i] && !f1 {
					f1 = true
					run.Violation("pool.PeerPool.GetOwner", "agreement", "nodes-with-equal-membership-after-different-histories/event-history", fmt.Sprintf("nodes %s and %s received different event histories that both leave the membership %s: owner(%s) is %s on the first and %s on the second", q(in[0].o.id), q(f.o.id), qs(S), q(s), q(refOwn[i]), q(own[i])),
						wit(f, map[string]any{"subscriber": q(s), "owner_on_first": q(refOwn[i]), "owner_on_second": q(own[i])}))
				}
				if hown[i] != refH[i] && !f2 {
					f2 = true
					run.Violation("pool.PeerPool.getHealthyOwner", "agreement-under-health", "same-health-view-different-owner/event-history", fmt.Sprintf("nodes %s and %s have the membership %s and regard %s as unhealthy: %s is routed to %s by the first and to %s by the second", q(in[0].o.id), q(f.o.id), qs(S), qs(g[0].view), q(s), q(refH[i]), q(hown[i])),
						wit(f, map[string]any{"subscriber": q(s), "healthy_owner_on_first": q(refH[i]), "healthy_owner_on_second": q(hown[i])}))
				}
				if i < 200 && !f3 {
					a, b := in[0].o.pool.VerifC17Ranked(s), f.o.pool.VerifC17Ranked(s)
					if !sameList(a, b) && rankedDefect(a, S) == "" && rankedDefect(b, S) == "" {
						f3 = true
						run.Violation("pool.rendezvousRanked", "ranked-agreement", "nodes-with-equal-membership-after-different-histories/event-history", fmt.Sprintf("nodes %s and %s have the membership %s but rank %s and %s for subscriber %s", q(in[0].o.id), q(f.o.id), qs(S), qs(a), qs(b), q(s)), wit(f, map[string]any{"subscriber": q(s)}))
					}
				}
			}
			c.cnt.add("owner_comparisons", 2*len(keys))
			c.cnt.add("history_cross_node_owner_comparisons", 2*len(keys))
		}
		// when the group is the whole membership, exactly one of its nodes claims each subscriber
		if len(g[0].view) == 0 && len(in) == len(S) {
			f1 := false
			for i, s := range keys {
				var locals []string
				for _, f := range in {
					if f.o.pool.IsLocalOwner(s) {
						locals = append(locals, f.o.id)
					}
				}
				if (len(locals) != 1 || locals[0] != refOwn[i]) && !f1 {
					f1 = true
					run.Violation("pool.PeerPool.IsLocalOwner", "exactly-one-local-owner", "not-exactly-the-owner/event-history", fmt.Sprintf("all nodes of the membership %s reached it by event histories: subscriber %s is claimed by %s, owner %s", qs(S), q(s), qs(locals), q(refOwn[i])), wit(in[0], map[string]any{"subscriber": q(s), "local_on": qs(locals)}))
				}
			}
			c.cnt.add("history_groups_judged_for_exactly_one_local_owner", 1)
			c.cnt.add("is_local_owner_calls", len(keys)*len(in))
		}
		run.Eval()
	}
	if ci == 0 {
		f := finals[0]
		ev := make([]string, len(f.st.events))
		for i, e := range f.st.events {
			ev[i] = e.render(P)
		}
		sampleOnce("event-history", map[string]any{"universe": qs(P), "node": q(f.o.id), "configured_with": qs(f.st.init), "events": ev, "history_shape": strings.Join(f.ref.shape, " "), "reference_membership": qs(f.ref.set()), "ring_reported_by_node": qs(f.o.pool.VerifC17PeerNodes()), "regards_as_unhealthy": qs(f.view)})
	}
	c.cnt.flush()
}
