package c17

import (
	"fmt"
	"testing"
)

// TestHealthVectorsLoopback: every health vector of clusters of 2..4 (thorough ..6) nodes, health set through the real
// checkPeer against real loopback HTTP servers that answer 200 / 500 / refuse the connection.
func TestHealthVectorsLoopback(t *testing.T) {
	maxN := run.Pick(4, 6)
	per := run.Pick(3, 4)
	nSubs := run.Pick(300, 2000)
	ci := 0
	for n := 1; n <= maxN; n++ {
		for k := 0; k < per; k++ {
			ci++
			rng := run.SubRand("health-real", ci)
			c, err := newRealCluster(n, rng, smallNet, nSubs)
			if err != nil {
				run.Inconclusive(fmt.Sprintf("health-real-%d", ci), "cannot listen on loopback: "+err.Error())
				continue
			}
			run.Distinct("clusters", c.key())
			complete := true
			for i := uint32(0); i < 1<<n && !c.broken; i++ {
				U := i ^ (i >> 1) // Gray order: one peer changes state per step
				if !c.applyVector(U) {
					complete = false
					run.Inconclusive(fmt.Sprintf("health-real-%d vector %x", ci, U), "health view could not be established through checkPeer")
				}
				c.judgeVector(U) // judges the nodes whose view is exactly U
			}
			c.judgeTables()
			if complete && !c.broken {
				run.Count("clusters_with_all_health_vectors_judged", 1)
			}
			if k == 0 && n == 3 {
				U := uint32(1)
				c.applyVector(U)
				ex := map[string]string{}
				for i := 0; i < 4; i++ {
					ex[q(c.subs[i])] = fmt.Sprintf("ranked %s -> owner %s", qs(c.nodes[1].pool.VerifC17Ranked(c.subs[i])), q(c.nodes[1].pool.VerifC17HealthyOwner(c.subs[i])))
				}
				sampleOnce("health-vector-loopback", map[string]any{"nodes": qs(c.ids()), "observer": q(c.nodes[1].id), "unhealthy": qs(c.names(U)), "examples": ex})
			}
			c.close()
		}
	}
}

// TestHealthWalksInMemory: seeded health vectors on peer sets up to size 8 with arbitrary host-like names; the TCP hop is
// replaced by an in-memory transport, checkPeer / getHealthyOwner are the real ones.
func TestHealthWalksInMemory(t *testing.T) {
	nSets := run.Pick(60, 150)
	vectors := run.Pick(12, 40)
	nSubs := run.Pick(300, 2000)
	sets := peerSets(run.Rand("health-sets"), nSets)
	for si, set := range sets {
		if len(set) < 2 {
			continue
		}
		rng := run.SubRand("health-fake", si)
		set := set
		c := newFakeCluster("in-memory-transport", set, func(i int) string { return set[i] }, func(i int) []string {
			sh := shuffled(set, rng)
			if i%2 == 1 {
				return sh[:rng.IntN(len(sh))] // partial list, the rest joins through AddPeer
			}
			return sh
		}, rng, smallNet, nSubs, true)
		run.Distinct("clusters", c.key())
		c.judgeVector(0)
		for v := 0; v < vectors; v++ {
			var U uint32
			switch v % 3 {
			case 0: // one peer
				U = 1 << rng.IntN(len(set))
			case 1: // random subset
				U = rng.Uint32() & (1<<len(set) - 1)
			case 2: // all but one or two
				U = (1<<len(set) - 1) &^ (1 << rng.IntN(len(set))) &^ (1 << rng.IntN(len(set)))
			}
			if !c.applyVector(U) {
				// names that are not valid URL hosts cannot be probed at all by checkPeer: only the nodes whose view is exactly U are judged
				run.Count("in_memory_vectors_with_unprobeable_peer", 1)
			}
			c.judgeVector(U)
		}
		c.applyVector(0)
		c.judgeVector(0)
		c.judgeTables()
	}
}
