package c17

import (
	"context"
	"errors"
	"fmt"
	"io"
	"math/rand/v2"
	"net"
	"net/http"
	"net/http/httptest"
	"strings"
	"sync"
	"sync/atomic"
	"time"

	"github.com/codelaboratoryltd/bng/pkg/pool"
)

const (
	modeOK int32 = iota
	mode500
	modeClosed
)

var modeName = map[int32]string{modeOK: "200", mode500: "500", modeClosed: "closed"}

// cnode is one real PeerPool with its real HTTP handlers, reachable either through a loopback listener or the in-memory transport.
type cnode struct {
	idx    int
	id     string // NodeID given to NewPeerPool
	self   string // the node's own name as it reports it (Stats().NodeID, the NodeID of its responses)
	addr   string // URL host under which the other nodes reach this node
	pool   *pool.PeerPool
	mux    *http.ServeMux
	mode   atomic.Int32
	allocs atomic.Int64 // POST /pool/allocate requests that reached the real handler
	ln     net.Listener
	srv    *http.Server
}

func (n *cnode) ServeHTTP(w http.ResponseWriter, r *http.Request) {
	if n.mode.Load() == mode500 {
		http.Error(w, "harness: node down", http.StatusInternalServerError)
		return
	}
	if strings.HasPrefix(r.URL.Path, "/pool/allocate") {
		n.allocs.Add(1)
	}
	n.mux.ServeHTTP(w, r)
}

// fakeNet replaces only the TCP hop: requests are dispatched by URL host to the real handlers.
type fakeNet struct {
	mu    sync.Mutex
	nodes map[string]*cnode
	rec   bool      // record the exact host every request was sent to
	dials []dialRec // since the last take()
}

// dialRec is one request as it left a node: the exact URL host it was sent to.
type dialRec struct{ host, method, path string }

// take returns the requests recorded since the last call.
func (f *fakeNet) take() []dialRec {
	f.mu.Lock()
	d := f.dials
	f.dials = nil
	f.mu.Unlock()
	return d
}

func (f *fakeNet) RoundTrip(req *http.Request) (*http.Response, error) {
	f.mu.Lock()
	n := f.nodes[req.URL.Host]
	if f.rec {
		f.dials = append(f.dials, dialRec{req.URL.Host, req.Method, req.URL.Path})
	}
	f.mu.Unlock()
	if n == nil {
		return nil, errors.New("harness transport: no such host " + req.URL.Host)
	}
	switch n.mode.Load() {
	case modeClosed:
		return nil, errors.New("harness transport: connection refused")
	}
	rec := httptest.NewRecorder()
	n.ServeHTTP(rec, req)
	res := rec.Result()
	res.Request = req
	if req.Body != nil {
		io.Copy(io.Discard, req.Body)
		req.Body.Close()
	}
	return res, nil
}

type cluster struct {
	form    string // class suffix describing how node ids relate to peer addresses
	real    bool
	nodes   []*cnode
	fake    *fakeNet
	subs    []string              // subscribers of the health tables
	view    []uint32              // view[o]: bit x set = o currently regards x as unhealthy (observed through IsPeerHealthy)
	cur     [][]string            // cur[o]: healthy owners of subs under o's current view
	tables  []map[uint32][]string // tables[o][view]
	rng     *rand.Rand
	broken  bool
	addRest bool // nodes get a partial configured list and learn the other peers through AddPeer
}

func (c *cluster) ids() []string {
	out := make([]string, len(c.nodes))
	for i, n := range c.nodes {
		out[i] = n.id
	}
	return out
}

func (c *cluster) key() string { return c.form + setKey(c.ids()) }

func (c *cluster) close() {
	for _, n := range c.nodes {
		if n.srv != nil {
			n.srv.Close()
		}
	}
	if c.real {
		if tr, ok := http.DefaultTransport.(*http.Transport); ok {
			tr.CloseIdleConnections()
		}
	}
}

func (c *cluster) listen(n *cnode) error {
	var ln net.Listener
	var err error
	for k := 0; k < 50; k++ {
		ln, err = net.Listen("tcp", n.addr)
		if err == nil {
			break
		}
		time.Sleep(20 * time.Millisecond) // plumbing only: no oracle depends on it
	}
	if err != nil {
		return err
	}
	n.ln = ln
	n.srv = &http.Server{Handler: n}
	go n.srv.Serve(ln)
	return nil
}

// setMode makes node x answer 200 / 500 / refuse connections.
func (c *cluster) setMode(x *cnode, m int32) {
	old := x.mode.Load()
	if old == m {
		return
	}
	x.mode.Store(m)
	if !c.real {
		return
	}
	if m == modeClosed {
		x.srv.Close()
		x.srv = nil
	} else if old == modeClosed {
		if err := c.listen(x); err != nil {
			run.Inconclusive("cluster "+c.key(), "cannot re-open listener "+x.addr+": "+err.Error())
			c.broken = true
		}
	}
	if tr, ok := http.DefaultTransport.(*http.Transport); ok {
		tr.CloseIdleConnections()
	}
}

// newRealCluster starts n nodes on seeded loopback ports; node id == address.
func newRealCluster(n int, rng *rand.Rand, network string, nSubs int) (*cluster, error) {
	c := &cluster{form: "id-equals-address", real: true, rng: rng}
	port := 20000 + rng.IntN(30000)
	for i := 0; i < n; i++ {
		var ln net.Listener
		var err error
		for k := 0; k < 200; k++ {
			ln, err = net.Listen("tcp", fmt.Sprintf("127.0.0.1:%d", port))
			port++
			if err == nil {
				break
			}
		}
		if err != nil {
			c.close()
			return nil, err
		}
		addr := ln.Addr().String()
		nd := &cnode{idx: i, id: addr, addr: addr, ln: ln}
		c.nodes = append(c.nodes, nd)
	}
	ids := c.ids()
	for i, nd := range c.nodes {
		peers := shuffled(ids, rng)
		if i%3 == 1 {
			peers = without(peers, nd.id) // self omitted from its own list
		}
		nd.pool = mkPool(nd.id, peers, 0, network)
		nd.mux = http.NewServeMux()
		nd.pool.RegisterHandlers(nd.mux)
		nd.srv = &http.Server{Handler: nd}
		go nd.srv.Serve(nd.ln)
	}
	c.init(nSubs)
	return c, nil
}

// newFakeCluster builds nodes reached through the in-memory transport. peersOf(i) is the list given to node i, addrOf(i) the URL host of node i.
func newFakeCluster(form string, ids []string, addrOf func(i int) string, peersOf func(i int) []string, rng *rand.Rand, network string, nSubs int, addRest bool) *cluster {
	c := &cluster{form: form, rng: rng, fake: &fakeNet{nodes: map[string]*cnode{}}, addRest: addRest}
	for i, id := range ids {
		nd := &cnode{idx: i, id: id, addr: addrOf(i)}
		nd.pool = mkPool(id, peersOf(i), 0, network)
		if c.addRest {
			for _, x := range shuffled(ids, rng) {
				nd.pool.AddPeer(x) // peers missing from the configured list join through AddPeer
			}
		}
		cl := &http.Client{Transport: c.fake, Timeout: 5 * time.Second}
		nd.pool.VerifC17SetHTTPClients(cl, cl)
		nd.mux = http.NewServeMux()
		nd.pool.RegisterHandlers(nd.mux)
		c.nodes = append(c.nodes, nd)
		c.fake.nodes[nd.addr] = nd
	}
	c.init(nSubs)
	return c
}

func (c *cluster) init(nSubs int) {
	for _, n := range c.nodes {
		n.self = n.pool.Stats().NodeID
	}
	c.subs = subIDs(c.rng, nSubs, c.ids())
	c.view = make([]uint32, len(c.nodes))
	c.cur = make([][]string, len(c.nodes))
	c.tables = make([]map[uint32][]string, len(c.nodes))
	for i, n := range c.nodes {
		c.cur[i] = healthyOwnersOf(n.pool, c.subs)
		c.tables[i] = map[uint32][]string{0: c.cur[i]}
	}
}

func (c *cluster) names(mask uint32) []string {
	var out []string
	for i, n := range c.nodes {
		if mask&(1<<i) != 0 {
			out = append(out, n.id)
		}
	}
	return out
}

// mark drives o's view of x to the wanted state through the real checkPeer.
func (c *cluster) mark(o, x *cnode, wantHealthy bool, failMode int32) bool {
	if o.pool.IsPeerHealthy(x.id) == wantHealthy {
		return true
	}
	saved := x.mode.Load()
	switch {
	case wantHealthy:
		c.setMode(x, modeOK)
	case saved == modeOK:
		c.setMode(x, failMode)
	}
	used := x.mode.Load()
	ok := false
	ctx, cancel := context.WithTimeout(context.Background(), 30*time.Second)
	for k := 0; k < 10 && !c.broken; k++ {
		o.pool.VerifC17CheckPeer(ctx, x.id)
		run.Count("checkpeer_calls_answer_"+modeName[used], 1)
		if o.pool.IsPeerHealthy(x.id) == wantHealthy {
			ok = true
			break
		}
	}
	cancel()
	c.setMode(x, saved)
	return ok && !c.broken
}

// flip changes o's view of x and judges the single-peer minimal-disruption law on the health tables.
func (c *cluster) flip(o, x *cnode, wantHealthy bool) bool {
	failMode := mode500
	if c.rng.IntN(2) == 0 {
		failMode = modeClosed
	}
	before := c.cur[o.idx]
	if !c.mark(o, x, wantHealthy, failMode) {
		return false
	}
	if wantHealthy {
		c.view[o.idx] &^= 1 << x.idx
		run.Count("health_flips_recovered", 1)
	} else {
		c.view[o.idx] |= 1 << x.idx
		run.Count("health_flips_marked_unhealthy", 1)
	}
	run.Count("health_flips_observed", 1)
	after := healthyOwnersOf(o.pool, c.subs)
	moved, ownedByX, stayed := 0, 0, 0
	var f1, f2 bool
	for i, s := range c.subs {
		w := func() map[string]any {
			return map[string]any{"cluster": c.key(), "observer": q(o.id), "peer": q(x.id), "became_healthy": wantHealthy, "unhealthy_before_flip": qs(c.names(c.view[o.idx] ^ (1 << x.idx))), "subscriber": q(s), "owner_before": q(before[i]), "owner_after": q(after[i]), "ranked": qs(o.pool.VerifC17Ranked(s))}
		}
		if before[i] == x.id || after[i] == x.id {
			ownedByX++
		}
		if before[i] == after[i] {
			stayed++
			continue
		}
		moved++
		if !wantHealthy && before[i] != x.id && !f1 {
			f1 = true
			run.Violation("pool.PeerPool.getHealthyOwner", "minimal-disruption-unhealthy", "subscriber-of-other-peer-moved/"+c.form, fmt.Sprintf("observer %s: marking %s unhealthy moved subscriber %s from %s to %s", q(o.id), q(x.id), q(s), q(before[i]), q(after[i])), w())
		}
		if wantHealthy && after[i] != x.id && !f2 {
			f2 = true
			run.Violation("pool.PeerPool.getHealthyOwner", "minimal-disruption-unhealthy", "subscriber-moved-to-other-peer-on-recovery/"+c.form, fmt.Sprintf("observer %s: recovery of %s moved subscriber %s from %s to %s", q(o.id), q(x.id), q(s), q(before[i]), q(after[i])), w())
		}
	}
	run.Count("subscribers_moved_by_health_flip", moved)
	if moved > 0 && stayed > 0 && ownedByX > 0 {
		run.Nontrivial(fmt.Sprintf("flip|%s|%s|%s|%v|%x", c.key(), o.id, x.id, wantHealthy, c.view[o.idx]))
	}
	c.cur[o.idx] = after
	if old, ok := c.tables[o.idx][c.view[o.idx]]; ok {
		for i := range old {
			if old[i] != after[i] {
				run.Violation("pool.PeerPool.getHealthyOwner", "agreement-under-health", "same-node-same-view-different-owner/"+c.form, fmt.Sprintf("observer %s with unhealthy=%s computed owner(%s)=%s earlier and %s now", q(o.id), qs(c.names(c.view[o.idx])), q(c.subs[i]), q(old[i]), q(after[i])), map[string]any{"cluster": c.key(), "observer": q(o.id), "unhealthy": qs(c.names(c.view[o.idx])), "subscriber": q(c.subs[i])})
				break
			}
		}
	} else {
		c.tables[o.idx][c.view[o.idx]] = after
	}
	run.Eval()
	return true
}

// applyVector makes every node outside U see exactly U as unhealthy. It returns false if some view could not be established.
func (c *cluster) applyVector(U uint32) bool {
	ok := true
	for _, o := range c.nodes {
		if U&(1<<o.idx) != 0 {
			continue
		}
		for _, x := range c.nodes {
			if x == o {
				continue
			}
			want := U&(1<<x.idx) == 0
			have := c.view[o.idx]&(1<<x.idx) == 0
			if want == have {
				continue
			}
			if !c.flip(o, x, want) {
				ok = false
				run.Count("health_flips_not_established", 1)
			}
		}
	}
	return ok
}

// expectedOwner is the statement's reading of the fallback: the first entry of the node's ranked list that is eligible
// (the node itself, or a peer the node observes as healthy).
func expectedOwner(o *cnode, s string) (string, []string) {
	r := o.pool.VerifC17Ranked(s)
	for _, x := range r {
		if x == o.self || o.pool.IsPeerHealthy(x) {
			return x, r
		}
	}
	return o.self, r
}

// judgeVector judges the nodes outside U, which all see exactly U as unhealthy.
func (c *cluster) judgeVector(U uint32) {
	var obs []*cnode
	for _, o := range c.nodes {
		if U&(1<<o.idx) == 0 && c.view[o.idx] == U&^(1<<o.idx) {
			obs = append(obs, o)
		}
	}
	if len(obs) == 0 {
		return
	}
	run.Distinct("health_vectors", fmt.Sprintf("%s|%x", c.key(), U))
	run.Count(fmt.Sprintf("health_vectors_judged_%d_unhealthy", len(c.names(U))), 1)
	ref := c.cur[obs[0].idx]
	var f1, f2, f3, f4 bool
	lastRanked := 0
	for _, o := range obs {
		own := c.cur[o.idx]
		for i, s := range c.subs {
			exp, ranked := expectedOwner(o, s)
			if len(ranked) > 0 && ranked[len(ranked)-1] == o.self {
				lastRanked++
			}
			w := func() map[string]any {
				return map[string]any{"cluster": c.key(), "observer": q(o.id), "unhealthy": qs(c.names(U)), "subscriber": q(s), "healthy_owner": q(own[i]), "ranked": qs(ranked), "reference_observer": q(obs[0].id), "reference_owner": q(ref[i])}
			}
			if own[i] != ref[i] && !f1 {
				f1 = true
				run.Violation("pool.PeerPool.getHealthyOwner", "agreement-under-health", "same-health-view-different-owner/"+c.form, fmt.Sprintf("unhealthy=%s: node %s says owner(%s)=%s, node %s says %s", qs(c.names(U)), q(o.id), q(s), q(own[i]), q(obs[0].id), q(ref[i])), w())
			}
			if own[i] != exp && !f2 {
				f2 = true
				run.Violation("pool.PeerPool.getHealthyOwner", "fallback-follows-rank", "not-first-eligible-in-ranked-list/"+c.form, fmt.Sprintf("unhealthy=%s: node %s says owner(%s)=%s, first eligible entry of its ranked list %s is %s", qs(c.names(U)), q(o.id), q(s), q(own[i]), qs(ranked), q(exp)), w())
			}
			if own[i] != o.self && !o.pool.IsPeerHealthy(own[i]) && !f3 {
				f3 = true
				run.Violation("pool.PeerPool.getHealthyOwner", "unhealthy-peer-skipped", "unhealthy-remote-peer-chosen/"+c.form, fmt.Sprintf("unhealthy=%s: node %s says owner(%s)=%s although it regards that peer as unhealthy", qs(c.names(U)), q(o.id), q(s), q(own[i])), w())
			}
			if U == 0 && own[i] != o.pool.GetOwner(s) && !f4 {
				f4 = true
				run.Violation("pool.PeerPool.getHealthyOwner", "healthy-owner-equals-owner", "all-healthy/"+c.form, fmt.Sprintf("all peers healthy: node %s routes %s to %s but GetOwner says %s", q(o.id), q(s), q(own[i]), q(o.pool.GetOwner(s))), w())
			}
		}
	}
	run.Count("healthy_owner_comparisons", len(obs)*len(c.subs))
	run.Count("subscribers_judged_from_their_last_ranked_node", lastRanked)
	run.Eval()
}

// judgeTables applies the minimal-disruption law to every pair of recorded views of one observer that differ in one peer.
func (c *cluster) judgeTables() {
	for _, o := range c.nodes {
		for v, with := range c.tables[o.idx] {
			for _, x := range c.nodes {
				bit := uint32(1) << x.idx
				if v&bit == 0 {
					continue
				}
				base, ok := c.tables[o.idx][v&^bit]
				if !ok {
					continue
				}
				run.Count("health_view_pairs_judged", 1)
				for i, s := range c.subs {
					if base[i] != with[i] && base[i] != x.id {
						run.Violation("pool.PeerPool.getHealthyOwner", "minimal-disruption-unhealthy", "subscriber-of-other-peer-moved/"+c.form, fmt.Sprintf("observer %s: with unhealthy=%s owner(%s)=%s, with %s additionally unhealthy it is %s", q(o.id), qs(c.names(v&^bit)), q(s), q(base[i]), q(x.id), q(with[i])),
							map[string]any{"cluster": c.key(), "observer": q(o.id), "unhealthy_before": qs(c.names(v &^ bit)), "peer": q(x.id), "subscriber": q(s), "owner_before": q(base[i]), "owner_after": q(with[i])})
						break
					}
				}
			}
		}
	}
}
