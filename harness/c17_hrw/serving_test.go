package c17

// End-to-end *serving* agreement.
//
// The hash-level clauses (agreement, ranked lists, minimal disruption) say which node every node computes as owner. The
// clauses in this file say where a request really ends up: every node gets its own disjoint subnet, so the address in a
// response names the pool that served it whatever the response claims, and the in-memory transport routes a request by the
// exact URL host it was sent to and records that host, so a request meant for node x that leaves for another node is seen.
//
//	same-node-id-from-every-entry      at a quiescent point (no health or membership change in between) a request for s
//	                                   entering at every live node is answered by one node ...
//	same-address-from-every-entry      ... with one address ...
//	node-id-names-serving-pool         ... that lies in the subnet of the node the response names, is held by that node's pool,
//	                                   and a forwarded request was sent to the address of the node that answers
//	node-id-equals-owner               the answering node is the node every live node computes as (healthy) owner; a subscriber
//	                                   that was served earlier may instead stay with the node that served it then, if that
//	                                   node is still live (the statement does not say that ownership returns; it says one pool)
//	served-by-exactly-one-pool         a subscriber whose healthy owner was the same node at every one of its requests is held
//	                                   by that node's pool and no other; no pool of a node that never was its healthy owner at
//	                                   a request holds it; a request whose owner is reachable does not fail
//	minimal-disruption-unhealthy       a subscriber served by a node that is still live stays there while the only changes
//	                                   are other peers failing or being removed; a peer that answered every probe meant for
//	                                   it is not excluded
//	probe-reaches-intended-node        a health probe for peer y is one GET /pool/status sent to y's address
//
// Observation only (not in C17's text): the entry a former fallback keeps in its pool after the subscriber moved back to the
// recovered owner (counted as serving_history_stale_entries_in_former_server_pool).

import (
	"context"
	"fmt"
	"math/rand/v2"
	"net"
	"net/http"
	"runtime"
	"sort"
	"strings"
	"sync"
	"testing"
	"time"
	"unicode/utf8"

	"github.com/codelaboratoryltd/bng/pkg/pool"
)

const servingComp = "pool.PeerPool.Allocate"

func mkPoolNet(nodeID string, peers []string, spare int, network, gateway string) *pool.PeerPool {
	var ps []string
	if peers != nil {
		ps = make([]string, len(peers), len(peers)+spare)
		copy(ps, peers)
	}
	p, err := pool.NewPeerPool(pool.PeerPoolConfig{NodeID: nodeID, Peers: ps, Network: network, Gateway: gateway, DNSServers: []string{gateway}, LeaseTime: time.Hour})
	if err != nil {
		panic(fmt.Sprintf("NewPeerPool(%q,%q,%s): %v", nodeID, peers, network, err))
	}
	return p
}

// scluster is a universe of nodes, each with its own subnet; a node takes part once it has been started.
type scluster struct {
	*cluster
	family  string   // how the ids relate as strings
	names   []string // names[i]: the name under which node i stands in peer lists and rings
	nets    []*net.IPNet
	cfg     [][]string // Peers list node i was configured with, in the order given
	late    [][]string // AddPeer calls delivered to node i after construction
	variant string
	perm    []string
	started []bool
	task    string
}

func idFamily(names []string) string {
	for _, a := range names {
		for _, b := range names {
			if a != b && strings.HasPrefix(b, a) {
				return "some-id-is-prefix-of-another"
			}
		}
	}
	return "no-id-is-prefix-of-another"
}

func newServingCluster(form string, ids, addrs, names []string, rng *rand.Rand) *scluster {
	c := &scluster{cluster: &cluster{form: form, rng: rng, fake: &fakeNet{nodes: map[string]*cnode{}, rec: true}}, family: idFamily(names), names: names}
	for i, id := range ids {
		c.nodes = append(c.nodes, &cnode{idx: i, id: id, addr: addrs[i]})
		_, n, err := net.ParseCIDR(fmt.Sprintf("10.200.%d.0/24", i))
		if err != nil {
			panic(err)
		}
		c.nets = append(c.nets, n)
	}
	c.cfg = make([][]string, len(ids))
	c.late = make([][]string, len(ids))
	c.started = make([]bool, len(ids))
	return c
}

// start constructs (or re-constructs: a restart with an empty pool) node i.
func (c *scluster) start(i int, list []string, spare int, late []string) {
	nd := c.nodes[i]
	nd.pool = mkPoolNet(nd.id, list, spare, fmt.Sprintf("10.200.%d.0/24", i), fmt.Sprintf("10.200.%d.1", i))
	for _, x := range late {
		nd.pool.AddPeer(x)
	}
	cl := &http.Client{Transport: c.fake, Timeout: 60 * time.Second}
	nd.pool.VerifC17SetHTTPClients(cl, cl)
	nd.mux = http.NewServeMux()
	nd.pool.RegisterHandlers(nd.mux)
	nd.mode.Store(modeOK)
	nd.self = nd.pool.Stats().NodeID
	c.fake.mu.Lock()
	c.fake.nodes[nd.addr] = nd
	c.fake.mu.Unlock()
	c.cfg[i] = append([]string(nil), list...)
	c.late[i] = append([]string(nil), late...)
	c.started[i] = true
}

var servingVariants = []string{"self-omitted", "full-list", "self-omitted-rotated", "spare-capacity", "prefix-then-addpeer", "addpeer-all"}

// listFor returns the configuration of node i: the ring consists of the names in perm that are members (and i itself).
func (c *scluster) listFor(i int, perm []string, variant string, member []bool, rng *rand.Rand) (list []string, spare int, late []string) {
	var ring []string
	for _, x := range perm {
		for j, n := range c.names {
			if n == x && (member[j] || j == i) {
				ring = append(ring, x)
			}
		}
	}
	self := c.names[i]
	switch variant {
	case "full-list":
		return ring, 0, nil
	case "self-omitted":
		return without(ring, self), 0, nil
	case "self-omitted-rotated":
		k := i % len(ring)
		rot := append(append([]string(nil), ring[k:]...), ring[:k]...)
		return without(rot, self), 0, nil
	case "spare-capacity":
		return without(ring, self), 2, nil
	case "prefix-then-addpeer":
		w := without(ring, self)
		j := rng.IntN(len(w) + 1)
		return w[:j], 0, w[j:]
	case "addpeer-all":
		return nil, 0, ring
	}
	panic(variant)
}

func (c *scluster) byName(name string) *cnode {
	for i, n := range c.names {
		if n == name && c.started[i] {
			return c.nodes[i]
		}
	}
	return nil
}

// shadowed: in the Peers list observer o was configured with, an entry that extends the name of y stands before that name
// (or that name is not listed at all): the configuration in which a lookup by anything but the exact name goes wrong.
func (c *scluster) shadowed(o, y *cnode) bool {
	t := c.names[y.idx]
	for _, p := range c.cfg[o.idx] {
		if p == t {
			return false
		}
		if strings.HasPrefix(p, t) {
			return true
		}
	}
	return false
}

func (c *scluster) netOf(ip string) *cnode {
	a := net.ParseIP(ip)
	if a == nil {
		return nil
	}
	for i, n := range c.nets {
		if n.Contains(a) {
			return c.nodes[i]
		}
	}
	return nil
}

func (c *scluster) holders(s string) map[string]string {
	out := map[string]string{}
	for i, nd := range c.nodes {
		if !c.started[i] {
			continue
		}
		if ip, ok := nd.pool.VerifC17LocalAllocation(s); ok {
			out[nd.self] = ip
		}
	}
	return out
}

func (c *scluster) describe() map[string]any {
	lists := map[string]string{}
	adds := map[string]string{}
	nets := map[string]string{}
	for i, nd := range c.nodes {
		nets[q(c.names[i])] = c.nets[i].String()
		if !c.started[i] {
			continue
		}
		lists[q(nd.id)] = qs(c.cfg[i])
		if len(c.late[i]) > 0 {
			adds[q(nd.id)] = qs(c.late[i])
		}
	}
	return map[string]any{"naming_form": c.form, "node_ids": qs(c.ids()), "ring_names": qs(c.names), "configuration_variant": c.variant, "order": qs(c.perm), "configured_peer_lists": lists, "addpeer_calls_after_construction": adds, "subnets": nets, "task": c.task}
}

// relClass normalises how the address a request was sent to relates to the address it was meant for.
func relClass(intended string, d []dialRec) string {
	switch {
	case len(d) == 0:
		return "no-request-sent"
	case len(d) > 1:
		return "several-requests-sent"
	case strings.HasPrefix(d[0].host, intended) && d[0].host != intended:
		return "sent-to-address-that-extends-the-intended-one"
	case strings.HasPrefix(intended, d[0].host) && d[0].host != intended:
		return "sent-to-address-that-is-a-prefix-of-the-intended-one"
	case d[0].host != intended:
		return "sent-to-unrelated-address"
	}
	return "wrong-request"
}

func isTimeout(err string) bool {
	return strings.Contains(err, "deadline exceeded") || strings.Contains(err, "Client.Timeout")
}

// ---------------------------------------------------------------- serving history of one cluster

type sresp struct {
	Entry   string   `json:"entry_node"`
	NodeID  string   `json:"node_id,omitempty"`
	IP      string   `json:"ip,omitempty"`
	Err     string   `json:"error,omitempty"`
	Dialled []string `json:"sent_to,omitempty"`
}

// srec is what the harness observed about one subscriber so far.
type srec struct {
	node, ip string          // answer of its last round
	everH    map[string]bool // the healthy owners (as computed by every live node) at the times it was requested
	atSeq    int             // number of health/membership events before its last round
	hAtLast  string          // healthy owner at its last round
}

type shist struct {
	c        *scluster
	rng      *rand.Rand
	script   string
	member   []bool
	down     []bool
	everDown []bool
	kinds    []string // kinds of the health/membership events so far
	log      []string
	recs     map[string]*srec
	ok       bool // the common health view could be established after every event so far
	reached  map[string]int
}

func newHist(c *scluster, member []bool, script string, rng *rand.Rand) *shist {
	return &shist{c: c, rng: rng, script: script, member: append([]bool(nil), member...), down: make([]bool, len(c.nodes)), everDown: make([]bool, len(c.nodes)), recs: map[string]*srec{}, ok: true, reached: map[string]int{}}
}

func (h *shist) live() []*cnode {
	var out []*cnode
	for i, nd := range h.c.nodes {
		if h.member[i] && !h.down[i] {
			out = append(out, nd)
		}
	}
	return out
}

func (h *shist) isLive(nd *cnode) bool { return nd != nil && h.member[nd.idx] && !h.down[nd.idx] }

func (h *shist) memberNames() []string {
	var out []string
	for i := range h.c.nodes {
		if h.member[i] {
			out = append(out, h.c.names[i])
		}
	}
	return out
}

func (h *shist) event(kind, text string) {
	h.kinds = append(h.kinds, kind)
	h.log = append(h.log, text)
	run.Count("serving_history_events_"+kind, 1)
}

func (h *shist) phase(rec *srec) string {
	switch {
	case rec == nil:
		return "first-request"
	case rec.atSeq == len(h.kinds):
		return "rerequest-without-change"
	}
	return "rerequest-after-" + h.kinds[len(h.kinds)-1]
}

// phaseGroup coarsens a phase for the witness class.
func phaseGroup(phase string) string {
	switch phase {
	case "first-request", "rerequest-without-change":
		return phase
	case "rerequest-after-peer-down", "rerequest-after-peer-recovery":
		return "rerequest-after-health-change"
	}
	return "rerequest-after-membership-change"
}

func (h *shist) onlyLossesSince(k int) bool {
	for _, e := range h.kinds[k:] {
		if e != "peer-down" && e != "peer-removed" {
			return false
		}
	}
	return true
}

func (h *shist) wit(extra map[string]any) map[string]any {
	w := h.c.describe()
	w["script"] = h.script
	w["id_family"] = h.c.family
	w["history"] = append([]string(nil), h.log...)
	var dn []string
	for i := range h.c.nodes {
		if h.member[i] && h.down[i] {
			dn = append(dn, h.c.names[i])
		}
	}
	w["members"] = qs(h.memberNames())
	w["down"] = qs(dn)
	for k, v := range extra {
		w[k] = v
	}
	return w
}

// healthRound: every live node probes every other member once, as the health loop does. Every probe is judged on where it
// was sent.
func (h *shist) healthRound() {
	c := h.c
	ctx, cancel := context.WithTimeout(context.Background(), 120*time.Second)
	defer cancel()
	for _, o := range h.live() {
		for _, y := range c.nodes {
			if y == o || !h.member[y.idx] {
				continue
			}
			c.fake.take()
			o.pool.VerifC17CheckPeer(ctx, c.names[y.idx])
			d := c.fake.take()
			run.Count("serving_probes_sent", 1)
			if c.shadowed(o, y) {
				run.Count("serving_probes_for_peer_listed_after_a_name_that_extends_its_name", 1)
			}
			if len(d) == 1 && d[0].host == y.addr && d[0].path == "/pool/status" && d[0].method == "GET" {
				run.Count("serving_probes_that_reached_the_intended_address", 1)
				continue
			}
			var sent []string
			for _, r := range d {
				sent = append(sent, r.method+" http://"+r.host+r.path)
			}
			run.Violation("pool.PeerPool.checkPeer", "probe-reaches-intended-node", relClass(y.addr, d)+"/"+c.family, fmt.Sprintf("node %s (configured with %s) probes its peer %s: the probe must be one GET /pool/status to %s, sent: %s", q(o.id), qs(c.cfg[o.idx]), q(c.names[y.idx]), q(y.addr), qs(sent)),
				h.wit(map[string]any{"observer": q(o.id), "probed_peer": q(c.names[y.idx]), "address_of_probed_peer": q(y.addr), "requests_sent": sent}))
		}
	}
	run.Count("serving_health_rounds", 1)
}

// settle runs health rounds until every live node regards exactly the down members as unhealthy.
func (h *shist) settle() bool {
	c := h.c
	match := func() (ok bool, wrongUp, wrongDown [][2]*cnode) {
		ok = true
		for _, o := range h.live() {
			for _, y := range c.nodes {
				if y == o || !h.member[y.idx] {
					continue
				}
				healthy := o.pool.IsPeerHealthy(c.names[y.idx])
				switch {
				case healthy && h.down[y.idx]:
					ok = false
					wrongDown = append(wrongDown, [2]*cnode{o, y})
				case !healthy && !h.down[y.idx]:
					ok = false
					wrongUp = append(wrongUp, [2]*cnode{o, y})
				}
			}
		}
		return
	}
	h.healthRound()
	ok, wrongUp, _ := match()
	for k := 0; k < 10 && !ok; k++ {
		h.healthRound()
		ok, wrongUp, _ = match()
	}
	for _, p := range wrongUp {
		o, y := p[0], p[1]
		if h.everDown[y.idx] {
			continue // a recovered peer that is not re-admitted: counted, the history ends here
		}
		run.Violation("pool.PeerPool.checkPeer", "minimal-disruption-unhealthy", "peer-that-answered-every-probe-excluded/"+c.family, fmt.Sprintf("node %s regards its peer %s as unhealthy although %s never stopped answering; down at the time: %v", q(o.id), q(c.names[y.idx]), q(c.names[y.idx]), h.wit(nil)["down"]),
			h.wit(map[string]any{"observer": q(o.id), "excluded_peer": q(c.names[y.idx])}))
	}
	if !ok {
		run.Count("serving_history_health_views_not_established", 1)
	}
	return ok
}

func (h *shist) evDown(x *cnode) {
	fm := mode500
	if h.rng.IntN(2) == 0 {
		fm = modeClosed
	}
	h.c.setMode(x, fm)
	h.down[x.idx], h.everDown[x.idx] = true, true
	h.event("peer-down", fmt.Sprintf("%s stops answering (%s); every live node probes its peers until it regards %s as unhealthy", q(x.id), modeName[fm], q(x.id)))
	h.ok = h.settle() && h.ok
}

func (h *shist) evUp(x *cnode) {
	h.c.setMode(x, modeOK)
	h.down[x.idx] = false
	h.event("peer-recovery", fmt.Sprintf("%s answers again; every live node probes its peers until it regards %s as healthy", q(x.id), q(x.id)))
	h.ok = h.settle() && h.ok
}

func (h *shist) evRemove(x *cnode) {
	for i, o := range h.c.nodes {
		if h.member[i] && o != x {
			o.pool.RemovePeer(h.c.names[x.idx])
		}
	}
	h.member[x.idx], h.down[x.idx] = false, false
	h.c.setMode(x, modeClosed) // decommissioned: nothing may be sent there any more
	h.event("peer-removed", fmt.Sprintf("RemovePeer(%s) on every other member; %s is switched off", q(h.c.names[x.idx]), q(x.id)))
	h.ok = h.settle() && h.ok
}

// evAdd: x joins. restart=false keeps a node that was a member before as it is (its pool, its ring); otherwise x is
// constructed anew, configured with the current members.
func (h *shist) evAdd(x *cnode, restart bool) {
	c := h.c
	kind := "peer-added"
	if c.started[x.idx] && !restart {
		c.setMode(x, modeOK)
		kind = "peer-readded"
	} else {
		if c.started[x.idx] {
			kind = "peer-restarted-and-added"
		}
		list, spare, late := c.listFor(x.idx, c.perm, c.variant, h.member, h.rng)
		c.start(x.idx, list, spare, late)
	}
	for i, o := range c.nodes {
		if h.member[i] {
			o.pool.AddPeer(c.names[x.idx])
		}
	}
	h.member[x.idx], h.down[x.idx] = true, false
	h.event(kind, fmt.Sprintf("%s joins (%s): AddPeer(%s) on every member; it is configured with %s", q(x.id), kind, q(c.names[x.idx]), qs(c.cfg[x.idx])))
	h.ok = h.settle() && h.ok
}

func (h *shist) release(s string) {
	live := h.live()
	e := live[h.rng.IntN(len(live))]
	ctx, cancel := context.WithTimeout(context.Background(), 60*time.Second)
	err := e.pool.Release(ctx, s)
	cancel()
	h.c.fake.take()
	h.log = append(h.log, fmt.Sprintf("Release(%s) at %s", q(s), q(e.id)))
	if err != nil {
		run.Count("serving_history_releases_refused", 1) // observation only
	} else {
		run.Count("serving_history_releases", 1)
	}
}

// round requests every subscriber of subs at every live node (a quiescent point: nothing else happens in between).
func (h *shist) round(subs []string, order string) {
	if !h.ok {
		return
	}
	h.log = append(h.log, fmt.Sprintf("round (%s) for %s", order, qs(subs)))
	for _, s := range subs {
		h.request(s, order)
	}
	run.Count("serving_rounds_judged", 1)
}

func (h *shist) request(s string, order string) {
	c := h.c
	live := h.live()
	rec := h.recs[s]
	phase := h.phase(rec)
	tag := "/" + phaseGroup(phase) // the class names the kind of change since the subscriber's last request; the exact event and the id family are in the witness
	anyDown := false
	for i := range c.nodes {
		if h.member[i] && h.down[i] {
			anyDown = true
		}
	}

	// the node every live node computes as (healthy) owner
	hs := map[string]string{}
	H := ""
	agree := true
	for i, e := range live {
		o := e.pool.VerifC17HealthyOwner(s)
		hs[q(e.id)] = q(o)
		if i > 0 && o != H {
			agree = false
		}
		H = o
	}
	prevNode, prevIP := "", ""
	if rec != nil {
		prevNode, prevIP = rec.node, rec.ip
	}
	var resps []sresp
	wit := func() map[string]any {
		return h.wit(map[string]any{"subscriber": q(s), "phase": phase, "healthy_owner_computed_by_each_live_node": hs, "previous_answer": map[string]string{"node": prevNode, "ip": prevIP}, "responses": resps, "pools_holding_the_subscriber": c.holders(s)})
	}
	if !agree {
		run.Violation("pool.PeerPool.getHealthyOwner", "agreement-under-health", "same-health-view-different-owner/serving"+tag, fmt.Sprintf("members %s, every live node regards the same peers as unhealthy: the live nodes compute different owners for %s: %v", qs(h.memberNames()), q(s), hs), wit())
		return
	}
	hn := c.byName(H)
	if !h.isLive(hn) {
		run.Violation("pool.PeerPool.getHealthyOwner", "unhealthy-peer-skipped", "owner-is-no-live-member/serving"+tag, fmt.Sprintf("members %s: every live node routes %s to %s, which is down or no member", qs(h.memberNames()), q(s), q(H)), wit())
		return
	}
	if !anyDown {
		for _, e := range live {
			if o := e.pool.GetOwner(s); o != H {
				run.Violation("pool.PeerPool.getHealthyOwner", "healthy-owner-equals-owner", "all-healthy/serving"+tag, fmt.Sprintf("every member is up and regarded as healthy: node %s routes %s to %s but GetOwner says %s", q(e.id), q(s), q(H), q(o)), wit())
				return
			}
		}
	}

	// entry order
	entries := shuffledNodes(live, h.rng)
	if pn := c.byName(prevNode); pn != nil && h.isLive(pn) && order != "shuffled" {
		var rest []*cnode
		for _, e := range entries {
			if e != pn {
				rest = append(rest, e)
			}
		}
		if order == "former-server-first" {
			entries = append([]*cnode{pn}, rest...)
		} else {
			entries = append(rest, pn)
		}
	}
	if rec != nil && prevNode != H && h.isLive(c.byName(prevNode)) {
		// the subscriber was served by a node that is not (any more) the node everybody routes it to, and is asked for
		// again at that node and at the others
		run.Count("serving_history_rerequests_of_subscribers_whose_former_server_is_live_but_not_the_owner", 1)
		run.Count("serving_history_rerequests_at_former_server_"+phase, 1)
		h.reached[phase]++
	}

	timedOut := false
	for _, e := range entries {
		var mac net.HardwareAddr
		if h.rng.IntN(3) > 0 {
			mac = net.HardwareAddr{2, 0, byte(h.rng.IntN(256)), byte(h.rng.IntN(256)), byte(h.rng.IntN(256)), byte(h.rng.IntN(256))}
		}
		c.fake.take()
		ctx, cancel := context.WithTimeout(context.Background(), 120*time.Second)
		r, err := e.pool.Allocate(ctx, s, mac)
		cancel()
		d := c.fake.take()
		rr := sresp{Entry: e.id}
		for _, x := range d {
			rr.Dialled = append(rr.Dialled, x.method+" http://"+x.host+x.path)
		}
		if err != nil {
			rr.Err = err.Error()
			if isTimeout(rr.Err) {
				timedOut = true
			}
		} else {
			rr.NodeID, rr.IP = r.NodeID, r.IP
		}
		resps = append(resps, rr)
		run.Count("serving_requests", 1)
		run.Count("serving_requests_"+phase, 1)
		if len(d) > 0 {
			run.Count("serving_forwards_sent", 1)
			if c.shadowed(e, hn) && H != e.self {
				run.Count("serving_forwards_to_owner_listed_after_a_name_that_extends_its_name", 1)
			}
		}
		if err != nil || timedOut {
			continue
		}
		// a forwarded request went to the address of the node that answers, a local answer sent nothing
		an := c.byName(r.NodeID)
		switch {
		case r.NodeID == e.self && len(d) == 0:
		case an != nil && an != e && len(d) == 1 && d[0].host == an.addr && d[0].path == "/pool/allocate":
			run.Count("serving_forwards_answered_by_the_node_they_were_sent_to", 1)
		default:
			run.Violation(servingComp, "node-id-names-serving-pool", "answer-names-other-node-than-the-request-was-sent-to"+tag, fmt.Sprintf("request for %s entering at %s: the response names %s, requests sent: %s", q(s), q(e.id), q(r.NodeID), qs(rr.Dialled)), wit())
		}
	}
	run.Eval()
	if timedOut {
		run.Inconclusive("serving "+c.key()+" "+q(s), "an in-memory request ran into a time-out (machine overloaded)")
		h.ok = false
		return
	}

	nodeIDs, ips := map[string]bool{}, map[string]bool{}
	failed := false
	for _, r := range resps {
		if r.Err != "" {
			failed = true
			run.Violation(servingComp, "served-by-exactly-one-pool", "request-failed"+tag, fmt.Sprintf("members %s, every live node routes %s to %s, which is up: the request entering at %s failed: %s", qs(h.memberNames()), q(s), q(H), q(r.Entry), r.Err), wit())
			continue
		}
		nodeIDs[r.NodeID], ips[r.IP] = true, true
	}
	N, A := "", ""
	for _, r := range resps {
		if r.Err == "" {
			N, A = r.NodeID, r.IP
			break
		}
	}
	switch {
	case len(nodeIDs) > 1:
		run.Violation(servingComp, "same-node-id-from-every-entry", "different-node-ids"+tag, fmt.Sprintf("%s: the request for %s is answered by different nodes depending on the node it enters at: %+v (every live node computes the owner %s; answered before by %s)", phase, q(s), resps, q(H), q(prevNode)), wit())
	case len(ips) > 1:
		run.Violation(servingComp, "same-address-from-every-entry", "same-node-different-addresses"+tag, fmt.Sprintf("%s: the request for %s is answered by %s with different addresses depending on the node it enters at: %+v", phase, q(s), q(N), resps), wit())
	case len(nodeIDs) == 1:
		run.Count("serving_subscribers_same_node_and_address_from_every_entry", 1)
	}
	for _, r := range resps {
		if r.Err != "" {
			continue
		}
		// the address names the pool
		if pn := c.netOf(r.IP); pn == nil || pn.self != r.NodeID {
			from := "no node"
			if pn != nil {
				from = q(pn.self)
			}
			run.Violation(servingComp, "node-id-names-serving-pool", "address-from-subnet-of-other-node"+tag, fmt.Sprintf("request for %s entering at %s: the response names node %s, the address %s lies in the subnet of %s", q(s), q(r.Entry), q(r.NodeID), r.IP, from), wit())
		}
		// the serving node: the owner, or the live node that served the subscriber before
		if r.NodeID != H && !(r.NodeID == prevNode && h.isLive(c.byName(prevNode))) {
			run.Violation(servingComp, "node-id-equals-owner", "served-by-neither-owner-nor-former-server"+tag, fmt.Sprintf("%s: the request for %s entering at %s is answered by %s; every live node computes the owner %s (answered before by %s)", phase, q(s), q(r.Entry), q(r.NodeID), q(H), q(prevNode)), wit())
		}
		// other peers failing or leaving does not move a subscriber away from a live node
		if rec != nil && rec.atSeq < len(h.kinds) && h.onlyLossesSince(rec.atSeq) && prevNode == rec.hAtLast && h.isLive(c.byName(prevNode)) && r.NodeID != prevNode {
			run.Violation(servingComp, "minimal-disruption-unhealthy", "served-subscriber-of-live-node-moved"+tag, fmt.Sprintf("%s was served by %s; since then only other peers failed or were removed (%v), %s is still live, now the request entering at %s is answered by %s", q(s), q(prevNode), h.kinds[rec.atSeq:], q(prevNode), q(r.Entry), q(r.NodeID)), wit())
		}
	}

	// the pools
	if rec == nil {
		rec = &srec{everH: map[string]bool{}}
		h.recs[s] = rec
	}
	rec.everH[H] = true
	hold := c.holders(s)
	if len(nodeIDs) == 1 && len(ips) == 1 && !failed {
		if ip, ok := hold[N]; !ok || ip != A {
			run.Violation(servingComp, "node-id-names-serving-pool", "named-pool-does-not-hold-the-address"+tag, fmt.Sprintf("every entry node answers %s / %s for %s; the pool of %s holds %q for it", q(N), A, q(s), q(N), ip), wit())
		}
	}
	var foreign []string
	for n := range hold {
		if !rec.everH[n] {
			foreign = append(foreign, n)
		}
	}
	sort.Strings(foreign)
	switch {
	case len(foreign) > 0:
		run.Violation(servingComp, "served-by-exactly-one-pool", "held-by-pool-of-a-node-that-never-owned-it"+tag, fmt.Sprintf("%s: %s is held by the pools of %s, which were not the node every node computed as its owner at any of its requests (those were %v)", phase, q(s), qs(foreign), keysOf(rec.everH)), wit())
	case len(rec.everH) == 1 && len(hold) != 1 && !failed:
		run.Violation(servingComp, "served-by-exactly-one-pool", "subscriber-of-unchanged-owner-not-in-exactly-one-pool"+tag, fmt.Sprintf("%s: the owner of %s was %s at every one of its requests; it is held by %d pools: %v", phase, q(s), q(H), len(hold), hold), wit())
	case len(rec.everH) == 1:
		run.Count("serving_subscribers_held_by_exactly_the_owner_pool", 1)
	case len(hold) > 1:
		run.Count("serving_history_stale_entries_in_former_server_pool", len(hold)-1) // observation only
	}
	if rec.node != "" && N != "" && phase != "rerequest-without-change" {
		switch {
		case N == rec.node:
			run.Count("serving_history_subscribers_kept_by_their_server_across_a_change", 1)
		default:
			run.Count("serving_history_subscribers_moved_to_the_new_owner_across_a_change", 1)
		}
	}
	if N != "" {
		rec.node, rec.ip = N, A
	}
	rec.atSeq, rec.hAtLast = len(h.kinds), H
}

func keysOf(m map[string]bool) []string {
	var out []string
	for k := range m {
		out = append(out, k)
	}
	sort.Strings(out)
	return out
}

// pickSubs returns about k valid-UTF-8 subscriber ids spread over the owners of the ring (the scratch node is used for
// the selection only).
func pickSubs(ring []string, k int, rng *rand.Rand) []string {
	scratch := mkPool(ring[0], ring, 0, smallNet)
	buckets := map[string][]string{}
	var order []string
	for _, s := range subIDs(rng, 80+12*k, ring) {
		if !utf8.ValidString(s) || len(s) > 64 {
			continue
		}
		o := scratch.GetOwner(s)
		if _, ok := buckets[o]; !ok {
			order = append(order, o)
		}
		buckets[o] = append(buckets[o], s)
	}
	var out []string
	for i := 0; len(out) < k; i++ {
		added := false
		for _, o := range order {
			if i < len(buckets[o]) && len(out) < k {
				out = append(out, buckets[o][i])
				added = true
			}
		}
		if !added {
			break
		}
	}
	return out
}

// ---------------------------------------------------------------- scripts

// scriptDownUp: static round, then x fails, its subscribers are served by the fallback, x recovers, everything is asked for
// again at the former fallback and at the others, released, asked for again.
func scriptDownUp(h *shist, x *cnode, subs []string) {
	half := len(subs) / 2
	h.round(subs[:half], "shuffled")
	h.evDown(x)
	h.round(subs, "shuffled")
	h.evUp(x)
	h.round(subs, "former-server-first")
	h.round(subs, "former-server-last")
	for i, s := range subs {
		if i%3 == 0 && h.ok {
			h.release(s)
		}
	}
	h.round(subs, "shuffled")
}

// scriptLateOwner: x is no member at first; its future subscribers are served by the others; x joins.
func scriptLateOwner(h *shist, x *cnode, subs []string) {
	h.round(subs, "shuffled")
	h.evAdd(x, true)
	h.round(subs, "former-server-first")
	h.round(subs, "former-server-last")
	for i, s := range subs {
		if i%3 == 1 && h.ok {
			h.release(s)
		}
	}
	h.round(subs, "shuffled")
}

// scriptRemoveReadd: x is removed and joins again (as it was, or restarted with an empty pool).
func scriptRemoveReadd(h *shist, x *cnode, subs []string, restart bool) {
	h.round(subs, "shuffled")
	h.evRemove(x)
	h.round(subs, "shuffled")
	h.evAdd(x, restart)
	h.round(subs, "former-server-first")
	h.round(subs, "former-server-last")
}

// scriptRandom: a seeded sequence of failures, recoveries, removals, joins, rounds and releases.
func scriptRandom(h *shist, subs []string, n int) {
	c, rng := h.c, h.rng
	pickNode := func(ok func(i int) bool) *cnode {
		var cand []*cnode
		for i, nd := range c.nodes {
			if ok(i) {
				cand = append(cand, nd)
			}
		}
		if len(cand) == 0 {
			return nil
		}
		return cand[rng.IntN(len(cand))]
	}
	for k := 0; k < n && h.ok; k++ {
		nLive := len(h.live())
		switch r := rng.IntN(100); {
		case r < 38:
			m := 1 + rng.IntN(6)
			var ss []string
			for i := 0; i < m; i++ {
				ss = append(ss, subs[rng.IntN(len(subs))])
			}
			h.round(dedupe(ss), []string{"shuffled", "former-server-first", "former-server-last"}[rng.IntN(3)])
		case r < 53:
			if x := pickNode(func(i int) bool { return h.member[i] && !h.down[i] }); x != nil && nLive > 2 {
				h.evDown(x)
			}
		case r < 70:
			if x := pickNode(func(i int) bool { return h.member[i] && h.down[i] }); x != nil {
				h.evUp(x)
			}
		case r < 78:
			if x := pickNode(func(i int) bool { return h.member[i] }); x != nil && (h.down[x.idx] && nLive >= 2 || nLive > 2) {
				h.evRemove(x)
			}
		case r < 90:
			if x := pickNode(func(i int) bool { return !h.member[i] }); x != nil {
				h.evAdd(x, true)
			}
		default:
			if len(h.recs) > 0 {
				h.release(subs[rng.IntN(len(subs))])
			}
		}
	}
	var served []string
	for _, s := range subs {
		if h.recs[s] != nil {
			served = append(served, s)
		}
	}
	h.round(served, "former-server-first")
}

func (h *shist) finish() {
	c := h.c
	run.Count("serving_histories_"+h.script, 1)
	if !h.ok {
		run.Count("serving_histories_ended_early", 1)
	}
	moved := 0
	for _, r := range h.recs {
		if len(r.everH) > 1 {
			moved++
		}
	}
	n := 0
	for _, v := range h.reached {
		n += v
	}
	if n > 0 && moved > 0 {
		run.Nontrivial("serving|" + c.form + "|" + setKey(c.names) + "|" + qs(c.perm) + "|" + c.variant + "|" + h.script + "|" + strings.Join(h.kinds, ","))
	}
	run.Distinct("serving_configurations", c.form+"|"+setKey(c.names)+"|"+qs(c.perm)+"|"+c.variant)
	run.Distinct("serving_event_sequences", h.script+"|"+strings.Join(h.kinds, ","))
}

// ---------------------------------------------------------------- id sets

// sets in which ids are adversarial as strings: one id a proper prefix of another, ids that differ in a port suffix only,
// numeric suffixes 1/10/100, long common prefixes.
var adversarialIDSets = [][]string{
	{"bng-1", "bng-10", "bng-2"},
	{"a", "ab", "abc"},
	{"10.0.0.1", "10.0.0.10", "10.0.0.100"},
	{"bng-1:808", "bng-1:8081", "bng-1:8082"},
	{"bng-a.pop1", "bng-a.pop10", "bng-a.pop1.example.net"},
	{"bng-1", "bng-10", "bng-100", "bng-11"},
	{"10.0.0.1:80", "10.0.0.1:8081", "10.0.0.10:8081", "10.0.0.11:8081"},
	{"node", "node-1", "node-10", "edge"},
	{"bng-1", "bng-10", "bng-100", "bng-1000", "bng-2"},
	{"n1", "n10", "n11", "n100", "n2"},
}

var plainIDSets = [][]string{
	{"node-a", "node-b", "node-c"},
	{"bng-0:8081", "bng-1:8081", "bng-2:8081"},
	{"n0", "n1", "n2", "n3"},
	{"10.0.0.1:8081", "10.0.0.2:8081", "10.0.0.3:8081", "10.0.0.4:8081"},
	{"alpha", "bravo", "charlie", "delta", "echo"},
}

func urlSafeHost(x string) bool {
	if x == "" || strings.ContainsAny(x, " /?#@%\\") {
		return false
	}
	for _, r := range x {
		if r > 126 || r < 33 || r >= 'A' && r <= 'Z' {
			return false
		}
	}
	_, err := http.NewRequest("GET", "http://"+x+"/pool/status", nil)
	return err == nil
}

// seededAdversarial returns a set of n ids built from one base by extension (chains, siblings, port suffixes).
func seededAdversarial(rng *rand.Rand, n int) []string {
	bases := []string{"bng-", "node", "n", "10.0.0.", "pop1-bng", "edge.a", "r", "172.16.1.", "bng-1:80", "core-1.pop:8"}
	for tries := 0; tries < 1000; tries++ {
		b := bases[rng.IntN(len(bases))]
		var set []string
		cur := b + fmt.Sprint(1+rng.IntN(9))
		for len(set) < n {
			var x string
			switch rng.IntN(5) {
			case 0: // extend the last id by a digit
				cur += fmt.Sprint(rng.IntN(10))
				x = cur
			case 1: // sibling
				x = b + fmt.Sprint(rng.IntN(120))
			case 2: // an earlier id with a suffix
				if len(set) > 0 {
					x = set[rng.IntN(len(set))] + []string{"0", "1", "-b", ".x", "00"}[rng.IntN(5)]
				} else {
					x = cur
				}
			case 3: // a proper prefix of an earlier id
				if len(set) > 0 {
					y := set[rng.IntN(len(set))]
					if len(y) > 1 {
						x = y[:1+rng.IntN(len(y)-1)]
					}
				}
			case 4:
				x = cur
			}
			ok := x != "" && urlSafeHost(x) && !contains(set, x) && !strings.HasSuffix(x, ":") && !strings.HasSuffix(x, ".") && !strings.HasSuffix(x, "-")
			for _, y := range set {
				if aliases(x, y) {
					ok = false
				}
			}
			if ok {
				set = append(set, x)
			}
		}
		if idFamily(set) == "some-id-is-prefix-of-another" {
			return set
		}
	}
	panic("no adversarial set")
}

// ---------------------------------------------------------------- tests

type servingTask struct {
	form    string
	ids     []string
	perm    []int // order of the ids in the peer lists
	variant string
	script  string
	victim  int
	restart bool
	events  int
	nSubs   int
}

func runServingTask(name string, ti int, tk servingTask) {
	rng := run.SubRand(name, ti)
	n := len(tk.ids)
	addrs := append([]string(nil), tk.ids...)
	names := addrs
	if tk.form == "node-id-host-vs-peer-host-port" {
		addrs = make([]string, n)
		for i, h := range tk.ids {
			addrs[i] = h + ":8081"
		}
		names = addrs
	}
	c := newServingCluster(tk.form, tk.ids, addrs, names, rng)
	c.variant = tk.variant
	c.task = fmt.Sprintf("%s/%d", name, ti)
	for _, i := range tk.perm {
		c.perm = append(c.perm, names[i])
	}
	member := make([]bool, n)
	for i := range member {
		member[i] = true
	}
	switch tk.script {
	case "late-owner":
		member[tk.victim] = false
	case "random":
		for i := range member {
			member[i] = rng.IntN(4) > 0
		}
		cnt := 0
		for _, m := range member {
			if m {
				cnt++
			}
		}
		for i := 0; cnt < 2; i++ {
			if !member[i] {
				member[i] = true
				cnt++
			}
		}
	}
	for i := range c.nodes {
		if member[i] {
			list, spare, late := c.listFor(i, c.perm, tk.variant, member, rng)
			c.start(i, list, spare, late)
		}
	}
	h := newHist(c, member, tk.script, rng)
	subs := pickSubs(names, tk.nSubs, rng)
	h.settle() // every probe of a healthy cluster
	switch tk.script {
	case "down-up":
		scriptDownUp(h, c.nodes[tk.victim], subs)
	case "late-owner":
		scriptLateOwner(h, c.nodes[tk.victim], subs)
	case "remove-readd":
		scriptRemoveReadd(h, c.nodes[tk.victim], subs, tk.restart)
	case "random":
		scriptRandom(h, subs, tk.events)
	}
	h.finish()
	run.Count("serving_clusters_"+c.family, 1)
	run.Count("serving_clusters_form_"+c.form, 1)
	run.Count("serving_clusters_variant_"+tk.variant, 1)
	if ti%97 == 0 {
		for s, r := range h.recs {
			if len(r.everH) > 1 {
				sampleOnce("serving-history", h.wit(map[string]any{"subscriber": q(s), "owners_at_its_requests": keysOf(r.everH), "last_answer": map[string]string{"node": r.node, "ip": r.ip}, "pools_holding_it": c.holders(s)}))
				break
			}
		}
	}
}

func runServingTasks(name string, tasks []servingTask) {
	sem := make(chan struct{}, runtime.NumCPU())
	var wg sync.WaitGroup
	for ti, tk := range tasks {
		ti, tk := ti, tk
		wg.Add(1)
		sem <- struct{}{}
		go func() {
			defer wg.Done()
			defer func() { <-sem }()
			runServingTask(name, ti, tk)
		}()
	}
	wg.Wait()
}

func intPerms(n int) [][]int {
	idx := make([]string, n)
	for i := range idx {
		idx[i] = string(rune('0' + i))
	}
	var out [][]int
	for _, p := range permutations(idx) {
		q := make([]int, n)
		for i, x := range p {
			q[i] = int(x[0] - '0')
		}
		out = append(out, q)
	}
	return out
}

// TestServingAdversarialIDs: clusters whose node ids are adversarial as strings, configured in every order of the peer list
// and every construction variant; static serving, every health probe, and one failure/recovery of a node per cluster (thorough:
// of every node).
func TestServingAdversarialIDs(t *testing.T) {
	rng := run.Rand("serving-adversarial-sets")
	maxN := run.Pick(4, 5)
	var sets [][]string
	for _, s := range adversarialIDSets {
		if len(s) <= maxN {
			sets = append(sets, s)
		}
	}
	for i := 0; i < run.Pick(6, 16); i++ {
		sets = append(sets, seededAdversarial(rng, 3+i%2))
	}
	nSubs := run.Pick(12, 24)
	var tasks []servingTask
	for si, set := range sets {
		run.Distinct("serving_id_sets", setKey(set))
		perms := intPerms(len(set))
		for pi, p := range perms {
			for vi, v := range servingVariants {
				if len(set) >= 5 && vi%2 == 1 {
					continue // five ids: 120 orders x three of the variants
				}
				victims := []int{(si + pi + vi) % len(set)}
				if run.Thorough() && len(set) == 3 {
					victims = []int{0, 1, 2}
				} else if run.Thorough() && len(set) == 4 {
					victims = append(victims, (si+pi+vi+1+pi%3)%len(set))
				}
				for _, x := range victims {
					tasks = append(tasks, servingTask{form: "id-equals-address", ids: set, perm: p, variant: v, script: "down-up", victim: x, nSubs: nSubs})
				}
			}
		}
	}
	// the documented deployment form: node id = host name, the same host:port list on every node, in every order
	for _, hosts := range [][]string{{"bng-1", "bng-10", "bng-100"}, {"bng-1", "bng-11", "bng-2", "bng-21"}} {
		for pi, p := range intPerms(len(hosts)) {
			tasks = append(tasks, servingTask{form: "node-id-host-vs-peer-host-port", ids: hosts, perm: p, variant: "full-list", script: "down-up", victim: pi % len(hosts), nSubs: nSubs})
		}
	}
	runServingTasks("serving-adversarial", tasks)
	finishServingCounters()
}

// TestServingHistories: serving histories across health and membership changes, on adversarial and on ordinary ids: a node
// that joins late (every node of every set), a node that is removed and joins again, and seeded sequences of failures,
// recoveries, removals, joins, rounds and releases.
func TestServingHistories(t *testing.T) {
	rng := run.Rand("serving-history-sets")
	var sets [][]string
	sets = append(sets, plainIDSets...)
	sets = append(sets, adversarialIDSets[:6]...)
	for i := 0; i < run.Pick(4, 16); i++ {
		sets = append(sets, seededAdversarial(rng, 3+i%3))
	}
	nSubs := run.Pick(14, 28)
	var tasks []servingTask
	for si, set := range sets {
		run.Distinct("serving_id_sets", setKey(set))
		perms := intPerms(len(set))
		for r := 0; r < run.Pick(2, 6); r++ {
			p := perms[rng.IntN(len(perms))]
			for x := range set {
				v := servingVariants[(si+r+x)%len(servingVariants)]
				tasks = append(tasks, servingTask{form: "id-equals-address", ids: set, perm: p, variant: v, script: "late-owner", victim: x, nSubs: nSubs})
				tasks = append(tasks, servingTask{form: "id-equals-address", ids: set, perm: p, variant: v, script: "remove-readd", victim: x, restart: (r+x)%2 == 0, nSubs: nSubs})
			}
		}
	}
	nRandom := run.Pick(400, 3000)
	for i := 0; i < nRandom; i++ {
		set := sets[rng.IntN(len(sets))]
		perms := intPerms(len(set))
		tasks = append(tasks, servingTask{form: "id-equals-address", ids: set, perm: perms[rng.IntN(len(perms))], variant: servingVariants[rng.IntN(len(servingVariants))], script: "random", events: 10 + rng.IntN(20), nSubs: nSubs})
	}
	runServingTasks("serving-histories", tasks)
	finishServingCounters()
}

var servingCountersLast = map[string]int{}

// finishServingCounters turns the distinct sets into counters (floors are stated on counters).
func finishServingCounters() {
	for set, key := range map[string]string{"serving_configurations": "serving_configurations_distinct", "serving_event_sequences": "serving_event_sequences_distinct", "serving_id_sets": "serving_id_sets_distinct"} {
		n := run.DistinctCount(set)
		run.Count(key, n-servingCountersLast[key])
		servingCountersLast[key] = n
	}
}
